(* C04: copy(destination, count, pos) on the caller's array - what is written, and the FRAME condition:
   every character of the destination outside [0, min(count, size() - pos)) is unchanged (in particular no
   terminator is stored behind the copied characters: std::basic_string::copy does not terminate). *)
From Tetl Require Import Lib.Base Lib.Arr C08.Model C08.Spec C08.Core C08.ProofsFind C08.ProofsCmp
  C04.Model C04.ModelQ C04.Spec C04.SpecQ C04.QueryOk C04.Inv C04.InvOps C04.RefineBase C04.RefineQuery
  C04.ModelBuf C04.SpecBuf.
From Coq Require Import ZifyBool.
Local Open Scope Z_scope.
Ltac Zify.zify_post_hook ::= Z.to_euclidean_division_equations.

Lemma zlen_sub (l : list Z) i n : 0 <= i -> 0 <= n -> i + n <= zlen l -> zlen (sub l i n) = n.
Proof.
  intros Hi Hn Hle. unfold sub. rewrite zlen_firstn; [reflexivity|].
  rewrite zlen_skipn by lia. lia.
Qed.

(* a run of writes that starts at 0 and fits: the run, then the rest of the array *)
Lemma write_range_prefix (d l : list Z) : zlen l <= zlen d ->
  write_range d 0 l = Ok (l ++ skipn (Z.to_nat (zlen l)) d).
Proof.
  intros Hle. pose proof (zlen_nonneg l) as Hl0.
  pose proof (write_range_app l (firstn (Z.to_nat (zlen l)) d) [] (skipn (Z.to_nat (zlen l)) d)) as W.
  cbn [app] in W. rewrite firstn_skipn in W. change (zlen []) with 0 in W. apply W.
  rewrite firstn_length. unfold zlen in *. lia.
Qed.

(* a run that does not fit is not executed to the end: the write behind the array is UB *)
Lemma write_range_too_long (d l : list Z) : zlen d < zlen l -> forall d', write_range d 0 l <> Ok d'.
Proof.
  intros Hlt d' H. destruct l as [|x l]; [unfold zlen in Hlt; cbn [length] in Hlt; lia|].
  apply write_range_bounds in H; [lia|discriminate].
Qed.

Definition rlen_of (s : istr) (count pos : Z) : Z := Z.min count (get_size s - pos).

(** * copy(destination, count, pos), pos <= size() *)
Theorem copy_into_correct s d count pos : inv s -> pos_ok count -> pos_ok pos -> pos <= get_size s ->
  rlen_of s count pos <= zlen d ->
  copy_into_m s d count pos =
    Ok (rlen_of s count pos,
        sub (contents s) pos (rlen_of s count pos) ++ skipn (Z.to_nat (rlen_of s count pos)) d).
Proof.
  intros I Hc Hp Hle Hd. unfold copy_into_m, rlen_of in *.
  rewrite (copy_correct s count pos I Hc Hp Hle). cbn [fst snd].
  pose proof (contents_len s I) as CL. unfold pos_ok in *.
  assert (zlen (sub (contents s) pos (Z.min count (get_size s - pos))) = Z.min count (get_size s - pos)) as SL
    by (apply zlen_sub; lia).
  rewrite write_range_prefix by lia. rewrite SL. reflexivity.
Qed.

(* pos > size(): nothing is copied (documented in the header; std throws out_of_range) *)
Theorem copy_into_past_end s d count pos : get_size s < pos -> copy_into_m s d count pos = Ok (0, d).
Proof.
  intros H. unfold copy_into_m, C04.Model.copy_m. replace (pos >? get_size s) with true by lia. reflexivity.
Qed.

(* the frame condition, for EVERY call that returns: same length, and every character at an index
   >= the returned count is the one that was there *)
Theorem copy_into_frame s d count pos n d' : inv s -> pos_ok count -> pos_ok pos ->
  copy_into_m s d count pos = Ok (n, d') ->
  zlen d' = zlen d /\
  n = (if pos >? get_size s then 0 else rlen_of s count pos) /\
  (forall j, n <= j -> znth d' j = znth d j) /\
  (forall j, 0 <= j < n -> znth d' j = znth (contents s) (pos + j)).
Proof.
  intros I Hc Hp H. destruct (pos >? get_size s) eqn:E.
  - rewrite copy_into_past_end in H by lia. inversion H; subst. repeat split; try reflexivity. intros; lia.
  - pose proof (contents_len s I) as CL. unfold pos_ok in *. pose proof I as (_ & _ & Hs & _).
    unfold copy_into_m in H. rewrite (copy_correct s count pos I Hc Hp) in H by lia. cbn [fst snd] in H.
    fold (rlen_of s count pos) in H.
    assert (0 <= rlen_of s count pos) as Hr0 by (unfold rlen_of; lia).
    assert (zlen (sub (contents s) pos (rlen_of s count pos)) = rlen_of s count pos) as SL
      by (apply zlen_sub; unfold rlen_of; lia).
    destruct (write_range d 0 (sub (contents s) pos (rlen_of s count pos))) as [d1| | |] eqn:W; cbn [rbind] in H; try discriminate.
    inversion H; subst n d'. clear H.
    split; [exact (write_range_len _ _ _ _ W)|]. split; [reflexivity|]. split.
    + intros j Hj. apply (write_range_other _ _ _ _ j W); lia.
    + intros j Hj.
      destruct (Z_le_gt_dec (rlen_of s count pos) (zlen d)) as [Hfit|Hno].
      * rewrite write_range_prefix in W by lia. inversion W; subst d1.
        unfold znth. rewrite app_nth1 by (unfold zlen in SL; lia).
        unfold sub. rewrite nth_firstn_lt by lia. rewrite nth_skipn_add. f_equal. lia.
      * exfalso. refine (write_range_too_long d _ _ d1 W). lia.
Qed.

(* a destination shorter than the number of characters to copy: the call has undefined behaviour *)
Theorem copy_into_too_short s d count pos : inv s -> pos_ok count -> pos_ok pos -> pos <= get_size s ->
  zlen d < rlen_of s count pos -> forall r, copy_into_m s d count pos <> Ok r.
Proof.
  intros I Hc Hp Hle Hd r H. pose proof (contents_len s I) as CL. unfold pos_ok in *. pose proof I as (_ & _ & Hs & _).
  unfold copy_into_m in H. rewrite (copy_correct s count pos I Hc Hp Hle) in H. cbn [fst snd] in H.
  fold (rlen_of s count pos) in H.
  assert (zlen (sub (contents s) pos (rlen_of s count pos)) = rlen_of s count pos) as SL
    by (apply zlen_sub; unfold rlen_of in *; lia).
  destruct (write_range d 0 (sub (contents s) pos (rlen_of s count pos))) as [d1| | |] eqn:W; cbn [rbind] in H; try discriminate.
  refine (write_range_too_long d _ _ d1 W). lia.
Qed.

(** * against std::basic_string::copy *)
Lemma s_substr_sub l pos n : 0 <= pos <= slen l -> 0 <= n ->
  s_substr l pos n = Some (sub l pos (Z.min n (slen l - pos))).
Proof. intros Hp Hn. unfold s_substr. replace (pos <=? slen l) with true by lia. reflexivity. Qed.

Theorem copy_into_refines_std s d count pos r : inv s -> pos_ok count -> pos_ok pos ->
  s_copy_into (contents s) d count pos = Some r -> copy_into_m s d count pos = Ok r.
Proof.
  intros I Hc Hp H. pose proof (contents_len s I) as CL. unfold pos_ok in *. pose proof I as (_ & _ & Hs & _).
  unfold s_copy_into in H. unfold s_substr in H.
  change (slen (contents s)) with (zlen (contents s)) in H. rewrite CL in H.
  destruct (pos <=? get_size s) eqn:E; [|discriminate].
  change (take (Z.min count (get_size s - pos)) (drop pos (contents s)))
    with (sub (contents s) pos (rlen_of s count pos)) in H.
  assert (zlen (sub (contents s) pos (rlen_of s count pos)) = rlen_of s count pos) as SL
    by (apply zlen_sub; unfold rlen_of in *; lia).
  change (slen (sub (contents s) pos (rlen_of s count pos))) with (zlen (sub (contents s) pos (rlen_of s count pos))) in H.
  rewrite SL in H. change (slen d) with (zlen d) in H.
  destruct (rlen_of s count pos <=? zlen d) eqn:F; [|discriminate].
  inversion H; subst r. unfold drop. apply copy_into_correct; try assumption; unfold pos_ok; lia.
Qed.

(* std has an answer exactly when pos <= size() and the array holds rlen characters *)
Theorem s_copy_into_defined s d count pos : inv s -> pos_ok count -> pos_ok pos ->
  (s_copy_into (contents s) d count pos <> None <-> pos <= get_size s /\ rlen_of s count pos <= zlen d).
Proof.
  intros I Hc Hp. pose proof (contents_len s I) as CL. unfold pos_ok in *. pose proof I as (_ & _ & Hs & _).
  unfold s_copy_into, s_substr. change (slen (contents s)) with (zlen (contents s)). rewrite CL.
  destruct (pos <=? get_size s) eqn:E.
  - change (take (Z.min count (get_size s - pos)) (drop pos (contents s)))
      with (sub (contents s) pos (rlen_of s count pos)).
    assert (zlen (sub (contents s) pos (rlen_of s count pos)) = rlen_of s count pos) as SL
      by (apply zlen_sub; unfold rlen_of in *; lia).
    change (slen (sub (contents s) pos (rlen_of s count pos))) with (zlen (sub (contents s) pos (rlen_of s count pos))).
    rewrite SL. change (slen d) with (zlen d).
    destruct (rlen_of s count pos <=? zlen d) eqn:F; split; intros H; try lia; try discriminate; try (exfalso; apply H; reflexivity).
  - split; intros H; [exfalso; apply H; reflexivity|lia].
Qed.

(** * the same through the string_view the string converts to *)
Theorem view_copy_into_correct s d count pos : inv s -> pos_ok count -> pos_ok pos ->
  view_copy_into_m s d count pos = if pos <=? get_size s then copy_into_m s d count pos else Contract.
Proof.
  intros I Hc Hp. destruct (view_of_ok s I) as (Hv & Hch).
  pose proof (C08.ProofsCmp.copy_correct (view_of s) count pos Hv Hc Hp) as R.
  unfold copy_s in R. rewrite Hch in R. pose proof (contents_len s I) as CL.
  change (len (contents s)) with (zlen (contents s)) in R. rewrite CL in R.
  unfold view_copy_into_m. destruct (pos <=? get_size s) eqn:E.
  - destruct (C08.Model.copy_m (view_of s) count pos) as [nl| | |]; cbn [res_opt] in R; try contradiction.
    subst nl. cbn [rbind fst snd]. unfold copy_into_m.
    rewrite (copy_correct s count pos I Hc Hp) by lia. reflexivity.
  - destruct (C08.Model.copy_m (view_of s) count pos) as [nl| | |]; cbn [res_opt] in R; try contradiction.
    reflexivity.
Qed.
