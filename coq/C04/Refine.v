(* C04 refinement: every step and every history.  Whenever std::basic_string defines the result of
   an operation and the result fits into the capacity, the model returns (no precondition failure, no
   out-of-bounds access), keeps the invariant, and its contents are exactly the std result. *)
From Tetl Require Import Lib.Base Lib.Arr C08.Model C04.Model C04.Spec C04.Inv C04.InvOps
  C04.CstrFacts C04.RefineBase C04.RefineOps1 C04.RefineOps2 C04.RefineOps3.
From Coq Require Import ZifyBool.
Local Open Scope Z_scope.
Ltac Zify.zify_post_hook ::= Z.to_euclidean_division_equations.

(** * spec_step_fits is spec_step restricted to results that fit *)
Lemma slen_nonneg l : 0 <= slen l.
Proof. unfold slen. lia. Qed.

Lemma slen_app a b : slen (a ++ b) = slen a + slen b.
Proof. apply zlen_app. Qed.

Lemma slen_rep n c : 0 <= n -> slen (rep n c) = n.
Proof. intros H. unfold rep, slen. rewrite repeat_length. lia. Qed.

Lemma s_prefix_inv src n x : s_prefix src n = Some x -> n <= slen src /\ x = take n src.
Proof. unfold s_prefix. destruct (n <=? slen src) eqn:E; intros H; inversion H. split; [lia|reflexivity]. Qed.

Lemma s_insert_inv l pos x r : s_insert l pos x = Some r ->
  pos <= slen l /\ r = take pos l ++ x ++ drop pos l.
Proof. unfold s_insert. destruct (pos <=? slen l) eqn:E; intros H; inversion H. split; [lia|reflexivity]. Qed.

Lemma slen_insert l pos x : 0 <= pos <= slen l -> slen (take pos l ++ x ++ drop pos l) = slen l + slen x.
Proof.
  intros H. rewrite !slen_app. change slen with zlen in *. rewrite zlen_take, zlen_drop by lia. lia.
Qed.

Lemma pre_len_le l o l' : (match o with SAppendFill n _ | SInsertFill _ n _ | SResize n _ | SAssignFill n _ => 0 <= n | _ => True end) ->
  spec_step l o = Some l' -> pre_len l o <= slen l'.
Proof.
  intros W H. pose proof (slen_nonneg l'). destruct o; cbn [pre_len spec_step] in *; try lia.
  - inversion H; subst. rewrite slen_app, slen_rep; lia.
  - apply s_insert_inv in H as (Hp & ->).
    pose proof (slen_nonneg (take index l)). pose proof (slen_nonneg (drop index l)).
    rewrite !slen_app, slen_rep by lia.
    assert (slen (take index l) + slen (drop index l) = slen l).
    { rewrite <- slen_app. unfold take, drop. rewrite firstn_skipn. reflexivity. }
    lia.
  - inversion H; subst. unfold s_resize. destruct (count <=? slen l) eqn:E.
    + change slen with zlen. unfold take. destruct (Z_le_gt_dec 0 count).
      * rewrite zlen_firstn; change zlen with slen; lia.
      * lia.
    + rewrite slen_app, slen_rep; lia.
  - inversion H; subst. rewrite slen_rep; lia.
Qed.

Definition sop_nonneg (o : sop) : Prop :=
  match o with SAppendFill n _ | SInsertFill _ n _ | SResize n _ | SAssignFill n _ => 0 <= n | _ => True end.

Lemma spec_step_fits_iff c l o l' : sop_nonneg o ->
  spec_step_fits c l o = Some l' <-> spec_step l o = Some l' /\ slen l' <= c.
Proof.
  intros W. unfold spec_step_fits. split.
  - destruct (pre_len l o <=? c); [|discriminate].
    destruct (spec_step l o) as [x|]; [|discriminate].
    destruct (slen x <=? c) eqn:E; [|discriminate]. intros H; inversion H; subst. split; [reflexivity|lia].
  - intros (H & Hf). pose proof (pre_len_le l o l' W H) as P.
    replace (pre_len l o <=? c) with true by lia. rewrite H. replace (slen l' <=? c) with true by lia. reflexivity.
Qed.

Lemma op_wf_nonneg o : op_wf o -> sop_nonneg (sop_of o).
Proof. destruct o; cbn [op_wf sop_of sop_nonneg]; unfold szt; intros; lia. Qed.

(** * one step *)
Lemma step_refines s o l' : inv s -> op_wf o -> arg_ok (cap s) o ->
  spec_step (contents s) (sop_of o) = Some l' -> slen l' <= cap s -> refines s (step s o) l'.
Proof.
  intros I W A H Hfit. pose proof I as (Hc & Hl & Hs & _).
  pose proof (contents_len s I) as L. change zlen with slen in L.
  destruct o; cbn [step sop_of spec_step op_wf arg_ok] in *; unfold szt in W.
  - (* clear *) inversion H; subst. apply clear_ref. exact I.
  - (* push_back *) inversion H; subst. rewrite slen_app, L in Hfit. change (slen [ch]) with 1 in Hfit.
    apply push_back_ref; [exact I|lia].
  - (* pop_back *) destruct (contents s) as [|x r] eqn:E; [discriminate|].
    replace l' with (removelast (contents s)) by (rewrite E; inversion H; reflexivity).
    apply pop_back_ref; [exact I|]. rewrite E. discriminate.
  - (* append(count, ch) *) inversion H; subst. rewrite slen_app, slen_rep, L in Hfit by lia.
    apply append_fill_ref; [exact I|lia|lia].
  - (* append(ptr, count) *)
    destruct (s_prefix src count) as [x|] eqn:E; [|discriminate]. cbn [omap] in H. inversion H; subst.
    apply s_prefix_inv in E as (Hle & ->). change slen with zlen in *.
    rewrite zlen_app, zlen_take in Hfit by lia.
    apply append_ptr_ref; [exact I|lia|lia].
  - (* append(first, last) *) inversion H; subst. rewrite slen_app, L in Hfit.
    apply append_range_ref; [exact I|]. change zlen with slen. lia.
  - (* insert(index, ptr, count) *)
    destruct (s_prefix src count) as [x|] eqn:E; [|discriminate]. cbn [obind2] in H.
    apply s_prefix_inv in E as (Hle & ->). apply s_insert_inv in H as (Hp & ->).
    rewrite slen_insert in Hfit by lia. change slen with zlen in *. rewrite zlen_take in Hfit by lia.
    apply insert_impl_ref; [exact I|lia|lia|lia].
  - (* insert(index, count, ch) *)
    apply s_insert_inv in H as (Hp & ->). rewrite slen_insert, slen_rep in Hfit by lia.
    apply insert_fill_ref; [exact I|lia|lia|lia].
  - (* erase(index, count) *)
    unfold s_erase in H. destruct (index <=? slen (contents s)) eqn:E; [|discriminate]. inversion H; subst.
    rewrite L. apply erase_ref; [exact I|lia|lia].
  - (* erase(first, last) *)
    unfold s_erase_range in H. destruct (start + distance <=? slen (contents s)) eqn:E; [|discriminate].
    inversion H; subst. apply erase_range_ref; [exact I|lia|lia|lia].
  - (* resize *)
    inversion H; subst. apply resize_ref; [exact I|]. split; [lia|].
    unfold s_resize in Hfit. destruct (count <=? slen (contents s)) eqn:E.
    + change slen with zlen in *. unfold take in Hfit. rewrite zlen_firstn in Hfit; lia.
    + rewrite slen_app, slen_rep in Hfit; lia.
  - (* assign(ptr, count) *)
    apply s_prefix_inv in H as (Hle & ->). change slen with zlen in *. rewrite zlen_take in Hfit by lia.
    destruct (ctor_ptr_ref (cap s) (ckind s) src count Hc ltac:(lia) Hfit) as (s' & E & I' & C' & K' & Cn).
    exists s'. split; [exact E|]. split; [unfold keeps; tauto|exact Cn].
  - (* assign(count, ch) *)
    inversion H; subst. rewrite slen_rep in Hfit by lia.
    destruct (ctor_fill_ref (cap s) (ckind s) count ch Hc ltac:(lia)) as (s' & E & I' & C' & K' & Cn).
    exists s'. split; [exact E|]. split; [unfold keeps; tauto|exact Cn].
  - (* substr *)
    unfold s_substr in H. destruct (pos <=? slen (contents s)) eqn:E; [|discriminate]. inversion H; subst.
    rewrite L. apply substr_ref; [exact I|lia|lia].
  - (* swap *)
    inversion H; subst. change slen with zlen in Hfit.
    destruct (ctor_ptr_ref (cap s) (ckind s) l' (zlen l') Hc ltac:(pose proof (zlen_nonneg l'); lia) Hfit)
      as (o & E & Io & Co & Ko & Cn).
    rewrite E. cbn [rbind].
    destruct (swap_ref s o I Io Co) as (a' & b' & Es & Ka & Ca & _ & _).
    rewrite Es. cbn [rbind fst]. exists a'. split; [reflexivity|]. split; [exact Ka|].
    rewrite Ca, Cn. unfold take, zlen. rewrite Nat2Z.id. apply firstn_all.
  - (* append(s) *)
    destruct (s_cstr a) as [x|] eqn:E; [|discriminate]. cbn [omap] in H. inversion H; subst.
    rewrite slen_app, L in Hfit. apply append_cstr_ref; [exact I|exact W|exact E|exact Hfit].
  - (* append(str) *) inversion H; subst. rewrite slen_app, L in Hfit. apply append_str_ref; [exact I|exact Hfit].
  - (* append(str, pos, count) *)
    destruct (s_substr src pos count) as [x|] eqn:E; [|discriminate]. cbn [omap] in H. inversion H; subst.
    rewrite slen_app, L in Hfit. apply (append_str_sub_ref s src pos count x); try assumption; lia.
  - (* append(view, pos, count) *)
    destruct (s_substr src pos count) as [x|] eqn:E; [|discriminate]. cbn [omap] in H. inversion H; subst.
    rewrite slen_app, L in Hfit. apply (append_view_sub_ref s src pos count x); try assumption; lia.
  - (* assign(s) *) apply assign_cstr_ref; assumption.
  - (* assign(str, pos, count) *) apply (assign_str_sub_ref s src pos count l'); try assumption; lia.
  - (* assign(view, pos, count) *) apply (assign_view_sub_ref s src pos count l'); try assumption; lia.
  - (* insert(index, s) *)
    destruct (s_cstr a) as [x|] eqn:E; [|discriminate]. cbn [obind2] in H.
    apply s_insert_inv in H as (Hp & ->). rewrite slen_insert, L in Hfit by lia.
    destruct W as (W1 & W2). apply insert_cstr_ref; [exact I|lia|exact W2|exact E|exact Hfit].
  - (* insert(index, str/view, indexStr, count) *)
    destruct (s_substr src indexStr count) as [x|] eqn:E; [|discriminate]. cbn [obind2] in H.
    apply s_insert_inv in H as (Hp & ->). rewrite slen_insert, L in Hfit by lia.
    apply (insert_str_sub_ref s index src indexStr count x); try assumption; lia.
  - (* erase(position) *)
    destruct (pos <? slen (contents s)) eqn:E; [|discriminate].
    unfold s_erase_range in H. destruct (pos + 1 <=? slen (contents s)); [|discriminate]. inversion H; subst.
    apply erase_pos_ref; [exact I|lia].
  - (* etl::erase(s, value) *)
    inversion H; subst. destruct (free_erase_if_ref (fun x => x =? value) s I) as (s' & n & E & K & C & _).
    rewrite E. cbn [rbind fst]. exists s'. split; [reflexivity|]. split; [exact K|exact C].
  - (* etl::erase_if(s, pred) *)
    inversion H; subst. destruct (free_erase_if_ref (pred_of k) s I) as (s' & n & E & K & C & _).
    rewrite E. cbn [rbind fst]. exists s'. split; [reflexivity|]. split; [exact K|exact C].
  - (* append(first, last), iterators that are not random access *) inversion H; subst. rewrite slen_app, L in Hfit.
    apply append_range_cat_ref; [exact I|]. change zlen with slen. lia.
Qed.

(* the count returned by etl::erase / etl::erase_if is the std one *)
Lemma returned_count_refines s o : inv s ->
  match o with OFreeErase _ | OFreeEraseIf _ => True | _ => False end ->
  returned_count s o = Ok (spec_returned_count (contents s) (sop_of o)).
Proof.
  intros I Ho. destruct o; try contradiction; cbn [returned_count spec_returned_count sop_of].
  - destruct (free_erase_if_ref (fun x => x =? value) s I) as (s' & n & E & _ & _ & Hn). rewrite E. cbn [rbind snd]. rewrite Hn. reflexivity.
  - destruct (free_erase_if_ref (pred_of k) s I) as (s' & n & E & _ & _ & Hn). rewrite E. cbn [rbind snd]. rewrite Hn. reflexivity.
Qed.

(* swap exchanges the contents of BOTH objects and both keep the invariant *)
Lemma swap_both a b : inv a -> inv b -> cap b = cap a ->
  exists a' b', swap_m a b = Ok (a', b') /\ inv a' /\ inv b' /\ contents a' = contents b /\ contents b' = contents a /\
                cap a' = cap a /\ cap b' = cap b.
Proof.
  intros Ia Ib Hc. destruct (swap_ref a b Ia Ib Hc) as (a' & b' & E & Ka & Ca & Kb & Cb).
  exists a', b'. split; [exact E|]. unfold keeps in *. tauto.
Qed.

(* the iterator returned by erase(first, last) / erase(position) is the std one: begin() + start *)
Lemma returned_pos_refines o : returned_pos o = spec_returned_pos (sop_of o).
Proof. destruct o; reflexivity. Qed.

(** * every history *)
Theorem run_refines : forall ops s l', inv s -> Forall op_wf ops -> Forall (arg_ok (cap s)) ops ->
  spec_run_fits (cap s) (contents s) (map sop_of ops) = Some l' -> refines s (run s ops) l'.
Proof.
  induction ops as [|o ops IH]; intros s l' I W A H; cbn [run map spec_run_fits] in *.
  - inversion H; subst. exists s. split; [reflexivity|]. split; [apply keeps_refl; exact I|reflexivity].
  - inversion W as [|? ? Wo Wr]; subst. inversion A as [|? ? Ao Ar]; subst.
    destruct (spec_step_fits (cap s) (contents s) (sop_of o)) as [l1|] eqn:E; [|discriminate]. cbn [obind2] in H.
    apply spec_step_fits_iff in E as (E1 & F1); [|apply op_wf_nonneg; exact Wo].
    destruct (step_refines s o l1 I Wo Ao E1 F1) as (s1 & Es & K1 & C1).
    rewrite Es. cbn [rbind].
    destruct (IH s1 l' (keeps_inv _ _ K1) Wr) as (s' & E' & K' & C').
    { rewrite (keeps_cap _ _ K1). exact Ar. }
    { rewrite (keeps_cap _ _ K1), C1. exact H. }
    exists s'. split; [exact E'|]. split; [eapply keeps_trans; eassumption|exact C'].
Qed.

Lemma contents_default c ck : cap_ok c -> contents (default_str c ck) = [].
Proof.
  intros Hc. destruct (inv_default c ck Hc) as (I0 & G0). pose proof (contents_len _ I0) as L.
  rewrite G0 in L. destruct (contents (default_str c ck)); [reflexivity|]. unfold zlen in L. cbn [length] in L. lia.
Qed.

(* from the empty string, for every capacity and character type *)
Theorem history_refines c ck ops l' : cap_ok c -> Forall op_wf ops -> Forall (arg_ok c) ops ->
  spec_run_fits c [] (map sop_of ops) = Some l' ->
  exists s', run (default_str c ck) ops = Ok s' /\ contents s' = l' /\ get_size s' = slen l' /\
             terminator s' = 0 /\ cap s' = c /\ ckind s' = ck /\ zlen (buf s') = c + 1.
Proof.
  intros Hc W A H. destruct (inv_default c ck Hc) as (I0 & _). destruct (default_cap c ck) as (C0 & K0).
  destruct (run_refines ops (default_str c ck) l' I0 W) as (s' & E & K & C).
  { rewrite C0. exact A. }
  { rewrite C0, (contents_default c ck Hc). exact H. }
  exists s'. split; [exact E|]. split; [exact C|].
  pose proof (keeps_inv _ _ K) as I'. pose proof I' as (_ & Hl & _ & Ht).
  split; [rewrite <- C; symmetry; apply (contents_len s' I')|].
  split; [exact Ht|]. split; [rewrite (keeps_cap _ _ K); exact C0|].
  split; [rewrite (keeps_ckind _ _ K); exact K0|]. rewrite Hl, (keeps_cap _ _ K), C0. reflexivity.
Qed.

(** * after EVERY step of a history: a prefix of a fitting history is a fitting history *)
Lemma spec_run_fits_app c : forall ops1 l ops2 l', spec_run_fits c l (ops1 ++ ops2) = Some l' ->
  exists l1, spec_run_fits c l ops1 = Some l1 /\ spec_run_fits c l1 ops2 = Some l'.
Proof.
  induction ops1 as [|o ops1 IH]; intros l ops2 l' H; cbn [app spec_run_fits] in *.
  - exists l. split; [reflexivity|exact H].
  - destruct (spec_step_fits c l o) as [l0|]; [|discriminate]. cbn [obind2] in *. apply IH. exact H.
Qed.

Theorem history_refines_every_step c ck ops1 ops2 l' : cap_ok c -> Forall op_wf (ops1 ++ ops2) ->
  Forall (arg_ok c) (ops1 ++ ops2) -> spec_run_fits c [] (map sop_of (ops1 ++ ops2)) = Some l' ->
  exists l1 s1, spec_run_fits c [] (map sop_of ops1) = Some l1 /\ run (default_str c ck) ops1 = Ok s1 /\
                contents s1 = l1 /\ get_size s1 = slen l1 /\ terminator s1 = 0.
Proof.
  intros Hc W A H. rewrite map_app in H. destruct (spec_run_fits_app c _ _ _ _ H) as (l1 & H1 & _).
  apply Forall_app in W as (W1 & _). apply Forall_app in A as (A1 & _).
  destruct (history_refines c ck ops1 l1 Hc W1 A1 H1) as (s1 & E & C & G & T & _).
  exists l1, s1. tauto.
Qed.

(** * a pointer into the string itself: [self_src s off] (Model.v) with off + n <= size() denotes the n characters
      of the contents from off on, so the refinement theorems apply to s.append(s.data() + off, n) etc. with the std
      result "the same call on std::string" *)
Lemma self_src_prefix s off n : inv s -> 0 <= off -> 0 <= n -> off + n <= get_size s ->
  s_prefix (self_src s off) n = Some (take n (drop off (contents s))).
Proof.
  intros (Hc & Hl & Hs & _) Ho Hn Hfit. unfold s_prefix, self_src, take, drop, contents.
  assert (Hlen : slen (skipn (Z.to_nat off) (buf s)) = cap s + 1 - off).
  { unfold slen. rewrite skipn_length. unfold zlen in Hl. lia. }
  rewrite Hlen. replace (n <=? cap s + 1 - off) with true by lia. f_equal.
  rewrite skipn_firstn_comm. rewrite firstn_firstn. f_equal. lia.
Qed.
