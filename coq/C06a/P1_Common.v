(* C06a, part 1: small facts shared by the P1_* proof files: accessors on a decomposed list,
   splitting a list at two indices, filter arithmetic, the explicit form of a checked write. *)
From Tetl Require Import Lib.Base Lib.Arr C06a.Model.
From Coq Require Import Arith Lia.
Ltac Zify.zify_post_hook ::= Z.to_euclidean_division_equations.

Section Common.
Context {A : Type}.
Implicit Types (l P M T : list A).

Lemma oget_mid P x T : oget (P ++ x :: T) (length P) = Ok x.
Proof. unfold oget. rewrite get_mid. reflexivity. Qed.

Lemma oset_mid P x T v : oset (P ++ x :: T) (length P) v = Ok (P ++ v :: T).
Proof. unfold oset. rewrite set_mid. reflexivity. Qed.

Lemma oget_mid' P x T i : i = length P -> oget (P ++ x :: T) i = Ok x.
Proof. intros ->. apply oget_mid. Qed.

Lemma oset_mid' P x T v i : i = length P -> oset (P ++ x :: T) i v = Ok (P ++ v :: T).
Proof. intros ->. apply oset_mid. Qed.

(* swap with the larger index first *)
Lemma swap_split_rev P a M b T :
  swap (P ++ a :: M ++ b :: T) (length P + S (length M)) (length P) = Some (P ++ b :: M ++ a :: T).
Proof.
  unfold swap. rewrite get_mid.
  replace (P ++ a :: M ++ b :: T) with ((P ++ a :: M) ++ b :: T) by (rewrite <- app_assoc; reflexivity).
  replace (length P + S (length M)) with (length (P ++ a :: M))
    by (rewrite app_length; cbn [length]; lia).
  rewrite get_mid, set_mid.
  replace ((P ++ a :: M) ++ a :: T) with (P ++ a :: (M ++ a :: T)) by (rewrite <- app_assoc; reflexivity).
  rewrite set_mid. reflexivity.
Qed.

Lemma oswap_split_rev P a M b T i j :
  i = length P + S (length M) -> j = length P ->
  oswap (P ++ a :: M ++ b :: T) i j = Ok (P ++ b :: M ++ a :: T).
Proof. intros -> ->. unfold oswap. rewrite swap_split_rev. reflexivity. Qed.

Lemma oswap_split' P a M b T i j :
  i = length P -> j = length P + S (length M) ->
  oswap (P ++ a :: M ++ b :: T) i j = Ok (P ++ b :: M ++ a :: T).
Proof. intros -> ->. unfold oswap. rewrite swap_split. reflexivity. Qed.

Lemma sub_length l i j : j <= length l -> length (sub l i j) = j - i.
Proof. intros H. unfold sub. rewrite firstn_length, skipn_length. lia. Qed.

(* l = l[0,first) ++ l[first,last) ++ l[last,..) *)
Lemma split3 l first last : first <= last -> last <= length l ->
  l = firstn first l ++ sub l first last ++ skipn last l.
Proof.
  intros H1 H2. unfold sub.
  rewrite <- (firstn_skipn first l) at 1. f_equal.
  rewrite <- (firstn_skipn (last - first) (skipn first l)) at 1. f_equal.
  rewrite skipn_skipn. f_equal. lia.
Qed.

(* sub as "drop i of the first j" *)
Lemma sub_alt l i j : sub l i j = skipn i (firstn j l).
Proof.
  unfold sub. destruct (le_lt_dec i j) as [H|H].
  - rewrite firstn_skipn_comm. f_equal. f_equal. lia.
  - replace (j - i) with 0 by lia. cbn [firstn]. symmetry. apply skipn_all2.
    rewrite firstn_length. lia.
Qed.

Lemma filter_length_compl (p : A -> bool) l :
  length (filter p l) + length (filter (fun x => negb (p x)) l) = length l.
Proof.
  induction l as [|x t IH]; cbn [filter length]; [reflexivity|].
  destruct (p x); cbn [negb length]; lia.
Qed.

Lemma filter_length_le (p : A -> bool) l : length (filter p l) <= length l.
Proof.
  induction l as [|x t IH]; cbn [filter length]; [lia|]. destruct (p x); cbn [length]; lia.
Qed.

(* the cell at index i, exposed *)
Lemma get_split l i x : get l i = Some x -> l = firstn i l ++ x :: skipn (S i) l.
Proof.
  unfold get. revert i. induction l as [|a t IH]; intros i H.
  - destruct i; discriminate.
  - destruct i as [|i]; cbn [nth_error] in H.
    + inversion H; subst. reflexivity.
    + cbn [firstn skipn app]. f_equal. apply IH. exact H.
Qed.

Lemma get_skipn l i x : get l i = Some x -> skipn i l = x :: skipn (S i) l.
Proof.
  unfold get. revert i. induction l as [|a t IH]; intros i H.
  - destruct i; discriminate.
  - destruct i as [|i]; cbn [nth_error] in H.
    + inversion H; subst. reflexivity.
    + cbn [skipn]. apply IH. exact H.
Qed.

(* explicit form of a checked write *)
Definition upd l i (v : A) : list A := firstn i l ++ v :: skipn (S i) l.

Lemma set_upd l i v : i < length l -> set l i v = Some (upd l i v).
Proof.
  intros H. destruct (get_some l i H) as [x Hx].
  unfold upd. rewrite (get_split l i x Hx) at 1.
  assert (E : length (firstn i l) = i) by (rewrite firstn_length; lia).
  generalize (set_mid (firstn i l) x (skipn (S i) l) v). rewrite E. intros ->. reflexivity.
Qed.

Lemma oset_upd l i v : i < length l -> oset l i v = Ok (upd l i v).
Proof. intros H. unfold oset. rewrite set_upd by exact H. reflexivity. Qed.

Lemma upd_length l i v : i < length l -> length (upd l i v) = length l.
Proof.
  intros H. unfold upd. rewrite app_length. cbn [length]. rewrite firstn_length, skipn_length. lia.
Qed.

Lemma firstn_upd_le l i v k : k <= i -> i < length l -> firstn k (upd l i v) = firstn k l.
Proof.
  intros H1 H2. unfold upd. rewrite firstn_app, firstn_firstn, firstn_length.
  replace (Nat.min k i) with k by lia.
  replace (k - Nat.min i (length l)) with 0 by lia. cbn [firstn]. apply app_nil_r.
Qed.

Lemma firstn_upd_S l i v : i < length l -> firstn (S i) (upd l i v) = firstn i l ++ [v].
Proof.
  intros H. unfold upd. rewrite firstn_app, firstn_length.
  replace (S i - Nat.min i (length l)) with 1 by lia.
  rewrite (firstn_all2 (n := S i) (firstn i l)) by (rewrite firstn_length; lia). reflexivity.
Qed.

Lemma skipn_upd_gt l i v k : i < k -> i < length l -> skipn k (upd l i v) = skipn k l.
Proof.
  intros H1 H2. unfold upd. rewrite skipn_app, firstn_length.
  rewrite (skipn_all2 (n := k) (firstn i l)) by (rewrite firstn_length; lia). cbn [app].
  replace (k - Nat.min i (length l)) with (S (k - S i)) by lia. rewrite skipn_cons.
  rewrite skipn_skipn. f_equal. lia.
Qed.

Lemma skipn_upd_eq l i v : i < length l -> skipn i (upd l i v) = v :: skipn (S i) l.
Proof.
  intros H. unfold upd. rewrite skipn_app, firstn_length.
  rewrite (skipn_all2 (n := i) (firstn i l)) by (rewrite firstn_length; lia).
  replace (i - Nat.min i (length l)) with 0 by lia. reflexivity.
Qed.

Lemma oget_some l i x : get l i = Some x -> oget l i = Ok x.
Proof. intros H. unfold oget. rewrite H. reflexivity. Qed.

Lemma firstn_S_get l i x : get l i = Some x -> firstn (S i) l = firstn i l ++ [x].
Proof.
  unfold get. revert i. induction l as [|a t IH]; intros i H.
  - destruct i; discriminate.
  - destruct i as [|i]; cbn [nth_error] in H.
    + inversion H; subst. reflexivity.
    + cbn [firstn app]. f_equal. apply IH. exact H.
Qed.

Lemma filter_all_true (f : A -> bool) l : Forall (fun x => f x = true) l -> filter f l = l.
Proof.
  induction 1 as [|x t Hx Ht IH]; cbn [filter]; [reflexivity|]. rewrite Hx, IH. reflexivity.
Qed.

Lemma filter_all_false (f : A -> bool) l : Forall (fun x => f x = false) l -> filter f l = [].
Proof.
  induction 1 as [|x t Hx Ht IH]; cbn [filter]; [reflexivity|]. rewrite Hx, IH. reflexivity.
Qed.

Lemma Forall_filter_true (f : A -> bool) l : Forall (fun x => f x = true) (filter f l).
Proof. apply Forall_forall. intros x Hx. apply filter_In in Hx. apply Hx. Qed.

(* find_if (as an index, counting from i): either nothing satisfies q, or the list splits at
   the first hit *)
Lemma find_if_from_spec (q : A -> bool) : forall l i,
  (find_if_from q l i = i + length l /\ Forall (fun x => q x = false) l)
  \/ (exists K g R, l = K ++ g :: R /\ find_if_from q l i = i + length K
                    /\ Forall (fun x => q x = false) K /\ q g = true).
Proof.
  induction l as [|x t IH]; intros i.
  - left. cbn [find_if_from length]. split; [lia|constructor].
  - cbn [find_if_from]. destruct (q x) eqn:Ex.
    + right. exists [], x, t. cbn [app length]. repeat split; try lia; [constructor|exact Ex].
    + destruct (IH (S i)) as [(H1 & H2)|(K & g & R & H1 & H2 & H3 & H4)].
      * left. cbn [length]. split; [lia|]. constructor; assumption.
      * right. exists (x :: K), g, R. cbn [app length]. subst t. repeat split; try lia.
        -- constructor; assumption.
        -- exact H4.
Qed.

End Common.
