(* C06a, sorting family: shared facts.
   - the comparator hypotheses (strict weak order, as boolean facts) and their consequences
   - sorted_by over appends, lower / upper bounds
   - checked-array access on decomposed lists (P ++ x :: T), with the index as a side condition
   - key classes (equiv), stability as "every key class keeps its order", and the
     uniqueness of the sorted stable arrangement
   - the facts that make Spec.stable_sort_spec meaningful: sorted, permutation, stable *)
From Tetl Require Import Lib.Base Lib.Arr C06a.Model C06a.Spec.
From Coq Require Import Arith Lia Sorting.Sorted Sorting.Permutation.
Ltac Zify.zify_post_hook ::= Z.to_euclidean_division_equations.

(* solve  i = length (...)  side conditions *)
Ltac len := repeat first [rewrite app_length | progress cbn [length]]; lia.
(* right-associate list expressions *)
Ltac lassoc := repeat rewrite <- app_assoc; cbn [app].
(* side conditions of the access lemmas: a list re-association or an index equation *)
Ltac side := first [ solve [lassoc; reflexivity] | solve [len] ].

Section Access.
Context {A : Type}.
Implicit Types (l P M T : list A).

Lemma oget_at P x T i : i = length P -> oget (P ++ x :: T) i = Ok x.
Proof. intros ->. unfold oget. rewrite get_mid. reflexivity. Qed.

Lemma oset_at P x T i v : i = length P -> oset (P ++ x :: T) i v = Ok (P ++ v :: T).
Proof. intros ->. unfold oset. rewrite set_mid. reflexivity. Qed.

Lemma oswap_fwd P a M b T i j : i = length P -> j = length P + S (length M) ->
  oswap (P ++ a :: M ++ b :: T) i j = Ok (P ++ b :: M ++ a :: T).
Proof. intros -> ->. unfold oswap. rewrite swap_split. reflexivity. Qed.

Lemma swap_split_rev P a M b T :
  swap (P ++ a :: M ++ b :: T) (length P + S (length M)) (length P) = Some (P ++ b :: M ++ a :: T).
Proof.
  unfold swap. rewrite get_mid.
  assert (E1 : P ++ a :: M ++ b :: T = (P ++ a :: M) ++ b :: T) by (lassoc; reflexivity).
  assert (L1 : length P + S (length M) = length (P ++ a :: M)) by len.
  rewrite E1 at 1. rewrite L1 at 1. rewrite get_mid.
  rewrite E1. rewrite L1. rewrite set_mid.
  replace ((P ++ a :: M) ++ a :: T) with (P ++ a :: (M ++ a :: T)) by (lassoc; reflexivity).
  rewrite set_mid. reflexivity.
Qed.

Lemma oswap_bwd P a M b T i j : j = length P -> i = length P + S (length M) ->
  oswap (P ++ a :: M ++ b :: T) i j = Ok (P ++ b :: M ++ a :: T).
Proof. intros -> ->. unfold oswap. rewrite swap_split_rev. reflexivity. Qed.

(* adjacent cells *)
Lemma oswap_adj_bwd P a b T i j : j = length P -> i = S (length P) ->
  oswap (P ++ a :: b :: T) i j = Ok (P ++ b :: a :: T).
Proof. intros Hj Hi. apply (oswap_bwd P a [] b T); cbn [length]; lia. Qed.

(* the same with the decomposition of the list as a side condition *)
Lemma oget_in l P x T i : l = P ++ x :: T -> i = length P -> oget l i = Ok x.
Proof. intros -> Hi. apply oget_at. exact Hi. Qed.

Lemma oset_in l P x T i v : l = P ++ x :: T -> i = length P -> oset l i v = Ok (P ++ v :: T).
Proof. intros -> Hi. apply oset_at. exact Hi. Qed.

Lemma oswap_in_fwd l P a M b T i j : l = P ++ a :: M ++ b :: T ->
  i = length P -> j = length P + S (length M) -> oswap l i j = Ok (P ++ b :: M ++ a :: T).
Proof. intros -> Hi Hj. apply oswap_fwd; assumption. Qed.

Lemma oswap_in_bwd l P a M b T i j : l = P ++ a :: M ++ b :: T ->
  j = length P -> i = length P + S (length M) -> oswap l i j = Ok (P ++ b :: M ++ a :: T).
Proof. intros -> Hi Hj. apply oswap_bwd; assumption. Qed.

Lemma split_at (l : list A) i : i <= length l -> exists P T, l = P ++ T /\ length P = i.
Proof.
  intros H. exists (firstn i l), (skipn i l). split.
  - symmetry. apply firstn_skipn.
  - rewrite firstn_length. lia.
Qed.

Lemma list_last_case (l : list A) : l = [] \/ exists l' y, l = l' ++ [y].
Proof.
  destruct l as [|a t]; [left; reflexivity|right].
  destruct (exists_last (l := a :: t) ltac:(discriminate)) as (l' & y & E). eauto.
Qed.

Lemma filter_length_le (p : A -> bool) l : length (filter p l) <= length l.
Proof. induction l as [|a t IH]; cbn [filter length]; [lia|]. destruct (p a); cbn [length]; lia. Qed.
End Access.

Section Order.
Context {A : Type}.
Variable lt : A -> A -> bool.
Implicit Types (l P M T : list A) (x y z a b c k : A).

(* same key class: neither is less than the other *)
Definition equiv (x y : A) : bool := negb (lt x y) && negb (lt y x).

(* the comparator is a strict weak order *)
Hypothesis lt_irrefl : forall x, lt x x = false.
Hypothesis lt_trans : forall x y z, lt x y = true -> lt y z = true -> lt x z = true.
Hypothesis lt_incomp : forall x y z,
  lt x y = false -> lt y x = false -> lt y z = false -> lt z y = false -> lt x z = false.

Lemma cmp_asym x y : lt x y = true -> lt y x = false.
Proof.
  intros H. destruct (lt y x) eqn:E; [|reflexivity].
  pose proof (lt_trans _ _ _ H E) as C. rewrite lt_irrefl in C. discriminate.
Qed.

(* "not less" is transitive *)
Lemma cmp_negtrans x y z : lt x y = false -> lt y z = false -> lt x z = false.
Proof.
  intros H1 H2. destruct (lt x z) eqn:E; [|reflexivity].
  destruct (lt y x) eqn:E1.
  - pose proof (lt_trans _ _ _ E1 E) as C. congruence.
  - destruct (lt z y) eqn:E2.
    + pose proof (lt_trans _ _ _ E E2) as C. congruence.
    + pose proof (lt_incomp x y z H1 E1 H2 E2). congruence.
Qed.

Lemma equiv_refl x : equiv x x = true.
Proof. unfold equiv. rewrite lt_irrefl. reflexivity. Qed.

Lemma equiv_sym x y : equiv x y = equiv y x.
Proof. unfold equiv. apply andb_comm. Qed.

Lemma equiv_true x y : equiv x y = true <-> lt x y = false /\ lt y x = false.
Proof. unfold equiv. destruct (lt x y), (lt y x); cbn; intuition congruence. Qed.

Lemma equiv_trans x y z : equiv x y = true -> equiv y z = true -> equiv x z = true.
Proof.
  rewrite !equiv_true. intros [H1 H2] [H3 H4]. split.
  - apply (lt_incomp x y z); assumption.
  - apply (lt_incomp z y x); assumption.
Qed.

(** ** sortedness *)
Notation sorted := (sorted_by lt).
(* nothing in l is less than a *)
Definition lb (a : A) (l : list A) : Prop := Forall (fun b => lt b a = false) l.
(* c is less than nothing in l *)
Definition ub (c : A) (l : list A) : Prop := Forall (fun s => lt c s = false) l.

Lemma sorted_nil : sorted [].
Proof. constructor. Qed.

Lemma sorted_cons a l : sorted (a :: l) <-> lb a l /\ sorted l.
Proof.
  split.
  - intros H. apply StronglySorted_inv in H. destruct H as [H1 H2]. split; assumption.
  - intros [H1 H2]. constructor; assumption.
Qed.

Lemma sorted_one a : sorted [a].
Proof. apply sorted_cons. split; constructor. Qed.

Lemma sorted_app l1 l2 :
  sorted (l1 ++ l2) <-> sorted l1 /\ sorted l2 /\ Forall (fun a => lb a l2) l1.
Proof.
  induction l1 as [|a t IH]; cbn [app].
  - split; [intros H; repeat split; [constructor|assumption|constructor]|intros (_ & H & _); exact H].
  - rewrite !sorted_cons, IH. unfold lb. rewrite Forall_app, Forall_cons_iff. tauto.
Qed.

Lemma sorted_snoc l c : sorted (l ++ [c]) <-> sorted l /\ ub c l.
Proof.
  rewrite sorted_app. unfold ub, lb. split.
  - intros (H1 & _ & H3). split; [exact H1|].
    eapply Forall_impl; [|exact H3]. intros a Ha. inversion Ha; assumption.
  - intros (H1 & H2). repeat split; [exact H1|apply sorted_one|].
    eapply Forall_impl; [|exact H2]. intros a Ha. constructor; [exact Ha|constructor].
Qed.

Lemma lb_weaken a b l : lb a l -> lt a b = false -> lb b l.
Proof.
  unfold lb. intros H Hab. eapply Forall_impl; [|exact H].
  intros z Hz. cbv beta in *. eapply cmp_negtrans; eassumption.
Qed.

Lemma ub_weaken c d l : ub c l -> lt d c = false -> ub d l.
Proof.
  unfold ub. intros H Hdc. eapply Forall_impl; [|exact H].
  intros s Hs. cbv beta in *. eapply cmp_negtrans; eassumption.
Qed.

Lemma lb_perm a l l' : Permutation l l' -> lb a l -> lb a l'.
Proof. unfold lb. intros HP H. eapply Permutation_Forall; eassumption. Qed.

Lemma ub_perm c l l' : Permutation l l' -> ub c l -> ub c l'.
Proof. unfold ub. intros HP H. eapply Permutation_Forall; eassumption. Qed.

(** ** stability: every key class appears in the same order *)
Definition same_classes (l' l : list A) : Prop :=
  forall k, filter (equiv k) l' = filter (equiv k) l.

Lemma same_classes_refl l : same_classes l l.
Proof. intros k. reflexivity. Qed.

Lemma same_classes_trans l1 l2 l3 : same_classes l1 l2 -> same_classes l2 l3 -> same_classes l1 l3.
Proof. intros H1 H2 k. rewrite H1. apply H2. Qed.

Lemma same_classes_app l1 l1' l2 l2' :
  same_classes l1' l1 -> same_classes l2' l2 -> same_classes (l1' ++ l2') (l1 ++ l2).
Proof. intros H1 H2 k. rewrite !filter_app, H1, H2. reflexivity. Qed.

(* swapping an adjacent, strictly ordered pair keeps every class in order *)
Lemma same_classes_swap P x y T : lt x y = true ->
  same_classes (P ++ x :: y :: T) (P ++ y :: x :: T).
Proof.
  intros H k. rewrite !filter_app. f_equal. cbn [filter].
  destruct (equiv k x) eqn:Ex, (equiv k y) eqn:Ey; try reflexivity.
  exfalso. rewrite equiv_sym in Ex. pose proof (equiv_trans _ _ _ Ex Ey) as C.
  apply equiv_true in C. destruct C as [C _]. congruence.
Qed.

(* there is only one sorted arrangement with given class sequences *)
Lemma sorted_stable_unique : forall l1 l2,
  sorted l1 -> sorted l2 -> same_classes l1 l2 -> l1 = l2.
Proof.
  induction l1 as [|a t1 IH]; intros l2 S1 S2 H.
  - destruct l2 as [|b t2]; [reflexivity|].
    specialize (H b). cbn [filter] in H. rewrite equiv_refl in H. discriminate.
  - destruct l2 as [|b t2].
    { specialize (H a). cbn [filter] in H. rewrite equiv_refl in H. discriminate. }
    apply sorted_cons in S1. destruct S1 as [L1 S1].
    apply sorted_cons in S2. destruct S2 as [L2 S2].
    assert (Eab : b = a).
    { pose proof (H a) as Ha. cbn [filter] in Ha. rewrite equiv_refl in Ha.
      destruct (equiv a b) eqn:Eq; [inversion Ha; reflexivity|].
      exfalso.
      assert (Ia : In a t2).
      { assert (I : In a (filter (equiv a) t2)) by (rewrite <- Ha; left; reflexivity).
        apply filter_In in I. tauto. }
      assert (Ib : In b t1).
      { pose proof (H b) as Hb. cbn [filter] in Hb. rewrite equiv_refl in Hb.
        rewrite equiv_sym, Eq in Hb.
        assert (I : In b (filter (equiv b) t1)) by (rewrite Hb; left; reflexivity).
        apply filter_In in I. tauto. }
      unfold lb in L1, L2. rewrite Forall_forall in L1, L2.
      pose proof (L1 _ Ib) as C1. pose proof (L2 _ Ia) as C2.
      assert (C : equiv a b = true) by (apply equiv_true; split; assumption).
      congruence. }
    subst b. f_equal. apply IH; [assumption|assumption|].
    intros k. specialize (H k). cbn [filter] in H. destruct (equiv k a); [inversion H; reflexivity|exact H].
Qed.

(** ** Spec.insert_sorted / Spec.stable_sort_spec *)
Definition ins := fun (acc : list A) (x : A) => insert_sorted lt x acc.

Lemma insert_sorted_app x S1 S2 :
  ub x S1 -> Forall (fun y => lt x y = true) S2 -> insert_sorted lt x (S1 ++ S2) = S1 ++ x :: S2.
Proof.
  intros H1 H2. induction S1 as [|a t IH]; cbn [app insert_sorted].
  - destruct S2 as [|b t2]; [reflexivity|]. cbn [insert_sorted].
    inversion H2 as [|? ? Hb _]; subst. rewrite Hb. reflexivity.
  - inversion H1 as [|? ? Ha Ht]; subst. rewrite Ha. f_equal. apply IH. exact Ht.
Qed.

(* in a sorted list the elements greater than x form a suffix *)
Lemma sorted_split x l : sorted l ->
  exists S1 S2, l = S1 ++ S2 /\ ub x S1 /\ Forall (fun y => lt x y = true) S2.
Proof.
  induction l as [|a t IH]; intros Hs.
  - exists [], []. repeat split; constructor.
  - apply sorted_cons in Hs. destruct Hs as [Hl Hs].
    destruct (lt x a) eqn:E.
    + exists [], (a :: t). repeat split; [constructor|].
      constructor; [exact E|].
      unfold lb in Hl. eapply Forall_impl; [|exact Hl]. intros z Hz. cbv beta in Hz.
      destruct (lt x z) eqn:Ez; [reflexivity|].
      pose proof (cmp_negtrans _ _ _ Ez Hz). congruence.
    + destruct (IH Hs) as (S1 & S2 & -> & H1 & H2).
      exists (a :: S1), S2. repeat split; [constructor; assumption|assumption].
Qed.

Lemma insert_sorted_perm x l : Permutation (insert_sorted lt x l) (x :: l).
Proof.
  induction l as [|a t IH]; cbn [insert_sorted]; [reflexivity|].
  destruct (lt x a); [reflexivity|].
  rewrite IH. apply perm_swap.
Qed.

Lemma insert_sorted_sorted x l : sorted l -> sorted (insert_sorted lt x l).
Proof.
  intros Hs. destruct (sorted_split x l Hs) as (S1 & S2 & -> & H1 & H2).
  rewrite insert_sorted_app by assumption.
  apply sorted_app in Hs. destruct Hs as (Hs1 & Hs2 & H12).
  apply sorted_app. repeat split.
  - exact Hs1.
  - apply sorted_cons. split; [|exact Hs2].
    unfold lb. eapply Forall_impl; [|exact H2]. intros b Hb. apply cmp_asym. exact Hb.
  - unfold ub in H1. rewrite Forall_forall in *. intros a Ha.
    constructor; [apply H1; exact Ha|apply H12; exact Ha].
Qed.

Lemma insert_sorted_classes x l k : sorted l ->
  filter (equiv k) (insert_sorted lt x l) = filter (equiv k) (l ++ [x]).
Proof.
  intros Hs. destruct (sorted_split x l Hs) as (S1 & S2 & -> & H1 & H2).
  rewrite insert_sorted_app by assumption.
  rewrite !filter_app. cbn [filter]. rewrite <- app_assoc. f_equal.
  destruct (equiv k x) eqn:Ex; [|rewrite app_nil_r; reflexivity].
  assert (E : filter (equiv k) S2 = []).
  { clear - H2 Ex lt_incomp. induction S2 as [|b t IH]; [reflexivity|].
    inversion H2 as [|? ? Hb Ht]; subst. cbn [filter].
    destruct (equiv k b) eqn:Eb; [|apply IH; exact Ht].
    exfalso. rewrite equiv_sym in Ex. pose proof (equiv_trans _ _ _ Ex Eb) as C.
    apply equiv_true in C. destruct C as [C _]. congruence. }
  rewrite E. reflexivity.
Qed.

Lemma fold_ins_sorted : forall T Sd, sorted Sd -> sorted (fold_left ins T Sd).
Proof.
  induction T as [|x T IH]; intros Sd H; cbn [fold_left]; [exact H|].
  apply IH. apply insert_sorted_sorted. exact H.
Qed.

Lemma fold_ins_perm : forall T Sd, Permutation (fold_left ins T Sd) (Sd ++ T).
Proof.
  induction T as [|x T IH]; intros Sd; cbn [fold_left]; [rewrite app_nil_r; reflexivity|].
  rewrite IH. unfold ins. rewrite insert_sorted_perm. cbn [app]. apply Permutation_middle.
Qed.

Lemma fold_ins_classes : forall T Sd k, sorted Sd ->
  filter (equiv k) (fold_left ins T Sd) = filter (equiv k) (Sd ++ T).
Proof.
  induction T as [|x T IH]; intros Sd k H; cbn [fold_left]; [rewrite app_nil_r; reflexivity|].
  rewrite IH by (apply insert_sorted_sorted; exact H).
  rewrite filter_app. unfold ins. rewrite insert_sorted_classes by exact H.
  rewrite <- filter_app, <- app_assoc. reflexivity.
Qed.

Theorem stable_sort_spec_sorted l : sorted (stable_sort_spec lt l).
Proof. apply fold_ins_sorted. apply sorted_nil. Qed.

Theorem stable_sort_spec_perm l : Permutation (stable_sort_spec lt l) l.
Proof. unfold stable_sort_spec. apply (fold_ins_perm l []). Qed.

Theorem stable_sort_spec_stable l : same_classes (stable_sort_spec lt l) l.
Proof. intros k. apply (fold_ins_classes l [] k). apply sorted_nil. Qed.

(* THE characterisation: any sorted rearrangement that keeps every class in order IS the spec *)
Theorem stable_sort_spec_unique l l' :
  sorted l' -> same_classes l' l -> l' = stable_sort_spec lt l.
Proof.
  intros H1 H2. apply sorted_stable_unique; [exact H1|apply stable_sort_spec_sorted|].
  eapply same_classes_trans; [exact H2|]. intros k. symmetry. apply stable_sort_spec_stable.
Qed.

End Order.
