(* C06 (part a) — fix-miss round 5: WHICH swap the swapping algorithms call.

   iter_swap.hpp:   using etl::swap; swap( *a, *b);      - an unqualified call: a swap supplied by the element type (found by
   argument-dependent lookup) is used, etl::swap (move-construct + two move-assignments) only when there is none.
   [alg.swap] iter_swap: "Effects: As if by swap( *a, *b)"; swap_ranges: "swap( *(first1 + n), *(first2 + n))"; [alg.reverse]:
   "applies iter_swap to all pairs ..."; [alg.partitions] partition requires only Cpp17ValueSwappable - it can only swap.

   Model.v models a swap as the exchange of the two whole elements (`oswap`).  Here the swap operation is a PARAMETER `sw` of
   the loops that call iter_swap, and the element type of the run is a table slot (id, payload) whose own swap exchanges the
   payloads and leaves the ids in place (`uswap`) - observably different from moving whole elements.  The loops also count
   their swaps.                                                                                                           *)
From Tetl Require Import Lib.Base Lib.Arr C06a.Model.
From Coq Require Import Arith List.
Import ListNotations.

Section SwapParam.
Context {A : Type}.
Variable sw : list A -> nat -> nat -> res (list A).   (* what `swap( *(first + i), *(first + j))` does to the range *)

(* iter_swap.hpp *)
Definition iter_swap_sw (l : list A) (i j : nat) : res (list A) := sw l i j.

(* reverse.hpp, random-access path: for (--last; first < last; ++first, --last) iter_swap(first, last) *)
Fixpoint reverse_ra_loop_sw (fuel : nat) (l : list A) (i j c : nat) : res (list A * nat) :=
  match fuel with
  | O => OutOfFuel
  | S k => if i <? j then do l' <- sw l i j; reverse_ra_loop_sw k l' (S i) (pred j) (S c) else Ok (l, c)
  end.
Definition reverse_ra_sw (l : list A) (first last : nat) : res (list A * nat) :=
  if first =? last then Ok (l, 0) else reverse_ra_loop_sw (S (last - first)) l first (pred last) 0.

(* reverse.hpp, bidirectional path: while (first != last && first != --last) iter_swap(first++, last) *)
Fixpoint reverse_bidi_loop_sw (fuel : nat) (l : list A) (i j c : nat) : res (list A * nat) :=
  match fuel with
  | O => OutOfFuel
  | S k =>
      if i =? j then Ok (l, c)
      else let j' := pred j in
           if i =? j' then Ok (l, c)
           else do l' <- sw l i j'; reverse_bidi_loop_sw k l' (S i) j' (S c)
  end.
Definition reverse_bidi_sw (l : list A) (first last : nat) : res (list A * nat) :=
  reverse_bidi_loop_sw (S (last - first)) l first last 0.

(* partition.hpp: if (p( *i)) { iter_swap(i, first); ++first; } *)
Fixpoint partition_loop_sw (fuel : nat) (p : A -> bool) (l : list A) (first i last : nat) : res (list A * nat) :=
  match fuel with
  | O => OutOfFuel
  | S k =>
      if i =? last then Ok (l, first)
      else
        do x <- oget l i;
        if p x then do l' <- sw l i first; partition_loop_sw k p l' (S first) (S i) last
        else partition_loop_sw k p l first (S i) last
  end.
Definition partition_sw (p : A -> bool) (l : list A) : res (list A * nat) :=
  let first := find_if_from (fun x => negb (p x)) l 0 in
  let last := length l in
  if first =? last then Ok (l, first) else partition_loop_sw (S last) p l first (S first) last.

End SwapParam.

Section Slots.
Context {I P : Type}.
Definition slot : Type := (I * P)%type.

(* the element type's own swap: the payloads are exchanged, the ids stay where they are *)
Definition uswap (l : list slot) (i j : nat) : res (list slot) :=
  match get l i, get l j with
  | Some (a, x), Some (b, y) =>
      match set l i (a, y) with
      | Some l1 => match set l1 j (b, x) with Some l2 => Ok l2 | None => UB OutOfBounds end
      | None => UB OutOfBounds
      end
  | _, _ => UB OutOfBounds
  end.

(* swap_ranges.hpp on two slot tables: while (first1 != last1) iter_swap(first1++, first2++) *)
Fixpoint swap_ranges_slots (l1 l2 : list slot) (c : nat) : res (list slot * list slot * nat) :=
  match l1 with
  | [] => Ok ([], l2, c)
  | (a, x) :: t1 =>
      match l2 with
      | [] => UB OutOfBounds
      | (b, y) :: t2 =>
          do r <- swap_ranges_slots t1 t2 (S c);
          let '(r1, r2, c') := r in Ok ((a, y) :: r1, (b, x) :: r2, c')
      end
  end.

End Slots.
