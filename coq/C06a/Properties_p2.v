(* C06 (part a) — property theorems about the sorting family: insertion_sort (= etl::stable_sort),
   gnome_sort (= etl::sort, nth_element, partial_sort), inplace_merge, merge_sort, bubble_sort,
   exchange_sort.  All for EVERY list (unbounded), every element type and every comparator that is
   a strict weak order, given as three boolean facts:
     irreflexive                     forall x, lt x x = false
     transitive                      forall x y z, lt x y = true -> lt y z = true -> lt x z = true
     incomparability is transitive   forall x y z, lt x y = false -> lt y x = false ->
                                       lt y z = false -> lt z y = false -> lt x z = false
   (each theorem lists only the ones its proof uses).  `= Ok ...` also says: no access outside the
   range (no UB OutOfBounds) and the model's fuel suffices (no OutOfFuel). *)
From Tetl Require Import Lib.Base Lib.Arr C06a.Model C06a.Spec.
From Tetl Require Import C06a.P2_Common C06a.P2_Insertion C06a.P2_Merge C06a.P2_Gnome C06a.P2_Bubble
  C06a.P2_Nonvacuous.
From Coq Require Import Sorting.Sorted Sorting.Permutation.

(** * 1. insertion_sort = the stable sort of the specification *)
Theorem C06_insertion_sort_correct : forall (A : Type) (lt : A -> A -> bool),
  (forall x, lt x x = false) ->
  (forall x y z, lt x y = true -> lt y z = true -> lt x z = true) ->
  (forall x y z, lt x y = false -> lt y x = false -> lt y z = false -> lt z y = false -> lt x z = false) ->
  forall l : list A, insertion_sort lt l = Ok (stable_sort_spec lt l).
Proof. exact @insertion_sort_correct. Qed.
Print Assumptions C06_insertion_sort_correct.

Theorem C06_insertion_sort_sorts : forall (A : Type) (lt : A -> A -> bool),
  (forall x, lt x x = false) ->
  (forall x y z, lt x y = true -> lt y z = true -> lt x z = true) ->
  (forall x y z, lt x y = false -> lt y x = false -> lt y z = false -> lt z y = false -> lt x z = false) ->
  forall l : list A,
  exists l', insertion_sort lt l = Ok l' /\ sorted_by lt l' /\ Permutation l' l.
Proof. exact @insertion_sort_sorts. Qed.
Print Assumptions C06_insertion_sort_sorts.

(** what makes stable_sort_spec THE stable sort: sorted, a permutation, every key class in its
    original order — and it is the only list with these properties *)
Theorem C06_stable_sort_spec_sorted : forall (A : Type) (lt : A -> A -> bool),
  (forall x, lt x x = false) ->
  (forall x y z, lt x y = true -> lt y z = true -> lt x z = true) ->
  (forall x y z, lt x y = false -> lt y x = false -> lt y z = false -> lt z y = false -> lt x z = false) ->
  forall l : list A, sorted_by lt (stable_sort_spec lt l).
Proof. exact @stable_sort_spec_sorted. Qed.
Print Assumptions C06_stable_sort_spec_sorted.

Theorem C06_stable_sort_spec_perm : forall (A : Type) (lt : A -> A -> bool) (l : list A),
  Permutation (stable_sort_spec lt l) l.
Proof. exact @stable_sort_spec_perm. Qed.
Print Assumptions C06_stable_sort_spec_perm.

Theorem C06_stable_sort_spec_stable : forall (A : Type) (lt : A -> A -> bool),
  (forall x, lt x x = false) ->
  (forall x y z, lt x y = true -> lt y z = true -> lt x z = true) ->
  (forall x y z, lt x y = false -> lt y x = false -> lt y z = false -> lt z y = false -> lt x z = false) ->
  forall (l : list A) (x : A),
  filter (fun y => negb (lt x y) && negb (lt y x)) (stable_sort_spec lt l)
  = filter (fun y => negb (lt x y) && negb (lt y x)) l.
Proof. exact @stable_sort_spec_stable. Qed.
Print Assumptions C06_stable_sort_spec_stable.

Theorem C06_stable_sort_spec_unique : forall (A : Type) (lt : A -> A -> bool),
  (forall x, lt x x = false) ->
  (forall x y z, lt x y = true -> lt y z = true -> lt x z = true) ->
  (forall x y z, lt x y = false -> lt y x = false -> lt y z = false -> lt z y = false -> lt x z = false) ->
  forall l l' : list A,
  sorted_by lt l' ->
  (forall x, filter (fun y => negb (lt x y) && negb (lt y x)) l'
             = filter (fun y => negb (lt x y) && negb (lt y x)) l) ->
  l' = stable_sort_spec lt l.
Proof. exact @stable_sort_spec_unique. Qed.
Print Assumptions C06_stable_sort_spec_unique.

(** * 3. inplace_merge = the stable merge of the specification *)
Theorem C06_inplace_merge_correct : forall (A : Type) (lt : A -> A -> bool) (l1 l2 : list A),
  sorted_by lt l1 -> sorted_by lt l2 ->
  inplace_merge lt (l1 ++ l2) 0 (length l1) (length (l1 ++ l2)) = Ok (merge_spec lt l1 l2).
Proof. exact @inplace_merge_sorted_halves. Qed.
Print Assumptions C06_inplace_merge_correct.

(* on a sub-range [|P|, |P|+|l1|+|l2|) of a longer list: nothing outside is touched; the equation
   needs only the right run sorted and no property of the comparator at all *)
Theorem C06_inplace_merge_in_range : forall (A : Type) (lt : A -> A -> bool) (P l1 l2 T : list A),
  sorted_by lt l2 ->
  inplace_merge lt (P ++ l1 ++ l2 ++ T) (length P) (length P + length l1) (length P + length l1 + length l2)
  = Ok (P ++ merge_spec lt l1 l2 ++ T).
Proof. exact @inplace_merge_in_range. Qed.
Print Assumptions C06_inplace_merge_in_range.

Theorem C06_merge_spec_sorted : forall (A : Type) (lt : A -> A -> bool),
  (forall x, lt x x = false) ->
  (forall x y z, lt x y = true -> lt y z = true -> lt x z = true) ->
  (forall x y z, lt x y = false -> lt y x = false -> lt y z = false -> lt z y = false -> lt x z = false) ->
  forall l1 l2 : list A,
  sorted_by lt l1 -> sorted_by lt l2 -> sorted_by lt (merge_spec lt l1 l2).
Proof. exact @merge_spec_sorted. Qed.
Print Assumptions C06_merge_spec_sorted.

Theorem C06_merge_spec_perm : forall (A : Type) (lt : A -> A -> bool) (l1 l2 : list A),
  Permutation (merge_spec lt l1 l2) (l1 ++ l2).
Proof. exact @merge_spec_perm. Qed.
Print Assumptions C06_merge_spec_perm.

(* the merge is stable: every key class reads "its l1 members, then its l2 members" *)
Theorem C06_merge_spec_stable : forall (A : Type) (lt : A -> A -> bool),
  (forall x y z, lt x y = true -> lt y z = true -> lt x z = true) ->
  (forall x y z, lt x y = false -> lt y x = false -> lt y z = false -> lt z y = false -> lt x z = false) ->
  forall l1 l2 : list A,
  sorted_by lt l1 -> sorted_by lt l2 ->
  forall x : A,
  filter (fun y => negb (lt x y) && negb (lt y x)) (merge_spec lt l1 l2)
  = filter (fun y => negb (lt x y) && negb (lt y x)) (l1 ++ l2).
Proof. exact @merge_spec_classes. Qed.
Print Assumptions C06_merge_spec_stable.

(** * 4. merge_sort = the stable sort of the specification *)
Theorem C06_merge_sort_correct : forall (A : Type) (lt : A -> A -> bool),
  (forall x, lt x x = false) ->
  (forall x y z, lt x y = true -> lt y z = true -> lt x z = true) ->
  (forall x y z, lt x y = false -> lt y x = false -> lt y z = false -> lt z y = false -> lt x z = false) ->
  forall l : list A, merge_sort lt l = Ok (stable_sort_spec lt l).
Proof. exact @merge_sort_correct. Qed.
Print Assumptions C06_merge_sort_correct.

Theorem C06_merge_sort_sorts : forall (A : Type) (lt : A -> A -> bool),
  (forall x, lt x x = false) ->
  (forall x y z, lt x y = true -> lt y z = true -> lt x z = true) ->
  (forall x y z, lt x y = false -> lt y x = false -> lt y z = false -> lt z y = false -> lt x z = false) ->
  forall l : list A,
  exists l', merge_sort lt l = Ok l' /\ sorted_by lt l' /\ Permutation l' l.
Proof. exact @merge_sort_sorts. Qed.
Print Assumptions C06_merge_sort_sorts.

(** * 2. gnome_sort: terminates within the model's n*n + n + 1 iterations, sorts, and is stable *)
Theorem C06_gnome_sort_sorts : forall (A : Type) (lt : A -> A -> bool),
  (forall x, lt x x = false) ->
  (forall x y z, lt x y = true -> lt y z = true -> lt x z = true) ->
  (forall x y z, lt x y = false -> lt y x = false -> lt y z = false -> lt z y = false -> lt x z = false) ->
  forall l : list A,
  exists l', gnome_sort lt l = Ok l' /\ sorted_by lt l' /\ Permutation l' l /\
             forall x, filter (fun y => negb (lt x y) && negb (lt y x)) l'
                       = filter (fun y => negb (lt x y) && negb (lt y x)) l.
Proof. exact @gnome_sort_sorts. Qed.
Print Assumptions C06_gnome_sort_sorts.

Theorem C06_gnome_sort_correct : forall (A : Type) (lt : A -> A -> bool),
  (forall x, lt x x = false) ->
  (forall x y z, lt x y = true -> lt y z = true -> lt x z = true) ->
  (forall x y z, lt x y = false -> lt y x = false -> lt y z = false -> lt z y = false -> lt x z = false) ->
  forall l : list A, gnome_sort lt l = Ok (stable_sort_spec lt l).
Proof. exact @gnome_sort_correct. Qed.
Print Assumptions C06_gnome_sort_correct.

(** * 5. bubble_sort, exchange_sort: sorted permutation (they are not stable, see below) *)
Theorem C06_bubble_sort_sorts : forall (A : Type) (lt : A -> A -> bool),
  (forall x, lt x x = false) ->
  (forall x y z, lt x y = true -> lt y z = true -> lt x z = true) ->
  (forall x y z, lt x y = false -> lt y x = false -> lt y z = false -> lt z y = false -> lt x z = false) ->
  forall l : list A,
  exists l', bubble_sort lt l = Ok l' /\ sorted_by lt l' /\ Permutation l' l.
Proof. exact @bubble_sort_sorts. Qed.
Print Assumptions C06_bubble_sort_sorts.

Theorem C06_exchange_sort_sorts : forall (A : Type) (lt : A -> A -> bool),
  (forall x, lt x x = false) ->
  (forall x y z, lt x y = true -> lt y z = true -> lt x z = true) ->
  (forall x y z, lt x y = false -> lt y x = false -> lt y z = false -> lt z y = false -> lt x z = false) ->
  forall l : list A,
  exists l', exchange_sort lt l = Ok l' /\ sorted_by lt l' /\ Permutation l' l.
Proof. exact @exchange_sort_sorts. Qed.
Print Assumptions C06_exchange_sort_sorts.

(* not a defect (the standard does not ask std::sort-like algorithms for stability): the two
   quadratic sorts reorder equal keys; comparator = pairs compared by first component *)
Theorem C06_bubble_sort_not_stable :
  exists l, bubble_sort (fun a b : nat * nat => fst a <? fst b) l
            <> Ok (stable_sort_spec (fun a b : nat * nat => fst a <? fst b) l).
Proof. exact bubble_sort_not_stable. Qed.
Print Assumptions C06_bubble_sort_not_stable.

Theorem C06_exchange_sort_not_stable :
  exists l, exchange_sort (fun a b : nat * nat => fst a <? fst b) l
            <> Ok (stable_sort_spec (fun a b : nat * nat => fst a <? fst b) l).
Proof. exact exchange_sort_not_stable. Qed.
Print Assumptions C06_exchange_sort_not_stable.

(* the hypotheses are satisfiable by a comparator with non-trivial key classes *)
Example C06a_p2_nonvacuous :
  exists lt : nat * nat -> nat * nat -> bool,
    (forall x, lt x x = false) /\
    (forall x y z, lt x y = true -> lt y z = true -> lt x z = true) /\
    (forall x y z, lt x y = false -> lt y x = false -> lt y z = false -> lt z y = false -> lt x z = false) /\
    lt (0, 0) (1, 0) = true /\
    (lt (1, 0) (1, 1) = false /\ lt (1, 1) (1, 0) = false /\ (1, 0) <> (1, 1)) /\
    gnome_sort lt [(1, 0); (1, 1); (0, 2); (1, 3); (0, 4)] = Ok [(0, 2); (0, 4); (1, 0); (1, 1); (1, 3)] /\
    stable_sort_spec lt [(1, 0); (1, 1); (0, 2); (1, 3); (0, 4)] = [(0, 2); (0, 4); (1, 0); (1, 1); (1, 3)].
Proof. exact p2_nonvacuous. Qed.
