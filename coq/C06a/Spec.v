(* C06a specification: what [alg.modifying.operations], [alg.sorting] of the C++ standard
   prescribe, on plain lists.  No indices-with-cursors, no swaps, no fuel. *)
From Tetl Require Import Lib.Base Lib.Arr.
From Coq Require Import Sorting.Sorted Sorting.Permutation.

Section Spec.
Context {A : Type}.

(* [alg.rotate]: element at first + (i + (last - middle)) mod (last - first) gets old first + i;
   returns first + (last - middle) *)
Definition rotate_spec (l : list A) (first middle last : nat) : list A * nat :=
  (firstn first l ++ sub l middle last ++ sub l first middle ++ skipn last l, first + (last - middle)).

Definition reverse_spec (l : list A) (first last : nat) : list A :=
  firstn first l ++ rev (sub l first last) ++ skipn last l.

Definition swap_ranges_spec (l1 l2 : list A) : list A * list A :=
  (firstn (length l1) l2, l1 ++ skipn (length l1) l2).

(* [alg.remove]: the kept elements in order; the returned iterator is the end of them *)
Definition remove_if_spec (p : A -> bool) (l : list A) : list A := filter (fun x => negb (p x)) l.

(* [alg.unique]: all but the first element of every consecutive group of equivalent elements
   (each element compared with its predecessor in the original sequence) are eliminated *)
Fixpoint drop_adjacent (eqv : A -> A -> bool) (prev : A) (l : list A) : list A :=
  match l with
  | [] => []
  | y :: t => if eqv prev y then drop_adjacent eqv y t else y :: drop_adjacent eqv y t
  end.
Definition unique_spec (eqv : A -> A -> bool) (l : list A) : list A :=
  match l with [] => [] | x :: t => x :: drop_adjacent eqv x t end.

(* [alg.partitions] *)
Definition partition_point_spec (p : A -> bool) (l : list A) : nat := length (filter p l).
Definition is_partitioned_at (p : A -> bool) (l : list A) (k : nat) : Prop :=
  Forall (fun x => p x = true) (firstn k l) /\ Forall (fun x => p x = false) (skipn k l).
Definition stable_partition_spec (p : A -> bool) (l : list A) : list A * nat :=
  (filter p l ++ filter (fun x => negb (p x)) l, length (filter p l)).

(* [alg.shift] for 0 < n < length *)
Definition shift_left_spec (l : list A) (n : nat) : list A := skipn n l.          (* new [first, ret) *)
Definition shift_right_spec (l : list A) (n : nat) : list A := firstn (length l - n) l. (* new [ret, last) *)

(* [alg.sort]: sorted w.r.t. comp = no later element is less than an earlier one *)
Definition sorted_by (lt : A -> A -> bool) (l : list A) : Prop :=
  StronglySorted (fun a b => lt b a = false) l.

(* the stable sort: THE order-preserving sorted permutation, built by inserting each element
   after every element it is not less than *)
Fixpoint insert_sorted (lt : A -> A -> bool) (x : A) (l : list A) : list A :=
  match l with
  | [] => [x]
  | y :: t => if lt x y then x :: y :: t else y :: insert_sorted lt x t
  end.
Definition stable_sort_spec (lt : A -> A -> bool) (l : list A) : list A :=
  fold_left (fun acc x => insert_sorted lt x acc) l [].

(* [alg.merge]: stable merge of two sorted sequences; from the second only when strictly less *)
Fixpoint merge_spec (lt : A -> A -> bool) (l1 : list A) : list A -> list A :=
  fix inner (l2 : list A) : list A :=
    match l1, l2 with
    | [], _ => l2
    | _, [] => l1
    | a :: t1, b :: t2 => if lt b a then b :: inner t2 else a :: merge_spec lt t1 l2
    end.

(* copying algorithms *)
Definition copy_n_spec (l : list A) (n : nat) : list A := firstn n l.
Definition rotate_copy_spec (l : list A) (middle : nat) : list A := skipn middle l ++ firstn middle l.
Definition partition_copy_spec (p : A -> bool) (l : list A) : list A * list A :=
  (filter p l, filter (fun x => negb (p x)) l).
End Spec.
