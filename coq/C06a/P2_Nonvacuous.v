(* The comparator hypotheses of the sorting theorems are satisfiable by a comparator with
   non-trivial key classes (pairs compared by their first component only), the theorems
   instantiate at it, and bubble_sort / exchange_sort are NOT stable (so "sorted permutation"
   is all that can be said about them). *)
From Tetl Require Import Lib.Base Lib.Arr C06a.Model C06a.Spec C06a.P2_Common C06a.P2_Gnome.
From Coq Require Import Arith Lia Sorting.Sorted Sorting.Permutation.
Ltac Zify.zify_post_hook ::= Z.to_euclidean_division_equations.

Definition klt (a b : nat * nat) : bool := fst a <? fst b.

Lemma klt_irrefl x : klt x x = false.
Proof. unfold klt. apply Nat.ltb_irrefl. Qed.

Lemma klt_trans x y z : klt x y = true -> klt y z = true -> klt x z = true.
Proof. unfold klt. rewrite !Nat.ltb_lt. lia. Qed.

Lemma klt_incomp x y z :
  klt x y = false -> klt y x = false -> klt y z = false -> klt z y = false -> klt x z = false.
Proof. unfold klt. rewrite !Nat.ltb_ge. lia. Qed.

Lemma p2_nonvacuous :
  exists lt : nat * nat -> nat * nat -> bool,
    (forall x, lt x x = false) /\
    (forall x y z, lt x y = true -> lt y z = true -> lt x z = true) /\
    (forall x y z, lt x y = false -> lt y x = false -> lt y z = false -> lt z y = false -> lt x z = false) /\
    lt (0, 0) (1, 0) = true /\
    (lt (1, 0) (1, 1) = false /\ lt (1, 1) (1, 0) = false /\ (1, 0) <> (1, 1)) /\
    gnome_sort lt [(1, 0); (1, 1); (0, 2); (1, 3); (0, 4)] = Ok [(0, 2); (0, 4); (1, 0); (1, 1); (1, 3)] /\
    stable_sort_spec lt [(1, 0); (1, 1); (0, 2); (1, 3); (0, 4)] = [(0, 2); (0, 4); (1, 0); (1, 1); (1, 3)].
Proof.
  exists klt. split; [exact klt_irrefl|]. split; [exact klt_trans|]. split; [exact klt_incomp|].
  repeat split; try reflexivity. discriminate.
Qed.

Lemma bubble_sort_not_stable :
  exists l, bubble_sort klt l <> Ok (stable_sort_spec klt l).
Proof. exists [(1, 0); (1, 1); (0, 2)]. vm_compute. discriminate. Qed.

Lemma exchange_sort_not_stable :
  exists l, exchange_sort klt l <> Ok (stable_sort_spec klt l).
Proof. exists [(1, 0); (1, 1); (0, 2)]. vm_compute. discriminate. Qed.
