(* C06 (part a) — fix-miss round 5: the swapping algorithms call the ELEMENT TYPE'S swap (coq/C06a/ModelSwap.v).
   For a table of slots (id, payload) whose own swap exchanges the payloads and leaves the ids in place - for every id type,
   payload type, table, range and predicate on payloads:
   * reverse (both iterator-category paths) leaves every id in its position, the payloads are reversed exactly as
     [alg.reverse] says, with exactly (last - first) / 2 swaps;
   * iter_swap is one such swap; swap_ranges exchanges the payloads of the two tables pairwise with exactly last1 - first1
     swaps, the ids of both tables stay;
   * partition (which may only swap: [alg.partitions] requires Cpp17ValueSwappable and nothing else) partitions the payloads
     as the whole-element model does - same partition point, a permutation of the payloads - and no id moves.
   With a qualified etl::swap( *a, *b) (seeded change C06-i1) the whole element would travel: the ids would be permuted too. *)
From Tetl Require Import Lib.Base Lib.Arr C06a.Model C06a.Spec C06a.ModelSwap C06a.P1_Reverse C06a.P1_SwapRanges C06a.P1_Partition C06a.P5_Swap.
From Coq Require Import Arith List Lia ZArith ZifyNat Permutation.
Import ListNotations.
Ltac Zify.zify_post_hook ::= Z.to_euclidean_division_equations.

Lemma reverse_ra_slots {I P} (sl : list (I * P)) first last : first <= last -> last <= length sl ->
  reverse_ra_sw uswap sl first last = Ok (combine (map fst sl) (reverse_spec (map snd sl) first last), (last - first) / 2).
Proof.
  intros H1 H2.
  pose proof (reverse_ra_correct (map snd sl) first last H1) as C. rewrite map_length in C. specialize (C H2).
  unfold reverse_ra_sw. unfold reverse_ra in C.
  destruct (Nat.eqb_spec first last) as [E|E].
  - injection C as <-. rewrite combine_fst_snd. replace ((last - first) / 2) with 0 by lia. reflexivity.
  - rewrite <- (combine_fst_snd sl) at 1. rewrite reverse_ra_loop_slots by (now rewrite !map_length).
    pose proof (reverse_ra_loop_inst (S (last - first)) (map snd sl) first (pred last) 0) as N. rewrite C in N.
    destruct (reverse_ra_loop_sw oswap (S (last - first)) (map snd sl) first (pred last) 0) as [[pl' c']| |u|] eqn:R;
      cbn [rlift fst] in N; try discriminate.
    injection N as ->. apply reverse_ra_loop_count in R. cbn [lift2 rlift]. do 2 f_equal. lia.
Qed.

Lemma reverse_bidi_slots {I P} (sl : list (I * P)) first last : first <= last -> last <= length sl ->
  reverse_bidi_sw uswap sl first last = Ok (combine (map fst sl) (reverse_spec (map snd sl) first last), (last - first) / 2).
Proof.
  intros H1 H2.
  pose proof (reverse_bidi_correct (map snd sl) first last H1) as C. rewrite map_length in C. specialize (C H2).
  unfold reverse_bidi_sw. unfold reverse_bidi in C.
  rewrite <- (combine_fst_snd sl) at 1. rewrite reverse_bidi_loop_slots by (now rewrite !map_length).
  pose proof (reverse_bidi_loop_inst (S (last - first)) (map snd sl) first last 0) as N. rewrite C in N.
  destruct (reverse_bidi_loop_sw oswap (S (last - first)) (map snd sl) first last 0) as [[pl' c']| |u|] eqn:R;
    cbn [rlift fst] in N; try discriminate.
  injection N as ->. apply reverse_bidi_loop_count in R; [|exact H1]. cbn [lift2 rlift]. do 2 f_equal. lia.
Qed.

Lemma partition_slots {I P} (p : P -> bool) (sl : list (I * P)) :
  exists pl', Model.partition p (map snd sl) = Ok (pl', partition_point_spec p (map snd sl))
    /\ partition_sw uswap (fun s => p (snd s)) sl = Ok (combine (map fst sl) pl', partition_point_spec p (map snd sl))
    /\ is_partitioned_at p pl' (partition_point_spec p (map snd sl))
    /\ Permutation pl' (map snd sl).
Proof.
  destruct (partition_correct p (map snd sl)) as (pl' & C & Hp & Hperm & Hlen).
  exists pl'. split; [exact C|]. split; [|split; assumption].
  unfold partition_sw. cbv beta. unfold slot in *. unfold Model.partition in C.
  rewrite (find_if_from_slots (fun x => negb (p x)) sl 0).
  replace (length sl) with (length (map snd sl)) by apply map_length.
  destruct (find_if_from (fun x => negb (p x)) (map snd sl) 0 =? length (map snd sl)).
  - injection C as <- E. rewrite combine_fst_snd. rewrite <- E. reflexivity.
  - set (f := find_if_from (fun x => negb (p x)) (map snd sl) 0) in *.
    pose proof (partition_loop_slots (S (length (map snd sl))) p (map fst sl) (map snd sl) f (S f) (length (map snd sl))) as Q.
    rewrite combine_fst_snd in Q. unfold slot in *. rewrite Q by (now rewrite !map_length).
    rewrite partition_loop_inst, C. reflexivity.
Qed.

Theorem C06_adl_swap : forall (I P : Type) (sl sl2 : list (I * P)) (p : P -> bool) (first last i j : nat),
  (first <= last -> last <= length sl ->
     reverse_ra_sw uswap sl first last = Ok (combine (map fst sl) (reverse_spec (map snd sl) first last), (last - first) / 2)
     /\ reverse_bidi_sw uswap sl first last = Ok (combine (map fst sl) (reverse_spec (map snd sl) first last), (last - first) / 2))
  /\ iter_swap_sw uswap sl i j = rlift (combine (map fst sl)) (oswap (map snd sl) i j)
  /\ (length sl <= length sl2 ->
      swap_ranges_slots sl sl2 0
      = Ok (combine (map fst sl) (fst (swap_ranges_spec (map snd sl) (map snd sl2))),
            combine (map fst sl2) (snd (swap_ranges_spec (map snd sl) (map snd sl2))), length sl))
  /\ (exists pl', Model.partition p (map snd sl) = Ok (pl', partition_point_spec p (map snd sl))
        /\ partition_sw uswap (fun s => p (snd s)) sl = Ok (combine (map fst sl) pl', partition_point_spec p (map snd sl))
        /\ is_partitioned_at p pl' (partition_point_spec p (map snd sl))
        /\ Permutation pl' (map snd sl)).
Proof.
  intros. split; [|split; [|split]].
  - intros H1 H2. split; [now apply reverse_ra_slots|now apply reverse_bidi_slots].
  - unfold iter_swap_sw. rewrite <- (combine_fst_snd sl) at 1. apply uswap_combine. now rewrite !map_length.
  - intros H. now rewrite swap_ranges_slots_correct.
  - apply partition_slots.
Qed.
Print Assumptions C06_adl_swap.

(* non-vacuity, and what a whole-element exchange would do instead: the ids travel *)
Example C06_adl_swap_nonvacuous :
  rlift fst (reverse_ra_sw uswap [(0, 10); (1, 11); (2, 12); (3, 13)] 0 4) = Ok [(0, 13); (1, 12); (2, 11); (3, 10)]
  /\ rlift snd (reverse_ra_sw uswap [(0, 10); (1, 11); (2, 12); (3, 13)] 0 4) = Ok 2
  /\ rlift fst (reverse_ra_sw oswap [(0, 10); (1, 11); (2, 12); (3, 13)] 0 4) = Ok [(3, 13); (2, 12); (1, 11); (0, 10)]
  /\ iter_swap_sw uswap [(0, 10); (1, 11)] 0 1 = Ok [(0, 11); (1, 10)]
  /\ iter_swap_sw uswap [(0, 10); (1, 11)] 1 1 = Ok [(0, 10); (1, 11)].
Proof. vm_compute. repeat split; reflexivity. Qed.
