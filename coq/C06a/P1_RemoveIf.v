(* remove_if: find the first element to drop, then compact the kept ones over the hole.
   Loop invariant on  K ++ G ++ R :  K = kept so far (the write cursor is |K|), G = the non-empty
   gap of stale cells (the read cursor is on its last cell), R = still to be read. *)
From Tetl Require Import Lib.Base Lib.Arr C06a.Model C06a.Spec C06a.P1_Common.
From Coq Require Import Arith Lia.
Ltac Zify.zify_post_hook ::= Z.to_euclidean_division_equations.

Section RemoveIf.
Context {A : Type}.
Implicit Types (l K G R : list A).

Variable p : A -> bool.

Lemma remove_if_loop_decomp : forall R fuel K G i,
  length R < fuel -> G <> [] -> S i = length K + length G ->
  exists G',
    length G' = length G + length R - length (filter (fun x => negb (p x)) R) /\
    remove_if_loop fuel p (K ++ G ++ R) (length K) i (length K + length G + length R)
    = Ok ((K ++ filter (fun x => negb (p x)) R) ++ G', length K + length (filter (fun x => negb (p x)) R)).
Proof.
  induction R as [|x R IH]; intros fuel K G i Hf HG Hi.
  - destruct fuel as [|k]; [cbn [length] in Hf; lia|]. cbn [remove_if_loop length filter].
    destruct (Nat.eqb_spec (S i) (length K + length G + 0)) as [E|E]; [|lia].
    exists G. split; [lia|]. rewrite !app_nil_r, Nat.add_0_r. reflexivity.
  - destruct fuel as [|k]; [cbn [length] in Hf; lia|]. cbn [length] in Hf.
    cbn [remove_if_loop length].
    destruct (Nat.eqb_spec (S i) (length K + length G + S (length R))) as [E|E]; [lia|].
    replace (K ++ G ++ x :: R) with ((K ++ G) ++ x :: R) by (rewrite <- app_assoc; reflexivity).
    rewrite (oget_mid' (K ++ G) x R) by (rewrite app_length; lia). cbn [rbind filter].
    destruct (p x) eqn:Ex; cbn [negb].
    + (* dropped: the gap grows *)
      destruct (IH k K (G ++ [x]) (S i) ltac:(lia)) as (G' & HG' & Hrun).
      { destruct G; discriminate. }
      { rewrite app_length. cbn [length]. lia. }
      exists G'. split.
      * rewrite HG', app_length. cbn [length]. lia.
      * rewrite <- Hrun. f_equal.
        -- rewrite <- !app_assoc. reflexivity.
        -- rewrite app_length. cbn [length]. lia.
    + (* kept: written at the front of the gap *)
      destruct G as [|g G0]; [contradiction|]. cbn [length] in Hi.
      replace ((K ++ g :: G0) ++ x :: R) with (K ++ g :: (G0 ++ x :: R))
        by (rewrite <- app_assoc; reflexivity).
      rewrite oset_mid. cbn [rbind].
      destruct (IH k (K ++ [x]) (G0 ++ [x]) (S i) ltac:(lia)) as (G' & HG' & Hrun).
      { destruct G0; discriminate. }
      { rewrite !app_length. cbn [length]. lia. }
      exists G'. split.
      * rewrite HG', app_length. cbn [length]. lia.
      * transitivity (remove_if_loop k p ((K ++ [x]) ++ (G0 ++ [x]) ++ R) (length (K ++ [x])) (S i)
                        (length (K ++ [x]) + length (G0 ++ [x]) + length R)).
        -- f_equal.
           ++ rewrite <- !app_assoc. reflexivity.
           ++ rewrite app_length. cbn [length]. lia.
           ++ rewrite !app_length. cbn [length]. lia.
        -- rewrite Hrun. f_equal. f_equal.
           ++ rewrite <- !app_assoc. reflexivity.
           ++ rewrite app_length. cbn [length]. lia.
Qed.

Theorem remove_if_correct l :
  exists l', remove_if p l = Ok (l', length (remove_if_spec p l))
             /\ firstn (length (remove_if_spec p l)) l' = remove_if_spec p l
             /\ length l' = length l.
Proof.
  unfold remove_if, remove_if_spec.
  destruct (find_if_from_spec p l 0) as [(H1 & H2)|(K & g & R & H1 & H2 & H3 & H5)].
  - assert (H2' : filter (fun x => negb (p x)) l = l).
    { apply filter_all_true. eapply Forall_impl; [|exact H2]. cbn beta. intros a ->. reflexivity. }
    rewrite H1, H2'. cbn [Nat.add]. rewrite Nat.eqb_refl. exists l. repeat split.
    apply firstn_all.
  - rewrite H2. cbn [Nat.add]. subst l.
    assert (H3' : filter (fun x => negb (p x)) K = K).
    { apply filter_all_true. eapply Forall_impl; [|exact H3]. cbn beta. intros a ->. reflexivity. }
    rewrite filter_app, H3'. cbn [filter]. rewrite H5. cbn [negb].
    rewrite !app_length. cbn [length].
    destruct (Nat.eqb_spec (length K) (length K + S (length R))) as [E|E]; [lia|].
    destruct (remove_if_loop_decomp R (S (length K + S (length R))) K [g] (length K)) as (G' & HG' & Hrun).
    { lia. }
    { discriminate. }
    { cbn [length]. lia. }
    cbn [length] in HG'.
    exists ((K ++ filter (fun x => negb (p x)) R) ++ G'). repeat split.
    + rewrite <- Hrun. cbn [length app]. f_equal. lia.
    + rewrite <- app_length. rewrite firstn_app, Nat.sub_diag. cbn [firstn]. rewrite app_nil_r. apply firstn_all.
    + rewrite !app_length, HG'.
      pose proof (filter_length_le (fun x => negb (p x)) R). lia.
Qed.

End RemoveIf.
