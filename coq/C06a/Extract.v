From Tetl Require Import Lib.Base Lib.Arr C06a.Model C06a.ModelOut C06a.Spec C06a.Instances C06a.Instances2 C06a.IterModel C06a.Spec2 C06a.ModelMove C06a.ModelSwap.
Require Extraction.
Require Import ExtrOcamlBasic.
Extraction Language OCaml.
Extraction "C06a_model.ml" wire_anchor
  rotate reverse_ra reverse_bidi swap_ranges remove_if unique partition stable_partition
  shift_left shift_right inplace_merge insertion_sort gnome_sort bubble_sort exchange_sort merge_sort
  copy copy_n copy_if copy_backward fill fill_n replace_if transform1 transform2 reverse_copy rotate_copy
  remove_copy_if unique_copy partition_copy generate_from
  rotate_spec reverse_spec swap_ranges_spec remove_if_spec unique_spec partition_point_spec
  stable_partition_spec shift_left_spec shift_right_spec stable_sort_spec merge_spec copy_n_spec
  rotate_copy_spec partition_copy_spec
  key pred_of cmp_of eqv_of fun1_of fun2_of
  cmp_of2 move_fwd move_bwd copy_within_spec copy_backward_within_spec
  advance_m next_m prev_m distance_m rev_eq rev_ne rev_lt rev_le rev_gt rev_ge rev_plus rev_minus rev_diff
  rev_deref rev_index rev_incr rev_decr rpos
  copy_out copy_if_out remove_copy_if_out transform1_out transform2_out copy_n_out fill_n_out generate_n_out
  reverse_copy_out rotate_copy_out unique_copy_out partition_copy_out copy_backward_out emit_spec emit_backward_spec
  unique_mv remove_if_mv shift_left_mv shift_right_mv move_fwd_mv move_bwd_mv
  uswap iter_swap_sw reverse_ra_sw reverse_bidi_sw partition_sw swap_ranges_slots.
