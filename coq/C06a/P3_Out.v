(* Proofs for ModelOut.v: every destination-buffer model equals "emit the list-level result at the
   cursor" whenever the result fits, and is UB OutOfBounds when it does not. *)
From Tetl Require Import Lib.Base Lib.Arr C06a.Model C06a.ModelOut C06a.Spec C06a.Spec2 C06a.P1_Common C06a.P1_Copy.
From Coq Require Import Arith Lia.
Ltac Zify.zify_post_hook ::= Z.to_euclidean_division_equations.

Section Out.
Context {A : Type}.
Implicit Types (d src xs : list A).

Lemma emit_spec_nil d pos : emit_spec d pos [] = (d, pos).
Proof. unfold emit_spec. cbn [app length]. rewrite !Nat.add_0_r, firstn_skipn. reflexivity. Qed.

Lemma emit_spec_cons d pos x xs : pos < length d ->
  emit_spec (upd d pos x) (S pos) xs = emit_spec d pos (x :: xs).
Proof.
  intros H. unfold emit_spec. rewrite firstn_upd_S by lia. rewrite skipn_upd_gt by lia.
  rewrite <- app_assoc. cbn [app length].
  replace (pos + S (length xs)) with (S pos + length xs) by lia. reflexivity.
Qed.

Lemma get_upd_eq d i v : i < length d -> get (upd d i v) i = Some v.
Proof.
  intros H. unfold upd.
  assert (E : length (firstn i d) = i) by (rewrite firstn_length; lia).
  rewrite <- E at 3. apply get_mid.
Qed.

(* the generic writer *)
Fixpoint emit_all xs d pos : res (list A * nat) :=
  match xs with
  | [] => Ok (d, pos)
  | x :: t => do d' <- oset d pos x; emit_all t d' (S pos)
  end.

Lemma emit_all_ok : forall xs d pos, pos + length xs <= length d -> emit_all xs d pos = Ok (emit_spec d pos xs).
Proof.
  induction xs as [|x t IH]; intros d pos H.
  - cbn [emit_all]. rewrite emit_spec_nil. reflexivity.
  - cbn [emit_all]. cbn [length] in H. rewrite oset_upd by lia. cbn [rbind].
    rewrite IH by (rewrite upd_length; lia). rewrite emit_spec_cons by lia. reflexivity.
Qed.

Lemma set_none d : forall i v, length d <= i -> set d i v = None.
Proof.
  induction d as [|a t IH]; intros i v H; [reflexivity|].
  destruct i as [|j]; cbn [length] in H; [lia|]. cbn [set]. rewrite IH by lia. reflexivity.
Qed.

Lemma emit_all_overrun : forall xs d pos, pos <= length d -> length d < pos + length xs ->
  emit_all xs d pos = UB OutOfBounds.
Proof.
  induction xs as [|x t IH]; intros d pos H1 H2; cbn [length] in H2; [lia|].
  cbn [emit_all]. destruct (Nat.eq_dec pos (length d)) as [E|E].
  - unfold oset. rewrite set_none by lia. reflexivity.
  - rewrite oset_upd by lia. cbn [rbind]. apply IH; rewrite upd_length by lia; lia.
Qed.

Fixpoint omap (g : A -> option A) src : list A :=
  match src with
  | [] => []
  | x :: t => match g x with Some v => v :: omap g t | None => omap g t end
  end.

Lemma out_loop_emit (g : A -> option A) : forall src d pos, out_loop g src d pos = emit_all (omap g src) d pos.
Proof.
  induction src as [|x t IH]; intros d pos; [reflexivity|].
  cbn [out_loop omap]. destruct (g x) as [v|]; cbn [emit_all]; [|apply IH].
  destruct (oset d pos v) as [d'| | |]; cbn [rbind]; [apply IH|reflexivity..].
Qed.

Lemma omap_id src : omap (fun x => Some x) src = src.
Proof. induction src as [|x t IH]; cbn [omap]; [reflexivity|]. rewrite IH. reflexivity. Qed.
Lemma omap_filter (p : A -> bool) src : omap (fun x => if p x then Some x else None) src = filter p src.
Proof. induction src as [|x t IH]; cbn [omap filter]; [reflexivity|]. destruct (p x); rewrite IH; reflexivity. Qed.
Lemma omap_map (f : A -> A) src : omap (fun x => Some (f x)) src = map f src.
Proof. induction src as [|x t IH]; cbn [omap map]; [reflexivity|]. rewrite IH. reflexivity. Qed.

Lemma copy_out_ok src d pos : pos + length src <= length d -> copy_out src d pos = Ok (emit_spec d pos (copy src)).
Proof. intros H. unfold copy_out, copy. rewrite out_loop_emit, omap_id. apply emit_all_ok. exact H. Qed.

Lemma copy_out_overrun src d pos : pos <= length d -> length d < pos + length src -> copy_out src d pos = UB OutOfBounds.
Proof. intros H1 H2. unfold copy_out. rewrite out_loop_emit, omap_id. apply emit_all_overrun; assumption. Qed.

Lemma copy_if_out_ok p src d pos : pos + length (filter p src) <= length d ->
  copy_if_out p src d pos = Ok (emit_spec d pos (copy_if p src)).
Proof. intros H. unfold copy_if_out, copy_if. rewrite out_loop_emit, omap_filter. apply emit_all_ok. exact H. Qed.

Lemma remove_copy_if_out_ok p src d pos : pos + length (remove_if_spec p src) <= length d ->
  remove_copy_if_out p src d pos = Ok (emit_spec d pos (remove_if_spec p src)).
Proof.
  intros H. unfold remove_copy_if_out, remove_if_spec in *. rewrite out_loop_emit, omap_filter.
  apply emit_all_ok. exact H.
Qed.

Lemma transform1_out_ok f src d pos : pos + length src <= length d ->
  transform1_out f src d pos = Ok (emit_spec d pos (map f src)).
Proof.
  intros H. unfold transform1_out. rewrite out_loop_emit, omap_map. apply emit_all_ok. rewrite map_length. exact H.
Qed.

Lemma transform2_out_ok f : forall l1 l2 d pos, length l1 <= length l2 -> pos + length l1 <= length d ->
  transform2_out f l1 l2 d pos = Ok (emit_spec d pos (map (fun ab => f (fst ab) (snd ab)) (combine l1 l2))).
Proof.
  induction l1 as [|a t1 IH]; intros l2 d pos H1 H2.
  - cbn [transform2_out combine map]. rewrite emit_spec_nil. reflexivity.
  - destruct l2 as [|b t2]; cbn [length] in *; [lia|].
    cbn [transform2_out combine map fst snd]. rewrite oset_upd by lia. cbn [rbind].
    rewrite IH by (rewrite ?upd_length; lia). rewrite emit_spec_cons by lia. reflexivity.
Qed.

Lemma copy_n_loop_ok : forall k src d pos, k <= length src -> pos + k <= length d ->
  copy_n_loop k src d pos = Ok (emit_spec d pos (firstn k src)).
Proof.
  induction k as [|k IH]; intros src d pos H1 H2.
  - cbn [copy_n_loop firstn]. rewrite emit_spec_nil. reflexivity.
  - destruct src as [|x t]; cbn [length] in H1; [lia|].
    cbn [copy_n_loop firstn]. rewrite oset_upd by lia. cbn [rbind].
    rewrite IH by (rewrite ?upd_length; lia). rewrite emit_spec_cons by lia. reflexivity.
Qed.

Lemma copy_n_out_ok src n d pos : (n <= Z.of_nat (length src))%Z -> pos + Z.to_nat n <= length d ->
  copy_n_out src n d pos = Ok (emit_spec d pos (copy_n_spec src (Z.to_nat n))).
Proof. intros H1 H2. unfold copy_n_out, copy_n_spec. apply copy_n_loop_ok; lia. Qed.

Lemma fill_n_loop_ok v : forall k d pos, pos + k <= length d ->
  fill_n_loop k v d pos = Ok (emit_spec d pos (repeat v k)).
Proof.
  induction k as [|k IH]; intros d pos H.
  - cbn [fill_n_loop repeat]. rewrite emit_spec_nil. reflexivity.
  - cbn [fill_n_loop repeat]. rewrite oset_upd by lia. cbn [rbind].
    rewrite IH by (rewrite ?upd_length; lia). rewrite emit_spec_cons by lia. reflexivity.
Qed.

Lemma fill_n_out_ok n v d pos : pos + Z.to_nat n <= length d ->
  fill_n_out n v d pos = Ok (emit_spec d pos (fill_n n v)).
Proof. intros H. unfold fill_n_out, fill_n. apply fill_n_loop_ok. exact H. Qed.

Lemma gen_values_length {S : Type} (g : S -> A * S) : forall k s, length (gen_values k g s) = k.
Proof. induction k as [|k IH]; intros s; cbn [gen_values]; [reflexivity|]. destruct (g s) as [v s']. cbn [length]. rewrite IH. reflexivity. Qed.

Lemma generate_n_loop_ok {S : Type} (g : S -> A * S) : forall k s d pos, pos + k <= length d ->
  generate_n_loop k g s d pos = Ok (emit_spec d pos (gen_values k g s)).
Proof.
  induction k as [|k IH]; intros s d pos H.
  - cbn [generate_n_loop gen_values]. rewrite emit_spec_nil. reflexivity.
  - cbn [generate_n_loop gen_values]. destruct (g s) as [v s']. rewrite oset_upd by lia. cbn [rbind].
    rewrite IH by (rewrite ?upd_length; lia). rewrite emit_spec_cons by lia. reflexivity.
Qed.

Lemma reverse_copy_out_from_ok src : forall j d pos, j <= length src -> pos + j <= length d ->
  reverse_copy_out_from src j d pos = Ok (emit_spec d pos (rev (firstn j src))).
Proof.
  induction j as [|j IH]; intros d pos H1 H2.
  - cbn [reverse_copy_out_from firstn rev]. rewrite emit_spec_nil. reflexivity.
  - cbn [reverse_copy_out_from].
    destruct (get_some src j ltac:(lia)) as [x Hx].
    rewrite (oget_some src j x Hx). cbn [rbind]. rewrite oset_upd by lia. cbn [rbind].
    rewrite IH by (rewrite ?upd_length; lia).
    rewrite (firstn_S_get src j x Hx), rev_app_distr. cbn [rev app].
    rewrite emit_spec_cons by lia. reflexivity.
Qed.

Lemma reverse_copy_out_ok src d pos : pos + length src <= length d ->
  reverse_copy_out src d pos = Ok (emit_spec d pos (rev src)).
Proof.
  intros H. unfold reverse_copy_out. rewrite reverse_copy_out_from_ok by lia. rewrite firstn_all. reflexivity.
Qed.

Lemma emit_spec_app d pos xs ys : pos + length xs + length ys <= length d ->
  emit_spec (fst (emit_spec d pos xs)) (snd (emit_spec d pos xs)) ys = emit_spec d pos (xs ++ ys).
Proof.
  intros H. unfold emit_spec. cbn [fst snd].
  assert (HP : length (firstn pos d) = pos) by (rewrite firstn_length; lia).
  rewrite (app_assoc (firstn pos d) xs).
  assert (HL : length (firstn pos d ++ xs) = pos + length xs) by (rewrite app_length; lia).
  rewrite firstn_app, HL, Nat.sub_diag. cbn [firstn]. rewrite app_nil_r.
  rewrite firstn_all2 by lia.
  rewrite skipn_app, HL.
  rewrite (skipn_all2 (firstn pos d ++ xs)) by lia. cbn [app].
  replace (pos + length xs + length ys - (pos + length xs)) with (length ys) by lia.
  rewrite skipn_skipn. rewrite app_length.
  replace (length ys + (pos + length xs)) with (pos + (length xs + length ys)) by lia.
  rewrite <- !app_assoc. f_equal. lia.
Qed.

Lemma rotate_copy_out_ok src m d pos : m <= length src -> pos + length src <= length d ->
  rotate_copy_out src m d pos = Ok (emit_spec d pos (rotate_copy src m)).
Proof.
  intros Hm H. unfold rotate_copy_out, rotate_copy.
  rewrite copy_out_ok by (rewrite skipn_length; lia). cbn [rbind]. unfold copy.
  assert (L1 : length (skipn m src) = length src - m) by apply skipn_length.
  assert (L2 : length (firstn m src) = m) by (rewrite firstn_length; lia).
  rewrite copy_out_ok.
  - unfold copy. rewrite emit_spec_app by lia. reflexivity.
  - unfold emit_spec. cbn [fst snd]. rewrite !app_length, !firstn_length, !skipn_length. lia.
Qed.

(* unique_copy: the loop compares with the element it wrote last, which it reads back from the destination *)
Lemma unique_copy_loop_ok (eqv : A -> A -> bool) : forall t d pos w,
  get d pos = Some w -> S pos + length (unique_copy_from eqv w t) <= length d ->
  unique_copy_loop eqv t d pos = Ok (emit_spec d (S pos) (unique_copy_from eqv w t)).
Proof.
  induction t as [|x t IH]; intros d pos w Hw H.
  - cbn [unique_copy_loop unique_copy_from]. rewrite emit_spec_nil. reflexivity.
  - cbn [unique_copy_loop unique_copy_from] in *. rewrite (oget_some d pos w Hw). cbn [rbind].
    destruct (negb (eqv w x)); cbn [length] in H.
    + rewrite oset_upd by lia. cbn [rbind].
      rewrite (IH (upd d (S pos) x) (S pos) x) by (rewrite ?upd_length by lia; try apply get_upd_eq; lia).
      rewrite emit_spec_cons by lia. reflexivity.
    + apply IH; assumption.
Qed.

Lemma unique_copy_out_ok (eqv : A -> A -> bool) src d pos :
  pos + length (unique_copy eqv src) <= length d ->
  unique_copy_out eqv src d pos = Ok (emit_spec d pos (unique_copy eqv src)).
Proof.
  destruct src as [|x t]; intros H.
  - cbn [unique_copy_out unique_copy]. rewrite emit_spec_nil. reflexivity.
  - cbn [unique_copy_out unique_copy length] in *. rewrite oset_upd by lia. cbn [rbind].
    rewrite (unique_copy_loop_ok eqv t (upd d pos x) pos x) by (rewrite ?upd_length by lia; try apply get_upd_eq; lia).
    rewrite emit_spec_cons by lia. reflexivity.
Qed.

Lemma partition_copy_out_ok (p : A -> bool) : forall src d1 p1 d2 p2,
  p1 + length (filter p src) <= length d1 -> p2 + length (filter (fun x => negb (p x)) src) <= length d2 ->
  partition_copy_out p src d1 p1 d2 p2
  = Ok (emit_spec d1 p1 (fst (partition_copy p src)), emit_spec d2 p2 (snd (partition_copy p src))).
Proof.
  induction src as [|x t IH]; intros d1 p1 d2 p2 H1 H2.
  - cbn [partition_copy_out partition_copy fst snd]. rewrite !emit_spec_nil. reflexivity.
  - cbn [partition_copy_out partition_copy filter] in *.
    destruct (partition_copy p t) as [a b] eqn:E. destruct (p x); cbn [negb length fst snd] in *.
    + rewrite oset_upd by lia. cbn [rbind]. rewrite IH by (rewrite ?upd_length by lia; lia).
      rewrite ?E. cbn [fst snd]. rewrite emit_spec_cons by lia. reflexivity.
    + rewrite oset_upd by lia. cbn [rbind]. rewrite IH by (rewrite ?upd_length by lia; lia).
      rewrite ?E. cbn [fst snd]. rewrite emit_spec_cons by lia. reflexivity.
Qed.

Lemma copy_backward_loop_ok : forall rs d pos, length rs <= pos -> pos <= length d ->
  copy_backward_loop rs d pos = Ok (emit_backward_spec d pos (rev rs)).
Proof.
  induction rs as [|x t IH]; intros d pos H1 H2.
  - cbn [copy_backward_loop rev]. unfold emit_backward_spec. cbn [length app]. rewrite Nat.sub_0_r, firstn_skipn. reflexivity.
  - cbn [length] in H1. destruct pos as [|p]; [lia|]. cbn [copy_backward_loop].
    rewrite oset_upd by lia. cbn [rbind]. rewrite IH by (rewrite ?upd_length by lia; lia).
    unfold emit_backward_spec. rewrite rev_length. cbn [rev]. rewrite app_length, rev_length. cbn [length].
    rewrite firstn_upd_le by lia. rewrite skipn_upd_eq by lia.
    rewrite <- !app_assoc. cbn [app].
    replace (S p - (length t + 1)) with (p - length t) by lia. reflexivity.
Qed.

Lemma copy_backward_out_ok src d dlast : length src <= dlast -> dlast <= length d ->
  copy_backward_out src d dlast = Ok (emit_backward_spec d dlast (copy_backward src)).
Proof.
  intros H1 H2. unfold copy_backward_out, copy_backward.
  rewrite copy_backward_loop_ok by (rewrite ?rev_length; lia). rewrite rev_involutive. reflexivity.
Qed.

Lemma copy_backward_out_underrun src d dlast : dlast < length src -> dlast <= length d ->
  copy_backward_out src d dlast = UB OutOfBounds.
Proof.
  unfold copy_backward_out. rewrite <- (rev_length src). generalize (rev src) as rs. clear src.
  intros rs. revert d dlast. induction rs as [|x t IH]; intros d dlast H1 H2; cbn [length] in H1; [lia|].
  cbn [copy_backward_loop]. destruct dlast as [|p]; [reflexivity|].
  rewrite oset_upd by lia. cbn [rbind]. apply IH; rewrite ?upd_length by lia; lia.
Qed.
End Out.
