(* partition (forward-iterator version): skip the leading p-elements, then swap every later
   p-element to the boundary.  Invariant on  T ++ F ++ R :  T all satisfy p (|T| = first),
   F all fail p and F is non-empty (the cursor is |T| + |F|), R still to be read. *)
From Tetl Require Import Lib.Base Lib.Arr C06a.Model C06a.Spec C06a.P1_Common.
From Coq Require Import Arith Lia Sorting.Permutation.
Ltac Zify.zify_post_hook ::= Z.to_euclidean_division_equations.

Section Partition.
Context {A : Type}.
Variable p : A -> bool.
Implicit Types (l T F R : list A).

Lemma filter_split_perm l : Permutation (filter p l ++ filter (fun x => negb (p x)) l) l.
Proof.
  induction l as [|x t IH]; cbn [filter]; [constructor|].
  destruct (p x); cbn [negb app].
  - constructor. exact IH.
  - apply Permutation_sym. apply Permutation_cons_app. apply Permutation_sym. exact IH.
Qed.

Lemma partition_loop_decomp : forall R fuel T F first i last,
  length R < fuel -> F <> [] -> Forall (fun x => p x = false) F ->
  first = length T -> i = first + length F -> last = i + length R ->
  exists F',
    Forall (fun x => p x = false) F' /\
    Permutation F' (F ++ filter (fun x => negb (p x)) R) /\
    partition_loop fuel p (T ++ F ++ R) first i last
    = Ok ((T ++ filter p R) ++ F', length T + length (filter p R)).
Proof.
  induction R as [|x R IH]; intros fuel T F first i last Hf HF HFf Hfirst Hi Hlast.
  - destruct fuel as [|k]; [cbn [length] in Hf; lia|]. cbn [partition_loop length filter] in *.
    destruct (Nat.eqb_spec i last) as [E|E]; [|lia].
    exists F. rewrite !app_nil_r, Nat.add_0_r. repeat split; [exact HFf|apply Permutation_refl|].
    subst first. reflexivity.
  - destruct fuel as [|k]; [cbn [length] in Hf; lia|]. cbn [length] in Hf, Hlast.
    cbn [partition_loop].
    destruct (Nat.eqb_spec i last) as [E|E]; [lia|].
    replace (T ++ F ++ x :: R) with ((T ++ F) ++ x :: R) by (rewrite <- app_assoc; reflexivity).
    rewrite (oget_mid' (T ++ F) x R) by (rewrite app_length; lia). cbn [rbind filter].
    destruct (p x) eqn:Ex; cbn [negb].
    + destruct F as [|f F0]; [contradiction|]. cbn [length] in Hi.
      replace ((T ++ f :: F0) ++ x :: R) with (T ++ f :: F0 ++ x :: R)
        by (rewrite <- app_assoc; reflexivity).
      rewrite (oswap_split_rev T f F0 x R) by lia. cbn [rbind].
      destruct (IH k (T ++ [x]) (F0 ++ [f]) (S first) (S i) last) as (F' & HF'1 & HF'2 & Hrun);
        try (rewrite ?app_length; cbn [length]; lia).
      { destruct F0; discriminate. }
      { apply Forall_app. inversion HFf; subst. split; [assumption|]. constructor; [assumption|constructor]. }
      exists F'. repeat split; [exact HF'1| |].
      * eapply Permutation_trans; [exact HF'2|]. apply Permutation_app_tail.
        apply Permutation_sym. apply Permutation_cons_append.
      * replace (T ++ x :: F0 ++ f :: R) with ((T ++ [x]) ++ (F0 ++ [f]) ++ R)
          by (rewrite <- !app_assoc; reflexivity).
        rewrite Hrun. f_equal. f_equal.
        -- rewrite <- !app_assoc. reflexivity.
        -- rewrite app_length. cbn [length]. lia.
    + destruct (IH k T (F ++ [x]) first (S i) last) as (F' & HF'1 & HF'2 & Hrun);
        try (rewrite ?app_length; cbn [length]; lia).
      { destruct F; discriminate. }
      { apply Forall_app. split; [assumption|]. constructor; [assumption|constructor]. }
      exists F'. repeat split; [exact HF'1| |].
      * rewrite <- app_assoc in HF'2. exact HF'2.
      * replace ((T ++ F) ++ x :: R) with (T ++ (F ++ [x]) ++ R)
          by (rewrite <- !app_assoc; reflexivity).
        exact Hrun.
Qed.

Theorem partition_correct l :
  exists l', partition p l = Ok (l', partition_point_spec p l)
             /\ is_partitioned_at p l' (partition_point_spec p l)
             /\ Permutation l' l
             /\ length l' = length l.
Proof.
  unfold partition, partition_point_spec, is_partitioned_at.
  destruct (find_if_from_spec (fun x => negb (p x)) l 0) as [(H1 & H2)|(K & g & R & H1 & H2 & H3 & H4)].
  - assert (Hall : Forall (fun x => p x = true) l).
    { eapply Forall_impl; [|exact H2]. cbn beta. intros a Ha. destruct (p a); [reflexivity|discriminate]. }
    rewrite H1. cbn [Nat.add]. rewrite Nat.eqb_refl.
    rewrite (filter_all_true p l Hall).
    exists l. repeat split.
    + rewrite firstn_all. exact Hall.
    + rewrite skipn_all. constructor.
    + apply Permutation_refl.
  - assert (HK : Forall (fun x => p x = true) K).
    { eapply Forall_impl; [|exact H3]. cbn beta. intros a Ha. destruct (p a); [reflexivity|discriminate]. }
    assert (Hg : p g = false) by (destruct (p g); [discriminate|reflexivity]).
    rewrite H2. cbn [Nat.add]. subst l.
    rewrite filter_app, (filter_all_true p K HK). cbn [filter]. rewrite Hg.
    rewrite !app_length. cbn [length].
    destruct (Nat.eqb_spec (length K) (length K + S (length R))) as [E|E]; [lia|].
    destruct (partition_loop_decomp R (S (length K + S (length R))) K [g] (length K) (S (length K))
                (length K + S (length R))) as (F' & HF'1 & HF'2 & Hrun);
      try (cbn [length]; lia).
    { discriminate. }
    { constructor; [exact Hg|constructor]. }
    exists ((K ++ filter p R) ++ F').
    assert (Hperm : Permutation ((K ++ filter p R) ++ F') (K ++ g :: R)).
    { rewrite <- app_assoc. apply Permutation_app_head.
      eapply Permutation_trans; [apply Permutation_app_head; exact HF'2|].
      cbn [app]. apply Permutation_sym. apply Permutation_cons_app.
      apply Permutation_sym. apply filter_split_perm. }
    repeat split.
    + exact Hrun.
    + rewrite <- app_length. rewrite firstn_app, Nat.sub_diag. cbn [firstn]. rewrite app_nil_r, firstn_all.
      apply Forall_app. split; [exact HK|apply Forall_filter_true].
    + rewrite <- app_length. rewrite skipn_app, Nat.sub_diag, skipn_all. exact HF'1.
    + exact Hperm.
    + apply Permutation_length in Hperm. rewrite Hperm, app_length. reflexivity.
Qed.

End Partition.
