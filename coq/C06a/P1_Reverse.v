(* reverse: both code paths (random-access: while (first < --last) swap; bidirectional:
   while (first != last && first != --last) swap) equal list reversal of the sub-range. *)
From Tetl Require Import Lib.Base Lib.Arr C06a.Model C06a.Spec C06a.P1_Common.
From Coq Require Import Arith Lia.
Ltac Zify.zify_post_hook ::= Z.to_euclidean_division_equations.

Section Reverse.
Context {A : Type}.
Implicit Types (l P M T : list A).

(* a list is empty, a singleton, or  a :: M' ++ [b] *)
Lemma ends_case M : M = [] \/ (exists a, M = [a]) \/ (exists a M' b, M = a :: M' ++ [b]).
Proof.
  destruct M as [|a M]; [left; reflexivity|right].
  destruct (exists_last (l := a :: M) ltac:(discriminate)) as (M0 & b & E).
  destruct M0 as [|a0 M0].
  - left. exists a. cbn [app] in E. inversion E; subst. reflexivity.
  - right. cbn [app] in E. inversion E; subst. exists a0, M0, b. reflexivity.
Qed.

Lemma reverse_ra_loop_decomp : forall fuel P M T i j,
  length M < fuel -> i = length P -> S j = i + length M ->
  reverse_ra_loop fuel (P ++ M ++ T) i j = Ok (P ++ rev M ++ T).
Proof.
  induction fuel as [|k IH]; intros P M T i j Hf Hi Hj; [lia|].
  cbn [reverse_ra_loop].
  destruct (ends_case M) as [->|[(a & ->)|(a & M' & b & ->)]].
  - cbn [length] in Hj. destruct (Nat.ltb_spec i j) as [H|H]; [lia|]. reflexivity.
  - cbn [length] in Hj. destruct (Nat.ltb_spec i j) as [H|H]; [lia|]. reflexivity.
  - cbn [length] in Hj, Hf. rewrite app_length in Hj, Hf. cbn [length] in Hj, Hf.
    destruct (Nat.ltb_spec i j) as [H|H]; [|lia].
    replace (P ++ (a :: M' ++ [b]) ++ T) with (P ++ a :: M' ++ b :: T)
      by (cbn [app]; rewrite <- app_assoc; reflexivity).
    rewrite (oswap_split' P a M' b T) by lia. cbn [rbind].
    replace (P ++ b :: M' ++ a :: T) with ((P ++ [b]) ++ M' ++ ([a] ++ T))
      by (rewrite <- app_assoc; reflexivity).
    rewrite (IH (P ++ [b]) M' ([a] ++ T)) by (rewrite ?app_length; cbn [length]; lia).
    cbn [rev]. rewrite rev_app_distr. cbn [rev app]. rewrite <- !app_assoc. reflexivity.
Qed.

Lemma reverse_bidi_loop_decomp : forall fuel P M T i j,
  length M < fuel -> i = length P -> j = i + length M ->
  reverse_bidi_loop fuel (P ++ M ++ T) i j = Ok (P ++ rev M ++ T).
Proof.
  induction fuel as [|k IH]; intros P M T i j Hf Hi Hj; [lia|].
  cbn [reverse_bidi_loop].
  destruct (ends_case M) as [->|[(a & ->)|(a & M' & b & ->)]].
  - cbn [length] in Hj. destruct (Nat.eqb_spec i j) as [H|H]; [|lia]. reflexivity.
  - cbn [length] in Hj.
    destruct (Nat.eqb_spec i j) as [H|H]; [lia|].
    destruct (Nat.eqb_spec i (pred j)) as [H'|H']; [|lia]. reflexivity.
  - cbn [length] in Hf, Hj. rewrite app_length in Hf, Hj. cbn [length] in Hf, Hj.
    destruct (Nat.eqb_spec i j) as [H|H]; [lia|].
    destruct (Nat.eqb_spec i (pred j)) as [H'|H']; [lia|].
    replace (P ++ (a :: M' ++ [b]) ++ T) with (P ++ a :: M' ++ b :: T)
      by (cbn [app]; rewrite <- app_assoc; reflexivity).
    rewrite (oswap_split' P a M' b T) by lia. cbn [rbind].
    replace (P ++ b :: M' ++ a :: T) with ((P ++ [b]) ++ M' ++ ([a] ++ T))
      by (rewrite <- app_assoc; reflexivity).
    rewrite (IH (P ++ [b]) M' ([a] ++ T)) by (rewrite ?app_length; cbn [length]; lia).
    cbn [rev]. rewrite rev_app_distr. cbn [rev app]. rewrite <- !app_assoc. reflexivity.
Qed.

Theorem reverse_ra_correct l first last :
  first <= last -> last <= length l ->
  reverse_ra l first last = Ok (reverse_spec l first last).
Proof.
  intros H1 H2. unfold reverse_ra, reverse_spec.
  set (P := firstn first l). set (M := sub l first last). set (T := skipn last l).
  assert (HP : length P = first) by (unfold P; rewrite firstn_length; lia).
  assert (HM : length M = last - first) by (apply sub_length; exact H2).
  assert (Hl : l = P ++ M ++ T) by (apply split3; assumption).
  destruct (Nat.eqb_spec first last) as [E|E].
  - assert (M = []) as -> by (destruct M; [reflexivity|cbn [length] in HM; lia]).
    cbn [rev]. exact (f_equal Ok Hl).
  - rewrite Hl at 1. apply reverse_ra_loop_decomp; lia.
Qed.

Theorem reverse_bidi_correct l first last :
  first <= last -> last <= length l ->
  reverse_bidi l first last = Ok (reverse_spec l first last).
Proof.
  intros H1 H2. unfold reverse_bidi, reverse_spec.
  set (P := firstn first l). set (M := sub l first last). set (T := skipn last l).
  assert (HP : length P = first) by (unfold P; rewrite firstn_length; lia).
  assert (HM : length M = last - first) by (apply sub_length; exact H2).
  assert (Hl : l = P ++ M ++ T) by (apply split3; assumption).
  rewrite Hl at 1. apply reverse_bidi_loop_decomp; lia.
Qed.

End Reverse.
