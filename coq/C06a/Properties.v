(* C06 (part a) — property theorems about the mutating algorithms; rotate. *)
From Tetl Require Import Lib.Base Lib.Arr C06a.Model C06a.Spec C06a.RotateProof.

(* rotate (forward-iterator swap cycle): for EVERY list, every first <= middle <= last inside it,
   the result is the rotation the standard prescribes, the returned iterator is
   first + (last - middle), and no element outside [first,last) is read or written
   (the checked-array model returns Ok, never UB OutOfBounds). *)
Theorem C06_rotate_correct : forall (A : Type) (l : list A) first middle last,
  first <= middle -> middle <= last -> last <= length l ->
  rotate l first middle last = Ok (rotate_spec l first middle last).
Proof. intros. apply rotate_correct; assumption. Qed.
Print Assumptions C06_rotate_correct.

Example C06a_nonvacuous :
  rotate [1; 2; 3; 4; 5; 6] 1 3 5 = Ok ([1; 4; 5; 2; 3; 6], 3).
Proof. vm_compute. reflexivity. Qed.
