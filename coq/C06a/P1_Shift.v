(* shift_left / shift_right and the moves inside one array they are built on.
   move (forward copy loop) with dest <= first and move_backward with last <= dest are the
   overlap-safe directions; both are characterised exactly by list surgery. *)
From Tetl Require Import Lib.Base Lib.Arr C06a.Model C06a.Spec C06a.P1_Common.
From Coq Require Import Arith Lia.
Ltac Zify.zify_post_hook ::= Z.to_euclidean_division_equations.

Section Shift.
Context {A : Type}.
Implicit Types (l : list A).

Lemma sub_cons l i j x : get l i = Some x -> i < j -> sub l i j = x :: sub l (S i) j.
Proof.
  intros Hx Hij. unfold sub. rewrite (get_skipn l i x Hx).
  replace (j - i) with (S (j - S i)) by lia. reflexivity.
Qed.

Lemma sub_snoc l i j x : get l j = Some x -> i <= j -> sub l i (S j) = sub l i j ++ [x].
Proof.
  intros Hx Hij. rewrite !sub_alt. rewrite (firstn_S_get l j x Hx).
  pose proof (get_lt _ _ _ Hx) as Hlt.
  rewrite skipn_app. rewrite firstn_length.
  replace (i - Nat.min j (length l)) with 0 by lia. reflexivity.
Qed.

Lemma sub_empty l i : sub l i i = [].
Proof. unfold sub. rewrite Nat.sub_diag. reflexivity. Qed.

(* forward copy loop  [first,last) -> [dest, ..)  with dest <= first *)
Lemma move_fwd_spec : forall fuel l first last dest,
  last - first < fuel -> dest <= first -> first <= last -> last <= length l ->
  move_fwd fuel l first last dest
  = Ok (firstn dest l ++ sub l first last ++ skipn (dest + (last - first)) l, dest + (last - first)).
Proof.
  induction fuel as [|k IH]; intros l first last dest Hf Hd Hfl Hl; [lia|].
  cbn [move_fwd].
  destruct (Nat.eqb_spec first last) as [E|E].
  - subst last. rewrite sub_empty, Nat.sub_diag, Nat.add_0_r. cbn [app].
    rewrite firstn_skipn. reflexivity.
  - destruct (get_some l first ltac:(lia)) as [x Hx].
    rewrite (oget_some l first x Hx). cbn [rbind].
    rewrite oset_upd by lia. cbn [rbind].
    rewrite IH by (rewrite ?upd_length; lia).
    rewrite firstn_upd_S by lia.
    unfold sub at 1. rewrite skipn_upd_gt by lia. fold (sub l (S first) last).
    rewrite skipn_upd_gt by lia.
    rewrite (sub_cons l first last x Hx) by lia.
    rewrite <- app_assoc. cbn [app].
    replace (S dest + (last - S first)) with (dest + (last - first)) by lia. reflexivity.
Qed.

(* backward copy loop  [first,last) -> [.., dest)  with last <= dest *)
Lemma move_bwd_spec : forall fuel l first last dest,
  last - first < fuel -> first <= last -> last <= dest -> dest <= length l ->
  move_bwd fuel l first last dest
  = Ok (firstn (dest - (last - first)) l ++ sub l first last ++ skipn dest l, dest - (last - first)).
Proof.
  induction fuel as [|k IH]; intros l first last dest Hf Hfl Hd Hl; [lia|].
  cbn [move_bwd].
  destruct (Nat.eqb_spec first last) as [E|E].
  - subst last. rewrite sub_empty, Nat.sub_diag, Nat.sub_0_r. cbn [app].
    rewrite firstn_skipn. reflexivity.
  - destruct last as [|last']; [lia|]. destruct dest as [|dest']; [lia|].
    destruct (get_some l last' ltac:(lia)) as [x Hx].
    rewrite (oget_some l last' x Hx). cbn [rbind].
    rewrite oset_upd by lia. cbn [rbind].
    rewrite IH by (rewrite ?upd_length; lia).
    rewrite firstn_upd_le by lia.
    rewrite (sub_alt (upd l dest' x)). rewrite firstn_upd_le by lia. rewrite <- sub_alt.
    rewrite skipn_upd_eq by lia.
    rewrite (sub_snoc l first last' x Hx) by lia.
    rewrite <- !app_assoc. cbn [app].
    replace (S dest' - (S last' - first)) with (dest' - (last' - first)) by lia. reflexivity.
Qed.

(** shift_left *)
Theorem shift_left_exact l n : (0 < n < Z.of_nat (length l))%Z ->
  shift_left l n = Ok (skipn (Z.to_nat n) l ++ skipn (length l - Z.to_nat n) l, length l - Z.to_nat n).
Proof.
  intros H. unfold shift_left.
  destruct (Z.leb_spec n 0) as [H0|H0]; [lia|].
  destruct (Z.leb_spec (Z.of_nat (length l)) n) as [H1|H1]; [lia|].
  rewrite move_fwd_spec by lia. cbn [firstn app Nat.add].
  unfold sub. rewrite firstn_all2 by (rewrite skipn_length; lia). reflexivity.
Qed.

Theorem shift_left_correct l n : (0 < n < Z.of_nat (length l))%Z ->
  exists l', shift_left l n = Ok (l', length l - Z.to_nat n)
             /\ firstn (length l - Z.to_nat n) l' = shift_left_spec l (Z.to_nat n)
             /\ length l' = length l.
Proof.
  intros H. eexists. split; [apply shift_left_exact; exact H|]. unfold shift_left_spec. split.
  - rewrite firstn_app, skipn_length, Nat.sub_diag. cbn [firstn]. rewrite app_nil_r.
    apply firstn_all2. rewrite skipn_length. lia.
  - rewrite app_length, !skipn_length. lia.
Qed.

Theorem shift_left_nonpositive l n : (n <= 0)%Z -> shift_left l n = Ok (l, length l).
Proof. intros H. unfold shift_left. destruct (Z.leb_spec n 0) as [H0|H0]; [reflexivity|lia]. Qed.

Theorem shift_left_too_far l n : (0 < n)%Z -> (Z.of_nat (length l) <= n)%Z -> shift_left l n = Ok (l, 0).
Proof.
  intros H H'. unfold shift_left. destruct (Z.leb_spec n 0) as [H0|H0]; [lia|].
  destruct (Z.leb_spec (Z.of_nat (length l)) n) as [H1|H1]; [reflexivity|lia].
Qed.

(** shift_right *)
Theorem shift_right_exact l n : (0 < n < Z.of_nat (length l))%Z ->
  shift_right l n = Ok (firstn (Z.to_nat n) l ++ firstn (length l - Z.to_nat n) l, Z.to_nat n).
Proof.
  intros H. unfold shift_right.
  destruct (Z.leb_spec n 0) as [H0|H0]; [lia|].
  destruct (Z.leb_spec (Z.of_nat (length l)) n) as [H1|H1]; [lia|].
  rewrite move_bwd_spec by lia.
  rewrite skipn_all, app_nil_r. unfold sub. cbn [skipn]. rewrite !Nat.sub_0_r.
  f_equal. f_equal; [|lia]. f_equal. f_equal. lia.
Qed.

Theorem shift_right_correct l n : (0 < n < Z.of_nat (length l))%Z ->
  exists l', shift_right l n = Ok (l', Z.to_nat n)
             /\ skipn (Z.to_nat n) l' = shift_right_spec l (Z.to_nat n)
             /\ length l' = length l.
Proof.
  intros H. eexists. split; [apply shift_right_exact; exact H|]. unfold shift_right_spec. split.
  - rewrite skipn_app, firstn_length.
    rewrite skipn_all2 by (rewrite firstn_length; lia).
    replace (Z.to_nat n - Nat.min (Z.to_nat n) (length l)) with 0 by lia. reflexivity.
  - rewrite app_length, !firstn_length. lia.
Qed.

Theorem shift_right_nonpositive l n : (n <= 0)%Z -> shift_right l n = Ok (l, 0).
Proof. intros H. unfold shift_right. destruct (Z.leb_spec n 0) as [H0|H0]; [reflexivity|lia]. Qed.

Theorem shift_right_too_far l n : (0 < n)%Z -> (Z.of_nat (length l) <= n)%Z -> shift_right l n = Ok (l, length l).
Proof.
  intros H H'. unfold shift_right. destruct (Z.leb_spec n 0) as [H0|H0]; [lia|].
  destruct (Z.leb_spec (Z.of_nat (length l)) n) as [H1|H1]; [reflexivity|lia].
Qed.

End Shift.
