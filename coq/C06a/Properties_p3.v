(* C06 (part a) — property theorems, third batch (review round): copies inside one array on both
   permitted sides of the source, nth_element / partial_sort, the iterator helpers advance / next /
   prev / distance, reverse_iterator, and the comparator of the overloads without a comparator.
   All for EVERY list / position / distance; `= Ok ...` also says no access outside the array. *)
From Tetl Require Import Lib.Base Lib.Arr C06a.Model C06a.Spec C06a.Spec2 C06a.IterModel C06a.Instances2
  C06a.P2_Gnome C06a.P3_Extra.
From Coq Require Import Lia Sorting.Sorted Sorting.Permutation.

(** ** copy / move with source and destination in the same array: [alg.copy] allows every
    destination outside [first, last) — to the left (overlapping) and to the right (disjoint) *)
Theorem C06_copy_within_correct : forall (A : Type) fuel (l : list A) first last,
  last - first < fuel -> first <= last -> last <= length l ->
  (forall dest, dest <= first \/ last <= dest -> dest + (last - first) <= length l ->
     move_fwd fuel l first last dest = Ok (copy_within_spec l first last dest, dest + (last - first)))
  /\
  (* copy_backward / move_backward: every dLast outside (first, last] *)
  (forall dlast, last <= dlast \/ dlast <= first -> last - first <= dlast -> dlast <= length l ->
     move_bwd fuel l first last dlast
     = Ok (copy_backward_within_spec l first last dlast, dlast - (last - first))).
Proof.
  intros A fuel l first last Hf Hfl Hl. split.
  - intros dest Hd Hfit. apply move_fwd_within; assumption.
  - intros dlast Hd Hfit Hdl. apply move_bwd_within; assumption.
Qed.
Print Assumptions C06_copy_within_correct.

(** ** nth_element and partial_sort forward to sort = gnome_sort: the result is a sorted
    permutation, hence satisfies [alg.nth.element] for EVERY nth and [partial.sort] for every middle *)
Theorem C06_nth_element_partial_sort_correct : forall (A : Type) (lt : A -> A -> bool),
  (forall x, lt x x = false) ->
  (forall x y z, lt x y = true -> lt y z = true -> lt x z = true) ->
  (forall x y z, lt x y = false -> lt y x = false -> lt y z = false -> lt z y = false -> lt x z = false) ->
  forall (l : list A),
  exists l', gnome_sort lt l = Ok l' /\ Permutation l' l /\ sorted_by lt l'
             /\ (forall nth, nth_element_post lt l' nth)                (* [alg.nth.element] *)
             /\ (forall middle, sorted_by lt (firstn middle l')).        (* [partial.sort], with the line above *)
Proof.
  intros A lt H1 H2 H3 l.
  destruct (gnome_sort_sorts lt H1 H2 H3 l) as [l' [E [S [P _]]]].
  exists l'. repeat split; try assumption.
  - intros nth. apply sorted_nth_element_post. exact S.
  - intros middle. apply StronglySorted_firstn. exact S.
Qed.
Print Assumptions C06_nth_element_partial_sort_correct.

(** ** advance / next / prev / distance, every iterator category, every position and distance *)
Theorem C06_iterator_operations_correct : forall (c : icat) (it n : Z),
  ((0 <= n)%Z \/ c = CatBidi \/ c = CatRandom ->
     advance_m c it n = (it + n)%Z /\ next_m c it n = (it + n)%Z)
  /\ ((n <= 0)%Z \/ c = CatBidi \/ c = CatRandom -> prev_m c it n = (it - n)%Z)
  (* not required by the standard (a negative distance needs a bidirectional iterator): the code does nothing *)
  /\ (c = CatInput \/ c = CatForward -> (n < 0)%Z -> advance_m c it n = it)
  (* distance(first, last) with last = it + n *)
  /\ ((0 <= n)%Z \/ c = CatRandom -> distance_m c it (it + n) = Ok n).
Proof.
  intros c it n. repeat split.
  - apply advance_m_spec; assumption.
  - apply advance_m_spec; assumption.
  - intros H. unfold prev_m. rewrite advance_m_spec; [apply Z.add_opp_r|].
    destruct H as [H|H]; [left; apply Z.opp_nonneg_nonpos; exact H|right; exact H].
  - apply advance_m_forward_negative.
  - intros H. rewrite distance_m_spec; [f_equal; lia|].
    destruct H as [H|H]; [left; lia|right; exact H].
Qed.
Print Assumptions C06_iterator_operations_correct.

(** ** reverse_iterator: over a range of ANY length len, the iterator with base b stands for the
    reversed position len - b; comparisons, arithmetic and dereference agree with that reading *)
Theorem C06_reverse_iterator_correct : forall (len x y n : Z),
  rev_eq x y = (rpos len x =? rpos len y)%Z
  /\ rev_ne x y = negb (rpos len x =? rpos len y)%Z
  /\ rev_lt x y = (rpos len x <? rpos len y)%Z
  /\ rev_le x y = (rpos len x <=? rpos len y)%Z
  /\ rev_gt x y = (rpos len y <? rpos len x)%Z
  /\ rev_ge x y = (rpos len y <=? rpos len x)%Z
  /\ rpos len (rev_plus x n) = (rpos len x + n)%Z
  /\ rpos len (rev_minus x n) = (rpos len x - n)%Z
  /\ rpos len (rev_incr x) = (rpos len x + 1)%Z
  /\ rpos len (rev_decr x) = (rpos len x - 1)%Z
  /\ rev_diff x y = (rpos len x - rpos len y)%Z
  /\ rev_deref x = (len - 1 - rpos len x)%Z
  /\ rev_index x n = (len - 1 - (rpos len x + n))%Z.
Proof.
  intros len x y n. unfold rev_eq, rev_ne, rev_lt, rev_le, rev_gt, rev_ge, rev_plus, rev_minus, rev_diff, rev_incr, rev_decr,
    rev_index, rev_deref, rev_plus, rpos.
  repeat split; lia.
Qed.
Print Assumptions C06_reverse_iterator_correct.

(** ** the comparator behind the overloads without a comparator argument (id 3 of the
    correspondence run) meets the hypotheses of the sorting theorems *)
Theorem C06_default_less_strict_weak :
  (forall x, cmp_of2 3 x x = false)
  /\ (forall x y z, cmp_of2 3 x y = true -> cmp_of2 3 y z = true -> cmp_of2 3 x z = true)
  /\ (forall x y z, cmp_of2 3 x y = false -> cmp_of2 3 y x = false -> cmp_of2 3 y z = false ->
                    cmp_of2 3 z y = false -> cmp_of2 3 x z = false).
Proof.
  change (cmp_of2 3) with Z.ltb. repeat split.
  - intros x. apply Z.ltb_irrefl.
  - intros x y z. rewrite !Z.ltb_lt. lia.
  - intros x y z. rewrite !Z.ltb_ge. lia.
Qed.
Print Assumptions C06_default_less_strict_weak.

Example C06a_p3_nonvacuous :
  move_fwd 9 [1; 2; 3; 4; 5; 6] 2 5 0 = Ok ([3; 4; 5; 4; 5; 6], 3)
  /\ move_fwd 9 [1; 2; 3; 4; 5; 6] 0 2 4 = Ok ([1; 2; 3; 4; 1; 2], 6)
  /\ move_bwd 9 [1; 2; 3; 4; 5; 6] 0 3 5 = Ok ([1; 2; 1; 2; 3; 6], 2)
  /\ move_bwd 9 [1; 2; 3; 4; 5; 6] 4 6 2 = Ok ([5; 6; 3; 4; 5; 6], 0)
  /\ advance_m CatBidi 5 (-3) = 2%Z /\ advance_m CatForward 5 (-3) = 5%Z
  /\ distance_m CatInput 2 6 = Ok 4%Z /\ distance_m CatRandom 6 2 = Ok (-4)%Z
  /\ rev_lt 5 0 = true /\ rev_lt 0 5 = false.
Proof. vm_compute. repeat split; reflexivity. Qed.
