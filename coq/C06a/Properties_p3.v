(* C06 (part a) — property theorems, third batch (review round): copies inside one array on both
   permitted sides of the source, nth_element / partial_sort, the iterator helpers advance / next /
   prev / distance, reverse_iterator, and the comparator of the overloads without a comparator.
   All for EVERY list / position / distance; `= Ok ...` also says no access outside the array. *)
From Tetl Require Import Lib.Base Lib.Arr C06a.Model C06a.ModelOut C06a.Spec C06a.Spec2 C06a.IterModel C06a.Instances2
  C06a.P1_Unique C06a.P1_Copy C06a.P2_Gnome C06a.P3_Extra C06a.P3_Out.
From Coq Require Import Lia Sorting.Sorted Sorting.Permutation.

(** ** copy / move with source and destination in the same array: [alg.copy] allows every
    destination outside [first, last) — to the left (overlapping) and to the right (disjoint) *)
Theorem C06_copy_within_correct : forall (A : Type) fuel (l : list A) first last,
  last - first < fuel -> first <= last -> last <= length l ->
  (forall dest, dest <= first \/ last <= dest -> dest + (last - first) <= length l ->
     move_fwd fuel l first last dest = Ok (copy_within_spec l first last dest, dest + (last - first)))
  /\
  (* copy_backward / move_backward: every dLast outside (first, last] *)
  (forall dlast, last <= dlast \/ dlast <= first -> last - first <= dlast -> dlast <= length l ->
     move_bwd fuel l first last dlast
     = Ok (copy_backward_within_spec l first last dlast, dlast - (last - first))).
Proof.
  intros A fuel l first last Hf Hfl Hl. split.
  - intros dest Hd Hfit. apply move_fwd_within; assumption.
  - intros dlast Hd Hfit Hdl. apply move_bwd_within; assumption.
Qed.
Print Assumptions C06_copy_within_correct.

(** ** the one-pass copying algorithms with an explicit, checked DESTINATION buffer d and output
    cursor pos: exactly [pos, pos + n) of the destination receives the list-level result (emit_spec),
    the returned iterator is pos + n, nothing else is written; a destination that is too small is
    UB OutOfBounds (never a silent overrun).  The hypotheses are "the result fits" and, where the
    algorithm reads through a second unbounded iterator, "that range is long enough". *)
Theorem C06_copying_family_correct : forall (A : Type) (src d : list A) (pos : nat),
  (pos + length src <= length d -> copy_out src d pos = Ok (emit_spec d pos src))
  /\ (pos <= length d -> length d < pos + length src -> copy_out src d pos = UB OutOfBounds)
  /\ (forall p, pos + length (filter p src) <= length d ->
        copy_if_out p src d pos = Ok (emit_spec d pos (filter p src)))
  /\ (forall p, pos + length (remove_if_spec p src) <= length d ->
        remove_copy_if_out p src d pos = Ok (emit_spec d pos (remove_if_spec p src)))
  /\ (forall f, pos + length src <= length d -> transform1_out f src d pos = Ok (emit_spec d pos (map f src)))
  /\ (forall f l2, length src <= length l2 -> pos + length src <= length d ->
        transform2_out f src l2 d pos = Ok (emit_spec d pos (map (fun ab => f (fst ab) (snd ab)) (combine src l2))))
  /\ (forall n, (n <= Z.of_nat (length src))%Z -> pos + Z.to_nat n <= length d ->
        copy_n_out src n d pos = Ok (emit_spec d pos (copy_n_spec src (Z.to_nat n))))
  /\ (forall n v, pos + Z.to_nat n <= length d -> fill_n_out n v d pos = Ok (emit_spec d pos (repeat v (Z.to_nat n))))
  /\ (forall (S : Type) (g : S -> A * S) (s : S) n, pos + Z.to_nat n <= length d ->
        generate_n_out n g s d pos = Ok (emit_spec d pos (gen_values (Z.to_nat n) g s)))
  /\ (pos + length src <= length d -> reverse_copy_out src d pos = Ok (emit_spec d pos (rev src)))
  /\ (forall m, m <= length src -> pos + length src <= length d ->
        rotate_copy_out src m d pos = Ok (emit_spec d pos (rotate_copy_spec src m)))
  /\ (forall eqv : A -> A -> bool,
        (forall x, eqv x x = true) -> (forall x y, eqv x y = true -> eqv y x = true) ->
        (forall x y z, eqv x y = true -> eqv y z = true -> eqv x z = true) ->
        pos + length (unique_spec eqv src) <= length d ->
        unique_copy_out eqv src d pos = Ok (emit_spec d pos (unique_spec eqv src)))
  /\ (forall p d2 p2, pos + length (filter p src) <= length d ->
        p2 + length (filter (fun x => negb (p x)) src) <= length d2 ->
        partition_copy_out p src d pos d2 p2
        = Ok (emit_spec d pos (fst (partition_copy_spec p src)), emit_spec d2 p2 (snd (partition_copy_spec p src))))
  /\ (length src <= pos -> pos <= length d -> copy_backward_out src d pos = Ok (emit_backward_spec d pos src))
  /\ (pos < length src -> pos <= length d -> copy_backward_out src d pos = UB OutOfBounds).
Proof.
  intros A src d pos. repeat split.
  - apply copy_out_ok.
  - apply copy_out_overrun.
  - intros p. apply copy_if_out_ok.
  - intros p. apply remove_copy_if_out_ok.
  - intros f. apply transform1_out_ok.
  - intros f l2. apply transform2_out_ok.
  - intros n. apply copy_n_out_ok.
  - intros n v. apply fill_n_out_ok.
  - intros S g s n H. unfold generate_n_out. apply generate_n_loop_ok. exact H.
  - apply reverse_copy_out_ok.
  - intros m Hm H. rewrite <- (rotate_copy_correct src m Hm). apply rotate_copy_out_ok; assumption.
  - intros eqv R S T H. rewrite <- (unique_copy_correct eqv R S T src) in *. apply unique_copy_out_ok. exact H.
  - intros p d2 p2 H1 H2. rewrite <- (partition_copy_correct p src). apply partition_copy_out_ok; assumption.
  - apply copy_backward_out_ok.
  - apply copy_backward_out_underrun.
Qed.
Print Assumptions C06_copying_family_correct.

(** ** nth_element and partial_sort forward to sort = gnome_sort: the result is a sorted
    permutation, hence satisfies [alg.nth.element] for EVERY nth and [partial.sort] for every middle *)
Theorem C06_nth_element_partial_sort_correct : forall (A : Type) (lt : A -> A -> bool),
  (forall x, lt x x = false) ->
  (forall x y z, lt x y = true -> lt y z = true -> lt x z = true) ->
  (forall x y z, lt x y = false -> lt y x = false -> lt y z = false -> lt z y = false -> lt x z = false) ->
  forall (l : list A),
  exists l', gnome_sort lt l = Ok l' /\ Permutation l' l /\ sorted_by lt l'
             /\ (forall nth, nth_element_post lt l' nth)                (* [alg.nth.element] *)
             /\ (forall middle, sorted_by lt (firstn middle l')).        (* [partial.sort], with the line above *)
Proof.
  intros A lt H1 H2 H3 l.
  destruct (gnome_sort_sorts lt H1 H2 H3 l) as [l' [E [S [P _]]]].
  exists l'. repeat split; try assumption.
  - intros nth. apply sorted_nth_element_post. exact S.
  - intros middle. apply StronglySorted_firstn. exact S.
Qed.
Print Assumptions C06_nth_element_partial_sort_correct.

(** ** advance / next / prev / distance, every iterator category, every position and distance *)
Theorem C06_iterator_operations_correct : forall (c : icat) (it n : Z),
  ((0 <= n)%Z \/ c = CatBidi \/ c = CatRandom ->
     advance_m c it n = (it + n)%Z /\ next_m c it n = (it + n)%Z)
  /\ ((n <= 0)%Z \/ c = CatBidi \/ c = CatRandom -> prev_m c it n = (it - n)%Z)
  (* not required by the standard (a negative distance needs a bidirectional iterator): the code does nothing *)
  /\ (c = CatInput \/ c = CatForward -> (n < 0)%Z -> advance_m c it n = it)
  (* distance(first, last) with last = it + n *)
  /\ ((0 <= n)%Z \/ c = CatRandom -> distance_m c it (it + n) = Ok n).
Proof.
  intros c it n. repeat split.
  - apply advance_m_spec; assumption.
  - apply advance_m_spec; assumption.
  - intros H. unfold prev_m. rewrite advance_m_spec; [apply Z.add_opp_r|].
    destruct H as [H|H]; [left; apply Z.opp_nonneg_nonpos; exact H|right; exact H].
  - apply advance_m_forward_negative.
  - intros H. rewrite distance_m_spec; [f_equal; lia|].
    destruct H as [H|H]; [left; lia|right; exact H].
Qed.
Print Assumptions C06_iterator_operations_correct.

(** ** reverse_iterator: over a range of ANY length len, the iterator with base b stands for the
    reversed position len - b; comparisons, arithmetic and dereference agree with that reading *)
Theorem C06_reverse_iterator_correct : forall (len x y n : Z),
  rev_eq x y = (rpos len x =? rpos len y)%Z
  /\ rev_ne x y = negb (rpos len x =? rpos len y)%Z
  /\ rev_lt x y = (rpos len x <? rpos len y)%Z
  /\ rev_le x y = (rpos len x <=? rpos len y)%Z
  /\ rev_gt x y = (rpos len y <? rpos len x)%Z
  /\ rev_ge x y = (rpos len y <=? rpos len x)%Z
  /\ rpos len (rev_plus x n) = (rpos len x + n)%Z
  /\ rpos len (rev_minus x n) = (rpos len x - n)%Z
  /\ rpos len (rev_incr x) = (rpos len x + 1)%Z
  /\ rpos len (rev_decr x) = (rpos len x - 1)%Z
  /\ rev_diff x y = (rpos len x - rpos len y)%Z
  /\ rev_deref x = (len - 1 - rpos len x)%Z
  /\ rev_index x n = (len - 1 - (rpos len x + n))%Z.
Proof.
  intros len x y n. unfold rev_eq, rev_ne, rev_lt, rev_le, rev_gt, rev_ge, rev_plus, rev_minus, rev_diff, rev_incr, rev_decr,
    rev_index, rev_deref, rev_plus, rpos.
  repeat split; lia.
Qed.
Print Assumptions C06_reverse_iterator_correct.

(** ** the comparator behind the overloads without a comparator argument (id 3 of the
    correspondence run) meets the hypotheses of the sorting theorems *)
Theorem C06_default_less_strict_weak :
  (forall x, cmp_of2 3 x x = false)
  /\ (forall x y z, cmp_of2 3 x y = true -> cmp_of2 3 y z = true -> cmp_of2 3 x z = true)
  /\ (forall x y z, cmp_of2 3 x y = false -> cmp_of2 3 y x = false -> cmp_of2 3 y z = false ->
                    cmp_of2 3 z y = false -> cmp_of2 3 x z = false).
Proof.
  change (cmp_of2 3) with Z.ltb. repeat split.
  - intros x. apply Z.ltb_irrefl.
  - intros x y z. rewrite !Z.ltb_lt. lia.
  - intros x y z. rewrite !Z.ltb_ge. lia.
Qed.
Print Assumptions C06_default_less_strict_weak.

Example C06a_p3_nonvacuous :
  move_fwd 9 [1; 2; 3; 4; 5; 6] 2 5 0 = Ok ([3; 4; 5; 4; 5; 6], 3)
  /\ move_fwd 9 [1; 2; 3; 4; 5; 6] 0 2 4 = Ok ([1; 2; 3; 4; 1; 2], 6)
  /\ move_bwd 9 [1; 2; 3; 4; 5; 6] 0 3 5 = Ok ([1; 2; 1; 2; 3; 6], 2)
  /\ move_bwd 9 [1; 2; 3; 4; 5; 6] 4 6 2 = Ok ([5; 6; 3; 4; 5; 6], 0)
  /\ advance_m CatBidi 5 (-3) = 2%Z /\ advance_m CatForward 5 (-3) = 5%Z
  /\ distance_m CatInput 2 6 = Ok 4%Z /\ distance_m CatRandom 6 2 = Ok (-4)%Z
  /\ rev_lt 5 0 = true /\ rev_lt 0 5 = false
  /\ copy_if_out Nat.even [1; 2; 3; 4] [0; 0; 0; 0; 0] 1 = Ok ([0; 2; 4; 0; 0], 3)
  /\ unique_copy_out Nat.eqb [1; 1; 2; 2; 1] [0; 0; 0; 0; 0] 0 = Ok ([1; 2; 1; 0; 0], 3)
  /\ copy_backward_out [1; 2; 3] [0; 0; 0; 0; 0] 4 = Ok ([0; 1; 2; 3; 0], 1)
  /\ copy_out [1; 2; 3] [0; 0] 0 = UB OutOfBounds.
Proof. vm_compute. repeat split; reflexivity. Qed.
