(* C06a model: the mutating half of include/etl/_algorithm, transcribed loop for loop.
   A range [first,last) is a list; iterators are nat indices into it; every dereference goes
   through the checked accessors of Lib.Arr (None = the code would touch something outside
   the range it was given = UB OutOfBounds).  Loops with two cursors run on fuel; running out of
   fuel is the distinguished outcome OutOfFuel, excluded by the theorems.
   A move of an element is modelled as a copy (the harness uses integer elements). *)
From Tetl Require Import Lib.Base Lib.Arr.
From Coq Require Import Arith.

Notation "'do' x <- a ; b" := (rbind a (fun x => b)) (at level 200, x pattern, a at level 100, b at level 200).

Section Algo.
Context {A : Type}.

Definition oget (l : list A) (i : nat) : res A :=
  match get l i with Some x => Ok x | None => UB OutOfBounds end.
Definition oset (l : list A) (i : nat) (v : A) : res (list A) :=
  match set l i v with Some l' => Ok l' | None => UB OutOfBounds end.
Definition oswap (l : list A) (i j : nat) : res (list A) :=
  match swap l i j with Some l' => Ok l' | None => UB OutOfBounds end.

(** ** rotate.hpp — forward-iterator swap cycle + recursion on the remainder *)
Fixpoint rotate_loop (fuel : nat) (l : list A) (write read nextRead last : nat)
  : res (list A * nat * nat) :=
  match fuel with
  | O => OutOfFuel
  | S k =>
      if read =? last then Ok (l, write, nextRead)
      else
        let nr := if write =? nextRead then read else nextRead in
        do l' <- oswap l write read;
        rotate_loop k l' (S write) (S read) nr last
  end.

Fixpoint rotate_m (fuel : nat) (l : list A) (first nfirst last : nat) : res (list A * nat) :=
  match fuel with
  | O => OutOfFuel
  | S k =>
      if first =? nfirst then Ok (l, last)
      else if nfirst =? last then Ok (l, first)
      else
        do r <- rotate_loop (S (last - nfirst)) l first nfirst first last;
        let '(l', write, nr) := r in
        do r2 <- rotate_m k l' write nr last;
        Ok (fst r2, write)
  end.

Definition rotate (l : list A) (first nfirst last : nat) : res (list A * nat) :=
  rotate_m (S (last - first)) l first nfirst last.

(** ** reverse.hpp — two code paths selected by the iterator category *)
Fixpoint reverse_ra_loop (fuel : nat) (l : list A) (i j : nat) : res (list A) :=
  match fuel with
  | O => OutOfFuel
  | S k => if i <? j then do l' <- oswap l i j; reverse_ra_loop k l' (S i) (pred j) else Ok l
  end.
Definition reverse_ra (l : list A) (first last : nat) : res (list A) :=
  if first =? last then Ok l else reverse_ra_loop (S (last - first)) l first (pred last).

Fixpoint reverse_bidi_loop (fuel : nat) (l : list A) (i j : nat) : res (list A) :=
  match fuel with
  | O => OutOfFuel
  | S k =>
      if i =? j then Ok l
      else let j' := pred j in
           if i =? j' then Ok l
           else do l' <- oswap l i j'; reverse_bidi_loop k l' (S i) j'
  end.
Definition reverse_bidi (l : list A) (first last : nat) : res (list A) :=
  reverse_bidi_loop (S (last - first)) l first last.

(** ** swap_ranges.hpp — second range given by its start only *)
Fixpoint swap_ranges (l1 l2 : list A) : res (list A * list A) :=
  match l1 with
  | [] => Ok ([], l2)
  | a :: t1 =>
      match l2 with
      | [] => UB OutOfBounds
      | b :: t2 => do r <- swap_ranges t1 t2; Ok (b :: fst r, a :: snd r)
      end
  end.

(** ** remove_if.hpp (remove.hpp = remove_if with an equality predicate) *)
Fixpoint find_if_from (p : A -> bool) (l : list A) (i : nat) : nat :=
  match l with
  | [] => i
  | x :: t => if p x then i else find_if_from p t (S i)
  end.

Fixpoint remove_if_loop (fuel : nat) (p : A -> bool) (l : list A) (w i last : nat) : res (list A * nat) :=
  match fuel with
  | O => OutOfFuel
  | S k =>
      let i' := S i in
      if i' =? last then Ok (l, w)
      else
        do x <- oget l i';
        if p x then remove_if_loop k p l w i' last
        else do l' <- oset l w x; remove_if_loop k p l' (S w) i' last
  end.

(* whole range [0, length l) *)
Definition remove_if (p : A -> bool) (l : list A) : res (list A * nat) :=
  let first := find_if_from p l 0 in
  let last := length l in
  if first =? last then Ok (l, first) else remove_if_loop (S last) p l first first last.

(** ** unique.hpp *)
Fixpoint unique_loop (fuel : nat) (eqv : A -> A -> bool) (l : list A) (result first last : nat)
  : res (list A * nat) :=
  match fuel with
  | O => OutOfFuel
  | S k =>
      let first' := S first in
      if first' =? last then Ok (l, S result)
      else
        do r <- oget l result;
        do x <- oget l first';
        if negb (eqv r x) then
          let result' := S result in
          if negb (result' =? first') then do l' <- oset l result' x; unique_loop k eqv l' result' first' last
          else unique_loop k eqv l result' first' last
        else unique_loop k eqv l result first' last
  end.

Definition unique (eqv : A -> A -> bool) (l : list A) : res (list A * nat) :=
  let last := length l in
  if 0 =? last then Ok (l, last) else unique_loop (S last) eqv l 0 0 last.

(** ** partition.hpp *)
Fixpoint partition_loop (fuel : nat) (p : A -> bool) (l : list A) (first i last : nat) : res (list A * nat) :=
  match fuel with
  | O => OutOfFuel
  | S k =>
      if i =? last then Ok (l, first)
      else
        do x <- oget l i;
        if p x then do l' <- oswap l i first; partition_loop k p l' (S first) (S i) last
        else partition_loop k p l first (S i) last
  end.

Definition partition (p : A -> bool) (l : list A) : res (list A * nat) :=
  let first := find_if_from (fun x => negb (p x)) l 0 in
  let last := length l in
  if first =? last then Ok (l, first) else partition_loop (S last) p l first (S first) last.

(** ** stable_partition.hpp — divide and conquer on top of rotate *)
Fixpoint stable_partition_m (fuel : nat) (p : A -> bool) (l : list A) (f last : nat) : res (list A * nat) :=
  match fuel with
  | O => OutOfFuel
  | S k =>
      let n := last - f in
      if n =? 0 then Ok (l, f)
      else if n =? 1 then do x <- oget l f; Ok (l, if p x then S f else f)
      else
        let m := f + Nat.div n 2 in
        do r1 <- stable_partition_m k p l f m;
        do r2 <- stable_partition_m k p (fst r1) m last;
        rotate (fst r2) (snd r1) m (snd r2)
  end.

Definition stable_partition (p : A -> bool) (l : list A) : res (list A * nat) :=
  stable_partition_m (S (length l)) p l 0 (length l).

(** ** move.hpp / copy.hpp / move_backward.hpp / copy_backward.hpp inside ONE array (used by
    shift_left, shift_right, inplace_merge); a move is a copy of the value *)
Fixpoint move_fwd (fuel : nat) (l : list A) (first last dest : nat) : res (list A * nat) :=
  match fuel with
  | O => OutOfFuel
  | S k =>
      if first =? last then Ok (l, dest)
      else do x <- oget l first; do l' <- oset l dest x; move_fwd k l' (S first) last (S dest)
  end.

Fixpoint move_bwd (fuel : nat) (l : list A) (first last dest : nat) : res (list A * nat) :=
  match fuel with
  | O => OutOfFuel
  | S k =>
      if first =? last then Ok (l, dest)
      else
        match last, dest with
        | S last', S dest' => do x <- oget l last'; do l' <- oset l dest' x; move_bwd k l' first last' dest'
        | _, _ => UB OutOfBounds
        end
  end.

(** ** shift_left.hpp (random-access path and forward path agree on the result) / shift_right.hpp *)
Definition shift_left (l : list A) (n : Z) : res (list A * nat) :=
  let len := length l in
  if (n <=? 0)%Z then Ok (l, len)
  else if (Z.of_nat len <=? n)%Z then Ok (l, 0)
  else move_fwd (S len) l (Z.to_nat n) len 0.

Definition shift_right (l : list A) (n : Z) : res (list A * nat) :=
  let len := length l in
  if (n <=? 0)%Z then Ok (l, 0)
  else if (Z.of_nat len <=? n)%Z then Ok (l, len)
  else move_bwd (S len) l 0 (len - Z.to_nat n) len.

(** ** inplace_merge.hpp — insertion of each smaller right element by move_backward *)
Fixpoint inplace_merge_loop (fuel : nat) (lt : A -> A -> bool) (l : list A) (left mid right last : nat)
  : res (list A) :=
  match fuel with
  | O => OutOfFuel
  | S k =>
      if (left =? mid) || (right =? last) then Ok l
      else
        do r <- oget l right;
        do x <- oget l left;
        if lt r x then
          do mv <- move_bwd (S (mid - left)) l left mid (S mid);
          do l' <- oset (fst mv) left r;
          inplace_merge_loop k lt l' left (S mid) (S right) last
        else inplace_merge_loop k lt l (S left) mid right last
  end.

Definition inplace_merge (lt : A -> A -> bool) (l : list A) (first mid last : nat) : res (list A) :=
  inplace_merge_loop (S (2 * (last - first))) lt l first mid mid last.

(** ** the sorts: insertion_sort (= stable_sort), gnome_sort (= sort, nth_element, partial_sort),
       bubble_sort, exchange_sort, merge_sort *)
Fixpoint insertion_inner (fuel : nat) (lt : A -> A -> bool) (l : list A) (key : A) (j : nat) : res (list A) :=
  match fuel with
  | O => OutOfFuel
  | S k =>
      match j with
      | O => oset l 0 key
      | S j' =>
          do y <- oget l j';
          if lt key y then do l' <- oset l j y; insertion_inner k lt l' key j'
          else oset l j key
      end
  end.

Fixpoint insertion_outer (fuel : nat) (lt : A -> A -> bool) (l : list A) (i : nat) : res (list A) :=
  match fuel with
  | O => OutOfFuel
  | S k =>
      if i =? length l then Ok l
      else do key <- oget l i; do l' <- insertion_inner (S i) lt l key i; insertion_outer k lt l' (S i)
  end.
Definition insertion_sort (lt : A -> A -> bool) (l : list A) : res (list A) :=
  insertion_outer (S (length l)) lt l 0.

Fixpoint gnome_loop (fuel : nat) (lt : A -> A -> bool) (l : list A) (i : nat) : res (list A) :=
  match fuel with
  | O => OutOfFuel
  | S k =>
      if i =? length l then Ok l
      else
        match i with
        | O => gnome_loop k lt l 1
        | S i' =>
            do x <- oget l i; do y <- oget l i';
            if negb (lt x y) then gnome_loop k lt l (S i)
            else do l' <- oswap l i i'; gnome_loop k lt l' i'
        end
  end.
(* every element moves left at most (its index) times and right once: n^2 + n + 1 steps suffice *)
Definition gnome_sort (lt : A -> A -> bool) (l : list A) : res (list A) :=
  let n := length l in gnome_loop (S (n * n + n)) lt l 0.

Fixpoint bubble_inner (fuel : nat) (lt : A -> A -> bool) (l : list A) (i j : nat) : res (list A) :=
  match fuel with
  | O => OutOfFuel
  | S k =>
      if j <? i then
        do x <- oget l i; do y <- oget l j;
        if lt x y then do l' <- oswap l i j; bubble_inner k lt l' i (S j)
        else bubble_inner k lt l i (S j)
      else Ok l
  end.
Fixpoint bubble_outer (fuel : nat) (lt : A -> A -> bool) (l : list A) (i : nat) : res (list A) :=
  match fuel with
  | O => OutOfFuel
  | S k => if i =? length l then Ok l
           else do l' <- bubble_inner (S i) lt l i 0; bubble_outer k lt l' (S i)
  end.
Definition bubble_sort (lt : A -> A -> bool) (l : list A) : res (list A) :=
  bubble_outer (S (length l)) lt l 0.

Fixpoint exchange_inner (fuel : nat) (lt : A -> A -> bool) (l : list A) (i j : nat) : res (list A) :=
  match fuel with
  | O => OutOfFuel
  | S k =>
      if j <? length l then
        do x <- oget l j; do y <- oget l i;
        if lt x y then do l' <- oswap l i j; exchange_inner k lt l' i (S j)
        else exchange_inner k lt l i (S j)
      else Ok l
  end.
Fixpoint exchange_outer (fuel : nat) (lt : A -> A -> bool) (l : list A) (i : nat) : res (list A) :=
  match fuel with
  | O => OutOfFuel
  | S k => if i <? pred (length l) then
             do l' <- exchange_inner (S (length l)) lt l i (S i); exchange_outer k lt l' (S i)
           else Ok l
  end.
Definition exchange_sort (lt : A -> A -> bool) (l : list A) : res (list A) :=
  if length l =? 0 then Ok l else exchange_outer (S (length l)) lt l 0.

Fixpoint merge_sort_m (fuel : nat) (lt : A -> A -> bool) (l : list A) (first last : nat) : res (list A) :=
  match fuel with
  | O => OutOfFuel
  | S k =>
      if 1 <? last - first then
        let mid := first + Nat.div (last - first) 2 in
        do l1 <- merge_sort_m k lt l first mid;
        do l2 <- merge_sort_m k lt l1 mid last;
        inplace_merge lt l2 first mid last
      else Ok l
  end.
Definition merge_sort (lt : A -> A -> bool) (l : list A) : res (list A) :=
  merge_sort_m (S (length l)) lt l 0 (length l).

(** ** single-pass copying algorithms: source range in, destination contents out.
    The destination is modelled as the list of values written in order (an output iterator);
    the returned iterator is destination + length of that list. *)
Definition copy (l : list A) : list A := l.
Definition copy_n (l : list A) (n : Z) : res (list A) :=
  if (n <=? 0)%Z then Ok []
  else if (Z.of_nat (length l) <? n)%Z then UB OutOfBounds else Ok (firstn (Z.to_nat n) l).
Definition copy_if (p : A -> bool) (l : list A) : list A := filter p l.
(* copy_backward / move_backward write the same values into [dLast - n, dLast) *)
Definition copy_backward (l : list A) : list A := l.
Definition fill (l : list A) (v : A) : list A := map (fun _ => v) l.
Definition fill_n (n : Z) (v : A) : list A := repeat v (Z.to_nat n).
Definition replace_if (p : A -> bool) (nv : A) (l : list A) : list A := map (fun x => if p x then nv else x) l.
Definition transform1 (f : A -> A) (l : list A) : list A := map f l.
Fixpoint transform2 (f : A -> A -> A) (l1 l2 : list A) : res (list A) :=
  match l1 with
  | [] => Ok []
  | a :: t1 => match l2 with
               | [] => UB OutOfBounds
               | b :: t2 => do r <- transform2 f t1 t2; Ok (f a b :: r)
               end
  end.
Fixpoint reverse_copy_from (l : list A) (j : nat) : res (list A) :=
  (* destination gets the value at --last, repeated until first == last *)
  match j with
  | O => Ok []
  | S j' => do x <- oget l j'; do r <- reverse_copy_from l j'; Ok (x :: r)
  end.
Definition reverse_copy (l : list A) : res (list A) := reverse_copy_from l (length l).
Definition rotate_copy (l : list A) (nfirst : nat) : list A := skipn nfirst l ++ firstn nfirst l.
Definition remove_copy_if (p : A -> bool) (l : list A) : list A := filter (fun x => negb (p x)) l.

(* unique_copy compares against the last value WRITTEN, i.e. the one destination points at *)
Fixpoint unique_copy_from (eqv : A -> A -> bool) (lastw : A) (l : list A) : list A :=
  match l with
  | [] => []
  | x :: t => if negb (eqv lastw x) then x :: unique_copy_from eqv x t else unique_copy_from eqv lastw t
  end.
Definition unique_copy (eqv : A -> A -> bool) (l : list A) : list A :=
  match l with [] => [] | x :: t => x :: unique_copy_from eqv x t end.

Fixpoint partition_copy (p : A -> bool) (l : list A) : list A * list A :=
  match l with
  | [] => ([], [])
  | x :: t => let '(a, b) := partition_copy p t in if p x then (x :: a, b) else (a, x :: b)
  end.

(* generate(_n): the generator is a counter starting at g0 *)
End Algo.

Fixpoint generate_from (g : Z) (n : nat) : list Z :=
  match n with O => [] | S k => g :: generate_from (g + 1)%Z k end.
