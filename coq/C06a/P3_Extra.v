(* Proofs for the second batch of part a: copies inside one array on BOTH permitted sides of the
   source, nth_element / partial_sort postconditions, iterator helpers, reverse_iterator. *)
From Tetl Require Import Lib.Base Lib.Arr C06a.Model C06a.Spec C06a.Spec2 C06a.IterModel
  C06a.P1_Common C06a.P1_Shift C06a.P2_Common C06a.P2_Gnome.
From Coq Require Import Arith Lia ZArith Sorting.Sorted Sorting.Permutation.
Ltac Zify.zify_post_hook ::= Z.to_euclidean_division_equations.

Section Copy.
Context {A : Type}.
Implicit Types (l : list A).

Lemma sub_upd_ge l d v i j : j <= d -> d < length l -> sub (upd l d v) i j = sub l i j.
Proof. intros H1 H2. rewrite !sub_alt. rewrite firstn_upd_le by lia. reflexivity. Qed.

Lemma sub_upd_lt l d v i j : d < i -> d < length l -> sub (upd l d v) i j = sub l i j.
Proof. intros H1 H2. unfold sub. rewrite skipn_upd_gt by lia. reflexivity. Qed.

(* forward copy loop into a region to the RIGHT of the source (disjoint) *)
Lemma move_fwd_right : forall fuel l first last dest,
  last - first < fuel -> first <= last -> last <= dest -> dest + (last - first) <= length l ->
  move_fwd fuel l first last dest
  = Ok (firstn dest l ++ sub l first last ++ skipn (dest + (last - first)) l, dest + (last - first)).
Proof.
  induction fuel as [|k IH]; intros l first last dest Hf Hfl Hd Hl; [lia|].
  cbn [move_fwd].
  destruct (Nat.eqb_spec first last) as [E|E].
  - subst last. rewrite sub_empty, Nat.sub_diag, Nat.add_0_r. cbn [app].
    rewrite firstn_skipn. reflexivity.
  - destruct (get_some l first ltac:(lia)) as [x Hx].
    rewrite (oget_some l first x Hx). cbn [rbind].
    rewrite oset_upd by lia. cbn [rbind].
    rewrite IH by (rewrite ?upd_length; lia).
    rewrite firstn_upd_S by lia.
    rewrite sub_upd_ge by lia.
    rewrite skipn_upd_gt by lia.
    rewrite (sub_cons l first last x Hx) by lia.
    rewrite <- app_assoc. cbn [app].
    replace (S dest + (last - S first)) with (dest + (last - first)) by lia. reflexivity.
Qed.

Lemma move_fwd_within fuel l first last dest :
  last - first < fuel -> first <= last -> last <= length l ->
  dest <= first \/ last <= dest -> dest + (last - first) <= length l ->
  move_fwd fuel l first last dest = Ok (copy_within_spec l first last dest, dest + (last - first)).
Proof.
  intros Hf Hfl Hl [Hd|Hd] Hfit; unfold copy_within_spec.
  - apply move_fwd_spec; assumption.
  - apply move_fwd_right; assumption.
Qed.

(* backward copy loop into a region to the LEFT of the source (disjoint) *)
Lemma move_bwd_left : forall fuel l first last dest,
  last - first < fuel -> first <= last -> last <= length l -> dest <= first -> last - first <= dest ->
  move_bwd fuel l first last dest
  = Ok (firstn (dest - (last - first)) l ++ sub l first last ++ skipn dest l, dest - (last - first)).
Proof.
  induction fuel as [|k IH]; intros l first last dest Hf Hfl Hl Hd Hfit; [lia|].
  cbn [move_bwd].
  destruct (Nat.eqb_spec first last) as [E|E].
  - subst last. rewrite sub_empty, Nat.sub_diag, Nat.sub_0_r. cbn [app].
    rewrite firstn_skipn. reflexivity.
  - destruct last as [|last']; [lia|]. destruct dest as [|dest']; [lia|].
    destruct (get_some l last' ltac:(lia)) as [x Hx].
    rewrite (oget_some l last' x Hx). cbn [rbind].
    rewrite oset_upd by lia. cbn [rbind].
    rewrite IH by (rewrite ?upd_length; lia).
    rewrite firstn_upd_le by lia.
    rewrite sub_upd_lt by lia.
    rewrite skipn_upd_eq by lia.
    rewrite (sub_snoc l first last' x Hx) by lia.
    rewrite <- !app_assoc. cbn [app].
    replace (S dest' - (S last' - first)) with (dest' - (last' - first)) by lia. reflexivity.
Qed.

Lemma move_bwd_within fuel l first last dlast :
  last - first < fuel -> first <= last -> last <= length l ->
  last <= dlast \/ dlast <= first -> last - first <= dlast -> dlast <= length l ->
  move_bwd fuel l first last dlast
  = Ok (copy_backward_within_spec l first last dlast, dlast - (last - first)).
Proof.
  intros Hf Hfl Hl [Hd|Hd] Hfit Hdl; unfold copy_backward_within_spec.
  - apply move_bwd_spec; assumption.
  - apply move_bwd_left; assumption.
Qed.

(* a strongly sorted list, by positions *)
Lemma StronglySorted_get (R : A -> A -> Prop) l : StronglySorted R l ->
  forall i j x y, i < j -> get l i = Some x -> get l j = Some y -> R x y.
Proof.
  induction 1 as [|a t Ht IH Ha]; intros i j x y Hij Hx Hy.
  - destruct i; discriminate.
  - destruct j as [|j']; [lia|]. unfold get in *. cbn [nth_error] in Hy.
    destruct i as [|i'].
    + cbn [nth_error] in Hx. injection Hx as <-.
      rewrite Forall_forall in Ha. apply Ha. eapply nth_error_In. exact Hy.
    + cbn [nth_error] in Hx. apply (IH i' j'); [lia|exact Hx|exact Hy].
Qed.

Lemma sorted_nth_element_post (lt : A -> A -> bool) l nth : sorted_by lt l -> nth_element_post lt l nth.
Proof.
  intros Hs i j x y Hi Hj Hx Hy.
  apply (StronglySorted_get _ l Hs i j x y); [lia|exact Hx|exact Hy].
Qed.

Lemma In_firstn (k : nat) : forall (l : list A) z, In z (firstn k l) -> In z l.
Proof.
  induction k as [|k IH]; intros l z H; [destruct H|].
  destruct l as [|a t]; [destruct H|]. cbn [firstn] in H. destruct H as [H|H]; [left; exact H|right; apply IH; exact H].
Qed.

Lemma StronglySorted_firstn (R : A -> A -> Prop) l k : StronglySorted R l -> StronglySorted R (firstn k l).
Proof.
  intros H. revert k. induction H as [|a t Ht IH Ha]; intros k.
  - rewrite firstn_nil. constructor.
  - destruct k as [|k']; [constructor|]. cbn [firstn]. constructor; [apply IH|].
    rewrite Forall_forall in *. intros z Hz. apply Ha. eapply In_firstn. exact Hz.
Qed.
End Copy.

Local Open Scope Z_scope.

Lemma step_up_add k it : step_up k it = it + Z.of_nat k.
Proof. revert it. induction k as [|k IH]; intros it; cbn [step_up]; [lia|]. rewrite IH. lia. Qed.

Lemma step_down_sub k it : step_down k it = it - Z.of_nat k.
Proof. revert it. induction k as [|k IH]; intros it; cbn [step_down]; [lia|]. rewrite IH. lia. Qed.

Lemma advance_m_spec c it n : 0 <= n \/ c = CatBidi \/ c = CatRandom -> advance_m c it n = it + n.
Proof.
  intros H. unfold advance_m. destruct c; rewrite ?step_down_sub, ?step_up_add; try lia.
  - destruct H as [H|[H|H]]; [lia|discriminate|discriminate].
  - destruct H as [H|[H|H]]; [lia|discriminate|discriminate].
Qed.

Lemma advance_m_forward_negative c it n : c = CatInput \/ c = CatForward -> n < 0 -> advance_m c it n = it.
Proof. intros [->| ->] H; unfold advance_m; rewrite step_up_add; lia. Qed.

Lemma distance_loop_spec : forall fuel first last result,
  first <= last -> (Z.to_nat (last - first) < fuel)%nat ->
  distance_loop fuel first last result = Ok (result + (last - first)).
Proof.
  induction fuel as [|k IH]; intros first last result Hle Hf; [lia|].
  cbn [distance_loop]. destruct (Z.eqb_spec first last) as [E|E].
  - subst. f_equal. lia.
  - rewrite IH by lia. f_equal. lia.
Qed.

Lemma distance_m_spec c first last : first <= last \/ c = CatRandom -> distance_m c first last = Ok (last - first).
Proof.
  intros H. destruct c; cbn [distance_m]; try reflexivity;
    (destruct H as [H|H]; [|discriminate]; rewrite distance_loop_spec by lia; f_equal; lia).
Qed.
