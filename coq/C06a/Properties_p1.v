(* C06 (part a) — property theorems, first batch: stable_partition, reverse, swap_ranges,
   shift_left/right, remove_if, partition, unique, and the copying family.
   Every theorem is for ALL lists (any length, any element type, any predicate); `= Ok …` also
   says: no access outside the given range (never UB OutOfBounds) and the loop fuel suffices. *)
From Tetl Require Import Lib.Base Lib.Arr C06a.Model C06a.Spec.
From Tetl Require Import C06a.P1_StablePartition C06a.P1_Reverse C06a.P1_SwapRanges C06a.P1_Shift
  C06a.P1_RemoveIf C06a.P1_Partition C06a.P1_Unique C06a.P1_Copy.
From Coq Require Import Sorting.Permutation.

(** ** 1. stable_partition (divide and conquer + rotate) *)
Theorem C06_stable_partition_correct : forall (A : Type) (p : A -> bool) (l : list A),
  stable_partition p l = Ok (stable_partition_spec p l).
Proof. intros. apply stable_partition_correct. Qed.
Print Assumptions C06_stable_partition_correct.

(* the same on any sub-range [|P|, |P|+|M|) of a larger array: nothing outside M is touched *)
Theorem C06_stable_partition_subrange : forall (A : Type) (p : A -> bool) (fuel : nat) (P M T : list A),
  length M < fuel ->
  stable_partition_m fuel p (P ++ M ++ T) (length P) (length P + length M)
  = Ok (P ++ filter p M ++ filter (fun x => negb (p x)) M ++ T, length P + length (filter p M)).
Proof. intros. apply stable_partition_m_decomp. assumption. Qed.
Print Assumptions C06_stable_partition_subrange.

(** ** 2. reverse, both iterator-category code paths *)
Theorem C06_reverse_ra_correct : forall (A : Type) (l : list A) first last,
  first <= last -> last <= length l ->
  reverse_ra l first last = Ok (reverse_spec l first last).
Proof. intros. apply reverse_ra_correct; assumption. Qed.
Print Assumptions C06_reverse_ra_correct.

Theorem C06_reverse_bidi_correct : forall (A : Type) (l : list A) first last,
  first <= last -> last <= length l ->
  reverse_bidi l first last = Ok (reverse_spec l first last).
Proof. intros. apply reverse_bidi_correct; assumption. Qed.
Print Assumptions C06_reverse_bidi_correct.

(** ** 3. swap_ranges *)
Theorem C06_swap_ranges_correct : forall (A : Type) (l1 l2 : list A),
  length l1 <= length l2 -> swap_ranges l1 l2 = Ok (swap_ranges_spec l1 l2).
Proof. intros. apply swap_ranges_correct. assumption. Qed.
Print Assumptions C06_swap_ranges_correct.

Theorem C06_swap_ranges_short_second_range : forall (A : Type) (l1 l2 : list A),
  length l2 < length l1 -> swap_ranges l1 l2 = UB OutOfBounds.
Proof. intros. apply swap_ranges_short. assumption. Qed.
Print Assumptions C06_swap_ranges_short_second_range.

(** ** 7. shift_left / shift_right, and the overlapping moves they are built on *)
Theorem C06_move_fwd_overlap : forall (A : Type) fuel (l : list A) first last dest,
  last - first < fuel -> dest <= first -> first <= last -> last <= length l ->
  move_fwd fuel l first last dest
  = Ok (firstn dest l ++ sub l first last ++ skipn (dest + (last - first)) l, dest + (last - first)).
Proof. intros. apply move_fwd_spec; assumption. Qed.
Print Assumptions C06_move_fwd_overlap.

Theorem C06_move_bwd_overlap : forall (A : Type) fuel (l : list A) first last dest,
  last - first < fuel -> first <= last -> last <= dest -> dest <= length l ->
  move_bwd fuel l first last dest
  = Ok (firstn (dest - (last - first)) l ++ sub l first last ++ skipn dest l, dest - (last - first)).
Proof. intros. apply move_bwd_spec; assumption. Qed.
Print Assumptions C06_move_bwd_overlap.

Theorem C06_shift_left_correct : forall (A : Type) (l : list A) (n : Z),
  (0 < n < Z.of_nat (length l))%Z ->
  exists l', shift_left l n = Ok (l', length l - Z.to_nat n)
             /\ firstn (length l - Z.to_nat n) l' = shift_left_spec l (Z.to_nat n)
             /\ length l' = length l.
Proof. intros. apply shift_left_correct. assumption. Qed.
Print Assumptions C06_shift_left_correct.

Theorem C06_shift_left_nonpositive : forall (A : Type) (l : list A) (n : Z),
  (n <= 0)%Z -> shift_left l n = Ok (l, length l).
Proof. intros. apply shift_left_nonpositive. assumption. Qed.
Print Assumptions C06_shift_left_nonpositive.

Theorem C06_shift_left_too_far : forall (A : Type) (l : list A) (n : Z),
  (0 < n)%Z -> (Z.of_nat (length l) <= n)%Z -> shift_left l n = Ok (l, 0).
Proof. intros. apply shift_left_too_far; assumption. Qed.
Print Assumptions C06_shift_left_too_far.

Theorem C06_shift_right_correct : forall (A : Type) (l : list A) (n : Z),
  (0 < n < Z.of_nat (length l))%Z ->
  exists l', shift_right l n = Ok (l', Z.to_nat n)
             /\ skipn (Z.to_nat n) l' = shift_right_spec l (Z.to_nat n)
             /\ length l' = length l.
Proof. intros. apply shift_right_correct. assumption. Qed.
Print Assumptions C06_shift_right_correct.

Theorem C06_shift_right_nonpositive : forall (A : Type) (l : list A) (n : Z),
  (n <= 0)%Z -> shift_right l n = Ok (l, 0).
Proof. intros. apply shift_right_nonpositive. assumption. Qed.
Print Assumptions C06_shift_right_nonpositive.

Theorem C06_shift_right_too_far : forall (A : Type) (l : list A) (n : Z),
  (0 < n)%Z -> (Z.of_nat (length l) <= n)%Z -> shift_right l n = Ok (l, length l).
Proof. intros. apply shift_right_too_far; assumption. Qed.
Print Assumptions C06_shift_right_too_far.

(** ** 4. remove_if *)
Theorem C06_remove_if_correct : forall (A : Type) (p : A -> bool) (l : list A),
  exists l', remove_if p l = Ok (l', length (remove_if_spec p l))
             /\ firstn (length (remove_if_spec p l)) l' = remove_if_spec p l
             /\ length l' = length l.
Proof. intros. apply remove_if_correct. Qed.
Print Assumptions C06_remove_if_correct.

(** ** 6. partition *)
Theorem C06_partition_correct : forall (A : Type) (p : A -> bool) (l : list A),
  exists l', partition p l = Ok (l', partition_point_spec p l)
             /\ is_partitioned_at p l' (partition_point_spec p l)
             /\ Permutation l' l
             /\ length l' = length l.
Proof. intros. apply partition_correct. Qed.
Print Assumptions C06_partition_correct.

(** ** 5. unique, under the standard's precondition that eqv is an equivalence relation *)
Theorem C06_unique_correct : forall (A : Type) (eqv : A -> A -> bool),
  (forall x, eqv x x = true) ->
  (forall x y, eqv x y = true -> eqv y x = true) ->
  (forall x y z, eqv x y = true -> eqv y z = true -> eqv x z = true) ->
  forall l : list A,
  exists l', unique eqv l = Ok (l', length (unique_spec eqv l))
             /\ firstn (length (unique_spec eqv l)) l' = unique_spec eqv l
             /\ length l' = length l.
Proof. intros A eqv Hr Hs Ht l. apply unique_correct; assumption. Qed.
Print Assumptions C06_unique_correct.

(** ** 8. the copying family *)
Theorem C06_copy_n_correct : forall (A : Type) (l : list A) (n : Z),
  (0 <= n <= Z.of_nat (length l))%Z -> copy_n l n = Ok (copy_n_spec l (Z.to_nat n)).
Proof. intros. apply copy_n_correct. assumption. Qed.
Print Assumptions C06_copy_n_correct.

Theorem C06_copy_n_overrun : forall (A : Type) (l : list A) (n : Z),
  (Z.of_nat (length l) < n)%Z -> copy_n l n = UB OutOfBounds.
Proof. intros. apply copy_n_overrun. assumption. Qed.
Print Assumptions C06_copy_n_overrun.

Theorem C06_copy_n_negative : forall (A : Type) (l : list A) (n : Z),
  (n < 0)%Z -> copy_n l n = Ok [].
Proof. intros. apply copy_n_negative. assumption. Qed.
Print Assumptions C06_copy_n_negative.

Theorem C06_reverse_copy_correct : forall (A : Type) (l : list A), reverse_copy l = Ok (rev l).
Proof. intros. apply reverse_copy_correct. Qed.
Print Assumptions C06_reverse_copy_correct.

Theorem C06_transform2_correct : forall (A : Type) (f : A -> A -> A) (l1 l2 : list A),
  length l1 <= length l2 ->
  transform2 f l1 l2 = Ok (map (fun ab => f (fst ab) (snd ab)) (combine l1 l2)).
Proof. intros. apply transform2_correct. assumption. Qed.
Print Assumptions C06_transform2_correct.

Theorem C06_transform2_short_second_range : forall (A : Type) (f : A -> A -> A) (l1 l2 : list A),
  length l2 < length l1 -> transform2 f l1 l2 = UB OutOfBounds.
Proof. intros. apply transform2_short. assumption. Qed.
Print Assumptions C06_transform2_short_second_range.

Theorem C06_rotate_copy_correct : forall (A : Type) (l : list A) (m : nat),
  m <= length l -> rotate_copy l m = rotate_copy_spec l m.
Proof. intros. apply rotate_copy_correct. assumption. Qed.
Print Assumptions C06_rotate_copy_correct.

Theorem C06_remove_copy_if_correct : forall (A : Type) (p : A -> bool) (l : list A),
  remove_copy_if p l = remove_if_spec p l.
Proof. intros. apply remove_copy_if_correct. Qed.
Print Assumptions C06_remove_copy_if_correct.

Theorem C06_unique_copy_correct : forall (A : Type) (eqv : A -> A -> bool),
  (forall x, eqv x x = true) ->
  (forall x y, eqv x y = true -> eqv y x = true) ->
  (forall x y z, eqv x y = true -> eqv y z = true -> eqv x z = true) ->
  forall l : list A, unique_copy eqv l = unique_spec eqv l.
Proof. intros A eqv Hr Hs Ht l. apply unique_copy_correct; assumption. Qed.
Print Assumptions C06_unique_copy_correct.

Theorem C06_partition_copy_correct : forall (A : Type) (p : A -> bool) (l : list A),
  partition_copy p l = partition_copy_spec p l.
Proof. intros. apply partition_copy_correct. Qed.
Print Assumptions C06_partition_copy_correct.

Theorem C06_fill_correct : forall (A : Type) (l : list A) (v : A), fill l v = repeat v (length l).
Proof. intros. apply fill_correct. Qed.
Print Assumptions C06_fill_correct.

(* non-vacuity of the equivalence hypotheses, and one concrete run each of the in-place loops *)
Example C06a_p1_nonvacuous :
  (forall x, Nat.eqb x x = true)
  /\ (forall x y, Nat.eqb x y = true -> Nat.eqb y x = true)
  /\ (forall x y z, Nat.eqb x y = true -> Nat.eqb y z = true -> Nat.eqb x z = true)
  /\ unique Nat.eqb [1; 1; 2; 2; 2; 3; 1; 1] = Ok ([1; 2; 3; 1; 2; 3; 1; 1], 4)
  /\ remove_if Nat.even [1; 2; 3; 4; 5] = Ok ([1; 3; 5; 4; 5], 3)
  /\ partition Nat.even [1; 2; 3; 4; 5] = Ok ([2; 4; 3; 1; 5], 2)
  /\ stable_partition Nat.even [1; 2; 3; 4; 5] = Ok ([2; 4; 1; 3; 5], 2)
  /\ shift_left [1; 2; 3; 4; 5] 2 = Ok ([3; 4; 5; 4; 5], 3)
  /\ shift_right [1; 2; 3; 4; 5] 2 = Ok ([1; 2; 1; 2; 3], 2).
Proof.
  repeat split; try (vm_compute; reflexivity).
  - intros x. apply Nat.eqb_refl.
  - intros x y H. apply Nat.eqb_eq in H. subst. apply Nat.eqb_refl.
  - intros x y z H1 H2. apply Nat.eqb_eq in H1. apply Nat.eqb_eq in H2. subst. apply Nat.eqb_refl.
Qed.
