(* The loops of unique / remove_if / move / move_backward with the element move made explicit (ModelMove.v) simulate the
   copy loops of Model.v: outside a "dead zone" of cells that the algorithm has already consumed and not yet rewritten
   the two arrays agree, every read falls outside the zone, and every move assignment goes from the cell just behind
   the zone to its first cell (backward variant: from the cell just before it to its last cell) - never from a cell
   onto itself.  Hence the specified part of the result is the same as with copies, i.e. what Properties_p1 proves. *)
From Tetl Require Import Lib.Base Lib.Arr C06a.Model C06a.ModelMove C06a.Spec.
From Tetl Require Import C06a.P1_Unique C06a.P1_RemoveIf C06a.P1_Shift.
From Coq Require Import Arith Lia.

Section MvProofs.
Context {A : Type}.
Variable mv : A.
Implicit Types (l lc lm : list A).

Lemma get_set : forall l i (v : A) l', set l i v = Some l' ->
  forall j, get l' j = if j =? i then Some v else get l j.
Proof.
  induction l as [|x t IH]; intros i v l' H j; cbn [set] in H; [discriminate|].
  destruct i as [|i].
  - inversion H; subst. destruct j; reflexivity.
  - destruct (set t i v) as [t'|] eqn:E; [|discriminate]. inversion H; subst.
    destruct j as [|j]; [reflexivity|].
    change (S j =? S i) with (j =? i). unfold get in *. cbn [nth_error]. exact (IH _ _ _ E j).
Qed.

Lemma oget_lt l i (x : A) : oget l i = Ok x -> i < length l /\ get l i = Some x.
Proof.
  unfold oget. destruct (get l i) as [y|] eqn:E; intros H; [|discriminate].
  inversion H; subst. split; [eapply get_lt; exact E|reflexivity].
Qed.

Lemma oset_inv l i (v : A) l' : oset l i v = Ok l' -> set l i v = Some l' /\ i < length l /\ length l' = length l.
Proof.
  unfold oset. destruct (set l i v) as [l1|] eqn:E; intros H; [|discriminate].
  inversion H; subst. split; [reflexivity|]. split; [|eapply set_length; exact E].
  pose proof (get_set _ _ _ _ E i) as G. rewrite Nat.eqb_refl in G.
  apply get_lt in G. erewrite set_length in G by exact E. exact G.
Qed.

Lemma oset_lt l i (v : A) : i < length l -> exists l', oset l i v = Ok l'.
Proof. intros H. destruct (set_some l i v H) as [l' E]. exists l'. unfold oset. rewrite E. reflexivity. Qed.

(* the two arrays have the same length and agree outside [lo, hi) *)
Definition agree (lo hi : nat) lc lm : Prop :=
  length lc = length lm /\ forall i, i < lo \/ hi <= i -> get lc i = get lm i.

Lemma agree_refl lo hi l : agree lo hi l l.
Proof. split; reflexivity. Qed.

Lemma agree_weaken lo hi lo' hi' lc lm : agree lo hi lc lm -> lo' <= lo -> hi <= hi' -> agree lo' hi' lc lm.
Proof. intros [Hl Hg] H1 H2. split; [exact Hl|]. intros i Hi. apply Hg. lia. Qed.

Lemma agree_empty lo hi lo' hi' lc lm : agree lo hi lc lm -> hi <= lo -> agree lo' hi' lc lm.
Proof. intros [Hl Hg] H1. split; [exact Hl|]. intros i _. apply Hg. lia. Qed.

Lemma agree_oget lo hi lc lm i : agree lo hi lc lm -> i < lo \/ hi <= i -> oget lm i = oget lc i.
Proof. intros [_ Hg] Hi. unfold oget. rewrite (Hg i Hi). reflexivity. Qed.

(* *lo = move( *hi ) : the first dead cell is rewritten from the cell just behind the zone *)
Lemma agree_move lo hi lc lm x lc' :
  agree lo hi lc lm -> lo < hi -> oget lc hi = Ok x -> oset lc lo x = Ok lc' ->
  exists lm', omove mv lm lo hi = Ok lm' /\ agree (S lo) (S hi) lc' lm'.
Proof.
  intros Hag Hlt Hx Hs.
  pose proof Hag as [Hlen Hg].
  destruct (oget_lt _ _ _ Hx) as [Hhi _].
  destruct (oset_inv _ _ _ _ Hs) as (Hs' & Hlo & Hlen').
  unfold omove. rewrite (agree_oget lo hi lc lm hi Hag) by lia. rewrite Hx. cbn [rbind].
  destruct (oset_lt lm lo x) as [lm1 E1]; [lia|]. rewrite E1. cbn [rbind].
  destruct (oset_inv _ _ _ _ E1) as (E1' & _ & Hlen1).
  destruct (oset_lt lm1 hi mv) as [lm2 E2]; [lia|]. rewrite E2.
  destruct (oset_inv _ _ _ _ E2) as (E2' & _ & Hlen2).
  exists lm2. split; [reflexivity|]. split; [lia|].
  intros j Hj.
  rewrite (get_set _ _ _ _ Hs' j), (get_set _ _ _ _ E2' j), (get_set _ _ _ _ E1' j).
  destruct (Nat.eqb_spec j hi) as [->|Hne]; [lia|].
  destruct (Nat.eqb_spec j lo) as [->|Hne2]; [reflexivity|].
  apply Hg. lia.
Qed.

(* *hi = move( *lo ) with the zone [S lo, S hi): the last dead cell is rewritten from the cell just before the zone *)
Lemma agree_move_bwd lo hi lc lm x lc' :
  agree (S lo) (S hi) lc lm -> lo < hi -> oget lc lo = Ok x -> oset lc hi x = Ok lc' ->
  exists lm', omove mv lm hi lo = Ok lm' /\ agree lo hi lc' lm'.
Proof.
  intros Hag Hlt Hx Hs.
  pose proof Hag as [Hlen Hg].
  destruct (oget_lt _ _ _ Hx) as [Hlo _].
  destruct (oset_inv _ _ _ _ Hs) as (Hs' & Hhi & Hlen').
  unfold omove. rewrite (agree_oget (S lo) (S hi) lc lm lo Hag) by lia. rewrite Hx. cbn [rbind].
  destruct (oset_lt lm hi x) as [lm1 E1]; [lia|]. rewrite E1. cbn [rbind].
  destruct (oset_inv _ _ _ _ E1) as (E1' & _ & Hlen1).
  destruct (oset_lt lm1 lo mv) as [lm2 E2]; [lia|]. rewrite E2.
  destruct (oset_inv _ _ _ _ E2) as (E2' & _ & Hlen2).
  exists lm2. split; [reflexivity|]. split; [lia|].
  intros j Hj.
  rewrite (get_set _ _ _ _ Hs' j), (get_set _ _ _ _ E2' j), (get_set _ _ _ _ E1' j).
  destruct (Nat.eqb_spec j lo) as [->|Hne]; [lia|].
  destruct (Nat.eqb_spec j hi) as [->|Hne2]; [reflexivity|].
  apply Hg. lia.
Qed.

Lemma nth_error_ext : forall (a b : list A), (forall i, nth_error a i = nth_error b i) -> a = b.
Proof.
  induction a as [|x a IH]; intros [|y b] H.
  - reflexivity.
  - specialize (H 0). discriminate.
  - specialize (H 0). discriminate.
  - pose proof (H 0) as H0. cbn in H0. inversion H0; subst. f_equal. apply IH. intros i. exact (H (S i)).
Qed.

Lemma firstn_get_ext : forall r lc lm, (forall i, i < r -> get lc i = get lm i) -> length lc = length lm ->
  firstn r lc = firstn r lm.
Proof.
  induction r as [|r IH]; intros lc lm H Hl; [reflexivity|].
  destruct lc as [|x lc], lm as [|y lm]; cbn [length] in Hl; try discriminate; [reflexivity|].
  pose proof (H 0 ltac:(lia)) as H0. cbn in H0. inversion H0; subst. cbn [firstn]. f_equal.
  apply IH; [|lia]. intros i Hi. exact (H (S i) ltac:(lia)).
Qed.

Lemma skipn_get_ext : forall r lc lm, (forall i, r <= i -> get lc i = get lm i) -> length lc = length lm ->
  skipn r lc = skipn r lm.
Proof.
  induction r as [|r IH]; intros lc lm H Hl.
  - cbn [skipn]. apply nth_error_ext. intros i. apply (H i). lia.
  - destruct lc as [|x lc], lm as [|y lm]; cbn [length] in Hl; try discriminate; [reflexivity|].
    cbn [skipn]. apply IH; [|lia]. intros i Hi. exact (H (S i) ltac:(lia)).
Qed.

(* a move assignment towards the front / towards the back: in particular never onto itself *)
Definition to_front (m : nat * nat) : Prop := fst m < snd m.
Definition to_back (m : nat * nat) : Prop := snd m < fst m.

(** ** unique *)
Lemma unique_sim (eqv : A -> A -> bool) : forall fuel lc lm result first last tr0 lc' r,
  agree (S result) (S first) lc lm -> result <= first ->
  unique_loop fuel eqv lc result first last = Ok (lc', r) ->
  exists lm' tr, unique_loop_mv mv fuel eqv lm result first last tr0 = Ok (lm', r, tr)
    /\ length lc' = length lm' /\ (forall i, i < r -> get lc' i = get lm' i)
    /\ (Forall to_front tr0 -> Forall to_front tr).
Proof.
  induction fuel as [|k IH]; intros lc lm result first last tr0 lc' r Hag Hle H; cbn [unique_loop] in H; [discriminate|].
  cbn [unique_loop_mv].
  destruct (S first =? last) eqn:E.
  - inversion H; subst. exists lm, tr0. split; [reflexivity|]. destruct Hag as [Hl Hg].
    split; [exact Hl|]. split; [|auto]. intros i Hi. apply Hg. lia.
  - destruct (oget lc result) as [rv| | |] eqn:Er; cbn [rbind] in H; try discriminate.
    destruct (oget lc (S first)) as [x| | |] eqn:Ex; cbn [rbind] in H; try discriminate.
    rewrite (agree_oget _ _ _ _ result Hag) by lia. rewrite Er. cbn [rbind].
    rewrite (agree_oget _ _ _ _ (S first) Hag) by lia. rewrite Ex. cbn [rbind].
    destruct (negb (eqv rv x)) eqn:Ek.
    + destruct (Nat.eqb_spec (S result) (S first)) as [En|En]; cbn [negb] in H |- *.
      * eapply IH; [|lia|exact H]. eapply agree_empty; [exact Hag|lia].
      * destruct (oset lc (S result) x) as [lc1| | |] eqn:Es; cbn [rbind] in H; try discriminate.
        destruct (agree_move _ _ _ _ _ _ Hag ltac:(lia) Ex Es) as (lm1 & Hm & Hag1).
        rewrite Hm. cbn [rbind].
        destruct (IH lc1 lm1 (S result) (S first) last ((S result, S first) :: tr0) lc' r Hag1 ltac:(lia) H)
          as (lm' & tr & Hrun & Hlen & Hfin & Htr).
        exists lm', tr. split; [exact Hrun|]. split; [exact Hlen|]. split; [exact Hfin|].
        intros HF. apply Htr. constructor; [unfold to_front; cbn [fst snd]; lia|exact HF].
    + eapply IH; [|lia|exact H]. eapply agree_weaken; [exact Hag|lia|lia].
Qed.

Theorem unique_mv_correct (eqv : A -> A -> bool) :
  (forall x, eqv x x = true) ->
  (forall x y, eqv x y = true -> eqv y x = true) ->
  (forall x y z, eqv x y = true -> eqv y z = true -> eqv x z = true) ->
  forall l, exists l' tr,
    unique_mv mv eqv l = Ok (l', length (unique_spec eqv l), tr)
    /\ firstn (length (unique_spec eqv l)) l' = unique_spec eqv l
    /\ length l' = length l
    /\ Forall to_front tr.
Proof.
  intros Hr Hs Ht l.
  destruct (unique_correct eqv Hr Hs Ht l) as (lc' & Hrun & Hfirst & Hlen).
  unfold unique in Hrun. unfold unique_mv.
  destruct (0 =? length l) eqn:E.
  - injection Hrun as Ea Eb. subst lc'. exists l, []. split; [rewrite <- Eb; reflexivity|]. repeat split; try assumption. constructor.
  - destruct (unique_sim eqv _ l l 0 0 (length l) [] lc' _ (agree_refl 1 1 l) ltac:(lia) Hrun)
      as (lm' & tr & Hrun' & Hl & Hfin & Htr).
    exists lm', tr. split; [exact Hrun'|]. split; [|split; [lia|apply Htr; constructor]].
    rewrite <- (firstn_get_ext _ lc' lm' Hfin Hl). exact Hfirst.
Qed.

(** ** remove_if *)
Lemma remove_if_sim (p : A -> bool) : forall fuel lc lm w i last tr0 lc' r,
  agree w (S i) lc lm -> w <= i ->
  remove_if_loop fuel p lc w i last = Ok (lc', r) ->
  exists lm' tr, remove_if_loop_mv mv fuel p lm w i last tr0 = Ok (lm', r, tr)
    /\ length lc' = length lm' /\ (forall j, j < r -> get lc' j = get lm' j)
    /\ (Forall to_front tr0 -> Forall to_front tr).
Proof.
  induction fuel as [|k IH]; intros lc lm w i last tr0 lc' r Hag Hle H; cbn [remove_if_loop] in H; [discriminate|].
  cbn [remove_if_loop_mv].
  destruct (S i =? last) eqn:E.
  - inversion H; subst. exists lm, tr0. split; [reflexivity|]. destruct Hag as [Hl Hg].
    split; [exact Hl|]. split; [|auto]. intros j Hj. apply Hg. lia.
  - destruct (oget lc (S i)) as [x| | |] eqn:Ex; cbn [rbind] in H; try discriminate.
    rewrite (agree_oget _ _ _ _ (S i) Hag) by lia. rewrite Ex. cbn [rbind].
    destruct (p x) eqn:Ep.
    + eapply IH; [|lia|exact H]. eapply agree_weaken; [exact Hag|lia|lia].
    + destruct (oset lc w x) as [lc1| | |] eqn:Es; cbn [rbind] in H; try discriminate.
      destruct (agree_move _ _ _ _ _ _ Hag ltac:(lia) Ex Es) as (lm1 & Hm & Hag1).
      rewrite Hm. cbn [rbind].
      destruct (IH lc1 lm1 (S w) (S i) last ((w, S i) :: tr0) lc' r Hag1 ltac:(lia) H)
        as (lm' & tr & Hrun & Hlen & Hfin & Htr).
      exists lm', tr. split; [exact Hrun|]. split; [exact Hlen|]. split; [exact Hfin|].
      intros HF. apply Htr. constructor; [unfold to_front; cbn [fst snd]; lia|exact HF].
Qed.

Theorem remove_if_mv_correct (p : A -> bool) : forall l, exists l' tr,
  remove_if_mv mv p l = Ok (l', length (remove_if_spec p l), tr)
  /\ firstn (length (remove_if_spec p l)) l' = remove_if_spec p l
  /\ length l' = length l
  /\ Forall to_front tr.
Proof.
  intros l.
  destruct (remove_if_correct p l) as (lc' & Hrun & Hfirst & Hlen).
  unfold remove_if in Hrun. unfold remove_if_mv.
  destruct (find_if_from p l 0 =? length l) eqn:E.
  - injection Hrun as Ea Eb. subst lc'. exists l, []. split; [rewrite <- Eb; reflexivity|]. repeat split; try assumption. constructor.
  - destruct (remove_if_sim p _ l l _ _ (length l) [] lc' _ (agree_refl _ _ l) (le_n _) Hrun)
      as (lm' & tr & Hrun' & Hl & Hfin & Htr).
    exists lm', tr. split; [exact Hrun'|]. split; [|split; [lia|apply Htr; constructor]].
    rewrite <- (firstn_get_ext _ lc' lm' Hfin Hl). exact Hfirst.
Qed.

(** ** move towards the front (shift_left) *)
Lemma move_fwd_sim : forall fuel lc lm first last dest tr0 lc' r,
  agree dest first lc lm -> dest < first ->
  move_fwd fuel lc first last dest = Ok (lc', r) ->
  exists lm' tr, move_fwd_mv mv fuel lm first last dest tr0 = Ok (lm', r, tr)
    /\ length lc' = length lm' /\ (forall j, j < r -> get lc' j = get lm' j)
    /\ (Forall to_front tr0 -> Forall to_front tr).
Proof.
  induction fuel as [|k IH]; intros lc lm first last dest tr0 lc' r Hag Hlt H; cbn [move_fwd] in H; [discriminate|].
  cbn [move_fwd_mv].
  destruct (first =? last) eqn:E.
  - inversion H; subst. exists lm, tr0. split; [reflexivity|]. destruct Hag as [Hl Hg].
    split; [exact Hl|]. split; [|auto]. intros j Hj. apply Hg. lia.
  - destruct (oget lc first) as [x| | |] eqn:Ex; cbn [rbind] in H; try discriminate.
    destruct (oset lc dest x) as [lc1| | |] eqn:Es; cbn [rbind] in H; try discriminate.
    destruct (agree_move _ _ _ _ _ _ Hag Hlt Ex Es) as (lm1 & Hm & Hag1).
    rewrite Hm. cbn [rbind].
    destruct (IH lc1 lm1 (S first) last (S dest) ((dest, first) :: tr0) lc' r Hag1 ltac:(lia) H)
      as (lm' & tr & Hrun & Hlen & Hfin & Htr).
    exists lm', tr. split; [exact Hrun|]. split; [exact Hlen|]. split; [exact Hfin|].
    intros HF. apply Htr. constructor; [unfold to_front; cbn [fst snd]; lia|exact HF].
Qed.

Theorem shift_left_mv_correct : forall l (n : Z),
  (0 < n < Z.of_nat (length l))%Z ->
  exists l' tr, shift_left_mv mv l n = Ok (l', length l - Z.to_nat n, tr)
    /\ firstn (length l - Z.to_nat n) l' = shift_left_spec l (Z.to_nat n)
    /\ length l' = length l
    /\ Forall to_front tr.
Proof.
  intros l n Hn.
  destruct (shift_left_correct l n Hn) as (lc' & Hrun & Hfirst & Hlen).
  unfold shift_left in Hrun. unfold shift_left_mv.
  destruct (n <=? 0)%Z eqn:E1; [lia|].
  destruct (Z.of_nat (length l) <=? n)%Z eqn:E2; [lia|].
  assert (Hz : 0 < Z.to_nat n) by lia.
  destruct (move_fwd_sim _ l l _ _ 0 [] lc' _ (agree_refl _ _ l) Hz Hrun)
    as (lm' & tr & Hrun' & Hl & Hfin & Htr).
  exists lm', tr. split; [exact Hrun'|]. split; [|split; [lia|apply Htr; constructor]].
  rewrite <- (firstn_get_ext _ lc' lm' Hfin Hl). exact Hfirst.
Qed.

(** ** move_backward towards the back (shift_right) *)
Lemma move_bwd_sim : forall fuel lc lm first last dest tr0 lc' r,
  agree last dest lc lm -> last < dest ->
  move_bwd fuel lc first last dest = Ok (lc', r) ->
  exists lm' tr, move_bwd_mv mv fuel lm first last dest tr0 = Ok (lm', r, tr)
    /\ length lc' = length lm' /\ (forall j, r <= j -> get lc' j = get lm' j)
    /\ (Forall to_back tr0 -> Forall to_back tr).
Proof.
  induction fuel as [|k IH]; intros lc lm first last dest tr0 lc' r Hag Hlt H; cbn [move_bwd] in H; [discriminate|].
  cbn [move_bwd_mv].
  destruct (first =? last) eqn:E.
  - inversion H; subst. exists lm, tr0. split; [reflexivity|]. destruct Hag as [Hl Hg].
    split; [exact Hl|]. split; [|auto]. intros j Hj. apply Hg. lia.
  - destruct last as [|last']; [discriminate|]. destruct dest as [|dest']; [discriminate|].
    destruct (oget lc last') as [x| | |] eqn:Ex; cbn [rbind] in H; try discriminate.
    destruct (oset lc dest' x) as [lc1| | |] eqn:Es; cbn [rbind] in H; try discriminate.
    destruct (agree_move_bwd _ _ _ _ _ _ Hag ltac:(lia) Ex Es) as (lm1 & Hm & Hag1).
    rewrite Hm. cbn [rbind].
    destruct (IH lc1 lm1 first last' dest' ((dest', last') :: tr0) lc' r Hag1 ltac:(lia) H)
      as (lm' & tr & Hrun & Hlen & Hfin & Htr).
    exists lm', tr. split; [exact Hrun|]. split; [exact Hlen|]. split; [exact Hfin|].
    intros HF. apply Htr. constructor; [unfold to_back; cbn [fst snd]; lia|exact HF].
Qed.

Theorem shift_right_mv_correct : forall l (n : Z),
  (0 < n < Z.of_nat (length l))%Z ->
  exists l' tr, shift_right_mv mv l n = Ok (l', Z.to_nat n, tr)
    /\ skipn (Z.to_nat n) l' = shift_right_spec l (Z.to_nat n)
    /\ length l' = length l
    /\ Forall to_back tr.
Proof.
  intros l n Hn.
  destruct (shift_right_correct l n Hn) as (lc' & Hrun & Hfirst & Hlen).
  unfold shift_right in Hrun. unfold shift_right_mv.
  destruct (n <=? 0)%Z eqn:E1; [lia|].
  destruct (Z.of_nat (length l) <=? n)%Z eqn:E2; [lia|].
  assert (Hz : length l - Z.to_nat n < length l) by lia.
  destruct (move_bwd_sim _ l l _ _ _ [] lc' _ (agree_refl _ _ l) Hz Hrun)
    as (lm' & tr & Hrun' & Hl & Hfin & Htr).
  exists lm', tr. split; [exact Hrun'|]. split; [|split; [lia|apply Htr; constructor]].
  rewrite <- (skipn_get_ext _ lc' lm' Hfin Hl). exact Hfirst.
Qed.

End MvProofs.
