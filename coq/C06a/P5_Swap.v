(* C06 (part a) — fix-miss round 5: proofs about the swap-parameterised loops of ModelSwap.v. *)
From Tetl Require Import Lib.Base Lib.Arr C06a.Model C06a.Spec C06a.ModelSwap C06a.P1_Reverse C06a.P1_SwapRanges C06a.P1_Partition.
From Coq Require Import Arith List Lia ZArith ZifyNat.
Import ListNotations.
Ltac Zify.zify_post_hook ::= Z.to_euclidean_division_equations.

Definition rlift {X Y} (f : X -> Y) (r : res X) : res Y :=
  match r with Ok a => Ok (f a) | Contract => Contract | UB k => UB k | OutOfFuel => OutOfFuel end.

(* ---- with the whole-element exchange the parameterised loops ARE the loops of Model.v ------------------------------- *)
Section Inst.
Context {A : Type}.

Lemma reverse_ra_loop_inst : forall fuel (l : list A) i j c,
  rlift fst (reverse_ra_loop_sw oswap fuel l i j c) = reverse_ra_loop fuel l i j.
Proof.
  induction fuel as [|k IH]; intros l i j c; cbn [reverse_ra_loop_sw reverse_ra_loop]; [reflexivity|].
  destruct (i <? j); [|reflexivity].
  destruct (oswap l i j) as [l'| |u|]; cbn [rbind rlift]; try reflexivity. apply IH.
Qed.

Lemma reverse_bidi_loop_inst : forall fuel (l : list A) i j c,
  rlift fst (reverse_bidi_loop_sw oswap fuel l i j c) = reverse_bidi_loop fuel l i j.
Proof.
  induction fuel as [|k IH]; intros l i j c; cbn [reverse_bidi_loop_sw reverse_bidi_loop]; [reflexivity|].
  destruct (i =? j); [reflexivity|]. cbv zeta. destruct (i =? pred j); [reflexivity|].
  destruct (oswap l i (pred j)) as [l'| |u|]; cbn [rbind rlift]; try reflexivity. apply IH.
Qed.

Lemma partition_loop_inst : forall fuel p (l : list A) first i last,
  partition_loop_sw oswap fuel p l first i last = partition_loop fuel p l first i last.
Proof. reflexivity. Qed.   (* the same loop, literally *)

(* the number of swaps of a run that ends *)
Lemma reverse_ra_loop_count : forall (sw : list A -> nat -> nat -> res (list A)) fuel l i j c l' c',
  reverse_ra_loop_sw sw fuel l i j c = Ok (l', c') -> c' = c + (S j - i) / 2.
Proof.
  intros sw. induction fuel as [|k IH]; intros l i j c l' c' H; cbn [reverse_ra_loop_sw] in H; [discriminate|].
  destruct (Nat.ltb_spec i j) as [L|L].
  - destruct (sw l i j) as [l1| |u|]; cbn [rbind] in H; try discriminate.
    apply IH in H. rewrite H. lia.
  - injection H as _ <-. lia.
Qed.

Lemma reverse_bidi_loop_count : forall (sw : list A -> nat -> nat -> res (list A)) fuel l i j c l' c',
  i <= j -> reverse_bidi_loop_sw sw fuel l i j c = Ok (l', c') -> c' = c + (j - i) / 2.
Proof.
  intros sw. induction fuel as [|k IH]; intros l i j c l' c' Hij H; cbn [reverse_bidi_loop_sw] in H; [discriminate|].
  destruct (Nat.eqb_spec i j) as [E|E]; [injection H as _ <-; lia|]. cbv zeta in H.
  destruct (Nat.eqb_spec i (pred j)) as [E'|E']; [injection H as _ <-; lia|].
  destruct (sw l i (pred j)) as [l1| |u|]; cbn [rbind] in H; try discriminate.
  apply IH in H; [|lia]. rewrite H. lia.
Qed.
End Inst.

(* ---- slots: the element type's own swap acts on the payloads, the ids stay ---------------------------------------------- *)
Section SlotProofs.
Context {I P : Type}.

Lemma get_combine : forall (ids : list I) (pl : list P) i, length ids = length pl ->
  get (combine ids pl) i = match get ids i, get pl i with Some a, Some x => Some (a, x) | _, _ => None end.
Proof.
  unfold get. induction ids as [|a ids IH]; intros [|x pl] i H; cbn [length] in H; try discriminate.
  - destruct i; reflexivity.
  - destruct i as [|i]; cbn [combine nth_error]; [reflexivity|]. apply IH. lia.
Qed.

Lemma set_combine : forall (ids : list I) (pl : list P) i a y, length ids = length pl -> get ids i = Some a ->
  set (combine ids pl) i (a, y) = option_map (combine ids) (set pl i y).
Proof.
  unfold get. induction ids as [|b ids IH]; intros [|x pl] i a y H G; cbn [length] in H; try discriminate.
  - destruct i; discriminate.
  - destruct i as [|i]; cbn [combine set nth_error] in *.
    + injection G as ->. reflexivity.
    + rewrite (IH pl i a y (eq_add_S _ _ H) G). destruct (set pl i y); reflexivity.
Qed.

Lemma uswap_combine : forall (ids : list I) (pl : list P) i j, length ids = length pl ->
  uswap (combine ids pl) i j = rlift (combine ids) (oswap pl i j).
Proof.
  intros ids pl i j H. unfold uswap, oswap, swap, slot.
  rewrite !get_combine by exact H.
  destruct (get pl i) as [x|] eqn:Gi; [|destruct (get ids i); reflexivity].
  destruct (get ids i) as [a|] eqn:Ai; [|apply get_lt in Gi; destruct (get_some ids i) as [a' Ha']; [lia|congruence]].
  destruct (get pl j) as [y|] eqn:Gj; [|destruct (get ids j); reflexivity].
  destruct (get ids j) as [b|] eqn:Aj; [|apply get_lt in Gj; destruct (get_some ids j) as [a' Ha']; [lia|congruence]].
  rewrite (set_combine ids pl i a y H Ai).
  destruct (set pl i y) as [pl1|] eqn:S1; cbn [option_map]; [|reflexivity].
  assert (H1 : length ids = length pl1) by (apply set_length in S1; lia).
  rewrite (set_combine ids pl1 j b x H1 Aj).
  destruct (set pl1 j x); reflexivity.
Qed.

Lemma combine_fst_snd : forall (sl : list (I * P)), combine (map fst sl) (map snd sl) = sl.
Proof. induction sl as [|[a x] sl IH]; cbn [map combine fst snd]; [reflexivity|]. now rewrite IH. Qed.

Lemma oswap_length : forall (pl pl' : list P) i j, oswap pl i j = Ok pl' -> length pl' = length pl.
Proof. intros pl pl' i j H. unfold oswap in H. destruct (swap pl i j) eqn:E; [|discriminate]. injection H as <-. eapply swap_length; eassumption. Qed.

Definition lift2 {X} (ids : list I) (r : res (list P * X)) : res (list (I * P) * X) :=
  rlift (fun '(pl, x) => (combine ids pl, x)) r.

Lemma reverse_ra_loop_slots : forall fuel (ids : list I) (pl : list P) i j c, length ids = length pl ->
  reverse_ra_loop_sw uswap fuel (combine ids pl) i j c = lift2 ids (reverse_ra_loop_sw oswap fuel pl i j c).
Proof.
  induction fuel as [|k IH]; intros ids pl i j c H; cbn [reverse_ra_loop_sw]; [reflexivity|].
  destruct (i <? j); [|reflexivity].
  rewrite uswap_combine by exact H.
  destruct (oswap pl i j) as [pl'| |u|] eqn:E; cbn [rlift rbind]; try reflexivity.
  apply IH. apply oswap_length in E. lia.
Qed.

Lemma reverse_bidi_loop_slots : forall fuel (ids : list I) (pl : list P) i j c, length ids = length pl ->
  reverse_bidi_loop_sw uswap fuel (combine ids pl) i j c = lift2 ids (reverse_bidi_loop_sw oswap fuel pl i j c).
Proof.
  induction fuel as [|k IH]; intros ids pl i j c H; cbn [reverse_bidi_loop_sw]; [reflexivity|].
  destruct (i =? j); [reflexivity|]. cbv zeta. destruct (i =? pred j); [reflexivity|].
  rewrite uswap_combine by exact H.
  destruct (oswap pl i (pred j)) as [pl'| |u|] eqn:E; cbn [rlift rbind]; try reflexivity.
  apply IH. apply oswap_length in E. lia.
Qed.

Lemma oget_combine : forall (ids : list I) (pl : list P) i, length ids = length pl ->
  oget (combine ids pl) i = match oget pl i with
                            | Ok x => match get ids i with Some a => Ok (a, x) | None => UB OutOfBounds end
                            | Contract => Contract | UB k => UB k | OutOfFuel => OutOfFuel end.
Proof.
  intros ids pl i H. unfold oget. rewrite get_combine by exact H.
  destruct (get pl i) as [x|] eqn:G; [|destruct (get ids i); reflexivity].
  destruct (get ids i); reflexivity.
Qed.

Lemma partition_loop_slots : forall fuel (p : P -> bool) (ids : list I) (pl : list P) first i last, length ids = length pl ->
  partition_loop_sw uswap fuel (fun s => p (snd s)) (combine ids pl) first i last
  = lift2 ids (partition_loop_sw oswap fuel p pl first i last).
Proof.
  induction fuel as [|k IH]; intros p ids pl first i last H; cbn [partition_loop_sw]; [reflexivity|].
  destruct (i =? last); [reflexivity|].
  rewrite oget_combine by exact H.
  destruct (oget pl i) as [x| |u|] eqn:G; cbn [rbind]; try reflexivity.
  unfold oget in G. destruct (get pl i) as [x'|] eqn:G'; [|discriminate]. injection G as ->.
  destruct (get ids i) as [a|] eqn:Ai; [|apply get_lt in G'; destruct (get_some ids i) as [a' Ha']; [lia|congruence]].
  cbn [rbind snd].
  destruct (p x).
  - rewrite uswap_combine by exact H.
    destruct (oswap pl i first) as [pl'| |u|] eqn:E; cbn [rlift rbind]; try reflexivity.
    apply IH. apply oswap_length in E. lia.
  - apply IH. exact H.
Qed.

Lemma find_if_from_slots : forall (q : P -> bool) (sl : list (I * P)) k,
  find_if_from (fun s => q (snd s)) sl k = find_if_from q (map snd sl) k.
Proof. induction sl as [|[a x] sl IH]; intros k; cbn [find_if_from map snd]; [reflexivity|]. destruct (q x); [reflexivity|apply IH]. Qed.

Lemma swap_ranges_slots_correct : forall (l1 l2 : list (I * P)) c, length l1 <= length l2 ->
  swap_ranges_slots l1 l2 c
  = Ok (combine (map fst l1) (fst (swap_ranges_spec (map snd l1) (map snd l2))),
        combine (map fst l2) (snd (swap_ranges_spec (map snd l1) (map snd l2))), c + length l1).
Proof.
  unfold swap_ranges_spec. cbn [fst snd].
  induction l1 as [|[a x] t1 IH]; intros l2 c H.
  - cbn [swap_ranges_slots map length firstn combine app skipn]. rewrite combine_fst_snd, Nat.add_0_r.
    destruct (map fst l2); reflexivity.
  - destruct l2 as [|[b y] t2]; cbn [length] in H; [lia|].
    cbn [swap_ranges_slots]. rewrite IH by lia. cbn [rbind map fst snd length firstn skipn combine app].
    rewrite map_length. do 2 f_equal. lia.
Qed.
End SlotProofs.
