(* C06a model, iterator helpers of the anchored headers: _iterator/advance.hpp, next.hpp, prev.hpp,
   distance.hpp and _iterator/reverse_iterator.hpp.  An iterator is a position (Z); the loops of the
   non-random-access paths run once per unit of distance.  reverse_iterator is its base position;
   the relational operators are those of the tree AFTER fix 1f5b6ae. *)
From Tetl Require Import Lib.Base.
Local Open Scope Z_scope.

Inductive icat := CatInput | CatForward | CatBidi | CatRandom.

(* while (dist > 0) { --dist; ++it; } *)
Fixpoint step_up (k : nat) (it : Z) : Z := match k with O => it | S k' => step_up k' (it + 1) end.
(* while (dist < 0) { ++dist; --it; } *)
Fixpoint step_down (k : nat) (it : Z) : Z := match k with O => it | S k' => step_down k' (it - 1) end.

Definition advance_m (c : icat) (it n : Z) : Z :=
  match c with
  | CatRandom => it + n                                                  (* it += dist *)
  | CatBidi => step_down (Z.to_nat (- n)) (step_up (Z.to_nat n) it)
  | _ => step_up (Z.to_nat n) it                                         (* negative n: nothing happens *)
  end.

Definition next_m (c : icat) (it n : Z) : Z := advance_m c it n.
Definition prev_m (c : icat) (it n : Z) : Z := advance_m c it (- n).

(* while (first != last) { ++first; ++result; } *)
Fixpoint distance_loop (fuel : nat) (first last result : Z) : res Z :=
  match fuel with
  | O => OutOfFuel
  | S k => if first =? last then Ok result else distance_loop k (first + 1) last (result + 1)
  end.

Definition distance_m (c : icat) (first last : Z) : res Z :=
  match c with
  | CatRandom => Ok (last - first)
  | _ => distance_loop (S (Z.to_nat (last - first))) first last 0
  end.

(* reverse_iterator<Iter>: x, y are the base positions *)
Definition rev_eq (x y : Z) : bool := x =? y.
Definition rev_ne (x y : Z) : bool := negb (x =? y).
Definition rev_lt (x y : Z) : bool := y <? x.     (* lhs.base() >  rhs.base() *)
Definition rev_le (x y : Z) : bool := y <=? x.    (* lhs.base() >= rhs.base() *)
Definition rev_gt (x y : Z) : bool := x <? y.     (* lhs.base() <  rhs.base() *)
Definition rev_ge (x y : Z) : bool := x <=? y.    (* lhs.base() <= rhs.base() *)
Definition rev_plus (x n : Z) : Z := x - n.       (* reverse_iterator(current - n) *)
Definition rev_minus (x n : Z) : Z := x + n.
Definition rev_diff (lhs rhs : Z) : Z := rhs - lhs.   (* rhs.base() - lhs.base() *)
Definition rev_incr (x : Z) : Z := x - 1.         (* ++ : --current *)
Definition rev_decr (x : Z) : Z := x + 1.         (* -- : ++current *)
Definition rev_deref (x : Z) : Z := x - 1.        (* tmp = current; return *--tmp;  -> position read *)
Definition rev_index (x n : Z) : Z := rev_deref (rev_plus x n).
