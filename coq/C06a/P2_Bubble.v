(* bubble_sort and exchange_sort produce a sorted permutation (neither is stable).
   bubble_sort: the prefix S1 ++ S2 = [0, i) is sorted, the cell at i holds c, j = |S1| and c is not
     less than anything in S1; a swap puts c at its final place and continues with the evicted
     (greater) element, which is again not less than anything before it.
   exchange_sort: the list is D ++ c :: R1 ++ R2 with D final (sorted, below everything after it),
     i = |D|, j = |D| + 1 + |R1| and nothing in R1 is less than c; a swap replaces c by a smaller one. *)
From Tetl Require Import Lib.Base Lib.Arr C06a.Model C06a.Spec C06a.P2_Common.
From Coq Require Import Arith Lia Sorting.Sorted Sorting.Permutation.
Ltac Zify.zify_post_hook ::= Z.to_euclidean_division_equations.

Section Perm.
Context {A : Type}.
Lemma perm_rot3 (S1 S2 : list A) c y :
  Permutation ((S1 ++ [c]) ++ S2 ++ [y]) (S1 ++ (y :: S2) ++ [c]).
Proof.
  rewrite <- app_assoc. apply Permutation_app_head. cbn [app].
  rewrite <- (Permutation_cons_append S2 y).
  rewrite <- (Permutation_cons_append S2 c). apply perm_swap.
Qed.

Lemma perm_exch (R1 R2 : list A) c x :
  Permutation (x :: (R1 ++ [c]) ++ R2) (c :: R1 ++ x :: R2).
Proof.
  rewrite <- app_assoc. cbn [app].
  rewrite <- (Permutation_middle R1 R2 c).
  rewrite <- (Permutation_middle R1 R2 x).
  apply perm_swap.
Qed.
End Perm.

Section Bubble.
Context {A : Type}.
Variable lt : A -> A -> bool.
Hypothesis lt_irrefl : forall x, lt x x = false.
Hypothesis lt_trans : forall x y z, lt x y = true -> lt y z = true -> lt x z = true.
Hypothesis lt_incomp : forall x y z,
  lt x y = false -> lt y x = false -> lt y z = false -> lt z y = false -> lt x z = false.

Lemma bubble_inner_spec : forall S2 S1 c T fuel,
  sorted_by lt (S1 ++ S2) -> ub lt c S1 -> length S2 < fuel ->
  exists S', bubble_inner fuel lt (S1 ++ S2 ++ c :: T) (length S1 + length S2) (length S1) = Ok (S' ++ T) /\
             sorted_by lt S' /\ Permutation S' (S1 ++ S2 ++ [c]).
Proof.
  induction S2 as [|y S2 IH]; intros S1 c T fuel Hs Hc Hf.
  - destruct fuel as [|f]; [cbn [length] in Hf; lia|]. cbn [bubble_inner length app].
    rewrite Nat.add_0_r, Nat.ltb_irrefl. exists (S1 ++ [c]). repeat split.
    + f_equal. lassoc. reflexivity.
    + rewrite app_nil_r in Hs. apply sorted_snoc. split; assumption.
    + reflexivity.
  - destruct fuel as [|f]; [lia|]. cbn [length] in Hf. cbn [bubble_inner length].
    assert (Hlt : (length S1 <? length S1 + S (length S2)) = true) by (apply Nat.ltb_lt; lia).
    rewrite Hlt.
    rewrite (oget_in _ (S1 ++ y :: S2) c T) by side. cbn [rbind].
    rewrite (oget_in _ S1 y (S2 ++ c :: T)) by side. cbn [rbind].
    apply sorted_app in Hs. destruct Hs as (Hs1 & Hs2 & H12).
    apply sorted_cons in Hs2. destruct Hs2 as [Ly Hs2].
    destruct (lt c y) eqn:E.
    + rewrite (oswap_in_bwd _ S1 y S2 c T) by side. cbn [rbind].
      assert (Eyc : lt y c = false) by (apply (cmp_asym lt lt_irrefl lt_trans); exact E).
      assert (Hs' : sorted_by lt ((S1 ++ [c]) ++ S2)).
      { rewrite <- app_assoc. cbn [app]. apply sorted_app. repeat split.
        - exact Hs1.
        - apply sorted_cons. split; [|exact Hs2].
          apply (lb_weaken lt lt_trans lt_incomp y c); assumption.
        - unfold ub in Hc. rewrite Forall_forall in *. intros a Ha.
          pose proof (H12 a Ha) as La. inversion La as [|? ? _ La']; subst.
          constructor; [apply Hc; exact Ha|exact La']. }
      assert (Hc' : ub lt y (S1 ++ [c])).
      { unfold ub. apply Forall_app. split; [|constructor; [exact Eyc|constructor]].
        rewrite Forall_forall in *. intros a Ha.
        pose proof (H12 a Ha) as La. inversion La as [|? ? La1 _]; subst. exact La1. }
      destruct (IH (S1 ++ [c]) y T f Hs' Hc' ltac:(lia)) as (S' & H1 & H2 & H3).
      exists S'. repeat split; [|exact H2|rewrite H3; apply perm_rot3].
      rewrite <- H1. f_equal; side.
    + assert (Hs' : sorted_by lt ((S1 ++ [y]) ++ S2)).
      { rewrite <- app_assoc. cbn [app]. apply sorted_app. repeat split; try assumption.
        apply sorted_cons. split; assumption. }
      assert (Hc' : ub lt c (S1 ++ [y])).
      { unfold ub. apply Forall_app. split; [exact Hc|constructor; [exact E|constructor]]. }
      destruct (IH (S1 ++ [y]) c T f Hs' Hc' ltac:(lia)) as (S' & H1 & H2 & H3).
      exists S'. repeat split; [|exact H2|rewrite H3; lassoc; reflexivity].
      rewrite <- H1. f_equal; side.
Qed.

Lemma bubble_outer_spec : forall T Sd fuel,
  sorted_by lt Sd -> length T < fuel ->
  exists l', bubble_outer fuel lt (Sd ++ T) (length Sd) = Ok l' /\
             sorted_by lt l' /\ Permutation l' (Sd ++ T).
Proof.
  induction T as [|c T IH]; intros Sd fuel Hs Hf.
  - destruct fuel as [|f]; [cbn [length] in Hf; lia|]. cbn [bubble_outer].
    rewrite app_nil_r, Nat.eqb_refl. exists Sd. repeat split; [exact Hs|reflexivity].
  - destruct fuel as [|f]; [lia|]. cbn [length] in Hf. cbn [bubble_outer].
    assert (Hne : (length Sd =? length (Sd ++ c :: T)) = false) by (apply Nat.eqb_neq; len).
    rewrite Hne.
    destruct (bubble_inner_spec Sd [] c T (S (length Sd)) Hs ltac:(constructor) ltac:(lia))
      as (S' & H1 & H2 & H3).
    cbn [app length Nat.add] in H1. rewrite H1. cbn [rbind].
    assert (Hl : S (length Sd) = length S').
    { rewrite (Permutation_length H3). cbn [app]. len. }
    rewrite Hl.
    destruct (IH S' f H2 ltac:(lia)) as (l' & G1 & G2 & G3).
    exists l'. repeat split; [exact G1|exact G2|].
    rewrite G3, H3. cbn [app]. lassoc. reflexivity.
Qed.

Theorem bubble_sort_sorts l :
  exists l', bubble_sort lt l = Ok l' /\ sorted_by lt l' /\ Permutation l' l.
Proof.
  unfold bubble_sort.
  apply (bubble_outer_spec l [] (S (length l)) (sorted_nil lt)). lia.
Qed.

(** ** exchange_sort *)
Lemma exchange_inner_spec : forall R2 D c R1 fuel,
  lb lt c R1 -> length R2 < fuel ->
  exists c' R', exchange_inner fuel lt (D ++ c :: R1 ++ R2) (length D) (S (length D + length R1))
                = Ok (D ++ c' :: R') /\
                lb lt c' R' /\ Permutation (c' :: R') (c :: R1 ++ R2).
Proof.
  induction R2 as [|x R2 IH]; intros D c R1 fuel Hc Hf.
  - destruct fuel as [|f]; [cbn [length] in Hf; lia|]. cbn [exchange_inner].
    assert (Hlt : (S (length D + length R1) <? length (D ++ c :: R1 ++ [])) = false)
      by (apply Nat.ltb_ge; len).
    rewrite Hlt. exists c, R1. rewrite app_nil_r. repeat split; [exact Hc|reflexivity].
  - destruct fuel as [|f]; [lia|]. cbn [length] in Hf. cbn [exchange_inner].
    assert (Hlt : (S (length D + length R1) <? length (D ++ c :: R1 ++ x :: R2)) = true)
      by (apply Nat.ltb_lt; len).
    rewrite Hlt.
    rewrite (oget_in _ (D ++ c :: R1) x R2) by side. cbn [rbind].
    rewrite (oget_in _ D c (R1 ++ x :: R2)) by side. cbn [rbind].
    destruct (lt x c) eqn:E.
    + rewrite (oswap_in_fwd _ D c R1 x R2) by side. cbn [rbind].
      assert (Ecx : lt c x = false) by (apply (cmp_asym lt lt_irrefl lt_trans); exact E).
      assert (Hc' : lb lt x (R1 ++ [c])).
      { unfold lb. apply Forall_app. split; [|constructor; [exact Ecx|constructor]].
        apply (lb_weaken lt lt_trans lt_incomp c x); assumption. }
      destruct (IH D x (R1 ++ [c]) f Hc' ltac:(lia)) as (c' & R' & H1 & H2 & H3).
      exists c', R'. repeat split; [|exact H2|rewrite H3; apply perm_exch].
      rewrite <- H1. f_equal; side.
    + assert (Hc' : lb lt c (R1 ++ [x])).
      { unfold lb. apply Forall_app. split; [exact Hc|constructor; [exact E|constructor]]. }
      destruct (IH D c (R1 ++ [x]) f Hc' ltac:(lia)) as (c' & R' & H1 & H2 & H3).
      exists c', R'. repeat split; [|exact H2|rewrite H3; lassoc; reflexivity].
      rewrite <- H1. f_equal; side.
Qed.

Lemma exchange_outer_spec : forall fuel D R,
  sorted_by lt D -> Forall (fun d => lb lt d R) D -> length R < fuel ->
  exists l', exchange_outer fuel lt (D ++ R) (length D) = Ok l' /\
             sorted_by lt l' /\ Permutation l' (D ++ R).
Proof.
  induction fuel as [|f IH]; intros D R Hs HDR Hf; [lia|].
  cbn [exchange_outer].
  destruct (Nat.ltb_spec (length D) (pred (length (D ++ R)))) as [Hlt|Hge].
  - destruct R as [|c R0]; [rewrite app_length in Hlt; cbn [length] in Hlt; lia|].
    cbn [length] in Hf.
    destruct (exchange_inner_spec R0 D c [] (S (length (D ++ c :: R0))) ltac:(constructor) ltac:(len))
      as (c' & R' & H1 & H2 & H3).
    cbn [app length] in H1. rewrite Nat.add_0_r in H1. rewrite H1. cbn [rbind].
    cbn [app] in H3.
    assert (Hin : In c' (c :: R0)) by (eapply Permutation_in; [exact H3|left; reflexivity]).
    assert (Hs' : sorted_by lt (D ++ [c'])).
    { apply sorted_snoc. split; [exact Hs|].
      unfold ub. eapply Forall_impl; [|exact HDR]. intros d Hd. cbv beta in Hd.
      unfold lb in Hd. rewrite Forall_forall in Hd. apply Hd. exact Hin. }
    assert (HDR' : Forall (fun d => lb lt d R') (D ++ [c'])).
    { apply Forall_app. split; [|constructor; [exact H2|constructor]].
      eapply Forall_impl; [|exact HDR]. intros d Hd. cbv beta in Hd.
      apply (lb_perm lt d _ _ (Permutation_sym H3)) in Hd. inversion Hd; assumption. }
    assert (Hl : length R' = length R0).
    { pose proof (Permutation_length H3) as L. cbn [length] in L. lia. }
    destruct (IH (D ++ [c']) R' Hs' HDR' ltac:(lia)) as (l' & G1 & G2 & G3).
    exists l'. repeat split; [|exact G2|].
    + rewrite <- G1. f_equal; side.
    + rewrite G3. rewrite <- app_assoc. cbn [app]. apply Permutation_app_head. exact H3.
  - exists (D ++ R). repeat split; [|reflexivity].
    apply sorted_app. repeat split; [exact Hs| |exact HDR].
    rewrite app_length in Hge.
    destruct R as [|c [|c2 R0]]; [apply sorted_nil|apply sorted_one|cbn [length] in Hge; lia].
Qed.

Theorem exchange_sort_sorts l :
  exists l', exchange_sort lt l = Ok l' /\ sorted_by lt l' /\ Permutation l' l.
Proof.
  unfold exchange_sort. destruct (Nat.eqb_spec (length l) 0) as [E|E].
  - exists l. destruct l; [|discriminate]. repeat split; [apply sorted_nil|reflexivity].
  - apply (exchange_outer_spec (S (length l)) [] l (sorted_nil lt)); [constructor|lia].
Qed.

End Bubble.
