(* swap_ranges: the second range is given by its start only; it must be at least as long as
   the first, otherwise the loop walks off its end. *)
From Tetl Require Import Lib.Base Lib.Arr C06a.Model C06a.Spec C06a.P1_Common.
From Coq Require Import Arith Lia.
Ltac Zify.zify_post_hook ::= Z.to_euclidean_division_equations.

Section SwapRanges.
Context {A : Type}.

Theorem swap_ranges_correct : forall l1 l2 : list A,
  length l1 <= length l2 -> swap_ranges l1 l2 = Ok (swap_ranges_spec l1 l2).
Proof.
  unfold swap_ranges_spec.
  induction l1 as [|a t1 IH]; intros l2 H.
  - reflexivity.
  - destruct l2 as [|b t2]; cbn [length] in H; [lia|].
    cbn [swap_ranges]. rewrite IH by lia. reflexivity.
Qed.

Theorem swap_ranges_short : forall l1 l2 : list A,
  length l2 < length l1 -> swap_ranges l1 l2 = UB OutOfBounds.
Proof.
  induction l1 as [|a t1 IH]; intros l2 H; cbn [length] in H; [lia|].
  destruct l2 as [|b t2]; cbn [swap_ranges]; [reflexivity|].
  cbn [length] in H. rewrite IH by lia. reflexivity.
Qed.

End SwapRanges.
