(* C06a model, one-pass copying algorithms with an explicit DESTINATION buffer (review round).
   The destination is a checked array `d` with a cursor `pos` (the output iterator); every
   `*destination = v` is a checked write (outside the buffer = UB OutOfBounds), so "= Ok ..." says
   that nothing outside [pos, returned cursor) of the destination is written.  The source range is
   a list consumed front to back (an input range); algorithms that read something that is not
   bounded by [first,last) (copy_n's count, the second input of transform, unique_copy reading
   *destination, copy_backward's decreasing cursor) do so through checked accesses as well. *)
From Tetl Require Import Lib.Base Lib.Arr C06a.Model.
From Coq Require Import Arith.

Section Out.
Context {A : Type}.

(* the common loop shape   for (; first != last; ++first) if (g( *first) = Some v) { *d = v; ++d; }  *)
Fixpoint out_loop (g : A -> option A) (src : list A) (d : list A) (pos : nat) : res (list A * nat) :=
  match src with
  | [] => Ok (d, pos)
  | x :: t =>
      match g x with
      | Some v => do d' <- oset d pos v; out_loop g t d' (S pos)
      | None => out_loop g t d pos
      end
  end.

(* copy.hpp, move.hpp:  *destination = *first  for every element *)
Definition copy_out (src d : list A) (pos : nat) := out_loop (fun x => Some x) src d pos.
(* copy_if.hpp:  if (pred( *first)) *dFirst++ = *first *)
Definition copy_if_out (p : A -> bool) (src d : list A) (pos : nat) :=
  out_loop (fun x => if p x then Some x else None) src d pos.
(* remove_copy_if.hpp (remove_copy.hpp = with an equality predicate):  if (not p( *first)) *destination++ = *first *)
Definition remove_copy_if_out (p : A -> bool) (src d : list A) (pos : nat) :=
  out_loop (fun x => if negb (p x) then Some x else None) src d pos.
(* transform.hpp, unary:  *dest = op( *first) *)
Definition transform1_out (f : A -> A) (src d : list A) (pos : nat) := out_loop (fun x => Some (f x)) src d pos.

(* transform.hpp, binary: the second input range is given by its start only *)
Fixpoint transform2_out (f : A -> A -> A) (l1 l2 d : list A) (pos : nat) : res (list A * nat) :=
  match l1 with
  | [] => Ok (d, pos)
  | a :: t1 =>
      match l2 with
      | [] => UB OutOfBounds
      | b :: t2 => do d' <- oset d pos (f a b); transform2_out f t1 t2 d' (S pos)
      end
  end.

(* copy_n.hpp:  if (count > 0) { *result = *first; ++result; for (i = 1; i < count; ++i) { *result = *(++first); ++result; } } *)
Fixpoint copy_n_loop (k : nat) (src d : list A) (pos : nat) : res (list A * nat) :=
  match k with
  | O => Ok (d, pos)
  | S k' =>
      match src with
      | [] => UB OutOfBounds
      | x :: t => do d' <- oset d pos x; copy_n_loop k' t d' (S pos)
      end
  end.
Definition copy_n_out (src : list A) (n : Z) (d : list A) (pos : nat) := copy_n_loop (Z.to_nat n) src d pos.

(* fill_n.hpp:  for (i = 0; i < count; ++i) { *first = value; ++first; } *)
Fixpoint fill_n_loop (k : nat) (v : A) (d : list A) (pos : nat) : res (list A * nat) :=
  match k with
  | O => Ok (d, pos)
  | S k' => do d' <- oset d pos v; fill_n_loop k' v d' (S pos)
  end.
Definition fill_n_out (n : Z) (v : A) (d : list A) (pos : nat) := fill_n_loop (Z.to_nat n) v d pos.

(* generate_n.hpp with a generator that is a state machine  (value, next state) = g state *)
Fixpoint generate_n_loop {S : Type} (k : nat) (g : S -> A * S) (s : S) (d : list A) (pos : nat) : res (list A * nat) :=
  match k with
  | O => Ok (d, pos)
  | Datatypes.S k' => let '(v, s') := g s in do d' <- oset d pos v; generate_n_loop k' g s' d' (Datatypes.S pos)
  end.
Definition generate_n_out {S : Type} (n : Z) (g : S -> A * S) (s : S) (d : list A) (pos : nat) :=
  generate_n_loop (Z.to_nat n) g s d pos.

(* reverse_copy.hpp:  for (; first != last; ++destination) *destination = *(--last);   j = last - first *)
Fixpoint reverse_copy_out_from (src : list A) (j : nat) (d : list A) (pos : nat) : res (list A * nat) :=
  match j with
  | O => Ok (d, pos)
  | S j' => do x <- oget src j'; do d' <- oset d pos x; reverse_copy_out_from src j' d' (S pos)
  end.
Definition reverse_copy_out (src d : list A) (pos : nat) := reverse_copy_out_from src (length src) d pos.

(* rotate_copy.hpp:  destination = copy(nFirst, last, destination); return copy(first, nFirst, destination); *)
Definition rotate_copy_out (src : list A) (nfirst : nat) (d : list A) (pos : nat) : res (list A * nat) :=
  do r <- copy_out (skipn nfirst src) d pos; copy_out (firstn nfirst src) (fst r) (snd r).

(* unique_copy.hpp:  *destination = *first; while (++first != last) if (not pred( *destination, *first)) *++destination = *first;
   ++destination.     `pos` = position of the last element written: the code READS the destination *)
Fixpoint unique_copy_loop (eqv : A -> A -> bool) (t : list A) (d : list A) (pos : nat) : res (list A * nat) :=
  match t with
  | [] => Ok (d, S pos)
  | x :: t' =>
      do w <- oget d pos;
      if negb (eqv w x) then do d' <- oset d (S pos) x; unique_copy_loop eqv t' d' (S pos)
      else unique_copy_loop eqv t' d pos
  end.
Definition unique_copy_out (eqv : A -> A -> bool) (src d : list A) (pos : nat) : res (list A * nat) :=
  match src with
  | [] => Ok (d, pos)
  | x :: t => do d' <- oset d pos x; unique_copy_loop eqv t d' pos
  end.

(* partition_copy.hpp: two destinations *)
Fixpoint partition_copy_out (p : A -> bool) (src : list A) (d1 : list A) (p1 : nat) (d2 : list A) (p2 : nat)
  : res ((list A * nat) * (list A * nat)) :=
  match src with
  | [] => Ok ((d1, p1), (d2, p2))
  | x :: t =>
      if p x then do d1' <- oset d1 p1 x; partition_copy_out p t d1' (S p1) d2 p2
      else do d2' <- oset d2 p2 x; partition_copy_out p t d1 p1 d2' (S p2)
  end.

(* copy_backward.hpp / move_backward.hpp:  while (first != last) *(--dLast) = *(--last);
   `rs` = the source read from its end (rev src), `pos` = dLast *)
Fixpoint copy_backward_loop (rs : list A) (d : list A) (pos : nat) : res (list A * nat) :=
  match rs with
  | [] => Ok (d, pos)
  | x :: t =>
      match pos with
      | O => UB OutOfBounds
      | S p => do d' <- oset d p x; copy_backward_loop t d' p
      end
  end.
Definition copy_backward_out (src d : list A) (dlast : nat) := copy_backward_loop (rev src) d dlast.
End Out.
