(* the single-pass copying algorithms: source range in, destination contents out *)
From Tetl Require Import Lib.Base Lib.Arr C06a.Model C06a.Spec C06a.P1_Common.
From Coq Require Import Arith Lia.
Ltac Zify.zify_post_hook ::= Z.to_euclidean_division_equations.

Section Copy.
Context {A : Type}.
Implicit Types (l : list A).

(** copy_n *)
Theorem copy_n_correct l n : (0 <= n <= Z.of_nat (length l))%Z ->
  copy_n l n = Ok (copy_n_spec l (Z.to_nat n)).
Proof.
  intros H. unfold copy_n, copy_n_spec.
  destruct (Z.leb_spec n 0) as [H0|H0].
  - replace (Z.to_nat n) with 0 by lia. reflexivity.
  - destruct (Z.ltb_spec (Z.of_nat (length l)) n) as [H1|H1]; [lia|reflexivity].
Qed.

Theorem copy_n_overrun l n : (Z.of_nat (length l) < n)%Z -> copy_n l n = UB OutOfBounds.
Proof.
  intros H. unfold copy_n.
  destruct (Z.leb_spec n 0) as [H0|H0]; [lia|].
  destruct (Z.ltb_spec (Z.of_nat (length l)) n) as [H1|H1]; [reflexivity|lia].
Qed.

Theorem copy_n_negative l n : (n < 0)%Z -> copy_n l n = Ok [].
Proof. intros H. unfold copy_n. destruct (Z.leb_spec n 0) as [H0|H0]; [reflexivity|lia]. Qed.

(** reverse_copy *)
Lemma reverse_copy_from_spec l : forall j, j <= length l ->
  reverse_copy_from l j = Ok (rev (firstn j l)).
Proof.
  induction j as [|j IH]; intros Hj; [reflexivity|].
  cbn [reverse_copy_from].
  destruct (get_some l j ltac:(lia)) as [x Hx].
  rewrite (oget_some l j x Hx). cbn [rbind]. rewrite IH by lia. cbn [rbind].
  rewrite (firstn_S_get l j x Hx), rev_app_distr. reflexivity.
Qed.

Theorem reverse_copy_correct l : reverse_copy l = Ok (rev l).
Proof.
  unfold reverse_copy. rewrite reverse_copy_from_spec by lia. rewrite firstn_all. reflexivity.
Qed.

(** transform (binary): the second range is given by its start only *)
Theorem transform2_correct (f : A -> A -> A) : forall l1 l2 : list A,
  length l1 <= length l2 ->
  transform2 f l1 l2 = Ok (map (fun ab => f (fst ab) (snd ab)) (combine l1 l2)).
Proof.
  induction l1 as [|a t1 IH]; intros l2 H; [reflexivity|].
  destruct l2 as [|b t2]; cbn [length] in H; [lia|].
  cbn [transform2 combine map fst snd]. rewrite IH by lia. reflexivity.
Qed.

Theorem transform2_short (f : A -> A -> A) : forall l1 l2 : list A,
  length l2 < length l1 -> transform2 f l1 l2 = UB OutOfBounds.
Proof.
  induction l1 as [|a t1 IH]; intros l2 H; cbn [length] in H; [lia|].
  destruct l2 as [|b t2]; cbn [transform2]; [reflexivity|].
  cbn [length] in H. rewrite IH by lia. reflexivity.
Qed.

(** rotate_copy, remove_copy_if, partition_copy *)
Theorem rotate_copy_correct l m : m <= length l -> rotate_copy l m = rotate_copy_spec l m.
Proof. intros _. reflexivity. Qed.

Theorem remove_copy_if_correct (p : A -> bool) l : remove_copy_if p l = remove_if_spec p l.
Proof. reflexivity. Qed.

Theorem partition_copy_correct (p : A -> bool) l : partition_copy p l = partition_copy_spec p l.
Proof.
  unfold partition_copy_spec. induction l as [|x t IH]; [reflexivity|].
  cbn [partition_copy filter]. rewrite IH. destruct (p x); reflexivity.
Qed.

(** fill, fill_n, replace_if, transform (unary): what the models are, said with stdlib words *)
Theorem fill_correct l v : fill l v = repeat v (length l).
Proof. unfold fill. induction l as [|x t IH]; cbn [map length repeat]; [reflexivity|]. rewrite IH. reflexivity. Qed.

Theorem fill_n_correct n (v : A) : fill_n n v = repeat v (Z.to_nat n) /\ (n <= 0 -> fill_n n v = [])%Z.
Proof.
  split; [reflexivity|]. intros H. unfold fill_n. replace (Z.to_nat n) with 0 by lia. reflexivity.
Qed.

Theorem replace_if_correct (p : A -> bool) nv l :
  replace_if p nv l = map (fun x => if p x then nv else x) l.
Proof. reflexivity. Qed.

Theorem transform1_correct (f : A -> A) l : transform1 f l = map f l.
Proof. reflexivity. Qed.

End Copy.
