(* stable_partition: divide and conquer on halves, glued by rotate.  On a decomposed list
   P ++ M ++ T the call on the sub-range M yields P ++ filter p M ++ filter (not p) M ++ T. *)
From Tetl Require Import Lib.Base Lib.Arr C06a.Model C06a.Spec C06a.RotateProof C06a.P1_Common.
From Coq Require Import Arith Lia.
Ltac Zify.zify_post_hook ::= Z.to_euclidean_division_equations.

Section SP.
Context {A : Type}.
Variable p : A -> bool.
Implicit Types (l P M T : list A).

Lemma stable_partition_m_decomp : forall fuel P M T,
  length M < fuel ->
  stable_partition_m fuel p (P ++ M ++ T) (length P) (length P + length M)
  = Ok (P ++ filter p M ++ filter (fun x => negb (p x)) M ++ T, length P + length (filter p M)).
Proof.
  induction fuel as [|k IH]; intros P M T Hf; [lia|].
  cbn [stable_partition_m].
  replace (length P + length M - length P) with (length M) by lia.
  destruct (Nat.eqb_spec (length M) 0) as [E0|E0].
  - destruct M as [|x M]; [|cbn [length] in E0; lia].
    cbn [filter app length]. rewrite Nat.add_0_r. reflexivity.
  - destruct (Nat.eqb_spec (length M) 1) as [E1|E1].
    + destruct M as [|x [|y M]]; cbn [length] in *; try lia.
      cbn [app]. rewrite oget_mid. cbn [rbind filter].
      destruct (p x); cbn [negb app length]; f_equal; f_equal; lia.
    + set (h := Nat.div (length M) 2).
      assert (Hh : 0 < h /\ h < length M).
      { unfold h. split.
        - apply Nat.div_str_pos. lia.
        - apply Nat.div_lt; lia. }
      set (M1 := firstn h M). set (M2 := skipn h M).
      assert (HM : M = M1 ++ M2) by (unfold M1, M2; symmetry; apply firstn_skipn).
      assert (HM1 : length M1 = h) by (unfold M1; rewrite firstn_length; lia).
      assert (HM2 : length M2 = length M - h) by (unfold M2; rewrite skipn_length; lia).
      (* left half *)
      replace (P ++ M ++ T) with (P ++ M1 ++ (M2 ++ T)) by (rewrite HM, <- app_assoc; reflexivity).
      replace (length P + h) with (length P + length M1) by lia.
      rewrite (IH P M1 (M2 ++ T)) by lia. cbn [rbind fst snd].
      (* right half *)
      set (P2 := P ++ filter p M1 ++ filter (fun x => negb (p x)) M1).
      assert (HP2 : length P2 = length P + length M1).
      { unfold P2. rewrite !app_length. pose proof (filter_length_compl p M1). lia. }
      replace (P ++ filter p M1 ++ filter (fun x => negb (p x)) M1 ++ M2 ++ T) with (P2 ++ M2 ++ T)
        by (unfold P2; rewrite <- !app_assoc; reflexivity).
      replace (length P + length M1) with (length P2) by lia.
      replace (length P + length M) with (length P2 + length M2) by lia.
      rewrite (IH P2 M2 T) by lia. cbn [rbind fst snd].
      (* rotate  not-p(M1)  with  p(M2) *)
      unfold rotate.
      set (P3 := P ++ filter p M1).
      replace (P2 ++ filter p M2 ++ filter (fun x => negb (p x)) M2 ++ T)
        with (P3 ++ filter (fun x => negb (p x)) M1 ++ filter p M2 ++ (filter (fun x => negb (p x)) M2 ++ T))
        by (unfold P2, P3; rewrite <- !app_assoc; reflexivity).
      assert (HP3 : length P3 = length P + length (filter p M1))
        by (unfold P3; rewrite app_length; reflexivity).
      assert (HP23 : length P2 = length P3 + length (filter (fun x => negb (p x)) M1))
        by (unfold P2, P3; rewrite !app_length; lia).
      replace (length P + length (filter p M1)) with (length P3) by lia.
      replace (length P2 + length (filter p M2))
        with (length P3 + length (filter (fun x => negb (p x)) M1) + length (filter p M2)) by lia.
      replace (length P2) with (length P3 + length (filter (fun x => negb (p x)) M1)) by lia.
      rewrite rotate_m_decomp by lia.
      f_equal. f_equal.
      * unfold P3. rewrite HM, !filter_app, <- !app_assoc. reflexivity.
      * rewrite HM, filter_app, app_length. lia.
Qed.

Theorem stable_partition_correct l :
  stable_partition p l = Ok (stable_partition_spec p l).
Proof.
  unfold stable_partition, stable_partition_spec.
  generalize (stable_partition_m_decomp (S (length l)) [] l [] ltac:(lia)).
  cbn [app length Nat.add]. rewrite !app_nil_r. intros ->. reflexivity.
Qed.

End SP.
