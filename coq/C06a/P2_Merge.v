(* inplace_merge computes Spec.merge_spec; merge_sort computes Spec.stable_sort_spec.
   Loop state of inplace_merge: the list is P ++ L ++ R ++ T with left = |P|, mid = right = |P|+|L|,
   last = |P|+|L|+|R|; P is final.  When the head r of R is less than the head of L it is inserted in
   front of L by move_backward and `left` is NOT advanced, so the next iteration compares the new
   head of R with r itself: we simply treat r as the new head of L (the invariant does not need L
   sorted), and R sorted gives merge_spec (r :: L) R' = r :: merge_spec L R'. *)
From Tetl Require Import Lib.Base Lib.Arr C06a.Model C06a.Spec C06a.P2_Common.
From Coq Require Import Arith Lia Sorting.Sorted Sorting.Permutation.
Ltac Zify.zify_post_hook ::= Z.to_euclidean_division_equations.

Section MoveBwd.
Context {A : Type}.

(* move_backward(left, mid, mid + 1): L slides one cell to the right over the cell h *)
Lemma move_bwd_shift : forall (L P : list A) h T fuel, length L < fuel ->
  move_bwd fuel (P ++ L ++ h :: T) (length P) (length P + length L) (S (length P + length L))
  = Ok (P ++ hd h L :: L ++ T, S (length P)).
Proof.
  induction L as [|y L IH] using rev_ind; intros P h T fuel Hf.
  - destruct fuel as [|f]; [cbn [length] in Hf; lia|]. cbn [length app hd move_bwd].
    rewrite Nat.add_0_r, Nat.eqb_refl. reflexivity.
  - destruct fuel as [|f]; [lia|]. rewrite app_length in Hf. cbn [length] in Hf.
    replace (length P + length (L ++ [y])) with (S (length P + length L)) by len.
    cbn [move_bwd].
    assert (Hne : (length P =? S (length P + length L)) = false) by (apply Nat.eqb_neq; lia).
    rewrite Hne.
    rewrite (oget_in _ (P ++ L) y (h :: T)) by side. cbn [rbind].
    rewrite (oset_in _ (P ++ L ++ [y]) h T) by side. cbn [rbind].
    replace ((P ++ L ++ [y]) ++ y :: T) with (P ++ L ++ y :: (y :: T)) by (lassoc; reflexivity).
    rewrite (IH P y (y :: T) f) by lia.
    f_equal. f_equal. f_equal.
    replace (hd h (L ++ [y])) with (hd y L) by (destruct L; reflexivity).
    lassoc. reflexivity.
Qed.
End MoveBwd.

Section Merge.
Context {A : Type}.
Variable lt : A -> A -> bool.

Lemma merge_spec_nil_l (l2 : list A) : merge_spec lt [] l2 = l2.
Proof. destruct l2; reflexivity. Qed.

Lemma merge_spec_nil_r (l1 : list A) : merge_spec lt l1 [] = l1.
Proof. destruct l1; reflexivity. Qed.

Lemma merge_spec_cons a t1 b t2 :
  merge_spec lt (a :: t1) (b :: t2)
  = if lt b a then b :: merge_spec lt (a :: t1) t2 else a :: merge_spec lt t1 (b :: t2).
Proof. reflexivity. Qed.

(* a head of the right run that nothing later in the run undercuts comes out first *)
Lemma merge_spec_push r L R : lb lt r R -> merge_spec lt (r :: L) R = r :: merge_spec lt L R.
Proof.
  intros H. destruct R as [|r' R'].
  - rewrite !merge_spec_nil_r. reflexivity.
  - inversion H as [|? ? Hr _]; subst. rewrite merge_spec_cons, Hr. reflexivity.
Qed.

Lemma inplace_merge_loop_spec : forall fuel P L R T,
  sorted_by lt R -> length L + 2 * length R < fuel ->
  inplace_merge_loop fuel lt (P ++ L ++ R ++ T) (length P) (length P + length L) (length P + length L)
                     (length P + length L + length R)
  = Ok (P ++ merge_spec lt L R ++ T).
Proof.
  induction fuel as [|f IH]; intros P L R T Hs Hf; [lia|].
  cbn [inplace_merge_loop].
  destruct L as [|x L'].
  { cbn [length]. rewrite Nat.add_0_r, Nat.eqb_refl. cbn [orb]. rewrite merge_spec_nil_l. reflexivity. }
  destruct R as [|r R'].
  { cbn [length]. rewrite (Nat.add_0_r (length P + S (length L'))), (Nat.eqb_refl (length P + S (length L'))).
    rewrite orb_true_r. rewrite merge_spec_nil_r. reflexivity. }
  cbn [length] in Hf |- *.
  assert (N1 : (length P =? length P + S (length L')) = false) by (apply Nat.eqb_neq; lia).
  assert (N2 : (length P + S (length L') =? length P + S (length L') + S (length R')) = false)
    by (apply Nat.eqb_neq; lia).
  rewrite N1, N2. cbn [orb].
  rewrite (oget_in _ (P ++ x :: L') r (R' ++ T)) by side. cbn [rbind].
  rewrite (oget_in _ P x (L' ++ (r :: R') ++ T)) by side. cbn [rbind].
  apply sorted_cons in Hs. destruct Hs as [Hr Hs].
  rewrite merge_spec_cons.
  destruct (lt r x) eqn:E.
  - replace (length P + S (length L') - length P) with (length (x :: L')) by (cbn [length]; lia).
    replace (P ++ (x :: L') ++ (r :: R') ++ T) with (P ++ (x :: L') ++ r :: (R' ++ T)) by (lassoc; reflexivity).
    replace (length P + S (length L')) with (length P + length (x :: L')) by (cbn [length]; lia).
    rewrite move_bwd_shift by lia. cbn [rbind fst hd].
    rewrite (oset_in _ P x ((x :: L') ++ R' ++ T)) by side. cbn [rbind].
    transitivity (inplace_merge_loop f lt (P ++ (r :: x :: L') ++ R' ++ T) (length P)
                    (length P + length (r :: x :: L')) (length P + length (r :: x :: L'))
                    (length P + length (r :: x :: L') + length R')).
    { f_equal; cbn [length]; lia. }
    rewrite IH by (assumption || (cbn [length]; lia)).
    rewrite merge_spec_push by exact Hr. reflexivity.
  - transitivity (inplace_merge_loop f lt ((P ++ [x]) ++ L' ++ (r :: R') ++ T) (length (P ++ [x]))
                    (length (P ++ [x]) + length L') (length (P ++ [x]) + length L')
                    (length (P ++ [x]) + length L' + length (r :: R'))).
    { f_equal; side. }
    rewrite IH by ((apply sorted_cons; split; assumption) || (cbn [length]; lia)).
    f_equal. lassoc. reflexivity.
Qed.

(* on a sub-range; note: only the right run needs to be sorted for the equation *)
Theorem inplace_merge_in_range P l1 l2 T : sorted_by lt l2 ->
  inplace_merge lt (P ++ l1 ++ l2 ++ T) (length P) (length P + length l1) (length P + length l1 + length l2)
  = Ok (P ++ merge_spec lt l1 l2 ++ T).
Proof.
  intros Hs. unfold inplace_merge. apply inplace_merge_loop_spec; [exact Hs|lia].
Qed.

Theorem inplace_merge_correct l1 l2 : sorted_by lt l2 ->
  inplace_merge lt (l1 ++ l2) 0 (length l1) (length (l1 ++ l2)) = Ok (merge_spec lt l1 l2).
Proof.
  intros Hs. pose proof (inplace_merge_in_range [] l1 l2 [] Hs) as H.
  cbn [app length] in H. rewrite !app_nil_r in H. rewrite app_length. exact H.
Qed.

(* with exactly the documented precondition of std::inplace_merge (both runs sorted) *)
Corollary inplace_merge_sorted_halves l1 l2 : sorted_by lt l1 -> sorted_by lt l2 ->
  inplace_merge lt (l1 ++ l2) 0 (length l1) (length (l1 ++ l2)) = Ok (merge_spec lt l1 l2).
Proof. intros _ H2. apply inplace_merge_correct. exact H2. Qed.

(** ** what merge_spec is *)
Lemma merge_spec_Forall (Q : A -> Prop) : forall l1 l2,
  Forall Q l1 -> Forall Q l2 -> Forall Q (merge_spec lt l1 l2).
Proof.
  induction l1 as [|a t1 IH1]; intros l2 H1 H2; [rewrite merge_spec_nil_l; exact H2|].
  induction l2 as [|b t2 IH2]; [rewrite merge_spec_nil_r; exact H1|].
  rewrite merge_spec_cons.
  inversion H1 as [|? ? Ha Ht1]; subst. inversion H2 as [|? ? Hb Ht2]; subst.
  destruct (lt b a).
  - constructor; [exact Hb|apply IH2; exact Ht2].
  - constructor; [exact Ha|apply IH1; assumption].
Qed.

Theorem merge_spec_perm : forall l1 l2, Permutation (merge_spec lt l1 l2) (l1 ++ l2).
Proof.
  induction l1 as [|a t1 IH1]; intros l2; [rewrite merge_spec_nil_l; reflexivity|].
  induction l2 as [|b t2 IH2]; [rewrite merge_spec_nil_r, app_nil_r; reflexivity|].
  rewrite merge_spec_cons. destruct (lt b a).
  - rewrite IH2. apply (Permutation_middle (a :: t1) t2 b).
  - rewrite IH1. reflexivity.
Qed.

Hypothesis lt_irrefl : forall x, lt x x = false.
Hypothesis lt_trans : forall x y z, lt x y = true -> lt y z = true -> lt x z = true.
Hypothesis lt_incomp : forall x y z,
  lt x y = false -> lt y x = false -> lt y z = false -> lt z y = false -> lt x z = false.

Theorem merge_spec_sorted : forall l1 l2,
  sorted_by lt l1 -> sorted_by lt l2 -> sorted_by lt (merge_spec lt l1 l2).
Proof.
  induction l1 as [|a t1 IH1]; intros l2 H1 H2; [rewrite merge_spec_nil_l; exact H2|].
  induction l2 as [|b t2 IH2]; [rewrite merge_spec_nil_r; exact H1|].
  rewrite merge_spec_cons.
  pose proof H1 as H1'. pose proof H2 as H2'.
  apply sorted_cons in H1'. destruct H1' as [La S1]. apply sorted_cons in H2'. destruct H2' as [Lb S2].
  destruct (lt b a) eqn:E.
  - apply sorted_cons. split; [|apply IH2; exact S2].
    assert (Eab : lt a b = false) by (apply (cmp_asym lt lt_irrefl lt_trans); exact E).
    apply merge_spec_Forall; [|exact Lb].
    constructor; [exact Eab|]. apply (lb_weaken lt lt_trans lt_incomp a b); assumption.
  - apply sorted_cons. split; [|apply IH1; assumption].
    apply merge_spec_Forall; [exact La|].
    constructor; [exact E|]. apply (lb_weaken lt lt_trans lt_incomp b a); assumption.
Qed.

(* nothing of the class of b sits among elements that b is less than *)
Lemma filter_class_above k b l : equiv lt k b = true -> Forall (fun z => lt b z = true) l ->
  filter (equiv lt k) l = [].
Proof.
  intros Ek H. induction l as [|z t IH]; [reflexivity|].
  inversion H as [|? ? Hz Ht]; subst. cbn [filter].
  destruct (equiv lt k z) eqn:Ez; [|apply IH; exact Ht].
  exfalso. rewrite equiv_sym in Ek. pose proof (equiv_trans lt lt_incomp _ _ _ Ek Ez) as C.
  apply equiv_true in C. destruct C as [C _]. congruence.
Qed.

Lemma filter_cons_if (p : A -> bool) x l :
  filter p (x :: l) = if p x then x :: filter p l else filter p l.
Proof. reflexivity. Qed.

(* stability of the merge: on sorted runs every class keeps its order, left run first *)
Theorem merge_spec_classes : forall l1 l2, sorted_by lt l1 -> sorted_by lt l2 ->
  same_classes lt (merge_spec lt l1 l2) (l1 ++ l2).
Proof.
  induction l1 as [|a t1 IH1]; intros l2 H1 H2 k; [rewrite merge_spec_nil_l; reflexivity|].
  induction l2 as [|b t2 IH2]; [rewrite merge_spec_nil_r, app_nil_r; reflexivity|].
  rewrite merge_spec_cons.
  pose proof H1 as H1'. pose proof H2 as H2'.
  apply sorted_cons in H1'. destruct H1' as [La S1]. apply sorted_cons in H2'. destruct H2' as [Lb S2].
  destruct (lt b a) eqn:E.
  - rewrite filter_cons_if, (IH2 S2), !filter_app, (filter_cons_if (equiv lt k) b t2).
    destruct (equiv lt k b) eqn:Ek; [|reflexivity].
    assert (Z : filter (equiv lt k) (a :: t1) = []).
    { apply (filter_class_above k b); [exact Ek|]. constructor; [exact E|].
      unfold lb in La. eapply Forall_impl; [|exact La]. intros z Hz. cbv beta in Hz.
      destruct (lt b z) eqn:Ebz; [reflexivity|].
      pose proof (cmp_negtrans lt lt_trans lt_incomp _ _ _ Ebz Hz). congruence. }
    rewrite Z. reflexivity.
  - change ((a :: t1) ++ b :: t2) with (a :: (t1 ++ b :: t2)). cbn [filter].
    rewrite (IH1 (b :: t2) S1 H2 k). reflexivity.
Qed.

(** ** merge_sort *)
Lemma stable_sort_spec_small (M : list A) : length M <= 1 -> stable_sort_spec lt M = M.
Proof. destruct M as [|a [|b M']]; cbn [length]; intros H; [reflexivity|reflexivity|exfalso; lia]. Qed.

Lemma merge_of_sorted_halves M1 M2 :
  merge_spec lt (stable_sort_spec lt M1) (stable_sort_spec lt M2) = stable_sort_spec lt (M1 ++ M2).
Proof.
  apply (stable_sort_spec_unique lt lt_irrefl lt_trans lt_incomp).
  - apply merge_spec_sorted; apply (stable_sort_spec_sorted lt lt_irrefl lt_trans lt_incomp).
  - eapply same_classes_trans.
    + apply merge_spec_classes; apply (stable_sort_spec_sorted lt lt_irrefl lt_trans lt_incomp).
    + apply same_classes_app; apply (stable_sort_spec_stable lt lt_irrefl lt_trans lt_incomp).
Qed.

Lemma merge_sort_m_spec : forall fuel P M T, length M < fuel ->
  merge_sort_m fuel lt (P ++ M ++ T) (length P) (length P + length M)
  = Ok (P ++ stable_sort_spec lt M ++ T).
Proof.
  induction fuel as [|f IH]; intros P M T Hf; [lia|].
  cbn [merge_sort_m].
  replace (length P + length M - length P) with (length M) by lia.
  destruct (Nat.ltb_spec 1 (length M)) as [Hlen|Hlen].
  2:{ rewrite stable_sort_spec_small by lia. reflexivity. }
  set (h := Nat.div (length M) 2).
  assert (Hh : 0 < h < length M).
  { unfold h. pose proof (Nat.div_lt (length M) 2). pose proof (Nat.div_str_pos (length M) 2). lia. }
  set (M1 := firstn h M). set (M2 := skipn h M).
  assert (EM : M = M1 ++ M2) by (unfold M1, M2; symmetry; apply firstn_skipn).
  assert (L1 : length M1 = h) by (unfold M1; rewrite firstn_length; lia).
  assert (L2 : length M2 = length M - h) by (unfold M2; rewrite skipn_length; lia).
  assert (LS1 : length (stable_sort_spec lt M1) = h)
    by (rewrite (Permutation_length (stable_sort_spec_perm lt M1)); exact L1).
  assert (LS2 : length (stable_sort_spec lt M2) = length M - h)
    by (rewrite (Permutation_length (stable_sort_spec_perm lt M2)); exact L2).
  (* left half *)
  transitivity (do l1 <- merge_sort_m f lt (P ++ M1 ++ (M2 ++ T)) (length P) (length P + length M1);
                do l2 <- merge_sort_m f lt l1 (length P + h) (length P + length M);
                inplace_merge lt l2 (length P) (length P + h) (length P + length M)).
  { f_equal. f_equal; [rewrite EM at 1; lassoc; reflexivity|lia]. }
  rewrite IH by lia. cbn [rbind].
  (* right half *)
  transitivity (do l2 <- merge_sort_m f lt ((P ++ stable_sort_spec lt M1) ++ M2 ++ T)
                           (length (P ++ stable_sort_spec lt M1))
                           (length (P ++ stable_sort_spec lt M1) + length M2);
                inplace_merge lt l2 (length P) (length P + h) (length P + length M)).
  { f_equal. f_equal; [lassoc; reflexivity|rewrite app_length; lia|rewrite app_length; lia]. }
  rewrite IH by lia. cbn [rbind].
  (* merge *)
  transitivity (inplace_merge lt (P ++ stable_sort_spec lt M1 ++ stable_sort_spec lt M2 ++ T) (length P)
                  (length P + length (stable_sort_spec lt M1))
                  (length P + length (stable_sort_spec lt M1) + length (stable_sort_spec lt M2))).
  { f_equal; [lassoc; reflexivity|lia|lia]. }
  rewrite inplace_merge_in_range by (apply (stable_sort_spec_sorted lt lt_irrefl lt_trans lt_incomp)).
  rewrite merge_of_sorted_halves, <- EM. reflexivity.
Qed.

Theorem merge_sort_correct l : merge_sort lt l = Ok (stable_sort_spec lt l).
Proof.
  unfold merge_sort. pose proof (merge_sort_m_spec (S (length l)) [] l [] ltac:(lia)) as H.
  cbn [app length] in H. rewrite !app_nil_r in H. exact H.
Qed.

Corollary merge_sort_sorts l :
  exists l', merge_sort lt l = Ok l' /\ sorted_by lt l' /\ Permutation l' l.
Proof.
  exists (stable_sort_spec lt l). repeat split.
  - apply merge_sort_correct.
  - apply (stable_sort_spec_sorted lt lt_irrefl lt_trans lt_incomp).
  - apply stable_sort_spec_perm.
Qed.

End Merge.
