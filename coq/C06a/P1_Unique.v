(* unique / unique_copy.  The code compares each element with the last element KEPT, the
   standard describes the result by comparing each element with its PREDECESSOR; the two agree
   when eqv is an equivalence relation (the standard's precondition).
   Loop invariant on  K ++ r :: G ++ R :  K ++ [r] = output so far (result cursor on r),
   G = stale cells (read cursor on the last cell of r :: G), R = still to be read. *)
From Tetl Require Import Lib.Base Lib.Arr C06a.Model C06a.Spec C06a.P1_Common.
From Coq Require Import Arith Lia.
Ltac Zify.zify_post_hook ::= Z.to_euclidean_division_equations.

Section Unique.
Context {A : Type}.
Variable eqv : A -> A -> bool.
Implicit Types (l K G R : list A).

Lemma unique_copy_from_length_le : forall R r, length (unique_copy_from eqv r R) <= length R.
Proof.
  induction R as [|x R IH]; intros r; cbn [unique_copy_from length]; [lia|].
  destruct (eqv r x); cbn [negb length].
  - specialize (IH r). lia.
  - specialize (IH x). lia.
Qed.

(* the in-place loop computes the "compare with last kept" filter; no assumption on eqv *)
Lemma unique_loop_decomp : forall R fuel K r G result first last,
  length R < fuel -> result = length K -> first = result + length G -> last = S first + length R ->
  exists G',
    length G' = length G + length R - length (unique_copy_from eqv r R) /\
    unique_loop fuel eqv (K ++ r :: G ++ R) result first last
    = Ok ((K ++ r :: unique_copy_from eqv r R) ++ G', S result + length (unique_copy_from eqv r R)).
Proof.
  induction R as [|x R IH]; intros fuel K r G result first last Hf Hres Hfirst Hlast.
  - destruct fuel as [|k]; [cbn [length] in Hf; lia|].
    cbn [unique_loop unique_copy_from length] in *.
    destruct (Nat.eqb_spec (S first) last) as [E|E]; [|lia].
    exists G. split; [lia|]. rewrite app_nil_r, Nat.add_0_r, <- app_assoc. reflexivity.
  - destruct fuel as [|k]; [cbn [length] in Hf; lia|]. cbn [length] in Hf, Hlast.
    cbn [unique_loop].
    destruct (Nat.eqb_spec (S first) last) as [E|E]; [lia|].
    rewrite (oget_mid' K r (G ++ x :: R)) by exact Hres. cbn [rbind].
    replace (K ++ r :: G ++ x :: R) with ((K ++ r :: G) ++ x :: R)
      by (rewrite <- app_assoc; reflexivity).
    rewrite (oget_mid' (K ++ r :: G) x R) by (rewrite app_length; cbn [length]; lia).
    cbn [rbind unique_copy_from].
    destruct (eqv r x) eqn:Ex; cbn [negb].
    + (* equivalent to the last kept element: skipped *)
      destruct (IH k K r (G ++ [x]) result (S first) last) as (G' & HG' & Hrun);
        try (rewrite ?app_length; cbn [length]; lia).
      exists G'. split.
      * rewrite HG', app_length. cbn [length]. lia.
      * rewrite <- Hrun. f_equal. rewrite <- !app_assoc. reflexivity.
    + (* kept *)
      pose proof (unique_copy_from_length_le R x) as Hle.
      destruct (Nat.eqb_spec (S result) (S first)) as [E2|E2]; cbn [negb].
      * (* no gap yet: nothing to write *)
        assert (G = []) as -> by (destruct G; [reflexivity|cbn [length] in Hfirst; lia]).
        destruct (IH k (K ++ [r]) x [] (S result) (S first) last) as (G' & HG' & Hrun);
          try (rewrite ?app_length; cbn [length]; lia).
        exists G'. split.
        -- rewrite HG'. cbn [length]. lia.
        -- cbn [app] in Hrun |- *.
           replace (K ++ r :: x :: R) with ((K ++ [r]) ++ x :: R) by (rewrite <- app_assoc; reflexivity).
           rewrite Hrun. f_equal. f_equal.
           ++ rewrite <- !app_assoc. reflexivity.
           ++ cbn [length]. lia.
      * destruct G as [|g G0]; [cbn [length] in Hfirst; lia|]. cbn [length] in Hfirst.
        replace ((K ++ r :: g :: G0) ++ x :: R) with ((K ++ [r]) ++ g :: (G0 ++ x :: R))
          by (rewrite <- !app_assoc; reflexivity).
        rewrite (oset_mid' (K ++ [r])) by (rewrite app_length; cbn [length]; lia). cbn [rbind].
        destruct (IH k (K ++ [r]) x (G0 ++ [x]) (S result) (S first) last) as (G' & HG' & Hrun);
          try (rewrite ?app_length; cbn [length]; lia).
        exists G'. split.
        -- rewrite HG', app_length. cbn [length]. lia.
        -- replace ((K ++ [r]) ++ x :: G0 ++ x :: R) with ((K ++ [r]) ++ x :: (G0 ++ [x]) ++ R)
             by (rewrite <- !app_assoc; reflexivity).
           rewrite Hrun. f_equal. f_equal.
           ++ rewrite <- !app_assoc. reflexivity.
           ++ cbn [length]. lia.
Qed.

Lemma unique_as_copy l :
  exists l', unique eqv l = Ok (l', length (unique_copy eqv l))
             /\ firstn (length (unique_copy eqv l)) l' = unique_copy eqv l
             /\ length l' = length l.
Proof.
  unfold unique. destruct l as [|r R].
  - exists []. cbn. repeat split.
  - cbn [length unique_copy]. destruct (Nat.eqb_spec 0 (S (length R))) as [E|E]; [lia|].
    destruct (unique_loop_decomp R (S (S (length R))) [] r [] 0 0 (S (length R))) as (G' & HG' & Hrun);
      try (cbn [length]; lia).
    cbn [app length] in *. exists (r :: unique_copy_from eqv r R ++ G'). repeat split.
    + exact Hrun.
    + cbn [firstn]. f_equal. rewrite firstn_app, Nat.sub_diag. cbn [firstn].
      rewrite app_nil_r. apply firstn_all.
    + cbn [length]. rewrite app_length, HG'. pose proof (unique_copy_from_length_le R r). lia.
Qed.

(** under the standard's precondition: eqv is an equivalence relation *)
Hypothesis eqv_refl : forall x, eqv x x = true.
Hypothesis eqv_sym : forall x y, eqv x y = true -> eqv y x = true.
Hypothesis eqv_trans : forall x y z, eqv x y = true -> eqv y z = true -> eqv x z = true.

Lemma last_kept_vs_predecessor : forall R r prev,
  eqv r prev = true -> unique_copy_from eqv r R = drop_adjacent eqv prev R.
Proof.
  induction R as [|x R IH]; intros r prev Hrp; cbn [unique_copy_from drop_adjacent]; [reflexivity|].
  destruct (eqv prev x) eqn:Epx.
  - rewrite (eqv_trans r prev x Hrp Epx). cbn [negb]. apply IH.
    exact (eqv_trans r prev x Hrp Epx).
  - destruct (eqv r x) eqn:Erx.
    + rewrite (eqv_trans prev r x (eqv_sym r prev Hrp) Erx) in Epx. discriminate.
    + cbn [negb]. f_equal. apply IH. apply eqv_refl.
Qed.

Theorem unique_copy_correct l : unique_copy eqv l = unique_spec eqv l.
Proof.
  destruct l as [|x t]; [reflexivity|]. cbn [unique_copy unique_spec]. f_equal.
  apply last_kept_vs_predecessor. apply eqv_refl.
Qed.

Theorem unique_correct l :
  exists l', unique eqv l = Ok (l', length (unique_spec eqv l))
             /\ firstn (length (unique_spec eqv l)) l' = unique_spec eqv l
             /\ length l' = length l.
Proof. rewrite <- unique_copy_correct. apply unique_as_copy. Qed.

End Unique.
