(* Comparator family extended by id 3 = plain `<` on the whole element value: the comparator of
   the overloads WITHOUT a comparator argument (etl::less).  Ids 0..2 are those of Instances.v. *)
From Tetl Require Import Lib.Base C06a.Instances.
Local Open Scope Z_scope.

Definition cmp_of2 (id : Z) (a b : Z) : bool := if id =? 3 then a <? b else cmp_of id a b.
