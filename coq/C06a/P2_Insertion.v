(* insertion_sort (the code behind etl::stable_sort) computes Spec.stable_sort_spec.
   Inner loop: the key walks left over the suffix S2 of the sorted prefix whose elements are
   greater than it, shifting each one cell to the right; the cell at j is a "hole" h whose
   content no longer matters.  insert_sorted scans from the front instead; both agree because in a
   sorted list the elements greater than the key form a suffix (P2_Common.sorted_split). *)
From Tetl Require Import Lib.Base Lib.Arr C06a.Model C06a.Spec C06a.P2_Common.
From Coq Require Import Arith Lia Sorting.Sorted Sorting.Permutation.
Ltac Zify.zify_post_hook ::= Z.to_euclidean_division_equations.

Section Insertion.
Context {A : Type}.
Variable lt : A -> A -> bool.
Hypothesis lt_irrefl : forall x, lt x x = false.
Hypothesis lt_trans : forall x y z, lt x y = true -> lt y z = true -> lt x z = true.
Hypothesis lt_incomp : forall x y z,
  lt x y = false -> lt y x = false -> lt y z = false -> lt z y = false -> lt x z = false.

Lemma insertion_inner_spec x : forall S2 S1 h T fuel,
  Forall (fun y => lt x y = true) S2 ->
  ub lt x S1 ->
  length S2 < fuel ->
  insertion_inner fuel lt (S1 ++ S2 ++ h :: T) x (length S1 + length S2) = Ok (S1 ++ x :: S2 ++ T).
Proof.
  induction S2 as [|y S2 IH] using rev_ind; intros S1 h T fuel H2 H1 Hf.
  - destruct fuel as [|f]; [cbn [length] in Hf; lia|]. cbn [app length]. rewrite Nat.add_0_r.
    destruct (list_last_case S1) as [->|(S1' & y & ->)].
    + cbn [length app insertion_inner]. apply (oset_at [] h T 0 x). reflexivity.
    + replace (length (S1' ++ [y])) with (S (length S1')) by len.
      cbn [insertion_inner].
      rewrite (oget_in _ S1' y (h :: T)) by side. cbn [rbind].
      apply Forall_app in H1. destruct H1 as [_ Hy]. inversion Hy as [|? ? Hy' _]; subst.
      rewrite Hy'.
      rewrite (oset_in _ (S1' ++ [y]) h T) by side. reflexivity.
  - destruct fuel as [|f]; [lia|].
    apply Forall_app in H2. destruct H2 as [H2 Hy]. inversion Hy as [|? ? Hy' _]; subst.
    rewrite app_length in Hf. cbn [length] in Hf.
    replace (length S1 + length (S2 ++ [y])) with (S (length S1 + length S2)) by len.
    cbn [insertion_inner].
    rewrite (oget_in _ (S1 ++ S2) y (h :: T)) by side. cbn [rbind]. rewrite Hy'.
    rewrite (oset_in _ (S1 ++ S2 ++ [y]) h T) by side. cbn [rbind].
    replace ((S1 ++ S2 ++ [y]) ++ y :: T) with (S1 ++ S2 ++ y :: (y :: T)) by (lassoc; reflexivity).
    rewrite (IH S1 y (y :: T) f H2 H1) by lia.
    f_equal. lassoc. reflexivity.
Qed.

Lemma insertion_outer_spec : forall T Sd fuel,
  sorted_by lt Sd -> length T < fuel ->
  insertion_outer fuel lt (Sd ++ T) (length Sd) = Ok (fold_left (ins lt) T Sd).
Proof.
  induction T as [|x T IH]; intros Sd fuel Hs Hf.
  - destruct fuel as [|f]; [cbn [length] in Hf; lia|]. cbn [insertion_outer fold_left].
    rewrite app_nil_r, Nat.eqb_refl. reflexivity.
  - destruct fuel as [|f]; [lia|]. cbn [length] in Hf. cbn [insertion_outer fold_left].
    assert (Hne : (length Sd =? length (Sd ++ x :: T)) = false) by (apply Nat.eqb_neq; len).
    rewrite Hne.
    rewrite (oget_in _ Sd x T) by side. cbn [rbind].
    destruct (sorted_split lt lt_trans lt_incomp x Sd Hs) as (S1 & S2 & E & H1 & H2).
    assert (Ei : insert_sorted lt x Sd = S1 ++ x :: S2) by (rewrite E; apply insert_sorted_app; assumption).
    assert (Hin : insertion_inner (S (length Sd)) lt (Sd ++ x :: T) x (length Sd) = Ok (insert_sorted lt x Sd ++ T)).
    { rewrite Ei. rewrite E.
      replace ((S1 ++ S2) ++ x :: T) with (S1 ++ S2 ++ x :: T) by (lassoc; reflexivity).
      rewrite app_length. rewrite insertion_inner_spec by (assumption || lia).
      f_equal. lassoc. reflexivity. }
    rewrite Hin. cbn [rbind].
    assert (Hlen : S (length Sd) = length (insert_sorted lt x Sd)).
    { rewrite (Permutation_length (insert_sorted_perm lt x Sd)). reflexivity. }
    rewrite Hlen. unfold ins at 2.
    apply IH; [|lia].
    apply insert_sorted_sorted; assumption.
Qed.

Theorem insertion_sort_correct l : insertion_sort lt l = Ok (stable_sort_spec lt l).
Proof.
  unfold insertion_sort, stable_sort_spec.
  apply (insertion_outer_spec l [] (S (length l))); [apply sorted_nil|lia].
Qed.

Corollary insertion_sort_sorts l :
  exists l', insertion_sort lt l = Ok l' /\ sorted_by lt l' /\ Permutation l' l.
Proof.
  exists (stable_sort_spec lt l). repeat split.
  - apply insertion_sort_correct.
  - apply (stable_sort_spec_sorted lt lt_irrefl lt_trans lt_incomp).
  - apply stable_sort_spec_perm.
Qed.

End Insertion.
