(* gnome_sort (the code behind etl::sort, nth_element, partial_sort): sorts, stably, and the fuel
   n*n + n + 1 of the model suffices.
   Correctness invariant: the prefix [0, i) is sorted.
   Termination measure: 2 * (number of inversions) + (n - i): a forward step keeps the inversions
   and shortens the distance to the end; a swap step removes exactly one inversion (adjacent,
   strictly out of order pair) and lengthens the distance by one.  inversions <= n(n-1)/2. *)
From Tetl Require Import Lib.Base Lib.Arr C06a.Model C06a.Spec C06a.P2_Common.
From Coq Require Import Arith Lia Sorting.Sorted Sorting.Permutation.
Ltac Zify.zify_post_hook ::= Z.to_euclidean_division_equations.

Section Gnome.
Context {A : Type}.
Variable lt : A -> A -> bool.

(* number of pairs (earlier x, later y) with y < x *)
Fixpoint inversions (l : list A) : nat :=
  match l with
  | [] => 0
  | x :: t => length (filter (fun y => lt y x) t) + inversions t
  end.

Lemma inversions_bound l : 2 * inversions l + length l <= length l * length l.
Proof.
  induction l as [|a t IH]; cbn [inversions length]; [lia|].
  pose proof (filter_length_le (fun y => lt y a) t). nia.
Qed.

Lemma filter_length_swap (p : A -> bool) P x y T :
  length (filter p (P ++ x :: y :: T)) = length (filter p (P ++ y :: x :: T)).
Proof.
  rewrite !filter_app, !app_length. f_equal. cbn [filter].
  destruct (p x), (p y); reflexivity.
Qed.

Hypothesis lt_irrefl : forall x, lt x x = false.
Hypothesis lt_trans : forall x y z, lt x y = true -> lt y z = true -> lt x z = true.

Lemma inversions_swap P x y T : lt x y = true ->
  inversions (P ++ y :: x :: T) = S (inversions (P ++ x :: y :: T)).
Proof.
  intros H. induction P as [|a P IH]; cbn [app inversions].
  - cbn [filter]. rewrite H, (cmp_asym lt lt_irrefl lt_trans x y H). cbn [length]. lia.
  - rewrite IH, (filter_length_swap _ P y x T). lia.
Qed.

Hypothesis lt_incomp : forall x y z,
  lt x y = false -> lt y x = false -> lt y z = false -> lt z y = false -> lt x z = false.

Lemma gnome_loop_spec : forall fuel P T,
  sorted_by lt P -> 2 * inversions (P ++ T) + length T < fuel ->
  exists l', gnome_loop fuel lt (P ++ T) (length P) = Ok l' /\
             sorted_by lt l' /\ Permutation l' (P ++ T) /\ same_classes lt l' (P ++ T).
Proof.
  induction fuel as [|f IH]; intros P T Hs Hf; [lia|].
  cbn [gnome_loop].
  destruct T as [|x T'].
  { rewrite app_nil_r, Nat.eqb_refl. exists P. repeat split; [exact Hs|reflexivity]. }
  assert (Hne : (length P =? length (P ++ x :: T')) = false) by (apply Nat.eqb_neq; len).
  rewrite Hne. cbn [length] in Hf.
  destruct (list_last_case P) as [->|(P' & y & ->)].
  - (* i = first *)
    cbn [length app] in *.
    destruct (IH [x] T' (sorted_one lt x) ltac:(cbn [app]; lia)) as (l' & H1 & H2 & H3 & H4).
    exists l'. repeat split; assumption.
  - replace (length (P' ++ [y])) with (S (length P')) by len.
    rewrite (oget_in _ (P' ++ [y]) x T') by side. cbn [rbind].
    rewrite (oget_in _ P' y (x :: T')) by side. cbn [rbind].
    apply sorted_snoc in Hs. destruct Hs as [Hs Hy].
    destruct (lt x y) eqn:E; cbn [negb].
    + (* out of order: swap and step back *)
      rewrite (oswap_in_bwd _ P' y [] x T') by (side || (cbn [length]; lia)). cbn [rbind app].
      replace ((P' ++ [y]) ++ x :: T') with (P' ++ y :: x :: T') in * by (lassoc; reflexivity).
      rewrite (inversions_swap P' x y T' E) in Hf.
      destruct (IH P' (x :: y :: T') Hs ltac:(cbn [length]; lia)) as (l' & H1 & H2 & H3 & H4).
      exists l'. repeat split.
      * exact H1.
      * exact H2.
      * rewrite H3. apply Permutation_app_head. apply perm_swap.
      * eapply same_classes_trans; [exact H4|]. apply (same_classes_swap lt lt_incomp). exact E.
    + (* in order: step forward *)
      assert (Hs' : sorted_by lt ((P' ++ [y]) ++ [x])).
      { apply sorted_snoc. split; [apply sorted_snoc; split; assumption|].
        unfold ub. apply Forall_app. split.
        - apply (ub_weaken lt lt_trans lt_incomp y x); assumption.
        - constructor; [exact E|constructor]. }
      assert (El : (P' ++ [y]) ++ x :: T' = ((P' ++ [y]) ++ [x]) ++ T') by (lassoc; reflexivity).
      replace (S (S (length P'))) with (length ((P' ++ [y]) ++ [x])) by len.
      rewrite El in *.
      destruct (IH ((P' ++ [y]) ++ [x]) T' Hs' ltac:(lia)) as (l' & H1 & H2 & H3 & H4).
      exists l'. repeat split; assumption.
Qed.

Theorem gnome_sort_sorts l :
  exists l', gnome_sort lt l = Ok l' /\ sorted_by lt l' /\ Permutation l' l /\ same_classes lt l' l.
Proof.
  unfold gnome_sort.
  apply (gnome_loop_spec (S (length l * length l + length l)) [] l (sorted_nil lt)).
  cbn [app]. pose proof (inversions_bound l). lia.
Qed.

(* etl::sort's worker is, in fact, a stable sort *)
Theorem gnome_sort_correct l : gnome_sort lt l = Ok (stable_sort_spec lt l).
Proof.
  destruct (gnome_sort_sorts l) as (l' & H1 & H2 & _ & H4).
  rewrite H1. f_equal. apply (stable_sort_spec_unique lt lt_irrefl lt_trans lt_incomp); assumption.
Qed.

End Gnome.
