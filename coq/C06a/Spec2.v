(* C06a specification, second part: copies inside one array ([alg.copy], [alg.move]: the
   destination may overlap the source on the permitted side), the iterator operations of
   [iterator.operations] / [reverse.iterators], and the postconditions of nth_element / partial_sort. *)
From Tetl Require Import Lib.Base Lib.Arr C06a.Spec.
From Coq Require Import Sorting.Sorted Sorting.Permutation.

Section Spec2.
Context {A : Type}.

(* copy / move: [dest, dest + (last - first)) receives the OLD contents of [first, last) *)
Definition copy_within_spec (l : list A) (first last dest : nat) : list A :=
  firstn dest l ++ sub l first last ++ skipn (dest + (last - first)) l.

(* copy_backward / move_backward: [dLast - (last - first), dLast) receives the old [first, last) *)
Definition copy_backward_within_spec (l : list A) (first last dlast : nat) : list A :=
  firstn (dlast - (last - first)) l ++ sub l first last ++ skipn dlast l.

(* an algorithm that writes the values xs through an output iterator starting at position pos of the
   destination d: exactly [pos, pos + |xs|) is overwritten, the returned iterator is pos + |xs| *)
Definition emit_spec (d : list A) (pos : nat) (xs : list A) : list A * nat :=
  (firstn pos d ++ xs ++ skipn (pos + length xs) d, pos + length xs).

(* copy_backward: the values end at dLast: exactly [dLast - |xs|, dLast) is overwritten *)
Definition emit_backward_spec (d : list A) (dlast : nat) (xs : list A) : list A * nat :=
  (firstn (dlast - length xs) d ++ xs ++ skipn dlast d, dlast - length xs).

(* [alg.generate]: the values successive calls of a generator yield (the generator as a state machine) *)
Fixpoint gen_values {S : Type} (k : nat) (g : S -> A * S) (s : S) : list A :=
  match k with O => [] | Datatypes.S k' => let '(v, s') := g s in v :: gen_values k' g s' end.

(* [alg.nth.element]: for every i in [first, nth) and j in [nth, last): !comp( *j, *i) *)
Definition nth_element_post (lt : A -> A -> bool) (l : list A) (nth : nat) : Prop :=
  forall i j x y, i < nth -> nth <= j -> get l i = Some x -> get l j = Some y -> lt y x = false.
End Spec2.

(* [iterator.operations]: advance(i, n) moves i by n; distance(first, last) is the number of
   increments; positions in Z.  [reverse.iterators]: a reverse iterator with base b over a range
   of length len designates the reversed position len - b. *)
Definition rpos (len b : Z) : Z := (len - b)%Z.
