(* The predicate / comparator / function family shared by harness, driver and generators.
   Elements are integers v = key * 16 + tag (tag in 0..15 identifies equal keys). *)
From Tetl Require Import Lib.Base.
Local Open Scope Z_scope.

Definition key (v : Z) : Z := v / 16.

Definition pred_of (id : Z) (v : Z) : bool :=
  if id =? 0 then Z.even (key v)
  else if id =? 1 then key v =? 1
  else if id =? 2 then key v <? 2
  else if id =? 3 then true
  else false.

Definition cmp_of (id : Z) (a b : Z) : bool :=
  if id =? 0 then key a <? key b
  else if id =? 1 then key b <? key a
  else (key a) mod 3 <? (key b) mod 3.

Definition eqv_of (id : Z) (a b : Z) : bool :=
  if id =? 0 then key a =? key b
  else if id =? 1 then a =? b
  else (key a) mod 3 =? (key b) mod 3.

Definition fun1_of (id : Z) (a : Z) : Z := if id =? 0 then a + 16 else 2 * a.
Definition fun2_of (id : Z) (a b : Z) : Z := if id =? 0 then a + b else a - b.
