(* C06a model, move-tracking element type: the loops of unique.hpp, remove_if.hpp, move.hpp and move_backward.hpp
   (hence shift_left.hpp / shift_right.hpp) transcribed once more with the element move made explicit.
   `*d = etl::move( *s )` of an element type whose move assignment takes the value over and marks the source
   (no self test - a handle / buffer owner) is  omove l d s : cell d receives the value of cell s, THEN cell s
   receives the mark `mv`; so omove l d d leaves the mark in cell d (the element is destroyed).  Every function
   also returns the list of (destination, source) pairs of the move assignments it executed. *)
From Tetl Require Import Lib.Base Lib.Arr C06a.Model.
From Coq Require Import Arith.

Section Mv.
Context {A : Type}.
Variable mv : A.

Definition omove (l : list A) (d s : nat) : res (list A) :=
  do x <- oget l s; do l1 <- oset l d x; oset l1 s mv.

Definition mtrace := list (nat * nat).

(** ** unique.hpp *)
Fixpoint unique_loop_mv (fuel : nat) (eqv : A -> A -> bool) (l : list A) (result first last : nat) (tr : mtrace)
  : res (list A * nat * mtrace) :=
  match fuel with
  | O => OutOfFuel
  | S k =>
      let first' := S first in
      if first' =? last then Ok (l, S result, tr)
      else
        do r <- oget l result;
        do x <- oget l first';
        if negb (eqv r x) then
          let result' := S result in
          if negb (result' =? first') then
            do l' <- omove l result' first'; unique_loop_mv k eqv l' result' first' last ((result', first') :: tr)
          else unique_loop_mv k eqv l result' first' last tr
        else unique_loop_mv k eqv l result first' last tr
  end.

Definition unique_mv (eqv : A -> A -> bool) (l : list A) : res (list A * nat * mtrace) :=
  let last := length l in
  if 0 =? last then Ok (l, last, []) else unique_loop_mv (S last) eqv l 0 0 last [].

(** ** remove_if.hpp *)
Fixpoint remove_if_loop_mv (fuel : nat) (p : A -> bool) (l : list A) (w i last : nat) (tr : mtrace)
  : res (list A * nat * mtrace) :=
  match fuel with
  | O => OutOfFuel
  | S k =>
      let i' := S i in
      if i' =? last then Ok (l, w, tr)
      else
        do x <- oget l i';
        if p x then remove_if_loop_mv k p l w i' last tr
        else do l' <- omove l w i'; remove_if_loop_mv k p l' (S w) i' last ((w, i') :: tr)
  end.

Definition remove_if_mv (p : A -> bool) (l : list A) : res (list A * nat * mtrace) :=
  let first := find_if_from p l 0 in
  let last := length l in
  if first =? last then Ok (l, first, []) else remove_if_loop_mv (S last) p l first first last [].

(** ** move.hpp / move_backward.hpp inside one array *)
Fixpoint move_fwd_mv (fuel : nat) (l : list A) (first last dest : nat) (tr : mtrace) : res (list A * nat * mtrace) :=
  match fuel with
  | O => OutOfFuel
  | S k =>
      if first =? last then Ok (l, dest, tr)
      else do l' <- omove l dest first; move_fwd_mv k l' (S first) last (S dest) ((dest, first) :: tr)
  end.

Fixpoint move_bwd_mv (fuel : nat) (l : list A) (first last dest : nat) (tr : mtrace) : res (list A * nat * mtrace) :=
  match fuel with
  | O => OutOfFuel
  | S k =>
      if first =? last then Ok (l, dest, tr)
      else
        match last, dest with
        | S last', S dest' => do l' <- omove l dest' last'; move_bwd_mv k l' first last' dest' ((dest', last') :: tr)
        | _, _ => UB OutOfBounds
        end
  end.

(** ** shift_left.hpp / shift_right.hpp *)
Definition shift_left_mv (l : list A) (n : Z) : res (list A * nat * mtrace) :=
  let len := length l in
  if (n <=? 0)%Z then Ok (l, len, [])
  else if (Z.of_nat len <=? n)%Z then Ok (l, 0, [])
  else move_fwd_mv (S len) l (Z.to_nat n) len 0 [].

Definition shift_right_mv (l : list A) (n : Z) : res (list A * nat * mtrace) :=
  let len := length l in
  if (n <=? 0)%Z then Ok (l, 0, [])
  else if (Z.of_nat len <=? n)%Z then Ok (l, len, [])
  else move_bwd_mv (S len) l 0 (len - Z.to_nat n) len [].

End Mv.
