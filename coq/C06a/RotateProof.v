(* rotate: the forward-iterator swap-cycle implementation equals list surgery, for every
   list, every split, and with no access outside the range.
   Invariant of the swap loop: the window [write, read) always has |A| elements; writing
   canon W j := skipn j W ++ firstn j W for the window read cyclically from the marked
   position j = nextRead - write, canon stays equal to A. *)
From Tetl Require Import Lib.Base Lib.Arr C06a.Model.
From Coq Require Import Arith Lia.

Section Rotate.
Context {A : Type}.
Implicit Types (P W B T l : list A).

Definition canon (W : list A) (j : nat) : list A := skipn j W ++ firstn j W.

Lemma oswap_split P a M b T :
  oswap (P ++ a :: M ++ b :: T) (length P) (length P + S (length M)) = Ok (P ++ b :: M ++ a :: T).
Proof. unfold oswap. rewrite swap_split. reflexivity. Qed.

Lemma canon_step_zero w0 W0 : canon (W0 ++ [w0]) (length W0) = canon (w0 :: W0) 0.
Proof.
  unfold canon. rewrite skipn_app, skipn_all, Nat.sub_diag. cbn [skipn firstn app].
  rewrite firstn_app, firstn_all, Nat.sub_diag. cbn [firstn]. rewrite !app_nil_r. reflexivity.
Qed.

Lemma canon_step_succ w0 W0 j : j <= length W0 ->
  canon (W0 ++ [w0]) j = canon (w0 :: W0) (S j).
Proof.
  intros Hj. unfold canon. cbn [skipn firstn].
  rewrite skipn_app, firstn_app.
  replace (j - length W0) with 0 by lia. cbn [skipn firstn]. rewrite app_nil_r.
  rewrite <- app_assoc. reflexivity.
Qed.

(* the swap loop *)
Lemma rotate_loop_spec : forall B fuel P W T j,
  length B < fuel -> W <> [] -> j < length W ->
  exists Wf jf,
    length Wf = length W /\ jf < length W /\ canon Wf jf = canon W j /\
    rotate_loop fuel (P ++ W ++ B ++ T) (length P) (length P + length W) (length P + j)
                (length P + length W + length B)
    = Ok (P ++ B ++ Wf ++ T, length P + length B, length P + length B + jf).
Proof.
  induction B as [|b B IH]; intros fuel P W T j Hf HW Hj.
  - destruct fuel as [|k]; [cbn [length] in Hf; lia|]. cbn [rotate_loop length].
    rewrite Nat.add_0_r, Nat.eqb_refl. exists W, j. cbn [app]. repeat split; try lia.
    rewrite Nat.add_0_r. reflexivity.
  - destruct fuel as [|k]; [cbn [length] in Hf; lia|]. cbn [length] in Hf.
    cbn [rotate_loop length].
    assert (Hne : (length P + length W =? length P + length W + S (length B)) = false)
      by (apply Nat.eqb_neq; lia).
    rewrite Hne.
    destruct W as [|w0 W0]; [contradiction|]. cbn [length] in *.
    (* the list as  P ++ w0 :: W0 ++ b :: (B ++ T) *)
    replace (P ++ (w0 :: W0) ++ (b :: B) ++ T) with (P ++ w0 :: W0 ++ b :: (B ++ T))
      by (cbn [app]; rewrite <- ?app_assoc; reflexivity).
    replace (length P + S (length W0)) with (length P + S (length W0)) by reflexivity.
    rewrite oswap_split. cbn [rbind].
    (* new prefix P ++ [b], new window W0 ++ [w0] *)
    set (P' := P ++ [b]). set (W' := W0 ++ [w0]).
    assert (HP' : length P' = S (length P)) by (unfold P'; rewrite app_length; cbn; lia).
    assert (HW' : length W' = S (length W0)) by (unfold W'; rewrite app_length; cbn; lia).
    assert (HW'ne : W' <> []) by (unfold W'; destruct W0; discriminate).
    replace (P ++ b :: W0 ++ w0 :: B ++ T) with (P' ++ W' ++ B ++ T)
      by (unfold P', W'; rewrite <- !app_assoc; reflexivity).
    destruct (Nat.eqb_spec (length P) (length P + j)) as [Ej|Ej].
    + (* a_0 is at the window front: it goes to the end of the new window *)
      assert (j = 0) by lia. subst j.
      destruct (IH k P' W' T (length W0) ltac:(lia) HW'ne ltac:(lia)) as (Wf & jf & H1 & H2 & H3 & H4).
      exists Wf, jf. repeat split; try lia.
      * rewrite H3. unfold W'. apply canon_step_zero.
      * transitivity (rotate_loop k (P' ++ W' ++ B ++ T) (length P') (length P' + length W')
                        (length P' + length W0) (length P' + length W' + length B)).
        { f_equal; lia. }
        rewrite H4. f_equal. f_equal; [f_equal|].
        -- unfold P'. rewrite <- app_assoc. reflexivity.
        -- lia.
        -- lia.
    + destruct j as [|j']; [lia|].
      destruct (IH k P' W' T j' ltac:(lia) HW'ne ltac:(lia)) as (Wf & jf & H1 & H2 & H3 & H4).
      exists Wf, jf. repeat split; try lia.
      * rewrite H3. unfold W'. apply canon_step_succ. lia.
      * transitivity (rotate_loop k (P' ++ W' ++ B ++ T) (length P') (length P' + length W')
                        (length P' + j') (length P' + length W' + length B)).
        { f_equal; lia. }
        rewrite H4. f_equal. f_equal; [f_equal|].
        -- unfold P'. rewrite <- app_assoc. reflexivity.
        -- lia.
        -- lia.
Qed.

(* rotate on a decomposed list  P ++ A ++ B ++ T *)
Lemma rotate_m_decomp : forall fuel P A0 B T,
  length A0 + length B < fuel ->
  rotate_m fuel (P ++ A0 ++ B ++ T) (length P) (length P + length A0) (length P + length A0 + length B)
  = Ok (P ++ B ++ A0 ++ T, length P + length B).
Proof.
  induction fuel as [|k IH]; intros P A0 B T Hf; [lia|].
  cbn [rotate_m].
  destruct (Nat.eqb_spec (length P) (length P + length A0)) as [E1|E1].
  - assert (A0 = []) by (destruct A0; [reflexivity|cbn [length] in E1; lia]). subst A0.
    cbn [app length]. f_equal. f_equal. lia.
  - destruct (Nat.eqb_spec (length P + length A0) (length P + length A0 + length B)) as [E2|E2].
    + assert (B = []) by (destruct B; [reflexivity|cbn [length] in E2; lia]). subst B.
      cbn [app length]. f_equal. f_equal. lia.
    + assert (HA : A0 <> []) by (intros ->; cbn [length] in E1; lia).
      assert (HAl : 0 < length A0) by (destruct A0; [contradiction|cbn; lia]).
      assert (HBl : 0 < length B) by lia.
      destruct (rotate_loop_spec B (S (length P + length A0 + length B - (length P + length A0))) P A0 T 0
                  ltac:(lia) HA HAl) as (Wf & jf & H1 & H2 & H3 & H4).
      rewrite Nat.add_0_r in H4. rewrite H4. cbn [rbind].
      (* split the final window at the mark *)
      set (A' := firstn jf Wf). set (B' := skipn jf Wf).
      assert (HWf : Wf = A' ++ B') by (unfold A', B'; symmetry; apply firstn_skipn).
      assert (HA' : length A' = jf) by (unfold A'; rewrite firstn_length; lia).
      assert (HB' : length B' = length A0 - jf) by (unfold B'; rewrite skipn_length; lia).
      replace (P ++ B ++ Wf ++ T) with ((P ++ B) ++ A' ++ B' ++ T)
        by (rewrite HWf, <- !app_assoc; reflexivity).
      replace (length P + length B) with (length (P ++ B)) by (rewrite app_length; reflexivity).
      replace (length (P ++ B) + jf) with (length (P ++ B) + length A') by lia.
      replace (length P + length A0 + length B) with (length (P ++ B) + length A' + length B')
        by (rewrite app_length; lia).
      rewrite (IH (P ++ B) A' B' T) by lia. cbn [rbind fst].
      f_equal. f_equal.
      assert (HBA : B' ++ A' = A0).
      { unfold canon in H3. cbn [skipn firstn] in H3. rewrite app_nil_r in H3. exact H3. }
      rewrite <- !app_assoc. f_equal. f_equal. rewrite app_assoc, HBA. reflexivity.
Qed.

Theorem rotate_correct l first nfirst last :
  first <= nfirst -> nfirst <= last -> last <= length l ->
  rotate l first nfirst last
  = Ok (firstn first l ++ sub l nfirst last ++ sub l first nfirst ++ skipn last l, first + (last - nfirst)).
Proof.
  intros H1 H2 H3. unfold rotate.
  set (P := firstn first l). set (A0 := sub l first nfirst). set (B := sub l nfirst last).
  set (T := skipn last l).
  assert (HP : length P = first) by (unfold P; rewrite firstn_length; lia).
  assert (HA : length A0 = nfirst - first) by (unfold A0, sub; rewrite firstn_length, skipn_length; lia).
  assert (HB : length B = last - nfirst) by (unfold B, sub; rewrite firstn_length, skipn_length; lia).
  assert (Hl : l = P ++ A0 ++ B ++ T).
  { unfold P, A0, B, T, sub.
    rewrite <- (firstn_skipn first l) at 1. f_equal.
    rewrite <- (firstn_skipn (nfirst - first) (skipn first l)) at 1. f_equal.
    rewrite skipn_skipn. replace (nfirst - first + first) with nfirst by lia.
    rewrite <- (firstn_skipn (last - nfirst) (skipn nfirst l)) at 1. f_equal.
    rewrite skipn_skipn. f_equal. lia. }
  rewrite Hl at 1.
  replace first with (length P) at 1 2 by exact HP.
  replace nfirst with (length P + length A0) at 1 by lia.
  replace last with (length P + length A0 + length B) at 1 2 by lia.
  rewrite rotate_m_decomp by lia.
  f_equal. f_equal. lia.
Qed.

End Rotate.
