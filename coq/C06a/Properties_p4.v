(* C06 (part a) — property theorems, fourth batch (fix-miss round 4):
   (1) element moves made explicit (ModelMove.v): with an element type whose move assignment takes the value over
       and marks the source WITHOUT a self test, unique / remove_if / shift_left / shift_right still leave exactly the
       specified elements in the specified part of the range, and every move assignment they execute goes from a
       later cell to an earlier one (shift_right: from an earlier to a later one) - never from a cell onto itself;
   (2) the result of a predicate enters only through its truth value: for ANY result type R and conversion
       truth : R -> bool, two predicates with the same truth values give the same result. *)
From Tetl Require Import Lib.Base Lib.Arr C06a.Model C06a.ModelMove C06a.Spec C06a.P4_Move.
From Tetl Require Import C06a.P1_StablePartition C06a.P1_RemoveIf C06a.P1_Partition.

Theorem C06_element_moves : forall (A : Type) (mv : A),
  (* unique, under the standard's precondition that eqv is an equivalence relation *)
  (forall eqv : A -> A -> bool,
     (forall x, eqv x x = true) ->
     (forall x y, eqv x y = true -> eqv y x = true) ->
     (forall x y z, eqv x y = true -> eqv y z = true -> eqv x z = true) ->
     forall l : list A, exists l' tr,
       unique_mv mv eqv l = Ok (l', length (unique_spec eqv l), tr)
       /\ firstn (length (unique_spec eqv l)) l' = unique_spec eqv l
       /\ length l' = length l
       /\ Forall (fun m => fst m < snd m) tr)
  /\
  (* remove_if *)
  (forall (p : A -> bool) (l : list A), exists l' tr,
     remove_if_mv mv p l = Ok (l', length (remove_if_spec p l), tr)
     /\ firstn (length (remove_if_spec p l)) l' = remove_if_spec p l
     /\ length l' = length l
     /\ Forall (fun m => fst m < snd m) tr)
  /\
  (* shift_left / shift_right for 0 < n < length (otherwise nothing is moved: C06_shift_*_nonpositive / _too_far) *)
  (forall (l : list A) (n : Z), (0 < n < Z.of_nat (length l))%Z ->
     (exists l' tr, shift_left_mv mv l n = Ok (l', length l - Z.to_nat n, tr)
        /\ firstn (length l - Z.to_nat n) l' = shift_left_spec l (Z.to_nat n)
        /\ length l' = length l
        /\ Forall (fun m => fst m < snd m) tr)
     /\
     (exists l' tr, shift_right_mv mv l n = Ok (l', Z.to_nat n, tr)
        /\ skipn (Z.to_nat n) l' = shift_right_spec l (Z.to_nat n)
        /\ length l' = length l
        /\ Forall (fun m => snd m < fst m) tr)).
Proof.
  intros A mv. split; [|split].
  - intros eqv Hr Hs Ht l. apply unique_mv_correct; assumption.
  - intros p l. apply remove_if_mv_correct.
  - intros l n Hn. split; [apply shift_left_mv_correct|apply shift_right_mv_correct]; exact Hn.
Qed.
Print Assumptions C06_element_moves.

(* the model is not blind: a move assignment of a cell onto itself leaves the mark (what the seeded change C06-h3 does) *)
Example C06_self_move_destroys : omove (-999)%Z [1; 2; 3]%Z 1 1 = Ok [1; -999; 3]%Z
  /\ unique_mv (-999)%Z Z.eqb [1; 2; 2; 3; 3; 1]%Z = Ok ([1; 2; 3; 1; 3; -999]%Z, 4, [(3, 5); (2, 3)]).
Proof. split; reflexivity. Qed.

(** ** the predicate result enters only through its truth value *)
Definition tv {A R : Type} (truth : R -> bool) (p : A -> R) : A -> bool := fun x => truth (p x).

Theorem C06_truth_value_only : forall (A R : Type) (truth : R -> bool) (p q : A -> R) (l : list A),
  (forall x, truth (p x) = truth (q x)) ->
  stable_partition (tv truth p) l = stable_partition (tv truth q) l
  /\ (exists l1 l2 n, remove_if (tv truth p) l = Ok (l1, n) /\ remove_if (tv truth q) l = Ok (l2, n)
                      /\ firstn n l1 = firstn n l2)
  /\ (exists l1 l2 n, partition (tv truth p) l = Ok (l1, n) /\ partition (tv truth q) l = Ok (l2, n)).
Proof.
  intros A R truth p q l H.
  assert (Hf : forall x, tv truth p x = tv truth q x) by (intros x; apply H).
  assert (Hn : forall x, negb (tv truth p x) = negb (tv truth q x)) by (intros x; rewrite Hf; reflexivity).
  split; [|split].
  - rewrite !stable_partition_correct. unfold stable_partition_spec.
    rewrite (filter_ext _ _ Hf l), (filter_ext _ _ Hn l). reflexivity.
  - destruct (remove_if_correct (tv truth p) l) as (l1 & H1 & F1 & _).
    destruct (remove_if_correct (tv truth q) l) as (l2 & H2 & F2 & _).
    unfold remove_if_spec in *. rewrite <- (filter_ext _ _ Hn l) in H2, F2.
    exists l1, l2, (length (filter (fun x => negb (tv truth p x)) l)).
    split; [exact H1|]. split; [exact H2|]. rewrite F1, F2. reflexivity.
  - destruct (partition_correct (tv truth p) l) as (l1 & H1 & _).
    destruct (partition_correct (tv truth q) l) as (l2 & H2 & _).
    unfold partition_point_spec in *. rewrite <- (filter_ext _ _ Hf l) in H2.
    exists l1, l2, (length (filter (tv truth p) l)). split; assumption.
Qed.
Print Assumptions C06_truth_value_only.
