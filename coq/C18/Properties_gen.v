(* C18 — translator obligations: the kernels regenerated from /repo's cctype.hpp and cwctype.hpp on this run equal
   the model for ALL arguments (see GenEquiv.v).  The property theorems of Properties.v are about the model. *)
From Tetl Require Import Lib.Base C18.Model C18.GenEquiv.
From Tetl Require Gen.Gen_cctype Gen.Gen_cwctype.
Local Open Scope Z_scope.

Theorem C18_gen_cctype : forall c,
  Gen_cctype.isdigit_g c = Some (isdigit_m c) /\
  Gen_cctype.islower_g c = Some (islower_m c) /\
  Gen_cctype.isupper_g c = Some (isupper_m c) /\
  Gen_cctype.isalpha_g c = Some (isalpha_m c) /\
  Gen_cctype.isalnum_g c = Some (isalnum_m c) /\
  Gen_cctype.isblank_g c = Some (isblank_m c) /\
  Gen_cctype.iscntrl_g c = Some (iscntrl_m c) /\
  Gen_cctype.ispunct_g c = Some (ispunct_m c) /\
  Gen_cctype.isgraph_g c = Some (isgraph_m c) /\
  Gen_cctype.isprint_g c = Some (isprint_m c) /\
  Gen_cctype.isspace_g c = Some (isspace_m c) /\
  Gen_cctype.isxdigit_g c = Some (isxdigit_m c) /\
  Gen_cctype.tolower_g c = tolower_m c /\
  Gen_cctype.toupper_g c = toupper_m c.
Proof.
  intros c. exact (conj (gen_isdigit_eq c) (conj (gen_islower_eq c) (conj (gen_isupper_eq c) (conj (gen_isalpha_eq c) (conj (gen_isalnum_eq c) (conj (gen_isblank_eq c) (conj (gen_iscntrl_eq c) (conj (gen_ispunct_eq c) (conj (gen_isgraph_eq c) (conj (gen_isprint_eq c) (conj (gen_isspace_eq c) (conj (gen_isxdigit_eq c) (conj (gen_tolower_eq c) (gen_toupper_eq c)))))))))))))).
Qed.
Print Assumptions C18_gen_cctype.

Theorem C18_gen_cwctype : forall c,
  Gen_cwctype.iswdigit_g c = Some (iswdigit_m c) /\
  Gen_cwctype.iswlower_g c = Some (iswlower_m c) /\
  Gen_cwctype.iswupper_g c = Some (iswupper_m c) /\
  Gen_cwctype.iswalpha_g c = Some (iswalpha_m c) /\
  Gen_cwctype.iswalnum_g c = Some (iswalnum_m c) /\
  Gen_cwctype.iswblank_g c = Some (iswblank_m c) /\
  Gen_cwctype.iswcntrl_g c = Some (iswcntrl_m c) /\
  Gen_cwctype.iswpunct_g c = Some (iswpunct_m c) /\
  Gen_cwctype.iswgraph_g c = Some (iswgraph_m c) /\
  Gen_cwctype.iswprint_g c = Some (iswprint_m c) /\
  Gen_cwctype.iswspace_g c = Some (iswspace_m c) /\
  Gen_cwctype.iswxdigit_g c = Some (iswxdigit_m c) /\
  Gen_cwctype.towlower_g c = Some (towlower_m c) /\
  Gen_cwctype.towupper_g c = Some (towupper_m c).
Proof.
  intros c. exact (conj (gen_iswdigit_eq c) (conj (gen_iswlower_eq c) (conj (gen_iswupper_eq c) (conj (gen_iswalpha_eq c) (conj (gen_iswalnum_eq c) (conj (gen_iswblank_eq c) (conj (gen_iswcntrl_eq c) (conj (gen_iswpunct_eq c) (conj (gen_iswgraph_eq c) (conj (gen_iswprint_eq c) (conj (gen_iswspace_eq c) (conj (gen_iswxdigit_eq c) (conj (gen_towlower_eq c) (gen_towupper_eq c)))))))))))))).
Qed.
Print Assumptions C18_gen_cwctype.
