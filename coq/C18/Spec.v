(* C18 specification: ISO C17 7.4 (<ctype.h>, "C" locale), 7.30.2 (<wctype.h>), 7.24 (<string.h>),
   7.29.4 (<wchar.h> string functions), 7.22.6 (abs/div), written on lists and integers.
   Nothing here mentions pointers walking, loop structure or any trick of the code.

   A STRING is a list of non-null characters (the terminator is implicit); an ARRAY is any list.
   Characters are compared by value: narrow characters are given as unsigned char values 0..255
   (7.24.4p1: "interpreted as unsigned char"), wide characters as wchar_t values (7.29.4.4). *)
From Tetl Require Import Lib.Base.
From Coq Require Strings.String Strings.Ascii.
Local Open Scope Z_scope.

(** * 7.4 character classes in the "C" locale, as explicit tables *)
(* the tables are written as text and turned into character codes (ASCII, the execution character set of
   the target) once, at definition time *)
Module Tables.
  Import Coq.Strings.String Coq.Strings.Ascii.
  Definition codes (s : string) : list Z := map (fun a => Z.of_nat (nat_of_ascii a)) (list_ascii_of_string s).
  Definition upper_letters : list Z := Eval vm_compute in codes "ABCDEFGHIJKLMNOPQRSTUVWXYZ"%string.
  Definition lower_letters : list Z := Eval vm_compute in codes "abcdefghijklmnopqrstuvwxyz"%string.
  Definition dec_digits : list Z := Eval vm_compute in codes "0123456789"%string.
  Definition hex_letters : list Z := Eval vm_compute in codes "abcdefABCDEF"%string.
End Tables.
Definition upper_letters : list Z := Tables.upper_letters.
Definition lower_letters : list Z := Tables.lower_letters.
Definition dec_digits : list Z := Tables.dec_digits.
Definition hex_letters : list Z := Tables.hex_letters.
(* 7.4.1.10: space, form feed, new-line, carriage return, horizontal tab, vertical tab *)
Definition white_space : list Z := [32; 12; 10; 13; 9; 11].

Definition mem (c : Z) (l : list Z) : bool := existsb (Z.eqb c) l.

Definition isupper_s (c : Z) : bool := mem c upper_letters.            (* 7.4.1.11 *)
Definition islower_s (c : Z) : bool := mem c lower_letters.            (* 7.4.1.7 *)
Definition isdigit_s (c : Z) : bool := mem c dec_digits.               (* 7.4.1.5 *)
Definition isalpha_s (c : Z) : bool := isupper_s c || islower_s c.     (* 7.4.1.2: "C" locale: only these *)
Definition isalnum_s (c : Z) : bool := isalpha_s c || isdigit_s c.     (* 7.4.1.1 *)
Definition isxdigit_s (c : Z) : bool := isdigit_s c || mem c hex_letters. (* 7.4.1.12 *)
Definition isspace_s (c : Z) : bool := mem c white_space.              (* 7.4.1.10 *)
Definition isblank_s (c : Z) : bool := (c =? 32) || (c =? 9).          (* 7.4.1.3: space and horizontal tab *)
(* 7.4p3 with footnote: in the 7-bit US ASCII set the printing characters are 0x20..0x7E,
   the control characters 0..0x1F and 0x7F *)
Definition isprint_s (c : Z) : bool := (32 <=? c) && (c <=? 126).      (* 7.4.1.8 *)
Definition iscntrl_s (c : Z) : bool := ((0 <=? c) && (c <=? 31)) || (c =? 127). (* 7.4.1.4 *)
Definition isgraph_s (c : Z) : bool := isprint_s c && negb (c =? 32).  (* 7.4.1.6: printing except space *)
(* 7.4.1.9: printing character that is neither space nor alphanumeric *)
Definition ispunct_s (c : Z) : bool := isprint_s c && negb (isspace_s c) && negb (isalnum_s c).

(* position of c in a table *)
Fixpoint index_of (c : Z) (l : list Z) : option nat :=
  match l with
  | [] => None
  | x :: t => if x =? c then Some O else option_map S (index_of c t)
  end.
(* 7.4.2: the corresponding letter of the other case, otherwise unchanged *)
Definition tolower_s (c : Z) : Z :=
  match index_of c upper_letters with Some i => nth i lower_letters c | None => c end.
Definition toupper_s (c : Z) : Z :=
  match index_of c lower_letters with Some i => nth i upper_letters c | None => c end.

(** * 7.24 / 7.29.4 on lists *)

(* the string stored at the start of an array: the elements before the first null, if there is one *)
Fixpoint str_of (b : list Z) : option (list Z) :=
  match b with
  | [] => None
  | c :: t => if c =? 0 then Some [] else option_map (cons c) (str_of t)
  end.

Definition sign_of (x : Z) : Z := if x >? 0 then 1 else if x <? 0 then -1 else 0.

(* 7.24.4p1: the sign of a nonzero result is the sign of the difference of the first pair that differs *)
Fixpoint first_diff (x y : list Z) : Z :=
  match x, y with
  | a :: x', b :: y' => if a =? b then first_diff x' y' else sign_of (a - b)
  | _, _ => 0
  end.

(* the part of an array that an n-limited string function looks at: up to n elements, stopping
   behind a null character ("characters that follow a null character are not compared/copied") *)
Fixpoint upto_nul (n : nat) (b : list Z) : list Z :=
  match n, b with
  | S n', c :: t => if c =? 0 then [c] else c :: upto_nul n' t
  | _, _ => []
  end.
(* the same without the null character itself *)
Fixpoint upto_nul_excl (n : nat) (b : list Z) : list Z :=
  match n, b with
  | S n', c :: t => if c =? 0 then [] else c :: upto_nul_excl n' t
  | _, _ => []
  end.

(* the precondition of the n-limited functions on a source array: it holds a null character among its
   first n elements, or it has at least n elements (7.24.2.4, 7.24.3.2, 7.24.4.4: "array") *)
Fixpoint array_ok (n : nat) (b : list Z) : bool :=
  match n with
  | O => true
  | S n' => match b with
            | [] => false
            | c :: t => if c =? 0 then true else array_ok n' t
            end
  end.

Definition strlen_s (a : list Z) : nat := length a.                                   (* 7.24.6.3 *)
Definition strcmp_s (a b : list Z) : Z := first_diff (a ++ [0]) (b ++ [0]).           (* 7.24.4.2 *)
Definition strncmp_s (A B : list Z) (n : nat) : Z := first_diff (upto_nul n A) (upto_nul n B). (* 7.24.4.4, arrays *)
Definition memcmp_s (A B : list Z) (n : nat) : Z := first_diff (firstn n A) (firstn n B).      (* 7.24.4.1 *)

Fixpoint find_first (p : Z -> bool) (l : list Z) : option nat :=
  match l with
  | [] => None
  | x :: t => if p x then Some O else option_map S (find_first p t)
  end.
Fixpoint find_last (p : Z -> bool) (l : list Z) : option nat :=
  match l with
  | [] => None
  | x :: t => match find_last p t with
              | Some i => Some (S i)
              | None => if p x then Some O else None
              end
  end.

(* 7.24.5.2 / 7.24.5.5: the terminating null character is part of the string; c is converted to char *)
Definition strchr_s (a : list Z) (c : Z) : option nat := find_first (Z.eqb c) (a ++ [0]).
Definition strrchr_s (a : list Z) (c : Z) : option nat := find_last (Z.eqb c) (a ++ [0]).
Definition memchr_s (A : list Z) (c : Z) (n : nat) : option nat := find_first (Z.eqb c) (firstn n A). (* 7.24.5.1 *)

(* 7.24.5.6 / 7.24.5.3: length of the maximal initial segment consisting entirely of / not of characters from b *)
Fixpoint span (p : Z -> bool) (l : list Z) : nat :=
  match l with
  | [] => O
  | x :: t => if p x then S (span p t) else O
  end.
Definition strspn_s (a b : list Z) : nat := span (fun c => mem c b) a.
Definition strcspn_s (a b : list Z) : nat := span (fun c => negb (mem c b)) a.
(* 7.24.5.4: first occurrence in a of any character from b, else null *)
Definition strpbrk_s (a b : list Z) : option nat := find_first (fun c => mem c b) a.

(* 7.24.5.7: first occurrence in h of the sequence n; n empty -> h itself *)
Fixpoint is_prefix (n h : list Z) : bool :=
  match n, h with
  | [], _ => true
  | _ :: _, [] => false
  | x :: n', y :: h' => (x =? y) && is_prefix n' h'
  end.
Fixpoint strstr_s (h n : list Z) : option nat :=
  if is_prefix n h then Some O
  else match h with
       | [] => None
       | _ :: h' => option_map S (strstr_s h' n)
       end.

(* a writer stores [new] at the start of the destination region and leaves the rest as it was (the frame) *)
Definition overwrite (d new : list Z) : list Z := new ++ skipn (length new) d.

Definition strcpy_s (d a : list Z) : list Z := overwrite d (a ++ [0]).                 (* 7.24.2.3 *)
(* 7.24.2.4: not more than n characters, those following a null are not copied; if shorter than n,
   null characters are appended until n characters in all have been written *)
Definition strncpy_s (d A : list Z) (n : nat) : list Z :=
  let a := upto_nul_excl n A in overwrite d (a ++ repeat 0 (n - length a)).
(* 7.24.3.1: appends a copy of b (including the null) to the end of the string a held in d *)
Definition strcat_s (d a b : list Z) : list Z := overwrite d (a ++ b ++ [0]).
(* 7.24.3.2: not more than n characters of B (a null and what follows are not appended), then a null *)
Definition strncat_s (d a B : list Z) (n : nat) : list Z := overwrite d (a ++ upto_nul_excl n B ++ [0]).
Definition memcpy_s (d A : list Z) (n : nat) : list Z := overwrite d (firstn n A).     (* 7.24.2.1 *)
Definition memset_s (d : list Z) (c : Z) (n : nat) : list Z := overwrite d (repeat c n). (* 7.24.6.1, c converted *)
(* 7.24.2.2: as if the n source elements were first copied to a temporary array; inside one allocation m *)
Definition memmove_s (m : list Z) (d s n : nat) : list Z :=
  firstn d m ++ firstn n (skipn s m) ++ skipn (d + n) m.

(** * 7.22.6.2 div: quot = algebraic quotient with the fractional part discarded, quot * denom + rem = numer *)
Definition div_s (x y : Z) : Z * Z :=
  let q := Z.sgn x * Z.sgn y * (Z.abs x / Z.abs y) in (q, x - q * y).

(** * 7.30.2 wide character classification: each iswX corresponds to isX on the characters of the basic
   set; in the "C" locale no other wide character belongs to any class (beyond the basic set this is
   implementation-defined: the choice written here is glibc's, validated on the tested range), and WEOF
   (0xFFFFFFFF) belongs to none.  The wide specifications are therefore the narrow tables applied to the
   wint_t value. *)

(* 7.24.5.2 etc.: "c (converted to a char)", in the unsigned-byte representation of narrow characters *)
Definition conv_char (wide : bool) (c : Z) : Z := if wide then c else c mod 256.

(** * The library's own entry contract for null pointers (NOT ISO C, where a null argument is undefined behaviour):
   etl::strcpy, strncpy, wcscpy, wcsncpy, strchr and memmove document `TETL_PRECONDITION(ptr != nullptr)` for each
   pointer argument, so with contract checks enabled a null argument must end in the contract handler; strrchr /
   wcsrchr instead define the result for a null string: a null pointer (pinned by tests/cstring). *)
Definition precondition_violated (is_null : list bool) : bool := existsb (fun b => b) is_null.
Definition strrchr_null_s : option nat := None.
