(* C18, translator tie: the definitions REGENERATED on every run from /repo's current cctype.hpp / cwctype.hpp by
   translate/cxx2gallina.py (coq/Gen/Gen_cctype.v, Gen_cwctype.v: clang's typed AST, every implicit conversion
   copied from it) are equal, for ALL arguments, to the hand-written model the property theorems are about.
   A semantic edit of a C++ kernel changes the generated term and breaks these proofs; ./check then searches
   for a failing input. *)
From Tetl Require Import Lib.Base C18.Model.
From Tetl Require Gen.Gen_cctype Gen.Gen_cwctype.
From Coq Require Import ZifyBool.
Local Open Scope Z_scope.
Ltac Zify.zify_post_hook ::= Z.to_euclidean_division_equations.

(* Proofs are semantic where possible: first try conversion (the generated term usually IS the model term), otherwise
   decide the boolean structure by case analysis + linear arithmetic, so that a harmless rewrite of a kernel
   (reordered tests, `not (c < lo)` for `c >= lo`, an equivalent range split) still re-proves. *)
Ltac solve_bool :=
  repeat match goal with |- context [if ?b then _ else _] => destruct b eqn:? end; lia.
Ltac cls G M := intros c; unfold G, M, b2z, between; cbv zeta; first [reflexivity | f_equal; solve_bool].
Ltac cls_lia G M := intros c; unfold G, M, b2z, between; cbv zeta; f_equal; solve_bool.

Module C := Gen_cctype.
Module W := Gen_cwctype.

Theorem gen_isdigit_eq : forall c, C.isdigit_g c = Some (isdigit_m c).   Proof. cls C.isdigit_g isdigit_m. Qed.
Theorem gen_islower_eq : forall c, C.islower_g c = Some (islower_m c).   Proof. cls C.islower_g islower_m. Qed.
Theorem gen_isupper_eq : forall c, C.isupper_g c = Some (isupper_m c).   Proof. cls C.isupper_g isupper_m. Qed.
Theorem gen_isalpha_eq : forall c, C.isalpha_g c = Some (isalpha_m c).   Proof. cls C.isalpha_g isalpha_m. Qed.
Theorem gen_isalnum_eq : forall c, C.isalnum_g c = Some (isalnum_m c).   Proof. cls C.isalnum_g isalnum_m. Qed.
Theorem gen_isblank_eq : forall c, C.isblank_g c = Some (isblank_m c).   Proof. cls C.isblank_g isblank_m. Qed.
Theorem gen_iscntrl_eq : forall c, C.iscntrl_g c = Some (iscntrl_m c).   Proof. cls C.iscntrl_g iscntrl_m. Qed.
Theorem gen_ispunct_eq : forall c, C.ispunct_g c = Some (ispunct_m c).   Proof. cls C.ispunct_g ispunct_m. Qed.
Theorem gen_isspace_eq : forall c, C.isspace_g c = Some (isspace_m c).   Proof. cls C.isspace_g isspace_m. Qed.
Theorem gen_isxdigit_eq : forall c, C.isxdigit_g c = Some (isxdigit_m c). Proof. cls C.isxdigit_g isxdigit_m. Qed.

Theorem gen_isgraph_eq : forall c, C.isgraph_g c = Some (isgraph_m c).
Proof.
  intros c. unfold C.isgraph_g.
  repeat (first [rewrite gen_isdigit_eq | rewrite gen_isupper_eq | rewrite gen_islower_eq | rewrite gen_ispunct_eq
                | rewrite gen_isalpha_eq | rewrite gen_isalnum_eq ]; cbn [obind]).
  cbv zeta. unfold isgraph_m.
  first [ reflexivity
        | f_equal; unfold isdigit_m, isupper_m, islower_m, ispunct_m, isalpha_m, isalnum_m, b2z, between; solve_bool ].
Qed.

Theorem gen_isprint_eq : forall c, C.isprint_g c = Some (isprint_m c).
Proof.
  intros c. unfold C.isprint_g. rewrite gen_isgraph_eq. cbn [obind]. cbv zeta.
  first [ reflexivity | unfold isprint_m, b2z; f_equal; solve_bool ].
Qed.

Lemma chk_i32_small : forall x, -2147483648 <= x <= 2147483647 -> chk i32 x = Some x.
Proof.
  intros x H. unfold chk, in_ty. replace (imin i32) with (-2147483648) by reflexivity.
  replace (imax i32) with 2147483647 by reflexivity.
  destruct ((-2147483648 <=? x) && (x <=? 2147483647)) eqn:E; [reflexivity | lia].
Qed.

Lemma isupper_range : forall c, negb (isupper_m c =? 0) = true -> 65 <= c <= 90.
Proof. intros c. unfold isupper_m, b2z, between. destruct ((c >=? 65) && (c <=? 90)) eqn:B; cbn; [lia | discriminate]. Qed.
Lemma islower_range : forall c, negb (islower_m c =? 0) = true -> 97 <= c <= 122.
Proof. intros c. unfold islower_m, b2z, between. destruct ((c >=? 97) && (c <=? 122)) eqn:B; cbn; [lia | discriminate]. Qed.

(* semantic fallback: on the taken branch the argument is a letter, so every checked int operation of the generated
   term is in range and the arithmetic is compared by lia (e.g. `ch + ('a' - 'A')` instead of `ch + 32`) *)
Theorem gen_tolower_eq : forall c, C.tolower_g c = tolower_m c.
Proof.
  intros c. unfold C.tolower_g, tolower_m. repeat (first [rewrite gen_isupper_eq | rewrite gen_islower_eq]; cbn [obind]).
  first [ destruct (negb (isupper_m c =? 0)); [destruct (chk i32 (c + 32)); reflexivity | reflexivity]
        | destruct (negb (isupper_m c =? 0)) eqn:E; [|reflexivity]; apply isupper_range in E;
          repeat (rewrite chk_i32_small by lia; cbn [obind]); f_equal; lia ].
Qed.

Theorem gen_toupper_eq : forall c, C.toupper_g c = toupper_m c.
Proof.
  intros c. unfold C.toupper_g, toupper_m. repeat (first [rewrite gen_isupper_eq | rewrite gen_islower_eq]; cbn [obind]).
  first [ destruct (negb (islower_m c =? 0)); [destruct (chk i32 (c - 32)); reflexivity | reflexivity]
        | destruct (negb (islower_m c =? 0)) eqn:E; [|reflexivity]; apply islower_range in E;
          repeat (rewrite chk_i32_small by lia; cbn [obind]); f_equal; lia ].
Qed.

(* wide versions (wint_t = unsigned int) *)
Theorem gen_iswdigit_eq : forall c, W.iswdigit_g c = Some (iswdigit_m c).   Proof. cls W.iswdigit_g iswdigit_m. Qed.
Theorem gen_iswlower_eq : forall c, W.iswlower_g c = Some (iswlower_m c).   Proof. cls W.iswlower_g iswlower_m. Qed.
Theorem gen_iswupper_eq : forall c, W.iswupper_g c = Some (iswupper_m c).   Proof. cls W.iswupper_g iswupper_m. Qed.
Theorem gen_iswalpha_eq : forall c, W.iswalpha_g c = Some (iswalpha_m c).   Proof. cls W.iswalpha_g iswalpha_m. Qed.
Theorem gen_iswalnum_eq : forall c, W.iswalnum_g c = Some (iswalnum_m c).   Proof. cls W.iswalnum_g iswalnum_m. Qed.
Theorem gen_iswblank_eq : forall c, W.iswblank_g c = Some (iswblank_m c).   Proof. cls W.iswblank_g iswblank_m. Qed.
Theorem gen_iswcntrl_eq : forall c, W.iswcntrl_g c = Some (iswcntrl_m c).   Proof. cls W.iswcntrl_g iswcntrl_m. Qed.
Theorem gen_iswpunct_eq : forall c, W.iswpunct_g c = Some (iswpunct_m c).   Proof. cls W.iswpunct_g iswpunct_m. Qed.
Theorem gen_iswspace_eq : forall c, W.iswspace_g c = Some (iswspace_m c).   Proof. cls W.iswspace_g iswspace_m. Qed.
Theorem gen_iswxdigit_eq : forall c, W.iswxdigit_g c = Some (iswxdigit_m c). Proof. cls W.iswxdigit_g iswxdigit_m. Qed.

Theorem gen_iswgraph_eq : forall c, W.iswgraph_g c = Some (iswgraph_m c).
Proof.
  intros c. unfold W.iswgraph_g.
  repeat (first [rewrite gen_iswdigit_eq | rewrite gen_iswupper_eq | rewrite gen_iswlower_eq | rewrite gen_iswpunct_eq
                | rewrite gen_iswalpha_eq | rewrite gen_iswalnum_eq ]; cbn [obind]).
  cbv zeta. unfold iswgraph_m.
  first [ reflexivity
        | f_equal; unfold iswdigit_m, iswupper_m, iswlower_m, iswpunct_m, iswalpha_m, iswalnum_m, b2z, between; solve_bool ].
Qed.

Theorem gen_iswprint_eq : forall c, W.iswprint_g c = Some (iswprint_m c).
Proof.
  intros c. unfold W.iswprint_g. rewrite gen_iswgraph_eq. cbn [obind]. cbv zeta.
  first [ reflexivity | unfold iswprint_m, b2z; f_equal; solve_bool ].
Qed.

Lemma iswupper_range : forall c, negb (iswupper_m c =? 0) = true -> 65 <= c <= 90.
Proof. intros c. unfold iswupper_m, b2z, between. destruct ((c >=? 65) && (c <=? 90)) eqn:B; cbn; [lia | discriminate]. Qed.
Lemma iswlower_range : forall c, negb (iswlower_m c =? 0) = true -> 97 <= c <= 122.
Proof. intros c. unfold iswlower_m, b2z, between. destruct ((c >=? 97) && (c <=? 122)) eqn:B; cbn; [lia | discriminate]. Qed.

Ltac wrap_arith :=
  unfold wrap_ty, wrapu, u32; cbn [sgn bits]; change (2 ^ 32) with 4294967296; f_equal; lia.

Theorem gen_towlower_eq : forall c, W.towlower_g c = Some (towlower_m c).
Proof.
  intros c. unfold W.towlower_g, towlower_m. repeat (first [rewrite gen_iswupper_eq | rewrite gen_iswlower_eq]; cbn [obind]).
  first [ destruct (negb (iswupper_m c =? 0)); reflexivity
        | destruct (negb (iswupper_m c =? 0)) eqn:E; [|reflexivity]; apply iswupper_range in E; wrap_arith ].
Qed.

Theorem gen_towupper_eq : forall c, W.towupper_g c = Some (towupper_m c).
Proof.
  intros c. unfold W.towupper_g, towupper_m. repeat (first [rewrite gen_iswupper_eq | rewrite gen_iswlower_eq]; cbn [obind]).
  first [ destruct (negb (iswlower_m c =? 0)); reflexivity
        | destruct (negb (iswlower_m c =? 0)) eqn:E; [|reflexivity]; apply iswlower_range in E; wrap_arith ].
Qed.
