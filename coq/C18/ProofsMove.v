(* C18 proofs, part 4: memmove/wmemmove inside one allocation, for EVERY placement of destination and
   source (all overlaps), any length: the result is "as if copied through a temporary" (C17 7.24.2.2)
   and every element outside [d, d+n) keeps its value. *)
From Tetl Require Import Lib.Base C18.Model C18.Spec C18.ProofsWrite.
From Coq Require Import ZifyBool.
Local Open Scope Z_scope.
Ltac Zify.zify_post_hook ::= Z.to_euclidean_division_equations.

(* element-wise description of "copy n elements from s to d" *)
Definition moved (m : list Z) (d s n : nat) (m' : list Z) : Prop :=
  length m' = length m /\
  forall i, nth_error m' i =
            if ((d <=? i) && (i <? d + n))%nat then nth_error m (s + (i - d)) else nth_error m i.

Lemma nth_error_ext : forall (l1 l2 : list Z), (forall i, nth_error l1 i = nth_error l2 i) -> l1 = l2.
Proof.
  induction l1 as [|x l1 IH]; intros l2 H.
  - destruct l2 as [|y l2]; [reflexivity|]. specialize (H O). discriminate.
  - destruct l2 as [|y l2]; [specialize (H O); discriminate|].
    pose proof (H O) as H0. cbn in H0. inversion H0; subst. f_equal. apply IH. intros i. apply (H (S i)).
Qed.

Lemma moved_unique : forall m d s n m1 m2, moved m d s n m1 -> moved m d s n m2 -> m1 = m2.
Proof.
  intros m d s n m1 m2 [_ H1] [_ H2]. apply nth_error_ext. intros i. rewrite H1, H2. reflexivity.
Qed.

Lemma nth_error_firstn_lt : forall (n : nat) (l : list Z) i, (i < n)%nat -> nth_error (firstn n l) i = nth_error l i.
Proof.
  induction n as [|n IH]; intros l i H; [lia|].
  destruct l as [|x l]; [reflexivity|]. destruct i as [|i]; [reflexivity|]. cbn [firstn nth_error]. apply IH. lia.
Qed.

(* the specification has that element-wise description *)
Lemma memmove_s_moved : forall m d s n, (d + n <= length m)%nat -> (s + n <= length m)%nat ->
  moved m d s n (memmove_s m d s n).
Proof.
  intros m d s n Hd Hs. unfold memmove_s, moved. split.
  - rewrite !app_length, !firstn_length, !skipn_length. lia.
  - intros i. destruct ((d <=? i) && (i <? d + n))%nat eqn:E.
    + rewrite nth_error_app2 by (rewrite firstn_length; lia). rewrite firstn_length.
      replace (Nat.min d (length m)) with d by lia.
      rewrite nth_error_app1 by (rewrite firstn_length, skipn_length; lia).
      rewrite nth_error_firstn_lt by lia. apply nth_error_skipn_add.
    + destruct (i <? d)%nat eqn:E2.
      * rewrite nth_error_app1 by (rewrite firstn_length; lia). apply nth_error_firstn_lt. lia.
      * rewrite nth_error_app2 by (rewrite firstn_length; lia). rewrite firstn_length.
        replace (Nat.min d (length m)) with d by lia.
        rewrite nth_error_app2 by (rewrite firstn_length, skipn_length; lia).
        rewrite firstn_length, skipn_length. replace (Nat.min n (length m - s)) with n by lia.
        rewrite nth_error_skipn_add. f_equal. lia.
Qed.

(* one store *)
Lemma wr_ok : forall m i v, (i < length m)%nat ->
  exists m1, wr m i v = Ok m1 /\ length m1 = length m /\
             forall j, nth_error m1 j = if (j =? i)%nat then Some v else nth_error m j.
Proof.
  intros m i v H. unfold wr. destruct (i <? length m)%nat eqn:E; [|lia].
  eexists. split; [reflexivity|]. split.
  - rewrite app_length. cbn [length]. rewrite firstn_length, skipn_length. lia.
  - intros j. destruct (j =? i)%nat eqn:Ej.
    + assert (j = i) by lia. subst j. rewrite nth_error_app2 by (rewrite firstn_length; lia).
      rewrite firstn_length. replace (i - Nat.min i (length m))%nat with O by lia. reflexivity.
    + destruct (j <? i)%nat eqn:E2.
      * rewrite nth_error_app1 by (rewrite firstn_length; lia). apply nth_error_firstn_lt. lia.
      * rewrite nth_error_app2 by (rewrite firstn_length; lia). rewrite firstn_length.
        replace (j - Nat.min i (length m))%nat with (S (j - S i)) by lia. cbn [nth_error].
        rewrite nth_error_skipn_add. f_equal. lia.
Qed.

Lemma rd_ok : forall m i, (i < length m)%nat -> exists v, rd m i = Ok v /\ nth_error m i = Some v.
Proof.
  intros m i H. unfold rd. destruct (nth_error m i) as [v|] eqn:E.
  - exists v. split; reflexivity.
  - apply nth_error_None in E. lia.
Qed.

(* forward copy is right when the destination does not start behind the source *)
Lemma mm_fwd_ok : forall n m d s, (d <= s)%nat -> (s + n <= length m)%nat ->
  exists m', mm_fwd m d s n = Ok m' /\ moved m d s n m'.
Proof.
  induction n as [|n IH]; intros m d s Hds Hs.
  - exists m. split; [reflexivity|]. split; [reflexivity|]. intros i.
    destruct ((d <=? i) && (i <? d + 0))%nat eqn:E; [lia | reflexivity].
  - destruct (rd_ok m s) as [v [Hr Hv]]; [lia|].
    destruct (wr_ok m d v) as [m1 [Hw [Hl1 Hn1]]]; [lia|].
    destruct (IH m1 (S d) (S s)) as [m' [Hrun [Hl' Hn']]]; [lia | lia |].
    exists m'. cbn [mm_fwd]. rewrite Hr. cbn [rbind]. rewrite Hw. cbn [rbind]. split; [assumption|].
    split; [lia|]. intros i. rewrite Hn'.
    destruct ((S d <=? i) && (i <? S d + n))%nat eqn:E.
    + rewrite Hn1. destruct (S s + (i - S d) =? d)%nat eqn:E2; [lia|].
      destruct ((d <=? i) && (i <? d + S n))%nat eqn:E3; [|lia]. f_equal. lia.
    + rewrite Hn1. destruct (i =? d)%nat eqn:E2.
      * assert (i = d) by lia. subst i.
        destruct ((d <=? d) && (d <? d + S n))%nat eqn:E3; [|lia].
        rewrite Nat.sub_diag, Nat.add_0_r. symmetry. assumption.
      * destruct ((d <=? i) && (i <? d + S n))%nat eqn:E3; [lia | reflexivity].
Qed.

(* backward copy is right when the source starts before the destination *)
Lemma mm_bwd_ok : forall n m d s, (s < d)%nat -> (d + n <= length m)%nat ->
  exists m', mm_bwd m d s n = Ok m' /\ moved m d s n m'.
Proof.
  induction n as [|n IH]; intros m d s Hsd Hd.
  - exists m. split; [reflexivity|]. split; [reflexivity|]. intros i.
    destruct ((d <=? i) && (i <? d + 0))%nat eqn:E; [lia | reflexivity].
  - destruct (rd_ok m (s + n)) as [v [Hr Hv]]; [lia|].
    destruct (wr_ok m (d + n) v) as [m1 [Hw [Hl1 Hn1]]]; [lia|].
    destruct (IH m1 d s) as [m' [Hrun [Hl' Hn']]]; [lia | lia |].
    exists m'. cbn [mm_bwd]. rewrite Hr. cbn [rbind]. rewrite Hw. cbn [rbind]. split; [assumption|].
    split; [lia|]. intros i. rewrite Hn'.
    destruct ((d <=? i) && (i <? d + n))%nat eqn:E.
    + rewrite Hn1. destruct (s + (i - d) =? d + n)%nat eqn:E2; [lia|].
      destruct ((d <=? i) && (i <? d + S n))%nat eqn:E3; [reflexivity | lia].
    + rewrite Hn1. destruct (i =? d + n)%nat eqn:E2.
      * assert (i = (d + n)%nat) by lia. subst i.
        destruct ((d <=? d + n) && (d + n <? d + S n))%nat eqn:E3; [|lia].
        replace (s + (d + n - d))%nat with (s + n)%nat by lia. symmetry. assumption.
      * destruct ((d <=? i) && (i <? d + S n))%nat eqn:E3; [lia | reflexivity].
Qed.

Theorem memmove_ok : forall m d s n, (d + n <= length m)%nat -> (s + n <= length m)%nat ->
  memmove_m m d s n = Ok (memmove_s m d s n).
Proof.
  intros m d s n Hd Hs. unfold memmove_m. destruct (s <? d)%nat eqn:E.
  - destruct (mm_bwd_ok n m d s) as [m' [Hrun Hm]]; [lia | lia |].
    rewrite Hrun. f_equal. eapply moved_unique; [eassumption|]. apply memmove_s_moved; assumption.
  - destruct (mm_fwd_ok n m d s) as [m' [Hrun Hm]]; [lia | lia |].
    rewrite Hrun. f_equal. eapply moved_unique; [eassumption|]. apply memmove_s_moved; assumption.
Qed.

(* the frame and the payload of the specification, spelled out *)
Theorem memmove_s_elements : forall m d s n, (d + n <= length m)%nat -> (s + n <= length m)%nat ->
  length (memmove_s m d s n) = length m /\
  (forall i, (i < n)%nat -> nth_error (memmove_s m d s n) (d + i) = nth_error m (s + i)) /\
  (forall i, (i < d \/ d + n <= i)%nat -> nth_error (memmove_s m d s n) i = nth_error m i).
Proof.
  intros m d s n Hd Hs. destruct (memmove_s_moved m d s n Hd Hs) as [Hl Hn]. split; [assumption|]. split.
  - intros i Hi. rewrite Hn. destruct ((d <=? d + i) && (d + i <? d + n))%nat eqn:E; [|lia]. f_equal. lia.
  - intros i Hi. rewrite Hn. destruct ((d <=? i) && (i <? d + n))%nat eqn:E; [lia | reflexivity].
Qed.
