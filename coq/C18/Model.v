(* C18 model: executable mirror of
     include/etl/_strings/cstr.hpp          (the generic templates behind <cstring> and <cwchar>)
     include/etl/_cstring/*.hpp, _cwchar/*.hpp (the front ends, GCC branch: the portable templates)
     include/etl/_cctype/*.hpp, _cwctype/*.hpp
     include/etl/_cstdlib/{div,labs,llabs}.hpp  (+ detail::abs_impl of _math/abs.hpp)

   Conventions.
   * A pointer into an array is modelled by the list of the elements from the pointer to the END OF ITS
     ALLOCATION.  Dereferencing at the empty list is an access outside the allocation: [UB OutOfBounds].
     `++p` is the tail.  So every model function is checked: it returns [Ok] only if the code stays
     inside the buffers it was given.
   * A narrow character (char) is represented by its byte value 0..255, i.e. by static_cast<unsigned char>(c);
     the code only copies chars, tests them for equality and (cstr_compare) converts them to unsigned char,
     all of which commute with that representation.  A wide character (wchar_t) is its signed 32-bit value.
   * [cty] selects the instantiation: Narrow = char / unsigned char front ends, Wide = wchar_t front ends.
   * Writers return the new contents of the destination region (from the destination pointer to the end
     of the allocation); the returned pointer is always the destination argument itself (the code returns
     the saved `temp`/`dest`).
   * memmove works inside ONE allocation (list) with destination and source offsets, so that every overlap
     is expressible; its copy direction is chosen by comparing the two pointers (offsets), as in the code.
   * counts and lengths are [nat]; values are [Z]. *)
From Tetl Require Import Lib.Base.
Local Open Scope Z_scope.

Inductive cty := Narrow | Wide.

Definition oob {A} : res A := UB OutOfBounds.

(* static_cast<CharT>(int ch): char keeps the low byte (in the byte representation), wchar_t is int-sized *)
Definition cast_ch (ct : cty) (ch : Z) : Z :=
  match ct with Narrow => wrapu 8 ch | Wide => ch end.

(* detail::cstr_compare<CharT>(lhs, rhs): narrow characters as unsigned char, wide by value; -1, 0 or 1 *)
Definition cstr_compare_m (ct : cty) (a b : Z) : Z :=
  let l := cast_ch ct a in
  let r := cast_ch ct b in
  (if l >? r then 1 else 0) - (if l <? r then 1 else 0).

(* checked element read p[i] *)
Definition rd (p : list Z) (i : nat) : res Z :=
  match nth_error p i with Some v => Ok v | None => oob end.

Definition rmap {A B} (f : A -> B) (r : res A) : res B := rbind r (fun a => Ok (f a)).

(** * Read-only string functions *)

(* detail::strlen: for (s = str; *s != 0; ++s) {} return s - str *)
Fixpoint strlen_m (s : list Z) : res nat :=
  match s with
  | [] => oob
  | c :: t => if c =? 0 then Ok O else
      match strlen_m t with Ok n => Ok (S n) | e => e end
  end.

(* detail::strcmp: for (; *lhs != 0; ++lhs, ++rhs) if ( *lhs != *rhs) break;  return cstr_compare( *lhs, *rhs) *)
Fixpoint strcmp_m (ct : cty) (l r : list Z) : res Z :=
  match l with
  | [] => oob
  | a :: l' =>
    match r with
    | [] => oob
    | b :: r' =>
      if a =? 0 then Ok (cstr_compare_m ct a b)
      else if negb (a =? b) then Ok (cstr_compare_m ct a b)
      else strcmp_m ct l' r'
    end
  end.

(* detail::strncmp: while (count-- > 0) { u1 = *lhs++; u2 = *rhs++; if (u1 != u2) return cstr_compare(u1, u2);
                                          if (u1 == 0) return 0; }  return 0 *)
Fixpoint strncmp_m (ct : cty) (l r : list Z) (n : nat) {struct n} : res Z :=
  match n with
  | O => Ok 0
  | S n' =>
    match l with
    | [] => oob
    | a :: l' =>
      match r with
      | [] => oob
      | b :: r' =>
        if negb (a =? b) then Ok (cstr_compare_m ct a b)
        else if a =? 0 then Ok 0
        else strncmp_m ct l' r' n'
      end
    end
  end.

(* detail::memcmp: for (i = 0; i != count; ++i) if (lhs[i] != rhs[i]) return cstr_compare(lhs[i], rhs[i]);  return 0 *)
Fixpoint memcmp_m (ct : cty) (l r : list Z) (n : nat) {struct n} : res Z :=
  match n with
  | O => Ok 0
  | S n' =>
    match l with
    | [] => oob
    | a :: l' =>
      match r with
      | [] => oob
      | b :: r' => if negb (a =? b) then Ok (cstr_compare_m ct a b) else memcmp_m ct l' r' n'
      end
    end
  end.

(* detail::strchr: while ( *str != 0) { if ( *str == (CharT)ch) return str; ++str; }
                   if ((CharT)ch == 0) return str;  return nullptr        (None = null pointer) *)
Fixpoint strchr_m (ct : cty) (s : list Z) (ch : Z) : res (option nat) :=
  match s with
  | [] => oob
  | c :: t =>
    if c =? 0 then Ok (if cast_ch ct ch =? 0 then Some O else None)
    else if c =? cast_ch ct ch then Ok (Some O)
    else match strchr_m ct t ch with Ok r => Ok (option_map S r) | e => e end
  end.

(* detail::strrchr: len = strlen(str); if ((CharT)ch == 0) return str + len;
                    while (len-- != 0) if (str[len] == (CharT)ch) return str + len;  return nullptr *)
Fixpoint rscan_m (s : list Z) (c : Z) (len : nat) : res (option nat) :=
  match len with
  | O => Ok None
  | S k => rbind (rd s k) (fun x => if x =? c then Ok (Some k) else rscan_m s c k)
  end.

Definition strrchr_m (ct : cty) (s : list Z) (ch : Z) : res (option nat) :=
  rbind (strlen_m s) (fun len =>
    if cast_ch ct ch =? 0 then Ok (Some len) else rscan_m s (cast_ch ct ch) len).

(* detail::memchr: for (i = 0; i != n; ++i) if (ptr[i] == ch) return ptr + i;  return nullptr.
   The narrow front end passes static_cast<unsigned char>(ch); wmemchr passes the wchar_t itself. *)
Fixpoint memchr_loop (p : list Z) (c : Z) (n : nat) {struct n} : res (option nat) :=
  match n with
  | O => Ok None
  | S n' =>
    match p with
    | [] => oob
    | x :: p' => if x =? c then Ok (Some O)
                 else match memchr_loop p' c n' with Ok r => Ok (option_map S r) | e => e end
    end
  end.
Definition memchr_m (ct : cty) (p : list Z) (ch : Z) (n : nat) : res (option nat) :=
  memchr_loop p (cast_ch ct ch) n.

(* detail::is_legal_char<InclusiveSearch>: for (i = 0; i < len; ++i) if (options[i] == ch) return Inclusive;
                                           return !Inclusive *)
Fixpoint is_legal_char_m (incl : bool) (opts : list Z) (len : nat) (ch : Z) {struct len} : res bool :=
  match len with
  | O => Ok (negb incl)
  | S k =>
    match opts with
    | [] => oob
    | o :: t => if o =? ch then Ok incl else is_legal_char_m incl t k ch
    end
  end.

(* detail::strspn<InclusiveSearch> (true: strspn, false: strcspn):
     length = strlen(dest); srcLen = strlen(src);
     for (i = 0; i < length; ++i) { if (!is_legal_char(src, srcLen, dest[i])) break; ++result; } *)
Fixpoint spn_loop (incl : bool) (d : list Z) (length : nat) (src : list Z) (srcLen : nat) {struct length} : res nat :=
  match length with
  | O => Ok O
  | S k =>
    match d with
    | [] => oob
    | c :: t =>
      match is_legal_char_m incl src srcLen c with
      | Ok true => match spn_loop incl t k src srcLen with Ok r => Ok (S r) | e => e end
      | Ok false => Ok O
      | UB u => UB u
      | Contract => Contract
      | OutOfFuel => OutOfFuel
      end
    end
  end.

Definition strspn_m (incl : bool) (d src : list Z) : res nat :=
  rbind (strlen_m d) (fun length =>
  rbind (strlen_m src) (fun srcLen => spn_loop incl d length src srcLen)).

(* detail::strpbrk_impl: i = strcspn(s, del); if (s[i] != 0) return s + i;  return nullptr *)
Definition strpbrk_m (s del : list Z) : res (option nat) :=
  rbind (strspn_m false s del) (fun i =>
  rbind (rd s i) (fun c => Ok (if c =? 0 then None else Some i))).

(* detail::strstr_impl:
     for (;; ++haystack) { h = haystack; n = needle;
        while ( *n != 0 && *h == *n) { ++h; ++n; }
        if ( *n == 0) return haystack;
        if ( *h == 0) return nullptr; } *)
Inductive pm := PMatch | PEnd | PMismatch.

Fixpoint prefix_m (h n : list Z) {struct n} : res pm :=
  match n with
  | [] => oob
  | b :: n' =>
    if b =? 0 then Ok PMatch
    else match h with
         | [] => oob
         | a :: h' => if a =? b then prefix_m h' n'
                      else Ok (if a =? 0 then PEnd else PMismatch)
         end
  end.

Fixpoint strstr_m (h n : list Z) : res (option nat) :=
  match prefix_m h n with
  | Ok PMatch => Ok (Some O)
  | Ok PEnd => Ok None
  | Ok PMismatch =>
    match h with
    | [] => oob
    | _ :: h' => match strstr_m h' n with Ok r => Ok (option_map S r) | e => e end
    end
  | UB u => UB u
  | Contract => Contract
  | OutOfFuel => OutOfFuel
  end.

(** * Writers: the result is the new contents of the destination region *)

(* detail::strcpy: while (( *dest++ = *src++) != 0) {} *)
Fixpoint strcpy_m (d s : list Z) : res (list Z) :=
  match s with
  | [] => oob
  | c :: s' =>
    match d with
    | [] => oob
    | _ :: d' => if c =? 0 then Ok (c :: d')
                 else match strcpy_m d' s' with Ok r => Ok (c :: r) | e => e end
    end
  end.

(* second loop of detail::strncpy: for (; counter != count; ++counter) *dest++ = 0 *)
Fixpoint pad_m (d : list Z) (k : nat) {struct k} : res (list Z) :=
  match k with
  | O => Ok d
  | S k' =>
    match d with
    | [] => oob
    | _ :: d' => match pad_m d' k' with Ok r => Ok (0 :: r) | e => e end
    end
  end.

(* detail::strncpy: for (; counter != count and *src != 0;) { *dest++ = *src++; ++counter; }  then the padding loop.
   n = count - counter *)
Fixpoint strncpy_m (d s : list Z) (n : nat) {struct n} : res (list Z) :=
  match n with
  | O => Ok d
  | S n' =>
    match s with
    | [] => oob
    | c :: s' =>
      if c =? 0 then pad_m d n
      else match d with
           | [] => oob
           | _ :: d' => match strncpy_m d' s' n' with Ok r => Ok (c :: r) | e => e end
           end
    end
  end.

(* *ptr = 0 *)
Definition term_m (d : list Z) : res (list Z) :=
  match d with [] => oob | _ :: d' => Ok (0 :: d') end.

(* loop of detail::strcat: while ( *src != 0) *ptr++ = *src++;  *ptr = 0 *)
Fixpoint append_m (d s : list Z) : res (list Z) :=
  match s with
  | [] => oob
  | c :: s' =>
    if c =? 0 then term_m d
    else match d with
         | [] => oob
         | _ :: d' => match append_m d' s' with Ok r => Ok (c :: r) | e => e end
         end
  end.

(* detail::strcat: ptr = dest + strlen(dest); ... *)
Definition strcat_m (d s : list Z) : res (list Z) :=
  rbind (strlen_m d) (fun len => rmap (app (firstn len d)) (append_m (skipn len d) s)).

(* loop of detail::strncat: while (localCounter != count && *src != 0) { *ptr++ = *src++; ++localCounter; }  *ptr = 0 *)
Fixpoint nappend_m (d s : list Z) (n : nat) {struct n} : res (list Z) :=
  match n with
  | O => term_m d
  | S n' =>
    match s with
    | [] => oob
    | c :: s' =>
      if c =? 0 then term_m d
      else match d with
           | [] => oob
           | _ :: d' => match nappend_m d' s' n' with Ok r => Ok (c :: r) | e => e end
           end
    end
  end.

Definition strncat_m (d s : list Z) (n : nat) : res (list Z) :=
  rbind (strlen_m d) (fun len => rmap (app (firstn len d)) (nappend_m (skipn len d) s n)).

(* detail::memcpy: while (n-- != 0) *dp++ = *sp++;   also the loop of the repaired wmemcpy (dest[i] = src[i]) *)
Fixpoint memcpy_m (d s : list Z) (n : nat) {struct n} : res (list Z) :=
  match n with
  | O => Ok d
  | S n' =>
    match s with
    | [] => oob
    | c :: s' =>
      match d with
      | [] => oob
      | _ :: d' => match memcpy_m d' s' n' with Ok r => Ok (c :: r) | e => e end
      end
    end
  end.

(* detail::memset: while (n-- != 0) *p++ = static_cast<CharT>(c) *)
Fixpoint memset_loop (d : list Z) (v : Z) (n : nat) {struct n} : res (list Z) :=
  match n with
  | O => Ok d
  | S n' =>
    match d with
    | [] => oob
    | _ :: d' => match memset_loop d' v n' with Ok r => Ok (v :: r) | e => e end
    end
  end.
Definition memset_m (ct : cty) (d : list Z) (c : Z) (n : nat) : res (list Z) := memset_loop d (cast_ch ct c) n.

(* detail::memmove inside one allocation [m]; pd = m + d, ps = m + s.
     if (ps < pd) { for (pd += n, ps += n; n-- != 0;) *--pd = *--ps; } else { while (n-- != 0) *pd++ = *ps++; } *)
Definition wr (m : list Z) (i : nat) (v : Z) : res (list Z) :=
  if (i <? length m)%nat then Ok (firstn i m ++ v :: skipn (S i) m) else oob.

Fixpoint mm_fwd (m : list Z) (d s n : nat) : res (list Z) :=
  match n with
  | O => Ok m
  | S n' => rbind (rd m s) (fun v => rbind (wr m d v) (fun m' => mm_fwd m' (S d) (S s) n'))
  end.

Fixpoint mm_bwd (m : list Z) (d s n : nat) : res (list Z) :=
  match n with
  | O => Ok m
  | S n' => rbind (rd m (s + n')) (fun v => rbind (wr m (d + n') v) (fun m' => mm_bwd m' d s n'))
  end.

Definition memmove_m (m : list Z) (d s n : nat) : res (list Z) :=
  if (s <? d)%nat then mm_bwd m d s n else mm_fwd m d s n.

(** * <cctype>: int argument, int result (static_cast<int>(bool)) *)
Definition b2z (b : bool) : Z := if b then 1 else 0.
Definition between (lo hi c : Z) : bool := (c >=? lo) && (c <=? hi).

Definition isdigit_m (c : Z) : Z := b2z (between 48 57 c).
Definition islower_m (c : Z) : Z := b2z (between 97 122 c).
Definition isupper_m (c : Z) : Z := b2z (between 65 90 c).
Definition isalpha_m (c : Z) : Z := b2z (between 97 122 c || between 65 90 c).
Definition isalnum_m (c : Z) : Z := b2z (between 48 57 c || between 97 122 c || between 65 90 c).
Definition isblank_m (c : Z) : Z := b2z ((c =? 32) || (c =? 9)).
Definition iscntrl_m (c : Z) : Z := b2z (between 0 31 c || (c =? 127)).
Definition ispunct_m (c : Z) : Z := b2z (between 33 47 c || between 58 64 c || between 91 96 c || between 123 126 c).
Definition isgraph_m (c : Z) : Z :=
  b2z (negb (isdigit_m c =? 0) || negb (islower_m c =? 0) || negb (isupper_m c =? 0) || negb (ispunct_m c =? 0)).
Definition isprint_m (c : Z) : Z := b2z (negb (isgraph_m c =? 0) || (c =? 32)).
Definition isspace_m (c : Z) : Z := b2z ((c =? 32) || (c =? 12) || (c =? 10) || (c =? 13) || (c =? 9) || (c =? 11)).
Definition isxdigit_m (c : Z) : Z := b2z (between 48 57 c || between 97 102 c || between 65 70 c).
(* ch + 32 / ch - 32 in int: checked (None = signed overflow); it cannot happen on the taken branch *)
Definition tolower_m (c : Z) : option Z := if negb (isupper_m c =? 0) then chk i32 (c + 32) else Some c.
Definition toupper_m (c : Z) : option Z := if negb (islower_m c =? 0) then chk i32 (c - 32) else Some c.

(** * <cwctype>: wint_t (unsigned 32 bit) argument; comparisons against wchar_t literals are unsigned *)
Definition iswdigit_m (c : Z) : Z := b2z (between 48 57 c).
Definition iswlower_m (c : Z) : Z := b2z (between 97 122 c).
Definition iswupper_m (c : Z) : Z := b2z (between 65 90 c).
Definition iswalpha_m (c : Z) : Z := b2z (between 97 122 c || between 65 90 c).
Definition iswalnum_m (c : Z) : Z := b2z (between 48 57 c || between 97 122 c || between 65 90 c).
Definition iswblank_m (c : Z) : Z := b2z ((c =? 32) || (c =? 9)).
Definition iswcntrl_m (c : Z) : Z := b2z ((c <=? 31) || (c =? 127)).
Definition iswpunct_m (c : Z) : Z := b2z (between 33 47 c || between 58 64 c || between 91 96 c || between 123 126 c).
Definition iswgraph_m (c : Z) : Z :=
  b2z (negb (iswdigit_m c =? 0) || negb (iswlower_m c =? 0) || negb (iswupper_m c =? 0) || negb (iswpunct_m c =? 0)).
Definition iswprint_m (c : Z) : Z := b2z (negb (iswgraph_m c =? 0) || (c =? 32)).
Definition iswspace_m (c : Z) : Z := b2z ((c =? 32) || (c =? 12) || (c =? 10) || (c =? 13) || (c =? 9) || (c =? 11)).
Definition iswxdigit_m (c : Z) : Z := b2z (between 48 57 c || between 97 102 c || between 65 70 c).
(* ch + wint_t(32): unsigned, wraps *)
Definition towlower_m (c : Z) : Z := if negb (iswupper_m c =? 0) then wrapu 32 (c + 32) else c.
Definition towupper_m (c : Z) : Z := if negb (iswlower_m c =? 0) then wrapu 32 (c - 32) else c.

(** * <cstdlib>: div family and labs/llabs, parametric in the integer type *)
(* { .quot = x / y, .rem = x % y }: division by zero and an unrepresentable quotient are UB (None) *)
Definition div_m (t : ity) (x y : Z) : option (Z * Z) :=
  if y =? 0 then None
  else obind (chk t (Z.quot x y)) (fun q => Some (q, Z.rem x y)).

(* detail::abs_impl<T> (after fix a3c791a): if (n == T(0)) return T(0); if (n >= T(0)) return n; return n * T(-1) *)
Definition abs_m (t : ity) (n : Z) : option Z :=
  if n =? 0 then Some 0 else if n >=? 0 then Some n else chk t (n * -1).

(** * Review round (second engineer): the paths of the front ends the model did not have *)

(* A possibly-null pointer argument: [None] = nullptr, [Some l] = pointer into an allocation (as above). *)

(* etl::strcpy / etl::wcscpy: TETL_PRECONDITION(dest != nullptr); TETL_PRECONDITION(src != nullptr); detail::strcpy *)
Definition strcpy_front_m (d s : option (list Z)) : res (list Z) :=
  match d with
  | None => Contract
  | Some d' => match s with None => Contract | Some s' => strcpy_m d' s' end
  end.

(* etl::strncpy / etl::wcsncpy: the same two preconditions, then detail::strncpy *)
Definition strncpy_front_m (d s : option (list Z)) (n : nat) : res (list Z) :=
  match d with
  | None => Contract
  | Some d' => match s with None => Contract | Some s' => strncpy_m d' s' n end
  end.

(* etl::strchr (both overloads; NOT wcschr): TETL_PRECONDITION(str != nullptr); detail::strchr<char> *)
Definition strchr_front_m (s : option (list Z)) (ch : Z) : res (option nat) :=
  match s with None => Contract | Some s' => strchr_m Narrow s' ch end.

(* detail::strrchr (strrchr and wcsrchr, all four overloads): if (str == nullptr) return nullptr; ... *)
Definition strrchr_front_m (ct : cty) (s : option (list Z)) (ch : Z) : res (option nat) :=
  match s with None => Ok None | Some s' => strrchr_m ct s' ch end.

(* detail::memmove between two DIFFERENT allocations [d] (destination region) and [s] (source region): the test
   `ps < pd` compares unrelated pointers, so its outcome [below] is whatever the addresses happen to be; the two
   loops are the same as in [memmove_m], on two buffers.  (Forward loop = the loop of [memcpy_m].) *)
Fixpoint mm2_bwd (d s : list Z) (n : nat) {struct n} : res (list Z) :=
  match n with
  | O => Ok d
  | S n' => rbind (rd s n') (fun v => rbind (wr d n' v) (fun d' => mm2_bwd d' s n'))
  end.

Definition memmove2_m (below : bool) (d s : list Z) (n : nat) : res (list Z) :=
  if below then mm2_bwd d s n else memcpy_m d s n.

(* etl::memmove (narrow front end only; wmemmove has no check): the two null-pointer preconditions come first,
   even for a zero count *)
Definition memmove_front_m (below : bool) (d s : option (list Z)) (n : nat) : res (list Z) :=
  match d with
  | None => Contract
  | Some d' => match s with None => Contract | Some s' => memmove2_m below d' s' n end
  end.
