(* C18 — C-library re-implementations behave like the C library in the "C" locale.
   Property theorems only: each is closed by [exact] of a lemma proved in Proofs*.v; Print Assumptions is
   asked per group of theorems at the end of the file.  Model = coq/C18/Model.v (mirror of _strings/cstr.hpp and the front ends),
   Spec = coq/C18/Spec.v (C17 7.4, 7.22.6, 7.24, 7.29.4, 7.30.2 on lists and integers).

   Reading guide.  A string argument is a buffer [a ++ 0 :: rest] with [~ In 0 a]: [a] is the string,
   [rest] is whatever lies behind the terminator inside the allocation (possibly nothing).  The model is
   checked (an access outside a buffer is [UB OutOfBounds]), so "[= Ok (spec a ...)] for every [rest]"
   says: right result, nothing read behind the terminator, nothing accessed outside the buffers.
   A destination is the region from the destination pointer to the end of its allocation; the spec's
   [overwrite d new] is [new] followed by the untouched remainder of [d], so the equations on writers
   include the frame (see C18_overwrite_frame).  [ct] ranges over Narrow (char) and Wide (wchar_t):
   the wcs*/wmem* front ends instantiate the same templates. *)
From Tetl Require Import Lib.Base C18.Model C18.Spec C18.ProofsCtype C18.ProofsStr C18.ProofsWrite C18.ProofsMove C18.ProofsExt.
Local Open Scope Z_scope.

(** * <cctype> / <cwctype> *)
Theorem C18_cctype_classes : forall c, -1 <= c <= 255 ->
  isalnum_m c = b2z (isalnum_s c) /\ isalpha_m c = b2z (isalpha_s c) /\ isblank_m c = b2z (isblank_s c) /\
  iscntrl_m c = b2z (iscntrl_s c) /\ isdigit_m c = b2z (isdigit_s c) /\ isgraph_m c = b2z (isgraph_s c) /\
  islower_m c = b2z (islower_s c) /\ isprint_m c = b2z (isprint_s c) /\ ispunct_m c = b2z (ispunct_s c) /\
  isspace_m c = b2z (isspace_s c) /\ isupper_m c = b2z (isupper_s c) /\ isxdigit_m c = b2z (isxdigit_s c).
Proof. exact cctype_classes. Qed.

Theorem C18_cctype_conversions : forall c, -1 <= c <= 255 ->
  tolower_m c = Some (tolower_s c) /\ toupper_m c = Some (toupper_s c).
Proof. exact cctype_conversions. Qed.

(* every wint_t value, WEOF included *)
Theorem C18_cwctype_classes : forall c, 0 <= c < 4294967296 ->
  iswalnum_m c = b2z (isalnum_s c) /\ iswalpha_m c = b2z (isalpha_s c) /\ iswblank_m c = b2z (isblank_s c) /\
  iswcntrl_m c = b2z (iscntrl_s c) /\ iswdigit_m c = b2z (isdigit_s c) /\ iswgraph_m c = b2z (isgraph_s c) /\
  iswlower_m c = b2z (islower_s c) /\ iswprint_m c = b2z (isprint_s c) /\ iswpunct_m c = b2z (ispunct_s c) /\
  iswspace_m c = b2z (isspace_s c) /\ iswupper_m c = b2z (isupper_s c) /\ iswxdigit_m c = b2z (isxdigit_s c).
Proof. exact cwctype_classes. Qed.

Theorem C18_cwctype_conversions : forall c, 0 <= c < 4294967296 ->
  towlower_m c = tolower_s c /\ towupper_m c = toupper_s c.
Proof. exact cwctype_conversions. Qed.

(* sanity of the 7.4 tables themselves: control/printing partition of 0..127, print = space + graph,
   graph = alnum + punct (disjoint), nothing outside 0..127 is classified *)
Theorem C18_ctype_partition : forall c, -1 <= c <= 255 ->
  (0 <= c <= 127 -> xorb (iscntrl_s c) (isprint_s c) = true) /\
  (isprint_s c = (c =? 32) || isgraph_s c) /\
  (isgraph_s c = xorb (isalnum_s c) (ispunct_s c)) /\ (isalnum_s c && ispunct_s c = false) /\
  (c < 0 \/ c > 127 -> iscntrl_s c = false /\ isprint_s c = false /\ isspace_s c = false /\ isalnum_s c = false).
Proof. exact ctype_partition. Qed.

(** * read-only string and memory functions: all strings, any length *)
Theorem C18_strlen : forall a rest, ~ In 0 a -> strlen_m (a ++ 0 :: rest) = Ok (strlen_s a).
Proof. exact strlen_ok. Qed.

(* comparison on unsigned char values (narrow) / wchar_t values (wide); result -1, 0, 1 = the sign C requires *)
Theorem C18_strcmp : forall ct a b ra rb, ~ In 0 a -> ~ In 0 b -> chars_ok ct a -> chars_ok ct b ->
  strcmp_m ct (a ++ 0 :: ra) (b ++ 0 :: rb) = Ok (strcmp_s a b).
Proof. exact strcmp_ok. Qed.

(* source ARRAYS: a terminator among the first n elements, or at least n elements (no terminator needed) *)
Theorem C18_strncmp : forall ct n A B, array_ok n A = true -> array_ok n B = true -> chars_ok ct A -> chars_ok ct B ->
  strncmp_m ct A B n = Ok (strncmp_s A B n).
Proof. exact strncmp_ok. Qed.

Theorem C18_memcmp : forall ct n A B, (n <= length A)%nat -> (n <= length B)%nat -> chars_ok ct A -> chars_ok ct B ->
  memcmp_m ct A B n = Ok (memcmp_s A B n).
Proof. exact memcmp_ok. Qed.

(* ch is any int; it is converted to the character type (low byte for char) as 7.24.5.2 says *)
Theorem C18_strchr : forall ct a rest ch, ~ In 0 a ->
  strchr_m ct (a ++ 0 :: rest) ch = Ok (strchr_s a (conv_char (is_wide ct) ch)).
Proof. exact strchr_ok. Qed.

Theorem C18_strrchr : forall ct a rest ch, ~ In 0 a ->
  strrchr_m ct (a ++ 0 :: rest) ch = Ok (strrchr_s a (conv_char (is_wide ct) ch)).
Proof. exact strrchr_ok. Qed.

(* n may exceed the array when a match exists (the scan stops there, C11 7.24.5.1p2) *)
Theorem C18_memchr : forall ct A ch n,
  ((n <= length A)%nat \/ memchr_s A (conv_char (is_wide ct) ch) n <> None) ->
  memchr_m ct A ch n = Ok (memchr_s A (conv_char (is_wide ct) ch) n).
Proof. exact memchr_ok. Qed.

Theorem C18_strspn : forall a b ra rb, ~ In 0 a -> ~ In 0 b ->
  strspn_m true (a ++ 0 :: ra) (b ++ 0 :: rb) = Ok (strspn_s a b).
Proof. exact strspn_ok. Qed.

Theorem C18_strcspn : forall a b ra rb, ~ In 0 a -> ~ In 0 b ->
  strspn_m false (a ++ 0 :: ra) (b ++ 0 :: rb) = Ok (strcspn_s a b).
Proof. exact strcspn_ok. Qed.

Theorem C18_strpbrk : forall a b ra rb, ~ In 0 a -> ~ In 0 b ->
  strpbrk_m (a ++ 0 :: ra) (b ++ 0 :: rb) = Ok (strpbrk_s a b).
Proof. exact strpbrk_ok. Qed.

Theorem C18_strstr : forall n rn, ~ In 0 n -> forall h rh, ~ In 0 h ->
  strstr_m (h ++ 0 :: rh) (n ++ 0 :: rn) = Ok (strstr_s h n).
Proof. exact strstr_ok. Qed.

(* the specification used for strstr is "the FIRST occurrence of the needle, if any" *)
Theorem C18_strstr_spec_first : forall h n i, strstr_s h n = Some i ->
  (i <= length h)%nat /\ is_prefix n (skipn i h) = true /\ forall j, (j < i)%nat -> is_prefix n (skipn j h) = false.
Proof. exact strstr_s_some. Qed.

Theorem C18_strstr_spec_none : forall h n, strstr_s h n = None -> forall j, is_prefix n (skipn j h) = false.
Proof. exact strstr_s_none. Qed.

Theorem C18_is_prefix_meaning : forall n h, is_prefix n h = true <-> exists t, h = n ++ t.
Proof. exact is_prefix_iff. Qed.

(** * writers: exact contents of the whole destination region, i.e. payload and frame *)
Theorem C18_overwrite_frame : forall new d, (length new <= length d)%nat ->
  length (overwrite d new) = length d /\
  (forall i, (i < length new)%nat -> nth_error (overwrite d new) i = nth_error new i) /\
  (forall i, (length new <= i)%nat -> nth_error (overwrite d new) i = nth_error d i).
Proof.
  exact (fun new d H => conj (overwrite_length new d H)
                             (conj (overwrite_new new d) (overwrite_frame new d))).
Qed.

Theorem C18_strcpy : forall a rest d, ~ In 0 a -> (length a < length d)%nat ->
  strcpy_m d (a ++ 0 :: rest) = Ok (strcpy_s d a).
Proof. exact strcpy_ok. Qed.

(* exactly n elements written: the characters before the terminator, then null padding *)
Theorem C18_strncpy : forall n d A, array_ok n A = true -> (n <= length d)%nat ->
  strncpy_m d A n = Ok (strncpy_s d A n).
Proof. exact strncpy_ok. Qed.

Theorem C18_strcat : forall a rd b rb, ~ In 0 a -> ~ In 0 b -> (length b <= length rd)%nat ->
  strcat_m (a ++ 0 :: rd) (b ++ 0 :: rb) = Ok (strcat_s (a ++ 0 :: rd) a b).
Proof. exact strcat_ok. Qed.

Theorem C18_strncat : forall a rd B n, ~ In 0 a -> array_ok n B = true ->
  (length (upto_nul_excl n B) <= length rd)%nat ->
  strncat_m (a ++ 0 :: rd) B n = Ok (strncat_s (a ++ 0 :: rd) a B n).
Proof. exact strncat_ok. Qed.

(* memcpy and (repaired) wmemcpy run the same loop *)
Theorem C18_memcpy : forall n d A, (n <= length A)%nat -> (n <= length d)%nat ->
  memcpy_m d A n = Ok (memcpy_s d A n).
Proof. exact memcpy_ok. Qed.

Theorem C18_memset : forall ct d c n, (n <= length d)%nat ->
  memset_m ct d c n = Ok (memset_s d (conv_char (is_wide ct) c) n).
Proof. exact memset_ok. Qed.

(* memmove: destination offset d, source offset s, count n anywhere inside one allocation: every overlap *)
Theorem C18_memmove : forall m d s n, (d + n <= length m)%nat -> (s + n <= length m)%nat ->
  memmove_m m d s n = Ok (memmove_s m d s n).
Proof. exact memmove_ok. Qed.

Theorem C18_memmove_elements : forall m d s n, (d + n <= length m)%nat -> (s + n <= length m)%nat ->
  length (memmove_s m d s n) = length m /\
  (forall i, (i < n)%nat -> nth_error (memmove_s m d s n) (d + i) = nth_error m (s + i)) /\
  (forall i, (i < d \/ d + n <= i)%nat -> nth_error (memmove_s m d s n) i = nth_error m i).
Proof. exact memmove_s_elements. Qed.

(* memmove between two DIFFERENT allocations: the pointer comparison `ps < pd` is then unspecified ([below] is
   whichever way it comes out); both loops store the n source elements and leave the rest of the destination *)
Theorem C18_memmove_two_allocations : forall below n d s, (n <= length s)%nat -> (n <= length d)%nat ->
  memmove2_m below d s n = Ok (memcpy_s d s n).
Proof. exact memmove2_ok. Qed.

(* counts larger than the arrays (up to SIZE_MAX; legal for strncmp/strncat on terminated strings and for memchr when
   a match exists): neither the model nor the specification depends on the count once it exceeds the array
   length(s).  Together with C18_strncmp / C18_strncat / C18_memchr (which hold for every count) this covers
   arbitrarily large counts; the differential run evaluates model and spec at k = length + 1 for them. *)
Theorem C18_counts_beyond_arrays : forall n k,
  (forall ct A B, (length A < n)%nat -> (length A < k)%nat -> (length B < n)%nat -> (length B < k)%nat ->
     strncmp_m ct A B n = strncmp_m ct A B k /\ strncmp_s A B n = strncmp_s A B k /\
     array_ok n A = array_ok k A /\ array_ok n B = array_ok k B) /\
  (forall d B, (length B < n)%nat -> (length B < k)%nat ->
     strncat_m d B n = strncat_m d B k /\ upto_nul_excl n B = upto_nul_excl k B /\ array_ok n B = array_ok k B) /\
  (forall ct A ch, (length A < n)%nat -> (length A < k)%nat ->
     memchr_m ct A ch n = memchr_m ct A ch k /\ memchr_s A (conv_char (is_wide ct) ch) n = memchr_s A (conv_char (is_wide ct) ch) k).
Proof. exact counts_beyond_arrays. Qed.

(* the null-pointer entry checks of the front ends ([None] = nullptr): strcpy/strncpy/wcscpy/wcsncpy/strchr/memmove
   answer with a contract violation, detail::strrchr with a null result; otherwise the functions above run *)
Theorem C18_null_arguments :
  (forall s, strcpy_front_m None s = Contract) /\ (forall d, strcpy_front_m (Some d) None = Contract) /\
  (forall d s, strcpy_front_m (Some d) (Some s) = strcpy_m d s) /\
  (forall s n, strncpy_front_m None s n = Contract) /\ (forall d n, strncpy_front_m (Some d) None n = Contract) /\
  (forall d s n, strncpy_front_m (Some d) (Some s) n = strncpy_m d s n) /\
  (forall ch, strchr_front_m None ch = Contract) /\ (forall s ch, strchr_front_m (Some s) ch = strchr_m Narrow s ch) /\
  (forall ct ch, strrchr_front_m ct None ch = Ok None) /\ (forall ct s ch, strrchr_front_m ct (Some s) ch = strrchr_m ct s ch) /\
  (forall b s n, memmove_front_m b None s n = Contract) /\ (forall b d n, memmove_front_m b (Some d) None n = Contract) /\
  (forall b d s n, memmove_front_m b (Some d) (Some s) n = memmove2_m b d s n).
Proof. exact null_arguments. Qed.

Theorem C18_null_arguments_spec : forall d s n b ch,
  (precondition_violated [is_null d; is_null s] = true ->
     strcpy_front_m d s = Contract /\ strncpy_front_m d s n = Contract /\ memmove_front_m b d s n = Contract) /\
  (precondition_violated [is_null (@None (list Z))] = true /\ strchr_front_m None ch = Contract) /\
  (forall ct, strrchr_front_m ct None ch = Ok strrchr_null_s).
Proof. exact null_arguments_spec. Qed.

(** * <cstdlib> div family, labs/llabs (any integer type t of the code: int, long, long long, intmax_t) *)
Theorem C18_div : forall t x y, in_range t x -> in_range t y -> y <> 0 -> in_range t (fst (div_s x y)) ->
  div_m t x y = Some (div_s x y).
Proof. exact div_ok. Qed.

Theorem C18_div_representable : forall w x y, 0 < w ->
  in_range {| bits := w; sgn := true |} x -> in_range {| bits := w; sgn := true |} y -> y <> 0 ->
  ~ (x = - 2 ^ (w - 1) /\ y = -1) -> in_range {| bits := w; sgn := true |} (fst (div_s x y)).
Proof. exact div_quot_in_range. Qed.

Theorem C18_abs : forall t x, in_range t x -> in_range t (Z.abs x) -> abs_m t x = Some (Z.abs x).
Proof. exact abs_ok. Qed.

(** * Assumptions.  `Print Assumptions` costs ~0.4 s per call on this development and the check re-runs this file on
   every invocation, so it is asked once per GROUP: each group is the tuple of the proofs of the theorems above (a
   term that mentions every one of them), hence "Closed under the global context" for the group means that every
   theorem of the group, and everything its proof depends on, depends on no axiom and on no unproved lemma. *)
Definition C18_group_ctype := (C18_cctype_classes, C18_cctype_conversions, C18_cwctype_classes, C18_cwctype_conversions, C18_ctype_partition).
Print Assumptions C18_group_ctype.
Definition C18_group_compare := (C18_strlen, C18_strcmp, C18_strncmp, C18_memcmp).
Print Assumptions C18_group_compare.
Definition C18_group_search := (C18_strchr, C18_strrchr, C18_memchr, C18_strspn, C18_strcspn, C18_strpbrk, C18_strstr, C18_strstr_spec_first, C18_strstr_spec_none, C18_is_prefix_meaning).
Print Assumptions C18_group_search.
Definition C18_group_writers := (C18_overwrite_frame, C18_strcpy, C18_strncpy, C18_strcat, C18_strncat, C18_memcpy, C18_memset).
Print Assumptions C18_group_writers.
Definition C18_group_memmove := (C18_memmove, C18_memmove_elements, C18_memmove_two_allocations).
Print Assumptions C18_group_memmove.
Definition C18_group_front_ends := (C18_counts_beyond_arrays, C18_null_arguments, C18_null_arguments_spec).
Print Assumptions C18_group_front_ends.
Definition C18_group_cstdlib := (C18_div, C18_div_representable, C18_abs).
Print Assumptions C18_group_cstdlib.

(** non-vacuity: the hypotheses are met by ordinary arguments, and the once-defective inputs now agree *)
Example C18_nonvacuous :
  ~ In 0 [97; 98; 99; 100] /\ chars_ok Narrow [128] /\ chars_ok Narrow [97] /\
  strcmp_m Narrow [128; 0] [97; 0] = Ok 1 /\
  strstr_m [97; 98; 99; 100; 0] [98; 99; 0] = Ok (Some 1%nat) /\
  strstr_m [97; 98; 0] [0] = Ok (Some 0%nat) /\
  strpbrk_m [97; 98; 99; 0] [100; 0] = Ok None /\
  array_ok 4 [97; 98; 0] = true /\
  strncpy_m [9; 9; 9; 9; 9] [97; 98; 0] 4 = Ok [97; 98; 0; 0; 9] /\
  memcmp_m Narrow [97; 0; 98] [97; 0; 99] 3 = Ok (-1) /\
  memmove_m [1; 2; 3; 4; 5; 6] 1 0 4 = Ok [1; 1; 2; 3; 4; 6] /\
  strncat_m [97; 0; 9; 9] [98; 99] 2 = Ok [97; 98; 99; 0] /\
  isalpha_m 97 = 1 /\ tolower_m 65 = Some 97 /\
  in_range i32 7 /\ div_m i32 7 (-2) = Some (-3, 1) /\ abs_m i64 (-5) = Some 5 /\
  memmove2_m true [9; 9; 9] [1; 2] 2 = Ok [1; 2; 9] /\ memmove2_m false [9; 9; 9] [1; 2] 2 = Ok [1; 2; 9] /\
  strncmp_m Narrow [97; 0] [97; 98; 0] 1000 = Ok (-1) /\ strncat_m [97; 0; 9] [98; 0] 1000 = Ok [97; 98; 0].
Proof.
  repeat split; try (vm_compute; congruence); try reflexivity.
  - intros [H|[H|[H|[H|[]]]]]; discriminate.
  - repeat constructor; cbn; lia.
  - repeat constructor; cbn; lia.
Qed.
