(* C18 proofs, part 5 (review round): paths of the front ends added to the model by the second engineer.
   - counts larger than the arrays (SIZE_MAX-like counts of strncmp / strncat / memchr are legal C when the
     strings are terminated / a match exists): the model and the spec do not depend on the count once it exceeds
     the length of the array(s), so the differential run may evaluate them at a small count;
   - memmove between two different allocations: both copy directions give the memcpy result;
   - the null-pointer entry checks of the front ends. *)
From Tetl Require Import Lib.Base C18.Model C18.Spec C18.ProofsStr C18.ProofsWrite.
From Coq Require Import ZifyBool.
Local Open Scope Z_scope.
Ltac Zify.zify_post_hook ::= Z.to_euclidean_division_equations.

(** ** counts beyond the arrays *)
Lemma strncmp_m_sat : forall ct l r n k, (length l < n)%nat -> (length l < k)%nat ->
  strncmp_m ct l r n = strncmp_m ct l r k.
Proof.
  intros ct. induction l as [|a l IH]; intros r n k Hn Hk.
  - destruct n as [|n]; [cbn in Hn; lia|]. destruct k as [|k]; [cbn in Hk; lia|]. reflexivity.
  - destruct n as [|n]; [cbn in Hn; lia|]. destruct k as [|k]; [cbn in Hk; lia|].
    cbn [strncmp_m]. destruct r as [|b r]; [reflexivity|].
    destruct (negb (a =? b)); [reflexivity|]. destruct (a =? 0); [reflexivity|].
    apply IH; cbn [length] in *; lia.
Qed.

Lemma upto_nul_sat : forall b n k, (length b < n)%nat -> (length b < k)%nat -> upto_nul n b = upto_nul k b.
Proof.
  induction b as [|c b IH]; intros n k Hn Hk.
  - destruct n as [|n]; [cbn in Hn; lia|]. destruct k as [|k]; [cbn in Hk; lia|]. reflexivity.
  - destruct n as [|n]; [cbn in Hn; lia|]. destruct k as [|k]; [cbn in Hk; lia|].
    cbn [upto_nul]. destruct (c =? 0); [reflexivity|]. f_equal. apply IH; cbn [length] in *; lia.
Qed.

Lemma upto_nul_excl_sat : forall b n k, (length b < n)%nat -> (length b < k)%nat -> upto_nul_excl n b = upto_nul_excl k b.
Proof.
  induction b as [|c b IH]; intros n k Hn Hk.
  - destruct n as [|n]; [cbn in Hn; lia|]. destruct k as [|k]; [cbn in Hk; lia|]. reflexivity.
  - destruct n as [|n]; [cbn in Hn; lia|]. destruct k as [|k]; [cbn in Hk; lia|].
    cbn [upto_nul_excl]. destruct (c =? 0); [reflexivity|]. f_equal. apply IH; cbn [length] in *; lia.
Qed.

Lemma array_ok_sat : forall b n k, (length b < n)%nat -> (length b < k)%nat -> array_ok n b = array_ok k b.
Proof.
  induction b as [|c b IH]; intros n k Hn Hk.
  - destruct n as [|n]; [cbn in Hn; lia|]. destruct k as [|k]; [cbn in Hk; lia|]. reflexivity.
  - destruct n as [|n]; [cbn in Hn; lia|]. destruct k as [|k]; [cbn in Hk; lia|].
    cbn [array_ok]. destruct (c =? 0); [reflexivity|]. apply IH; cbn [length] in *; lia.
Qed.

Lemma nappend_m_sat : forall s d n k, (length s < n)%nat -> (length s < k)%nat -> nappend_m d s n = nappend_m d s k.
Proof.
  induction s as [|c s IH]; intros d n k Hn Hk.
  - destruct n as [|n]; [cbn in Hn; lia|]. destruct k as [|k]; [cbn in Hk; lia|]. reflexivity.
  - destruct n as [|n]; [cbn in Hn; lia|]. destruct k as [|k]; [cbn in Hk; lia|].
    cbn [nappend_m]. destruct (c =? 0); [reflexivity|]. destruct d as [|y d]; [reflexivity|].
    rewrite (IH d n k) by (cbn [length] in *; lia). reflexivity.
Qed.

Lemma memchr_loop_sat : forall p c n k, (length p < n)%nat -> (length p < k)%nat -> memchr_loop p c n = memchr_loop p c k.
Proof.
  induction p as [|x p IH]; intros c n k Hn Hk.
  - destruct n as [|n]; [cbn in Hn; lia|]. destruct k as [|k]; [cbn in Hk; lia|]. reflexivity.
  - destruct n as [|n]; [cbn in Hn; lia|]. destruct k as [|k]; [cbn in Hk; lia|].
    cbn [memchr_loop]. destruct (x =? c); [reflexivity|].
    rewrite (IH c n k) by (cbn [length] in *; lia). reflexivity.
Qed.

Theorem counts_beyond_arrays : forall n k,
  (forall ct A B, (length A < n)%nat -> (length A < k)%nat -> (length B < n)%nat -> (length B < k)%nat ->
     strncmp_m ct A B n = strncmp_m ct A B k /\ strncmp_s A B n = strncmp_s A B k /\
     array_ok n A = array_ok k A /\ array_ok n B = array_ok k B) /\
  (forall d B, (length B < n)%nat -> (length B < k)%nat ->
     strncat_m d B n = strncat_m d B k /\ upto_nul_excl n B = upto_nul_excl k B /\ array_ok n B = array_ok k B) /\
  (forall ct A ch, (length A < n)%nat -> (length A < k)%nat ->
     memchr_m ct A ch n = memchr_m ct A ch k /\ memchr_s A (conv_char (is_wide ct) ch) n = memchr_s A (conv_char (is_wide ct) ch) k).
Proof.
  intros n k. split; [|split].
  - intros ct A B HAn HAk HBn HBk. split; [apply strncmp_m_sat; assumption|].
    split; [unfold strncmp_s; rewrite (upto_nul_sat A n k), (upto_nul_sat B n k) by assumption; reflexivity|].
    split; apply array_ok_sat; assumption.
  - intros d B Hn Hk. split; [|split; [apply upto_nul_excl_sat | apply array_ok_sat]; assumption].
    unfold strncat_m. destruct (strlen_m d) as [len| | |]; cbn [rbind]; try reflexivity.
    rewrite (nappend_m_sat B _ n k) by assumption. reflexivity.
  - intros ct A ch Hn Hk. split; [unfold memchr_m; apply memchr_loop_sat; assumption|].
    unfold memchr_s. rewrite !firstn_all2 by lia. reflexivity.
Qed.

(** ** memmove between two allocations: either direction = memcpy *)
Lemma firstn_S_nth : forall (l : list Z) n z, nth_error l n = Some z -> firstn (S n) l = firstn n l ++ [z].
Proof.
  induction l as [|x l IH]; intros n z H.
  - destruct n; discriminate.
  - destruct n as [|n].
    + cbn in H. injection H as ->. reflexivity.
    + cbn [nth_error] in H. change (firstn (S (S n)) (x :: l)) with (x :: firstn (S n) l).
      rewrite (IH n z H). reflexivity.
Qed.

Lemma mm2_bwd_ok : forall n d s, (n <= length d)%nat -> (n <= length s)%nat ->
  mm2_bwd d s n = Ok (firstn n s ++ skipn n d).
Proof.
  induction n as [|n IH]; intros d s Hd Hs.
  - reflexivity.
  - cbn [mm2_bwd]. unfold rd. destruct (nth_error s n) as [z|] eqn:E; [|apply nth_error_None in E; lia].
    cbn [rbind]. unfold wr. destruct (n <? length d)%nat eqn:L; [|apply Nat.ltb_ge in L; lia].
    cbn [rbind]. rewrite IH.
    + f_equal. rewrite skipn_app. rewrite firstn_length. replace (Nat.min n (length d)) with n by lia.
      rewrite Nat.sub_diag. rewrite skipn_all2 by (rewrite firstn_length; lia).
      cbn [skipn app]. rewrite (firstn_S_nth s n z E). rewrite <- app_assoc. reflexivity.
    + rewrite app_length, firstn_length. cbn [length]. rewrite skipn_length. lia.
    + lia.
Qed.

Theorem memmove2_ok : forall below n d s, (n <= length s)%nat -> (n <= length d)%nat ->
  memmove2_m below d s n = Ok (memcpy_s d s n).
Proof.
  intros below n d s Hs Hd. unfold memmove2_m. destruct below.
  - rewrite mm2_bwd_ok by assumption. unfold memcpy_s, overwrite. rewrite firstn_length.
    replace (Nat.min n (length s)) with n by lia. reflexivity.
  - apply memcpy_ok; assumption.
Qed.

(** ** null-pointer entry checks of the front ends (definitional; the contract outcome is observed in the harness) *)
Theorem null_arguments :
  (forall s, strcpy_front_m None s = Contract) /\ (forall d, strcpy_front_m (Some d) None = Contract) /\
  (forall d s, strcpy_front_m (Some d) (Some s) = strcpy_m d s) /\
  (forall s n, strncpy_front_m None s n = Contract) /\ (forall d n, strncpy_front_m (Some d) None n = Contract) /\
  (forall d s n, strncpy_front_m (Some d) (Some s) n = strncpy_m d s n) /\
  (forall ch, strchr_front_m None ch = Contract) /\ (forall s ch, strchr_front_m (Some s) ch = strchr_m Narrow s ch) /\
  (forall ct ch, strrchr_front_m ct None ch = Ok None) /\ (forall ct s ch, strrchr_front_m ct (Some s) ch = strrchr_m ct s ch) /\
  (forall b s n, memmove_front_m b None s n = Contract) /\ (forall b d n, memmove_front_m b (Some d) None n = Contract) /\
  (forall b d s n, memmove_front_m b (Some d) (Some s) n = memmove2_m b d s n).
Proof. repeat split. Qed.

(* the same against Spec.precondition_violated: a null argument is answered by the contract handler *)
Definition is_null {A} (p : option A) : bool := match p with None => true | Some _ => false end.

Theorem null_arguments_spec : forall d s n b ch,
  (precondition_violated [is_null d; is_null s] = true ->
     strcpy_front_m d s = Contract /\ strncpy_front_m d s n = Contract /\ memmove_front_m b d s n = Contract) /\
  (precondition_violated [is_null (@None (list Z))] = true /\ strchr_front_m None ch = Contract) /\
  (forall ct, strrchr_front_m ct None ch = Ok strrchr_null_s).
Proof.
  intros d s n b ch. split; [|split; [split; reflexivity | reflexivity]].
  destruct d, s; cbn; intros H; try discriminate; repeat split.
Qed.
