From Tetl Require Import Lib.Base C18.Model C18.Spec.
Require Extraction.
Require Import ExtrOcamlBasic.
Extraction Language OCaml.
Extraction "C18_model.ml" wire_anchor
  cast_ch cstr_compare_m strlen_m strcmp_m strncmp_m memcmp_m strchr_m strrchr_m memchr_m strspn_m strpbrk_m strstr_m
  strcpy_m strncpy_m strcat_m strncat_m memcpy_m memset_m memmove_m
  strcpy_front_m strncpy_front_m strchr_front_m strrchr_front_m memmove2_m memmove_front_m
  isdigit_m islower_m isupper_m isalpha_m isalnum_m isblank_m iscntrl_m ispunct_m isgraph_m isprint_m isspace_m
  isxdigit_m tolower_m toupper_m
  iswdigit_m iswlower_m iswupper_m iswalpha_m iswalnum_m iswblank_m iswcntrl_m iswpunct_m iswgraph_m iswprint_m
  iswspace_m iswxdigit_m towlower_m towupper_m
  div_m abs_m i32 i64
  isupper_s islower_s isdigit_s isalpha_s isalnum_s isxdigit_s isspace_s isblank_s isprint_s iscntrl_s isgraph_s
  ispunct_s tolower_s toupper_s
  str_of sign_of array_ok upto_nul upto_nul_excl strlen_s strcmp_s strncmp_s memcmp_s strchr_s strrchr_s memchr_s strspn_s strcspn_s
  strpbrk_s strstr_s strcpy_s strncpy_s strcat_s strncat_s memcpy_s memset_s memmove_s div_s conv_char precondition_violated strrchr_null_s.
