(* C18 proofs, part 2: the read-only string/memory functions equal the C17 7.24 specification for ALL
   strings (induction on the lists).  A string argument is a buffer [a ++ 0 :: rest] with [~ In 0 a]:
   [rest] is whatever follows the terminator inside the allocation (possibly nothing), so [Ok] results
   that do not depend on [rest] also say that nothing behind the terminator is read. *)
From Tetl Require Import Lib.Base C18.Model C18.Spec.
From Coq Require Import ZifyBool.
Local Open Scope Z_scope.
Ltac Zify.zify_post_hook ::= Z.to_euclidean_division_equations.

Definition is_wide (ct : cty) : bool := match ct with Wide => true | Narrow => false end.

(* the values a character of the given type can have, in the model's representation *)
Definition char_ok (ct : cty) (x : Z) : Prop :=
  match ct with Narrow => 0 <= x <= 255 | Wide => -2147483648 <= x <= 2147483647 end.
Definition chars_ok (ct : cty) (l : list Z) : Prop := Forall (char_ok ct) l.

Lemma notin_cons : forall (c : Z) a, ~ In 0 (c :: a) -> c <> 0 /\ ~ In 0 a.
Proof. intros c a H. split; [intro E; apply H; left; auto | intro E; apply H; right; auto]. Qed.

Lemma cast_conv ct ch : cast_ch ct ch = conv_char (is_wide ct) ch.
Proof. destruct ct; [reflexivity | reflexivity]. Qed.

Lemma cast_id ct x : char_ok ct x -> cast_ch ct x = x.
Proof.
  destruct ct; cbn [char_ok cast_ch]; [|reflexivity].
  intros H. unfold wrapu. change (2 ^ 8) with 256. lia.
Qed.

Lemma compare_sign ct a b : char_ok ct a -> char_ok ct b -> cstr_compare_m ct a b = sign_of (a - b).
Proof.
  intros Ha Hb. unfold cstr_compare_m. rewrite !cast_id by assumption. unfold sign_of.
  destruct (a >? b) eqn:E1; destruct (a <? b) eqn:E2; destruct (a - b >? 0) eqn:E3; destruct (a - b <? 0) eqn:E4; lia.
Qed.

(** ** strlen *)
Lemma strlen_ok : forall a rest, ~ In 0 a -> strlen_m (a ++ 0 :: rest) = Ok (strlen_s a).
Proof.
  induction a as [|c a IH]; intros rest Hnz.
  - reflexivity.
  - apply notin_cons in Hnz as [Hc Ha]. cbn [app strlen_m].
    destruct (c =? 0) eqn:E; [lia|]. rewrite IH by assumption. reflexivity.
Qed.

Lemma str_of_ok : forall a rest, ~ In 0 a -> str_of (a ++ 0 :: rest) = Some a.
Proof.
  induction a as [|c a IH]; intros rest Hnz.
  - reflexivity.
  - apply notin_cons in Hnz as [Hc Ha]. cbn [app str_of].
    destruct (c =? 0) eqn:E; [lia|]. rewrite IH by assumption. reflexivity.
Qed.

(** ** strcmp *)
Lemma strcmp_ok : forall ct a b ra rb, ~ In 0 a -> ~ In 0 b -> chars_ok ct a -> chars_ok ct b ->
  strcmp_m ct (a ++ 0 :: ra) (b ++ 0 :: rb) = Ok (strcmp_s a b).
Proof.
  intros ct. assert (H0 : char_ok ct 0) by (destruct ct; cbn; lia).
  induction a as [|x a IH]; intros b ra rb Ha Hb Ca Cb.
  - destruct b as [|y b].
    + cbn. rewrite compare_sign by assumption. reflexivity.
    + apply notin_cons in Hb as [Hy Hb]. inversion Cb; subst.
      cbn [app strcmp_m strcmp_s first_diff]. rewrite Z.eqb_refl.
      rewrite compare_sign by assumption.
      destruct (0 =? y) eqn:E; [lia|]. reflexivity.
  - apply notin_cons in Ha as [Hx Ha]. inversion Ca; subst.
    destruct b as [|y b].
    + cbn [app strcmp_m strcmp_s first_diff]. destruct (x =? 0) eqn:E; [lia|].
      cbn [negb]. rewrite compare_sign by assumption. reflexivity.
    + apply notin_cons in Hb as [Hy Hb]. inversion Cb; subst.
      cbn [app strcmp_m strcmp_s first_diff]. destruct (x =? 0) eqn:E; [lia|].
      destruct (x =? y) eqn:E2; cbn [negb].
      * apply IH; assumption.
      * rewrite compare_sign by assumption. reflexivity.
Qed.

(** ** strncmp (arrays: a terminator among the first n elements, or at least n elements) *)
Lemma strncmp_ok : forall ct n A B, array_ok n A = true -> array_ok n B = true -> chars_ok ct A -> chars_ok ct B ->
  strncmp_m ct A B n = Ok (strncmp_s A B n).
Proof.
  intros ct. induction n as [|n IH]; intros A B HA HB CA CB.
  - reflexivity.
  - destruct A as [|a A]; [discriminate|]. destruct B as [|b B]; [discriminate|].
    inversion CA; subst. inversion CB; subst.
    unfold strncmp_s in *. cbn [strncmp_m upto_nul array_ok] in *.
    destruct (a =? b) eqn:Eab; cbn [negb].
    + assert (a = b) by lia. subst b.
      destruct (a =? 0) eqn:Ea.
      * cbn [first_diff]. rewrite Eab. reflexivity.
      * cbn [first_diff]. rewrite Eab. apply IH; assumption.
    + rewrite compare_sign by assumption.
      destruct (a =? 0) eqn:Ea; destruct (b =? 0) eqn:Eb; cbn [first_diff]; rewrite Eab; reflexivity.
Qed.

(** ** memcmp *)
Lemma memcmp_ok : forall ct n A B, (n <= length A)%nat -> (n <= length B)%nat -> chars_ok ct A -> chars_ok ct B ->
  memcmp_m ct A B n = Ok (memcmp_s A B n).
Proof.
  intros ct. induction n as [|n IH]; intros A B HA HB CA CB.
  - reflexivity.
  - destruct A as [|a A]; [cbn in HA; lia|]. destruct B as [|b B]; [cbn in HB; lia|].
    inversion CA; subst. inversion CB; subst. cbn [length] in *.
    unfold memcmp_s in *. cbn [memcmp_m firstn first_diff].
    destruct (a =? b) eqn:Eab; cbn [negb].
    + apply IH; [lia | lia | assumption | assumption].
    + rewrite compare_sign by assumption. reflexivity.
Qed.

(** ** strchr / strrchr / memchr *)
Lemma strchr_ok : forall ct a rest ch, ~ In 0 a ->
  strchr_m ct (a ++ 0 :: rest) ch = Ok (strchr_s a (conv_char (is_wide ct) ch)).
Proof.
  intros ct a rest ch. rewrite <- cast_conv. set (c := cast_ch ct ch). revert rest.
  induction a as [|x a IH]; intros rest Hnz.
  - cbn. rewrite Z.eqb_sym. destruct (0 =? c); reflexivity.
  - apply notin_cons in Hnz as [Hx Ha]. cbn [app strchr_m strchr_s find_first]. fold c.
    destruct (x =? 0) eqn:E; [lia|]. rewrite (Z.eqb_sym c x).
    destruct (x =? c) eqn:E2; [reflexivity|].
    rewrite IH by assumption. reflexivity.
Qed.

Lemma rd_app_r : forall (a : list Z) x rest, rd (a ++ x :: rest) (length a) = Ok x.
Proof. intros a x rest. unfold rd. rewrite nth_error_app2 by lia. rewrite Nat.sub_diag. reflexivity. Qed.

Lemma rd_app_l : forall (a b : list Z) i, (i < length a)%nat -> rd (a ++ b) i = rd a i.
Proof. intros a b i H. unfold rd. rewrite nth_error_app1 by assumption. reflexivity. Qed.

Lemma find_last_app_none : forall p l1 l2, find_last p l2 = None -> find_last p (l1 ++ l2) = find_last p l1.
Proof.
  intros p l1 l2 H. induction l1 as [|x l1 IH]; cbn [app find_last]; [assumption|].
  rewrite IH. reflexivity.
Qed.

Lemma find_last_snoc : forall p l x, find_last p (l ++ [x]) = if p x then Some (length l) else find_last p l.
Proof.
  intros p l x. induction l as [|y l IH]; cbn [app find_last length].
  - destruct (p x); reflexivity.
  - rewrite IH. destruct (p x); [reflexivity|]. reflexivity.
Qed.

(* scanning a (without zero) backwards from len = length of the scanned prefix *)
Lemma rscan_ok : forall c a rest, rscan_m (a ++ rest) c (length a) = Ok (find_last (Z.eqb c) a).
Proof.
  intros c a. induction a as [|x a IH] using rev_ind; intros rest.
  - reflexivity.
  - rewrite app_length. cbn [length]. rewrite Nat.add_1_r. cbn [rscan_m].
    rewrite <- app_assoc. cbn [app]. rewrite rd_app_r. cbn [rbind].
    rewrite find_last_snoc. rewrite (Z.eqb_sym c x). destruct (x =? c) eqn:E; [reflexivity|].
    apply IH.
Qed.

Lemma strrchr_ok : forall ct a rest ch, ~ In 0 a ->
  strrchr_m ct (a ++ 0 :: rest) ch = Ok (strrchr_s a (conv_char (is_wide ct) ch)).
Proof.
  intros ct a rest ch Hnz. rewrite <- cast_conv. set (c := cast_ch ct ch).
  unfold strrchr_m, strrchr_s. rewrite strlen_ok by assumption. cbn [rbind]. fold c. unfold strlen_s.
  rewrite find_last_snoc. destruct (c =? 0) eqn:E; [reflexivity|]. apply rscan_ok.
Qed.

Lemma memchr_loop_ok : forall c n A, ((n <= length A)%nat \/ find_first (Z.eqb c) (firstn n A) <> None) ->
  memchr_loop A c n = Ok (find_first (Z.eqb c) (firstn n A)).
Proof.
  intros c. induction n as [|n IH]; intros A H.
  - reflexivity.
  - destruct A as [|x A].
    + destruct H as [H|H]; [cbn in H; lia | cbn in H; congruence].
    + cbn [memchr_loop firstn find_first]. rewrite (Z.eqb_sym c x). destruct (x =? c) eqn:E; [reflexivity|].
      rewrite IH; [reflexivity|].
      destruct H as [H|H]; [left; cbn in H; lia|right].
      cbn [firstn find_first] in H. rewrite (Z.eqb_sym c x), E in H.
      destruct (find_first (Z.eqb c) (firstn n A)); [congruence | cbn in H; congruence].
Qed.

(* 7.24.5.1p2 (C11): the scan stops at the first match, so n may exceed the array when there is one *)
Lemma memchr_ok : forall ct A ch n,
  ((n <= length A)%nat \/ memchr_s A (conv_char (is_wide ct) ch) n <> None) ->
  memchr_m ct A ch n = Ok (memchr_s A (conv_char (is_wide ct) ch) n).
Proof.
  intros ct A ch n H. unfold memchr_m, memchr_s in *. rewrite <- cast_conv in *. apply memchr_loop_ok. assumption.
Qed.

(** ** strspn / strcspn / strpbrk *)
Lemma is_legal_ok : forall incl b rb ch, ~ In 0 b ->
  is_legal_char_m incl (b ++ 0 :: rb) (length b) ch = Ok (if mem ch b then incl else negb incl).
Proof.
  intros incl. induction b as [|y b IH]; intros rb ch Hnz.
  - reflexivity.
  - apply notin_cons in Hnz as [Hy Hb]. cbn [app length is_legal_char_m]. unfold mem in *. cbn [existsb].
    rewrite (Z.eqb_sym ch y). destruct (y =? ch) eqn:E; [reflexivity|]. cbn [orb]. apply IH. assumption.
Qed.

Lemma spn_loop_ok : forall incl b rb, ~ In 0 b -> forall a rest,
  spn_loop incl (a ++ rest) (length a) (b ++ 0 :: rb) (length b) =
  Ok (span (fun c => if mem c b then incl else negb incl) a).
Proof.
  intros incl b rb Hb. induction a as [|x a IH]; intros rest.
  - reflexivity.
  - cbn [app length spn_loop span]. rewrite is_legal_ok by assumption.
    destruct (if mem x b then incl else negb incl); [|reflexivity].
    rewrite IH. reflexivity.
Qed.

Lemma span_ext : forall p q l, (forall x, p x = q x) -> span p l = span q l.
Proof. intros p q l H. induction l as [|x l IH]; cbn [span]; [reflexivity|]. rewrite H, IH. reflexivity. Qed.

Lemma strspn_ok : forall a b ra rb, ~ In 0 a -> ~ In 0 b ->
  strspn_m true (a ++ 0 :: ra) (b ++ 0 :: rb) = Ok (strspn_s a b).
Proof.
  intros a b ra rb Ha Hb. unfold strspn_m. rewrite !strlen_ok by assumption. cbn [rbind]. unfold strlen_s.
  rewrite spn_loop_ok by assumption. unfold strspn_s. f_equal; try (apply span_ext; intros x; destruct (mem x b); reflexivity).
Qed.

Lemma strcspn_ok : forall a b ra rb, ~ In 0 a -> ~ In 0 b ->
  strspn_m false (a ++ 0 :: ra) (b ++ 0 :: rb) = Ok (strcspn_s a b).
Proof.
  intros a b ra rb Ha Hb. unfold strspn_m. rewrite !strlen_ok by assumption. cbn [rbind]. unfold strlen_s.
  rewrite spn_loop_ok by assumption. unfold strcspn_s. f_equal; try (apply span_ext; intros x; destruct (mem x b); reflexivity).
Qed.

(* the element at the end of the complement span is the first break character, or the terminator *)
Lemma pbrk_at_span : forall b a rest, ~ In 0 a -> ~ In 0 b ->
  rbind (rd (a ++ 0 :: rest) (span (fun c => negb (mem c b)) a))
        (fun c => Ok (if c =? 0 then None else Some (span (fun c => negb (mem c b)) a)))
  = Ok (find_first (fun c => mem c b) a).
Proof.
  intros b. induction a as [|x a IH]; intros rest Ha Hb.
  - reflexivity.
  - apply notin_cons in Ha as [Hx Ha]. cbn [span find_first].
    destruct (mem x b) eqn:E; cbn [negb].
    + cbn. destruct (x =? 0) eqn:E0; [lia | reflexivity].
    + specialize (IH rest Ha Hb). cbn [app]. unfold rd in *. cbn [nth_error].
      destruct (nth_error (a ++ 0 :: rest) (span (fun c : Z => negb (mem c b)) a)) as [v|]; cbn [rbind] in *.
      * inversion IH as [H1]. destruct (v =? 0); destruct (find_first (fun c : Z => mem c b) a); cbn [option_map]; congruence.
      * discriminate.
Qed.

Lemma strpbrk_ok : forall a b ra rb, ~ In 0 a -> ~ In 0 b ->
  strpbrk_m (a ++ 0 :: ra) (b ++ 0 :: rb) = Ok (strpbrk_s a b).
Proof.
  intros a b ra rb Ha Hb. unfold strpbrk_m. rewrite strcspn_ok by assumption. cbn [rbind].
  unfold strcspn_s, strpbrk_s. apply pbrk_at_span; assumption.
Qed.

(** ** strstr *)
(* outcome of the inner loop on string h (followed by its terminator) against needle n *)
Lemma prefix_ok : forall n rn, ~ In 0 n -> forall h rh, ~ In 0 h ->
  prefix_m (h ++ 0 :: rh) (n ++ 0 :: rn) =
  Ok (if is_prefix n h then PMatch else if (length h <? length n)%nat && is_prefix h n then PEnd else PMismatch).
Proof.
  induction n as [|y n IH]; intros rn Hn h rh Hh.
  - destruct h; reflexivity.
  - apply notin_cons in Hn as [Hy Hn]. cbn [app prefix_m]. destruct (y =? 0) eqn:E; [lia|].
    destruct h as [|x h].
    + cbn [app is_prefix length]. rewrite Z.eqb_sym, E. cbn. reflexivity.
    + apply notin_cons in Hh as [Hx Hh]. cbn [app is_prefix length].
      rewrite (Z.eqb_sym y x). destruct (x =? y) eqn:E2.
      * rewrite IH by assumption. cbn [andb].
        replace (S (length h) <? S (length n))%nat with (length h <? length n)%nat
          by (destruct (length h <? length n)%nat eqn:Q; destruct (S (length h) <? S (length n))%nat eqn:Q2; lia).
        reflexivity.
      * cbn [andb]. destruct (x =? 0) eqn:E3; [lia|]. rewrite andb_false_r. reflexivity.
Qed.

(* if h is a proper prefix of n then n occurs nowhere in h *)
Lemma is_prefix_length : forall n h, is_prefix n h = true -> (length n <= length h)%nat.
Proof.
  induction n as [|y n IH]; intros h H; [cbn; lia|].
  destruct h as [|x h]; [discriminate|]. cbn [is_prefix] in H. apply andb_prop in H as [_ H].
  apply IH in H. cbn [length]. lia.
Qed.

Lemma strstr_s_short : forall h n, (length h < length n)%nat -> strstr_s h n = None.
Proof.
  induction h as [|x h IH]; intros n H.
  - destruct n; [cbn in H; lia | reflexivity].
  - cbn [strstr_s]. destruct (is_prefix n (x :: h)) eqn:E.
    + apply is_prefix_length in E. lia.
    + rewrite IH by (cbn [length] in H; lia). reflexivity.
Qed.

Lemma strstr_ok : forall n rn, ~ In 0 n -> forall h rh, ~ In 0 h ->
  strstr_m (h ++ 0 :: rh) (n ++ 0 :: rn) = Ok (strstr_s h n).
Proof.
  intros n rn Hn. induction h as [|x h IH]; intros rh Hh.
  - pose proof (prefix_ok n rn Hn [] rh Hh) as P. cbn [app] in P.
    cbn [app strstr_m]. rewrite P. clear P.
    destruct n as [|y n]; [reflexivity|]. cbn. reflexivity.
  - pose proof (prefix_ok n rn Hn (x :: h) rh Hh) as P. cbn [app] in P.
    cbn [app strstr_m]. rewrite P. clear P.
    cbn [strstr_s]. destruct (is_prefix n (x :: h)) eqn:E; [reflexivity|].
    destruct ((length (x :: h) <? length n)%nat && is_prefix (x :: h) n) eqn:E2.
    + apply andb_prop in E2 as [E2 _]. rewrite strstr_s_short by (cbn [length] in *; lia). reflexivity.
    + apply notin_cons in Hh as [Hx Hh]. rewrite IH by assumption. reflexivity.
Qed.

(** the specification [strstr_s] is "the first occurrence": soundness, minimality, completeness *)
Lemma strstr_s_some : forall h n i, strstr_s h n = Some i ->
  (i <= length h)%nat /\ is_prefix n (skipn i h) = true /\ forall j, (j < i)%nat -> is_prefix n (skipn j h) = false.
Proof.
  induction h as [|x h IH]; intros n i H.
  - cbn [strstr_s] in H. destruct (is_prefix n []) eqn:E; [|discriminate]. inversion H; subst.
    repeat split; [cbn; lia | assumption | intros; lia].
  - cbn [strstr_s] in H. destruct (is_prefix n (x :: h)) eqn:E.
    + inversion H; subst. repeat split; [cbn; lia | assumption | intros; lia].
    + destruct (strstr_s h n) as [k|] eqn:E2; [|discriminate]. inversion H; subst.
      destruct (IH n k E2) as [H1 [H2 H3]]. repeat split; [cbn [length]; lia | assumption |].
      intros j Hj. destruct j as [|j]; [assumption|]. cbn [skipn]. apply H3. lia.
Qed.

Lemma strstr_s_none : forall h n, strstr_s h n = None -> forall j, is_prefix n (skipn j h) = false.
Proof.
  induction h as [|x h IH]; intros n H j.
  - cbn [strstr_s] in H. destruct (is_prefix n []) eqn:E; [discriminate|]. destruct j; assumption.
  - cbn [strstr_s] in H. destruct (is_prefix n (x :: h)) eqn:E; [discriminate|].
    destruct (strstr_s h n) eqn:E2; [discriminate|]. destruct j as [|j]; [assumption|]. cbn [skipn]. apply IH. assumption.
Qed.

(* is_prefix says what it should: n is an initial segment of h *)
Lemma is_prefix_iff : forall n h, is_prefix n h = true <-> exists t, h = n ++ t.
Proof.
  induction n as [|y n IH]; intros h.
  - split; [intros _; exists h; reflexivity | reflexivity].
  - destruct h as [|x h].
    + split; [discriminate | intros [t H]; discriminate].
    + cbn [is_prefix]. split.
      * intros H. apply andb_prop in H as [H1 H2]. apply IH in H2 as [t ->]. exists t. cbn. f_equal. lia.
      * intros [t H]. inversion H; subst. rewrite Z.eqb_refl. cbn. apply IH. exists t. reflexivity.
Qed.
