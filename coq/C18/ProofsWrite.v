(* C18 proofs, part 3: the writing functions store exactly what C17 7.24.2/7.24.3/7.24.6.1 say and change
   nothing else.  The destination is the region from the destination pointer to the end of its
   allocation; [overwrite d new] = [new] followed by the untouched rest of [d] (the frame). *)
From Tetl Require Import Lib.Base C18.Model C18.Spec C18.ProofsStr.
From Coq Require Import ZifyBool.
Local Open Scope Z_scope.
Ltac Zify.zify_post_hook ::= Z.to_euclidean_division_equations.

(** ** what [overwrite] means: same length, new contents in front, every other element unchanged *)
Lemma overwrite_length : forall new d, (length new <= length d)%nat -> length (overwrite d new) = length d.
Proof.
  intros new d H. unfold overwrite. rewrite app_length, skipn_length. lia.
Qed.

Lemma nth_error_skipn_add : forall (n : nat) (l : list Z) i, nth_error (skipn n l) i = nth_error l (n + i).
Proof.
  induction n as [|n IH]; intros l i; [reflexivity|].
  destruct l as [|x l]; [destruct i; reflexivity|]. cbn [skipn Nat.add nth_error]. apply IH.
Qed.

Lemma overwrite_frame : forall new d i, (length new <= i)%nat -> nth_error (overwrite d new) i = nth_error d i.
Proof.
  intros new d i H. unfold overwrite. rewrite nth_error_app2 by assumption.
  rewrite nth_error_skipn_add. f_equal. lia.
Qed.

Lemma overwrite_new : forall new d i, (i < length new)%nat -> nth_error (overwrite d new) i = nth_error new i.
Proof. intros new d i H. unfold overwrite. apply nth_error_app1. assumption. Qed.

Lemma overwrite_cons : forall y d x new, overwrite (y :: d) (x :: new) = x :: overwrite d new.
Proof. reflexivity. Qed.

Lemma overwrite_nil : forall d, overwrite d [] = d.
Proof. reflexivity. Qed.

Lemma overwrite_app : forall a d new, overwrite (a ++ d) (a ++ new) = a ++ overwrite d new.
Proof.
  intros a d new. unfold overwrite. rewrite <- app_assoc. f_equal. f_equal.
  rewrite app_length, skipn_app. rewrite skipn_all2 by lia. cbn [app]. f_equal. lia.
Qed.

(** ** strcpy (and the copy loop of strcat, which is the same loop) *)
Lemma append_ok : forall b rb d, ~ In 0 b -> (length b < length d)%nat ->
  append_m d (b ++ 0 :: rb) = Ok (overwrite d (b ++ [0])).
Proof.
  induction b as [|x b IH]; intros rb d Hnz Hlen.
  - destruct d as [|y d]; [cbn in Hlen; lia|]. reflexivity.
  - apply notin_cons in Hnz as [Hx Hb]. destruct d as [|y d]; [cbn in Hlen; lia|].
    cbn [app append_m]. destruct (x =? 0) eqn:E; [lia|].
    rewrite IH by (try assumption; cbn [length] in Hlen; lia). reflexivity.
Qed.

Lemma strcpy_ok : forall a rest d, ~ In 0 a -> (length a < length d)%nat ->
  strcpy_m d (a ++ 0 :: rest) = Ok (strcpy_s d a).
Proof.
  unfold strcpy_s. induction a as [|x a IH]; intros rest d Hnz Hlen.
  - destruct d as [|y d]; [cbn in Hlen; lia|]. reflexivity.
  - apply notin_cons in Hnz as [Hx Ha]. destruct d as [|y d]; [cbn in Hlen; lia|].
    cbn [app strcpy_m]. destruct (x =? 0) eqn:E; [lia|].
    rewrite IH by (try assumption; cbn [length] in Hlen; lia). reflexivity.
Qed.

(** ** strncpy *)
Lemma pad_ok : forall k d, (k <= length d)%nat -> pad_m d k = Ok (overwrite d (repeat 0 k)).
Proof.
  induction k as [|k IH]; intros d H.
  - reflexivity.
  - destruct d as [|y d]; [cbn in H; lia|]. cbn [pad_m repeat]. rewrite IH by (cbn [length] in H; lia). reflexivity.
Qed.

Lemma strncpy_ok : forall n d A, array_ok n A = true -> (n <= length d)%nat ->
  strncpy_m d A n = Ok (strncpy_s d A n).
Proof.
  unfold strncpy_s. induction n as [|n IH]; intros d A HA Hd.
  - reflexivity.
  - destruct A as [|c A]; [discriminate|]. cbn [array_ok] in HA. cbn [strncpy_m upto_nul_excl].
    destruct (c =? 0) eqn:E.
    + cbn [length app]. rewrite Nat.sub_0_r. apply pad_ok. assumption.
    + destruct d as [|y d]; [cbn in Hd; lia|]. rewrite IH by (try assumption; cbn [length] in Hd; lia).
      cbn [length app Nat.sub]. reflexivity.
Qed.

(** ** strcat / strncat *)
Lemma firstn_app_exact : forall (a b : list Z), firstn (length a) (a ++ b) = a.
Proof. intros a b. rewrite firstn_app, Nat.sub_diag, firstn_all. cbn. apply app_nil_r. Qed.
Lemma skipn_app_exact : forall (a b : list Z), skipn (length a) (a ++ b) = b.
Proof. intros a b. rewrite skipn_app, Nat.sub_diag, skipn_all. reflexivity. Qed.

Lemma strcat_ok : forall a rd b rb, ~ In 0 a -> ~ In 0 b -> (length b <= length rd)%nat ->
  strcat_m (a ++ 0 :: rd) (b ++ 0 :: rb) = Ok (strcat_s (a ++ 0 :: rd) a b).
Proof.
  intros a rd b rb Ha Hb Hlen. unfold strcat_m, strcat_s. rewrite strlen_ok by assumption. cbn [rbind]. unfold strlen_s.
  rewrite firstn_app_exact, skipn_app_exact. rewrite append_ok by (try assumption; cbn [length]; lia).
  unfold rmap. cbn [rbind]. rewrite overwrite_app. reflexivity.
Qed.

Lemma nappend_ok : forall n B d, array_ok n B = true -> (length (upto_nul_excl n B) < length d)%nat ->
  nappend_m d B n = Ok (overwrite d (upto_nul_excl n B ++ [0])).
Proof.
  induction n as [|n IH]; intros B d HB Hd.
  - destruct d as [|y d]; [cbn in Hd; lia|]. destruct B; reflexivity.
  - destruct B as [|c B]; [discriminate|]. cbn [array_ok] in HB. cbn [nappend_m upto_nul_excl] in *.
    destruct (c =? 0) eqn:E.
    + destruct d as [|y d]; [cbn in Hd; lia|]. reflexivity.
    + destruct d as [|y d]; [cbn in Hd; lia|]. rewrite IH by (try assumption; cbn [length] in Hd; lia). reflexivity.
Qed.

Lemma strncat_ok : forall a rd B n, ~ In 0 a -> array_ok n B = true ->
  (length (upto_nul_excl n B) <= length rd)%nat ->
  strncat_m (a ++ 0 :: rd) B n = Ok (strncat_s (a ++ 0 :: rd) a B n).
Proof.
  intros a rd B n Ha HB Hlen. unfold strncat_m, strncat_s. rewrite strlen_ok by assumption. cbn [rbind]. unfold strlen_s.
  rewrite firstn_app_exact, skipn_app_exact. rewrite nappend_ok by (try assumption; cbn [length]; lia).
  unfold rmap. cbn [rbind]. rewrite overwrite_app. reflexivity.
Qed.

(** ** memcpy / wmemcpy / memset *)
Lemma memcpy_ok : forall n d A, (n <= length A)%nat -> (n <= length d)%nat ->
  memcpy_m d A n = Ok (memcpy_s d A n).
Proof.
  unfold memcpy_s. induction n as [|n IH]; intros d A HA Hd.
  - reflexivity.
  - destruct A as [|c A]; [cbn in HA; lia|]. destruct d as [|y d]; [cbn in Hd; lia|].
    cbn [memcpy_m firstn]. rewrite IH by (cbn [length] in *; lia). reflexivity.
Qed.

Lemma memset_loop_ok : forall v n d, (n <= length d)%nat -> memset_loop d v n = Ok (overwrite d (repeat v n)).
Proof.
  intros v. induction n as [|n IH]; intros d Hd.
  - reflexivity.
  - destruct d as [|y d]; [cbn in Hd; lia|]. cbn [memset_loop repeat]. rewrite IH by (cbn [length] in Hd; lia). reflexivity.
Qed.

Lemma memset_ok : forall ct d c n, (n <= length d)%nat ->
  memset_m ct d c n = Ok (memset_s d (conv_char (is_wide ct) c) n).
Proof. intros ct d c n H. unfold memset_m, memset_s. rewrite <- cast_conv. apply memset_loop_ok. assumption. Qed.
