(* C18 proofs, part 1: <cctype>/<cwctype> range tests = the C17 7.4 tables, and the <cstdlib> functions. *)
From Tetl Require Import Lib.Base C18.Model C18.Spec.
From Coq Require Import ZifyBool.
Local Open Scope Z_scope.
Ltac Zify.zify_post_hook ::= Z.to_euclidean_division_equations.

(** membership in / position inside a table of consecutive codes *)
Lemma mem_range : forall n lo c, mem c (zrange_from lo n) = (lo <=? c) && (c <? lo + Z.of_nat n).
Proof.
  induction n as [|n IH]; intros lo c.
  - cbn [zrange_from mem existsb]. lia.
  - cbn [zrange_from]. unfold mem in *. cbn [existsb]. rewrite IH. lia.
Qed.

Lemma mem_app : forall c l1 l2, mem c (l1 ++ l2) = mem c l1 || mem c l2.
Proof. intros c l1 l2. unfold mem. apply existsb_app. Qed.

Lemma index_of_range : forall n lo c,
  index_of c (zrange_from lo n) =
  if (lo <=? c) && (c <? lo + Z.of_nat n) then Some (Z.to_nat (c - lo)) else None.
Proof.
  induction n as [|n IH]; intros lo c.
  - cbn [zrange_from index_of]. destruct ((lo <=? c) && (c <? lo + Z.of_nat 0)) eqn:E; [lia | reflexivity].
  - cbn [zrange_from index_of]. destruct (lo =? c) eqn:E0.
    + assert (c = lo) by lia. subst c.
      destruct ((lo <=? lo) && (lo <? lo + Z.of_nat (S n))) eqn:E; [|lia].
      replace (lo - lo) with 0 by lia. reflexivity.
    + rewrite IH.
      destruct ((lo + 1 <=? c) && (c <? lo + 1 + Z.of_nat n)) eqn:E1;
        destruct ((lo <=? c) && (c <? lo + Z.of_nat (S n))) eqn:E2; try lia; cbn [option_map]; try reflexivity.
      f_equal. lia.
Qed.

Lemma nth_range : forall n lo i d, (i < n)%nat -> nth i (zrange_from lo n) d = lo + Z.of_nat i.
Proof.
  induction n as [|n IH]; intros lo i d Hi; [lia|].
  destruct i as [|i]; cbn [zrange_from nth]; [lia|].
  rewrite IH by lia. lia.
Qed.

(* the tables are runs of consecutive ASCII codes *)
Lemma upper_is_range : upper_letters = zrange_from 65 26. Proof. reflexivity. Qed.
Lemma lower_is_range : lower_letters = zrange_from 97 26. Proof. reflexivity. Qed.
Lemma digits_is_range : dec_digits = zrange_from 48 10. Proof. reflexivity. Qed.
Lemma hex_is_range : hex_letters = zrange_from 97 6 ++ zrange_from 65 6. Proof. reflexivity. Qed.

Lemma isupper_s_range c : isupper_s c = (65 <=? c) && (c <=? 90).
Proof. unfold isupper_s. rewrite upper_is_range, mem_range. lia. Qed.
Lemma islower_s_range c : islower_s c = (97 <=? c) && (c <=? 122).
Proof. unfold islower_s. rewrite lower_is_range, mem_range. lia. Qed.
Lemma isdigit_s_range c : isdigit_s c = (48 <=? c) && (c <=? 57).
Proof. unfold isdigit_s. rewrite digits_is_range, mem_range. lia. Qed.
Lemma hex_s_range c : mem c hex_letters = ((97 <=? c) && (c <=? 102)) || ((65 <=? c) && (c <=? 70)).
Proof. rewrite hex_is_range, mem_app, !mem_range. lia. Qed.
Lemma isspace_s_cases c : isspace_s c = (c =? 32) || (c =? 12) || (c =? 10) || (c =? 13) || (c =? 9) || (c =? 11).
Proof. unfold isspace_s, mem, white_space. cbn [existsb]. lia. Qed.

Lemma b2z_test b : negb (b2z b =? 0) = b.
Proof. destruct b; reflexivity. Qed.

Ltac unfold_models :=
  unfold isprint_m, iswprint_m in *; unfold isgraph_m, iswgraph_m in *;
  unfold isalnum_m, isalpha_m, isblank_m, iscntrl_m, ispunct_m, isspace_m, isxdigit_m,
         isdigit_m, islower_m, isupper_m,
         iswalnum_m, iswalpha_m, iswblank_m, iswcntrl_m, iswpunct_m, iswspace_m, iswxdigit_m,
         iswdigit_m, iswlower_m, iswupper_m in *;
  rewrite ?b2z_test in *; unfold between in *.
Ltac unfold_specs :=
  unfold ispunct_s, isgraph_s in *; unfold isalnum_s in *; unfold isalpha_s, isxdigit_s, isblank_s, isprint_s, iscntrl_s in *;
  rewrite ?isspace_s_cases, ?isupper_s_range, ?islower_s_range, ?isdigit_s_range, ?hex_s_range in *.

(* these hold for every integer; the property's domain [-1,255] is kept in the published statements *)
Lemma isdigit_ok c : isdigit_m c = b2z (isdigit_s c).  Proof. unfold_specs. unfold_models. f_equal; try lia. Qed.
Lemma islower_ok c : islower_m c = b2z (islower_s c).  Proof. unfold_specs. unfold_models. f_equal; try lia. Qed.
Lemma isupper_ok c : isupper_m c = b2z (isupper_s c).  Proof. unfold_specs. unfold_models. f_equal; try lia. Qed.
Lemma isalpha_ok c : isalpha_m c = b2z (isalpha_s c).  Proof. unfold_specs. unfold_models. f_equal; try lia. Qed.
Lemma isalnum_ok c : isalnum_m c = b2z (isalnum_s c).  Proof. unfold_specs. unfold_models. f_equal; try lia. Qed.
Lemma isblank_ok c : isblank_m c = b2z (isblank_s c).  Proof. unfold_specs. unfold_models. f_equal; try lia. Qed.
Lemma iscntrl_ok c : iscntrl_m c = b2z (iscntrl_s c).  Proof. unfold_specs. unfold_models. f_equal; try lia. Qed.
Lemma isspace_ok c : isspace_m c = b2z (isspace_s c).  Proof. unfold_specs. unfold_models. f_equal; try lia. Qed.
Lemma isxdigit_ok c : isxdigit_m c = b2z (isxdigit_s c). Proof. unfold_specs. unfold_models. f_equal; try lia. Qed.
Lemma ispunct_ok c : ispunct_m c = b2z (ispunct_s c).  Proof. unfold_specs. unfold_models. f_equal; try lia. Qed.
Lemma isgraph_ok c : isgraph_m c = b2z (isgraph_s c).  Proof. unfold_specs. unfold_models. f_equal; try lia. Qed.
Lemma isprint_ok c : isprint_m c = b2z (isprint_s c).  Proof. unfold_specs. unfold_models. f_equal; try lia. Qed.

Lemma tolower_s_cases c : tolower_s c = if (65 <=? c) && (c <=? 90) then c + 32 else c.
Proof.
  unfold tolower_s. rewrite upper_is_range, index_of_range, lower_is_range.
  replace ((65 <=? c) && (c <? 65 + Z.of_nat 26)) with ((65 <=? c) && (c <=? 90)) by lia.
  destruct ((65 <=? c) && (c <=? 90)) eqn:E; [|reflexivity].
  rewrite nth_range by lia. lia.
Qed.
Lemma toupper_s_cases c : toupper_s c = if (97 <=? c) && (c <=? 122) then c - 32 else c.
Proof.
  unfold toupper_s. rewrite lower_is_range, index_of_range, upper_is_range.
  replace ((97 <=? c) && (c <? 97 + Z.of_nat 26)) with ((97 <=? c) && (c <=? 122)) by lia.
  destruct ((97 <=? c) && (c <=? 122)) eqn:E; [|reflexivity].
  rewrite nth_range by lia. lia.
Qed.

Lemma chk_i32_ok x : -2147483648 <= x <= 2147483647 -> chk i32 x = Some x.
Proof.
  intros H. unfold chk.
  assert (E : in_ty i32 x = true).
  { unfold in_ty, imin, imax, i32, smin, smax. cbn [sgn bits]. change (2 ^ (32 - 1)) with 2147483648. lia. }
  rewrite E. reflexivity.
Qed.

Lemma tolower_ok c : tolower_m c = Some (tolower_s c).
Proof.
  rewrite tolower_s_cases. unfold tolower_m, isupper_m, between. rewrite b2z_test.
  replace ((c >=? 65) && (c <=? 90)) with ((65 <=? c) && (c <=? 90)) by lia.
  destruct ((65 <=? c) && (c <=? 90)) eqn:E; [|reflexivity].
  apply chk_i32_ok. lia.
Qed.
Lemma toupper_ok c : toupper_m c = Some (toupper_s c).
Proof.
  rewrite toupper_s_cases. unfold toupper_m, islower_m, between. rewrite b2z_test.
  replace ((c >=? 97) && (c <=? 122)) with ((97 <=? c) && (c <=? 122)) by lia.
  destruct ((97 <=? c) && (c <=? 122)) eqn:E; [|reflexivity].
  apply chk_i32_ok. lia.
Qed.

Theorem cctype_classes : forall c, -1 <= c <= 255 ->
  isalnum_m c = b2z (isalnum_s c) /\ isalpha_m c = b2z (isalpha_s c) /\ isblank_m c = b2z (isblank_s c) /\
  iscntrl_m c = b2z (iscntrl_s c) /\ isdigit_m c = b2z (isdigit_s c) /\ isgraph_m c = b2z (isgraph_s c) /\
  islower_m c = b2z (islower_s c) /\ isprint_m c = b2z (isprint_s c) /\ ispunct_m c = b2z (ispunct_s c) /\
  isspace_m c = b2z (isspace_s c) /\ isupper_m c = b2z (isupper_s c) /\ isxdigit_m c = b2z (isxdigit_s c).
Proof.
  intros c _.
  repeat split; auto using isalnum_ok, isalpha_ok, isblank_ok, iscntrl_ok, isdigit_ok, isgraph_ok, islower_ok,
    isprint_ok, ispunct_ok, isspace_ok, isupper_ok, isxdigit_ok.
Qed.

Theorem cctype_conversions : forall c, -1 <= c <= 255 ->
  tolower_m c = Some (tolower_s c) /\ toupper_m c = Some (toupper_s c).
Proof. intros c _. split; [apply tolower_ok | apply toupper_ok]. Qed.

(** wide versions: argument is a wint_t, 0 <= c < 2^32 (WEOF = 2^32 - 1 included) *)
Theorem cwctype_classes : forall c, 0 <= c < 4294967296 ->
  iswalnum_m c = b2z (isalnum_s c) /\ iswalpha_m c = b2z (isalpha_s c) /\ iswblank_m c = b2z (isblank_s c) /\
  iswcntrl_m c = b2z (iscntrl_s c) /\ iswdigit_m c = b2z (isdigit_s c) /\ iswgraph_m c = b2z (isgraph_s c) /\
  iswlower_m c = b2z (islower_s c) /\ iswprint_m c = b2z (isprint_s c) /\ iswpunct_m c = b2z (ispunct_s c) /\
  iswspace_m c = b2z (isspace_s c) /\ iswupper_m c = b2z (isupper_s c) /\ iswxdigit_m c = b2z (isxdigit_s c).
Proof.
  intros c Hc. unfold_specs. unfold_models. repeat split; f_equal; try lia.
Qed.

Theorem cwctype_conversions : forall c, 0 <= c < 4294967296 ->
  towlower_m c = tolower_s c /\ towupper_m c = toupper_s c.
Proof.
  intros c Hc. rewrite tolower_s_cases, toupper_s_cases.
  unfold towlower_m, towupper_m, iswupper_m, iswlower_m, between, wrapu. rewrite !b2z_test.
  change (2 ^ 32) with 4294967296.
  replace ((c >=? 65) && (c <=? 90)) with ((65 <=? c) && (c <=? 90)) by lia.
  replace ((c >=? 97) && (c <=? 122)) with ((97 <=? c) && (c <=? 122)) by lia.
  split.
  - destruct ((65 <=? c) && (c <=? 90)) eqn:E; lia.
  - destruct ((97 <=? c) && (c <=? 122)) eqn:E; lia.
Qed.

(** the 7.4 classes are consistent: every argument in [0,127] is a control or a printing character and not
    both; printing = space + graph; graph = alnum + punct (disjoint); nothing above 127 or EOF is classified *)
Theorem ctype_partition : forall c, -1 <= c <= 255 ->
  (0 <= c <= 127 -> xorb (iscntrl_s c) (isprint_s c) = true) /\
  (isprint_s c = (c =? 32) || isgraph_s c) /\
  (isgraph_s c = xorb (isalnum_s c) (ispunct_s c)) /\ (isalnum_s c && ispunct_s c = false) /\
  (c < 0 \/ c > 127 -> iscntrl_s c = false /\ isprint_s c = false /\ isspace_s c = false /\ isalnum_s c = false).
Proof.
  intros c Hc. unfold_specs. repeat split; intros; lia.
Qed.

(** * <cstdlib> *)
Definition in_range (t : ity) (x : Z) : Prop := imin t <= x <= imax t.

Lemma div_spec_quot : forall x y, y <> 0 -> div_s x y = (Z.quot x y, Z.rem x y).
Proof.
  intros x y Hy. unfold div_s. rewrite <- (Z.quot_div x y Hy).
  rewrite (Z.rem_eq x y Hy). f_equal. lia.
Qed.

Lemma chk_ok t x : in_range t x -> chk t x = Some x.
Proof.
  intros [H1 H2]. unfold chk, in_ty.
  destruct ((imin t <=? x) && (x <=? imax t)) eqn:E; [reflexivity | lia].
Qed.

(* C17 7.22.6.2: defined when the divisor is not zero and the quotient is representable *)
Theorem div_ok : forall t x y, in_range t x -> in_range t y -> y <> 0 -> in_range t (fst (div_s x y)) ->
  div_m t x y = Some (div_s x y).
Proof.
  intros t x y Hx Hy Hy0 Hq. rewrite div_spec_quot in * by assumption. cbn [fst] in Hq.
  unfold div_m. destruct (y =? 0) eqn:E; [lia|].
  rewrite chk_ok by assumption. reflexivity.
Qed.

(* for the two's complement types of the code the quotient is representable unless x = min and y = -1 *)
Lemma div_quot_in_range : forall w x y, 0 < w ->
  in_range {| bits := w; sgn := true |} x -> in_range {| bits := w; sgn := true |} y -> y <> 0 ->
  ~ (x = - 2 ^ (w - 1) /\ y = -1) -> in_range {| bits := w; sgn := true |} (fst (div_s x y)).
Proof.
  intros w x y Hw Hx Hy Hy0 Hnot. rewrite div_spec_quot by assumption. cbn [fst].
  unfold in_range, imin, imax, smin, smax in *. cbn [sgn bits] in *.
  set (P := 2 ^ (w - 1)) in *. assert (0 < P) by (apply Z.pow_pos_nonneg; lia).
  nia.
Qed.

(* 7.22.6.1: labs/llabs; undefined when the result is not representable (x = min) *)
Theorem abs_ok : forall t x, in_range t x -> in_range t (Z.abs x) -> abs_m t x = Some (Z.abs x).
Proof.
  intros t x Hx Ha. unfold abs_m. destruct (x =? 0) eqn:E0; [f_equal; lia|]. destruct (x >=? 0) eqn:E.
  - f_equal. lia.
  - replace (x * -1) with (Z.abs x) by lia. apply chk_ok. assumption.
Qed.
