(* C13 — tools for the proof about gcem fmod_exact (binary long division): values at a common
   scale k are [mk k V] for integers V; halving, doubling and the Sterbenz subtraction on them. *)
From Tetl Require Import Lib.Base C13.Float C13.Model C13.Spec C13.ProofsKit C13.ProofsCls C13.ProofsRoundKit
  C13.ProofsFmaExact.
From Coq Require Import ZifyBool.
Local Open Scope Z_scope.
Ltac Zify.zify_post_hook ::= Z.to_euclidean_division_equations.

(** * the odd part of a positive integer *)
Lemma odd_part : forall v, 0 < v -> exists t m, 0 <= t /\ Z.odd m = true /\ 0 < m /\ v = m * 2 ^ t.
Proof.
  intros v Hv. destruct (mk_fin 0 v ltac:(lia)) as (m & e & _ & Ho & K & A).
  exists (e + 0), (Zpos m). rewrite Z.abs_eq in A by lia. repeat split; try lia; assumption.
Qed.

(* representable values: the odd part has at most prec digits, the unit is not below emin, the top
   is not above emax *)
Lemma rep_iff : forall f k m t, 0 <= t -> 0 < m -> Z.odd m = true ->
  (rep f k (m * 2 ^ t) <-> digits m <= prec f /\ emin f <= t - k /\ digits m + (t - k) <= emax f).
Proof.
  intros f k m t Ht Hm Ho. pose proof (pow2_gt0 t Ht) as Hp.
  assert (Hv : m * 2 ^ t <> 0) by nia.
  unfold rep. destruct (mk_fin k (m * 2 ^ t) Hv) as (m' & e' & E & Ho' & K & A). rewrite E. cbn [valid].
  rewrite Z.abs_eq in A by nia.
  destruct (odd_pow2_inj m (Zpos m') t (e' + k) Ho Ho' Ht ltac:(lia) A) as [Em Et].
  rewrite Ho'. cbn [andb]. rewrite !andb_true_iff, !Z.leb_le. rewrite <- Em. split; intros H; lia.
Qed.

(* a smaller multiple of the unit of a representable value is representable *)
Lemma rep_below_gen : forall f k m t r, 0 <= t -> 0 < m -> Z.odd m = true -> rep f k (m * 2 ^ t) ->
  0 <= r <= m * 2 ^ t -> (2 ^ t | r) -> rep f k r.
Proof.
  intros f k m t r Ht Hm Ho Hrep Hr [c Hc]. pose proof (pow2_gt0 t Ht) as Hp.
  destruct (Z.eq_dec r 0) as [->|Hr0]; [apply rep_0|].
  assert (Hcpos : 0 < c) by nia.
  destruct (odd_part c Hcpos) as (tc & mc & Htc & Hoc & Hmc & Ec).
  assert (Er : r = mc * 2 ^ (tc + t)) by (rewrite pow2_add by lia; nia).
  rewrite Er. apply (rep_iff f k m t Ht Hm Ho) in Hrep. destruct Hrep as (Hd & Hmin & Hmax).
  apply rep_iff; try lia; try assumption.
  pose proof (pow2_gt0 tc Htc) as Hpc.
  assert (Hle : mc * 2 ^ tc <= m) by nia.
  pose proof (digits_mul_pow2 mc tc Hmc Htc) as Hdm.
  pose proof (digits_le_mono (mc * 2 ^ tc) m ltac:(nia)) as Hdl. lia.
Qed.

(* Sterbenz: Q <= P <= 2Q, both representable: P - Q is representable *)
Lemma rep_sterbenz : forall f k P Q, rep f k P -> rep f k Q -> 0 < Q -> Q <= P <= 2 * Q -> rep f k (P - Q).
Proof.
  intros f k P Q HP HQ HQ0 Hle.
  destruct (odd_part P ltac:(lia)) as (tp & mp & Htp & Hop & Hmp & EP).
  destruct (odd_part Q HQ0) as (tq & mq & Htq & Hoq & Hmq & EQ).
  pose proof (pow2_gt0 tp Htp) as Hpp. pose proof (pow2_gt0 tq Htq) as Hpq.
  destruct (Z_le_gt_dec tp tq) as [Hc|Hc].
  - rewrite EP in HP. apply (rep_below_gen f k mp tp (P - Q) Htp Hmp Hop HP); [lia|].
    exists (mp - mq * 2 ^ (tq - tp)). rewrite Z.mul_sub_distr_r, <- Z.mul_assoc, <- pow2_add by lia.
    replace (tq - tp + tp) with tq by lia. lia.
  - rewrite EQ in HQ. apply (rep_below_gen f k mq tq (P - Q) Htq Hmq Hoq HQ); [lia|].
    exists (mp * 2 ^ (tp - tq) - mq). rewrite Z.mul_sub_distr_r, <- Z.mul_assoc, <- pow2_add by lia.
    replace (tp - tq + tq) with tp by lia. lia.
Qed.

(* doubling a representable value stays representable while the top allows it *)
Lemma rep_double : forall f k V, rep f k V -> 0 < V -> digits (2 * V) - k <= emax f -> rep f k (2 * V).
Proof.
  intros f k V HV HV0 Htop.
  destruct (odd_part V HV0) as (t & m & Ht & Ho & Hm & E). pose proof (pow2_gt0 t Ht) as Hp.
  rewrite E in HV. apply (rep_iff f k m t Ht Hm Ho) in HV. destruct HV as (Hd & Hmin & Hmax).
  replace (2 * V) with (m * 2 ^ (t + 1)) in * by (rewrite pow2_succ by lia; lia).
  apply rep_iff; try lia; try assumption.
  rewrite digits_mul_pow2 in Htop by lia. lia.
Qed.

(* halving an even multiple: exact *)
Lemma half_exact : forall f k V, 0 < V -> rep f k V -> fmul f (mk k (2 * V)) fhalf = mk k V.
Proof.
  intros f k V HV0 HV.
  destruct (mk_fin k V ltac:(lia)) as (m & e & E & Ho & K & A). rewrite Z.abs_eq in A by lia.
  pose proof (pow2_gt0 (e + k) ltac:(lia)) as Hp.
  assert (E2 : mk k (2 * V) = FFin false m (e + 1)).
  { rewrite (mk_of_fin k false m (e + 1) Ho ltac:(lia)). f_equal.
    replace (e + 1 + k) with ((e + k) + 1) by lia. rewrite pow2_succ by lia. lia. }
  rewrite E2. unfold fhalf, fpow2. cbn [fmul fsign xorb].
  replace (Zpos m * Zpos 1) with (Zpos m) by lia. replace (e + 1 + -1) with e by lia.
  unfold rep in HV. rewrite E in HV |- *. replace (V <? 0) with false in * by lia.
  cbn [valid] in HV. rewrite !andb_true_iff, !Z.leb_le in HV. destruct HV as [[[_ Hd] Hmin] Hmax].
  apply fround_exact; try lia. change (Z.to_pos (Zpos m)) with m. apply pnorm_odd. exact Ho.
Qed.

(** * the loop test  a <= r * T(0.5): halving r is exact except for an odd multiple of the smallest
    subnormal, where it rounds to the even neighbour.  Either way the test is  A' <= H  for an
    integer H with R - 1 <= 2H <= R + 1 that depends on r only, and doubling any a that passes the
    test does not overflow *)
Lemma half_cmp : forall f k R, fmt_ok f -> 0 < R -> rep f k R -> emin f <= - k ->
  exists H, 0 <= H /\ R - 1 <= 2 * H <= R + 1 /\
            (forall V, 0 < V -> V <= H -> digits (2 * V) - k <= emax f) /\
            (forall A', fle (mk k A') (fmul f (mk k R) fhalf) = (A' <=? H)).
Proof.
  intros f k R [[Hp2 Hp64] Hpe] HR Hrep Hk.
  destruct (mk_fin k R ltac:(lia)) as (m & e & E & Ho & K & A). rewrite Z.abs_eq in A by lia.
  pose proof (pow2_gt0 (e + k) ltac:(lia)) as Hp.
  unfold rep in Hrep. rewrite E in Hrep |- *. replace (R <? 0) with false in * by lia.
  cbn [valid] in Hrep. rewrite !andb_true_iff, !Z.leb_le in Hrep. destruct Hrep as [[[_ Hd] Hmin] Hmax].
  pose proof (digits_mul_pow2 (Zpos m) (e + k) ltac:(lia) ltac:(lia)) as HdR. rewrite <- A in HdR.
  unfold fhalf, fpow2. cbn [fmul fsign xorb].
  replace (Zpos m * Zpos 1) with (Zpos m) by lia.
  destruct (Z_le_gt_dec (emin f) (e + -1)) as [Hex|Hin].
  - (* exact halving *)
    assert (Hfx : fround f false (Zpos m) (e + -1) = FFin false m (e + -1)).
    { apply fround_exact; try lia. apply (pnorm_odd m). exact Ho. }
    rewrite Hfx.
    exists (R / 2). split; [apply Z.div_pos; lia|]. split; [lia|]. split.
    + intros V HV0 HVle. pose proof (digits_le_mono (2 * V) R ltac:(lia)). lia.
    + intros A'. rewrite (mk_of_fin (k + 1) false m (e + -1) Ho ltac:(lia)).
      replace (1 * (Zpos m * 2 ^ (e + -1 + (k + 1)))) with R by (rewrite Z.mul_1_l; rewrite A at 1; f_equal; f_equal; lia).
      rewrite <- (mk_scale k 1 A') by lia. rewrite mk_fle. change (2 ^ 1) with 2. lia.
  - (* r is an odd multiple of the smallest subnormal *)
    assert (Ee : e = emin f) by lia. assert (Ek : k = - emin f) by lia.
    assert (ER : R = Zpos m) by (rewrite A; replace (e + k) with 0 by lia; change (2 ^ 0) with 1; lia).
    assert (Hm2 : Zpos m mod 2 = 1) by (rewrite Zmod_odd, Ho; reflexivity).
    assert (Hmlt : Zpos m < 2 ^ prec f) by (apply digits_lt_pow2; lia).
    assert (Hpp : 2 ^ prec f = 2 * 2 ^ (prec f - 1)).
    { replace (prec f) with ((prec f - 1) + 1) at 1 by lia. apply pow2_succ. lia. }
    set (q := Zpos m / 2).
    set (H := if Z.even q then q else q + 1).
    assert (HH : 0 <= H /\ R - 1 <= 2 * H <= R + 1 /\ H <= 2 ^ (prec f - 1)).
    { unfold H, q. rewrite ER. destruct (Z.even (Zpos m / 2)); lia. }
    assert (Hfr : fround f false (Zpos m) (e + -1) = mk k H).
    { unfold fround. replace (Zpos m <=? 0) with false by lia.
      replace (Z.max (digits (Zpos m) + (e + -1) - prec f) (emin f)) with (emin f) by lia.
      replace (emin f <=? e + -1) with false by lia. cbv zeta.
      replace (emin f - (e + -1)) with 1 by lia. change (2 ^ 1) with 2. change (2 ^ (1 - 1)) with 1.
      rewrite Hm2. fold q. fold H. change (1 <? 1) with false. cbv iota.
      unfold ffinish, mk. destruct (Z.eq_dec H 0) as [E0|E0].
      - rewrite E0. reflexivity.
      - replace (H <=? 0) with false by lia. replace (H =? 0) with false by lia.
        assert (HdH : digits H <= prec f).
        { apply digits_lt_pow2; try lia. }
        replace (emax f <? digits H + emin f) with false by (unfold emin in *; lia).
        replace (H <? 0) with false by lia. rewrite Z.abs_eq by lia. rewrite Ek.
        replace (- - emin f) with (emin f) by lia. reflexivity. }
    rewrite Hfr. exists H. split; [lia|]. split; [lia|]. split.
    + intros V HV0 HVle.
      assert (Hd2 : digits (2 * V) <= prec f + 1).
      { apply digits_lt_pow2; try lia. rewrite pow2_succ by lia. lia. }
      unfold emin in *. lia.
    + intros A'. apply mk_fle.
Qed.

(** * all scalings of |y| between |y| and the top one are representable *)
Lemma rep_pow2_between : forall f k B i J, 0 < B -> rep f k B -> rep f k (B * 2 ^ J) -> 0 <= i <= J ->
  rep f k (B * 2 ^ i).
Proof.
  intros f k B i J HB HrB HrJ Hi.
  destruct (odd_part B HB) as (t & m & Ht & Ho & Hm & E).
  rewrite E in HrB. apply (rep_iff f k m t Ht Hm Ho) in HrB.
  assert (EJ : B * 2 ^ J = m * 2 ^ (t + J)) by (rewrite E, pow2_add by lia; lia).
  rewrite EJ in HrJ. apply (rep_iff f k m (t + J) ltac:(lia) Hm Ho) in HrJ.
  replace (B * 2 ^ i) with (m * 2 ^ (t + i)) by (rewrite E, pow2_add by lia; lia).
  apply rep_iff; try lia; assumption.
Qed.

(** * first loop *)
Lemma fmod_up_spec : forall f k R H, fmt_ok f -> 0 < R -> rep f k R ->
  (forall V, 0 < V -> V <= H -> digits (2 * V) - k <= emax f) ->
  (forall A', fle (mk k A') (fmul f (mk k R) fhalf) = (A' <=? H)) ->
  forall fuel V, 0 < V -> rep f k V -> H < V * 2 ^ Z.of_nat fuel ->
  exists j, 0 <= j <= Z.of_nat fuel /\ fmod_up fuel f (mk k R) (mk k V) = Ok (mk k (V * 2 ^ j)) /\
            H < V * 2 ^ j /\ rep f k (V * 2 ^ j).
Proof.
  intros f k R H Hf HR HrR Htop Htest.
  induction fuel as [|n IH]; intros V HV HrV Hfuel.
  - exists 0. change (2 ^ Z.of_nat 0) with 1 in Hfuel. change (2 ^ 0) with 1. rewrite Z.mul_1_r.
    split; [lia|]. cbn [fmod_up]. rewrite Htest. replace (V <=? H) with false by lia.
    split; [reflexivity|]. split; [lia|exact HrV].
  - cbn [fmod_up]. rewrite Htest. destruct (V <=? H) eqn:Hc.
    + assert (Hr2 : rep f k (2 * V)) by (apply rep_double; [exact HrV|exact HV|apply Htop; lia]).
      rewrite mk_add by (replace (V + V) with (2 * V) by lia; exact Hr2).
      replace (V + V) with (2 * V) by lia.
      destruct (IH (2 * V) ltac:(lia) Hr2) as (j & Hj & Ej & Hlt & Hrj).
      { rewrite Nat2Z.inj_succ, Z.pow_succ_r in Hfuel by lia. lia. }
      exists (j + 1). rewrite pow2_succ by lia.
      replace (V * (2 * 2 ^ j)) with (2 * V * 2 ^ j) by lia.
      split; [rewrite Nat2Z.inj_succ; lia|]. split; [exact Ej|]. split; assumption.
    + exists 0. change (2 ^ 0) with 1. rewrite Z.mul_1_r.
      split; [lia|]. split; [reflexivity|]. split; [lia|exact HrV].
Qed.

(** * second loop, on integers *)
Fixpoint down_int (B : Z) (j : nat) (R : Z) : Z * bool :=
  let a := B * 2 ^ Z.of_nat j in
  let sub := a <=? R in
  let R' := if sub then R - a else R in
  match j with O => (R', sub) | S j' => down_int B j' R' end.

Lemma down_int_spec : forall B, 0 < B -> forall j R, 0 <= R < 2 * (B * 2 ^ Z.of_nat j) ->
  down_int B j R = (R mod B, Z.odd (R / B)).
Proof.
  intros B HB. induction j as [|j IH]; intros R HR.
  - cbn [down_int]. change (2 ^ Z.of_nat 0) with 1 in *. rewrite Z.mul_1_r in *.
    destruct (B <=? R) eqn:Hc.
    + assert (Hq : R / B = 1) by (symmetry; apply (Z.div_unique R B 1 (R - B)); lia).
      assert (Hm : R mod B = R - B) by (symmetry; apply (Z.mod_unique R B 1 (R - B)); lia).
      rewrite Hq, Hm. reflexivity.
    + rewrite Z.div_small, Z.mod_small by lia. reflexivity.
  - cbn [down_int]. rewrite Nat2Z.inj_succ, Z.pow_succ_r in * by lia.
    pose proof (pow2_gt0 (Z.of_nat j) ltac:(lia)) as Hp.
    set (a := B * (2 * 2 ^ Z.of_nat j)) in *.
    destruct (a <=? R) eqn:Hc.
    + rewrite IH by (unfold a in *; lia).
      assert (Ea : a = (2 * 2 ^ Z.of_nat j) * B) by (unfold a; lia).
      f_equal.
      * rewrite Ea. replace (R - 2 * 2 ^ Z.of_nat j * B) with (R + (- (2 * 2 ^ Z.of_nat j)) * B) by lia.
        apply Z_mod_plus_full.
      * rewrite Ea. replace (R - 2 * 2 ^ Z.of_nat j * B) with (R + (- (2 * 2 ^ Z.of_nat j)) * B) by lia.
        rewrite Z.div_add by lia. rewrite Z.odd_add.
        replace (- (2 * 2 ^ Z.of_nat j)) with (2 * (- 2 ^ Z.of_nat j)) by lia.
        rewrite Z.odd_mul. cbn [Z.odd andb]. rewrite xorb_false_r. reflexivity.
    + apply IH. unfold a in *. lia.
Qed.

(** * second loop, on floating-point values *)
Lemma fmod_down_spec : forall f k B, 0 < B -> rep f k B ->
  forall j fuel R, (j <= fuel)%nat -> 0 <= R < 2 * (B * 2 ^ Z.of_nat j) -> rep f k R ->
  rep f k (B * 2 ^ Z.of_nat j) ->
  fmod_down fuel f (mk k B) (mk k R) (mk k (B * 2 ^ Z.of_nat j)) =
  Ok (mk k (fst (down_int B j R)), snd (down_int B j R)).
Proof.
  intros f k B HB HrB. induction j as [|j IH]; intros fuel R Hfu HR HrR Hra.
  - change (2 ^ Z.of_nat 0) with 1 in *. rewrite Z.mul_1_r in *.
    destruct fuel as [|n]; cbn [fmod_down down_int]; change (2 ^ Z.of_nat 0) with 1; rewrite ?Z.mul_1_r;
      rewrite mk_fge, mk_feq, Z.eqb_refl; destruct (B <=? R) eqn:Hc; cbn [fst snd];
      try reflexivity; rewrite mk_sub' by (apply rep_sterbenz; try assumption; lia); reflexivity.
  - destruct fuel as [|n]; [lia|].
    pose proof (pow2_gt0 (Z.of_nat j) ltac:(lia)) as Hp.
    assert (E2 : B * 2 ^ Z.of_nat (S j) = 2 * (B * 2 ^ Z.of_nat j))
      by (rewrite Nat2Z.inj_succ, Z.pow_succ_r by lia; lia).
    assert (Hrj : rep f k (B * 2 ^ Z.of_nat j))
      by (apply (rep_pow2_between f k B (Z.of_nat j) (Z.of_nat (S j))); try assumption; lia).
    cbn [fmod_down down_int]. rewrite mk_fge, mk_feq.
    replace (B * 2 ^ Z.of_nat (S j) =? B) with false by nia.
    set (a := B * 2 ^ Z.of_nat (S j)) in *.
    assert (Hnext : fmul f (mk k a) fhalf = mk k (B * 2 ^ Z.of_nat j)).
    { rewrite E2. apply half_exact; [nia|exact Hrj]. }
    rewrite Hnext.
    destruct (a <=? R) eqn:Hc.
    + rewrite mk_sub' by (apply rep_sterbenz; try assumption; lia).
      apply IH; [lia|lia| |exact Hrj]. apply rep_sterbenz; try assumption; lia.
    + apply IH; [lia|lia|exact HrR|exact Hrj].
Qed.
