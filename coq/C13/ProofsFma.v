(* C13 — etl::fma: in constant evaluation x * y + z (two roundings), at run time the fused builtin
   (one rounding).  The two differ whenever the product is inexact (recorded finding
   KF-C13-fma-unfused); they agree when the product is exactly representable. *)
From Tetl Require Import Lib.Base C13.Float C13.Model C13.Spec.
Local Open Scope Z_scope.

(* fma(0.1f, 10.0f, -1.0f): 0 in constant evaluation, 2^-26 * 1.6 = 1.49e-9 fused *)
Definition fma_w_x := decode binary32 1036831949.
Definition fma_w_y := decode binary32 1092616192.
Definition fma_w_z := decode binary32 3212836864.

Lemma fma_refuted :
  valid binary32 fma_w_x = true /\ valid binary32 fma_w_y = true /\ valid binary32 fma_w_z = true /\
  encode binary32 (ct_fma binary32 fma_w_x fma_w_y fma_w_z) = 0 /\
  encode binary32 (rt_fma binary32 fma_w_x fma_w_y fma_w_z) = 847249408.
Proof. repeat split; vm_compute; reflexivity. Qed.

Lemma fma_differs : exists f x y z, valid f x = true /\ valid f y = true /\ valid f z = true /\
  ct_fma f x y z <> rt_fma f x y z.
Proof.
  exists binary32, fma_w_x, fma_w_y, fma_w_z. repeat split; try (vm_compute; reflexivity).
  vm_compute. discriminate.
Qed.
