(* C13 — gcem::fmod (constant evaluation: exact binary long division) = C fmod (run time), for every
   pair of values of every format with 2 <= precision < emax. *)
From Tetl Require Import Lib.Base C13.Float C13.Model C13.Spec C13.ProofsKit C13.ProofsCls C13.ProofsRoundKit
  C13.ProofsFmaExact C13.ProofsFmodKit.
From Coq Require Import ZifyBool.
Local Open Scope Z_scope.
Ltac Zify.zify_post_hook ::= Z.to_euclidean_division_equations.

(* the remainder of representable values is representable *)
Lemma rep_mod : forall f k A B, 0 < A -> 0 < B -> rep f k A -> rep f k B -> rep f k (A mod B).
Proof.
  intros f k A B HA HB HrA HrB.
  destruct (odd_part A HA) as (ta & ma & Hta & Hoa & Hma & EA).
  destruct (odd_part B HB) as (tb & mb & Htb & Hob & Hmb & EB).
  pose proof (pow2_gt0 ta Hta) as Hpa. pose proof (pow2_gt0 tb Htb) as Hpb.
  pose proof (Z.mod_pos_bound A B HB) as Hm. pose proof (Z.div_mod A B ltac:(lia)) as Edm.
  assert (Hle : A mod B <= A) by (apply Z.mod_le; lia).
  destruct (Z_le_gt_dec ta tb) as [Hc|Hc].
  - rewrite EA in HrA. apply (rep_below_gen f k ma ta (A mod B) Hta Hma Hoa HrA); [lia|].
    exists (ma - mb * 2 ^ (tb - ta) * (A / B)).
    assert (EB' : B = mb * 2 ^ (tb - ta) * 2 ^ ta).
    { rewrite <- Z.mul_assoc, <- pow2_add by lia. replace (tb - ta + ta) with tb by lia. exact EB. }
    nia.
  - rewrite EB in HrB. apply (rep_below_gen f k mb tb (A mod B) Htb Hmb Hob HrB); [lia|].
    exists (ma * 2 ^ (ta - tb) - mb * (A / B)).
    assert (EA' : A = ma * 2 ^ (ta - tb) * 2 ^ tb).
    { rewrite <- Z.mul_assoc, <- pow2_add by lia. replace (ta - tb + tb) with ta by lia. exact EA. }
    nia.
Qed.

Lemma rep_top : forall f k V, 0 < V -> rep f k V -> digits V - k <= emax f.
Proof.
  intros f k V HV Hr. destruct (odd_part V HV) as (t & m & Ht & Ho & Hm & E).
  rewrite E in Hr. apply (rep_iff f k m t Ht Hm Ho) in Hr. destruct Hr as (_ & _ & Hmax).
  rewrite E, digits_mul_pow2 by lia. lia.
Qed.

Section Fmod.
Variable f : fmt.
Hypothesis Hf : fmt_ok f.

(* fmod_exact on |x| = A * 2^-k >= |y| = B * 2^-k *)
Lemma fmod_exact_spec : forall k A B, 0 < B <= A -> rep f k A -> rep f k B -> emin f <= - k ->
  gcem_fmod_exact f (mk k A) (mk k B) = Ok (mk k (A mod B), Z.odd (A / B)).
Proof.
  intros k A B HAB HrA HrB Hk. pose proof Hf as [[Hp2 Hp64] Hpe].
  destruct (half_cmp f k A Hf ltac:(lia) HrA Hk) as (H & HH0 & HH & Htop & Htest).
  unfold gcem_fmod_exact.
  assert (Hfuel : H < B * 2 ^ Z.of_nat (fmod_fuel f)).
  { unfold fmod_fuel. rewrite Z2Nat.id by lia.
    pose proof (rep_top f k A ltac:(lia) HrA) as HtA.
    pose proof (digits_pos A ltac:(lia)) as (_ & _ & HAlt).
    assert (2 ^ digits A <= 2 ^ (2 * emax f + 2 * prec f + 4)).
    { apply Z.pow_le_mono_r; [lia|]. unfold emin in Hk. lia. }
    pose proof (pow2_gt0 (2 * emax f + 2 * prec f + 4) ltac:(lia)). nia. }
  destruct (fmod_up_spec f k A H Hf ltac:(lia) HrA Htop Htest (fmod_fuel f) B ltac:(lia) HrB Hfuel)
    as (j & Hj & Eup & Hlt & Hrj).
  rewrite Eup. cbn [rbind].
  replace j with (Z.of_nat (Z.to_nat j)) in * by (apply Z2Nat.id; lia).
  rewrite (fmod_down_spec f k B ltac:(lia) HrB (Z.to_nat j) (fmod_fuel f) A); try assumption; try lia.
  rewrite down_int_spec by lia. reflexivity.
Qed.
End Fmod.

(** * the whole function *)
Lemma gcem_abs_fin : forall s m e, gcem_abs (FFin s m e) = FFin false m e.
Proof. intros [|] m e; reflexivity. Qed.

Lemma flt_fin_zero : forall s m e, flt (FFin s m e) (FZero false) = s.
Proof. intros [|] m e; reflexivity. Qed.

Lemma with_sign_mk_nonneg : forall (s : bool) k R, 0 <= R ->
  (if s then fneg (mk k R) else mk k R) = with_sign s (mk k R).
Proof.
  intros s k R HR. destruct (Z.eq_dec R 0) as [->|H0]; [destruct s; reflexivity|].
  destruct (mk_fin k R H0) as (m & e & E & _). rewrite E. replace (R <? 0) with false by lia.
  destruct s; reflexivity.
Qed.

Lemma fmake_with_sign : forall s k r, 0 <= r -> fmake s r (- k) = with_sign s (mk k r).
Proof.
  intros s k r Hr. unfold fmake, mk. destruct (Z.eq_dec r 0) as [->|H0]; [reflexivity|].
  replace (r <=? 0) with false by lia. replace (r =? 0) with false by lia.
  replace (r <? 0) with false by lia. rewrite Z.abs_eq by lia. cbn [fnorm].
  destruct (pnorm (Z.to_pos r) (- k)). reflexivity.
Qed.

(* both operands at the scale of the smaller exponent *)
Definition cscale (e1 e2 : Z) : Z := - Z.min e1 e2.

Lemma fin_at_scale : forall f s m e k, valid f (FFin s m e) = true -> - k <= e ->
  FFin false m e = mk k (Zpos m * 2 ^ (e + k)) /\ 0 < Zpos m * 2 ^ (e + k) /\
  rep f k (Zpos m * 2 ^ (e + k)).
Proof.
  intros f s m e k Hv Hk. pose proof Hv as Hv'. cbn [valid] in Hv'.
  rewrite !andb_true_iff in Hv'. destruct Hv' as [[[Ho _] _] _].
  pose proof (pow2_gt0 (e + k) ltac:(lia)) as Hp.
  assert (E : FFin false m e = mk k (Zpos m * 2 ^ (e + k))).
  { rewrite (mk_of_fin k false m e Ho Hk). f_equal. lia. }
  split; [exact E|]. split; [nia|]. unfold rep. rewrite <- E. exact Hv.
Qed.

Section FmodTop.
Variable f : fmt.
Hypothesis Hf : fmt_ok f.

Theorem fmod_ct_eq_rt : forall x y, valid f x = true -> valid f y = true ->
  ct_fmod f x y = Ok (rt_fmod x y).
Proof.
  intros x y Hx Hy.
  destruct x as [s1|s1|s1|s1 m1 e1]; destruct y as [s2|s2|s2|s2 m2 e2];
    try (unfold ct_fmod; rewrite !gcem_is_nan_spec, gcem_is_finite_spec; destruct s1; destruct s2; reflexivity).
  (* finite / finite *)
  { set (k := cscale e1 e2).
    assert (Hk1 : - k <= e1) by (unfold k, cscale; lia).
    assert (Hk2 : - k <= e2) by (unfold k, cscale; lia).
    destruct (fin_at_scale f s1 m1 e1 k Hx Hk1) as (EA & HA & HrA).
    destruct (fin_at_scale f s2 m2 e2 k Hy Hk2) as (EB & HB & HrB).
    set (A := Zpos m1 * 2 ^ (e1 + k)) in *. set (B := Zpos m2 * 2 ^ (e2 + k)) in *.
    assert (Hemin : emin f <= - k).
    { cbn [valid] in Hx, Hy. rewrite !andb_true_iff, !Z.leb_le in Hx, Hy. unfold k, cscale. lia. }
    assert (Hrt : rt_fmod (FFin s1 m1 e1) (FFin s2 m2 e2) = with_sign s1 (mk k (A mod B))).
    { cbn [rt_fmod]. unfold rem_parts.
      replace (Z.min e1 e2) with (- k) by (unfold k, cscale; lia).
      replace (e1 - - k) with (e1 + k) by lia. replace (e2 - - k) with (e2 + k) by lia.
      fold A. fold B. apply fmake_with_sign. apply Z.mod_pos_bound. lia. }
    rewrite Hrt. unfold ct_fmod.
    assert (Hlad : gcem_is_nan (FFin s1 m1 e1) || gcem_is_nan (FFin s2 m2 e2)
                   || negb (gcem_is_finite (FFin s1 m1 e1)) || feq (FFin s2 m2 e2) (FZero false) = false).
    { rewrite !gcem_is_nan_spec, gcem_is_finite_spec. destruct s2; reflexivity. }
    rewrite Hlad. cbv zeta. rewrite !gcem_abs_fin, EA, EB, mk_fge.
    destruct (B <=? A) eqn:Hc; cbn [negb].
    + rewrite (fmod_exact_spec f Hf k A B) by (try assumption; lia). cbn [rbind fst].
      rewrite flt_fin_zero. f_equal. apply with_sign_mk_nonneg. apply Z.mod_pos_bound. lia.
    + f_equal. rewrite Z.mod_small by lia. rewrite <- EA. reflexivity. }
Qed.
End FmodTop.
