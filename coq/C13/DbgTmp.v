(* C13 — detail::rint_fallback / lrint_fallback (constant evaluation: truncate to long long, look at
   the fraction, step by one, restore the sign of a zero result with copysign) = IEC 60559
   roundToIntegralTiesToEven / convertToIntegerTiesToEven (run time: __builtin_rint*, __builtin_l{,l}rint*
   in the default rounding mode), for every value of every interchange-like format with
   2 <= precision <= 64 < emax. *)
From Tetl Require Import Lib.Base C13.Float C13.Model C13.Spec C13.ProofsKit C13.ProofsCls C13.ProofsRoundKit
  C13.ProofsCeilTrunc C13.ProofsRoundAway.
From Coq Require Import ZifyBool.
Local Open Scope Z_scope.
Ltac Zify.zify_post_hook ::= Z.to_euclidean_division_equations.

Definition up_to_nan_sign (a b : fval) : Prop := a = b \/ (is_nan a = true /\ is_nan b = true).

(** * the integer arithmetic of the correction step *)
Definition rint_step (v h : Z) : Z :=
  let D := 2 * h in
  let n := Z.quot v D in
  let rho := v - n * D in
  let odd := negb (Z.rem n 2 =? 0) in
  n + (if (h <? rho) || ((rho =? h) && odd) then 1
       else if (rho <? - h) || ((rho =? - h) && odd) then -1 else 0).

Lemma rint_arith : forall v h, 0 < h -> v <> 0 -> rint_step v h = zround_even v (2 * h).
Proof.
  intros v h Hh Hv. unfold rint_step, zround_even. cbv zeta.
  pose proof (Z.div_mod (Z.abs v) (2 * h) ltac:(lia)) as E.
  pose proof (Z.mod_pos_bound (Z.abs v) (2 * h) ltac:(lia)) as B.
  assert (Hq0 : 0 <= Z.abs v / (2 * h)) by (apply Z.div_pos; lia).
  remember (Z.abs v / (2 * h)) as q. remember (Z.abs v mod (2 * h)) as r.
  rewrite Zeven_mod.
  destruct (Z_lt_le_dec v 0) as [Hneg|Hpos].
  - assert (En : Z.quot v (2 * h) = - q).
    { replace v with (- Z.abs v) by lia. rewrite Z.quot_opp_l by lia.
      rewrite Z.quot_div_nonneg by lia. lia. }
    rewrite En. replace (Z.sgn v) with (-1) by lia.
    assert (Er : Z.rem (- q) 2 = - (q mod 2)).
    { rewrite Z.rem_opp_l by lia. rewrite Z.rem_mod_nonneg by lia. reflexivity. }
    rewrite Er.
    destruct (2 * r <? 2 * h) eqn:C1; [|destruct (2 * h <? 2 * r) eqn:C2; [|destruct (q mod 2 =? 0) eqn:C3]];
      match goal with |- context [if ?c then 1 else _] => destruct c eqn:D1 end;
      try match goal with |- context [if ?c then -1 else 0] => destruct c eqn:D2 end; try lia. Show. all: admit.
  - assert (En : Z.quot v (2 * h) = q).
    { rewrite Z.quot_div_nonneg by lia. rewrite Heqq. f_equal. lia. }
    rewrite En. replace (Z.sgn v) with 1 by lia.
    assert (Er : Z.rem q 2 = q mod 2) by (apply Z.rem_mod_nonneg; lia).
    rewrite Er.
    destruct (2 * r <? 2 * h) eqn:C1; [|destruct (2 * h <? 2 * r) eqn:C2; [|destruct (q mod 2 =? 0) eqn:C3]];
      match goal with |- context [if ?c then 1 else _] => destruct c eqn:D1 end;
      try match goal with |- context [if ?c then -1 else 0] => destruct c eqn:D2 end; lia.
Qed.

