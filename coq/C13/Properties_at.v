(* C13 — constant evaluation succeeds for detail::memchr (behind etl::memchr and the constexpr etl::wmemchr) on EVERY
   range [p + off, p + off + n) inside the array object, including the ranges that end flush with the end of the
   array and the empty range at the end, and returns what the C library returns: the first position of the
   character in the range or the null pointer.  (`Ok` = no read outside the array = the call is a constant
   expression as far as the library code is concerned.)  Second half: the order of the two tests in the loop
   matters -- the variant that reads the element first is undefined on exactly these ranges. *)
From Tetl Require Import Lib.Base C13.Model C13.Spec C13.ProofsAt.
Local Open Scope Z_scope.

Theorem C13_memchr_range :
  (forall buf off n ch, (off + n <= length buf)%nat ->
     ct_memchr_at buf off ch n = Ok (index_of (wrapu 8 ch) (firstn n (skipn off buf)) 0)) /\
  (forall buf off ch, (off <= length buf)%nat -> index_of (wrapu 8 ch) (skipn off buf) 0 = None ->
     ct_memchr_at buf off ch (length buf - off) = Ok None) /\
  (forall buf ch, ct_memchr_at buf (length buf) ch 0 = Ok None) /\
  (forall buf ch, index_of (wrapu 8 ch) buf 0 = None ->
     memchr_eager buf ch (Z.of_nat (length buf)) = UB OutOfBounds).
Proof. exact (conj memchr_at_ok (conj memchr_flush_absent (conj memchr_empty_at_end memchr_eager_flush_ub))). Qed.
Print Assumptions C13_memchr_range.

(* non-vacuous: an absent character over a whole 4-element array, a suffix, the empty range at the end; a hit *)
Example C13_memchr_range_nonvacuous :
  ct_memchr_at [97; 98; 99; 100] 0 120 4 = Ok None /\ ct_memchr_at [97; 98; 99; 100] 2 97 2 = Ok None /\
  ct_memchr_at [97; 98; 99; 100] 4 97 0 = Ok None /\ ct_memchr_at [97; 98; 99; 100] 1 100 3 = Ok (Some 2) /\
  memchr_eager [97; 98; 99; 100] 120 4 = UB OutOfBounds /\ memchr_eager [97; 98; 99; 100] 100 4 = Ok (Some 3).
Proof. repeat split; reflexivity. Qed.
