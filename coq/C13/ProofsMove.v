(* C13 — wmemmove: the constant-evaluation path (direction found by an equality scan) and the run-time path
   (direction found by ps < pd) both produce the C memmove result, for every placement of destination and source in
   one array (every overlap) and for two different arrays.  Builds on C18's proofs of the two loops. *)
From Tetl Require Import Lib.Base C18.Model C18.Spec C18.ProofsWrite C18.ProofsMove C18.ProofsExt C13.ModelMove.
From Coq Require Import ZifyBool.
Local Open Scope Z_scope.
Ltac Zify.zify_post_hook ::= Z.to_euclidean_division_equations.

(* the scan answers "s < d < s + n" *)
Lemma scan_hit_spec : forall k d s i, scan_hit d s i k = true <-> (s + i <= d /\ d < s + i + k)%nat.
Proof.
  induction k as [|k IH]; intros d s i; cbn [scan_hit].
  - split; [discriminate | lia].
  - destruct (d =? s + i)%nat eqn:E.
    + split; [intros _; lia | reflexivity].
    + rewrite IH. split; lia.
Qed.

Lemma ct_backward_spec : forall d s n, ct_backward d s n = true <-> (s < d /\ d < s + n)%nat.
Proof. intros d s n. unfold ct_backward. rewrite scan_hit_spec. lia. Qed.

(* the forward loop is also right when the destination starts at or behind the end of the source *)
Lemma mm_fwd_ok_disjoint : forall n m d s, (s + n <= d)%nat -> (d + n <= length m)%nat ->
  exists m', mm_fwd m d s n = Ok m' /\ moved m d s n m'.
Proof.
  induction n as [|n IH]; intros m d s Hds Hd.
  - exists m. split; [reflexivity|]. split; [reflexivity|]. intros i.
    destruct ((d <=? i) && (i <? d + 0))%nat eqn:E; [lia | reflexivity].
  - destruct (rd_ok m s) as [v [Hr Hv]]; [lia|].
    destruct (wr_ok m d v) as [m1 [Hw [Hl1 Hn1]]]; [lia|].
    destruct (IH m1 (S d) (S s)) as [m' [Hrun [Hl' Hn']]]; [lia | lia |].
    exists m'. cbn [mm_fwd]. rewrite Hr. cbn [rbind]. rewrite Hw. cbn [rbind]. split; [assumption|].
    split; [lia|]. intros i. rewrite Hn'.
    destruct ((S d <=? i) && (i <? S d + n))%nat eqn:E.
    + rewrite Hn1. destruct (S s + (i - S d) =? d)%nat eqn:E2; [lia|].
      destruct ((d <=? i) && (i <? d + S n))%nat eqn:E3; [|lia]. f_equal. lia.
    + rewrite Hn1. destruct (i =? d)%nat eqn:E2.
      * assert (i = d) by lia. subst i.
        destruct ((d <=? d) && (d <? d + S n))%nat eqn:E3; [|lia].
        rewrite Nat.sub_diag, Nat.add_0_r. symmetry. assumption.
      * destruct ((d <=? i) && (i <? d + S n))%nat eqn:E3; [lia | reflexivity].
Qed.

Theorem ct_memmove_ok : forall m d s n, (d + n <= length m)%nat -> (s + n <= length m)%nat ->
  ct_memmove m d s n = Ok (memmove_s m d s n).
Proof.
  intros m d s n Hd Hs. unfold ct_memmove. destruct (ct_backward d s n) eqn:E.
  - apply ct_backward_spec in E.
    destruct (mm_bwd_ok n m d s) as [m' [Hrun Hm]]; [lia | lia |].
    rewrite Hrun. f_equal. eapply moved_unique; [eassumption|]. apply memmove_s_moved; assumption.
  - assert (Hn : ~ (s < d /\ d < s + n)%nat) by (intros H; apply ct_backward_spec in H; congruence).
    destruct (Nat.le_gt_cases d s) as [Hle | Hgt].
    + destruct (mm_fwd_ok n m d s) as [m' [Hrun Hm]]; [lia | lia |].
      rewrite Hrun. f_equal. eapply moved_unique; [eassumption|]. apply memmove_s_moved; assumption.
    + destruct (mm_fwd_ok_disjoint n m d s) as [m' [Hrun Hm]]; [lia | lia |].
      rewrite Hrun. f_equal. eapply moved_unique; [eassumption|]. apply memmove_s_moved; assumption.
Qed.

(* both paths, one array: compile time = run time = memmove *)
Theorem wmemmove_ct_eq_rt : forall m d s n, (d + n <= length m)%nat -> (s + n <= length m)%nat ->
  ct_memmove m d s n = Ok (memmove_s m d s n) /\ memmove_m m d s n = Ok (memmove_s m d s n).
Proof. intros m d s n Hd Hs. split; [apply ct_memmove_ok | apply memmove_ok]; assumption. Qed.

(* two different arrays: the scan never hits (forward copy); at run time either outcome of the unspecified
   comparison gives the same result, the memcpy result *)
Theorem wmemmove2_ct_eq_rt : forall d s n, (n <= length s)%nat -> (n <= length d)%nat ->
  ct_memmove2 d s n = Ok (memcpy_s d s n) /\ forall below, memmove2_m below d s n = Ok (memcpy_s d s n).
Proof.
  intros d s n Hs Hd. split; [apply memmove2_ok; assumption | intros below; apply memmove2_ok; assumption].
Qed.

(* the directions themselves may differ (destination behind the END of the source: run time copies backward,
   constant evaluation forward) -- it does not matter, which is what the theorem says *)
Lemma directions_differ : ct_backward 5 1 3 = false /\ (1 <? 5)%nat = true.
Proof. split; reflexivity. Qed.
