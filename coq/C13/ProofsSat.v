(* C13 — saturating addition: both strategies of detail::add_sat_fallback, the if-constexpr ladder
   that selects them, and the __builtin_add_overflow path of etl::add_sat all compute the exact
   sum clamped to the range of the type, for integer types of ANY width.
   Method: unfold the range functions, name the powers of two (H = 2^(bits-1), M = 2^bits = 2H,
   W = 2^ww >= 2M) and finish by linear arithmetic; the wraps are discharged by Z.mod_small. *)
From Tetl Require Import Lib.Base C13.Float C13.Model C13.Spec.
Local Open Scope Z_scope.
Ltac Zify.zify_post_hook ::= Z.to_euclidean_division_equations.

(** * facts about the powers of two *)
Lemma pow2_half : forall b, 0 < b -> 2 ^ b = 2 * 2 ^ (b - 1).
Proof.
  intros b Hb. replace b with (Z.succ (b - 1)) at 1 by lia.
  apply Z.pow_succ_r. lia.
Qed.

Lemma pow2_half_pos : forall b, 0 < b -> 0 < 2 ^ (b - 1).
Proof. intros b Hb. apply Z.pow_pos_nonneg; lia. Qed.

Lemma pow2_wider : forall b ww, 0 < b -> b < ww -> 2 * 2 ^ b <= 2 ^ ww.
Proof.
  intros b ww Hb Hlt.
  replace (2 * 2 ^ b) with (2 ^ (Z.succ b)) by (apply Z.pow_succ_r; lia).
  apply Z.pow_le_mono_r; lia.
Qed.

(* the range of a type, in terms of H = 2^(bits-1) *)
Lemma in_ty_signed : forall t x, sgn t = true ->
  in_ty t x = ((- 2 ^ (bits t - 1) <=? x) && (x <=? 2 ^ (bits t - 1) - 1)).
Proof. intros t x Hs. unfold in_ty, imin, imax, smin, smax. rewrite Hs. reflexivity. Qed.

Lemma in_ty_unsigned : forall t x, sgn t = false ->
  in_ty t x = ((0 <=? x) && (x <=? 2 ^ bits t - 1)).
Proof. intros t x Hs. unfold in_ty, imin, imax, umax. rewrite Hs. reflexivity. Qed.

(* clamp is max/min when the interval is not empty *)
Lemma clamp_max_min : forall v lo hi, lo <= hi -> clamp v lo hi = Z.max lo (Z.min hi v).
Proof.
  intros v lo hi Hle. unfold clamp.
  destruct (v <? lo) eqn:H1; [lia|]. destruct (hi <? v) eqn:H2; lia.
Qed.

(** * strategy 1: add in a wider type, clamp *)
Theorem add_sat_wide_eq : forall t ww x y, 0 < bits t -> bits t < ww ->
  in_ty t x = true -> in_ty t y = true -> add_sat_wide t ww x y = Ok (rt_add_sat t x y).
Proof.
  intros t ww x y Hb Hww Hx Hy.
  pose proof (pow2_half (bits t) Hb) as HM.
  pose proof (pow2_half_pos (bits t) Hb) as HH.
  pose proof (pow2_wider (bits t) ww Hb Hww) as HW.
  pose proof (pow2_half ww ltac:(lia)) as HW2.
  unfold add_sat_wide, rt_add_sat.
  destruct (sgn t) eqn:Hs.
  - rewrite (in_ty_signed t x Hs) in Hx. rewrite (in_ty_signed t y Hs) in Hy.
    unfold imin, imax, smin, smax. rewrite Hs.
    unfold chk, in_ty, imin, imax, smin, smax. cbn [sgn bits].
    revert Hx Hy HM HH HW HW2.
    generalize (2 ^ (bits t - 1)) as H, (2 ^ bits t) as M, (2 ^ (ww - 1)) as HWw, (2 ^ ww) as W.
    intros H M HWw W Hx Hy HM HH HW HW2.
    destruct ((- HWw <=? x + y) && (x + y <=? HWw - 1)) eqn:Hfit; [|lia].
    cbn [rbind]. rewrite clamp_max_min by lia. reflexivity.
  - rewrite (in_ty_unsigned t x Hs) in Hx. rewrite (in_ty_unsigned t y Hs) in Hy.
    unfold imin, imax, umax, wrapu. rewrite Hs.
    rewrite Z.mod_small by lia.
    rewrite clamp_max_min by lia. reflexivity.
Qed.

(** * strategy 2: compare before adding *)
Theorem add_sat_top_eq : forall t x y, 0 < bits t ->
  in_ty t x = true -> in_ty t y = true -> add_sat_top t x y = Ok (rt_add_sat t x y).
Proof.
  intros t x y Hb Hx Hy.
  pose proof (pow2_half (bits t) Hb) as HM.
  pose proof (pow2_half_pos (bits t) Hb) as HH.
  unfold add_sat_top, rt_add_sat, chk.
  destruct (sgn t) eqn:Hs.
  - rewrite (in_ty_signed t x Hs) in Hx. rewrite (in_ty_signed t y Hs) in Hy.
    rewrite ?(in_ty_signed t (x + y) Hs).
    unfold imin, imax, smin, smax. rewrite Hs.
    revert Hx Hy HH. generalize (2 ^ (bits t - 1)) as H. intros H Hx Hy HH.
    destruct (0 <=? x) eqn:H0x.
    + destruct (H - 1 - x <? y) eqn:Hov.
      * f_equal. lia.
      * destruct ((- H <=? x + y) && (x + y <=? H - 1)) eqn:Hfit; [|lia]. f_equal. lia.
    + destruct (y <? - H - x) eqn:Hov.
      * f_equal. lia.
      * destruct ((- H <=? x + y) && (x + y <=? H - 1)) eqn:Hfit; [|lia]. f_equal. lia.
  - rewrite (in_ty_unsigned t x Hs) in Hx. rewrite (in_ty_unsigned t y Hs) in Hy.
    rewrite ?(in_ty_unsigned t (x + y) Hs).
    unfold imin, imax, umax, wrapu. rewrite Hs.
    destruct (2 ^ bits t - 1 - x <? y) eqn:Hov.
    + f_equal. lia.
    + rewrite Z.mod_small by lia. f_equal. lia.
Qed.

(** * the if-constexpr ladder of add_sat_fallback.
    Widths below 32 add in [int].  For an UNSIGNED type of exactly 31 bits the sum of two operands
    can exceed INT_MAX (see add_sat_ct_u31_overflows below), so that one combination is excluded;
    no such type exists in C++ (the unsigned types narrower than int are 8 and 16 bits wide). *)
Theorem add_sat_ct_eq_rt : forall t x y, 0 < bits t ->
  (sgn t = false -> bits t <> 31) ->
  in_ty t x = true -> in_ty t y = true -> ct_add_sat t x y = Ok (rt_add_sat t x y).
Proof.
  intros t x y Hb H31 Hx Hy. unfold ct_add_sat.
  destruct (bits t <? 32) eqn:Hlt.
  - pose proof (pow2_half (bits t) Hb) as HM.
    pose proof (pow2_half_pos (bits t) Hb) as HH.
    unfold rt_add_sat.
    change (chk i32 (x + y)) with
      (if (- 2147483648 <=? x + y) && (x + y <=? 2147483647) then Some (x + y) else None).
    destruct (sgn t) eqn:Hs.
    + assert (2 ^ (bits t - 1) <= 2 ^ 30) as Hle by (apply Z.pow_le_mono_r; lia).
      change (2 ^ 30) with 1073741824 in Hle.
      rewrite (in_ty_signed t x Hs) in Hx. rewrite (in_ty_signed t y Hs) in Hy.
      unfold imin, imax, smin, smax. rewrite Hs.
      revert Hx Hy HH Hle. generalize (2 ^ (bits t - 1)) as H. intros H Hx Hy HH Hle.
      destruct ((- 2147483648 <=? x + y) && (x + y <=? 2147483647)) eqn:Hfit; [|lia].
      cbn [rbind]. rewrite clamp_max_min by lia. reflexivity.
    + assert (2 ^ bits t <= 2 ^ 30) as Hle by (apply Z.pow_le_mono_r; specialize (H31 eq_refl); lia).
      change (2 ^ 30) with 1073741824 in Hle.
      rewrite (in_ty_unsigned t x Hs) in Hx. rewrite (in_ty_unsigned t y Hs) in Hy.
      unfold imin, imax, umax. rewrite Hs.
      revert Hx Hy HM Hle. generalize (2 ^ bits t) as M. intros M Hx Hy HM Hle.
      destruct ((- 2147483648 <=? x + y) && (x + y <=? 2147483647)) eqn:Hfit; [|lia].
      cbn [rbind]. rewrite clamp_max_min by lia. reflexivity.
  - destruct (bits t =? 32) eqn:H32.
    + apply add_sat_wide_eq; try assumption. lia.
    + apply add_sat_top_eq; assumption.
Qed.

(* corollaries in the two forms that are convenient to use: every signed width; every width
   other than 31 *)
Theorem add_sat_ct_eq_rt_signed : forall t x y, 0 < bits t -> sgn t = true ->
  in_ty t x = true -> in_ty t y = true -> ct_add_sat t x y = Ok (rt_add_sat t x y).
Proof.
  intros t x y Hb Hs Hx Hy. apply add_sat_ct_eq_rt; try assumption.
  intros Hf. rewrite Hs in Hf. discriminate Hf.
Qed.

Theorem add_sat_ct_eq_rt_not31 : forall t x y, 0 < bits t -> bits t <> 31 ->
  in_ty t x = true -> in_ty t y = true -> ct_add_sat t x y = Ok (rt_add_sat t x y).
Proof.
  intros t x y Hb H31 Hx Hy. apply add_sat_ct_eq_rt; try assumption.
  intros _. exact H31.
Qed.

(* the excluded combination really fails: int overflows *)
Example add_sat_ct_u31_overflows :
  let t := {| bits := 31; sgn := false |} in
  in_ty t 2147483647 = true /\
  ct_add_sat t 2147483647 2147483647 = UB SignedOverflow /\
  rt_add_sat t 2147483647 2147483647 = 2147483647.
Proof. cbv zeta. split; [|split]; vm_compute; reflexivity. Qed.

(** * the __builtin_add_overflow path of etl::add_sat *)
Lemma wraps_small : forall b x, 0 < b -> - 2 ^ (b - 1) <= x < 2 ^ (b - 1) -> wraps b x = x.
Proof.
  intros b x Hb Hx. unfold wraps.
  pose proof (pow2_half b Hb) as HM. pose proof (pow2_half_pos b Hb) as HH.
  destruct (0 <=? x) eqn:H0x.
  - rewrite Z.mod_small by lia. destruct (x <? 2 ^ (b - 1)) eqn:Hlt; lia.
  - replace (x mod 2 ^ b) with (x + 2 ^ b).
    + destruct (x + 2 ^ b <? 2 ^ (b - 1)) eqn:Hlt; lia.
    + rewrite <- (Z.mod_small (x + 2 ^ b) (2 ^ b)) by lia.
      replace (x + 2 ^ b) with (x + 1 * 2 ^ b) by lia. apply Z_mod_plus_full.
Qed.

Theorem add_sat_code_eq_rt : forall t x y, 0 < bits t ->
  in_ty t x = true -> in_ty t y = true -> code_add_sat t x y = Ok (rt_add_sat t x y).
Proof.
  intros t x y Hb Hx Hy.
  pose proof (pow2_half (bits t) Hb) as HM.
  pose proof (pow2_half_pos (bits t) Hb) as HH.
  unfold code_add_sat, rt_add_sat, wrap_ty.
  destruct (sgn t) eqn:Hs; cbn [negb].
  - rewrite (in_ty_signed t x Hs) in Hx. rewrite (in_ty_signed t y Hs) in Hy.
    rewrite ?(in_ty_signed t (x + y) Hs).
    unfold imin, imax, smin, smax. rewrite Hs.
    destruct ((- 2 ^ (bits t - 1) <=? x + y) && (x + y <=? 2 ^ (bits t - 1) - 1)) eqn:Hfit.
    + rewrite wraps_small by lia. f_equal. lia.
    + destruct (0 <? x) eqn:H0x; f_equal; lia.
  - rewrite (in_ty_unsigned t x Hs) in Hx. rewrite (in_ty_unsigned t y Hs) in Hy.
    rewrite ?(in_ty_unsigned t (x + y) Hs).
    unfold imin, imax, umax. rewrite Hs.
    destruct ((0 <=? x + y) && (x + y <=? 2 ^ bits t - 1)) eqn:Hfit.
    + unfold wrapu. rewrite Z.mod_small by lia. f_equal. lia.
    + f_equal. lia.
Qed.
