(* C13 — the C string loops of _strings/cstr.hpp (what constant evaluation runs) agree with the
   C library specification (what the run-time builtins do), for buffers of ANY length: induction
   on the buffer with the loop accumulators generalised.
   Characters are bytes as unsigned char, i.e. non-negative: strcmp/strncmp need [0 <= c] because
   the code orders a character against the terminator with [<] (cmp3) while the specification
   says "the shorter string is smaller" (see strcmp_negative_char_differs at the end). *)
From Tetl Require Import Lib.Base C13.Float C13.Model C13.Spec.
Local Open Scope Z_scope.
Ltac Zify.zify_post_hook ::= Z.to_euclidean_division_equations.

(** * strlen *)
Lemma strlen_loop_eq : forall buf n,
  strlen_loop buf n =
  match cstr buf with Some s => Ok (n + Z.of_nat (length s)) | None => UB OutOfBounds end.
Proof.
  induction buf as [|c rest IH]; intros n; cbn [strlen_loop cstr].
  - reflexivity.
  - destruct (c =? 0) eqn:Hc.
    + cbn [length Z.of_nat]. f_equal. lia.
    + rewrite IH. destruct (cstr rest) as [s|]; cbn [option_map].
      * f_equal. cbn [length]. lia.
      * reflexivity.
Qed.

Theorem strlen_ct_eq_rt : forall buf,
  ct_strlen buf = match rt_strlen buf with Some n => Ok n | None => UB OutOfBounds end.
Proof.
  intros buf. unfold ct_strlen, rt_strlen. rewrite strlen_loop_eq.
  destruct (cstr buf) as [s|]; cbn [option_map]; reflexivity.
Qed.

Lemma cstr_terminated : forall s rest, Forall (fun c => c <> 0) s -> cstr (s ++ 0 :: rest) = Some s.
Proof.
  induction s as [|c s IH]; intros rest Hnz; cbn [app cstr].
  - reflexivity.
  - inversion Hnz as [|c' s' Hc Hs]; subst.
    destruct (c =? 0) eqn:Hc0; [lia|].
    rewrite (IH rest Hs). reflexivity.
Qed.

Theorem strlen_ct_terminated : forall s rest, Forall (fun c => c <> 0) s ->
  ct_strlen (s ++ 0 :: rest) = Ok (Z.of_nat (length s)).
Proof.
  intros s rest Hnz. rewrite strlen_ct_eq_rt. unfold rt_strlen.
  rewrite (cstr_terminated s rest Hnz). reflexivity.
Qed.

(** * strcmp *)
Lemma cmp3_refl : forall a, cmp3 a a = 0.
Proof. intros a. unfold cmp3. rewrite Z.ltb_irrefl. reflexivity. Qed.

Lemma cmp3_neq : forall a b, a <> b -> cmp3 a b = if a <? b then -1 else 1.
Proof.
  intros a b Hne. unfold cmp3.
  destruct (a <? b) eqn:Hab; destruct (b <? a) eqn:Hba; lia.
Qed.

Theorem strcmp_ct_eq_rt : forall l r v,
  Forall (fun c => 0 <= c) l -> Forall (fun c => 0 <= c) r ->
  rt_strcmp l r = Some v -> ct_strcmp l r = Ok v.
Proof.
  unfold rt_strcmp.
  induction l as [|a l' IH]; intros r v Hl Hr Hrt.
  - cbn [cstr] in Hrt. discriminate Hrt.
  - destruct r as [|b r'].
    + cbn [cstr] in Hrt. destruct (if a =? 0 then _ else _); discriminate Hrt.
    + inversion Hl as [|a0 l0 Ha Hl']; subst. inversion Hr as [|b0 r0 Hb Hr']; subst.
      cbn [cstr] in Hrt. cbn [ct_strcmp].
      destruct (a =? 0) eqn:Ha0.
      * (* the left string ends here *)
        assert (a = 0) as -> by lia.
        destruct (b =? 0) eqn:Hb0.
        -- assert (b = 0) as -> by lia. cbn [lex_cmp] in Hrt. injection Hrt as <-. reflexivity.
        -- destruct (cstr r') as [sb|]; cbn [option_map] in Hrt; [|discriminate Hrt].
           cbn [lex_cmp] in Hrt. injection Hrt as <-.
           rewrite cmp3_neq by lia. destruct (0 <? b) eqn:H0b; [reflexivity|lia].
      * destruct (cstr l') as [sa|] eqn:Hsa; cbn [option_map] in Hrt; [|discriminate Hrt].
        destruct (b =? 0) eqn:Hb0.
        -- (* the right string ends first *)
           assert (b = 0) as -> by lia.
           cbn [lex_cmp] in Hrt. injection Hrt as <-.
           destruct (a =? 0) eqn:Hab; [lia|].
           rewrite cmp3_neq by lia. destruct (a <? 0) eqn:Ha0'; [lia|reflexivity].
        -- destruct (cstr r') as [sb|] eqn:Hsb; cbn [option_map] in Hrt; [|discriminate Hrt].
           cbn [lex_cmp] in Hrt. injection Hrt as <-.
           destruct (a =? b) eqn:Hab.
           ++ assert (a = b) as -> by lia. rewrite Z.ltb_irrefl.
              apply (IH r' _ Hl' Hr'). rewrite Hsb. reflexivity.
           ++ rewrite cmp3_neq by lia.
              destruct (a <? b) eqn:Hlt; [reflexivity|].
              destruct (b <? a) eqn:Hgt; [reflexivity|lia].
Qed.

Theorem rt_strcmp_defined : forall a b ra rb, Forall (fun c => c <> 0) a -> Forall (fun c => c <> 0) b ->
  rt_strcmp (a ++ 0 :: ra) (b ++ 0 :: rb) = Some (lex_cmp a b).
Proof.
  intros a b ra rb Ha Hb. unfold rt_strcmp.
  rewrite (cstr_terminated a ra Ha), (cstr_terminated b rb Hb). reflexivity.
Qed.

(** * strncmp *)
Lemma cprefix_nonpos : forall n buf, n <=? 0 = true -> cprefix n buf = Some [].
Proof. intros n [|c rest] Hn; cbn [cprefix]; rewrite Hn; reflexivity. Qed.

Lemma ct_strncmp_nonpos : forall l r n, n <=? 0 = true -> ct_strncmp l r n = Ok 0.
Proof. intros [|a l'] r n Hn; cbn [ct_strncmp]; rewrite Hn; reflexivity. Qed.

Theorem strncmp_ct_eq_rt : forall l r n v,
  Forall (fun c => 0 <= c) l -> Forall (fun c => 0 <= c) r ->
  rt_strncmp l r n = Some v -> ct_strncmp l r n = Ok v.
Proof.
  unfold rt_strncmp.
  induction l as [|a l' IH]; intros r n v Hl Hr Hrt;
    (destruct (n <=? 0) eqn:Hn;
     [ rewrite !(cprefix_nonpos _ _ Hn) in Hrt; cbn [lex_cmp] in Hrt; injection Hrt as <-;
       apply ct_strncmp_nonpos; exact Hn | ]).
  - cbn [cprefix] in Hrt. rewrite Hn in Hrt. discriminate Hrt.
  - destruct r as [|b r'].
    + cbn [cprefix] in Hrt. rewrite Hn in Hrt.
      destruct (if a =? 0 then _ else _); discriminate Hrt.
    + inversion Hl as [|a0 l0 Ha Hl']; subst. inversion Hr as [|b0 r0 Hb Hr']; subst.
      cbn [cprefix] in Hrt. cbn [ct_strncmp]. rewrite Hn in Hrt |- *.
      destruct (a =? 0) eqn:Ha0.
      * assert (a = 0) as -> by lia.
        destruct (b =? 0) eqn:Hb0.
        -- assert (b = 0) as -> by lia. cbn [lex_cmp] in Hrt. injection Hrt as <-.
           cbn [Z.eqb negb]. reflexivity.
        -- destruct (cprefix (n - 1) r') as [sb|]; cbn [option_map] in Hrt; [|discriminate Hrt].
           cbn [lex_cmp] in Hrt. injection Hrt as <-.
           destruct (0 =? b) eqn:H0b; [lia|]. cbn [negb].
           rewrite cmp3_neq by lia. destruct (0 <? b) eqn:Hlt; [reflexivity|lia].
      * destruct (cprefix (n - 1) l') as [sa|] eqn:Hsa; cbn [option_map] in Hrt; [|discriminate Hrt].
        destruct (b =? 0) eqn:Hb0.
        -- assert (b = 0) as -> by lia.
           cbn [lex_cmp] in Hrt. injection Hrt as <-.
           rewrite Ha0. cbn [negb].
           rewrite cmp3_neq by lia. destruct (a <? 0) eqn:Hlt; [lia|reflexivity].
        -- destruct (cprefix (n - 1) r') as [sb|] eqn:Hsb; cbn [option_map] in Hrt; [|discriminate Hrt].
           cbn [lex_cmp] in Hrt. injection Hrt as <-.
           destruct (a =? b) eqn:Hab; cbn [negb].
           ++ assert (a = b) as -> by lia. rewrite Z.ltb_irrefl.
              apply (IH r' (n - 1) _ Hl' Hr'). rewrite Hsa, Hsb. reflexivity.
           ++ rewrite cmp3_neq by lia.
              destruct (a <? b) eqn:Hlt; [reflexivity|].
              destruct (b <? a) eqn:Hgt; [reflexivity|lia].
Qed.

(** * strchr *)
Lemma strchr_loop_eq : forall buf c i s, cstr buf = Some s ->
  strchr_loop buf c i = Ok (index_of c (s ++ [0]) i).
Proof.
  induction buf as [|a rest IH]; intros c i s Hs; cbn [cstr] in Hs.
  - discriminate Hs.
  - cbn [strchr_loop]. destruct (a =? 0) eqn:Ha0.
    + injection Hs as <-. assert (a = 0) as -> by lia.
      cbn [app index_of]. rewrite (Z.eqb_sym 0 c). reflexivity.
    + destruct (cstr rest) as [s'|] eqn:Hs'; cbn [option_map] in Hs; [|discriminate Hs].
      injection Hs as <-. cbn [app index_of].
      destruct (a =? c) eqn:Hac; [reflexivity|].
      apply IH. reflexivity.
Qed.

Theorem strchr_ct_eq_rt : forall buf ch r, rt_strchr buf ch = Some r -> ct_strchr buf ch = Ok r.
Proof.
  intros buf ch r Hrt. unfold rt_strchr in Hrt. unfold ct_strchr.
  destruct (cstr buf) as [s|] eqn:Hs; cbn [option_map] in Hrt; [|discriminate Hrt].
  injection Hrt as <-. apply strchr_loop_eq. exact Hs.
Qed.

(** * memchr *)
Lemma memchr_loop_eq : forall buf c i left,
  memchr_loop buf c i left =
  match index_of c (take_z left buf) i with
  | Some j => Ok (Some j)
  | None => if left <=? Z.of_nat (length buf) then Ok None else UB OutOfBounds
  end.
Proof.
  induction buf as [|a rest IH]; intros c i left; cbn [memchr_loop take_z].
  - destruct (left <=? 0) eqn:Hl; cbn [index_of length Z.of_nat]; rewrite Hl; reflexivity.
  - destruct (left <=? 0) eqn:Hl; cbn [index_of].
    + destruct (left <=? Z.of_nat (length (a :: rest))) eqn:Hlen; [reflexivity|lia].
    + destruct (a =? c) eqn:Hac; [reflexivity|].
      rewrite IH. destruct (index_of c (take_z (left - 1) rest) (i + 1)) as [j|]; [reflexivity|].
      cbn [length].
      destruct (left - 1 <=? Z.of_nat (length rest)) eqn:H1;
        destruct (left <=? Z.of_nat (S (length rest))) eqn:H2; try reflexivity; lia.
Qed.

Theorem memchr_ct_eq_rt : forall buf ch n r, rt_memchr buf ch n = Some r -> ct_memchr buf ch n = Ok r.
Proof.
  intros buf ch n r Hrt. unfold rt_memchr in Hrt. unfold ct_memchr. rewrite memchr_loop_eq.
  destruct (index_of (wrapu 8 ch) (take_z n buf) 0) as [j|].
  - injection Hrt as <-. reflexivity.
  - destruct (n <=? Z.of_nat (length buf)); [|discriminate Hrt].
    injection Hrt as <-. reflexivity.
Qed.

(** * why strcmp/strncmp need non-negative characters: with a "negative byte" (not a value of
    unsigned char) the code's ordering of a character against the terminator differs from the
    specification's "shorter string is smaller" *)
Example strcmp_negative_char_differs :
  ct_strcmp [0] [-1; 0] = Ok 1 /\ rt_strcmp [0] [-1; 0] = Some (-1).
Proof. split; reflexivity. Qed.
