(* C13 — wmemmove: the function that has two code paths since this package's fix: commit 7d6dc8f (constant
   evaluation cannot compare pointers into different arrays with <, so detail::memmove_typed finds the direction of
   the copy by an equality scan there and by ps < pd at run time).  Both paths give the C memmove result
   ("as if copied through a temporary", C17 7.24.2.2; the specification and the two loops are C18's) for EVERY
   placement of destination and source inside one array -- every overlap, every count, every content -- and for two
   different arrays; no read or write leaves the array (Ok).  The two paths may choose different directions
   (destination behind the END of the source): the theorem says it does not matter. *)
From Tetl Require Import Lib.Base C18.Model C18.Spec C13.ModelMove C13.ProofsMove.

Theorem C13_wmemmove :
  (forall m d s n, (d + n <= length m)%nat -> (s + n <= length m)%nat ->
     ct_memmove m d s n = Ok (memmove_s m d s n) /\ memmove_m m d s n = Ok (memmove_s m d s n)) /\
  (forall d s n, (n <= length s)%nat -> (n <= length d)%nat ->
     ct_memmove2 d s n = Ok (memcpy_s d s n) /\ forall below, memmove2_m below d s n = Ok (memcpy_s d s n)) /\
  (ct_backward 5 1 3 = false /\ (1 <? 5)%nat = true).
Proof. exact (conj wmemmove_ct_eq_rt (conj wmemmove2_ct_eq_rt directions_differ)). Qed.
Print Assumptions C13_wmemmove.

(* the hypotheses are satisfiable and the statement is not trivial: an overlapping move to the right *)
Example C13_wmemmove_nonvacuous :
  ct_memmove [1; 2; 3; 4; 5]%Z 1 0 3 = Ok [1; 1; 2; 3; 5]%Z /\ ct_backward 1 0 3 = true /\
  mm_fwd [1; 2; 3; 4; 5]%Z 1 0 3 = Ok [1; 1; 1; 1; 5]%Z.
Proof. repeat split; reflexivity. Qed.
