(* C13 — common part of the proofs about the gcem rounding kernels (floor/ceil/trunc/round) and
   rint: the guard ladder "NaN -> NaN | not finite -> x | x == 0 -> x | |x| >= 2^(p-1) -> x | kernel",
   and the operations the kernels use, on values written as [mk k v] = v * 2^-k. *)
From Tetl Require Import Lib.Base C13.Float C13.Model C13.Spec C13.ProofsKit C13.ProofsCls.
From Coq Require Import ZifyBool.
Local Open Scope Z_scope.
Ltac Zify.zify_post_hook ::= Z.to_euclidean_division_equations.

Definition ladder (f : fmt) (x : fval) (kern : res fval) : res fval :=
  if gcem_is_nan x then Ok qnan
  else if negb (gcem_is_finite x) then Ok x
  else if feq x (FZero false) then Ok x
  else if fge (gcem_abs x) (flimit f) then Ok x
  else kern.

Lemma ct_floor_ladder : forall f x,
  ct_floor f x = ladder f x (do n <- to_llint x; Ok (gcem_floor_int f x (of_int f n))).
Proof. reflexivity. Qed.
Lemma ct_ceil_ladder : forall f x,
  ct_ceil f x = ladder f x (do n <- to_llint x; Ok (gcem_ceil_int f x (of_int f n))).
Proof. reflexivity. Qed.
Lemma ct_trunc_ladder : forall f x, ct_trunc f x = ladder f x (gcem_trunc_int f x).
Proof. reflexivity. Qed.
Lemma ct_round_ladder : forall f x,
  ct_round f x = ladder f x (do w <- gcem_round_int f (gcem_abs x);
                             Ok (fmul f (of_int f (gcem_sgn x)) w)).
Proof. reflexivity. Qed.

Lemma mk_int : forall k n, 0 <= k -> mk k (n * 2 ^ k) = mk 0 n.
Proof. intros k n Hk. replace k with (0 + k) at 1 by lia. apply mk_scale. lia. Qed.

(** * truncating and flooring division *)
Lemma quot_div_neg : forall v D, 0 < D -> v < Z.quot v D * D -> Z.quot v D - 1 = v / D.
Proof.
  intros v D HD Hlt. pose proof (Z.quot_rem' v D) as E. pose proof (Z.rem_bound_abs v D ltac:(lia)) as B.
  apply (Z.div_unique v D (Z.quot v D - 1) (Z.rem v D + D)); lia.
Qed.

Lemma quot_div_exact : forall v D, 0 < D -> v = Z.quot v D * D -> Z.quot v D = v / D.
Proof.
  intros v D HD He. apply (Z.div_unique v D (Z.quot v D) 0); lia.
Qed.

Lemma quot_div_pos : forall v D, 0 < D -> 0 <= v -> Z.quot v D = v / D.
Proof. intros v D HD Hv. apply Z.quot_div_nonneg; lia. Qed.

(* for a negative value truncation rounds up: quot * D >= v *)
Lemma quot_neg_ge : forall v D, 0 < D -> v <= 0 -> v <= Z.quot v D * D.
Proof.
  intros v D HD Hv. pose proof (Z.quot_rem' v D) as E.
  pose proof (Z.rem_nonpos v D ltac:(lia) Hv) as B. lia.
Qed.

Lemma quot_pos_le : forall v D, 0 < D -> 0 <= v -> Z.quot v D * D <= v.
Proof.
  intros v D HD Hv. pose proof (Z.quot_rem' v D) as E.
  pose proof (Z.rem_nonneg v D ltac:(lia) Hv) as B. lia.
Qed.

(** * facts about the format *)
Section Fmt.
Variable f : fmt.
Hypothesis Hf : fmt_ok f.
Let p := prec f.

Lemma P_bounds : 2 <= 2 ^ (p - 1) <= 2 ^ 63.
Proof.
  destruct Hf as [[H1 H2] H3]. fold p in H1, H2, H3. split.
  - change 2 with (2 ^ 1) at 1. apply Z.pow_le_mono_r; lia.
  - apply Z.pow_le_mono_r; lia.
Qed.

Lemma PD : forall k, 0 <= k -> 2 ^ (p - 1 + k) = 2 ^ (p - 1) * 2 ^ k.
Proof. intros k Hk. destruct Hf as [[H1 H2] H3]. fold p in H1. apply pow2_add; lia. Qed.

Lemma small_rep : forall n, Z.abs n <= 2 ^ (p - 1) -> rep f 0 n.
Proof.
  intros n Hn. destruct Hf as [[H1 H2] H3]. fold p in H1, H2, H3.
  destruct (Z.eq_dec n 0) as [->|Hn0]; [apply rep_0|].
  assert (Hd : digits (Z.abs n) <= p).
  { apply digits_lt_pow2; [lia|lia|].
    replace p with ((p - 1) + 1) by lia. rewrite pow2_succ by lia. lia. }
  apply rep_small; fold p; unfold emin; fold p; lia.
Qed.

Lemma rep_scale : forall k j v, 0 <= j -> rep f k v -> rep f (k + j) (v * 2 ^ j).
Proof. intros k j v Hj H. unfold rep in *. rewrite mk_scale by lia. exact H. Qed.

Lemma rep_int : forall k n, 0 <= k -> Z.abs n <= 2 ^ (p - 1) -> rep f k (n * 2 ^ k).
Proof.
  intros k n Hk Hn. replace k with (0 + k) at 1 by lia. apply rep_scale; [lia|]. apply small_rep. exact Hn.
Qed.

Lemma of_int_small : forall k n, 0 <= k -> Z.abs n <= 2 ^ (p - 1) -> of_int f n = mk k (n * 2 ^ k).
Proof. intros k n Hk Hn. apply of_int_mk; [lia|]. apply rep_int; assumption. Qed.

Lemma of_int_0 : of_int f 0 = FZero false.
Proof. reflexivity. Qed.

Lemma flimit_mk : forall k, 0 <= k -> flimit f = mk k (2 ^ (p - 1 + k)).
Proof.
  intros k Hk. unfold flimit. fold p. destruct Hf as [[H1 H2] H3]. fold p in H1.
  apply fpow2_mk. lia.
Qed.

(* every value whose odd significand is at the unit of the scale dominates the integers below it *)
Lemma rep_below : forall k v r, rep f k v -> Z.odd v = true -> Z.abs r <= Z.abs v -> rep f k r.
Proof.
  intros k v r Hv Ho Hr.
  destruct (Z.eq_dec r 0) as [->|Hr0]; [apply rep_0|].
  assert (Hv0 : v <> 0) by (intros ->; discriminate Ho).
  unfold rep in *.
  destruct (mk_fin k v Hv0) as (mv & ev & Ev & Ov & Kv & Av).
  destruct (mk_fin k r Hr0) as (mr & er & Er & Or & Kr & Ar).
  rewrite Ev in Hv. rewrite Er. cbn [valid] in *.
  rewrite !andb_true_iff, !Z.leb_le in *. destruct Hv as [[[_ Hd] Hmin] Hmax].
  (* v odd: its exponent is exactly -k *)
  assert (Hev : ev + k = 0).
  { assert (Hoa : Z.odd (Z.abs v) = true) by (destruct v as [|q|q]; exact Ho).
    destruct (odd_pow2_inj (Z.abs v) (Zpos mv) 0 (ev + k)) as [_ H0]; try assumption; try lia. }
  pose proof (digits_mul_pow2 (Zpos mr) (er + k) ltac:(lia) ltac:(lia)) as Hdr. rewrite <- Ar in Hdr.
  pose proof (digits_mul_pow2 (Zpos mv) (ev + k) ltac:(lia) ltac:(lia)) as Hdv. rewrite <- Av in Hdv.
  pose proof (digits_le_mono (Z.abs r) (Z.abs v) ltac:(lia)) as Hle.
  rewrite Or. cbn [andb]. lia.
Qed.
End Fmt.

(** * operations on mk values *)
Lemma to_llint_mk : forall k v, 0 <= k -> Z.abs (Z.quot v (2 ^ k)) < 2 ^ 63 ->
  to_llint (mk k v) = Ok (Z.quot v (2 ^ k)).
Proof.
  intros k v Hk Hq. unfold to_llint, to_sint. rewrite mk_ztrunc by lia.
  unfold in_s. change (2 ^ (64 - 1)) with (2 ^ 63).
  replace ((- 2 ^ 63 <=? Z.quot v (2 ^ k)) && (Z.quot v (2 ^ k) <? 2 ^ 63)) with true by lia.
  reflexivity.
Qed.

Lemma quot_bound : forall v D P, 0 < D -> Z.abs v < P * D -> Z.abs (Z.quot v D) < P.
Proof.
  intros v D P HD Hv.
  assert (E : Z.abs (Z.quot v D) = Z.abs v / D).
  { rewrite <- Z.quot_abs by lia. rewrite (Z.abs_eq D) by lia. apply Z.quot_div_nonneg; lia. }
  rewrite E. apply Z.div_lt_upper_bound; lia.
Qed.

Lemma gcem_abs_mk : forall k v, gcem_abs (mk k v) = mk k (Z.abs v).
Proof.
  intros k v. unfold gcem_abs. change (FZero false) with (mk k 0).
  rewrite mk_feq, mk_flt.
  destruct (v =? 0) eqn:E0; [replace (Z.abs v) with 0 by lia; reflexivity|].
  destruct (v <? 0) eqn:E1.
  - rewrite mk_neg by lia. f_equal. lia.
  - f_equal. lia.
Qed.

Lemma gcem_sgn_mk : forall k v, gcem_sgn (mk k v) = Z.sgn v.
Proof.
  intros k v. unfold gcem_sgn. change (FZero false) with (mk k 0). rewrite mk_fgt, mk_flt.
  destruct (0 <? v) eqn:E0; [lia|]. destruct (v <? 0) eqn:E1; lia.
Qed.

Lemma mk_nan_fin : forall k v, gcem_is_nan (mk k v) = false /\ gcem_is_finite (mk k v) = true.
Proof.
  intros k v. rewrite gcem_is_finite_spec, gcem_is_nan_spec.
  destruct (mk_is_fin k v) as [H1 H2]. split; [exact H1|].
  destruct (mk k v); try reflexivity; discriminate.
Qed.

Lemma fsub_zero_r : forall f x, is_nan x = false -> fsub f x (FZero false) = x.
Proof. intros f x H. unfold fsub. cbn [fneg negb]. apply fadd_negzero_r. exact H. Qed.

Lemma mk_sub : forall f k u v, v <> 0 -> rep f k (u - v) -> fsub f (mk k u) (mk k v) = mk k (u - v).
Proof.
  intros f k u v Hv Hrep. unfold fsub. rewrite mk_neg by exact Hv.
  replace (u - v) with (u + - v) in * by lia. apply mk_add. exact Hrep.
Qed.

(* subtraction, also when the subtrahend is zero *)
Lemma mk_sub' : forall f k u v, rep f k (u - v) -> fsub f (mk k u) (mk k v) = mk k (u - v).
Proof.
  intros f k u v Hrep. destruct (Z.eq_dec v 0) as [->|Hv].
  - rewrite mk_0, Z.sub_0_r. apply fsub_zero_r. apply mk_is_fin.
  - apply mk_sub; assumption.
Qed.

(** * the ladder on mk values *)
Section Ladder.
Variable f : fmt.
Hypothesis Hf : fmt_ok f.
Let p := prec f.

Lemma ladder_small : forall k v kern, 0 <= k -> v <> 0 -> Z.abs v < 2 ^ (p - 1 + k) ->
  ladder f (mk k v) kern = kern.
Proof.
  intros k v kern Hk Hv Hlt. unfold ladder.
  destruct (mk_nan_fin k v) as [-> ->]. cbn [negb].
  change (FZero false) with (mk k 0) at 1. rewrite mk_feq.
  replace (v =? 0) with false by lia.
  rewrite gcem_abs_mk, (flimit_mk f Hf k Hk), mk_fge. fold p.
  replace (2 ^ (p - 1 + k) <=? Z.abs v) with false by lia. reflexivity.
Qed.

Lemma ladder_large : forall k v kern, 0 <= k -> v <> 0 -> 2 ^ (p - 1 + k) <= Z.abs v ->
  ladder f (mk k v) kern = Ok (mk k v).
Proof.
  intros k v kern Hk Hv Hge. unfold ladder.
  destruct (mk_nan_fin k v) as [-> ->]. cbn [negb].
  change (FZero false) with (mk k 0) at 1. rewrite mk_feq.
  replace (v =? 0) with false by lia.
  rewrite gcem_abs_mk, (flimit_mk f Hf k Hk), mk_fge. fold p.
  replace (2 ^ (p - 1 + k) <=? Z.abs v) with true by lia. reflexivity.
Qed.

Lemma ladder_zero : forall s kern, ladder f (FZero s) kern = Ok (FZero s).
Proof. intros [|] kern; reflexivity. Qed.
Lemma ladder_inf : forall s kern, ladder f (FInf s) kern = Ok (FInf s).
Proof. intros [|] kern; reflexivity. Qed.
Lemma ladder_nan : forall s kern, ladder f (FNaN s) kern = Ok qnan.
Proof. intros [|] kern; reflexivity. Qed.
End Ladder.

(** * a valid finite value as a mk: scale k = max 0 (-e), scaled value v *)
Definition scale_of (e : Z) : Z := Z.max 0 (- e).
Definition scaled (s : bool) (m : positive) (e : Z) : Z :=
  (if s then -1 else 1) * (Zpos m * 2 ^ (e + scale_of e)).

Lemma fin_as_mk : forall f s m e, valid f (FFin s m e) = true ->
  FFin s m e = mk (scale_of e) (scaled s m e) /\ scaled s m e <> 0 /\ ((scaled s m e <? 0) = s) /\
  rep f (scale_of e) (scaled s m e).
Proof.
  intros f s m e Hv. pose proof Hv as Hv'. cbn [valid] in Hv'.
  rewrite !andb_true_iff in Hv'. destruct Hv' as [[[Ho _] _] _].
  assert (E : FFin s m e = mk (scale_of e) (scaled s m e)).
  { unfold scaled. apply mk_of_fin; [exact Ho|unfold scale_of; lia]. }
  pose proof (pow2_gt0 (e + scale_of e) ltac:(unfold scale_of; lia)) as Hp.
  split; [exact E|]. split; [unfold scaled; destruct s; nia|].
  split; [unfold scaled; destruct s; nia|]. unfold rep. rewrite <- E. exact Hv.
Qed.

(* with a negative exponent the scaled value is the odd significand itself: below 2^p *)
Lemma scaled_frac : forall f s m e, fmt_ok f -> valid f (FFin s m e) = true -> e < 0 ->
  scale_of e = - e /\ scaled s m e = (if s then Zneg m else Zpos m) /\ Z.odd (scaled s m e) = true /\
  Z.abs (scaled s m e) < 2 ^ (prec f - 1 + scale_of e).
Proof.
  intros f s m e Hf Hv He. cbn [valid] in Hv. rewrite !andb_true_iff, !Z.leb_le in Hv.
  destruct Hv as [[[Ho Hd] _] _]. destruct Hf as [[H1 H2] H3].
  assert (Hk : scale_of e = - e) by (unfold scale_of; lia).
  assert (Hs : scaled s m e = (if s then Zneg m else Zpos m)).
  { unfold scaled. rewrite Hk. replace (e + - e) with 0 by lia. change (2 ^ 0) with 1. destruct s; lia. }
  split; [exact Hk|]. split; [exact Hs|]. rewrite Hs, Hk.
  split; [destruct s; [rewrite <- Pos2Z.opp_pos, Z.odd_opp|]; exact Ho|].
  assert (Hm : Zpos m < 2 ^ prec f) by (apply digits_lt_pow2; lia).
  assert (2 ^ prec f <= 2 ^ (prec f - 1 + - e)) by (apply Z.pow_le_mono_r; lia).
  destruct s; lia.
Qed.

(* with a non-negative exponent the value is an integer at scale 0 *)
Lemma scale_int : forall e, 0 <= e -> scale_of e = 0.
Proof. intros e He. unfold scale_of. lia. Qed.

(** * the result of the specification as a mk *)
Lemma fofZ_mk : forall s n, (n = 0 -> s = false) -> fofZ s n = mk 0 n.
Proof.
  intros s n H. unfold fofZ, mk. destruct (n =? 0) eqn:E.
  - rewrite H by lia. reflexivity.
  - reflexivity.
Qed.

Lemma round_with_int : forall f rnd s m e, valid f (FFin s m e) = true -> 0 <= e ->
  round_with rnd (FFin s m e) = FFin s m e.
Proof.
  intros f rnd s m e Hv He. unfold round_with. replace (0 <=? e) with true by lia.
  apply (fnorm_valid f). exact Hv.
Qed.

Lemma round_with_frac : forall rnd s m e, e < 0 ->
  round_with rnd (FFin s m e) = fofZ s (rnd (if s then Zneg m else Zpos m) (2 ^ (- e))).
Proof. intros rnd s m e He. unfold round_with. replace (0 <=? e) with false by lia. reflexivity. Qed.
