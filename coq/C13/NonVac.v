(* C13 — witnesses that the hypotheses of the property theorems are satisfiable (evaluated once, by
   the VM, in their own file) *)
From Tetl Require Import Lib.Base C13.Float C13.Model C13.Spec C13.ProofsFmaExact.
Local Open Scope Z_scope.

Lemma nonvacuous :
  rt_strcmp [97; 98; 0] [97; 98; 99; 0] = Some (-1) /\ rt_strncmp [97; 98; 0] [97; 99; 0] 2 = Some (-1) /\
  rt_strchr [97; 98; 0] 98 = Some (Some 1) /\ rt_memchr [97; 98; 0] 98 3 = Some (Some 1) /\
  in_ty i8 127 = true /\
  valid binary64 (decode binary64 4612811918334230528) = true (* 2.5 *) /\
  rt_lrint (decode binary64 4612811918334230528) = Some 2 /\
  rt_lrint (decode binary64 4615063718147915776) = Some 4 (* 3.5 *) /\
  product_exact binary64 (decode binary64 4609434218613702656) (decode binary64 4611686018427387904).
Proof. repeat split; vm_compute; reflexivity. Qed.
