From Tetl Require Import Lib.Base C13.Float C13.Model C13.Spec C13.Samples C13.ModelMove C13.ProofsAt C18.Spec.
Require Extraction.
Require Import ExtrOcamlBasic.
Extraction Language OCaml.
Extraction "C13_model.ml" wire_anchor
  binary32 binary64 x87ext decode encode fnorm valid
  ct_popcount ct_byteswap ct_add_sat code_add_sat ct_strlen ct_strcmp ct_strncmp ct_strchr ct_memchr
  ct_signbit ct_copysign ct_isnan gcem_is_inf ct_floor ct_ceil ct_trunc ct_round ct_rint ct_lrint ct_fma ct_fmod ct_remainder
  rt_popcount rt_byteswap rt_add_sat cstr rt_strlen rt_strcmp rt_strncmp rt_strchr rt_memchr
  rt_signbit rt_copysign rt_isnan rt_isinf rt_floor rt_ceil rt_trunc rt_round rt_rint rt_lrint rt_fma rt_fmod rt_remainder
  to_chars10 sv_find work istr civil ctype_all sv_ops civil_back algo2
  ct_memmove ct_memmove2 memmove_s memcpy_s
  ct_memchr_at.
