(* C13 — lemmas about the floating point kit (Float.v): normal forms, exactness of [fround],
   and the "mk calculus": every finite value that is a multiple of 2^-k is [mk k v] for a unique
   integer v (its value scaled by 2^k); comparison, addition, negation, truncation and integer
   conversion of such values are the integer operations on the scaled values.  The rounding
   kernels only ever combine the argument with integers, so their proofs are integer arithmetic. *)
From Tetl Require Import Lib.Base C13.Float.
From Coq Require Import ZifyBool.
Local Open Scope Z_scope.
Ltac Zify.zify_post_hook ::= Z.to_euclidean_division_equations.

(** * powers of two *)
Lemma pow2_pos : forall k, 0 < 2 ^ k \/ k < 0.
Proof. intros k. destruct (Z_lt_le_dec k 0); [right; lia | left; apply Z.pow_pos_nonneg; lia]. Qed.

Lemma pow2_gt0 : forall k, 0 <= k -> 0 < 2 ^ k.
Proof. intros; apply Z.pow_pos_nonneg; lia. Qed.

Lemma pow2_add : forall a b, 0 <= a -> 0 <= b -> 2 ^ (a + b) = 2 ^ a * 2 ^ b.
Proof. intros; apply Z.pow_add_r; lia. Qed.

Lemma pow2_succ : forall a, 0 <= a -> 2 ^ (a + 1) = 2 * 2 ^ a.
Proof. intros a Ha. rewrite pow2_add by lia. change (2 ^ 1) with 2. lia. Qed.

Lemma pow2_ge1 : forall k, 0 <= k -> 1 <= 2 ^ k.
Proof. intros k Hk. pose proof (pow2_gt0 k Hk). lia. Qed.

Lemma pow2_even : forall k, 0 < k -> Z.odd (2 ^ k) = false.
Proof.
  intros k Hk. replace k with ((k - 1) + 1) by lia. rewrite pow2_succ by lia.
  rewrite Z.odd_mul. reflexivity.
Qed.

(* odd * 2^i = odd * 2^j determines both *)
Lemma odd_pow2_inj : forall a b i j, Z.odd a = true -> Z.odd b = true -> 0 <= i -> 0 <= j ->
  a * 2 ^ i = b * 2 ^ j -> a = b /\ i = j.
Proof.
  assert (H : forall a b i j, Z.odd a = true -> Z.odd b = true -> 0 <= i <= j ->
                              a * 2 ^ i = b * 2 ^ j -> a = b /\ i = j).
  { intros a b i j Ha Hb Hij Heq.
    replace j with (i + (j - i)) in Heq by lia. rewrite pow2_add in Heq by lia.
    pose proof (pow2_gt0 i ltac:(lia)) as Hi.
    assert (Hab : a = b * 2 ^ (j - i)) by nia.
    destruct (Z.eq_dec i j) as [->|Hne].
    - rewrite Z.sub_diag in Hab. change (2 ^ 0) with 1 in Hab. lia.
    - exfalso. rewrite Hab in Ha. rewrite Z.odd_mul, pow2_even in Ha by lia.
      rewrite andb_false_r in Ha. discriminate. }
  intros a b i j Ha Hb Hi Hj Heq.
  destruct (Z_le_gt_dec i j).
  - apply H; auto.
  - destruct (H b a j i) as [-> ->]; auto; lia.
Qed.

(** * digits *)
Lemma digits_pos : forall m, 0 < m -> 0 < digits m /\ 2 ^ (digits m - 1) <= m < 2 ^ digits m.
Proof.
  intros m Hm. unfold digits. replace (m =? 0) with false by lia.
  pose proof (Z.log2_spec m Hm) as [H1 H2]. pose proof (Z.log2_nonneg m).
  replace (Z.log2 m + 1 - 1) with (Z.log2 m) by lia.
  replace (Z.succ (Z.log2 m)) with (Z.log2 m + 1) in H2 by lia. lia.
Qed.

Lemma digits_mul_pow2 : forall m j, 0 < m -> 0 <= j -> digits (m * 2 ^ j) = digits m + j.
Proof.
  intros m j Hm Hj. unfold digits. pose proof (pow2_gt0 j Hj).
  replace (m * 2 ^ j =? 0) with false by nia. replace (m =? 0) with false by lia.
  rewrite Z.log2_mul_pow2 by lia. lia.
Qed.

Lemma digits_le_mono : forall a b, 0 < a <= b -> digits a <= digits b.
Proof.
  intros a b H. unfold digits. replace (a =? 0) with false by lia. replace (b =? 0) with false by lia.
  pose proof (Z.log2_le_mono a b ltac:(lia)). lia.
Qed.

Lemma digits_lt_pow2 : forall m p, 0 < m -> 0 <= p -> (digits m <= p <-> m < 2 ^ p).
Proof.
  intros m p Hm Hp. pose proof (digits_pos m Hm) as [Hd [Hlo Hhi]]. split; intro H.
  - eapply Z.lt_le_trans; [apply Hhi|]. apply Z.pow_le_mono_r; lia.
  - destruct (Z_le_gt_dec (digits m) p); auto. exfalso.
    assert (2 ^ p <= 2 ^ (digits m - 1)) by (apply Z.pow_le_mono_r; lia). lia.
Qed.

(** * normal form *)
Lemma pnorm_spec : forall m e m' e', pnorm m e = (m', e') ->
  Z.odd (Zpos m') = true /\ e <= e' /\ Zpos m = Zpos m' * 2 ^ (e' - e).
Proof.
  induction m as [q IH|q IH|]; intros e m' e' H; cbn [pnorm] in H.
  - inversion H; subst. rewrite Z.sub_diag. change (2 ^ 0) with 1. split; [reflexivity|lia].
  - apply IH in H. destruct H as (Ho & Hle & Heq). split; [exact Ho|]. split; [lia|].
    replace (e' - e) with ((e' - (e + 1)) + 1) by lia. rewrite pow2_succ by lia.
    rewrite Pos2Z.inj_xO, Heq. ring.
  - inversion H; subst. rewrite Z.sub_diag. change (2 ^ 0) with 1. split; [reflexivity|lia].
Qed.

Lemma pnorm_odd : forall m e, Z.odd (Zpos m) = true -> pnorm m e = (m, e).
Proof. intros [q|q|] e H; cbn [pnorm]; try reflexivity. cbn in H. discriminate. Qed.

Lemma pnorm_shift : forall j m e, 0 <= j -> pnorm (Z.to_pos (Zpos m * 2 ^ j)) e = pnorm m (e + j).
Proof.
  intros j m e Hj. revert e. pattern j. apply natlike_ind; [| |exact Hj].
  - intros e. change (2 ^ 0) with 1. rewrite Z.mul_1_r, Z.add_0_r. reflexivity.
  - intros x Hx IH e. unfold Z.succ. rewrite pow2_succ by lia.
    pose proof (pow2_gt0 x Hx) as Hp.
    replace (Zpos m * (2 * 2 ^ x)) with (2 * (Zpos m * 2 ^ x)) by ring.
    destruct (Zpos m * 2 ^ x) as [|p|p] eqn:E; try lia.
    change (Z.to_pos (2 * Zpos p)) with (xO p). cbn [pnorm].
    specialize (IH (e + 1)). change (Z.to_pos (Zpos p)) with p in IH.
    rewrite IH. f_equal. lia.
Qed.

Lemma fnorm_valid : forall f x, valid f x = true -> fnorm x = x.
Proof.
  intros f [s|s|s|s m e] H; cbn [fnorm]; try reflexivity.
  cbn [valid] in H. rewrite !andb_true_iff in H. destruct H as [[[Ho _] _] _].
  rewrite pnorm_odd by exact Ho. reflexivity.
Qed.

(** * exactness of fround: a value whose odd part fits the precision is not changed *)
Lemma fround_exact : forall f s M e m' e', 0 < M -> pnorm (Z.to_pos M) e = (m', e') ->
  digits (Zpos m') <= prec f -> emin f <= e' -> digits (Zpos m') + e' <= emax f ->
  fround f s M e = FFin s m' e'.
Proof.
  intros f s M e m' e' HM Hn Hd Hmin Hmax.
  pose proof (pnorm_spec _ _ _ _ Hn) as (Ho & Hle & Heq). rewrite Z2Pos.id in Heq by lia.
  set (j := e' - e) in *.
  assert (HdM : digits M = digits (Zpos m') + j) by (rewrite Heq; apply digits_mul_pow2; lia).
  unfold fround. replace (M <=? 0) with false by lia.
  set (E := Z.max (digits M + e - prec f) (emin f)).
  destruct (E <=? e) eqn:HE.
  - unfold ffinish. replace (M <=? 0) with false by lia.
    replace (emax f <? digits M + e) with false by lia.
    cbn [fnorm]. rewrite Hn. reflexivity.
  - assert (Hsh : 0 < E - e <= j) by lia.
    set (sh := E - e) in *.
    pose proof (pow2_gt0 sh ltac:(lia)) as Hp.
    assert (HM2 : M = (Zpos m' * 2 ^ (j - sh)) * 2 ^ sh).
    { rewrite Heq. rewrite <- Z.mul_assoc, <- pow2_add by lia. f_equal. f_equal. lia. }
    assert (Hq : M / 2 ^ sh = Zpos m' * 2 ^ (j - sh)) by (rewrite HM2; apply Z.div_mul; lia).
    assert (Hr : M mod 2 ^ sh = 0) by (rewrite HM2; apply Z.mod_mul; lia).
    cbv zeta. rewrite Hq, Hr.
    pose proof (pow2_gt0 (sh - 1) ltac:(lia)) as Hh.
    replace (0 <? 2 ^ (sh - 1)) with true by lia.
    pose proof (pow2_gt0 (j - sh) ltac:(lia)) as Hjs.
    unfold ffinish. replace (Zpos m' * 2 ^ (j - sh) <=? 0) with false by nia.
    rewrite digits_mul_pow2 by lia.
    replace (emax f <? digits (Zpos m') + (j - sh) + E) with false by lia.
    cbn [fnorm]. rewrite pnorm_shift by lia.
    replace (E + (j - sh)) with e' by lia. rewrite pnorm_odd by exact Ho. reflexivity.
Qed.

(** * mk: the normal value v * 2^-k (v = 0 gives +0) *)
Definition mk (k v : Z) : fval :=
  if v =? 0 then FZero false else fnorm (FFin (v <? 0) (Z.to_pos (Z.abs v)) (- k)).

(* representable in the format *)
Definition rep (f : fmt) (k v : Z) : Prop := valid f (mk k v) = true.

Lemma mk_0 : forall k, mk k 0 = FZero false.
Proof. reflexivity. Qed.

Lemma mk_fin : forall k v, v <> 0 -> exists m e,
  mk k v = FFin (v <? 0) m e /\ Z.odd (Zpos m) = true /\ - k <= e /\ Z.abs v = Zpos m * 2 ^ (e + k).
Proof.
  intros k v Hv. unfold mk. replace (v =? 0) with false by lia. cbn [fnorm].
  destruct (pnorm (Z.to_pos (Z.abs v)) (- k)) as [m e] eqn:Hn. exists m, e.
  pose proof (pnorm_spec _ _ _ _ Hn) as (Ho & Hle & Heq). rewrite Z2Pos.id in Heq by lia.
  repeat split; auto. rewrite Heq. f_equal. f_equal. lia.
Qed.

(* every normal finite value with exponent >= -k is a mk *)
Lemma mk_of_fin : forall k s m e, Z.odd (Zpos m) = true -> - k <= e ->
  FFin s m e = mk k ((if s then -1 else 1) * (Zpos m * 2 ^ (e + k))).
Proof.
  intros k s m e Ho Hk. pose proof (pow2_gt0 (e + k) ltac:(lia)) as Hp.
  unfold mk. set (v := (if s then -1 else 1) * (Zpos m * 2 ^ (e + k))).
  assert (Hv : v <> 0) by (unfold v; destruct s; nia).
  replace (v =? 0) with false by lia.
  assert (Hs : (v <? 0) = s) by (unfold v; destruct s; nia).
  assert (Ha : Z.abs v = Zpos m * 2 ^ (e + k)) by (unfold v; destruct s; nia).
  rewrite Hs, Ha. cbn [fnorm]. rewrite pnorm_shift by lia.
  replace (- k + (e + k)) with e by lia. rewrite pnorm_odd by exact Ho. reflexivity.
Qed.

Lemma mk_inj : forall k u v, mk k u = mk k v -> u = v.
Proof.
  intros k u v H. destruct (Z.eq_dec u 0) as [->|Hu]; destruct (Z.eq_dec v 0) as [->|Hv]; auto.
  - destruct (mk_fin k v Hv) as (m & e & E & _). rewrite mk_0, E in H. discriminate.
  - destruct (mk_fin k u Hu) as (m & e & E & _). rewrite mk_0, E in H. discriminate.
  - destruct (mk_fin k u Hu) as (m1 & e1 & E1 & _ & _ & A1).
    destruct (mk_fin k v Hv) as (m2 & e2 & E2 & _ & _ & A2).
    rewrite E1, E2 in H. inversion H; subst. lia.
Qed.

(* rescaling *)
Lemma mk_scale : forall k j v, 0 <= j -> mk (k + j) (v * 2 ^ j) = mk k v.
Proof.
  intros k j v Hj. pose proof (pow2_gt0 j Hj) as Hp. unfold mk.
  destruct (Z.eq_dec v 0) as [->|Hv]; [reflexivity|].
  replace (v * 2 ^ j =? 0) with false by nia. replace (v =? 0) with false by lia.
  replace (v * 2 ^ j <? 0) with (v <? 0) by nia.
  replace (Z.abs (v * 2 ^ j)) with (Z.abs v * 2 ^ j) by nia.
  cbn [fnorm]. destruct (Z.abs v) as [|p|p] eqn:E; try lia.
  rewrite pnorm_shift by lia. replace (- (k + j) + j) with (- k) by lia.
  change (Z.to_pos (Zpos p)) with p. reflexivity.
Qed.

(** comparison *)
Lemma mk_compare : forall k u v, fcompare (mk k u) (mk k v) = Some (u ?= v).
Proof.
  intros k u v.
  destruct (Z.eq_dec u 0) as [->|Hu]; destruct (Z.eq_dec v 0) as [->|Hv].
  - reflexivity.
  - destruct (mk_fin k v Hv) as (m & e & E & _). rewrite mk_0, E. cbn [fcompare].
    destruct (v <? 0) eqn:S; f_equal; symmetry; [apply Z.compare_gt_iff | apply Z.compare_lt_iff]; lia.
  - destruct (mk_fin k u Hu) as (m & e & E & _). rewrite mk_0, E. cbn [fcompare].
    destruct (u <? 0) eqn:S; f_equal; symmetry; [apply Z.compare_lt_iff | apply Z.compare_gt_iff]; lia.
  - destruct (mk_fin k u Hu) as (m1 & e1 & E1 & _ & K1 & A1).
    destruct (mk_fin k v Hv) as (m2 & e2 & E2 & _ & K2 & A2).
    rewrite E1, E2. cbn [fcompare]. f_equal.
    assert (Hc : cmp_mag m1 e1 m2 e2 = (Z.abs u ?= Z.abs v)).
    { unfold cmp_mag. set (e0 := Z.min e1 e2).
      pose proof (pow2_gt0 (e0 + k) ltac:(lia)) as Hp.
      rewrite (Zmult_compare_compat_r _ _ (2 ^ (e0 + k))) by lia.
      rewrite <- !Z.mul_assoc, <- !pow2_add by lia.
      replace (e1 - e0 + (e0 + k)) with (e1 + k) by lia.
      replace (e2 - e0 + (e0 + k)) with (e2 + k) by lia.
      rewrite <- A1, <- A2. reflexivity. }
    rewrite Hc.
    destruct (u <? 0) eqn:Su; destruct (v <? 0) eqn:Sv.
    + rewrite !Z.abs_neq by lia. rewrite Z.compare_opp. symmetry. apply Z.compare_antisym.
    + symmetry. apply Z.compare_lt_iff. lia.
    + symmetry. apply Z.compare_gt_iff. lia.
    + rewrite !Z.abs_eq by lia. reflexivity.
Qed.

Lemma mk_flt : forall k u v, flt (mk k u) (mk k v) = (u <? v).
Proof. intros. unfold flt. rewrite mk_compare. unfold Z.ltb. destruct (u ?= v); reflexivity. Qed.
Lemma mk_fgt : forall k u v, fgt (mk k u) (mk k v) = (v <? u).
Proof.
  intros. unfold fgt. rewrite mk_compare. unfold Z.ltb. rewrite (Z.compare_antisym u v).
  destruct (u ?= v); reflexivity.
Qed.
Lemma mk_feq : forall k u v, feq (mk k u) (mk k v) = (u =? v).
Proof. intros. unfold feq. rewrite mk_compare, Z.eqb_compare. destruct (u ?= v); reflexivity. Qed.
Lemma mk_fge : forall k u v, fge (mk k u) (mk k v) = (v <=? u).
Proof.
  intros. unfold fge. rewrite mk_compare. unfold Z.leb. rewrite (Z.compare_antisym u v).
  destruct (u ?= v); reflexivity.
Qed.
Lemma mk_fle : forall k u v, fle (mk k u) (mk k v) = (u <=? v).
Proof. intros. unfold fle. rewrite mk_compare. unfold Z.leb. destruct (u ?= v); reflexivity. Qed.

(** negation *)
Lemma mk_neg : forall k v, v <> 0 -> fneg (mk k v) = mk k (- v).
Proof.
  intros k v Hv. unfold mk. replace (v =? 0) with false by lia. replace (- v =? 0) with false by lia.
  rewrite Z.abs_opp. cbn [fnorm]. destruct (pnorm (Z.to_pos (Z.abs v)) (- k)) as [m e].
  cbn [fneg]. f_equal. lia.
Qed.

(** truncation toward zero *)
Lemma mk_ztrunc : forall k v, 0 <= k -> ztrunc (mk k v) = Some (Z.quot v (2 ^ k)).
Proof.
  intros k v Hk. pose proof (pow2_gt0 k Hk) as HD.
  destruct (Z.eq_dec v 0) as [->|Hv]; [rewrite mk_0, Z.quot_0_l by lia; reflexivity|].
  destruct (mk_fin k v Hv) as (m & e & E & _ & K & A). rewrite E. cbn [ztrunc]. f_equal.
  assert (Hq : (if 0 <=? e then Zpos m * 2 ^ e else Zpos m / 2 ^ (- e)) = Z.abs v / 2 ^ k).
  { rewrite A. destruct (0 <=? e) eqn:He; [apply Z.leb_le in He | apply Z.leb_gt in He].
    - rewrite pow2_add by lia. rewrite Z.mul_assoc, Z.div_mul by lia. reflexivity.
    - replace k with ((e + k) + - e) at 2 by lia. rewrite (pow2_add (e + k) (- e)) by lia.
      pose proof (pow2_gt0 (e + k) ltac:(lia)). pose proof (pow2_gt0 (- e) ltac:(lia)).
      rewrite (Z.mul_comm (Zpos m)), Z.div_mul_cancel_l by lia. reflexivity. }
  rewrite Hq. destruct (v <? 0) eqn:S.
  - rewrite Z.abs_neq by lia. rewrite <- (Z.opp_involutive v) at 2. rewrite Z.quot_opp_l by lia.
    rewrite Z.quot_div_nonneg by lia. reflexivity.
  - rewrite Z.abs_eq by lia. rewrite Z.quot_div_nonneg by lia. reflexivity.
Qed.

(** validity of mk in terms of the scaled value *)
Lemma rep_small : forall f k v, v <> 0 -> digits (Z.abs v) <= prec f -> emin f <= - k ->
  digits (Z.abs v) - k <= emax f -> rep f k v.
Proof.
  intros f k v Hv Hd Hmin Hmax. unfold rep.
  destruct (mk_fin k v Hv) as (m & e & E & Ho & K & A). rewrite E. cbn [valid].
  pose proof (digits_mul_pow2 (Zpos m) (e + k) ltac:(lia) ltac:(lia)) as Hdm. rewrite <- A in Hdm.
  rewrite Ho. cbn [andb]. rewrite !andb_true_iff, !Z.leb_le. lia.
Qed.

Lemma rep_0 : forall f k, rep f k 0.
Proof. intros. reflexivity. Qed.

(** conversion of integers *)
Lemma of_int_mk : forall f k n, 0 <= k -> rep f k (n * 2 ^ k) -> of_int f n = mk k (n * 2 ^ k).
Proof.
  intros f k n Hk Hrep. pose proof (pow2_gt0 k Hk) as HD.
  destruct (Z.eq_dec n 0) as [->|Hn]; [reflexivity|].
  unfold rep in Hrep. rewrite <- (Z.add_0_l k) in Hrep at 1. rewrite mk_scale in Hrep by lia.
  rewrite <- (Z.add_0_l k) at 1. rewrite mk_scale by lia.
  destruct (mk_fin 0 n Hn) as (m & e & E & Ho & K & A). rewrite E in *. cbn [valid] in Hrep.
  rewrite !andb_true_iff, !Z.leb_le in Hrep. destruct Hrep as [[[_ Hd] Hmin] Hmax].
  unfold of_int.
  assert (Hpn : pnorm (Z.to_pos (Z.abs n)) 0 = (m, e)).
  { unfold mk in E. replace (n =? 0) with false in E by lia. cbn [fnorm] in E.
    change (- 0) with 0 in E. destruct (pnorm (Z.to_pos (Z.abs n)) 0). inversion E; subst; reflexivity. }
  apply fround_exact with (m' := m) (e' := e); auto; lia.
Qed.

(* sign and magnitude of a multiple of a positive number (stated separately: nia is slow on them in
   a large context) *)
Lemma ltb_mul_pos : forall t P, 0 < P -> (t * P <? 0) = (t <? 0).
Proof. intros t P HP. destruct (Z.ltb_spec t 0); destruct (Z.ltb_spec (t * P) 0); try reflexivity; nia. Qed.

Lemma abs_mul_pos : forall t P, 0 < P -> Z.abs (t * P) = Z.abs t * P.
Proof. intros t P HP. rewrite Z.abs_mul, (Z.abs_eq P) by lia. reflexivity. Qed.

(** addition when the exact sum is representable *)
Lemma mk_add : forall f k u v, rep f k (u + v) -> fadd f (mk k u) (mk k v) = mk k (u + v).
Proof.
  intros f k u v Hrep.
  destruct (Z.eq_dec u 0) as [->|Hu].
  { rewrite Z.add_0_l, mk_0. destruct (Z.eq_dec v 0) as [->|Hv]; [reflexivity|].
    destruct (mk_fin k v Hv) as (m & e & E & _). rewrite E. reflexivity. }
  destruct (Z.eq_dec v 0) as [->|Hv].
  { rewrite Z.add_0_r, mk_0. destruct (mk_fin k u Hu) as (m & e & E & _). rewrite E. reflexivity. }
  destruct (mk_fin k u Hu) as (m1 & e1 & E1 & O1 & K1 & A1).
  destruct (mk_fin k v Hv) as (m2 & e2 & E2 & O2 & K2 & A2).
  rewrite E1, E2. cbn [fadd]. set (e0 := Z.min e1 e2).
  pose proof (pow2_gt0 (e0 + k) ltac:(lia)) as Hp.
  set (v1 := Zpos m1 * 2 ^ (e1 - e0)). set (v2 := Zpos m2 * 2 ^ (e2 - e0)).
  assert (B1 : Z.abs u = v1 * 2 ^ (e0 + k)).
  { unfold v1. rewrite <- Z.mul_assoc, <- pow2_add by lia. rewrite A1. f_equal. f_equal. lia. }
  assert (B2 : Z.abs v = v2 * 2 ^ (e0 + k)).
  { unfold v2. rewrite <- Z.mul_assoc, <- pow2_add by lia. rewrite A2. f_equal. f_equal. lia. }
  set (t := (if u <? 0 then - v1 else v1) + (if v <? 0 then - v2 else v2)).
  assert (Ht : u + v = t * 2 ^ (e0 + k)).
  { unfold t. destruct (u <? 0) eqn:Su; destruct (v <? 0) eqn:Sv; lia. }
  destruct (t =? 0) eqn:Ht0.
  - replace (u + v) with 0 by nia. reflexivity.
  - assert (Hs : u + v <> 0) by nia.
    unfold rep in Hrep. destruct (mk_fin k (u + v) Hs) as (m & e & E & Ho & K & A).
    rewrite E in *. cbn [valid] in Hrep. rewrite !andb_true_iff, !Z.leb_le in Hrep.
    destruct Hrep as [[[_ Hd] Hmin] Hmax].
    replace (u + v <? 0) with (t <? 0) by (rewrite Ht; symmetry; apply ltb_mul_pos; exact Hp).
    apply fround_exact; try lia.
    (* the normal form of |t| at exponent e0 is the normal form of |u+v| at exponent -k *)
    unfold mk in E. replace (u + v =? 0) with false in E by lia. cbn [fnorm] in E.
    replace (Z.abs (u + v)) with (Z.abs t * 2 ^ (e0 + k)) in E by (rewrite Ht; symmetry; apply abs_mul_pos; exact Hp).
    destruct (Z.abs t) as [|p|p] eqn:Et; try lia.
    rewrite pnorm_shift in E by lia. replace (- k + (e0 + k)) with e0 in E by lia.
    change (Z.to_pos (Zpos p)) with p.
    destruct (pnorm p e0). inversion E; subst; reflexivity.
Qed.

(* adding a zero of either sign to a non-zero mk, or -0 to anything, changes nothing *)
Lemma fadd_negzero_r : forall f x, is_nan x = false -> fadd f x (FZero true) = x.
Proof. intros f [s|s|s|s m e] H; try reflexivity; try discriminate. cbn. rewrite andb_true_r. reflexivity. Qed.

(** sign helpers *)
Lemma mk_sign : forall k v, v <> 0 -> fsign (mk k v) = (v <? 0).
Proof. intros k v Hv. destruct (mk_fin k v Hv) as (m & e & E & _). rewrite E. reflexivity. Qed.

Lemma mk_is_fin : forall k v, is_nan (mk k v) = false /\ is_inf (mk k v) = false.
Proof.
  intros k v. destruct (Z.eq_dec v 0) as [->|Hv]; [split; reflexivity|].
  destruct (mk_fin k v Hv) as (m & e & E & _). rewrite E. split; reflexivity.
Qed.

(** constants *)
Lemma fpow2_mk : forall k j, - k <= j -> fpow2 j = mk k (2 ^ (j + k)).
Proof.
  intros k j H. unfold fpow2. rewrite (mk_of_fin k false 1 j) by (reflexivity || lia).
  f_equal. lia.
Qed.
