(* C13 — executable mirrors of the code that serves CONSTANT EVALUATION (the portable
   fallbacks), as the code is written in /repo/include/etl after the C13 fix: commits:
     _bit/popcount.hpp      detail::popcount_fallback (Kernighan loop)
     _bit/byteswap.hpp      detail::byteswap_fallback (uint16/32/64)
     _numeric/add_sat.hpp   detail::add_sat_fallback, and the __builtin_add_overflow path of add_sat
     _strings/cstr.hpp      detail::strlen/strcmp/strncmp/strchr/memchr loops (the GCC paths of
                            _cstring/{strlen,strcmp,strncmp,strchr,memchr}.hpp)
     _cmath/signbit.hpp     detail::signbit_fallback (reads the sign bit of the representation)
     _cmath/copysign.hpp    detail::copysign_fallback
     _cmath/isnan.hpp, isinf.hpp   the comparison fallbacks
     _cmath/rint.hpp, lrint.hpp    detail::rint_fallback, detail::lrint_fallback
     _cmath/fma.hpp         x * y + z
     _3rd_party/gcem/gcem_incl/{floor,ceil,trunc,round,abs,sgn,is_nan,is_inf,is_finite}.hpp
   The run-time side (compiler builtins, libc) is in Spec.v, modelled by its specification.
   Conventions: unsigned arithmetic wraps (wrapu), signed arithmetic is checked, a read outside
   the buffer is UB OutOfBounds, a floating->integer conversion out of range is UB.  Characters
   are modelled by their value as unsigned char (0..255): the loops only test characters for
   equality and detail::cstr_compare converts to unsigned char before ordering them. *)
From Tetl Require Import Lib.Base C13.Float.
Local Open Scope Z_scope.

Notation "'do' x <- a ; b" := (rbind a (fun x => b)) (at level 200, x name, a at level 100, b at level 200).

(** * _bit/popcount.hpp: for (; val != 0; val &= val - UInt(1)) c++;  fuel = width *)
Fixpoint popcount_loop (fuel : nat) (w v c : Z) : res Z :=
  if v =? 0 then Ok c
  else match fuel with
       | O => OutOfFuel
       | S k => popcount_loop k w (Z.land v (wrapu w (v - 1))) (c + 1)
       end.
Definition ct_popcount (w x : Z) : res Z := popcount_loop (Z.to_nat w) w x 0.

(** * _bit/byteswap.hpp: detail::byteswap_fallback *)
Definition ct_byteswap16 (v : Z) : Z :=
  (* uint16 promotes to int: no wrap before the final cast *)
  wrapu 16 (Z.lor (Z.shiftl v 8) (Z.shiftr v 8)).
Definition ct_byteswap32 (v : Z) : Z :=
  Z.lor (Z.lor (Z.lor (wrapu 32 (Z.shiftl v 24))
                      (Z.land (wrapu 32 (Z.shiftl v 8)) 16711680 (* 0x00FF0000 *)))
               (Z.land (Z.shiftr v 8) 65280 (* 0x0000FF00 *)))
        (Z.shiftr v 24).
Definition ct_byteswap64 (v : Z) : Z :=
  let sl k := wrapu 64 (Z.shiftl v k) in
  let sr k := Z.shiftr v k in
  Z.lor (Z.lor (Z.lor (Z.lor (Z.lor (Z.lor (Z.lor
    (sl 56)
    (Z.land (sl 40) 71776119061217280     (* 0x00FF000000000000 *)))
    (Z.land (sl 24) 280375465082880       (* 0x0000FF0000000000 *)))
    (Z.land (sl 8) 1095216660480          (* 0x000000FF00000000 *)))
    (Z.land (sr 8) 4278190080             (* 0x00000000FF000000 *)))
    (Z.land (sr 24) 16711680              (* 0x0000000000FF0000 *)))
    (Z.land (sr 40) 65280                 (* 0x000000000000FF00 *)))
    (sr 56).
Definition ct_byteswap (w v : Z) : res Z :=
  if w =? 16 then Ok (ct_byteswap16 v)
  else if w =? 32 then Ok (ct_byteswap32 v)
  else if w =? 64 then Ok (ct_byteswap64 v)
  else if w =? 8 then Ok v
  else Contract (* static_assert: no such overload *).

(** * _numeric/add_sat.hpp *)
(* etl::clamp(v, lo, hi) = v < lo ? lo : hi < v ? hi : v *)
Definition clamp (v lo hi : Z) : Z := if v <? lo then lo else if hi <? v then hi else v.

(* strategy 1 of add_sat_fallback: add in a wider type (int for 8/16-bit operands, int64/uint64 for
   32-bit operands), clamp, convert back; [ww] is the width of the wider type *)
Definition add_sat_wide (t : ity) (ww : Z) (x y : Z) : res Z :=
  if sgn t then
    do s <- (match chk {| bits := ww; sgn := true |} (x + y) with Some s => Ok s | None => UB SignedOverflow end);
    Ok (clamp s (imin t) (imax t))
  else Ok (clamp (wrapu ww (x + y)) 0 (imax t)).

(* strategy 2 (the last branch, used for 64-bit operands): compare before adding *)
Definition add_sat_top (t : ity) (x y : Z) : res Z :=
  let mx := imax t in
  let mn := imin t in
  if sgn t then
    if 0 <=? x then
      if mx - x <? y then Ok mx
      else match chk t (x + y) with Some s => Ok s | None => UB SignedOverflow end
    else
      if y <? mn - x then Ok mn
      else match chk t (x + y) with Some s => Ok s | None => UB SignedOverflow end
  else
    if mx - x <? y then Ok mx else Ok (wrapu (bits t) (x + y)).

(* detail::add_sat_fallback<Int>: the if-constexpr ladder on an LP64 target (int is 32 bits, so
   8/16-bit operands promote to int; branches 3 and 4 of the ladder are unreachable here) *)
Definition ct_add_sat (t : ity) (x y : Z) : res Z :=
  if bits t <? 32 then
    (* Int(clamp(x + y, int(min), int(max))): the sum is an int for signed AND unsigned operands *)
    do s <- (match chk i32 (x + y) with Some s => Ok s | None => UB SignedOverflow end);
    Ok (clamp s (imin t) (imax t))
  else if bits t =? 32 then add_sat_wide t 64 x y
  else add_sat_top t x y.

(* etl::add_sat (GCC/Clang): __builtin_add_overflow(x, y, &sum) is modelled by its specification:
   it stores the wrapped sum and returns whether the exact sum does not fit *)
Definition code_add_sat (t : ity) (x y : Z) : res Z :=
  let exact := x + y in
  if in_ty t exact then Ok (wrap_ty t exact)
  else if negb (sgn t) then Ok (imax t)
  else if 0 <? x then Ok (imax t) else Ok (imin t).

(** * _strings/cstr.hpp loops over a buffer (list of bytes); index = position in the buffer *)
Definition cmp3 (a b : Z) : Z := (if b <? a then 1 else 0) - (if a <? b then 1 else 0).

(* for (s = str; *s != 0; ++s) {}  return s - str; *)
Fixpoint strlen_loop (buf : list Z) (n : Z) : res Z :=
  match buf with
  | [] => UB OutOfBounds
  | c :: rest => if c =? 0 then Ok n else strlen_loop rest (n + 1)
  end.
Definition ct_strlen (buf : list Z) : res Z := strlen_loop buf 0.

(* for (; *lhs != 0; ++lhs, ++rhs) { if ( *lhs != *rhs ) break; }  return cstr_compare( *lhs, *rhs ); *)
Fixpoint ct_strcmp (l r : list Z) : res Z :=
  match l with
  | [] => UB OutOfBounds
  | a :: l' =>
      match r with
      | [] => UB OutOfBounds
      | b :: r' =>
          if a =? 0 then Ok (cmp3 a b)
          else if a =? b then ct_strcmp l' r'
          else Ok (cmp3 a b)
      end
  end.

(* while (localCount-- > 0) { u1 = *lhs++; u2 = *rhs++; if (u1 != u2) return cmp; if (u1 == 0) return 0; } return 0; *)
Fixpoint ct_strncmp (l r : list Z) (n : Z) : res Z :=
  if n <=? 0 then Ok 0
  else match l with
       | [] => UB OutOfBounds
       | a :: l' =>
           match r with
           | [] => UB OutOfBounds
           | b :: r' =>
               if negb (a =? b) then Ok (cmp3 a b)
               else if a =? 0 then Ok 0
               else ct_strncmp l' r' (n - 1)
           end
       end.

(* detail::strchr: result = offset of the match, None = null pointer.  ch is an int converted to char *)
Fixpoint strchr_loop (buf : list Z) (c : Z) (i : Z) : res (option Z) :=
  match buf with
  | [] => UB OutOfBounds
  | a :: rest =>
      if a =? 0 then Ok (if c =? 0 then Some i else None)
      else if a =? c then Ok (Some i)
      else strchr_loop rest c (i + 1)
  end.
Definition ct_strchr (buf : list Z) (ch : Z) : res (option Z) := strchr_loop buf (wrapu 8 ch) 0.

(* detail::memchr: for (i = 0; i != n; ++i) if (ptr[i] == ch) return ptr + i;  return nullptr; *)
Fixpoint memchr_loop (buf : list Z) (c : Z) (i : Z) (left : Z) : res (option Z) :=
  if left <=? 0 then Ok None
  else match buf with
       | [] => UB OutOfBounds
       | a :: rest => if a =? c then Ok (Some i) else memchr_loop rest c (i + 1) (left - 1)
       end.
Definition ct_memchr (buf : list Z) (ch n : Z) : res (option Z) := memchr_loop buf (wrapu 8 ch) 0 n.

(** * _cmath sign and classification fallbacks *)
(* signbit_fallback: (bit_cast<uintN_t>(arg) >> (N-1)) != 0 when sizeof(T) is 4 or 8 (the
   interchange formats binary32/binary64); otherwise (x87 long double)
   __builtin_copysignl(1.0L, arg) < 0.0L, the builtin being modelled by its specification *)
Definition builtin_copysign (x y : fval) : fval := with_sign (fsign y) x.
Definition ct_signbit (f : fmt) (x : fval) : bool :=
  let total := ewidth f + mwidth f + 1 in
  if (total =? 32) || (total =? 64) then negb (Z.shiftr (encode f x) (total - 1) =? 0)
  else flt (builtin_copysign fone x) (FZero false).

(* copysign_fallback: if (signbit(x) != signbit(y)) return -x; return x; *)
Definition ct_copysign (f : fmt) (x y : fval) : fval :=
  if negb (Bool.eqb (ct_signbit f x) (ct_signbit f y)) then fneg x else x.

(* isnan without a builtin: arg != arg;  isinf without a builtin: arg == infinity (dead code with
   GCC and Clang, which always take the builtin; see NOTES.md) *)
Definition ct_isnan (x : fval) : bool := fne x x.
Definition gcem_is_nan (x : fval) : bool := fne x x.
Definition gcem_is_inf (x : fval) : bool := feq x (FInf true) || feq x (FInf false).
Definition gcem_is_finite (x : fval) : bool := negb (gcem_is_nan x) && negb (gcem_is_inf x).

(* gcem::abs: x == 0 ? 0 : x < 0 ? -x : x;   gcem::sgn *)
Definition gcem_abs (x : fval) : fval :=
  if feq x (FZero false) then FZero false else if flt x (FZero false) then fneg x else x.
Definition gcem_sgn (x : fval) : Z :=
  if fgt x (FZero false) then 1 else if flt x (FZero false) then -1 else 0.

(* static_cast<llint_t>(x) *)
Definition to_llint (x : fval) : res Z := to_sint 64 x.

(* T(1) / numeric_limits<T>::epsilon() = 2^(prec-1), an exact quotient of two powers of two *)
Definition flimit (f : fmt) : fval := fpow2 (prec f - 1).

(** * gcem floor / ceil / trunc / round (after the fix: commits) *)
Definition b2z (b : bool) : Z := if b then 1 else 0.

Definition gcem_floor_int (f : fmt) (x xw : fval) : fval :=
  fsub f xw (of_int f (b2z (flt x (FZero false) && flt x xw))).

Definition gcem_floor_check (f : fmt) (x : fval) : res fval :=
  if gcem_is_nan x then Ok qnan
  else if negb (gcem_is_finite x) then Ok x
  else if feq x (FZero false) then Ok x
  else if fge (gcem_abs x) (flimit f) then Ok x
  else do n <- to_llint x; Ok (gcem_floor_int f x (of_int f n)).
Definition ct_floor := gcem_floor_check.

Definition gcem_ceil_int (f : fmt) (x xw : fval) : fval :=
  if flt x (FZero false) && feq xw (FZero false) then fneg xw
  else fadd f xw (of_int f (b2z (fgt x (FZero false) && fgt x xw))).

Definition ct_ceil (f : fmt) (x : fval) : res fval :=
  if gcem_is_nan x then Ok qnan
  else if negb (gcem_is_finite x) then Ok x
  else if feq x (FZero false) then Ok x
  else if fge (gcem_abs x) (flimit f) then Ok x
  else do n <- to_llint x; Ok (gcem_ceil_int f x (of_int f n)).

Definition gcem_trunc_int (f : fmt) (x : fval) : res fval :=
  if flt x (FZero false) then do n <- to_llint (fneg x); Ok (fneg (of_int f n))
  else do n <- to_llint x; Ok (of_int f n).

Definition ct_trunc (f : fmt) (x : fval) : res fval :=
  if gcem_is_nan x then Ok qnan
  else if negb (gcem_is_finite x) then Ok x
  else if feq x (FZero false) then Ok x
  else if fge (gcem_abs x) (flimit f) then Ok x
  else gcem_trunc_int f x.

(* round_int(x) = abs(x - floor_check(x)) >= 0.5 ? floor_check(x) + T(sgn(x)) : floor_check(x)
   (computed in T since the fix: commit; find_whole, which converts to long long, is no longer used) *)
Definition gcem_round_int (f : fmt) (x : fval) : res fval :=
  do fl <- gcem_floor_check f x;
  if fge (gcem_abs (fsub f x fl)) fhalf
  then Ok (fadd f fl (of_int f (gcem_sgn x)))
  else Ok fl.

(* round_check: sgn(x) * round_int(abs(x)) *)
Definition ct_round (f : fmt) (x : fval) : res fval :=
  if gcem_is_nan x then Ok qnan
  else if negb (gcem_is_finite x) then Ok x
  else if feq x (FZero false) then Ok x
  else if fge (gcem_abs x) (flimit f) then Ok x
  else do w <- gcem_round_int f (gcem_abs x);
       Ok (fmul f (of_int f (gcem_sgn x)) w).

(** * _cmath/rint.hpp: detail::rint_fallback, _cmath/lrint.hpp: detail::lrint_fallback *)
Definition ct_rint (f : fmt) (x : fval) : res fval :=
  let limit := flimit f in
  if negb (fgt x (fneg limit) && flt x limit) then Ok x
  else
    do whole <- to_llint x;
    let result := of_int f whole in
    let frac := fsub f x result in
    let odd := negb (Z.rem whole 2 =? 0) in
    let result' :=
      if fgt frac fhalf || (feq frac fhalf && odd) then fadd f result fone
      else if flt frac (fneg fhalf) || (feq frac (fneg fhalf) && odd) then fsub f result fone
      else result in
    Ok (ct_copysign f result' x).

(* static_cast<long / long long>(rint_fallback(arg)): both are 64 bits wide on LP64 *)
Definition ct_lrint (f : fmt) (x : fval) : res Z :=
  do r <- ct_rint f x; to_sint 64 r.

(** * _cmath/fma.hpp in constant evaluation: x * y + z (two roundings) *)
Definition ct_fma (f : fmt) (x y z : fval) : fval := fadd f (fmul f x y) z.

(** * _cmath/fmod.hpp, remainder.hpp in constant evaluation: gcem::fmod / gcem::remainder after the
    fix: commits 57a95a0, 3d5fc50 (exact binary long division, _3rd_party/gcem/gcem_incl/fmod.hpp) *)

(* fmod_exact, first loop:  while (a <= r * T(0.5)) a = a + a; *)
Fixpoint fmod_up (fuel : nat) (f : fmt) (r a : fval) : res fval :=
  if fle a (fmul f r fhalf) then
    match fuel with O => OutOfFuel | S k => fmod_up k f r (fadd f a a) end
  else Ok a.

(* second loop:  for (;;) { sub = r >= a; if (sub) r = r - a; if (a == ay) { odd = sub; return r; } a = a * T(0.5); } *)
Fixpoint fmod_down (fuel : nat) (f : fmt) (ay r a : fval) : res (fval * bool) :=
  let sub := fge r a in
  let r' := if sub then fsub f r a else r in
  if feq a ay then Ok (r', sub)
  else match fuel with O => OutOfFuel | S k => fmod_down k f ay r' (fmul f a fhalf) end.

(* one iteration per binade is enough: the exponent range plus the precision bounds the loops *)
Definition fmod_fuel (f : fmt) : nat := Z.to_nat (2 * emax f + 2 * prec f + 4).

Definition gcem_fmod_exact (f : fmt) (ax ay : fval) : res (fval * bool) :=
  do a <- fmod_up (fmod_fuel f) f ax ay; fmod_down (fmod_fuel f) f ay ax a.

(* fmod_check *)
Definition ct_fmod (f : fmt) (x y : fval) : res fval :=
  if gcem_is_nan x || gcem_is_nan y || negb (gcem_is_finite x) || feq y (FZero false) then Ok qnan
  else
    let ax := gcem_abs x in
    let ay := gcem_abs y in
    if negb (fge ax ay) then Ok x
    else do ro <- gcem_fmod_exact f ax ay;
         Ok (if flt x (FZero false) then fneg (fst ro) else fst ro).

(* remainder_check *)
Definition ct_remainder (f : fmt) (x y : fval) : res fval :=
  if gcem_is_nan x || gcem_is_nan y || negb (gcem_is_finite x) || feq y (FZero false) then Ok qnan
  else if negb (gcem_is_finite y) || feq x (FZero false) then Ok x
  else
    let ax := gcem_abs x in
    let ay := gcem_abs y in
    do ro <- (if fge ax ay then gcem_fmod_exact f ax ay else Ok (ax, false));
    let r := fst ro in
    let odd := snd ro in
    let u := fsub f ay r in
    let r' := if fgt r u || (feq r u && odd) then fsub f r ay else r in
    Ok (if flt x (FZero false) then fneg r' else r').
