(* C13 — single-path constexpr functions (containers, strings, algorithms, charconv, chrono): there
   is one piece of code, so "compile time = run time" reduces to "the constant evaluator runs the
   same code", which only the tie can show (OBSERVED, not proved).  These small executable
   descriptions give the model leg of those sample operations; they are specifications of the
   expected observable result, not mirrors of the container code (C01/C04/C06/C08/C10/C11 own that). *)
From Tetl Require Import Lib.Base C13.Spec C11.Model.
From Tetl Require C18.Model.
Local Open Scope Z_scope.

(* etl::to_chars(first, last, v, 10): decimal digits, '-' for negative values *)
Fixpoint dec_digits (fuel : nat) (n : Z) (acc : list Z) : list Z :=
  match fuel with
  | O => acc
  | S k => let acc' := (48 + n mod 10) :: acc in
           if n / 10 =? 0 then acc' else dec_digits k (n / 10) acc'
  end.
Definition to_chars10 (v : Z) : list Z :=
  if v <? 0 then 45 :: dec_digits 40 (- v) [] else dec_digits 40 v [].

(* string_view::find(needle, pos) *)
Fixpoint is_prefix (n h : list Z) : bool :=
  match n, h with
  | [], _ => true
  | _ :: _, [] => false
  | a :: n', b :: h' => (a =? b) && is_prefix n' h'
  end.
Fixpoint find_from (h n : list Z) (i : Z) : Z :=
  if is_prefix n h then i
  else match h with [] => -1 | _ :: h' => find_from h' n (i + 1) end.
Definition sv_find (h n : list Z) (pos : Z) : Z :=
  if Z.of_nat (length h) <? pos then -1
  else find_from (skipn (Z.to_nat pos) h) n pos.

(* the container/algorithm workload of the harness: drop the first element when there are two or
   more, insert 42 at index 1 when non-empty, append 7, sort; then sum and count of 97 *)
Fixpoint insert_sorted (x : Z) (l : list Z) : list Z :=
  match l with [] => [x] | y :: t => if x <=? y then x :: l else y :: insert_sorted x t end.
Definition isort (l : list Z) : list Z := fold_right insert_sorted [] l.
Definition work (s : list Z) : list Z * Z * Z :=
  let v1 := if 2 <=? Z.of_nat (length s) then tl s else s in
  let v2 := match v1 with [] => [] | a :: t => a :: 42 :: t end in
  let v3 := isort (v2 ++ [7]) in
  (v3, fold_right Z.add 0 v3, Z.of_nat (length (filter (Z.eqb 97) v3))).

(* inplace_string<31>{a}.append(b).push_back('!') *)
Definition istr (a b : list Z) : list Z := a ++ b ++ [33].

Definition civil := civil_from_days_m.

(* <cctype> in the "C" locale for c in -1 .. 255 (descriptions shared with C18): the twelve
   classification results and tolower / toupper *)
Definition ctype_all (c : Z) : list Z :=
  let o (x : option Z) := match x with Some v => v | None => -2 end in
  [C18.Model.isalnum_m c; C18.Model.isalpha_m c; C18.Model.isblank_m c; C18.Model.iscntrl_m c;
   C18.Model.isdigit_m c; C18.Model.isgraph_m c; C18.Model.islower_m c; C18.Model.isprint_m c;
   C18.Model.ispunct_m c; C18.Model.isspace_m c; C18.Model.isupper_m c; C18.Model.isxdigit_m c;
   o (C18.Model.tolower_m c); o (C18.Model.toupper_m c)].

(* string_view: sign of compare, rfind (npos = -1), starts_with, ends_with, find_first_of *)
Fixpoint rfind_down (h n : list Z) (i : nat) : Z :=
  if is_prefix n (skipn i h) then Z.of_nat i
  else match i with O => -1 | S k => rfind_down h n k end.
Definition sv_rfind (h n : list Z) : Z :=
  if (length h <? length n)%nat then -1 else rfind_down h n (length h - length n).
Fixpoint first_of (h set : list Z) (i : Z) : Z :=
  match h with
  | [] => -1
  | c :: t => if existsb (Z.eqb c) set then i else first_of t set (i + 1)
  end.
Definition b2z' (b : bool) : Z := if b then 1 else 0.
Definition sv_ops (a b : list Z) : list Z :=
  [lex_cmp a b; sv_rfind a b; b2z' (is_prefix b a);
   b2z' (is_prefix (rev b) (rev a)); first_of a b 0].

(* chrono: days -> year_month_day -> days *)
Definition civil_back (z : Z) : option Z :=
  match civil_from_days_m z with
  | Some (y, m, d) => days_from_civil_m y m d
  | None => None
  end.

(* algorithms over the bytes of a row: reverse; index of the first 97 (or -1); the maximum (or -1);
   is_sorted; rotate to the middle (rotate(first, first + n/2, last)) *)
Fixpoint sortedb (l : list Z) : bool :=
  match l with
  | a :: ((b :: _) as t) => (a <=? b) && sortedb t
  | _ => true
  end.
Definition algo2 (s : list Z) : list Z * Z * Z * Z * list Z :=
  (rev s,
   match index_of 97 s 0 with Some i => i | None => -1 end,
   fold_right Z.max (-1) s,
   b2z' (sortedb s),
   let k := Nat.div (length s) 2 in skipn k s ++ firstn k s).
