(* C13 — compile-time evaluation (portable fallbacks as written in /repo, Model.v: ct_F) and run-time
   execution (compiler builtins / libc, written down as their specification, Spec.v: rt_F) give the
   same answer.  Property theorems only: each is closed by [exact] of a lemma proved in Proofs*.v,
   followed by Print Assumptions. *)
From Tetl Require Import Lib.Base C13.Float C13.Model C13.Spec
  C13.ProofsSign C13.ProofsSat C13.ProofsStr C13.ProofsFma C13.ProofsPop C13.ProofsSwap C13.ProofsCls
  C13.ProofsFloor C13.ProofsCeilTrunc C13.ProofsRoundAway.
Local Open Scope Z_scope.

(** * bit utilities *)

(* detail::popcount_fallback (Kernighan loop, what constant evaluation runs) returns the number of set
   bits below the width (what __builtin_popcount{,l,ll} return), for EVERY width and value; the loop
   never needs more than w iterations *)
Theorem C13_popcount : forall w x, 0 <= w -> 0 <= x < 2 ^ w -> ct_popcount w x = Ok (rt_popcount w x).
Proof. exact popcount_ct_eq_rt. Qed.
Print Assumptions C13_popcount.

(* detail::byteswap_fallback (shifts and masks) reverses the bytes like __builtin_bswap16/32/64, for
   every value of uint16/32/64; 1-byte values are returned unchanged *)
Theorem C13_byteswap : forall w v, (w = 8 \/ w = 16 \/ w = 32 \/ w = 64) -> 0 <= v < 2 ^ w ->
  ct_byteswap w v = Ok (rt_byteswap w v).
Proof. exact byteswap_ct_eq_rt. Qed.
Print Assumptions C13_byteswap.

(** * saturating addition: integer types of EVERY width *)

(* detail::add_sat_fallback (the if-constexpr ladder: add in int / in a 64-bit type / compare before
   adding) returns the exact sum clamped to the range of the type, with no signed overflow on the
   way.  The one excluded combination, an unsigned type of exactly 31 bits, does not exist in C++
   (C13_add_sat_u31_excluded shows that the exclusion is needed). *)
Theorem C13_add_sat_fallback : forall t x y, 0 < bits t ->
  (sgn t = false -> bits t <> 31) ->
  in_ty t x = true -> in_ty t y = true -> ct_add_sat t x y = Ok (rt_add_sat t x y).
Proof. exact add_sat_ct_eq_rt. Qed.
Print Assumptions C13_add_sat_fallback.

(* etl::add_sat itself (GCC/Clang: __builtin_add_overflow, modelled by its specification, then the
   sign test) returns the same clamped sum: fallback and builtin path agree for every width *)
Theorem C13_add_sat_builtin_path : forall t x y, 0 < bits t ->
  in_ty t x = true -> in_ty t y = true -> code_add_sat t x y = Ok (rt_add_sat t x y).
Proof. exact add_sat_code_eq_rt. Qed.
Print Assumptions C13_add_sat_builtin_path.

Theorem C13_add_sat_u31_excluded :
  let t := {| bits := 31; sgn := false |} in
  in_ty t 2147483647 = true /\
  ct_add_sat t 2147483647 2147483647 = UB SignedOverflow /\
  rt_add_sat t 2147483647 2147483647 = 2147483647.
Proof. exact add_sat_ct_u31_overflows. Qed.
Print Assumptions C13_add_sat_u31_excluded.

(** * C string loops of _strings/cstr.hpp against the C library specification: buffers of EVERY
    length and content.  [rt_F buf = None] means the call is undefined (no terminator inside the
    array / fewer than n bytes); the loops then read outside the array (UB OutOfBounds). *)

Theorem C13_strlen : forall buf,
  ct_strlen buf = match rt_strlen buf with Some n => Ok n | None => UB OutOfBounds end.
Proof. exact strlen_ct_eq_rt. Qed.
Print Assumptions C13_strlen.

(* characters are values of unsigned char (non-negative): cstr_compare converts to unsigned char *)
Theorem C13_strcmp : forall l r v,
  Forall (fun c => 0 <= c) l -> Forall (fun c => 0 <= c) r ->
  rt_strcmp l r = Some v -> ct_strcmp l r = Ok v.
Proof. exact strcmp_ct_eq_rt. Qed.
Print Assumptions C13_strcmp.

Theorem C13_strncmp : forall l r n v,
  Forall (fun c => 0 <= c) l -> Forall (fun c => 0 <= c) r ->
  rt_strncmp l r n = Some v -> ct_strncmp l r n = Ok v.
Proof. exact strncmp_ct_eq_rt. Qed.
Print Assumptions C13_strncmp.

Theorem C13_strchr : forall buf ch r, rt_strchr buf ch = Some r -> ct_strchr buf ch = Ok r.
Proof. exact strchr_ct_eq_rt. Qed.
Print Assumptions C13_strchr.

Theorem C13_memchr : forall buf ch n r, rt_memchr buf ch n = Some r -> ct_memchr buf ch n = Ok r.
Proof. exact memchr_ct_eq_rt. Qed.
Print Assumptions C13_memchr.

(** * classification *)
Theorem C13_isnan_ct_eq_rt : forall x, ct_isnan x = rt_isnan x.
Proof. exact isnan_ct_eq_rt. Qed.
Print Assumptions C13_isnan_ct_eq_rt.

(** * sign: every value (zeros, infinities, NaNs of both signs, subnormals) of every interchange-like
    format (exponent field exactly wide enough: binary32, binary64, x87 extended) *)
Theorem C13_signbit : forall f x, std_fmt f -> valid f x = true -> ct_signbit f x = rt_signbit x.
Proof. exact signbit_ct_eq_rt. Qed.
Print Assumptions C13_signbit.

Theorem C13_copysign : forall f x y, std_fmt f -> valid f x = true -> valid f y = true ->
  ct_copysign f x y = rt_copysign x y.
Proof. exact copysign_ct_eq_rt. Qed.
Print Assumptions C13_copysign.

Theorem C13_formats : std_fmt binary32 /\ std_fmt binary64 /\ std_fmt x87ext /\
  fmt_ok binary32 /\ fmt_ok binary64 /\ fmt_ok x87ext.
Proof. repeat split; vm_compute; congruence. Qed.
Print Assumptions C13_formats.

(** * rounding to an integral value: the gcem kernels (what constant evaluation runs: guard ladder,
    conversion to long long and back, correction by comparison) against the IEC 60559
    roundToIntegral operations (what __builtin_floor/ceil/trunc/round compute), for EVERY value
    (zeros, subnormals, halves, huge values, infinities, NaNs) of EVERY format with
    2 <= precision <= 64 and precision < emax; a zero result has the sign of the argument and no
    conversion to long long is out of range *)
Theorem C13_floor : forall f, fmt_ok f -> forall x, valid f x = true -> ct_floor f x = Ok (rt_floor x).
Proof. exact floor_ct_eq_rt. Qed.
Print Assumptions C13_floor.

Theorem C13_ceil : forall f, fmt_ok f -> forall x, valid f x = true -> ct_ceil f x = Ok (rt_ceil x).
Proof. exact ceil_ct_eq_rt. Qed.
Print Assumptions C13_ceil.

Theorem C13_trunc : forall f, fmt_ok f -> forall x, valid f x = true -> ct_trunc f x = Ok (rt_trunc x).
Proof. exact trunc_ct_eq_rt. Qed.
Print Assumptions C13_trunc.

(* round: precision up to 63 bits (float, double); with the 64-bit significand of x87 long double
   gcem::round converts floor(|x|) + 1 = 2^63 to long long for |x| = 2^63 - 1/2 (recorded finding
   KF-C13-round-ld-2p63, C13_round_ld_refuted) *)
Theorem C13_round : forall f, fmt_ok f -> prec f <= 63 -> forall x, valid f x = true ->
  ct_round f x = Ok (rt_round x).
Proof. exact round_ct_eq_rt. Qed.
Print Assumptions C13_round.

Theorem C13_round_ld_refuted :
  let x := FFin false 18446744073709551615 (-1) in
  valid x87ext x = true /\ ct_round x87ext x = UB SignedOverflow /\ rt_round x = FFin false 1 63.
Proof. exact round_p64_overflows. Qed.
Print Assumptions C13_round_ld_refuted.

(** * fma: recorded finding KF-C13-fma-unfused.  x * y + z with two roundings (constant evaluation)
    differs from the fused builtin (run time) on fma(0.1f, 10.0f, -1.0f): 0 against 2^-26 * 1.6 *)
Theorem C13_fma_refuted : exists f x y z,
  valid f x = true /\ valid f y = true /\ valid f z = true /\ ct_fma f x y z <> rt_fma f x y z.
Proof. exact fma_differs. Qed.
Print Assumptions C13_fma_refuted.

(** * the hypotheses are satisfiable: "ab" against "abc" is defined and negative; the strings are
    terminated inside their arrays *)
Example C13_nonvacuous :
  rt_strcmp [97; 98; 0] [97; 98; 99; 0] = Some (-1) /\ rt_strncmp [97; 98; 0] [97; 99; 0] 2 = Some (-1) /\
  rt_strchr [97; 98; 0] 98 = Some (Some 1) /\ rt_memchr [97; 98; 0] 98 3 = Some (Some 1) /\
  in_ty i8 127 = true.
Proof. repeat split. Qed.
