(* C13 — compile-time evaluation (portable fallbacks as written in /repo, Model.v: ct_F) and run-time
   execution (compiler builtins / libc, written down as their specification, Spec.v: rt_F) give the
   same answer, and the compile-time path has no undefined step (every ct_F returns Ok: no signed
   overflow, no out-of-range float->integer conversion, no read outside the array, fuel not exhausted)
   on every argument of the documented domain.
   Property theorems only: each is closed by [exact]/[conj] of lemmas proved in Proofs*.v, followed
   by Print Assumptions.  Related statements are grouped into one conjunction (Print Assumptions
   walks the whole dependency closure once per theorem). *)
From Tetl Require Import Lib.Base C13.Float C13.Model C13.Spec
  C13.ProofsSign C13.ProofsSat C13.ProofsStr C13.ProofsFma C13.ProofsPop C13.ProofsSwap C13.ProofsCls
  C13.ProofsFloor C13.ProofsCeilTrunc C13.ProofsRoundAway C13.ProofsRint C13.ProofsFmaExact C13.ProofsFmod C13.ProofsFmodTop C13.ProofsRemainder C13.ProofsCodec C13.NonVac.
Local Open Scope Z_scope.

(** * bit utilities *)
(* popcount: detail::popcount_fallback (Kernighan loop, what constant evaluation runs) returns the
   number of set bits below the width (what __builtin_popcount{,l,ll} return), for EVERY width and
   value; the loop never needs more than w iterations.
   byteswap: detail::byteswap_fallback (shifts and masks) reverses the bytes like
   __builtin_bswap16/32/64, for every value of uint16/32/64; 1-byte values are returned unchanged *)
Theorem C13_bits :
  (forall w x, 0 <= w -> 0 <= x < 2 ^ w -> ct_popcount w x = Ok (rt_popcount w x)) /\
  (forall w v, (w = 8 \/ w = 16 \/ w = 32 \/ w = 64) -> 0 <= v < 2 ^ w ->
     ct_byteswap w v = Ok (rt_byteswap w v)).
Proof. exact (conj popcount_ct_eq_rt byteswap_ct_eq_rt). Qed.
Print Assumptions C13_bits.

(** * saturating addition: integer types of EVERY width *)
(* detail::add_sat_fallback (the if-constexpr ladder: add in int / in a 64-bit type / compare before
   adding) returns the exact sum clamped to the range of the type, with no signed overflow on the
   way; etl::add_sat itself (GCC/Clang: __builtin_add_overflow, modelled by its specification, then
   the sign test) returns the same clamped sum.  The one excluded combination, an unsigned type of
   exactly 31 bits, does not exist in C++ (C13_add_sat_u31_excluded: the exclusion is needed). *)
Theorem C13_add_sat :
  (forall t x y, 0 < bits t -> (sgn t = false -> bits t <> 31) ->
     in_ty t x = true -> in_ty t y = true -> ct_add_sat t x y = Ok (rt_add_sat t x y)) /\
  (forall t x y, 0 < bits t ->
     in_ty t x = true -> in_ty t y = true -> code_add_sat t x y = Ok (rt_add_sat t x y)).
Proof. exact (conj add_sat_ct_eq_rt add_sat_code_eq_rt). Qed.
Print Assumptions C13_add_sat.

Theorem C13_add_sat_u31_excluded :
  let t := {| bits := 31; sgn := false |} in
  in_ty t 2147483647 = true /\
  ct_add_sat t 2147483647 2147483647 = UB SignedOverflow /\
  rt_add_sat t 2147483647 2147483647 = 2147483647.
Proof. exact add_sat_ct_u31_overflows. Qed.
Print Assumptions C13_add_sat_u31_excluded.

(** * C string loops of _strings/cstr.hpp against the C library specification: buffers of EVERY
    length and content.  [rt_F buf = None] means the call is undefined (no terminator inside the
    array / fewer than n bytes); for strlen the loop then reads outside the array (UB OutOfBounds).
    Characters are values of unsigned char (non-negative): cstr_compare converts to unsigned char. *)
Theorem C13_cstring :
  (forall buf, ct_strlen buf = match rt_strlen buf with Some n => Ok n | None => UB OutOfBounds end) /\
  (forall l r v, Forall (fun c => 0 <= c) l -> Forall (fun c => 0 <= c) r ->
     rt_strcmp l r = Some v -> ct_strcmp l r = Ok v) /\
  (forall l r n v, Forall (fun c => 0 <= c) l -> Forall (fun c => 0 <= c) r ->
     rt_strncmp l r n = Some v -> ct_strncmp l r n = Ok v) /\
  (forall buf ch r, rt_strchr buf ch = Some r -> ct_strchr buf ch = Ok r) /\
  (forall buf ch n r, rt_memchr buf ch n = Some r -> ct_memchr buf ch n = Ok r).
Proof.
  exact (conj strlen_ct_eq_rt (conj strcmp_ct_eq_rt (conj strncmp_ct_eq_rt
          (conj strchr_ct_eq_rt memchr_ct_eq_rt)))).
Qed.
Print Assumptions C13_cstring.

(** * sign and classification: every value (zeros, infinities, NaNs of both signs, subnormals) of
    every interchange-like format (exponent field exactly wide enough: binary32, binary64 -- the
    bit_cast branch of signbit_fallback -- and x87 extended -- the __builtin_copysignl branch);
    the comparison-based isnan / isinf fallbacks (dead code with GCC and Clang) for every value *)
Theorem C13_sign_class :
  (forall f x, std_fmt f -> valid f x = true -> ct_signbit f x = rt_signbit x) /\
  (forall f x y, std_fmt f -> valid f x = true -> valid f y = true ->
     ct_copysign f x y = rt_copysign x y) /\
  (forall x, ct_isnan x = rt_isnan x) /\
  (forall x, gcem_is_inf x = rt_isinf x).
Proof.
  exact (conj signbit_ct_eq_rt (conj copysign_ct_eq_rt (conj isnan_ct_eq_rt gcem_is_inf_spec))).
Qed.
Print Assumptions C13_sign_class.

(* the three formats of the target satisfy the hypotheses of the floating-point theorems *)
Theorem C13_formats : std_fmt binary32 /\ std_fmt binary64 /\ std_fmt x87ext /\
  fmt_ok binary32 /\ fmt_ok binary64 /\ fmt_ok x87ext.
Proof. repeat split; vm_compute; congruence. Qed.
Print Assumptions C13_formats.

(* the quantifier "valid f x" is exactly "x is the value of a bit pattern": every bit pattern of an
   interchange-like format decodes to a valid value, and every valid value (NaNs up to payload) is the
   decoding of its encoding -- so the floating-point theorems cover every float and every double *)
Theorem C13_codec : forall f, std_fmt f ->
  (forall bits, valid f (decode f bits) = true) /\
  (forall x, valid f x = true -> decode f (encode f x) = x).
Proof. intros f Hs. exact (conj (fun bits => decode_valid f bits Hs) (fun x => decode_encode f x Hs)). Qed.
Print Assumptions C13_codec.

(** * rounding to an integral value: the gcem kernels (what constant evaluation runs: guard ladder,
    conversion to long long and back, correction by comparison) against the IEC 60559
    roundToIntegral operations (what __builtin_floor/ceil/trunc/round compute), for EVERY value
    (zeros, subnormals, halves, huge values, infinities, NaNs) of EVERY format with
    2 <= precision <= 64 and precision < emax; a zero result has the sign of the argument and no
    conversion to long long is out of range *)
Theorem C13_round_to_integral : forall f, fmt_ok f -> forall x, valid f x = true ->
  ct_floor f x = Ok (rt_floor x) /\ ct_ceil f x = Ok (rt_ceil x) /\
  ct_trunc f x = Ok (rt_trunc x) /\ ct_round f x = Ok (rt_round x).
Proof.
  intros f Hf x Hv.
  exact (conj (floor_ct_eq_rt f Hf x Hv) (conj (ceil_ct_eq_rt f Hf x Hv)
          (conj (trunc_ct_eq_rt f Hf x Hv) (round_ct_eq_rt f Hf x Hv)))).
Qed.
Print Assumptions C13_round_to_integral.

(* precision 64 (x87 long double): round(2^63 - 1/2) = 2^63, the argument on which the code before
   the fix: commit 1802224 converted 2^63 to long long *)
Theorem C13_round_ld_edge :
  let x := FFin false 18446744073709551615 (-1) in
  valid x87ext x = true /\ ct_round x87ext x = Ok (FFin false 1 63) /\ rt_round x = FFin false 1 63.
Proof. exact round_p64_edge. Qed.
Print Assumptions C13_round_ld_edge.

(* rint: detail::rint_fallback (truncate to long long, inspect the fraction, step by one, copysign)
   against roundToIntegralTiesToEven; the two sides agree up to the sign of a NaN result (the
   fallback returns a NaN argument unchanged, the specification leaves the sign of a NaN open).
   lrint / llrint (64-bit results): wherever the run-time function is defined (the rounded value
   fits) the fallback returns the same value and its float -> integer conversion is in range *)
Theorem C13_rint_lrint : forall f, fmt_ok f -> std_fmt f -> forall x, valid f x = true ->
  (exists y, ct_rint f x = Ok y /\ up_to_nan_sign y (rt_rint x)) /\
  (forall n, rt_lrint x = Some n -> ct_lrint f x = Ok n).
Proof.
  intros f Hf Hs x Hv.
  exact (conj (rint_ct_eq_rt f Hf Hs x Hv) (fun n => lrint_ct_eq_rt f Hf Hs x n Hv)).
Qed.
Print Assumptions C13_rint_lrint.

(** * fma: recorded finding KF-C13-fma-unfused.  x * y + z with two roundings (constant evaluation)
    differs from the fused builtin (run time) on fma(0.1f, 10.0f, -1.0f): 0 against 2^-26 * 1.6;
    the two agree for every format and every x, y, z (specials included) when the exact product of
    x and y is a value of the format *)
Theorem C13_fma_refuted : exists f x y z,
  valid f x = true /\ valid f y = true /\ valid f z = true /\ ct_fma f x y z <> rt_fma f x y z.
Proof. exact fma_differs. Qed.
Print Assumptions C13_fma_refuted.

Theorem C13_fma_exact_product : forall f x y z, product_exact f x y -> ct_fma f x y z = rt_fma f x y z.
Proof. exact fma_exact_product. Qed.
Print Assumptions C13_fma_exact_product.

(** * fmod and remainder: gcem fmod_exact / remainder_check (what constant evaluation runs since the fix:
    commits 57a95a0, 3d5fc50: binary long division with an inexact halving test, exact doubling,
    Sterbenz subtractions; for remainder one comparison of r with the possibly ROUNDED |y| - r) against
    C fmod and IEC 60559 remainder (what __builtin_fmod* / __builtin_remainder* compute), for EVERY pair
    of values (zeros, subnormals, infinities, NaNs, any ratio of magnitudes) of EVERY format with
    2 <= precision <= 64 < emax; the loop fuel (one iteration per binade) is never exhausted and a
    zero result has the sign of x *)
Theorem C13_fmod_remainder : forall f, fmt_ok f -> forall x y, valid f x = true -> valid f y = true ->
  ct_fmod f x y = Ok (rt_fmod x y) /\ ct_remainder f x y = Ok (rt_remainder x y).
Proof.
  intros f Hf x y Hx Hy. exact (conj (fmod_ct_eq_rt f Hf x y Hx Hy) (remainder_ct_eq_rt f Hf x y Hx Hy)).
Qed.
Print Assumptions C13_fmod_remainder.

(** * fmod / remainder: the inputs on which the code before the fix went wrong (fmod(1e10f, 3.0f) = 0,
    remainder(5.0f, 3.0f) = 2, fmod(5.0f, inf) = NaN in constant evaluation) and the odd-subnormal
    cases (inexact halving), by evaluation: instances of C13_fmod_remainder kept as regression anchors *)
Theorem C13_fmod_remainder_witnesses :
  (ct_fmod binary32 (f32 1343554297) (f32 1077936128) = Ok (rt_fmod (f32 1343554297) (f32 1077936128)) /\
   rt_fmod (f32 1343554297) (f32 1077936128) = FFin false 1 0) /\
  (ct_remainder binary32 (f32 1084227584) (f32 1077936128) = Ok (rt_remainder (f32 1084227584) (f32 1077936128)) /\
   rt_remainder (f32 1084227584) (f32 1077936128) = FFin true 1 0) /\
  (ct_fmod binary32 (f32 1084227584) (FInf false) = Ok (f32 1084227584)) /\
  (ct_fmod binary32 (f32 3) (f32 1) = Ok (FZero false) /\ ct_remainder binary32 (f32 3) (f32 2) = Ok (FFin true 1 (-149)) /\
   rt_remainder (f32 3) (f32 2) = FFin true 1 (-149)).
Proof. exact fmod_remainder_witnesses. Qed.
Print Assumptions C13_fmod_remainder_witnesses.

(** * the hypotheses are satisfiable: "ab" against "abc" is defined and negative; the strings are
    terminated inside their arrays; 2.5 and 3.5 are values of binary64 inside the domain of lrint;
    1.5 * 2.0 is an exact product *)
Example C13_nonvacuous :
  rt_strcmp [97; 98; 0] [97; 98; 99; 0] = Some (-1) /\ rt_strncmp [97; 98; 0] [97; 99; 0] 2 = Some (-1) /\
  rt_strchr [97; 98; 0] 98 = Some (Some 1) /\ rt_memchr [97; 98; 0] 98 3 = Some (Some 1) /\
  in_ty i8 127 = true /\
  valid binary64 (decode binary64 4612811918334230528) = true (* 2.5 *) /\
  rt_lrint (decode binary64 4612811918334230528) = Some 2 /\
  rt_lrint (decode binary64 4615063718147915776) = Some 4 (* 3.5 *) /\
  product_exact binary64 (decode binary64 4609434218613702656) (decode binary64 4611686018427387904).
Proof. exact nonvacuous. Qed.
