(* C13 — compile-time evaluation (portable fallbacks, Model.v) and run-time execution (builtins by
   specification, Spec.v) give the same answer.  Property theorems only. *)
From Tetl Require Import Lib.Base C13.Float C13.Model C13.Spec C13.ProofsSign.
Local Open Scope Z_scope.

Theorem C13_isnan_ct_eq_rt : forall x, ct_isnan x = rt_isnan x.
Proof. exact isnan_ct_eq_rt. Qed.
Print Assumptions C13_isnan_ct_eq_rt.
