(* C13 — gcem::round (constant evaluation: sgn(x) * (floor(|x|) + [|x| - floor(|x|) >= 1/2]))
   = IEC 60559 roundToIntegralTiesToAway (run time), for every value of every format with
   2 <= precision <= 64 < emax. *)
From Tetl Require Import Lib.Base C13.Float C13.Model C13.Spec C13.ProofsKit C13.ProofsCls C13.ProofsRoundKit
  C13.ProofsFloor C13.ProofsCeilTrunc.
From Coq Require Import ZifyBool.
Local Open Scope Z_scope.
Ltac Zify.zify_post_hook ::= Z.to_euclidean_division_equations.

(* (2a + D) / 2D with D = 2h: the quotient plus one when the remainder reaches the half *)
Lemma round_away_arith : forall a h, 0 < h -> 0 <= a ->
  (2 * a + 2 * h) / (2 * (2 * h)) = a / (2 * h) + (if h <=? a mod (2 * h) then 1 else 0).
Proof.
  intros a h Hh Ha.
  pose proof (Z.div_mod a (2 * h) ltac:(lia)) as E.
  pose proof (Z.mod_pos_bound a (2 * h) ltac:(lia)) as B.
  remember (a / (2 * h)) as q. remember (a mod (2 * h)) as r.
  destruct (h <=? r) eqn:Hc.
  - symmetry. apply (Z.div_unique _ _ (q + 1) (2 * r - 2 * h)); lia.
  - symmetry. apply (Z.div_unique _ _ (q + 0) (2 * r + 2 * h)); lia.
Qed.

Lemma fhalf_mk : forall k, 1 <= k -> fhalf = mk k (2 ^ (k - 1)).
Proof. intros k Hk. unfold fhalf. rewrite (fpow2_mk k (-1)) by lia. f_equal. f_equal. lia. Qed.

Lemma mk_0_pm1 : mk 0 1 = FFin false 1 0 /\ mk 0 (-1) = FFin true 1 0.
Proof. split; reflexivity. Qed.

(* sgn(x) * T(w) *)
Lemma fmul_sign : forall f sg w, (sg = 1 \/ sg = -1) -> 0 <= w -> rep f 0 w ->
  fmul f (mk 0 sg) (mk 0 w) = fofZ (sg <? 0) (sg * w).
Proof.
  intros f sg w Hsg Hw Hrep.
  assert (Esg : mk 0 sg = FFin (sg <? 0) 1 0) by (destruct Hsg as [->| ->]; reflexivity).
  rewrite Esg.
  destruct (Z.eq_dec w 0) as [->|Hw0].
  - rewrite Z.mul_0_r. cbn. destruct (sg <? 0); reflexivity.
  - destruct (mk_fin 0 w Hw0) as (m & e & E & Ho & K & A).
    unfold rep in Hrep. rewrite E in Hrep |- *. cbn [valid] in Hrep.
    rewrite !andb_true_iff, !Z.leb_le in Hrep. destruct Hrep as [[[_ Hd] Hmin] Hmax].
    replace (w <? 0) with false by lia.
    cbn [fmul fsign xorb]. rewrite xorb_false_r.
    change (Zpos 1 * Zpos m) with (Zpos m). change (0 + e) with e.
    rewrite (fround_exact f (sg <? 0) (Zpos m) e m e); try lia.
    + rewrite fofZ_nz by (destruct Hsg as [->| ->]; lia).
      rewrite (mk_of_fin 0 (sg <? 0) m e Ho ltac:(lia)). f_equal.
      rewrite Z.abs_eq in A by lia. rewrite <- A.
      destruct Hsg as [->| ->]; cbn [Z.ltb Z.compare]; lia.
    + change (Z.to_pos (Zpos m)) with m. apply pnorm_odd. exact Ho.
Qed.

Section RoundAway.
Variable f : fmt.
Hypothesis Hf : fmt_ok f.
Local Notation p := (prec f).

(* round_int(|x|) for |x| = a * 2^-k *)
Lemma round_int_mk : forall k a, 0 <= k -> 0 < a -> a < 2 ^ (p - 1 + k) ->
  (forall r, Z.abs r <= a -> rep f k r) ->
  gcem_round_int f (mk k a) =
  Ok (mk 0 (a / 2 ^ k + (if (1 <=? k) && (2 ^ (k - 1) <=? a mod 2 ^ k) then 1 else 0))).
Proof.
  intros k a Hk Ha Hlt Hlow.
  pose proof (P_bounds f Hf) as HP.
  pose proof (pow2_gt0 k Hk) as HD.
  unfold gcem_round_int. change (gcem_floor_check f (mk k a)) with (ct_floor f (mk k a)).
  rewrite ct_floor_ladder.
  rewrite ladder_small; [|exact Hf|exact Hk|lia|lia].
  rewrite (floor_kern f Hf); [|exact Hk|lia|lia].
  cbn [rbind].
  rewrite (PD f Hf k Hk) in Hlt.
  assert (Hq : 0 <= a / 2 ^ k < 2 ^ (p - 1)).
  { split; [apply Z.div_pos; lia|]. apply Z.div_lt_upper_bound; lia. }
  pose proof (Z.div_mod a (2 ^ k) ltac:(lia)) as Edm.
  pose proof (Z.mod_pos_bound a (2 ^ k) HD) as Bm.
  rewrite <- (mk_int k (a / 2 ^ k) Hk).
  rewrite mk_sub' by (apply Hlow; lia).
  replace (a - a / 2 ^ k * 2 ^ k) with (a mod 2 ^ k) by lia.
  rewrite gcem_abs_mk, (Z.abs_eq (a mod 2 ^ k)) by lia.
  rewrite gcem_sgn_mk. replace (Z.sgn a) with 1 by lia.
  destruct (Z.eq_dec k 0) as [->|Hk0].
  - (* scale 0: the value is an integer *)
    change (2 ^ 0) with 1 in *. rewrite Z.mod_1_r. cbn [Z.leb Z.compare andb].
    change (fge (mk 0 0) fhalf) with false. cbv iota.
    rewrite Z.add_0_r, Z.mul_1_r. reflexivity.
  - replace (1 <=? k) with true by lia. cbn [andb].
    rewrite (fhalf_mk k) by lia. rewrite mk_fge.
    destruct (2 ^ (k - 1) <=? a mod 2 ^ k) eqn:Hh.
    + rewrite (of_int_small f Hf k 1 Hk) by lia.
      assert (Hrep1 : rep f k ((a / 2 ^ k + 1) * 2 ^ k)) by (apply rep_int; [exact Hf|exact Hk|lia]).
      rewrite mk_add by (replace (a / 2 ^ k * 2 ^ k + 1 * 2 ^ k) with ((a / 2 ^ k + 1) * 2 ^ k) by lia; exact Hrep1).
      replace (a / 2 ^ k * 2 ^ k + 1 * 2 ^ k) with ((a / 2 ^ k + 1) * 2 ^ k) by lia.
      rewrite mk_int by lia. reflexivity.
    + rewrite mk_int by lia. rewrite Z.add_0_r. reflexivity.
Qed.

Lemma round_kern : forall k v, 0 <= k -> v <> 0 -> Z.abs v < 2 ^ (p - 1 + k) ->
  (forall r, Z.abs r <= Z.abs v -> rep f k r) ->
  (do w <- gcem_round_int f (gcem_abs (mk k v));
   Ok (fmul f (of_int f (gcem_sgn (mk k v))) w))
  = Ok (fofZ (v <? 0)
         (Z.sgn v * (Z.abs v / 2 ^ k + (if (1 <=? k) && (2 ^ (k - 1) <=? Z.abs v mod 2 ^ k) then 1 else 0)))).
Proof.
  intros k v Hk Hv Hlt Hlow.
  pose proof (P_bounds f Hf) as HP.
  pose proof (pow2_gt0 k Hk) as HD.
  rewrite gcem_abs_mk, gcem_sgn_mk.
  rewrite round_int_mk; [|exact Hk|lia|lia|exact Hlow]. cbn [rbind]. f_equal.
  rewrite (PD f Hf k Hk) in Hlt.
  assert (Hq : 0 <= Z.abs v / 2 ^ k < 2 ^ (p - 1)).
  { split; [apply Z.div_pos; lia|]. apply Z.div_lt_upper_bound; lia. }
  set (w := Z.abs v / 2 ^ k + (if (1 <=? k) && (2 ^ (k - 1) <=? Z.abs v mod 2 ^ k) then 1 else 0)).
  assert (Hw : 0 <= w <= 2 ^ (p - 1)).
  { unfold w. destruct ((1 <=? k) && (2 ^ (k - 1) <=? Z.abs v mod 2 ^ k)); lia. }
  rewrite (of_int_small0 f Hf (Z.sgn v)) by lia.
  rewrite fmul_sign; [|lia|lia|apply (small_rep f Hf); lia].
  f_equal. lia.
Qed.

Theorem round_ct_eq_rt : forall x, valid f x = true -> ct_round f x = Ok (rt_round x).
Proof.
  intros x Hv. rewrite ct_round_ladder.
  destruct x as [s|s|s|s m e].
  - apply ladder_zero.
  - apply ladder_inf.
  - apply ladder_nan.
  - destruct (fin_as_mk f s m e Hv) as (E & Hv0 & Hs & Hrep).
    unfold rt_round. destruct (Z_lt_le_dec e 0) as [He|He].
    + destruct (scaled_frac f s m e Hf Hv He) as (Hk & Hsc & Ho & Hlt).
      rewrite <- (glue_frac f Hf zround_away s m e Hv He). rewrite E.
      rewrite ladder_small; [|exact Hf|unfold scale_of; lia|exact Hv0|exact Hlt].
      rewrite round_kern; [|unfold scale_of; lia|exact Hv0|exact Hlt|].
      * f_equal. f_equal. unfold zround_away. f_equal.
        assert (Hk1 : 1 <= scale_of e) by lia.
        replace (1 <=? scale_of e) with true by lia. cbn [andb].
        pose proof (pow2_gt0 (scale_of e - 1) ltac:(lia)) as Hh.
        assert (ED : 2 ^ scale_of e = 2 * 2 ^ (scale_of e - 1)).
        { replace (scale_of e) with ((scale_of e - 1) + 1) at 1 by lia. apply pow2_succ. lia. }
        rewrite ED. rewrite <- round_away_arith by lia. try (f_equal; lia).
      * intros r Hr. apply (rep_below f (scale_of e) (scaled s m e)); assumption.
    + rewrite (round_with_int f) by assumption. rewrite E.
      rewrite (scale_int e He) in *.
      destruct (Z_lt_le_dec (Z.abs (scaled s m e)) (2 ^ (p - 1 + 0))) as [Hlt|Hge].
      * rewrite ladder_small; [|exact Hf|lia|exact Hv0|exact Hlt].
        rewrite round_kern; [|lia|exact Hv0|exact Hlt|].
        -- cbn [Z.leb Z.compare andb]. change (2 ^ 0) with 1. rewrite Z.div_1_r, Z.add_0_r.
           f_equal. rewrite fofZ_nz by lia. f_equal. lia.
        -- intros r Hr. apply (small_rep f Hf). replace (p - 1 + 0) with (p - 1) in Hlt by lia. lia.
      * apply ladder_large; [exact Hf|lia|exact Hv0|exact Hge].
Qed.
End RoundAway.

(* precision 64 (x87 long double): round(2^63 - 1/2) = 2^63, the case in which the former
   find_whole-based code converted 2^63 to long long *)
Lemma round_p64_edge :
  let x := FFin false 18446744073709551615 (-1) in
  valid x87ext x = true /\ ct_round x87ext x = Ok (FFin false 1 63) /\ rt_round x = FFin false 1 63.
Proof. cbv zeta. split; [|split]; vm_compute; reflexivity. Qed.
