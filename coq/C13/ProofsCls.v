(* C13 — sign and classification: signbit_fallback (reads the top bit of the representation for
   the interchange formats, asks __builtin_copysignl otherwise), copysign_fallback, and the
   comparison-based gcem classification helpers, against the IEC 60559 operations. *)
From Tetl Require Import Lib.Base C13.Float C13.Model C13.Spec C13.ProofsKit.
From Coq Require Import ZifyBool.
Local Open Scope Z_scope.
Ltac Zify.zify_post_hook ::= Z.to_euclidean_division_equations.

(* an interchange-like format: the exponent field is exactly wide enough for emax = 2^(ew-1) *)
Definition std_fmt (f : fmt) : Prop := 2 <= prec f /\ 2 <= emax f /\ 2 ^ ewidth f = 2 * emax f.

Lemma std_binary32 : std_fmt binary32. Proof. repeat split; vm_compute; congruence. Qed.
Lemma std_binary64 : std_fmt binary64. Proof. repeat split; vm_compute; congruence. Qed.
Lemma std_x87ext : std_fmt x87ext. Proof. repeat split; vm_compute; congruence. Qed.

Lemma cmp_mag_refl' : forall m e, cmp_mag m e m e = Eq.
Proof. intros m e. unfold cmp_mag. apply Z.compare_refl. Qed.

(** * classification by comparisons (gcem::internal::is_nan / is_inf / is_finite) *)
Lemma gcem_is_nan_spec : forall x, gcem_is_nan x = is_nan x.
Proof.
  intros [s|s|s|s m e]; unfold gcem_is_nan, fne, feq; cbn [fcompare is_nan]; try reflexivity.
  - destruct s; reflexivity.
  - destruct s; rewrite cmp_mag_refl'; reflexivity.
Qed.

Lemma gcem_is_inf_spec : forall x, gcem_is_inf x = is_inf x.
Proof.
  intros [s|s|s|s m e]; unfold gcem_is_inf, feq; cbn [fcompare is_inf]; try reflexivity;
    destruct s; reflexivity.
Qed.

Lemma gcem_is_finite_spec : forall x, gcem_is_finite x = is_fin x.
Proof.
  intros x. unfold gcem_is_finite. rewrite gcem_is_nan_spec, gcem_is_inf_spec.
  destruct x; reflexivity.
Qed.

(** * the representation: sign bit on top of a field that never reaches it *)
Lemma encode_split : forall f x, std_fmt f -> valid f x = true ->
  exists r, encode f x = (if fsign x then 2 ^ (ewidth f + mwidth f) else 0) + r
            /\ 0 <= r < 2 ^ (ewidth f + mwidth f).
Proof.
  intros f x (Hp & He & Hew) Hv. unfold mwidth in *.
  assert (Hewpos : 0 <= ewidth f) by (unfold ewidth; pose proof (Z.log2_nonneg (emax f)); lia).
  pose proof (pow2_gt0 (prec f - 1) ltac:(lia)) as Hmw.
  assert (Hsum : 2 ^ (ewidth f + (prec f - 1)) = 2 * emax f * 2 ^ (prec f - 1))
    by (rewrite pow2_add by lia; rewrite Hew; reflexivity).
  assert (Hhalf : 2 ^ (prec f - 1) = 2 * 2 ^ (prec f - 1 - 1)).
  { replace (prec f - 1) with ((prec f - 1 - 1) + 1) at 1 by lia. apply pow2_succ. lia. }
  pose proof (pow2_gt0 (prec f - 1 - 1) ltac:(lia)) as Hq.
  destruct x as [s|s|s|s m e]; cbn [encode fsign]; unfold mwidth; rewrite Hsum, ?Hew.
  - exists 0. nia.
  - exists ((2 * emax f - 1) * 2 ^ (prec f - 1)). nia.
  - exists ((2 * emax f - 1) * 2 ^ (prec f - 1) + 2 ^ (prec f - 1 - 1)). nia.
  - cbn [valid] in Hv. rewrite !andb_true_iff, !Z.leb_le in Hv. destruct Hv as [[[Ho Hd] Hmin] Hmax].
    set (d := digits (Zpos m)) in *.
    set (ce := Z.max (d + e - prec f) (emin f)).
    assert (Hce : 0 <= e - ce) by (unfold ce; lia).
    set (M := Zpos m * 2 ^ (e - ce)).
    assert (HdM : digits M = d + (e - ce)) by (apply digits_mul_pow2; lia).
    pose proof (pow2_gt0 (e - ce) Hce) as Hpc.
    assert (HM0 : 0 < M) by (unfold M; nia).
    assert (HMlt : M < 2 ^ prec f) by (apply digits_lt_pow2; [exact HM0|lia|unfold ce in *; lia]).
    assert (Hpp : 2 ^ prec f = 2 * 2 ^ (prec f - 1)).
    { replace (prec f) with ((prec f - 1) + 1) at 1 by lia. apply pow2_succ. lia. }
    destruct (M <? 2 ^ (prec f - 1)) eqn:Hsub.
    + exists M. split; [reflexivity|]. nia.
    + exists ((ce - emin f + 1) * 2 ^ (prec f - 1) + (M - 2 ^ (prec f - 1))). split; [lia|].
      assert (Hb : 1 <= ce - emin f + 1 <= 2 * emax f - 2) by (unfold ce, emin in *; lia).
      nia.
Qed.

Lemma top_bit : forall w (b : bool) r, 0 <= w -> 0 <= r < 2 ^ w ->
  negb (Z.shiftr ((if b then 2 ^ w else 0) + r) w =? 0) = b.
Proof.
  intros w b r Hw Hr. rewrite Z.shiftr_div_pow2 by lia.
  pose proof (pow2_gt0 w Hw). destruct b.
  - replace ((2 ^ w + r) / 2 ^ w) with 1 by nia. reflexivity.
  - rewrite Z.add_0_l, Z.div_small by lia. reflexivity.
Qed.

(** * signbit *)
Theorem signbit_ct_eq_rt : forall f x, std_fmt f -> valid f x = true -> ct_signbit f x = rt_signbit x.
Proof.
  intros f x Hf Hv. unfold ct_signbit, rt_signbit.
  destruct ((ewidth f + mwidth f + 1 =? 32) || (ewidth f + mwidth f + 1 =? 64)) eqn:Hw.
  - destruct (encode_split f x Hf Hv) as (r & -> & Hr).
    replace (ewidth f + mwidth f + 1 - 1) with (ewidth f + mwidth f) by lia.
    apply top_bit; [|exact Hr].
    destruct Hf as (Hp & _ & _). unfold ewidth, mwidth. pose proof (Z.log2_nonneg (emax f)). lia.
  - destruct x as [s|s|s|s m e]; destruct s; reflexivity.
Qed.

(* binary32 and binary64 take the bit_cast branch, the x87 format the copysign branch *)
Lemma signbit_branches :
  ((ewidth binary32 + mwidth binary32 + 1 =? 32) = true) /\
  ((ewidth binary64 + mwidth binary64 + 1 =? 64) = true) /\
  ((ewidth x87ext + mwidth x87ext + 1 =? 32) || (ewidth x87ext + mwidth x87ext + 1 =? 64) = false).
Proof. repeat split. Qed.

(** * copysign *)
Theorem copysign_ct_eq_rt : forall f x y, std_fmt f -> valid f x = true -> valid f y = true ->
  ct_copysign f x y = rt_copysign x y.
Proof.
  intros f x y Hf Hx Hy. unfold ct_copysign, rt_copysign.
  rewrite (signbit_ct_eq_rt f x Hf Hx), (signbit_ct_eq_rt f y Hf Hy). unfold rt_signbit.
  destruct x as [s|s|s|s m e]; destruct s; destruct (fsign y); reflexivity.
Qed.

(* with_sign keeps validity *)
Lemma valid_with_sign : forall f s x, valid f x = true -> valid f (with_sign s x) = true.
Proof. intros f s [a|a|a|a m e] H; exact H. Qed.
