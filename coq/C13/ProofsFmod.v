(* C13 — etl::fmod / etl::remainder: the constant-evaluation path (gcem fmod_exact: binary long
   division, since the fix: commits 57a95a0 / 3d5fc50) against the exact C / IEC 60559 operations the
   run-time builtins compute.  Sanity evaluations of the former defect witnesses (before the fix:
   fmod(1e10f, 3.0f) was 0, remainder(5.0f, 3.0f) was 2, fmod(5.0f, inf) was NaN in constant
   evaluation) and of the inexact halving of an odd subnormal. *)
From Tetl Require Import Lib.Base C13.Float C13.Model C13.Spec.
Local Open Scope Z_scope.

Definition f32 (bits : Z) : fval := decode binary32 bits.

Lemma fmod_remainder_witnesses :
  (ct_fmod binary32 (f32 1343554297) (f32 1077936128) = Ok (rt_fmod (f32 1343554297) (f32 1077936128)) /\
   rt_fmod (f32 1343554297) (f32 1077936128) = FFin false 1 0) /\
  (ct_remainder binary32 (f32 1084227584) (f32 1077936128) = Ok (rt_remainder (f32 1084227584) (f32 1077936128)) /\
   rt_remainder (f32 1084227584) (f32 1077936128) = FFin true 1 0) /\
  (ct_fmod binary32 (f32 1084227584) (FInf false) = Ok (f32 1084227584)) /\
  (* 3 * denorm_min against denorm_min and 2 * denorm_min *)
  (ct_fmod binary32 (f32 3) (f32 1) = Ok (FZero false) /\ ct_remainder binary32 (f32 3) (f32 2) = Ok (FFin true 1 (-149)) /\
   rt_remainder (f32 3) (f32 2) = FFin true 1 (-149)).
Proof. repeat split; vm_compute; reflexivity. Qed.
