(* C13 — etl::fmod / etl::remainder: the constant-evaluation fallback of BOTH is gcem::fmod
   (x - trunc(x/y)*y with a rounded quotient), at run time the exact builtins.  Recorded findings
   KF-C13-fmod-ct-gcem and KF-C13-remainder-ct-is-fmod; witnesses by evaluation. *)
From Tetl Require Import Lib.Base C13.Float C13.Model C13.Spec.
Local Open Scope Z_scope.

Definition f32 (bits : Z) : fval := decode binary32 bits.

(* fmod(1e10f, 3.0f): 0 in constant evaluation (the quotient 3333333333.33 rounds to a float whose
   product with 3 rounds back to 1e10f), exactly 1 at run time;
   remainder(5.0f, 3.0f): 2 in constant evaluation (truncated quotient), -1 at run time;
   fmod(5.0f, inf): NaN in constant evaluation, 5 at run time *)
Lemma fmod_remainder_refuted :
  (valid binary32 (f32 1343554297) = true /\ valid binary32 (f32 1077936128) = true /\
   ct_fmod binary32 (f32 1343554297) (f32 1077936128) = Ok (FZero false) /\
   rt_fmod (f32 1343554297) (f32 1077936128) = FFin false 1 0) /\
  (valid binary32 (f32 1084227584) = true /\
   ct_remainder binary32 (f32 1084227584) (f32 1077936128) = Ok (FFin false 1 1) /\
   rt_remainder (f32 1084227584) (f32 1077936128) = FFin true 1 0) /\
  (ct_fmod binary32 (f32 1084227584) (FInf false) = Ok qnan /\
   rt_fmod (f32 1084227584) (FInf false) = f32 1084227584).
Proof. repeat split; vm_compute; reflexivity. Qed.
