(* C13 — the bit-level codec of the interchange formats: every bit pattern decodes to a value of the
   format (so the theorems, which quantify over [valid f x], cover every float / double the harness
   can feed), and encoding a value then decoding it gives the value back (so every valid value IS
   the value of a bit pattern). *)
From Tetl Require Import Lib.Base C13.Float C13.Model C13.Spec C13.ProofsKit C13.ProofsCls.
From Coq Require Import ZifyBool.
Local Open Scope Z_scope.
Ltac Zify.zify_post_hook ::= Z.to_euclidean_division_equations.

(* normalising M * 2^e: validity in terms of M *)
Lemma fnorm_valid_of : forall f s M e, 0 < M -> digits M <= prec f -> emin f <= e ->
  digits M + e <= emax f -> valid f (fnorm (FFin s (Z.to_pos M) e)) = true.
Proof.
  intros f s M e HM Hd Hmin Hmax. cbn [fnorm].
  destruct (pnorm (Z.to_pos M) e) as [m' e'] eqn:Hn.
  pose proof (pnorm_spec _ _ _ _ Hn) as (Ho & Hle & Hv). rewrite Z2Pos.id in Hv by lia.
  pose proof (digits_mul_pow2 (Zpos m') (e' - e) ltac:(lia) ltac:(lia)) as Hdm. rewrite <- Hv in Hdm.
  cbn [valid]. rewrite Ho. cbn [andb]. rewrite !andb_true_iff, !Z.leb_le. lia.
Qed.

Theorem decode_valid : forall f bits, std_fmt f -> valid f (decode f bits) = true.
Proof.
  intros f bits (Hp & He & Hew). unfold decode. cbv zeta. unfold mwidth.
  assert (Hewpos : 1 <= ewidth f) by (unfold ewidth; pose proof (Z.log2_nonneg (emax f)); lia).
  pose proof (pow2_gt0 (prec f - 1) ltac:(lia)) as Hmw.
  pose proof (pow2_gt0 (ewidth f) ltac:(lia)) as Hpe.
  set (s := Z.testbit bits (ewidth f + (prec f - 1))).
  pose proof (Z.mod_pos_bound (bits / 2 ^ (prec f - 1)) (2 ^ ewidth f) Hpe) as Hex.
  pose proof (Z.mod_pos_bound bits (2 ^ (prec f - 1)) Hmw) as Hfr.
  set (ex := (bits / 2 ^ (prec f - 1)) mod 2 ^ ewidth f) in *.
  set (fr := bits mod 2 ^ (prec f - 1)) in *.
  assert (Hpp : 2 ^ prec f = 2 * 2 ^ (prec f - 1)).
  { replace (prec f) with ((prec f - 1) + 1) at 1 by lia. apply pow2_succ. lia. }
  destruct (ex =? 2 ^ ewidth f - 1) eqn:C1; [destruct (fr =? 0); reflexivity|].
  destruct (ex =? 0) eqn:C2.
  - destruct (fr =? 0) eqn:C3; [reflexivity|].
    assert (Hd : digits fr <= prec f - 1) by (apply digits_lt_pow2; lia).
    apply fnorm_valid_of; try lia. unfold emin. lia.
  - assert (HM : 2 ^ (prec f - 1) <= fr + 2 ^ (prec f - 1) < 2 ^ prec f) by lia.
    assert (Hd : digits (fr + 2 ^ (prec f - 1)) <= prec f) by (apply digits_lt_pow2; lia).
    apply fnorm_valid_of; try lia; unfold emin; lia.
Qed.

(** * encode then decode *)
Lemma split_fields : forall (sb : bool) B F ew mw, 0 <= mw -> 0 <= ew -> 0 <= F < 2 ^ mw -> 0 <= B < 2 ^ ew ->
  let bits := (if sb then 2 ^ (ew + mw) else 0) + B * 2 ^ mw + F in
  bits mod 2 ^ mw = F /\ (bits / 2 ^ mw) mod 2 ^ ew = B /\ Z.testbit bits (ew + mw) = sb.
Proof.
  intros sb B F ew mw Hmw Hew HF HB bits.
  pose proof (pow2_gt0 mw Hmw) as Hpm. pose proof (pow2_gt0 ew Hew) as Hpe.
  assert (Hsum : 2 ^ (ew + mw) = 2 ^ ew * 2 ^ mw) by (apply pow2_add; lia).
  assert (Ebits : bits = ((if sb then 2 ^ ew else 0) + B) * 2 ^ mw + F).
  { unfold bits. rewrite Hsum. destruct sb; lia. }
  assert (E1 : bits mod 2 ^ mw = F).
  { rewrite Ebits. rewrite Z.add_comm, Z_mod_plus_full. apply Z.mod_small. exact HF. }
  assert (E2 : bits / 2 ^ mw = (if sb then 2 ^ ew else 0) + B).
  { rewrite Ebits. rewrite Z.add_comm, Z.div_add by lia. rewrite Z.div_small by exact HF. lia. }
  split; [exact E1|]. split.
  - rewrite E2. destruct sb.
    + replace (2 ^ ew + B) with (B + 1 * 2 ^ ew) by lia. rewrite Z_mod_plus_full. apply Z.mod_small. exact HB.
    + rewrite Z.add_0_l. apply Z.mod_small. exact HB.
  - rewrite Z.testbit_odd, Z.shiftr_div_pow2 by lia. rewrite Hsum.
    rewrite (Z.mul_comm (2 ^ ew) (2 ^ mw)). rewrite <- Z.div_div by lia. rewrite E2.
    destruct sb.
    + replace ((2 ^ ew + B) / 2 ^ ew) with 1; [reflexivity|].
      apply (Z.div_unique _ _ 1 B); lia.
    + rewrite Z.add_0_l, Z.div_small by exact HB. reflexivity.
Qed.

Theorem decode_encode : forall f x, std_fmt f -> valid f x = true -> decode f (encode f x) = x.
Proof.
  intros f x (Hp & He & Hew) Hv.
  assert (Hewpos : 1 <= ewidth f) by (unfold ewidth; pose proof (Z.log2_nonneg (emax f)); lia).
  pose proof (pow2_gt0 (prec f - 1) ltac:(lia)) as Hmw.
  pose proof (pow2_gt0 (prec f - 1 - 1) ltac:(lia)) as Hq.
  assert (Hhalf : 2 ^ (prec f - 1) = 2 * 2 ^ (prec f - 1 - 1)).
  { replace (prec f - 1) with ((prec f - 1 - 1) + 1) at 1 by lia. apply pow2_succ. lia. }
  assert (Hpp : 2 ^ prec f = 2 * 2 ^ (prec f - 1)).
  { replace (prec f) with ((prec f - 1) + 1) at 1 by lia. apply pow2_succ. lia. }
  (* every case: exhibit the three fields, then run decode on them *)
  assert (Hrun : forall (sb : bool) B F, 0 <= F < 2 ^ (prec f - 1) -> 0 <= B < 2 ^ ewidth f ->
            decode f ((if sb then 2 ^ (ewidth f + mwidth f) else 0) + B * 2 ^ mwidth f + F) =
            (if B =? 2 ^ ewidth f - 1 then (if F =? 0 then FInf sb else FNaN sb)
             else if B =? 0 then (if F =? 0 then FZero sb else fnorm (FFin sb (Z.to_pos F) (emin f)))
             else fnorm (FFin sb (Z.to_pos (F + 2 ^ mwidth f)) (B - 1 + emin f)))).
  { intros sb B F HF HB. unfold decode. cbv zeta. unfold mwidth in *.
    destruct (split_fields sb B F (ewidth f) (prec f - 1) ltac:(lia) ltac:(lia) HF HB) as (E1 & E2 & E3).
    cbv zeta in E1, E2, E3. rewrite E1, E2, E3. reflexivity. }
  destruct x as [s|s|s|s m e]; cbn [encode].
  - replace ((if s then 2 ^ (ewidth f + mwidth f) else 0))
      with ((if s then 2 ^ (ewidth f + mwidth f) else 0) + 0 * 2 ^ mwidth f + 0) by lia.
    rewrite Hrun by lia. replace (0 =? 2 ^ ewidth f - 1) with false by lia. reflexivity.
  - replace ((if s then 2 ^ (ewidth f + mwidth f) else 0) + (2 ^ ewidth f - 1) * 2 ^ mwidth f)
      with ((if s then 2 ^ (ewidth f + mwidth f) else 0) + (2 ^ ewidth f - 1) * 2 ^ mwidth f + 0) by lia.
    rewrite Hrun by lia. rewrite Z.eqb_refl. reflexivity.
  - change (2 ^ (mwidth f - 1)) with (2 ^ (prec f - 1 - 1)).
    rewrite (Hrun s (2 ^ ewidth f - 1) (2 ^ (prec f - 1 - 1))) by lia. rewrite Z.eqb_refl.
    replace (2 ^ (prec f - 1 - 1) =? 0) with false by lia. reflexivity.
  - pose proof Hv as Hv'. cbn [valid] in Hv'. rewrite !andb_true_iff, !Z.leb_le in Hv'.
    destruct Hv' as [[[Ho Hd] Hmin] Hmax].
    set (d := digits (Zpos m)) in *.
    set (ce := Z.max (d + e - prec f) (emin f)).
    assert (Hce : 0 <= e - ce) by (unfold ce; lia).
    pose proof (pow2_gt0 (e - ce) Hce) as Hpc.
    set (M := Zpos m * 2 ^ (e - ce)).
    assert (HdM : digits M = d + (e - ce)) by (apply digits_mul_pow2; lia).
    assert (HM0 : 0 < M) by (unfold M; nia).
    assert (HMlt : M < 2 ^ prec f) by (apply digits_lt_pow2; [exact HM0|lia|unfold ce in *; lia]).
    change (M <? 2 ^ mwidth f) with (M <? 2 ^ (prec f - 1)).
    destruct (M <? 2 ^ (prec f - 1)) eqn:Hsub.
    + (* subnormal: exponent field 0, the scale is emin *)
      assert (Hdm1 : digits M <= prec f - 1) by (apply digits_lt_pow2; lia).
      assert (Ece : ce = emin f) by (unfold ce in *; lia).
      replace ((if s then 2 ^ (ewidth f + mwidth f) else 0) + M)
        with ((if s then 2 ^ (ewidth f + mwidth f) else 0) + 0 * 2 ^ mwidth f + M) by lia.
      rewrite (Hrun s 0 M) by lia. replace (0 =? 2 ^ ewidth f - 1) with false by lia.
      cbn [Z.eqb]. replace (M =? 0) with false by lia.
      cbn [fnorm]. unfold M. rewrite pnorm_shift by lia.
      replace (emin f + (e - ce)) with e by lia. rewrite pnorm_odd by exact Ho. reflexivity.
    + assert (Hb : 1 <= ce - emin f + 1 <= 2 * emax f - 2) by (unfold ce, emin in *; lia).
      change (M - 2 ^ mwidth f) with (M - 2 ^ (prec f - 1)).
      rewrite (Hrun s (ce - emin f + 1) (M - 2 ^ (prec f - 1))) by lia.
      replace (ce - emin f + 1 =? 2 ^ ewidth f - 1) with false by lia.
      replace (ce - emin f + 1 =? 0) with false by lia.
      change (2 ^ mwidth f) with (2 ^ (prec f - 1)).
      replace (M - 2 ^ (prec f - 1) + 2 ^ (prec f - 1)) with M by lia.
      replace (ce - emin f + 1 - 1 + emin f) with ce by lia.
      cbn [fnorm]. unfold M. rewrite pnorm_shift by lia.
      replace (ce + (e - ce)) with e by lia. rewrite pnorm_odd by exact Ho. reflexivity.
Qed.
