(* C13 — gcem::ceil and gcem::trunc (constant evaluation) = IEC 60559 roundToIntegralTowardPositive /
   TowardZero (run time), for every value of every format with 2 <= precision <= 64 < emax;
   a zero result has the sign of the argument. *)
From Tetl Require Import Lib.Base C13.Float C13.Model C13.Spec C13.ProofsKit C13.ProofsCls C13.ProofsRoundKit.
From Coq Require Import ZifyBool.
Local Open Scope Z_scope.
Ltac Zify.zify_post_hook ::= Z.to_euclidean_division_equations.

Lemma fadd_zero_r_fin : forall f k v b, v <> 0 -> fadd f (mk k v) (FZero b) = mk k v.
Proof. intros f k v b Hv. destruct (mk_fin k v Hv) as (m & e & E & _). rewrite E. reflexivity. Qed.

Lemma fofZ_nz : forall s n, n <> 0 -> fofZ s n = mk 0 n.
Proof. intros s n H. apply fofZ_mk. intros H0. contradiction. Qed.

Lemma ceil_pos : forall v D, 0 < D -> Z.quot v D * D < v -> - ((- v) / D) = Z.quot v D + 1.
Proof.
  intros v D HD Hlt. pose proof (quot_div_neg (- v) D HD) as H.
  rewrite Z.quot_opp_l in H by lia. lia.
Qed.

Lemma ceil_exact : forall v D, 0 < D -> v = Z.quot v D * D -> - ((- v) / D) = Z.quot v D.
Proof.
  intros v D HD He. pose proof (quot_div_exact (- v) D HD) as H.
  rewrite Z.quot_opp_l in H by lia. lia.
Qed.

Lemma ceil_neg : forall v D, 0 < D -> v <= 0 -> - ((- v) / D) = Z.quot v D.
Proof.
  intros v D HD Hv. pose proof (quot_div_pos (- v) D HD ltac:(lia)) as H.
  rewrite Z.quot_opp_l in H by lia. lia.
Qed.

Section CeilTrunc.
Variable f : fmt.
Hypothesis Hf : fmt_ok f.
Local Notation p := (prec f).

Lemma of_int_small0 : forall n, Z.abs n <= 2 ^ (p - 1) -> of_int f n = mk 0 n.
Proof.
  intros n Hn. rewrite (of_int_small f Hf 0 n) by (exact Hn || apply Z.le_refl).
  change (2 ^ 0) with 1. rewrite Z.mul_1_r. reflexivity.
Qed.

Lemma ceil_kern : forall k v, 0 <= k -> v <> 0 -> Z.abs v < 2 ^ (p - 1 + k) ->
  (do n <- to_llint (mk k v); Ok (gcem_ceil_int f (mk k v) (of_int f n)))
  = Ok (fofZ (v <? 0) (- ((- v) / 2 ^ k))).
Proof.
  intros k v Hk Hv Hlt.
  pose proof (P_bounds f Hf) as HP.
  pose proof (pow2_gt0 k Hk) as HD.
  rewrite (PD f Hf k Hk) in Hlt.
  pose proof (quot_bound v (2 ^ k) (2 ^ (p - 1)) HD Hlt) as Hq.
  rewrite to_llint_mk by lia. cbn [rbind]. f_equal.
  unfold gcem_ceil_int.
  rewrite (of_int_small f Hf k (Z.quot v (2 ^ k)) Hk) by lia.
  change (FZero false) with (mk k 0). rewrite mk_flt, mk_feq, !mk_fgt.
  destruct (Z_lt_le_dec v 0) as [Hneg|Hpos].
  - (* negative argument: truncation is the ceiling *)
    pose proof (ceil_neg v (2 ^ k) HD ltac:(lia)) as Hc. rewrite Hc.
    replace (v <? 0) with true by lia. replace (0 <? v) with false by lia. cbn [andb b2z].
    destruct (Z.quot v (2 ^ k) * 2 ^ k =? 0) eqn:Hz.
    + assert (Hn0 : Z.quot v (2 ^ k) = 0) by nia.
      rewrite Hn0. reflexivity.
    + assert (Hn0 : Z.quot v (2 ^ k) <> 0) by nia.
      rewrite of_int_0. change (mk k 0) with (FZero false).
      rewrite fadd_zero_r_fin by nia. rewrite mk_int by lia. symmetry. apply fofZ_nz. exact Hn0.
  - replace (v <? 0) with false by lia. replace (0 <? v) with true by lia. cbn [andb].
    pose proof (quot_pos_le v (2 ^ k) HD Hpos) as Hle.
    destruct (Z.quot v (2 ^ k) * 2 ^ k <? v) eqn:Hr; cbn [b2z].
    + rewrite (ceil_pos v (2 ^ k) HD) by lia.
      rewrite (of_int_small f Hf k 1 Hk) by lia.
      replace (Z.quot v (2 ^ k) * 2 ^ k + 1 * 2 ^ k) with ((Z.quot v (2 ^ k) + 1) * 2 ^ k) by lia.
      assert (H0 : 0 <= Z.quot v (2 ^ k)) by (apply Z.quot_pos; lia).
      rewrite mk_add.
      * replace (Z.quot v (2 ^ k) * 2 ^ k + 1 * 2 ^ k) with ((Z.quot v (2 ^ k) + 1) * 2 ^ k) by lia.
        rewrite mk_int by lia. symmetry. apply fofZ_nz. lia.
      * replace (Z.quot v (2 ^ k) * 2 ^ k + 1 * 2 ^ k) with ((Z.quot v (2 ^ k) + 1) * 2 ^ k) by lia.
        apply rep_int; [exact Hf|exact Hk|lia].
    + rewrite (ceil_exact v (2 ^ k) HD) by lia.
      rewrite of_int_0. change (mk k 0) with (FZero false).
      assert (Hn0 : Z.quot v (2 ^ k) <> 0) by nia.
      rewrite fadd_zero_r_fin by nia. rewrite mk_int by lia. symmetry. apply fofZ_nz. exact Hn0.
Qed.

Lemma trunc_kern : forall k v, 0 <= k -> v <> 0 -> Z.abs v < 2 ^ (p - 1 + k) ->
  gcem_trunc_int f (mk k v) = Ok (fofZ (v <? 0) (Z.quot v (2 ^ k))).
Proof.
  intros k v Hk Hv Hlt.
  pose proof (P_bounds f Hf) as HP.
  pose proof (pow2_gt0 k Hk) as HD.
  rewrite (PD f Hf k Hk) in Hlt.
  pose proof (quot_bound v (2 ^ k) (2 ^ (p - 1)) HD Hlt) as Hq.
  unfold gcem_trunc_int. change (FZero false) with (mk k 0). rewrite mk_flt.
  destruct (v <? 0) eqn:Hneg.
  - rewrite mk_neg by exact Hv.
    assert (Eq : Z.quot (- v) (2 ^ k) = - Z.quot v (2 ^ k)) by (apply Z.quot_opp_l; lia).
    rewrite to_llint_mk by (rewrite ?Eq; lia). rewrite Eq. cbn [rbind]. f_equal.
    rewrite of_int_small0 by lia.
    destruct (Z.eq_dec (Z.quot v (2 ^ k)) 0) as [E0|E0].
    + rewrite E0. reflexivity.
    + rewrite mk_neg by lia. rewrite Z.opp_involutive. symmetry. apply fofZ_nz. exact E0.
  - rewrite to_llint_mk by lia. cbn [rbind]. f_equal.
    rewrite of_int_small0 by lia. symmetry. apply fofZ_mk. reflexivity.
Qed.

(* the scaled value and the significand of the specification *)
Lemma glue_frac : forall (rnd : Z -> Z -> Z) s m e,
  valid f (FFin s m e) = true -> e < 0 ->
  fofZ (scaled s m e <? 0) (rnd (scaled s m e) (2 ^ scale_of e)) = round_with rnd (FFin s m e).
Proof.
  intros rnd s m e Hv He.
  destruct (fin_as_mk f s m e Hv) as (E & Hv0 & Hs & Hrep).
  destruct (scaled_frac f s m e Hf Hv He) as (Hk & Hsc & Ho & Hlt).
  rewrite round_with_frac by exact He. rewrite Hs, Hk, Hsc. reflexivity.
Qed.

Theorem ceil_ct_eq_rt : forall x, valid f x = true -> ct_ceil f x = Ok (rt_ceil x).
Proof.
  intros x Hv. rewrite ct_ceil_ladder.
  destruct x as [s|s|s|s m e].
  - apply ladder_zero.
  - apply ladder_inf.
  - apply ladder_nan.
  - destruct (fin_as_mk f s m e Hv) as (E & Hv0 & Hs & Hrep).
    unfold rt_ceil. destruct (Z_lt_le_dec e 0) as [He|He].
    + destruct (scaled_frac f s m e Hf Hv He) as (Hk & Hsc & Ho & Hlt).
      rewrite <- (glue_frac zceil s m e Hv He). rewrite E.
      rewrite ladder_small; [|exact Hf|unfold scale_of; lia|exact Hv0|exact Hlt].
      rewrite ceil_kern; [|unfold scale_of; lia|exact Hv0|exact Hlt]. reflexivity.
    + rewrite (round_with_int f) by assumption. rewrite E.
      rewrite (scale_int e He) in *.
      destruct (Z_lt_le_dec (Z.abs (scaled s m e)) (2 ^ (p - 1 + 0))) as [Hlt|Hge].
      * rewrite ladder_small; [|exact Hf|lia|exact Hv0|exact Hlt].
        rewrite ceil_kern; [|lia|exact Hv0|exact Hlt].
        change (2 ^ 0) with 1. rewrite Z.div_1_r, Z.opp_involutive. f_equal. apply fofZ_nz. exact Hv0.
      * apply ladder_large; [exact Hf|lia|exact Hv0|exact Hge].
Qed.

Theorem trunc_ct_eq_rt : forall x, valid f x = true -> ct_trunc f x = Ok (rt_trunc x).
Proof.
  intros x Hv. rewrite ct_trunc_ladder.
  destruct x as [s|s|s|s m e].
  - apply ladder_zero.
  - apply ladder_inf.
  - apply ladder_nan.
  - destruct (fin_as_mk f s m e Hv) as (E & Hv0 & Hs & Hrep).
    unfold rt_trunc. destruct (Z_lt_le_dec e 0) as [He|He].
    + destruct (scaled_frac f s m e Hf Hv He) as (Hk & Hsc & Ho & Hlt).
      rewrite <- (glue_frac ztrunc_q s m e Hv He). rewrite E.
      rewrite ladder_small; [|exact Hf|unfold scale_of; lia|exact Hv0|exact Hlt].
      rewrite trunc_kern; [|unfold scale_of; lia|exact Hv0|exact Hlt]. reflexivity.
    + rewrite (round_with_int f) by assumption. rewrite E.
      rewrite (scale_int e He) in *.
      destruct (Z_lt_le_dec (Z.abs (scaled s m e)) (2 ^ (p - 1 + 0))) as [Hlt|Hge].
      * rewrite ladder_small; [|exact Hf|lia|exact Hv0|exact Hlt].
        rewrite trunc_kern; [|lia|exact Hv0|exact Hlt].
        change (2 ^ 0) with 1. rewrite Z.quot_1_r. f_equal. apply fofZ_nz. exact Hv0.
      * apply ladder_large; [exact Hf|lia|exact Hv0|exact Hge].
Qed.
End CeilTrunc.
