(* C13 — popcount: the Kernighan loop of detail::popcount_fallback (constant evaluation) returns
   the number of set bits below the width (what __builtin_popcount{,l,ll} return at run time), for
   EVERY width w >= 0 and every value 0 <= x < 2^w; the fuel (w iterations) is never exhausted.
   Method: [popZ] counts the ones of the binary representation; one loop step x & (x - 1) removes
   exactly one (induction on the positive); popZ is the filtered-range count (induction on w). *)
From Tetl Require Import Lib.Base C13.Float C13.Model C13.Spec.
Local Open Scope Z_scope.
Ltac Zify.zify_post_hook ::= Z.to_euclidean_division_equations.

Fixpoint pop_pos (p : positive) : Z :=
  match p with xH => 1 | xO q => pop_pos q | xI q => 1 + pop_pos q end.
Definition popZ (x : Z) : Z := match x with Zpos p => pop_pos p | _ => 0 end.

Lemma pop_pos_ge1 : forall p, 1 <= pop_pos p.
Proof. induction p as [q IH|q IH|]; cbn [pop_pos]; lia. Qed.

Lemma popZ_double : forall y, 0 <= y -> popZ (2 * y) = popZ y.
Proof. intros [|p|p] H; reflexivity. Qed.

Lemma popZ_succ_double : forall y, 0 <= y -> popZ (2 * y + 1) = 1 + popZ y.
Proof. intros [|p|p] H; try reflexivity. lia. Qed.

(* land of doubles *)
Lemma land_even_l : forall a b c, 0 <= c <= 1 -> Z.land (2 * a) (2 * b + c) = 2 * Z.land a b.
Proof.
  intros a b c Hc. apply Z.bits_inj'. intros n Hn. rewrite Z.land_spec.
  destruct (Z.eq_dec n 0) as [->|Hn0].
  - rewrite !Z.testbit_even_0. reflexivity.
  - replace n with (Z.succ (n - 1)) by lia.
    rewrite !Z.testbit_even_succ by lia. rewrite Z.land_spec. f_equal.
    assert (c = 0 \/ c = 1) as [->| ->] by lia.
    + rewrite Z.add_0_r. apply Z.testbit_even_succ. lia.
    + apply Z.testbit_odd_succ. lia.
Qed.

(* one Kernighan step removes one set bit and does not increase the value *)
Lemma kernighan_step : forall p,
  popZ (Z.land (Zpos p) (Zpos p - 1)) = pop_pos p - 1 /\ 0 <= Z.land (Zpos p) (Zpos p - 1) <= Zpos p.
Proof.
  induction p as [q IH|q IH|].
  - (* 2q+1 *)
    assert (E : Z.land (Zpos q~1) (Zpos q~1 - 1) = 2 * Zpos q).
    { replace (Zpos q~1 - 1) with (2 * Zpos q) by lia.
      rewrite Pos2Z.inj_xI, Z.land_comm, land_even_l by lia. rewrite Z.land_diag. reflexivity. }
    rewrite E. rewrite popZ_double by lia. cbn [popZ pop_pos]. lia.
  - (* 2q *)
    assert (E : Z.land (Zpos q~0) (Zpos q~0 - 1) = 2 * Z.land (Zpos q) (Zpos q - 1)).
    { replace (Zpos q~0 - 1) with (2 * (Zpos q - 1) + 1) by lia.
      rewrite Pos2Z.inj_xO. apply land_even_l. lia. }
    rewrite E. destruct IH as [IH1 IH2].
    rewrite popZ_double by lia. cbn [pop_pos]. lia.
  - cbn. lia.
Qed.

(* the loop: at most popZ x iterations *)
Lemma popcount_loop_eq : forall fuel w x c, 0 <= x < 2 ^ w -> popZ x <= Z.of_nat fuel ->
  popcount_loop fuel w x c = Ok (c + popZ x).
Proof.
  induction fuel as [|k IH]; intros w x c Hx Hf.
  - destruct x as [|p|p]; [cbn; f_equal; lia | | lia].
    cbn [popZ] in Hf. pose proof (pop_pos_ge1 p). lia.
  - destruct x as [|p|p]; [cbn; f_equal; lia | | lia].
    cbn [popcount_loop]. change (Zpos p =? 0) with false. cbv iota.
    unfold wrapu. rewrite (Z.mod_small (Zpos p - 1)) by lia.
    destruct (kernighan_step p) as [Hp Hb].
    rewrite IH; [| lia | cbn [popZ] in Hf; lia].
    f_equal. cbn [popZ]. lia.
Qed.

(** the bit count of the specification *)
Lemma filter_shift : forall n a y b, 0 <= a -> 0 <= b <= 1 ->
  length (filter (fun i => Z.testbit (2 * y + b) i) (zrange_from (a + 1) n)) =
  length (filter (fun i => Z.testbit y i) (zrange_from a n)).
Proof.
  induction n as [|n IH]; intros a y b Ha Hb; cbn [zrange_from filter].
  - reflexivity.
  - assert (Z.testbit (2 * y + b) (a + 1) = Z.testbit y a) as ->.
    { replace (a + 1) with (Z.succ a) by lia.
      assert (b = 0 \/ b = 1) as [->| ->] by lia.
      - rewrite Z.add_0_r. apply Z.testbit_even_succ. lia.
      - apply Z.testbit_odd_succ. lia. }
    destruct (Z.testbit y a); cbn [length]; rewrite IH by lia; reflexivity.
Qed.

Lemma popZ_count : forall n x, 0 <= x < 2 ^ Z.of_nat n ->
  popZ x = Z.of_nat (length (filter (fun i => Z.testbit x i) (zrange_from 0 n))).
Proof.
  induction n as [|n IH]; intros x Hx.
  - change (2 ^ Z.of_nat 0) with 1 in Hx. assert (x = 0) as -> by lia. reflexivity.
  - rewrite Nat2Z.inj_succ, Z.pow_succ_r in Hx by lia.
    set (y := x / 2). set (b := x mod 2).
    assert (Hxy : x = 2 * y + b) by (unfold y, b; lia).
    assert (Hb : 0 <= b <= 1) by (unfold b; lia).
    assert (Hy : 0 <= y < 2 ^ Z.of_nat n) by (unfold y; lia).
    clearbody y b.
    assert (Hf : length (filter (fun i => Z.testbit x i) (zrange_from (0 + 1) n)) =
                 length (filter (fun i => Z.testbit y i) (zrange_from 0 n))).
    { rewrite Hxy. apply filter_shift; lia. }
    assert (Hpop : popZ x = b + popZ y).
    { rewrite Hxy. assert (b = 0 \/ b = 1) as [->| ->] by lia.
      - rewrite Z.add_0_r. rewrite popZ_double by lia. lia.
      - apply popZ_succ_double. lia. }
    assert (H0 : Z.testbit x 0 = (b =? 1)).
    { rewrite Hxy. assert (b = 0 \/ b = 1) as [->| ->] by lia.
      - rewrite Z.add_0_r. apply Z.testbit_even_0.
      - apply Z.testbit_odd_0. }
    cbn [zrange_from filter]. rewrite H0, Hpop, (IH y Hy).
    destruct (b =? 1) eqn:Hb1; cbn [length]; rewrite Hf; lia.
Qed.

Lemma filter_length_le : forall (A : Type) (f : A -> bool) l, (length (filter f l) <= length l)%nat.
Proof. intros A f l. induction l as [|a l IH]; cbn; [lia|]. destruct (f a); cbn; lia. Qed.

Lemma zrange_from_length : forall n a, length (zrange_from a n) = n.
Proof. induction n as [|n IH]; intros a; cbn; [reflexivity|]. rewrite IH. reflexivity. Qed.

Theorem popcount_ct_eq_rt : forall w x, 0 <= w -> 0 <= x < 2 ^ w ->
  ct_popcount w x = Ok (rt_popcount w x).
Proof.
  intros w x Hw Hx. unfold ct_popcount, rt_popcount.
  assert (Hxn : 0 <= x < 2 ^ Z.of_nat (Z.to_nat w)) by (rewrite Z2Nat.id by lia; exact Hx).
  pose proof (popZ_count (Z.to_nat w) x Hxn) as Hc.
  rewrite popcount_loop_eq.
  - f_equal. rewrite Hc. reflexivity.
  - exact Hx.
  - rewrite Hc. apply inj_le.
    etransitivity; [apply filter_length_le|]. rewrite zrange_from_length. lia.
Qed.
