(* C13 — detail::rint_fallback / lrint_fallback (constant evaluation: truncate to long long, look at
   the fraction, step by one, restore the sign of a zero result with copysign) = IEC 60559
   roundToIntegralTiesToEven / convertToIntegerTiesToEven (run time: __builtin_rint*, __builtin_l{,l}rint*
   in the default rounding mode), for every value of every interchange-like format with
   2 <= precision <= 64 < emax. *)
From Tetl Require Import Lib.Base C13.Float C13.Model C13.Spec C13.ProofsKit C13.ProofsCls C13.ProofsRoundKit
  C13.ProofsCeilTrunc C13.ProofsRoundAway.
From Coq Require Import ZifyBool.
Local Open Scope Z_scope.
Ltac Zify.zify_post_hook ::= Z.to_euclidean_division_equations.

Definition up_to_nan_sign (a b : fval) : Prop := a = b \/ (is_nan a = true /\ is_nan b = true).

(** * the integer arithmetic of the correction step *)
Definition rint_step (v h : Z) : Z :=
  let D := 2 * h in
  let n := Z.quot v D in
  let rho := v - n * D in
  let odd := negb (Z.rem n 2 =? 0) in
  n + (if (h <? rho) || ((rho =? h) && odd) then 1
       else if (rho <? - h) || ((rho =? - h) && odd) then -1 else 0).

Lemma rint_arith : forall v h, 0 < h -> v <> 0 -> rint_step v h = zround_even v (2 * h).
Proof.
  intros v h Hh Hv. unfold rint_step, zround_even. cbv zeta.
  pose proof (Z.div_mod (Z.abs v) (2 * h) ltac:(lia)) as E.
  pose proof (Z.mod_pos_bound (Z.abs v) (2 * h) ltac:(lia)) as B.
  assert (Hq0 : 0 <= Z.abs v / (2 * h)) by (apply Z.div_pos; lia).
  remember (Z.abs v / (2 * h)) as q. remember (Z.abs v mod (2 * h)) as r.
  rewrite Zeven_mod. unfold Zeq_bool. rewrite <- Z.eqb_compare.
  destruct (Z_lt_le_dec v 0) as [Hneg|Hpos].
  - assert (En : Z.quot v (2 * h) = - q).
    { replace v with (- Z.abs v) by lia. rewrite Z.quot_opp_l by lia.
      rewrite Z.quot_div_nonneg by lia. lia. }
    rewrite En. replace (Z.sgn v) with (-1) by lia.
    assert (Er : Z.rem (- q) 2 = - (q mod 2)).
    { rewrite Z.rem_opp_l by lia. rewrite Z.rem_mod_nonneg by lia. reflexivity. }
    rewrite Er. clear Heqq Heqr En Er.
    destruct (2 * r <? 2 * h) eqn:C1; [|destruct (2 * h <? 2 * r) eqn:C2; [|destruct (q mod 2 =? 0) eqn:C3]];
      match goal with |- context [if ?c then 1 else _] => destruct c eqn:D1 end;
      try match goal with |- context [if ?c then -1 else 0] => destruct c eqn:D2 end; lia.
  - assert (En : Z.quot v (2 * h) = q).
    { rewrite Z.quot_div_nonneg by lia. rewrite Heqq. f_equal. lia. }
    rewrite En. replace (Z.sgn v) with 1 by lia.
    assert (Er : Z.rem q 2 = q mod 2) by (apply Z.rem_mod_nonneg; lia).
    rewrite Er. clear Heqq Heqr En Er.
    destruct (2 * r <? 2 * h) eqn:C1; [|destruct (2 * h <? 2 * r) eqn:C2; [|destruct (q mod 2 =? 0) eqn:C3]];
      match goal with |- context [if ?c then 1 else _] => destruct c eqn:D1 end;
      try match goal with |- context [if ?c then -1 else 0] => destruct c eqn:D2 end; lia.
Qed.

Lemma zround_even_bound : forall v D P, 0 < D -> Z.abs v < P * D -> Z.abs (zround_even v D) <= P.
Proof.
  intros v D P HD Hlt. unfold zround_even. cbv zeta.
  assert (Hq : Z.abs v / D < P) by (apply Z.div_lt_upper_bound; lia).
  assert (Hq0 : 0 <= Z.abs v / D) by (apply Z.div_pos; lia).
  destruct (2 * (Z.abs v mod D) <? D); [|destruct (D <? 2 * (Z.abs v mod D)); [|destruct (Z.even (Z.abs v / D))]];
    nia.
Qed.

Lemma zround_even_sign : forall v D, 0 < D -> zround_even v D <> 0 -> (zround_even v D <? 0) = (v <? 0).
Proof.
  intros v D HD. unfold zround_even. cbv zeta.
  assert (Hq0 : 0 <= Z.abs v / D) by (apply Z.div_pos; lia).
  destruct (2 * (Z.abs v mod D) <? D); [|destruct (D <? 2 * (Z.abs v mod D)); [|destruct (Z.even (Z.abs v / D))]];
    nia.
Qed.

Lemma quot_nonpos : forall v D, 0 < D -> v <= 0 -> Z.quot v D <= 0.
Proof.
  intros v D HD Hv. replace v with (- (- v)) by lia. rewrite Z.quot_opp_l by lia.
  pose proof (Z.quot_pos (- v) D ltac:(lia) ltac:(lia)). lia.
Qed.

Lemma with_sign_mk : forall s n, (n <> 0 -> (n <? 0) = s) -> with_sign s (mk 0 n) = fofZ s n.
Proof.
  intros s n H. destruct (Z.eq_dec n 0) as [->|Hn].
  - reflexivity.
  - rewrite fofZ_nz by exact Hn. destruct (mk_fin 0 n Hn) as (m & e & E & _). rewrite E.
    cbn [with_sign]. rewrite H by exact Hn. reflexivity.
Qed.

Section Rint.
Variable f : fmt.
Hypothesis Hf : fmt_ok f.
Hypothesis Hs : std_fmt f.
Local Notation p := (prec f).

Lemma fone_mk : forall k, 0 <= k -> fone = mk k (2 ^ k).
Proof. intros k Hk. unfold fone. rewrite (fpow2_mk k 0) by lia. f_equal. Qed.

(* the guard: |x| < 2^(p-1) *)
Lemma rint_guard_mk : forall k v, 0 <= k ->
  fgt (mk k v) (fneg (flimit f)) && flt (mk k v) (flimit f) = (Z.abs v <? 2 ^ (p - 1 + k)).
Proof.
  intros k v Hk. rewrite (flimit_mk f Hf k Hk).
  pose proof (pow2_gt0 (p - 1 + k) ltac:(destruct Hf as [[? ?] ?]; lia)) as HL.
  rewrite mk_neg by lia. rewrite mk_fgt, mk_flt.
  destruct (Z.abs v <? 2 ^ (p - 1 + k)) eqn:C.
  - apply andb_true_iff. split; [apply Z.ltb_lt|apply Z.ltb_lt]; lia.
  - apply andb_false_iff. destruct (Z_lt_le_dec v 0); [left|right]; apply Z.ltb_ge; lia.
Qed.

Lemma rint_main : forall k v, 0 <= k -> v <> 0 -> Z.abs v < 2 ^ (p - 1 + k) ->
  rep f k v -> (forall r, Z.abs r <= Z.abs v -> rep f k r) ->
  ct_rint f (mk k v) =
  Ok (fofZ (v <? 0) (if 1 <=? k then rint_step v (2 ^ (k - 1)) else v)).
Proof.
  intros k v Hk Hv Hlt Hrepv Hlow.
  pose proof (P_bounds f Hf) as HP.
  pose proof (pow2_gt0 k Hk) as HD.
  unfold ct_rint. cbv zeta. rewrite rint_guard_mk by exact Hk.
  replace (Z.abs v <? 2 ^ (p - 1 + k)) with true by lia. cbn [negb].
  rewrite (PD f Hf k Hk) in Hlt.
  pose proof (quot_bound v (2 ^ k) (2 ^ (p - 1)) HD Hlt) as Hq.
  rewrite to_llint_mk by lia. cbn [rbind]. f_equal.
  set (n := Z.quot v (2 ^ k)) in *.
  rewrite (of_int_small f Hf k n Hk) by lia.
  assert (Hrho : Z.abs (v - n * 2 ^ k) <= Z.abs v).
  { unfold n. pose proof (Z.quot_rem' v (2 ^ k)) as Eqr.
    replace (v - Z.quot v (2 ^ k) * 2 ^ k) with (Z.rem v (2 ^ k)) by lia.
    rewrite <- Z.rem_abs by lia. rewrite (Z.abs_eq (2 ^ k)) by lia.
    rewrite Z.rem_mod_nonneg by lia. apply Z.mod_le; lia. }
  rewrite mk_sub' by (apply Hlow; exact Hrho).
  assert (Hvalid : forall n', Z.abs n' <= 2 ^ (p - 1) -> valid f (mk 0 n') = true)
    by (intros n' Hn'; apply (small_rep f Hf); exact Hn').
  assert (Hvx : valid f (mk k v) = true) by exact Hrepv.
  destruct (Z.eq_dec k 0) as [->|Hk0].
  - (* integer argument *)
    change (2 ^ 0) with 1 in *. replace (1 <=? 0) with false by lia.
    assert (En : n = v) by (unfold n; apply Z.quot_1_r). rewrite En.
    replace (v - v * 1) with 0 by lia. rewrite Z.mul_1_r.
    change (fgt (mk 0 0) fhalf) with false. change (feq (mk 0 0) fhalf) with false.
    change (flt (mk 0 0) (fneg fhalf)) with false. change (feq (mk 0 0) (fneg fhalf)) with false.
    cbn [orb andb].
    rewrite copysign_ct_eq_rt; [|exact Hs|apply Hvalid; lia|exact Hvx].
    unfold rt_copysign. rewrite mk_sign by exact Hv.
    apply with_sign_mk. intros _. reflexivity.
  - replace (1 <=? k) with true by lia.
    pose proof (pow2_gt0 (k - 1) ltac:(lia)) as Hh.
    assert (ED : 2 ^ k = 2 * 2 ^ (k - 1)).
    { replace k with ((k - 1) + 1) at 1 by lia. apply pow2_succ. lia. }
    rewrite (fhalf_mk k) by lia. rewrite mk_neg by lia.
    rewrite !mk_fgt, !mk_flt, !mk_feq.
    rewrite (fone_mk k Hk).
    unfold rint_step. cbv zeta. rewrite <- ED. fold n.
    set (rho := v - n * 2 ^ k) in *.
    set (odd := negb (Z.rem n 2 =? 0)).
    assert (Hn1 : Z.abs (n + 1) <= 2 ^ (p - 1) /\ Z.abs (n - 1) <= 2 ^ (p - 1)) by lia.
    destruct ((2 ^ (k - 1) <? rho) || (rho =? 2 ^ (k - 1)) && odd) eqn:C1.
    + rewrite mk_add by (replace (n * 2 ^ k + 2 ^ k) with ((n + 1) * 2 ^ k) by lia;
                         apply rep_int; [exact Hf|exact Hk|lia]).
      replace (n * 2 ^ k + 2 ^ k) with ((n + 1) * 2 ^ k) by lia. rewrite mk_int by lia.
      rewrite copysign_ct_eq_rt; [|exact Hs|apply Hvalid; lia|exact Hvx].
      unfold rt_copysign. rewrite mk_sign by exact Hv.
      apply with_sign_mk. intros Hnz. unfold rho in C1. unfold n in *.
      destruct (Z_lt_le_dec v 0).
      * pose proof (quot_neg_ge v (2 ^ k) HD ltac:(lia)). lia.
      * assert (0 <= Z.quot v (2 ^ k)) by (apply Z.quot_pos; lia). lia.
    + destruct ((rho <? - 2 ^ (k - 1)) || (rho =? - 2 ^ (k - 1)) && odd) eqn:C2.
      * rewrite mk_sub; [|lia|replace (n * 2 ^ k - 2 ^ k) with ((n - 1) * 2 ^ k) by lia;
                                 apply rep_int; [exact Hf|exact Hk|lia]].
        replace (n * 2 ^ k - 2 ^ k) with ((n - 1) * 2 ^ k) by lia. rewrite mk_int by lia.
        rewrite copysign_ct_eq_rt; [|exact Hs|apply Hvalid; lia|exact Hvx].
        unfold rt_copysign. rewrite mk_sign by exact Hv.
        replace (n + -1) with (n - 1) by lia.
        apply with_sign_mk. intros Hnz. unfold rho in C2. unfold n in *.
        destruct (Z_lt_le_dec v 0).
        -- pose proof (quot_nonpos v (2 ^ k) HD ltac:(lia)). lia.
        -- pose proof (quot_pos_le v (2 ^ k) HD ltac:(lia)). lia.
      * rewrite mk_int by lia.
        rewrite copysign_ct_eq_rt; [|exact Hs|apply Hvalid; lia|exact Hvx].
        unfold rt_copysign. rewrite mk_sign by exact Hv. rewrite Z.add_0_r.
        apply with_sign_mk. intros Hnz. unfold n in *.
        destruct (Z_lt_le_dec v 0).
        -- pose proof (quot_neg_ge v (2 ^ k) HD ltac:(lia)).
           pose proof (Z.quot_rem' v (2 ^ k)). pose proof (Z.rem_nonpos v (2 ^ k) ltac:(lia) ltac:(lia)). nia.
        -- assert (0 <= Z.quot v (2 ^ k)) by (apply Z.quot_pos; lia). lia.
Qed.
End Rint.

(** * the whole function *)
Lemma rt_rint_int_exp : forall x s m e, rt_rint x = FFin s m e -> 0 <= e.
Proof.
  intros x s m e H. unfold rt_rint, round_with in H. destruct x as [a|a|a|a mx ex]; try discriminate H.
  destruct (0 <=? ex) eqn:He.
  - cbn [fnorm] in H. destruct (pnorm mx ex) as [m' e'] eqn:Hn.
    pose proof (pnorm_spec _ _ _ _ Hn) as (_ & Hle & _). inversion H; subst. lia.
  - unfold fofZ in H. destruct (_ =? 0); [discriminate H|]. cbn [fnorm] in H.
    destruct (pnorm _ 0) as [m' e'] eqn:Hn.
    pose proof (pnorm_spec _ _ _ _ Hn) as (_ & Hle & _). inversion H; subst. lia.
Qed.

Section RintTop.
Variable f : fmt.
Hypothesis Hf : fmt_ok f.
Hypothesis Hs : std_fmt f.
Local Notation p := (prec f).

Lemma rint_zero : forall s, ct_rint f (FZero s) = Ok (FZero s).
Proof.
  intros s. unfold ct_rint. cbv zeta.
  assert (G : fgt (FZero s) (fneg (flimit f)) && flt (FZero s) (flimit f) = true) by (destruct s; reflexivity).
  rewrite G. cbn [negb].
  change (to_llint (FZero s)) with (Ok (A:=Z) 0). cbn [rbind]. f_equal.
  rewrite of_int_0.
  assert (Efrac : fsub f (FZero s) (FZero false) = FZero s) by (destruct s; reflexivity).
  rewrite Efrac.
  change (Z.rem 0 2 =? 0) with true. cbn [negb].
  assert (C : (fgt (FZero s) fhalf || feq (FZero s) fhalf && false = false) /\
              (flt (FZero s) (fneg fhalf) || feq (FZero s) (fneg fhalf) && false = false))
    by (destruct s; split; reflexivity).
  destruct C as [-> ->].
  rewrite copysign_ct_eq_rt; [|exact Hs|reflexivity|reflexivity].
  reflexivity.
Qed.

Lemma rint_inf : forall s, ct_rint f (FInf s) = Ok (FInf s).
Proof. intros [|]; reflexivity. Qed.
Lemma rint_nan : forall s, ct_rint f (FNaN s) = Ok (FNaN s).
Proof. intros [|]; reflexivity. Qed.

Lemma rint_large : forall k v, 0 <= k -> 2 ^ (p - 1 + k) <= Z.abs v -> ct_rint f (mk k v) = Ok (mk k v).
Proof.
  intros k v Hk Hge. unfold ct_rint. cbv zeta. rewrite (rint_guard_mk f Hf) by exact Hk.
  replace (Z.abs v <? 2 ^ (p - 1 + k)) with false by lia. reflexivity.
Qed.

Theorem rint_ct_eq_rt : forall x, valid f x = true ->
  exists y, ct_rint f x = Ok y /\ up_to_nan_sign y (rt_rint x).
Proof.
  intros x Hv. destruct x as [s|s|s|s m e].
  - exists (FZero s). split; [apply rint_zero|left; reflexivity].
  - exists (FInf s). split; [apply rint_inf|left; reflexivity].
  - exists (FNaN s). split; [apply rint_nan|right; split; reflexivity].
  - exists (rt_rint (FFin s m e)). split; [|left; reflexivity].
    destruct (fin_as_mk f s m e Hv) as (E & Hv0 & Hsg & Hrep).
    unfold rt_rint. destruct (Z_lt_le_dec e 0) as [He|He].
    + destruct (scaled_frac f s m e Hf Hv He) as (Hk & Hsc & Ho & Hlt).
      rewrite <- (glue_frac f Hf zround_even s m e Hv He). rewrite E.
      rewrite (rint_main f Hf Hs); [|unfold scale_of; lia|exact Hv0|exact Hlt|exact Hrep|].
      * f_equal. f_equal. replace (1 <=? scale_of e) with true by lia.
        rewrite rint_arith; [|apply pow2_gt0; lia|exact Hv0].
        f_equal. replace (scale_of e) with ((scale_of e - 1) + 1) at 2 by lia.
        symmetry. apply pow2_succ. lia.
      * intros r Hr. apply (rep_below f (scale_of e) (scaled s m e)); assumption.
    + rewrite (round_with_int f) by assumption. rewrite E.
      rewrite (scale_int e He) in *.
      destruct (Z_lt_le_dec (Z.abs (scaled s m e)) (2 ^ (p - 1 + 0))) as [Hlt|Hge].
      * rewrite (rint_main f Hf Hs); [|lia|exact Hv0|exact Hlt|exact Hrep|].
        -- replace (1 <=? 0) with false by lia. f_equal. apply fofZ_nz. exact Hv0.
        -- intros r Hr. apply (small_rep f Hf). replace (p - 1 + 0) with (p - 1) in Hlt by lia. lia.
      * apply rint_large; [lia|exact Hge].
Qed.

(* lrint / llrint: whenever the specification is defined (the rounded value fits the 64-bit result)
   the fallback returns that value and its conversion is in range *)
Theorem lrint_ct_eq_rt : forall x n, valid f x = true -> rt_lrint x = Some n -> ct_lrint f x = Ok n.
Proof.
  intros x n Hv Hrt. destruct (rint_ct_eq_rt x Hv) as (y & Hy & Hyn).
  unfold ct_lrint. rewrite Hy. cbn [rbind]. unfold rt_lrint in Hrt.
  destruct (rt_rint x) as [a|a|a|a m e] eqn:R; try discriminate Hrt.
  - destruct Hyn as [->|[_ Hn]]; [|discriminate Hn]. injection Hrt as <-. reflexivity.
  - destruct Hyn as [->|[_ Hn]]; [|discriminate Hn].
    pose proof (rt_rint_int_exp x a m e R) as He.
    unfold to_sint. cbn [ztrunc]. replace (0 <=? e) with true by lia.
    assert (En : (if a then - (Zpos m * 2 ^ e) else Zpos m * 2 ^ e) = (if a then Zneg m else Zpos m) * 2 ^ e).
    { destruct a; [|reflexivity]. change (Zneg m) with (- Zpos m). lia. }
    rewrite En. destruct (in_s 64 _); [|discriminate Hrt]. injection Hrt as <-. reflexivity.
Qed.
End RintTop.
