(* C13 — gcem::remainder (constant evaluation: fmod_exact, then one comparison of r with the possibly
   ROUNDED |y| - r and at most one more subtraction) = IEC 60559 remainder (run time), for every pair
   of values of every format with 2 <= precision <= 64 < emax. *)
From Tetl Require Import Lib.Base C13.Float C13.Model C13.Spec C13.ProofsKit C13.ProofsCls C13.ProofsRoundKit
  C13.ProofsFmaExact C13.ProofsFmodKit C13.ProofsFmodTop.
From Coq Require Import ZifyBool.
Local Open Scope Z_scope.
Ltac Zify.zify_post_hook ::= Z.to_euclidean_division_equations.

(** * an inexact sum is the rounding of the exact sum at the common scale *)
Lemma mk_add_round : forall f k u v, u <> 0 -> v <> 0 -> u + v <> 0 ->
  fadd f (mk k u) (mk k v) = fround f (u + v <? 0) (Z.abs (u + v)) (- k).
Proof.
  intros f k u v Hu Hv Hs.
  destruct (mk_fin k u Hu) as (m1 & e1 & E1 & O1 & K1 & A1).
  destruct (mk_fin k v Hv) as (m2 & e2 & E2 & O2 & K2 & A2).
  rewrite E1, E2. cbn [fadd]. set (e0 := Z.min e1 e2).
  pose proof (pow2_gt0 (e0 + k) ltac:(lia)) as Hp.
  set (v1 := Zpos m1 * 2 ^ (e1 - e0)). set (v2 := Zpos m2 * 2 ^ (e2 - e0)).
  assert (B1 : Z.abs u = v1 * 2 ^ (e0 + k)).
  { unfold v1. rewrite <- Z.mul_assoc, <- pow2_add by lia. rewrite A1. f_equal. f_equal. lia. }
  assert (B2 : Z.abs v = v2 * 2 ^ (e0 + k)).
  { unfold v2. rewrite <- Z.mul_assoc, <- pow2_add by lia. rewrite A2. f_equal. f_equal. lia. }
  set (t := (if u <? 0 then - v1 else v1) + (if v <? 0 then - v2 else v2)).
  assert (Ht : u + v = t * 2 ^ (e0 + k)).
  { unfold t. destruct (u <? 0) eqn:Su; destruct (v <? 0) eqn:Sv; lia. }
  assert (Ht0 : t <> 0) by (intros ->; lia).
  replace (t =? 0) with false by lia.
  rewrite Ht, ltb_mul_pos, abs_mul_pos by exact Hp.
  replace (- k) with (e0 - (e0 + k)) by lia. symmetry. apply fround_scale; lia.
Qed.

(** * rounding a positive integer never goes below the power of two of its binade *)
Lemma fnorm_is_mk : forall k q E, 0 < q -> - k <= E ->
  fnorm (FFin false (Z.to_pos q) E) = mk k (q * 2 ^ (E + k)).
Proof.
  intros k q E Hq HE. pose proof (pow2_gt0 (E + k) ltac:(lia)) as Hp. unfold mk.
  replace (q * 2 ^ (E + k) =? 0) with false by nia. replace (q * 2 ^ (E + k) <? 0) with false by nia.
  rewrite Z.abs_eq by nia. cbn [fnorm]. destruct q as [|p|p]; try lia.
  rewrite pnorm_shift by lia. replace (- k + (E + k)) with E by lia. reflexivity.
Qed.

Lemma fround_lower : forall f V k, 1 <= prec f -> 0 < V -> emin f <= - k ->
  fround f false V (- k) = FInf false \/
  exists U, fround f false V (- k) = mk k U /\ 2 ^ (digits V - 1) <= U.
Proof.
  intros f V k Hp HV Hk. pose proof (digits_pos V HV) as (Hd0 & Hlo & Hhi).
  unfold fround. replace (V <=? 0) with false by lia.
  set (E := Z.max (digits V + - k - prec f) (emin f)). cbv zeta.
  destruct (E <=? - k) eqn:C.
  - unfold ffinish. replace (V <=? 0) with false by lia.
    destruct (emax f <? digits V + - k); [left; reflexivity|]. right. exists V. split; [|lia].
    rewrite (fnorm_is_mk k V (- k)) by lia. replace (- k + k) with 0 by lia.
    change (2 ^ 0) with 1. rewrite Z.mul_1_r. reflexivity.
  - assert (EE : E = digits V + - k - prec f) by lia.
    set (sh := E - - k). assert (Hsh : 0 < sh /\ sh = digits V - prec f) by lia.
    pose proof (pow2_gt0 sh ltac:(lia)) as Hps.
    assert (Hq : 2 ^ (prec f - 1) <= V / 2 ^ sh).
    { apply Z.div_le_lower_bound; [lia|]. rewrite Z.mul_comm, <- pow2_add by lia.
      replace (prec f - 1 + sh) with (digits V - 1) by lia. lia. }
    pose proof (pow2_gt0 (prec f - 1) ltac:(lia)) as Hpp.
    set (q := V / 2 ^ sh) in *.
    set (q' := if V mod 2 ^ sh <? 2 ^ (sh - 1) then q
               else if 2 ^ (sh - 1) <? V mod 2 ^ sh then q + 1 else if Z.even q then q else q + 1).
    assert (Hq' : q <= q') by (unfold q'; destruct (_ <? _); [lia|]; destruct (_ <? _); [lia|]; destruct (Z.even q); lia).
    unfold ffinish. replace (q' <=? 0) with false by lia.
    destruct (emax f <? digits q' + E); [left; reflexivity|]. right.
    exists (q' * 2 ^ sh). split.
    + rewrite (fnorm_is_mk k q' E) by lia. replace (E + k) with sh by (unfold sh; lia). reflexivity.
    + replace (digits V - 1) with (prec f - 1 + sh) by lia. rewrite pow2_add by lia. nia.
Qed.

(* negative values are representable like their opposites *)
Lemma rep_opp : forall f k v, rep f k v -> rep f k (- v).
Proof.
  intros f k v H. destruct (Z.eq_dec v 0) as [->|Hv]; [exact H|].
  unfold rep in *. rewrite <- mk_neg by exact Hv.
  destruct (mk_fin k v Hv) as (m & e & E & _). rewrite E in *. exact H.
Qed.

Section Remainder.
Variable f : fmt.
Hypothesis Hf : fmt_ok f.

(* the comparison of r with the rounded |y| - r, when 2r < |y| *)
Lemma small_rem_test : forall k B R, 0 < R -> 2 * R < B -> rep f k B -> rep f k R -> emin f <= - k ->
  fgt (mk k R) (fsub f (mk k B) (mk k R)) = false /\ feq (mk k R) (fsub f (mk k B) (mk k R)) = false.
Proof.
  intros k B R HR H2 HrB HrR Hk. pose proof Hf as [[Hp2 Hp64] Hpe].
  set (V := B - R). assert (HV : R < V) by (unfold V; lia).
  set (d := digits V). pose proof (digits_pos V ltac:(lia)) as (Hd0 & Hlo & Hhi). fold d in Hd0, Hlo, Hhi.
  destruct (Z_lt_le_dec R (2 ^ (d - 1))) as [Hb|Ha].
  - (* r lies below the binade of |y| - r: the rounded difference stays at or above 2^(d-1) *)
    unfold fsub. rewrite mk_neg by lia.
    rewrite mk_add_round by lia. replace (B + - R) with V by (unfold V; lia).
    replace (V <? 0) with false by lia. rewrite Z.abs_eq by lia.
    destruct (fround_lower f V k ltac:(lia) ltac:(lia) Hk) as [Einf|(U & EU & HU)].
    + rewrite Einf. destruct (mk_fin k R ltac:(lia)) as (m & e & E & _). rewrite E.
      replace (R <? 0) with false by lia. split; reflexivity.
    + rewrite EU, mk_fgt, mk_feq. fold d in HU. split; lia.
  - (* r and |y| - r share a binade: the difference is representable *)
    assert (HdR : digits R = d).
    { pose proof (digits_le_mono R V ltac:(lia)). fold d in H.
      pose proof (digits_pos R HR) as (_ & _ & HRhi).
      destruct (Z_le_gt_dec d (digits R)); [lia|].
      assert (2 ^ digits R <= 2 ^ (d - 1)) by (apply Z.pow_le_mono_r; lia). lia. }
    assert (HrV : rep f k V).
    { destruct (odd_part R HR) as (tr & mr & Htr & Hor & Hmr & ER).
      destruct (odd_part B ltac:(lia)) as (tb & mb & Htb & Hob & Hmb & EB).
      pose proof HrR as HrR'. rewrite ER in HrR'. apply (rep_iff f k mr tr Htr Hmr Hor) in HrR'.
      pose proof HrB as HrB'. rewrite EB in HrB'. apply (rep_iff f k mb tb Htb Hmb Hob) in HrB'.
      destruct HrR' as (HdR1 & HminR & HmaxR). destruct HrB' as (HdB1 & HminB & HmaxB).
      pose proof (pow2_gt0 tr Htr) as Hptr. pose proof (pow2_gt0 tb Htb) as Hptb.
      pose proof (digits_mul_pow2 mr tr Hmr Htr) as HdRm. rewrite <- ER in HdRm.
      pose proof (digits_mul_pow2 mb tb Hmb Htb) as HdBm. rewrite <- EB in HdBm.
      assert (HBge : 2 ^ d <= B).
      { unfold V in *. replace d with ((d - 1) + 1) by lia. rewrite pow2_succ by lia. lia. }
      assert (HdB : d + 1 <= digits B).
      { destruct (Z_le_gt_dec (d + 1) (digits B)); [lia|].
        pose proof (digits_pos B ltac:(lia)) as (_ & _ & HBhi).
        assert (2 ^ digits B <= 2 ^ d) by (apply Z.pow_le_mono_r; lia). lia. }
      (* V is a multiple of 2^t0, t0 = min tr tb >= d - prec *)
      set (t0 := Z.min tr tb). assert (Ht0 : 0 <= t0) by (unfold t0; lia).
      pose proof (pow2_gt0 t0 Ht0) as Hpt0.
      assert (HVc : exists c, V = c * 2 ^ t0).
      { exists (mb * 2 ^ (tb - t0) - mr * 2 ^ (tr - t0)).
        rewrite Z.mul_sub_distr_r, <- !Z.mul_assoc, <- !pow2_add by (unfold t0; lia).
        replace (tb - t0 + t0) with tb by lia. replace (tr - t0 + t0) with tr by lia. unfold V. lia. }
      destruct HVc as (c & Ec). assert (Hc : 0 < c) by nia.
      destruct (odd_part c Hc) as (tc & mc & Htc & Hoc & Hmc & Ecc).
      pose proof (pow2_gt0 tc Htc) as Hptc.
      assert (EV : V = mc * 2 ^ (tc + t0)) by (rewrite pow2_add by lia; nia).
      pose proof (digits_mul_pow2 mc (tc + t0) Hmc ltac:(lia)) as HdVm. rewrite <- EV in HdVm. fold d in HdVm.
      pose proof (rep_top f k B ltac:(lia) HrB) as HtB.
      pose proof (digits_le_mono V B ltac:(unfold V; lia)) as HVB. fold d in HVB.
      rewrite EV. apply rep_iff; try assumption; unfold t0 in *; lia. }
    unfold fsub. rewrite mk_neg by lia. rewrite mk_add by (replace (B + - R) with V by (unfold V; lia); exact HrV).
    replace (B + - R) with V by (unfold V; lia). rewrite mk_fgt, mk_feq. split; lia.
Qed.

Theorem remainder_ct_eq_rt : forall x y, valid f x = true -> valid f y = true ->
  ct_remainder f x y = Ok (rt_remainder x y).
Proof.
  intros x y Hx Hy. pose proof Hf as [[Hp2 Hp64] Hpe].
  destruct x as [s1|s1|s1|s1 m1 e1]; destruct y as [s2|s2|s2|s2 m2 e2];
    try (unfold ct_remainder; rewrite !gcem_is_nan_spec, !gcem_is_finite_spec; destruct s1; destruct s2; reflexivity).
  set (k := cscale e1 e2).
  assert (Hk1 : - k <= e1) by (unfold k, cscale; lia).
  assert (Hk2 : - k <= e2) by (unfold k, cscale; lia).
  destruct (fin_at_scale f s1 m1 e1 k Hx Hk1) as (EA & HA & HrA).
  destruct (fin_at_scale f s2 m2 e2 k Hy Hk2) as (EB & HB & HrB).
  set (A := Zpos m1 * 2 ^ (e1 + k)) in *. set (B := Zpos m2 * 2 ^ (e2 + k)) in *.
  assert (Hemin : emin f <= - k).
  { cbn [valid] in Hx, Hy. rewrite !andb_true_iff, !Z.leb_le in Hx, Hy. unfold k, cscale. lia. }
  pose proof (Z.mod_pos_bound A B HB) as HR. pose proof (Z.div_mod A B ltac:(lia)) as Edm.
  set (R := A mod B) in *. set (Q := A / B) in *.
  assert (HrR : rep f k R) by (apply rep_mod; assumption).
  (* the specification *)
  assert (Hrt : rt_remainder (FFin s1 m1 e1) (FFin s2 m2 e2) =
                if (B <? 2 * R) || ((2 * R =? B) && Z.odd Q)
                then with_sign (negb s1) (mk k (B - R)) else with_sign s1 (mk k R)).
  { cbn [rt_remainder]. unfold rem_parts.
    replace (Z.min e1 e2) with (- k) by (unfold k, cscale; lia).
    replace (e1 - - k) with (e1 + k) by lia. replace (e2 - - k) with (e2 + k) by lia.
    fold A. fold B. cbv zeta. fold R. fold Q.
    destruct ((B <? 2 * R) || ((2 * R =? B) && Z.odd Q)); apply fmake_with_sign; lia. }
  rewrite Hrt. unfold ct_remainder.
  assert (Hlad : gcem_is_nan (FFin s1 m1 e1) || gcem_is_nan (FFin s2 m2 e2)
                 || negb (gcem_is_finite (FFin s1 m1 e1)) || feq (FFin s2 m2 e2) (FZero false) = false).
  { rewrite !gcem_is_nan_spec, gcem_is_finite_spec. destruct s2; reflexivity. }
  assert (Hlad2 : negb (gcem_is_finite (FFin s2 m2 e2)) || feq (FFin s1 m1 e1) (FZero false) = false).
  { rewrite gcem_is_finite_spec. destruct s1; reflexivity. }
  rewrite Hlad, Hlad2. cbv zeta. rewrite !gcem_abs_fin, EA, EB, mk_fge.
  (* the division part: r = A mod B, odd = parity of A / B, whether or not the loop runs *)
  assert (Hro : (if B <=? A then gcem_fmod_exact f (mk k A) (mk k B) else Ok (mk k A, false))
                = Ok (mk k R, Z.odd Q)).
  { destruct (B <=? A) eqn:Hc.
    - apply (fmod_exact_spec f Hf); try assumption; lia.
    - unfold R, Q. rewrite Z.mod_small, Z.div_small by lia. reflexivity. }
  rewrite Hro. cbn [rbind fst snd]. rewrite flt_fin_zero.
  destruct (Z.eq_dec R 0) as [ER0|HR0].
  - (* exact multiple *)
    rewrite ER0 in *. rewrite mk_0. rewrite fsub_zero_r by apply mk_is_fin.
    change (FZero false) with (mk k 0). rewrite mk_fgt, mk_feq.
    replace (B <? 0) with false by lia. replace (0 =? B) with false by lia. cbn [orb andb].
    replace (B <? 2 * 0) with false by lia. replace (2 * 0 =? B) with false by lia. cbn [orb andb].
    f_equal. destruct s1; reflexivity.
  - destruct (Z_lt_le_dec (2 * R) B) as [Hsmall|Hbig].
    + (* 2r < |y|: the comparison is decided although |y| - r may be rounded *)
      destruct (small_rem_test k B R ltac:(lia) Hsmall HrB HrR Hemin) as [-> ->].
      cbn [orb andb]. replace (B <? 2 * R) with false by lia. replace (2 * R =? B) with false by lia.
      cbn [orb andb]. f_equal. apply with_sign_mk_nonneg. lia.
    + (* |y| / 2 <= r < |y|: |y| - r is exact (Sterbenz) *)
      assert (HrV : rep f k (B - R)) by (apply rep_sterbenz; try assumption; lia).
      rewrite (mk_sub f k B R) by (try lia; exact HrV). rewrite mk_fgt, mk_feq.
      replace (B - R <? R) with (B <? 2 * R) by lia. replace (R =? B - R) with (2 * R =? B) by lia.
      destruct ((B <? 2 * R) || ((2 * R =? B) && Z.odd Q)) eqn:Hc.
      * rewrite (mk_sub f k R B) by (try lia; replace (R - B) with (- (B - R)) by lia; apply rep_opp; exact HrV).
        f_equal. replace (R - B) with (- (B - R)) by lia. rewrite <- mk_neg by lia.
        destruct (mk_fin k (B - R) ltac:(lia)) as (m & e & E & _). rewrite E.
        replace (B - R <? 0) with false by lia. destruct s1; reflexivity.
      * f_equal. apply with_sign_mk_nonneg. lia.
Qed.
End Remainder.
