(* C13 — byteswap: detail::byteswap_fallback (shifts and masks, uint16/32/64) equals the byte
   reversal that __builtin_bswap16/32/64 perform, for EVERY value of the type.
   Method: bit extensionality.  Bit n of the specification side (a little-endian sum of bytes) and
   of the code side (lor/land/shift/wrap) are both rewritten to "bit (n +- c) of v" guarded by
   comparisons on n; a case split of n into byte ranges decides the comparisons. *)
From Tetl Require Import Lib.Base C13.Float C13.Model C13.Spec.
Local Open Scope Z_scope.
Ltac Zify.zify_post_hook ::= Z.to_euclidean_division_equations.

(** * bits of the code-side operators *)
Lemma tb_wrapu : forall w a n, 0 <= w -> 0 <= n -> Z.testbit (wrapu w a) n = (n <? w) && Z.testbit a n.
Proof.
  intros w a n Hw Hn. unfold wrapu. destruct (n <? w) eqn:E.
  - apply Z.ltb_lt in E. rewrite Z.mod_pow2_bits_low by lia. reflexivity.
  - apply Z.ltb_ge in E. rewrite Z.mod_pow2_bits_high by lia. reflexivity.
Qed.

Lemma tb_shiftl : forall a k n, 0 <= n -> Z.testbit (Z.shiftl a k) n = Z.testbit a (n - k).
Proof. intros a k n Hn. apply Z.shiftl_spec. exact Hn. Qed.

Lemma tb_shiftr : forall a k n, 0 <= n -> Z.testbit (Z.shiftr a k) n = Z.testbit a (n + k).
Proof. intros a k n Hn. apply Z.shiftr_spec. exact Hn. Qed.

(* a byte mask 0xFF << s *)
Lemma tb_mask : forall s n, 0 <= s -> 0 <= n ->
  Z.testbit (255 * 2 ^ s) n = (s <=? n) && (n <? s + 8).
Proof.
  intros s n Hs Hn. change 255 with (Z.ones 8). rewrite <- Z.shiftl_mul_pow2 by lia.
  rewrite Z.shiftl_spec by lia.
  destruct (s <=? n) eqn:E.
  - apply Z.leb_le in E. rewrite Z.testbit_ones_nonneg by lia. cbn [andb].
    destruct (n - s <? 8) eqn:F; destruct (n <? s + 8) eqn:G; lia.
  - apply Z.leb_gt in E. rewrite Z.testbit_neg_r by lia. reflexivity.
Qed.

Lemma tb_above : forall w v n, 0 <= v < 2 ^ w -> w <= n -> Z.testbit v n = false.
Proof.
  intros w v n Hv Hn. destruct (Z_lt_le_dec w 0) as [Hw|Hw].
  - rewrite Z.pow_neg_r in Hv by lia. lia.
  - rewrite <- (Z.mod_small v (2 ^ w)) by lia. apply Z.mod_pow2_bits_high. lia.
Qed.

(** * bits of the specification side *)
Lemma tb_cons : forall b r n, 0 <= b < 256 -> 0 <= n ->
  Z.testbit (b + 256 * r) n = if n <? 8 then Z.testbit b n else Z.testbit r (n - 8).
Proof.
  intros b r n Hb Hn. change 256 with (2 ^ 8). destruct (n <? 8) eqn:E.
  - apply Z.ltb_lt in E. rewrite <- (Z.mod_pow2_bits_low (b + 2 ^ 8 * r) 8 n) by lia.
    f_equal. rewrite Z.mul_comm, Z_mod_plus_full. apply Z.mod_small. exact Hb.
  - apply Z.ltb_ge in E. replace n with ((n - 8) + 8) at 1 by lia.
    rewrite <- Z.div_pow2_bits by lia. f_equal.
    rewrite Z.mul_comm, Z.div_add by lia. rewrite Z.div_small by exact Hb. reflexivity.
Qed.

(* byte k of v, k given by its bit offset s = 8k *)
Lemma tb_byte : forall v s n, 0 <= s -> 0 <= n ->
  Z.testbit ((v / 2 ^ s) mod 256) n = (n <? 8) && Z.testbit v (n + s).
Proof.
  intros v s n Hs Hn. change 256 with (2 ^ 8). destruct (n <? 8) eqn:E.
  - apply Z.ltb_lt in E. rewrite Z.mod_pow2_bits_low by lia.
    rewrite Z.div_pow2_bits by lia. reflexivity.
  - apply Z.ltb_ge in E. rewrite Z.mod_pow2_bits_high by lia. reflexivity.
Qed.

Lemma byte_range : forall v s, 0 <= (v / 2 ^ s) mod 256 < 256.
Proof. intros. apply Z.mod_pos_bound. lia. Qed.

(* decide every comparison of the goal by linear arithmetic *)
Ltac decide_cmps :=
  repeat match goal with
  | |- context [?a <? ?b] =>
      first [ replace (a <? b) with true by (symmetry; apply Z.ltb_lt; lia)
            | replace (a <? b) with false by (symmetry; apply Z.ltb_ge; lia) ]
  | |- context [?a <=? ?b] =>
      first [ replace (a <=? b) with true by (symmetry; apply Z.leb_le; lia)
            | replace (a <=? b) with false by (symmetry; apply Z.leb_gt; lia) ]
  end.

Ltac kill_far v Hv w :=
  repeat match goal with
  | |- context [Z.testbit v ?m] =>
      first [ rewrite (Z.testbit_neg_r v m) by lia | rewrite (tb_above w v m Hv) by lia ]
  end.

Ltac finish_bits :=
  cbn [andb orb]; rewrite ?andb_false_r, ?andb_true_r; cbn [andb orb];
  rewrite ?orb_false_r, ?orb_false_l, ?Z.testbit_0_l;
  first [ reflexivity | f_equal; lia ].

(** * 32 bits *)
Lemma byteswap32_bits : forall v, 0 <= v < 2 ^ 32 -> ct_byteswap32 v = rt_byteswap 32 v.
Proof.
  intros v Hv. apply Z.bits_inj'. intros n Hn.
  unfold rt_byteswap. change (Z.to_nat (32 / 8)) with 4%nat.
  cbn [bytes_of zrange_from map rev app of_bytes]. unfold byte_of.
  change (256 ^ 0) with (2 ^ 0). change (256 ^ (0 + 1)) with (2 ^ 8).
  change (256 ^ (0 + 1 + 1)) with (2 ^ 16). change (256 ^ (0 + 1 + 1 + 1)) with (2 ^ 24).
  unfold ct_byteswap32.
  change 16711680 with (255 * 2 ^ 16). change 65280 with (255 * 2 ^ 8).
  rewrite !Z.lor_spec, !Z.land_spec, !tb_wrapu, !tb_shiftl, !tb_shiftr, !tb_mask by lia.
  assert (n < 8 \/ 8 <= n < 16 \/ 16 <= n < 24 \/ 24 <= n < 32 \/ 32 <= n) as Hc by lia.
  destruct Hc as [Hc|[Hc|[Hc|[Hc|Hc]]]].
  all: repeat (rewrite tb_cons by (first [apply byte_range | lia])); decide_cmps;
       rewrite ?tb_byte by lia; decide_cmps; rewrite ?Z.add_0_r; kill_far v Hv 32; finish_bits.
Qed.

(** * 16 bits: uint16 promotes to int, (val << 8) | (val >> 8) is computed without wrapping and
    converted back *)
Lemma byteswap16_bits : forall v, 0 <= v < 2 ^ 16 -> ct_byteswap16 v = rt_byteswap 16 v.
Proof.
  intros v Hv. apply Z.bits_inj'. intros n Hn.
  unfold rt_byteswap. change (Z.to_nat (16 / 8)) with 2%nat.
  cbn [bytes_of zrange_from map rev app of_bytes]. unfold byte_of.
  change (256 ^ 0) with (2 ^ 0). change (256 ^ (0 + 1)) with (2 ^ 8).
  unfold ct_byteswap16.
  rewrite !tb_wrapu, !Z.lor_spec, !tb_shiftl, !tb_shiftr by lia.
  assert (n < 8 \/ 8 <= n < 16 \/ 16 <= n) as Hc by lia.
  destruct Hc as [Hc|[Hc|Hc]].
  all: repeat (rewrite tb_cons by (first [apply byte_range | lia])); decide_cmps;
       rewrite ?tb_byte by lia; decide_cmps; rewrite ?Z.add_0_r; kill_far v Hv 16; finish_bits.
Qed.

(** * 64 bits *)
Lemma byteswap64_bits : forall v, 0 <= v < 2 ^ 64 -> ct_byteswap64 v = rt_byteswap 64 v.
Proof.
  intros v Hv. apply Z.bits_inj'. intros n Hn.
  unfold rt_byteswap. change (Z.to_nat (64 / 8)) with 8%nat.
  cbn [bytes_of zrange_from map rev app of_bytes]. unfold byte_of.
  change (256 ^ 0) with (2 ^ 0). change (256 ^ (0 + 1)) with (2 ^ 8).
  change (256 ^ (0 + 1 + 1)) with (2 ^ 16). change (256 ^ (0 + 1 + 1 + 1)) with (2 ^ 24).
  change (256 ^ (0 + 1 + 1 + 1 + 1)) with (2 ^ 32). change (256 ^ (0 + 1 + 1 + 1 + 1 + 1)) with (2 ^ 40).
  change (256 ^ (0 + 1 + 1 + 1 + 1 + 1 + 1)) with (2 ^ 48).
  change (256 ^ (0 + 1 + 1 + 1 + 1 + 1 + 1 + 1)) with (2 ^ 56).
  unfold ct_byteswap64. cbv zeta.
  change 71776119061217280 with (255 * 2 ^ 48). change 280375465082880 with (255 * 2 ^ 40).
  change 1095216660480 with (255 * 2 ^ 32). change 4278190080 with (255 * 2 ^ 24).
  change 16711680 with (255 * 2 ^ 16). change 65280 with (255 * 2 ^ 8).
  rewrite !Z.lor_spec, !Z.land_spec, !tb_wrapu, !tb_shiftl, !tb_shiftr, !tb_mask by lia.
  assert (n < 8 \/ 8 <= n < 16 \/ 16 <= n < 24 \/ 24 <= n < 32 \/ 32 <= n < 40 \/ 40 <= n < 48 \/
          48 <= n < 56 \/ 56 <= n < 64 \/ 64 <= n) as Hc by lia.
  destruct Hc as [Hc|[Hc|[Hc|[Hc|[Hc|[Hc|[Hc|[Hc|Hc]]]]]]]].
  all: repeat (rewrite tb_cons by (first [apply byte_range | lia])); decide_cmps;
       rewrite ?tb_byte by lia; decide_cmps; rewrite ?Z.add_0_r; kill_far v Hv 64; finish_bits.
Qed.

(** * all overloads: etl::byteswap of a 1-byte value is the identity; widths other than 8/16/32/64
    do not compile (Contract stands for the static_assert) *)
Theorem byteswap_ct_eq_rt : forall w v, (w = 8 \/ w = 16 \/ w = 32 \/ w = 64) -> 0 <= v < 2 ^ w ->
  ct_byteswap w v = Ok (rt_byteswap w v).
Proof.
  intros w v [->|[->|[->| ->]]] Hv; unfold ct_byteswap; cbn [Z.eqb Pos.eqb]; f_equal.
  - unfold rt_byteswap. change (Z.to_nat (8 / 8)) with 1%nat.
    cbn [bytes_of zrange_from map rev app of_bytes]. unfold byte_of.
    change (256 ^ 0) with 1. rewrite Z.div_1_r, Z.mod_small by (change (2 ^ 8) with 256 in Hv; lia). lia.
  - apply byteswap16_bits. exact Hv.
  - apply byteswap32_bits. exact Hv.
  - apply byteswap64_bits. exact Hv.
Qed.

