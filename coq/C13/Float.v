(* C13 — a small exact model of IEEE-754 binary floating point values, parametrised by the
   format (precision, emax), used by both the model (constant-evaluation fallbacks) and the spec
   (run-time builtins).  Values are kept in a normal form (odd significand), arithmetic is exact
   integer arithmetic on significand/exponent followed by one round-to-nearest-even step
   ([fround]) -- the only rounding mode a constant expression is evaluated in and the default
   one at run time.  Definitions only. *)
From Tetl Require Import Lib.Base.
Local Open Scope Z_scope.

Record fmt := { prec : Z; emax : Z }.
(* exponent of the least significant bit of the smallest subnormal *)
Definition emin (f : fmt) : Z := 3 - emax f - prec f.
Definition binary32 := {| prec := 24; emax := 128 |}.
Definition binary64 := {| prec := 53; emax := 1024 |}.
Definition x87ext := {| prec := 64; emax := 16384 |}.

(* s = true: sign bit set.  FFin s m e is (-1)^s * m * 2^e. NaN payloads are not modelled. *)
Inductive fval :=
| FZero (s : bool)
| FInf (s : bool)
| FNaN (s : bool)
| FFin (s : bool) (m : positive) (e : Z).

Definition fval_eqb (x y : fval) : bool :=
  match x, y with
  | FZero a, FZero b | FInf a, FInf b | FNaN a, FNaN b => Bool.eqb a b
  | FFin a m e, FFin b n k => Bool.eqb a b && Pos.eqb m n && (e =? k)
  | _, _ => false
  end.

(** normal form: odd significand *)
Fixpoint pnorm (m : positive) (e : Z) : positive * Z :=
  match m with xO q => pnorm q (e + 1) | _ => (m, e) end.
Definition fnorm (x : fval) : fval :=
  match x with FFin s m e => let '(m', e') := pnorm m e in FFin s m' e' | _ => x end.

Definition digits (m : Z) : Z := if m =? 0 then 0 else Z.log2 m + 1.

(* a value of the format, in normal form *)
Definition valid (f : fmt) (x : fval) : bool :=
  match x with
  | FFin _ m e => Z.odd (Zpos m) && (digits (Zpos m) <=? prec f) && (emin f <=? e)
                  && (digits (Zpos m) + e <=? emax f)
  | _ => true
  end.

(* formats the theorems talk about: at least 2 bits of precision, at most 64 (so that every
   value below 2^(prec-1) converts to long long), exponent range wider than the precision *)
Definition fmt_ok (f : fmt) : Prop := 2 <= prec f <= 64 /\ prec f < emax f.

(** classification, sign *)
Definition fsign (x : fval) : bool :=
  match x with FZero s | FInf s | FNaN s | FFin s _ _ => s end.
Definition is_nan (x : fval) : bool := match x with FNaN _ => true | _ => false end.
Definition is_inf (x : fval) : bool := match x with FInf _ => true | _ => false end.
Definition is_zero (x : fval) : bool := match x with FZero _ => true | _ => false end.
Definition is_fin (x : fval) : bool := match x with FZero _ | FFin _ _ _ => true | _ => false end.

Definition fneg (x : fval) : fval :=
  match x with
  | FZero s => FZero (negb s) | FInf s => FInf (negb s) | FNaN s => FNaN (negb s)
  | FFin s m e => FFin (negb s) m e
  end.
Definition with_sign (s : bool) (x : fval) : fval :=
  match x with
  | FZero _ => FZero s | FInf _ => FInf s | FNaN _ => FNaN s | FFin _ m e => FFin s m e
  end.

(** comparison: None = unordered (a NaN is involved); zeros compare equal *)
Definition cmp_mag (m1 : positive) (e1 : Z) (m2 : positive) (e2 : Z) : comparison :=
  let e := Z.min e1 e2 in
  Z.compare (Zpos m1 * 2 ^ (e1 - e)) (Zpos m2 * 2 ^ (e2 - e)).

Definition fcompare (x y : fval) : option comparison :=
  match x, y with
  | FNaN _, _ | _, FNaN _ => None
  | FZero _, FZero _ => Some Eq
  | FInf a, FInf b => Some (if Bool.eqb a b then Eq else if a then Lt else Gt)
  | FInf a, _ => Some (if a then Lt else Gt)
  | _, FInf b => Some (if b then Gt else Lt)
  | FZero _, FFin b _ _ => Some (if b then Gt else Lt)
  | FFin a _ _, FZero _ => Some (if a then Lt else Gt)
  | FFin a m1 e1, FFin b m2 e2 =>
      Some (match a, b with
            | false, true => Gt
            | true, false => Lt
            | false, false => cmp_mag m1 e1 m2 e2
            | true, true => CompOpp (cmp_mag m1 e1 m2 e2)
            end)
  end.
Definition flt x y := match fcompare x y with Some Lt => true | _ => false end.
Definition fgt x y := match fcompare x y with Some Gt => true | _ => false end.
Definition feq x y := match fcompare x y with Some Eq => true | _ => false end.
Definition fle x y := match fcompare x y with Some Lt | Some Eq => true | _ => false end.
Definition fge x y := match fcompare x y with Some Gt | Some Eq => true | _ => false end.
Definition fne x y := negb (feq x y).

(** rounding of (-1)^s * m * 2^e (m >= 0) to the format, nearest, ties to even *)
Definition ffinish (f : fmt) (s : bool) (q e : Z) : fval :=
  if q <=? 0 then FZero s
  else if emax f <? digits q + e then FInf s
  else fnorm (FFin s (Z.to_pos q) e).

Definition fround (f : fmt) (s : bool) (m e : Z) : fval :=
  if m <=? 0 then FZero s
  else
    let e' := Z.max (digits m + e - prec f) (emin f) in
    if e' <=? e then ffinish f s m e
    else
      let sh := e' - e in
      let q := m / 2 ^ sh in
      let r := m mod 2 ^ sh in
      let half := 2 ^ (sh - 1) in
      let q' := if r <? half then q
                else if half <? r then q + 1
                else if Z.even q then q else q + 1 in
      ffinish f s q' e'.

(* conversion integer -> floating point (0 becomes +0) *)
Definition of_int (f : fmt) (n : Z) : fval := fround f (n <? 0) (Z.abs n) 0.
Definition fpow2 (k : Z) : fval := FFin false 1 k.
Definition fone : fval := fpow2 0.
Definition fhalf : fval := fpow2 (-1).
Definition qnan : fval := FNaN false.

(** arithmetic (NaN results are the canonical quiet NaN; the sign of a NaN result is not modelled) *)
Definition fadd (f : fmt) (x y : fval) : fval :=
  match x, y with
  | FNaN _, _ | _, FNaN _ => qnan
  | FInf a, FInf b => if Bool.eqb a b then x else qnan
  | FInf _, _ => x
  | _, FInf _ => y
  | FZero a, FZero b => FZero (a && b)
  | FZero _, _ => y
  | _, FZero _ => x
  | FFin a m1 e1, FFin b m2 e2 =>
      let e := Z.min e1 e2 in
      let v1 := Zpos m1 * 2 ^ (e1 - e) in
      let v2 := Zpos m2 * 2 ^ (e2 - e) in
      let t := (if a then - v1 else v1) + (if b then - v2 else v2) in
      if t =? 0 then FZero false else fround f (t <? 0) (Z.abs t) e
  end.
Definition fsub (f : fmt) (x y : fval) : fval := fadd f x (fneg y).

Definition fmul (f : fmt) (x y : fval) : fval :=
  let s := xorb (fsign x) (fsign y) in
  match x, y with
  | FNaN _, _ | _, FNaN _ => qnan
  | FInf _, FZero _ | FZero _, FInf _ => qnan
  | FInf _, _ | _, FInf _ => FInf s
  | FZero _, _ | _, FZero _ => FZero s
  | FFin _ m1 e1, FFin _ m2 e2 => fround f s (Zpos m1 * Zpos m2) (e1 + e2)
  end.

(* x*y + z with a single rounding *)
Definition ffma (f : fmt) (x y z : fval) : fval :=
  let s := xorb (fsign x) (fsign y) in
  match x, y with
  | FNaN _, _ | _, FNaN _ => qnan
  | FInf _, FZero _ | FZero _, FInf _ => qnan
  | FInf _, _ | _, FInf _ => fadd f (FInf s) z
  | FZero _, _ | _, FZero _ => fadd f (FZero s) z
  | FFin _ m1 e1, FFin _ m2 e2 =>
      match z with
      | FNaN _ => qnan
      | FInf _ => z
      | FZero _ => fround f s (Zpos m1 * Zpos m2) (e1 + e2)
      | FFin c m3 e3 =>
          let e := Z.min (e1 + e2) e3 in
          let v1 := Zpos m1 * Zpos m2 * 2 ^ (e1 + e2 - e) in
          let v3 := Zpos m3 * 2 ^ (e3 - e) in
          let t := (if s then - v1 else v1) + (if c then - v3 else v3) in
          if t =? 0 then FZero false else fround f (t <? 0) (Z.abs t) e
      end
  end.

(* the value (-1)^s * r * 2^e for an integer r >= 0 (a zero takes the sign s) *)
Definition fmake (s : bool) (r e : Z) : fval :=
  if r <=? 0 then FZero s else fnorm (FFin s (Z.to_pos r) e).

(** conversion floating point -> integer: truncation toward zero (C++ [conv.fpint]); the
    caller checks the range *)
Definition ztrunc (x : fval) : option Z :=
  match x with
  | FZero _ => Some 0
  | FFin s m e =>
      let a := if 0 <=? e then Zpos m * 2 ^ e else Zpos m / 2 ^ (- e) in
      Some (if s then - a else a)
  | _ => None
  end.

(* static_cast<Int>(x) for a w-bit signed Int: undefined unless the truncated value fits *)
Definition to_sint (w : Z) (x : fval) : res Z :=
  match ztrunc x with
  | Some n => if in_s w n then Ok n else UB SignedOverflow
  | None => UB SignedOverflow
  end.

(** bit-level encoding (interchange formats binary32/binary64): sign | exponent | fraction *)
Definition ewidth (f : fmt) : Z := Z.log2 (emax f) + 1.
Definition mwidth (f : fmt) : Z := prec f - 1.

Definition decode (f : fmt) (bits : Z) : fval :=
  let mw := mwidth f in
  let ew := ewidth f in
  let s := Z.testbit bits (ew + mw) in
  let ex := (bits / 2 ^ mw) mod 2 ^ ew in
  let fr := bits mod 2 ^ mw in
  if ex =? 2 ^ ew - 1 then (if fr =? 0 then FInf s else FNaN s)
  else if ex =? 0 then (if fr =? 0 then FZero s else fnorm (FFin s (Z.to_pos fr) (emin f)))
  else fnorm (FFin s (Z.to_pos (fr + 2 ^ mw)) (ex - 1 + emin f)).

Definition encode (f : fmt) (x : fval) : Z :=
  let mw := mwidth f in
  let ew := ewidth f in
  let sb (s : bool) := if s then 2 ^ (ew + mw) else 0 in
  match x with
  | FZero s => sb s
  | FInf s => sb s + (2 ^ ew - 1) * 2 ^ mw
  | FNaN s => sb s + (2 ^ ew - 1) * 2 ^ mw + 2 ^ (mw - 1)
  | FFin s m e =>
      let ce := Z.max (digits (Zpos m) + e - prec f) (emin f) in
      let M := Zpos m * 2 ^ (e - ce) in
      if M <? 2 ^ mw then sb s + M
      else sb s + (ce - emin f + 1) * 2 ^ mw + (M - 2 ^ mw)
  end.
