(* C13 — gcem::floor (constant evaluation) = IEC 60559 roundToIntegralTowardNegative (run time),
   for every value of every format with 2 <= precision <= 64 < emax. *)
From Tetl Require Import Lib.Base C13.Float C13.Model C13.Spec C13.ProofsKit C13.ProofsCls C13.ProofsRoundKit.
From Coq Require Import ZifyBool.
Local Open Scope Z_scope.
Ltac Zify.zify_post_hook ::= Z.to_euclidean_division_equations.

Section Floor.
Variable f : fmt.
Hypothesis Hf : fmt_ok f.
Local Notation p := (prec f).

Lemma floor_kern : forall k v, 0 <= k -> v <> 0 -> Z.abs v < 2 ^ (p - 1 + k) ->
  (do n <- to_llint (mk k v); Ok (gcem_floor_int f (mk k v) (of_int f n))) = Ok (mk 0 (v / 2 ^ k)).
Proof.
  intros k v Hk Hv Hlt.
  pose proof (P_bounds f Hf) as HP.
  pose proof (pow2_gt0 k Hk) as HD.
  rewrite (PD f Hf k Hk) in Hlt.
  pose proof (quot_bound v (2 ^ k) (2 ^ (p - 1)) HD Hlt) as Hq.
  rewrite to_llint_mk by lia. cbn [rbind]. f_equal.
  unfold gcem_floor_int.
  rewrite (of_int_small f Hf k (Z.quot v (2 ^ k)) Hk) by lia.
  change (FZero false) with (mk k 0). rewrite !mk_flt.
  destruct ((v <? 0) && (v <? Z.quot v (2 ^ k) * 2 ^ k)) eqn:Hr; cbn [b2z].
  - rewrite (of_int_small f Hf k 1 Hk) by lia.
    rewrite mk_sub; [|lia|].
    + replace (Z.quot v (2 ^ k) * 2 ^ k - 1 * 2 ^ k) with ((Z.quot v (2 ^ k) - 1) * 2 ^ k) by lia.
      rewrite mk_int by lia. f_equal. apply quot_div_neg; lia.
    + replace (Z.quot v (2 ^ k) * 2 ^ k - 1 * 2 ^ k) with ((Z.quot v (2 ^ k) - 1) * 2 ^ k) by lia.
      apply rep_int; [exact Hf|exact Hk|]. lia.
  - rewrite of_int_0. rewrite fsub_zero_r by apply mk_is_fin.
    rewrite mk_int by lia. f_equal.
    destruct (Z_lt_le_dec v 0) as [Hneg|Hpos].
    + apply quot_div_exact; [lia|]. pose proof (quot_neg_ge v (2 ^ k) HD ltac:(lia)). lia.
    + apply quot_div_pos; lia.
Qed.

Theorem floor_ct_eq_rt : forall x, valid f x = true -> ct_floor f x = Ok (rt_floor x).
Proof.
  intros x Hv. rewrite ct_floor_ladder.
  destruct x as [s|s|s|s m e].
  - apply ladder_zero.
  - apply ladder_inf.
  - apply ladder_nan.
  - destruct (fin_as_mk f s m e Hv) as (E & Hv0 & Hs & Hrep).
    unfold rt_floor. destruct (Z_lt_le_dec e 0) as [He|He].
    + destruct (scaled_frac f s m e Hf Hv He) as (Hk & Hsc & Ho & Hlt).
      rewrite round_with_frac by exact He. rewrite E.
      rewrite ladder_small; [|exact Hf|unfold scale_of; lia|exact Hv0|exact Hlt].
      rewrite floor_kern; [|unfold scale_of; lia|exact Hv0|exact Hlt].
      f_equal. rewrite Hk, Hsc. unfold zfloor. symmetry. apply fofZ_mk.
      intros H0. pose proof (pow2_gt0 (- e) ltac:(lia)). destruct s; [lia|reflexivity].
    + rewrite (round_with_int f) by assumption. rewrite E.
      rewrite (scale_int e He) in *.
      destruct (Z_lt_le_dec (Z.abs (scaled s m e)) (2 ^ (p - 1 + 0))) as [Hlt|Hge].
      * rewrite ladder_small; [|exact Hf|lia|exact Hv0|exact Hlt].
        rewrite floor_kern; [|lia|exact Hv0|exact Hlt].
        change (2 ^ 0) with 1. rewrite Z.div_1_r. reflexivity.
      * apply ladder_large; [exact Hf|lia|exact Hv0|exact Hge].
Qed.
End Floor.
