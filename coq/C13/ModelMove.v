(* C13 — etl::wmemmove, the one function that got two code paths from this package's own fix: commit 7d6dc8f:
   detail::memmove_typed (_strings/cstr.hpp) decides the direction of the copy
     - in constant evaluation by scanning:  for (i = 1; i < n; ++i) if (pd == ps + i) backward = true;
       (equality comparisons only: a relational comparison of pointers into different arrays is not a constant
       expression),
     - at run time by  backward = ps < pd;
   and then runs the same backward / forward loop.  The loops and the run-time test are C18's model (mm_bwd, mm_fwd,
   memmove_m, memmove2_m); this file adds the constant-evaluation test.  Inside one array [m]: pd = m + d, ps = m + s. *)
From Tetl Require Import Lib.Base C18.Model.

(* the scan: is there an i in [1, n) with d = s + i *)
Fixpoint scan_hit (d s i k : nat) : bool :=   (* k = number of values of i still to try *)
  match k with
  | O => false
  | S k' => if (d =? s + i)%nat then true else scan_hit d s (S i) k'
  end.
Definition ct_backward (d s n : nat) : bool := scan_hit d s 1 (n - 1).

(* constant evaluation, both pointers into one array *)
Definition ct_memmove (m : list Z) (d s n : nat) : res (list Z) :=
  if ct_backward d s n then mm_bwd m d s n else mm_fwd m d s n.

(* constant evaluation, pointers into two different arrays: no comparison is ever true, the copy runs forward
   (C18's memmove2_m with below = false) *)
Definition ct_memmove2 (d s : list Z) (n : nat) : res (list Z) := memmove2_m false d s n.
