(* C13 — etl::fma when the product is exact: x * y + z (constant evaluation, two roundings) equals
   the fused operation (run time) whenever the exact product x*y is a value of the format -- the
   first rounding then changes nothing.  (Otherwise they differ: ProofsFma.fma_differs.)
   Main lemma: rounding depends on the value only, not on how it is split into significand and
   exponent (fround_scale). *)
From Tetl Require Import Lib.Base C13.Float C13.Model C13.Spec C13.ProofsKit.
From Coq Require Import ZifyBool.
Local Open Scope Z_scope.
Ltac Zify.zify_post_hook ::= Z.to_euclidean_division_equations.

Lemma eqb_mul_pos : forall t P, 0 < P -> (t * P =? 0) = (t =? 0).
Proof. intros t P HP. destruct (Z.eqb_spec t 0); destruct (Z.eqb_spec (t * P) 0); try reflexivity; nia. Qed.

Lemma ltb_mul_mono : forall a b P, 0 < P -> (a * P <? b * P) = (a <? b).
Proof. intros a b P HP. destruct (Z.ltb_spec a b); destruct (Z.ltb_spec (a * P) (b * P)); try reflexivity; nia. Qed.

Lemma ffinish_scale : forall f s M e j, 0 < M -> 0 <= j ->
  ffinish f s (M * 2 ^ j) (e - j) = ffinish f s M e.
Proof.
  intros f s M e j HM Hj. pose proof (pow2_gt0 j Hj) as Hp. unfold ffinish.
  replace (M * 2 ^ j <=? 0) with false by nia. replace (M <=? 0) with false by lia.
  rewrite digits_mul_pow2 by lia. replace (digits M + j + (e - j)) with (digits M + e) by lia.
  destruct (emax f <? digits M + e); [reflexivity|].
  destruct M as [|pm|pm]; try lia. cbn [fnorm].
  rewrite pnorm_shift by lia. replace (e - j + j) with e by lia. reflexivity.
Qed.

Lemma fround_scale : forall f s M e j, 0 < M -> 0 <= j ->
  fround f s (M * 2 ^ j) (e - j) = fround f s M e.
Proof.
  intros f s M e j HM Hj. pose proof (pow2_gt0 j Hj) as Hp. unfold fround.
  replace (M * 2 ^ j <=? 0) with false by nia. replace (M <=? 0) with false by lia.
  rewrite digits_mul_pow2 by lia.
  replace (digits M + j + (e - j) - prec f) with (digits M + e - prec f) by lia.
  set (E := Z.max (digits M + e - prec f) (emin f)). cbv zeta.
  destruct (E <=? e - j) eqn:C1.
  - replace (E <=? e) with true by lia. apply ffinish_scale; assumption.
  - destruct (E <=? e) eqn:C2.
    + (* the new split has to drop sh <= j zero bits *)
      set (sh := E - (e - j)). assert (Hsh : 0 < sh <= j) by lia.
      pose proof (pow2_gt0 sh ltac:(lia)) as Hps. pose proof (pow2_gt0 (sh - 1) ltac:(lia)) as Hph.
      assert (EM : M * 2 ^ j = (M * 2 ^ (j - sh)) * 2 ^ sh).
      { rewrite <- Z.mul_assoc, <- pow2_add by lia. f_equal. f_equal. lia. }
      assert (Eq : (M * 2 ^ j) / 2 ^ sh = M * 2 ^ (j - sh)) by (rewrite EM; apply Z.div_mul; lia).
      assert (Er : (M * 2 ^ j) mod 2 ^ sh = 0) by (rewrite EM; apply Z.mod_mul; lia).
      rewrite Eq, Er. replace (0 <? 2 ^ (sh - 1)) with true by lia.
      replace E with (e - (j - sh)) by lia. apply ffinish_scale; lia.
    + set (sh0 := E - e). assert (Hsh0 : 0 < sh0) by lia.
      replace (E - (e - j)) with (sh0 + j) by lia.
      pose proof (pow2_gt0 sh0 ltac:(lia)) as Hp0. pose proof (pow2_gt0 (sh0 - 1) ltac:(lia)) as Hph.
      assert (Eq : (M * 2 ^ j) / 2 ^ (sh0 + j) = M / 2 ^ sh0).
      { rewrite pow2_add by lia. apply Z.div_mul_cancel_r; lia. }
      assert (Er : (M * 2 ^ j) mod 2 ^ (sh0 + j) = (M mod 2 ^ sh0) * 2 ^ j).
      { rewrite pow2_add by lia. apply Z.mul_mod_distr_r; lia. }
      assert (Eh : 2 ^ (sh0 + j - 1) = 2 ^ (sh0 - 1) * 2 ^ j).
      { rewrite <- pow2_add by lia. f_equal. lia. }
      rewrite Eq, Er, Eh.
      rewrite !ltb_mul_mono by exact Hp.
      reflexivity.
Qed.

(* the exact product of two finite values is a value of the format *)
Definition product_exact (f : fmt) (x y : fval) : Prop :=
  match x, y with
  | FFin _ m1 e1, FFin _ m2 e2 => valid f (fnorm (FFin false (m1 * m2) (e1 + e2))) = true
  | _, _ => True
  end.

Lemma fmul_exact : forall f s1 m1 e1 s2 m2 e2,
  product_exact f (FFin s1 m1 e1) (FFin s2 m2 e2) ->
  exists m' e', pnorm (m1 * m2) (e1 + e2) = (m', e') /\
                fmul f (FFin s1 m1 e1) (FFin s2 m2 e2) = FFin (xorb s1 s2) m' e'.
Proof.
  intros f s1 m1 e1 s2 m2 e2 H. cbn [product_exact fnorm] in H.
  destruct (pnorm (m1 * m2) (e1 + e2)) as [m' e'] eqn:Hn. exists m', e'. split; [reflexivity|].
  cbn [valid] in H. rewrite !andb_true_iff, !Z.leb_le in H. destruct H as [[[_ Hd] Hmin] Hmax].
  cbn [fmul fsign]. change (Zpos m1 * Zpos m2) with (Zpos (m1 * m2)).
  apply fround_exact; try lia. exact Hn.
Qed.

Theorem fma_exact_product : forall f x y z, product_exact f x y -> ct_fma f x y z = rt_fma f x y z.
Proof.
  intros f x y z H. unfold ct_fma, rt_fma.
  destruct x as [s1|s1|s1|s1 m1 e1]; destruct y as [s2|s2|s2|s2 m2 e2];
    try (cbn [fmul ffma fsign]; reflexivity).
  destruct (fmul_exact f s1 m1 e1 s2 m2 e2 H) as (m' & e' & Hn & ->).
  pose proof (pnorm_spec _ _ _ _ Hn) as (Ho & Hle & Hv).
  cbn [ffma fsign]. set (s := xorb s1 s2).
  destruct z as [c|c|c|c m3 e3]; try reflexivity.
  - (* z = 0: the fused operation rounds the exact product, which is exact *)
    cbn [fadd]. symmetry. change (Zpos m1 * Zpos m2) with (Zpos (m1 * m2)).
    cbn [product_exact fnorm] in H. rewrite Hn in H. cbn [valid] in H.
    rewrite !andb_true_iff, !Z.leb_le in H. destruct H as [[[_ Hd] Hmin] Hmax].
    apply fround_exact; try lia. exact Hn.
  - cbn [fadd]. change (Zpos m1 * Zpos m2) with (Zpos (m1 * m2)). rewrite Hv.
    set (j := e' - (e1 + e2)) in *. assert (Hj : 0 <= j) by lia.
    pose proof (pow2_gt0 j Hj) as Hpj.
    (* the two sums differ by the factor 2^d, d = min e' e3 - min (e1+e2) e3 *)
    set (ea := Z.min e' e3). set (eb := Z.min (e1 + e2) e3).
    set (d := ea - eb). assert (Hd : 0 <= d) by lia.
    pose proof (pow2_gt0 d Hd) as Hpd.
    pose proof (pow2_gt0 (e' - ea) ltac:(lia)) as H1. pose proof (pow2_gt0 (e3 - ea) ltac:(lia)) as H3.
    assert (E1 : Zpos m' * 2 ^ j * 2 ^ (e1 + e2 - eb) = Zpos m' * 2 ^ (e' - ea) * 2 ^ d).
    { rewrite <- !Z.mul_assoc, <- !pow2_add by lia. f_equal. f_equal. lia. }
    assert (E3 : Zpos m3 * 2 ^ (e3 - eb) = Zpos m3 * 2 ^ (e3 - ea) * 2 ^ d).
    { rewrite <- !Z.mul_assoc, <- !pow2_add by lia. f_equal. f_equal. lia. }
    rewrite E1, E3.
    set (v1 := Zpos m' * 2 ^ (e' - ea)) in *. set (v3 := Zpos m3 * 2 ^ (e3 - ea)) in *.
    set (t := (if s then - v1 else v1) + (if c then - v3 else v3)).
    assert (ET : (if s then - (v1 * 2 ^ d) else v1 * 2 ^ d) + (if c then - (v3 * 2 ^ d) else v3 * 2 ^ d) = t * 2 ^ d).
    { unfold t. destruct s; destruct c; lia. }
    rewrite ET.
    destruct (t =? 0) eqn:Ht0.
    + rewrite eqb_mul_pos by exact Hpd. rewrite Ht0. reflexivity.
    + rewrite eqb_mul_pos by exact Hpd. rewrite Ht0.
      rewrite ltb_mul_pos by exact Hpd. rewrite abs_mul_pos by exact Hpd.
      replace eb with (ea - d) by lia. symmetry. apply fround_scale; lia.
Qed.

(* non-vacuity: 1.5 * 2.0 + 0.1 in binary64 has an exact product *)
Example product_exact_example :
  product_exact binary64 (decode binary64 4609434218613702656) (decode binary64 4611686018427387904).
Proof. vm_compute. reflexivity. Qed.
