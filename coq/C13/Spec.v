(* C13 — what the RUN-TIME side computes: the compiler builtins and libc functions, written down
   as their specification (C++20 [bit], [numeric.sat], C17 7.24 string functions, IEC 60559
   operations for signbit/copysign/isnan/isinf/floor/ceil/trunc/round/rint/lrint/fma).
   Nothing here looks at how etl computes anything. *)
From Tetl Require Import Lib.Base C13.Float.
Local Open Scope Z_scope.

(** * bit utilities *)
(* __builtin_popcount: the number of bit positions below w that are set *)
Definition rt_popcount (w x : Z) : Z :=
  Z.of_nat (length (filter (fun i => Z.testbit x i) (zrange_from 0 (Z.to_nat w)))).

(* __builtin_bswapN: byte k of the result is byte n-1-k of the argument *)
Definition byte_of (v k : Z) : Z := (v / 256 ^ k) mod 256.
Fixpoint of_bytes (l : list Z) : Z :=   (* little endian *)
  match l with [] => 0 | b :: t => b + 256 * of_bytes t end.
Definition bytes_of (n : nat) (v : Z) : list Z := map (byte_of v) (zrange_from 0 n).
Definition rt_byteswap (w v : Z) : Z := of_bytes (rev (bytes_of (Z.to_nat (w / 8)) v)).

(** * saturating addition: the exact sum, clamped to the range of the type *)
Definition rt_add_sat (t : ity) (x y : Z) : Z := Z.max (imin t) (Z.min (imax t) (x + y)).

(** * C strings.  A buffer is a list of bytes; the string it holds is what precedes the first null *)
Fixpoint cstr (buf : list Z) : option (list Z) :=
  match buf with
  | [] => None                         (* no terminator inside the array *)
  | c :: rest => if c =? 0 then Some [] else option_map (cons c) (cstr rest)
  end.

(* lexicographic three-way comparison of byte strings (as unsigned char): -1, 0, 1 *)
Fixpoint lex_cmp (a b : list Z) : Z :=
  match a, b with
  | [], [] => 0
  | [], _ :: _ => -1
  | _ :: _, [] => 1
  | x :: a', y :: b' => if x <? y then -1 else if y <? x then 1 else lex_cmp a' b'
  end.

Definition rt_strlen (buf : list Z) : option Z := option_map (fun s => Z.of_nat (length s)) (cstr buf).

Definition rt_strcmp (l r : list Z) : option Z :=
  match cstr l, cstr r with Some a, Some b => Some (lex_cmp a b) | _, _ => None end.

(* strncmp: at most n characters, characters after a null are not compared.  Defined when each
   array either holds a null among its first n characters or has at least n characters *)
Fixpoint cprefix (n : Z) (buf : list Z) : option (list Z) :=
  if n <=? 0 then Some []
  else match buf with
       | [] => None
       | c :: rest => if c =? 0 then Some [] else option_map (cons c) (cprefix (n - 1) rest)
       end.
Definition rt_strncmp (l r : list Z) (n : Z) : option Z :=
  match cprefix n l, cprefix n r with
  | Some a, Some b => Some (lex_cmp a b)
  | _, _ => None
  end.

(* first position of a byte in a list *)
Fixpoint index_of (c : Z) (l : list Z) (i : Z) : option Z :=
  match l with [] => None | a :: t => if a =? c then Some i else index_of c t (i + 1) end.

(* strchr: first occurrence of (char)ch in the string INCLUDING its terminator *)
Definition rt_strchr (buf : list Z) (ch : Z) : option (option Z) :=
  option_map (fun s => index_of (wrapu 8 ch) (s ++ [0]) 0) (cstr buf).

(* memchr: first occurrence of (unsigned char)ch among the first n bytes.  Defined when the match
   lies inside the array or the array has at least n bytes *)
Fixpoint take_z (n : Z) (l : list Z) : list Z :=   (* firstn with a Z count *)
  if n <=? 0 then [] else match l with [] => [] | a :: t => a :: take_z (n - 1) t end.
Definition rt_memchr (buf : list Z) (ch n : Z) : option (option Z) :=
  match index_of (wrapu 8 ch) (take_z n buf) 0 with
  | Some i => Some (Some i)
  | None => if n <=? Z.of_nat (length buf) then Some None else None
  end.

(** * IEC 60559 sign and classification *)
Definition rt_signbit (x : fval) : bool := fsign x.
Definition rt_copysign (x y : fval) : fval := with_sign (fsign y) x.
Definition rt_isnan (x : fval) : bool := is_nan x.
Definition rt_isinf (x : fval) : bool := is_inf x.

(** * IEC 60559 roundToIntegral operations.  An integer-valued result n is the floating point
    number n, a zero result takes the sign of the argument, NaN gives NaN, infinities and zeros
    are returned unchanged.  The argument (-1)^s * m * 2^e with e < 0 is the fraction
    N / 2^k, N = (-1)^s m, k = -e. *)
Definition fofZ (s : bool) (n : Z) : fval :=
  if n =? 0 then FZero s else fnorm (FFin (n <? 0) (Z.to_pos (Z.abs n)) 0).

Definition round_with (rnd : Z -> Z -> Z) (x : fval) : fval :=
  match x with
  | FNaN _ => qnan
  | FFin s m e =>
      if 0 <=? e then fnorm x
      else fofZ s (rnd (if s then Zneg m else Zpos m) (2 ^ (- e)))
  | _ => x
  end.

(* N / D rounded: down, up, toward zero, to nearest with ties away from zero, to nearest even *)
Definition zfloor (N D : Z) : Z := N / D.
Definition zceil (N D : Z) : Z := - ((- N) / D).
Definition ztrunc_q (N D : Z) : Z := Z.quot N D.
Definition zround_away (N D : Z) : Z := Z.sgn N * ((2 * Z.abs N + D) / (2 * D)).
Definition zround_even (N D : Z) : Z :=
  let q := Z.abs N / D in
  let r := Z.abs N mod D in
  Z.sgn N * (if 2 * r <? D then q else if D <? 2 * r then q + 1 else if Z.even q then q else q + 1).

Definition rt_floor := round_with zfloor.
Definition rt_ceil := round_with zceil.
Definition rt_trunc := round_with ztrunc_q.
Definition rt_round := round_with zround_away.
Definition rt_rint := round_with zround_even.   (* default rounding mode: to nearest, ties to even *)

(* lrint / llrint: defined when the rounded value fits the 64-bit result type *)
Definition rt_lrint (x : fval) : option Z :=
  match rt_rint x with
  | FZero _ => Some 0
  | FFin s m e => let n := (if s then Zneg m else Zpos m) * 2 ^ e in
                  if in_s 64 n then Some n else None
  | _ => None
  end.

(* fma: x*y+z rounded once *)
Definition rt_fma := ffma.

(** * fmod and remainder (C17 7.12.10, IEC 60559 remainder): x - n*y computed exactly, n = x/y
    truncated (fmod) or rounded to nearest, ties to even (remainder).  NaN when x is infinite or y
    is zero; x itself when y is infinite; a zero result has the sign of x. *)
Definition rem_parts (m1 : positive) (e1 : Z) (m2 : positive) (e2 : Z) : Z * Z * Z :=
  let e := Z.min e1 e2 in (Zpos m1 * 2 ^ (e1 - e), Zpos m2 * 2 ^ (e2 - e), e).

Definition rt_fmod (x y : fval) : fval :=
  match x, y with
  | FNaN _, _ | _, FNaN _ => qnan
  | FInf _, _ | _, FZero _ => qnan
  | _, FInf _ => x
  | FZero _, _ => x
  | FFin s m1 e1, FFin _ m2 e2 =>
      let '(a, b, e) := rem_parts m1 e1 m2 e2 in fmake s (a mod b) e
  end.

Definition rt_remainder (x y : fval) : fval :=
  match x, y with
  | FNaN _, _ | _, FNaN _ => qnan
  | FInf _, _ | _, FZero _ => qnan
  | _, FInf _ => x
  | FZero _, _ => x
  | FFin s m1 e1, FFin _ m2 e2 =>
      let '(a, b, e) := rem_parts m1 e1 m2 e2 in
      let q := a / b in
      let r := a mod b in
      if (b <? 2 * r) || ((2 * r =? b) && Z.odd q)
      then fmake (negb s) (b - r) e      (* x - (q+1) y: the other side of zero *)
      else fmake s r e
  end.
