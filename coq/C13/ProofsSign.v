(* C13 — sign and classification functions: fallback = builtin, by case analysis *)
From Tetl Require Import Lib.Base C13.Float C13.Model C13.Spec.
Local Open Scope Z_scope.
Ltac Zify.zify_post_hook ::= Z.to_euclidean_division_equations.

Lemma cmp_mag_refl : forall m e, cmp_mag m e m e = Eq.
Proof. intros m e. unfold cmp_mag. apply Z.compare_refl. Qed.

Lemma isnan_ct_eq_rt : forall x, ct_isnan x = rt_isnan x.
Proof.
  intros [s|s|s|s m e]; unfold ct_isnan, rt_isnan, fne, feq; cbn [fcompare is_nan]; try reflexivity.
  - destruct s; cbn; reflexivity.
  - destruct s; rewrite cmp_mag_refl; reflexivity.
Qed.
