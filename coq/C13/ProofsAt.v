(* C13 — detail::memchr over a range [p + off, p + off + n) that lies inside the array object, in particular a
   range that ends FLUSH WITH THE END of the array (off + n = length) and the empty range at the end (off = length,
   n = 0): the loop as written (count tested BEFORE the element is read) never reads outside the array, so the call
   is a constant expression and returns the first position of the character in the range, or the null pointer.
   A loop that reads ptr[i] before comparing i with the count (memchr_eager below) reads one past the end exactly
   on these ranges when the character is absent: undefined, hence not a constant expression, although the machine
   code returns the null pointer. *)
From Tetl Require Import Lib.Base C13.Float C13.Model C13.Spec C13.ProofsStr.
Local Open Scope Z_scope.
Ltac Zify.zify_post_hook ::= Z.to_euclidean_division_equations.

Lemma take_z_firstn : forall (n : nat) (l : list Z), take_z (Z.of_nat n) l = firstn n l.
Proof.
  induction n as [|n IH]; intros l.
  - destruct l; reflexivity.
  - destruct l as [|a t].
    + cbn [firstn]. unfold take_z. destruct (Z.of_nat (S n) <=? 0); reflexivity.
    + cbn [firstn]. cbn [take_z].
      destruct (Z.of_nat (S n) <=? 0) eqn:Hn; [apply Z.leb_le in Hn; lia|].
      f_equal. replace (Z.of_nat (S n) - 1) with (Z.of_nat n) by lia. apply IH.
Qed.

(* the range-at-offset call of the harness op memchr_at: the pointer is p + off, the model sees the rest of the array *)
Definition ct_memchr_at (buf : list Z) (off : nat) (ch : Z) (n : nat) : res (option Z) :=
  ct_memchr (skipn off buf) ch (Z.of_nat n).

Theorem memchr_at_ok : forall buf off n ch, (off + n <= length buf)%nat ->
  ct_memchr_at buf off ch n = Ok (index_of (wrapu 8 ch) (firstn n (skipn off buf)) 0).
Proof.
  intros buf off n ch Hle. unfold ct_memchr_at. apply memchr_ct_eq_rt.
  unfold rt_memchr. rewrite take_z_firstn.
  destruct (index_of (wrapu 8 ch) (firstn n (skipn off buf)) 0) as [i|]; [reflexivity|].
  destruct (Z.of_nat n <=? Z.of_nat (length (skipn off buf))) eqn:Hn; [reflexivity|].
  apply Z.leb_gt in Hn. rewrite skipn_length in Hn. lia.
Qed.

(* the range ends flush with the end of the array object, the character does not occur: null pointer, no read outside *)
Corollary memchr_flush_absent : forall buf off ch, (off <= length buf)%nat ->
  index_of (wrapu 8 ch) (skipn off buf) 0 = None ->
  ct_memchr_at buf off ch (length buf - off) = Ok None.
Proof.
  intros buf off ch Hle Habs. rewrite memchr_at_ok by lia.
  rewrite firstn_all2 by (rewrite skipn_length; lia). now rewrite Habs.
Qed.

(* the empty range at the end of the array *)
Corollary memchr_empty_at_end : forall buf ch, ct_memchr_at buf (length buf) ch 0 = Ok None.
Proof. intros buf ch. rewrite memchr_at_ok by lia. reflexivity. Qed.

(** a loop that reads the element before it tests the count:
    [while (ptr[i] != ch and i != n) ++i;  return i != n ? ptr + i : nullptr] *)
Fixpoint memchr_eager_loop (buf : list Z) (c : Z) (i : Z) (left : Z) : res (option Z) :=
  match buf with
  | [] => UB OutOfBounds
  | a :: rest =>
      if negb (a =? c) && negb (left =? 0) then memchr_eager_loop rest c (i + 1) (left - 1)
      else Ok (if left =? 0 then None else Some i)
  end.
Definition memchr_eager (buf : list Z) (ch n : Z) : res (option Z) := memchr_eager_loop buf (wrapu 8 ch) 0 n.

(* on a flush range without the character it always leaves the array (for every content and length) *)
Lemma memchr_eager_loop_flush : forall buf c i,
  index_of c buf i = None -> memchr_eager_loop buf c i (Z.of_nat (length buf)) = UB OutOfBounds.
Proof.
  induction buf as [|a rest IH]; intros c i Habs; [reflexivity|].
  cbn [memchr_eager_loop length]. cbn [index_of] in Habs.
  destruct (a =? c) eqn:Hac; [discriminate|].
  destruct (Z.of_nat (S (length rest)) =? 0) eqn:Hz; [apply Z.eqb_eq in Hz; lia|].
  cbn [negb andb]. replace (Z.of_nat (S (length rest)) - 1) with (Z.of_nat (length rest)) by lia.
  apply IH; exact Habs.
Qed.
Theorem memchr_eager_flush_ub : forall buf ch,
  index_of (wrapu 8 ch) buf 0 = None -> memchr_eager buf ch (Z.of_nat (length buf)) = UB OutOfBounds.
Proof. intros buf ch H. unfold memchr_eager. now apply memchr_eager_loop_flush. Qed.
