(* C10: the recorded known finding as a theorem — on these inputs the faithful model of the code
   and the specification differ (witnesses evaluated by the kernel). *)
From Tetl Require Import Lib.Base C10.Model C10.Spec.
Local Open Scope Z_scope.

(* KF-C10-from_chars-overflow-ptr: "99999x" into int8 *)
Lemma from_chars_overflow_ptr_witness :
  from_chars_m i8 [57; 57; 57; 57; 57; 120] 10 7 = Ok (FcRange, 0%nat, 7)
  /\ from_chars_spec i8 10 [57; 57; 57; 57; 57; 120] = (PRange, 5%nat, None).
Proof. vm_compute. split; reflexivity. Qed.

(** * the statements used in Properties.v *)
Lemma from_chars_overflow_ptr_refuted : exists t s b v0 r,
  8 <= bits t /\ 2 <= b <= 36 /\ from_chars_m t s b v0 = Ok (FcRange, 0%nat, v0)
  /\ from_chars_spec t b s = (PRange, r, None) /\ r <> 0%nat.
Proof.
  exists i8, [57; 57; 57; 57; 57; 120], 10, 7, 5%nat.
  destruct from_chars_overflow_ptr_witness as [H1 H2].
  split; [cbn; lia|]. split; [lia|]. split; [exact H1|]. split; [exact H2|discriminate].
Qed.
