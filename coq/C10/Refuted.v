(* C10: the recorded known findings as theorems — on these inputs the faithful model of the code
   and the specification differ (witnesses evaluated by the kernel). *)
From Tetl Require Import Lib.Base C10.Model C10.Spec C10.ProofsStrto.
Local Open Scope Z_scope.

Definition nines (n : nat) : list Z := repeat 57 n.

(* KF-C10-from_chars-overflow-ptr: "99999x" into int8 *)
Lemma from_chars_overflow_ptr_witness :
  from_chars_m i8 [57; 57; 57; 57; 57; 120] 10 7 = Ok (FcRange, 0%nat, 7)
  /\ from_chars_spec i8 10 [57; 57; 57; 57; 57; 120] = (PRange, 5%nat, None).
Proof. vm_compute. split; reflexivity. Qed.

(* KF-C10-strto-base0-ub: strtol("12", &e, 0) *)
Lemma strto_base0_witness :
  strto_m i64 [49; 50] 0 = UB DivByZero /\ strto_spec i64 0 [49; 50] = (12, 2%nat)
  /\ strto_region i64 0 [49; 50] = true.
Proof. vm_compute. repeat split; reflexivity. Qed.

(* KF-C10-strto-hex-prefix: strtol("0x1A", &e, 16) *)
Lemma strto_hex_prefix_witness :
  strto_m i64 [48; 120; 49; 65] 16 = Ok (0, 1%nat) /\ strto_spec i64 16 [48; 120; 49; 65] = (26, 4%nat)
  /\ strto_region i64 16 [48; 120; 49; 65] = true.
Proof. vm_compute. repeat split; reflexivity. Qed.

(* KF-C10-strto-no-saturation: strtol("99999999999999999999", &e, 10) *)
Lemma strto_no_saturation_witness :
  strto_m i64 (nines 20) 10 = Ok (0, 0%nat) /\ strto_spec i64 10 (nines 20) = (imax i64, 20%nat)
  /\ strto_region i64 10 (nines 20) = true.
Proof. vm_compute. repeat split; reflexivity. Qed.

(* KF-C10-strtou-minus: strtoul("-1", &e, 10) *)
Lemma strtou_minus_witness :
  strto_m u64 [45; 49] 10 = Ok (0, 0%nat) /\ strto_spec u64 10 [45; 49] = (imax u64, 2%nat)
  /\ strto_region u64 10 [45; 49] = true /\ sto_region u64 10 [45; 49] = true.
Proof. vm_compute. repeat split; reflexivity. Qed.

(** * the statements used in Properties.v *)
Lemma from_chars_overflow_ptr_refuted : exists t s b v0 r,
  8 <= bits t /\ 2 <= b <= 36 /\ from_chars_m t s b v0 = Ok (FcRange, 0%nat, v0)
  /\ from_chars_spec t b s = (PRange, r, None) /\ r <> 0%nat.
Proof.
  exists i8, [57; 57; 57; 57; 57; 120], 10, 7, 5%nat.
  destruct from_chars_overflow_ptr_witness as [H1 H2].
  split; [cbn; lia|]. split; [lia|]. split; [exact H1|]. split; [exact H2|discriminate].
Qed.

Lemma strto_base0_refuted : exists t s,
  strto_m t s 0 = UB DivByZero /\ strto_spec t 0 s = (12, 2%nat) /\ strto_region t 0 s = true.
Proof. exists i64, [49; 50]. exact strto_base0_witness. Qed.

Lemma strto_hex_prefix_refuted : exists t s r,
  strto_m t s 16 = Ok r /\ strto_spec t 16 s <> r /\ strto_region t 16 s = true.
Proof.
  exists i64, [48; 120; 49; 65], (0, 1%nat). destruct strto_hex_prefix_witness as (H1 & H2 & H3).
  split; [exact H1|]. split; [rewrite H2; discriminate|exact H3].
Qed.

Lemma strto_no_saturation_refuted : exists t s r,
  strto_m t s 10 = Ok r /\ strto_spec t 10 s <> r /\ strto_region t 10 s = true.
Proof.
  exists i64, (nines 20), (0, 0%nat). destruct strto_no_saturation_witness as (H1 & H2 & H3).
  split; [exact H1|]. split; [rewrite H2; discriminate|exact H3].
Qed.

Lemma strtou_minus_refuted : exists t s r,
  sgn t = false /\ strto_m t s 10 = Ok r /\ strto_spec t 10 s <> r /\ strto_region t 10 s = true.
Proof.
  exists u64, [45; 49], (0, 0%nat). destruct strtou_minus_witness as (H1 & H2 & H3 & _).
  split; [reflexivity|]. split; [exact H1|]. split; [rewrite H2; discriminate|exact H3].
Qed.
