(* C10 proofs: to_integer with check_overflow = false (nop_overflow_checker).  Whenever the checked
   conversion succeeds, the unchecked one returns the same end, error and value (for every type,
   option pair, base and text); for unsigned types it never has undefined behaviour and computes the
   value of the digit run modulo 2^bits. *)
From Tetl Require Import Lib.Base C10.Model C10.Spec C10.Arith C10.Digits C10.ProofsParse.
From Coq Require Import ZifyBool.
Local Open Scope Z_scope.
Ltac Zify.zify_post_hook ::= Z.to_euclidean_division_equations.

(* a checked loop that ends without the overflow flag took exactly the unchecked steps *)
Lemma ti_loop_nc_of_ti_loop t ck base : forall s pos v p v',
  ti_loop t ck base s pos v = Ok (p, v', false) -> ti_loop_nc t base s pos v = Ok (p, v').
Proof.
  induction s as [|c r IH]; intros pos v p v' H; cbn [ti_loop ti_loop_nc] in *.
  - inversion H; subst. reflexivity.
  - destruct (parse_digit_m t c >=? base); [inversion H; subst; reflexivity|].
    destruct (would_overflow_m t ck v (parse_digit_m t c)); [discriminate|].
    destruct (accumulate_m t base v (parse_digit_m t c)) as [v1| | |]; cbn [rbind] in *; try discriminate.
    apply IH. exact H.
Qed.

Lemma head_agree t skipws plus s base loop1 loop2 n v :
  (forall r p x p' x', loop1 r p x = Ok (p', x', false) -> loop2 r p x = Ok (p', x', false)) ->
  to_integer_head t skipws plus s base loop1 = Ok (n, TiNone, v) ->
  to_integer_head t skipws plus s base loop2 = Ok (n, TiNone, v).
Proof.
  intros Hl. unfold to_integer_head, ti_error.
  destruct (if skipws then skip_ws_m s 0 else (s, 0%nat)) as [s1 p1].
  destruct s1 as [|c1 r1]; [discriminate|].
  destruct (if sgn t && (c1 =? 45) then (false, r1, S p1) else (true, c1 :: r1, p1)) as [[positive s2] p2].
  destruct s2 as [|c2 r2]; [discriminate|].
  destruct (if plus && positive && (c2 =? 43) then (r2, S p2) else (c2 :: r2, p2)) as [s3 p3].
  destruct s3 as [|c3 r3]; [discriminate|].
  cbv zeta.
  destruct (if sgn t then rbind (parith t (- parse_digit_m t c3)) (fun x => Ok (cast t x)) else Ok (parse_digit_m t c3))
    as [value0| | |]; cbn [rbind]; try discriminate.
  destruct (abs_m t value0) as [a| | |]; cbn [rbind]; try discriminate.
  destruct (cast t a >=? base); [discriminate|].
  destruct (loop1 r3 (S p3) value0) as [[[p' x'] [|]]| | |] eqn:E1; cbn [rbind]; try discriminate.
  rewrite (Hl _ _ _ _ _ E1). cbn [rbind]. exact (fun H => H).
Qed.

Theorem to_integer_nc_agree t skipws plus s base n v : 8 <= bits t -> 2 <= base <= 36 ->
  gparse t skipws plus s base = (n, TiNone, v) ->
  to_integer_nc_m t skipws plus s base = Ok (n, TiNone, v).
Proof.
  intros Hbits Hb Hg.
  pose proof (to_integer_spec t skipws plus s base Hbits Hb) as Hc. rewrite Hg in Hc.
  unfold to_integer_m in Hc. rewrite (checker_ok t base Hbits Hb) in Hc. cbn [rbind] in Hc.
  unfold to_integer_nc_m.
  apply (head_agree t skipws plus s base (ti_loop t (ck_of t base) base)); [|exact Hc].
  intros r p x p' x' H. rewrite (ti_loop_nc_of_ti_loop t _ base r p x p' x' H). reflexivity.
Qed.

(** * unsigned types: total, and the value is the digit run modulo 2^bits *)
Definition cxx_width (w : Z) : Prop := 8 <= w <= 16 \/ 32 <= w.

Lemma accumulate_nc_val ut base A d : sgn ut = false -> cxx_width (bits ut) -> 2 <= base <= 36 ->
  0 <= A -> 0 <= d < base ->
  accumulate_m ut base (A mod 2 ^ bits ut) d = Ok ((A * base + d) mod 2 ^ bits ut).
Proof.
  intros Hs Hw Hb HA Hd. unfold accumulate_m, parith, promote.
  assert (HM : 0 < 2 ^ bits ut) by (apply pow2_pos; destruct Hw; lia).
  set (M := 2 ^ bits ut) in *.
  assert (Hmod : ((A mod M) * base + d) mod M = (A * base + d) mod M).
  { rewrite <- Zplus_mod_idemp_l. rewrite Zmult_mod_idemp_l. rewrite Zplus_mod_idemp_l. reflexivity. }
  pose proof (Z.mod_pos_bound A M HM) as Hv.
  destruct Hw as [Hw|Hw].
  - replace (bits ut <? 32) with true by lia. cbn [sgn i32].
    pose proof (pow2_mono (bits ut) 16 ltac:(lia)) as Hm. change (2 ^ 16) with 65536 in Hm. fold M in Hm.
    assert (H1 : in_ty i32 (A mod M * base) = true).
    { apply in_ty_iff. change (imin i32) with (-2147483648). change (imax i32) with 2147483647. nia. }
    rewrite H1. cbn [rbind]. rewrite Hs.
    assert (H2 : in_ty i32 (A mod M * base + d) = true).
    { apply in_ty_iff. change (imin i32) with (-2147483648). change (imax i32) with 2147483647. nia. }
    rewrite H2. cbn [rbind]. unfold cast, wrap_ty, wrapu. rewrite Hs. fold M. rewrite Hmod. reflexivity.
  - replace (bits ut <? 32) with false by lia. rewrite Hs. cbn [rbind].
    unfold cast, wrap_ty, wrapu. rewrite Hs. fold M.
    rewrite Z.mod_mod by lia. rewrite Zplus_mod_idemp_l. rewrite Hmod. reflexivity.
Qed.

Lemma ti_loop_nc_val ut base : sgn ut = false -> cxx_width (bits ut) -> 2 <= base <= 36 ->
  forall s pos A, 0 <= A ->
    ti_loop_nc ut base s pos (A mod 2 ^ bits ut) =
      Ok ((pos + length (take_digits base s))%nat, eval_digits base A (take_digits base s) mod 2 ^ bits ut).
Proof.
  intros Hs Hw Hb. assert (Hbits : 8 <= bits ut) by (destruct Hw; lia).
  pose proof (imin_imax ut Hbits) as Hi.
  induction s as [|c r IH]; intros pos A HA; cbn [ti_loop_nc take_digits length eval_digits].
  - f_equal. f_equal. lia.
  - destruct (char_digit c) as [d|] eqn:Ec.
    + pose proof (char_digit_range c d Ec) as Hd.
      rewrite (parse_digit_valid ut c d Hbits Ec).
      destruct (d <? base) eqn:Elt.
      * replace (d >=? base) with false by lia.
        rewrite (accumulate_nc_val ut base A d Hs Hw Hb HA ltac:(lia)). cbn [rbind].
        rewrite (IH (S pos) (A * base + d) ltac:(nia)). cbn [length eval_digits]. f_equal. f_equal. lia.
      * replace (d >=? base) with true by lia. cbn [length eval_digits]. f_equal. f_equal. lia.
    + rewrite (parse_digit_invalid ut c Ec). replace (imax ut >=? base) with true by lia.
      cbn [length eval_digits]. f_equal. f_equal. lia.
Qed.

(* what the unchecked conversion computes for an unsigned type *)
Definition nc_unsigned_spec (t : ity) (skipws plus : bool) (s : list Z) (base : Z) : ti_out :=
  let s1 := if skipws then drop_space s else s in
  let s3 := match s1 with c :: r => if plus && (c =? 43) then r else s1 | [] => s1 end in
  let ds := take_digits base s3 in
  match ds with
  | [] => (0%nat, TiInvalid, 0)
  | _ => ((length s - length s3 + length ds)%nat, TiNone, eval base ds mod 2 ^ bits t)
  end.

Theorem to_integer_nc_unsigned t skipws plus s base :
  sgn t = false -> cxx_width (bits t) -> 2 <= base <= 36 ->
  to_integer_nc_m t skipws plus s base = Ok (nc_unsigned_spec t skipws plus s base).
Proof.
  intros Hs Hw Hb. assert (Hbits : 8 <= bits t) by (destruct Hw; lia).
  unfold to_integer_nc_m, to_integer_head, nc_unsigned_spec.
  set (s1 := if skipws then drop_space s else s).
  assert (Hws : (if skipws then skip_ws_m s 0 else (s, 0%nat)) = (s1, (length s - length s1)%nat)).
  { subst s1. destruct skipws; [rewrite skip_ws_m_spec; reflexivity|f_equal; lia]. }
  rewrite Hws. clear Hws.
  assert (Hlen1 : (length s1 <= length s)%nat).
  { subst s1. destruct skipws; [apply drop_space_length|lia]. }
  clearbody s1. rewrite Hs. cbn [andb]. cbv beta iota zeta.
  destruct s1 as [|c1 r1]; [reflexivity|].
  (* from the first digit c :: r on, p characters before it *)
  assert (Hdig : forall c r p,
    rbind (Ok (parse_digit_m t c)) (fun value0 =>
    rbind (abs_m t value0) (fun a =>
    if cast t a >=? base then ti_error TiInvalid
    else rbind (rbind (ti_loop_nc t base r (S p) value0) (fun lr => Ok (fst lr, snd lr, false))) (fun lr =>
         match lr with
         | (_, _, true) => ti_error TiOverflow
         | (pos, value, false) => Ok (pos, TiNone, value)
         end)))
    = Ok (match take_digits base (c :: r) with
          | [] => (0%nat, TiInvalid, 0)
          | ds => ((p + length ds)%nat, TiNone, eval base ds mod 2 ^ bits t)
          end)).
  { intros c r p. cbn [rbind take_digits].
    pose proof (imin_imax t Hbits) as Hi.
    destruct (char_digit c) as [d|] eqn:Ec.
    - pose proof (char_digit_range c d Ec) as Hd.
      rewrite (parse_digit_valid t c d Hbits Ec).
      rewrite (abs_ok t d Hbits ltac:(lia)). cbn [rbind]. rewrite Z.abs_eq by lia.
      rewrite (cast_id t d Hbits) by (apply in_ty_small; lia).
      destruct (d <? base) eqn:Elt.
      + replace (d >=? base) with false by lia.
        assert (Hd2 : d = d mod 2 ^ bits t).
        { pose proof (pow2_mono 8 (bits t) ltac:(lia)) as Hm. change (2 ^ 8) with 256 in Hm.
          rewrite Z.mod_small; lia. }
        rewrite Hd2 at 1. rewrite (ti_loop_nc_val t base Hs Hw Hb r (S p) d ltac:(lia)).
        cbn [rbind fst snd length]. unfold eval. cbn [eval_digits]. f_equal. f_equal. f_equal. lia.
      + replace (d >=? base) with true by lia. reflexivity.
    - rewrite (parse_digit_invalid t c Ec).
      rewrite (abs_ok_gen t (imax t) Hbits) by (try apply in_ty_iff; lia). cbn [rbind].
      rewrite Z.abs_eq by lia. rewrite (cast_id t (imax t) Hbits) by (apply in_ty_iff; lia).
      replace (imax t >=? base) with true by lia. reflexivity. }
  destruct (plus && true && (c1 =? 43)) eqn:Eplus.
  - replace (plus && (c1 =? 43)) with true by (rewrite Bool.andb_true_r in Eplus; symmetry; exact Eplus).
    destruct r1 as [|c3 r3]; [reflexivity|].
    replace (S (length s - length (c1 :: c3 :: r3)))%nat with (length s - length (c3 :: r3))%nat
      by (cbn [length] in *; lia).
    rewrite Hdig. destruct (take_digits base (c3 :: r3)); reflexivity.
  - replace (plus && (c1 =? 43)) with false by (rewrite Bool.andb_true_r in Eplus; symmetry; exact Eplus).
    rewrite Hdig. destruct (take_digits base (c1 :: r1)); reflexivity.
Qed.
