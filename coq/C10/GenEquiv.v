(* C10, translator tie: the character classification functions that to_integer's parseDigit lambda and
   detail::strto_integer call (etl::isspace, isdigit, isalpha, tolower, isxdigit) are REGENERATED on every run
   from /repo's current include/etl/_cctype/*.hpp by translate/cxx2gallina.py (coq/Gen/Gen_cctype.v: clang's
   typed AST, every implicit conversion copied from it).  They are equal, for ALL int arguments, to the
   hand-written definitions of C10.Model that the property theorems are about.  A semantic edit of one of
   these C++ functions changes the generated term and breaks these proofs (./check then reports the broken
   obligation and the differential run looks for a failing input). *)
From Tetl Require Import Lib.Base C10.Model.
From Tetl Require Gen.Gen_cctype.
From Coq Require Import ZifyBool.
Local Open Scope Z_scope.

Module C := Gen_cctype.

Definition b2i (b : bool) : Z := if b then 1 else 0.

Ltac cls G M :=
  intros c; unfold G, M, b2i; cbv zeta; f_equal;
  repeat match goal with |- context [if ?b then _ else _] => destruct b eqn:? end; lia.

Theorem gen_isspace_eq : forall c, C.isspace_g c = Some (b2i (isspace_m c)).
Proof. cls C.isspace_g isspace_m. Qed.

Theorem gen_isdigit_eq : forall c, C.isdigit_g c = Some (b2i (isdigit_m c)).
Proof. cls C.isdigit_g isdigit_m. Qed.

Theorem gen_isupper_eq : forall c, C.isupper_g c = Some (b2i (isupper_m c)).
Proof. cls C.isupper_g isupper_m. Qed.

Theorem gen_isalpha_eq : forall c, C.isalpha_g c = Some (b2i (isalpha_m c)).
Proof. intros c; unfold C.isalpha_g, isalpha_m, isupper_m, b2i; cbv zeta; f_equal;
  repeat match goal with |- context [if ?b then _ else _] => destruct b eqn:? end; lia. Qed.

Theorem gen_isxdigit_eq : forall c, C.isxdigit_g c = Some (b2i (isxdigit_m c)).
Proof. cls C.isxdigit_g isxdigit_m. Qed.

(* tolower: the addition ch + 32 happens in int; it is only executed for 'A'..'Z', where it cannot overflow *)
Theorem gen_tolower_eq : forall c, C.tolower_g c = Some (tolower_m c).
Proof.
  intros c. unfold C.tolower_g, tolower_m. rewrite gen_isupper_eq. cbn [obind].
  unfold b2i. destruct (isupper_m c) eqn:E; cbn [Z.eqb negb]; [|reflexivity].
  unfold isupper_m in E. unfold chk.
  replace (in_ty i32 (c + 32)) with true; [reflexivity|].
  symmetry. unfold in_ty. change (imin i32) with (-2147483648). change (imax i32) with 2147483647. lia.
Qed.

(** * the overflow checkers' call operators (coq/Gen/Gen_strconv.v, regenerated from
      include/etl/_strings/to_integer.hpp for the eight instantiations signed/unsigned char .. long):
      given the two members computed by the constructor, [would_overflow_m] is the regenerated term *)
From Tetl Require Gen.Gen_strconv.
Module S := Gen_strconv.

Theorem gen_signed_checker_eq : forall t q r value digit, sgn t = true ->
  S.sck_i8_g value digit q r = Some (would_overflow_m t (q, r) value digit)
  /\ S.sck_i16_g value digit q r = Some (would_overflow_m t (q, r) value digit)
  /\ S.sck_i32_g value digit q r = Some (would_overflow_m t (q, r) value digit)
  /\ S.sck_i64_g value digit q r = Some (would_overflow_m t (q, r) value digit).
Proof.
  intros t q r value digit Hs.
  unfold S.sck_i8_g, S.sck_i16_g, S.sck_i32_g, S.sck_i64_g, would_overflow_m. rewrite Hs. cbn [fst snd].
  (* reflexivity when the regenerated term is literally the model's; otherwise decided semantically (an
     equivalent rewrite of the comparison in the C++ source must not break the tie) *)
  repeat split; first [reflexivity | f_equal; lia].
Qed.

Theorem gen_unsigned_checker_eq : forall t q r value digit, sgn t = false ->
  S.uck_u8_g value digit q r = Some (would_overflow_m t (q, r) value digit)
  /\ S.uck_u16_g value digit q r = Some (would_overflow_m t (q, r) value digit)
  /\ S.uck_u32_g value digit q r = Some (would_overflow_m t (q, r) value digit)
  /\ S.uck_u64_g value digit q r = Some (would_overflow_m t (q, r) value digit).
Proof.
  intros t q r value digit Hs.
  unfold S.uck_u8_g, S.uck_u16_g, S.uck_u32_g, S.uck_u64_g, would_overflow_m. rewrite Hs. cbn [fst snd].
  (* reflexivity when the regenerated term is literally the model's; otherwise decided semantically (an
     equivalent rewrite of the comparison in the C++ source must not break the tie) *)
  repeat split; first [reflexivity | f_equal; lia].
Qed.
