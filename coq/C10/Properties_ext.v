(* C10 — property theorems added by the review round (kept in a file of their own so that
   C10/Properties.v, which coq/C02 requires, stays untouched).  Same conventions as Properties.v. *)
From Tetl Require Import Lib.Base C10.Model C10.Spec C10.ProofsParse C10.ProofsIdiv C10.ProofsNcS.
Local Open Scope Z_scope.

(** ** etl::idiv (include/etl/_math/idiv.hpp) for ALL operands of the type (from_integer only ever
       passes the divisors 2..36): truncating quotient and remainder of the mathematical integers
       whenever the quotient is representable; the only unrepresentable quotient of two values of
       the type is min / -1, which wraps to (min, 0) below int (division in int, modular conversion
       back) and is signed overflow from int on; x / 0 is undefined behaviour. *)
Theorem C10_idiv_correct : forall t x y, 8 <= bits t -> in_ty t x = true -> in_ty t y = true ->
  (y <> 0 -> in_ty t (Z.quot x y) = true ->
     idiv_m t x y = Ok (Z.quot x y, Z.rem x y)
     /\ x = Z.quot x y * y + Z.rem x y /\ Z.abs (Z.rem x y) < Z.abs y /\ 0 <= Z.rem x y * x)
  /\ (y <> 0 -> in_ty t (Z.quot x y) = false ->
     sgn t = true /\ x = imin t /\ y = -1
     /\ idiv_m t x y = if bits t <? 32 then Ok (imin t, 0) else UB SignedOverflow)
  /\ idiv_m t x 0 = UB DivByZero.
Proof.
  intros t x y Hbits Hx Hy. split; [|split].
  - intros Hy0 Hq. split; [exact (idiv_exact t x y Hbits Hx Hy Hy0 Hq)|].
    split; [rewrite Z.mul_comm; exact (Z.quot_rem' x y)|].
    split; [exact (Z.rem_bound_abs x y Hy0)|]. exact (Z.rem_sign_mul x y Hy0).
  - intros Hy0 Hq. destruct (idiv_unrepresentable t x y Hbits Hx Hy Hy0 Hq) as [S [Ex Ey]].
    split; [exact S|]. split; [exact Ex|]. split; [exact Ey|]. subst x y. exact (idiv_min_minus_one t Hbits S).
  - exact (idiv_by_zero t x).
Qed.
Print Assumptions C10_idiv_correct.

(** ** the overflow checkers as CONSTRUCTED by the code: C10_overflow_checker_exact (Properties.v) is
       stated about [ck_of]; this is the missing link — the constructor of signed_/unsigned_overflow_checker
       computes exactly that pair (no division by zero, no overflow in the constructor for any type of at
       least 8 bits and base 2..36), so the checker object used by to_integer fires iff the next
       accumulation step leaves the type. *)
Theorem C10_overflow_checker_constructed : forall t base, 8 <= bits t -> 2 <= base <= 36 ->
  exists ck, checker_m t base = Ok ck
    /\ forall A d, 0 <= A -> 0 <= d < base -> would_overflow_m t ck (sig t A) d = (A * base + d >? lim t).
Proof.
  intros t base Hbits Hb. exists (ck_of t base). split; [exact (checker_ok t base Hbits Hb)|].
  intros A d HA Hd. exact (would_overflow_spec t base A d Hbits Hb HA Hd).
Qed.
Print Assumptions C10_overflow_checker_constructed.

(** ** to_integer with check_overflow = false on the signed types narrower than int (signed char, short;
       [narrow_signed]: signed, 8..16 bits): for EVERY character sequence the call has no undefined
       behaviour (the accumulation happens in int and is converted back modulo 2^bits) and returns the
       negated digit run wrapped into the type — as it is after a minus sign, negated otherwise, except
       that the code's final "value == min" test reports overflow when the wrapped value is min.  With
       C10_to_integer_unchecked (unsigned types; every type where the checked conversion succeeds) the
       only texts left without a theorem are the too long ones for int and wider signed types, where the
       C++ code has genuine signed overflow (modelled as UB, observed through the sanitizer trap). *)
Theorem C10_to_integer_unchecked_signed_narrow : forall t skipws plus s base,
  narrow_signed t -> 2 <= base <= 36 ->
  to_integer_nc_m t skipws plus s base = Ok (nc_signed_narrow_spec t skipws plus s base).
Proof. exact to_integer_nc_signed_narrow. Qed.
Print Assumptions C10_to_integer_unchecked_signed_narrow.

(* non-vacuity of the review round's theorems: concrete instances *)
Example C10_ext_nonvacuous :
  narrow_signed i8 /\ narrow_signed i16
  /\ idiv_m i32 (-7) 2 = Ok (-3, -1) /\ idiv_m i32 7 (-2) = Ok (-3, 1)
  /\ idiv_m i8 (-128) (-1) = Ok (-128, 0) /\ idiv_m i64 (imin i64) (-1) = UB SignedOverflow
  /\ in_ty i8 (Z.quot (-128) (-1)) = false
  (* to_integer<signed char, unchecked>("300") = 44, ("128") reports overflow (wrapped value is min), ("-200") = 56 *)
  /\ to_integer_nc_m i8 false false [51; 48; 48] 10 = Ok (3%nat, TiNone, 44)
  /\ to_integer_nc_m i8 false false [49; 50; 56] 10 = Ok (0%nat, TiOverflow, 0)
  /\ to_integer_nc_m i8 false false [45; 50; 48; 48] 10 = Ok (4%nat, TiNone, 56)
  /\ checker_m i8 10 = Ok (-12, 8) /\ checker_m u8 10 = Ok (25, 5).
Proof. unfold narrow_signed. vm_compute. repeat split; congruence. Qed.
