(* C10 — property theorems added by the review round (kept in a file of their own so that
   C10/Properties.v, which coq/C02 requires, stays untouched).  Same conventions as Properties.v. *)
From Tetl Require Import Lib.Base C10.Model C10.Spec C10.ProofsParse C10.ProofsIdiv.
Local Open Scope Z_scope.

(** ** etl::idiv (include/etl/_math/idiv.hpp) for ALL operands of the type (from_integer only ever
       passes the divisors 2..36): truncating quotient and remainder of the mathematical integers
       whenever the quotient is representable; the only unrepresentable quotient of two values of
       the type is min / -1, which wraps to (min, 0) below int (division in int, modular conversion
       back) and is signed overflow from int on; x / 0 is undefined behaviour. *)
Theorem C10_idiv_correct : forall t x y, 8 <= bits t -> in_ty t x = true -> in_ty t y = true ->
  (y <> 0 -> in_ty t (Z.quot x y) = true ->
     idiv_m t x y = Ok (Z.quot x y, Z.rem x y)
     /\ x = Z.quot x y * y + Z.rem x y /\ Z.abs (Z.rem x y) < Z.abs y /\ 0 <= Z.rem x y * x)
  /\ (y <> 0 -> in_ty t (Z.quot x y) = false ->
     sgn t = true /\ x = imin t /\ y = -1
     /\ idiv_m t x y = if bits t <? 32 then Ok (imin t, 0) else UB SignedOverflow)
  /\ idiv_m t x 0 = UB DivByZero.
Proof.
  intros t x y Hbits Hx Hy. split; [|split].
  - intros Hy0 Hq. split; [exact (idiv_exact t x y Hbits Hx Hy Hy0 Hq)|].
    split; [rewrite Z.mul_comm; exact (Z.quot_rem' x y)|].
    split; [exact (Z.rem_bound_abs x y Hy0)|]. exact (Z.rem_sign_mul x y Hy0).
  - intros Hy0 Hq. destruct (idiv_unrepresentable t x y Hbits Hx Hy Hy0 Hq) as [S [Ex Ey]].
    split; [exact S|]. split; [exact Ex|]. split; [exact Ey|]. subst x y. exact (idiv_min_minus_one t Hbits S).
  - exact (idiv_by_zero t x).
Qed.
Print Assumptions C10_idiv_correct.

(** ** the overflow checkers as CONSTRUCTED by the code: C10_overflow_checker_exact (Properties.v) is
       stated about [ck_of]; this is the missing link — the constructor of signed_/unsigned_overflow_checker
       computes exactly that pair (no division by zero, no overflow in the constructor for any type of at
       least 8 bits and base 2..36), so the checker object used by to_integer fires iff the next
       accumulation step leaves the type. *)
Theorem C10_overflow_checker_constructed : forall t base, 8 <= bits t -> 2 <= base <= 36 ->
  exists ck, checker_m t base = Ok ck
    /\ forall A d, 0 <= A -> 0 <= d < base -> would_overflow_m t ck (sig t A) d = (A * base + d >? lim t).
Proof.
  intros t base Hbits Hb. exists (ck_of t base). split; [exact (checker_ok t base Hbits Hb)|].
  intros A d HA Hd. exact (would_overflow_spec t base A d Hbits Hb HA Hd).
Qed.
Print Assumptions C10_overflow_checker_constructed.
