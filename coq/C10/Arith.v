(* C10: facts about the machine arithmetic of the model (casts, promoted arithmetic, idiv, abs)
   for an arbitrary integer type of at least 8 bits. *)
From Tetl Require Import Lib.Base C10.Model.
From Coq Require Import ZifyBool.
Local Open Scope Z_scope.
Ltac Zify.zify_post_hook ::= Z.to_euclidean_division_equations.

(** * Ranges *)
Lemma pow2_pos w : 0 <= w -> 0 < 2 ^ w.
Proof. intros Hw. apply Z.pow_pos_nonneg; lia. Qed.

Lemma pow2_split w : 1 <= w -> 2 ^ w = 2 * 2 ^ (w - 1).
Proof. intros Hw. replace w with (1 + (w - 1)) at 1 by lia. rewrite Z.pow_add_r by lia. reflexivity. Qed.

Lemma pow2_mono a b : 0 <= a <= b -> 2 ^ a <= 2 ^ b.
Proof. intros H. apply Z.pow_le_mono_r; lia. Qed.

Lemma pow2_7_le w : 8 <= w -> 128 <= 2 ^ (w - 1).
Proof. intros Hw. change 128 with (2 ^ 7). apply pow2_mono. lia. Qed.

Lemma imin_imax t : 8 <= bits t -> imin t <= 0 /\ 127 <= imax t /\ - imax t - 1 <= imin t.
Proof.
  intros Hb. unfold imin, imax, smin, smax, umax.
  pose proof (pow2_7_le (bits t) Hb) as H7. pose proof (pow2_split (bits t) ltac:(lia)) as Hs.
  destruct (sgn t); lia.
Qed.

Lemma in_ty_iff t x : in_ty t x = true <-> imin t <= x <= imax t.
Proof. unfold in_ty. lia. Qed.

(** * wrap-around is the identity inside the type's range *)
Lemma wrapu_id w x : 0 <= w -> 0 <= x < 2 ^ w -> wrapu w x = x.
Proof. intros Hw Hx. unfold wrapu. apply Z.mod_small. lia. Qed.

Lemma wraps_id w x : 1 <= w -> - 2 ^ (w - 1) <= x < 2 ^ (w - 1) -> wraps w x = x.
Proof.
  intros Hw Hx. unfold wraps. pose proof (pow2_split w Hw) as Hs.
  pose proof (pow2_pos (w - 1) ltac:(lia)) as Hp.
  set (P := 2 ^ (w - 1)) in *. rewrite Hs.
  destruct (Z_lt_le_dec x 0) as [Hneg|Hpos].
  - assert (E : x mod (2 * P) = x + 2 * P).
    { replace x with (x + 2 * P + (-1) * (2 * P)) at 1 by lia. rewrite Z.mod_add by lia.
      apply Z.mod_small. lia. }
    rewrite E. destruct (x + 2 * P <? P) eqn:C; lia.
  - rewrite Z.mod_small by lia. destruct (x <? P) eqn:C; lia.
Qed.

Lemma cast_id t x : 8 <= bits t -> in_ty t x = true -> cast t x = x.
Proof.
  intros Hb Hx. apply in_ty_iff in Hx. unfold cast, wrap_ty.
  unfold imin, imax, smin, smax, umax in Hx.
  destruct (sgn t).
  - apply wraps_id; lia.
  - apply wrapu_id; lia.
Qed.

Lemma wraps8_id x : -128 <= x <= 127 -> wraps 8 x = x.
Proof. intros Hx. apply wraps_id; [lia|]. change (2 ^ (8 - 1)) with 128. lia. Qed.

(** * arithmetic in the promoted type never overflows on values of the type *)
Lemma promote_range t x : 8 <= bits t -> in_ty t x = true -> in_ty (promote t) x = true.
Proof.
  intros Hb Hx. unfold promote. destruct (bits t <? 32) eqn:E; [|exact Hx].
  apply in_ty_iff in Hx. apply in_ty_iff.
  unfold imin, imax, smin, smax, umax in *. cbn [sgn bits i32].
  assert (H31 : 2 ^ bits t <= 2 ^ 31) by (apply pow2_mono; lia).
  pose proof (pow2_split (bits t) ltac:(lia)) as Hs.
  pose proof (pow2_pos (bits t - 1) ltac:(lia)) as Hp.
  change (2 ^ (32 - 1)) with (2 ^ 31).
  destruct (sgn t); lia.
Qed.

Lemma promote_bits t : 8 <= bits t -> 8 <= bits (promote t).
Proof. intros Hb. unfold promote. destruct (bits t <? 32); cbn [bits i32]; lia. Qed.

Lemma parith_ok t x : 8 <= bits t -> in_ty t x = true -> parith t x = Ok x.
Proof.
  intros Hb Hx. pose proof (promote_range t x Hb Hx) as Hp. unfold parith.
  destruct (sgn (promote t)) eqn:S.
  - rewrite Hp. reflexivity.
  - f_equal. apply in_ty_iff in Hp. unfold imin, imax, umax in Hp. rewrite S in Hp.
    apply wrapu_id; [pose proof (promote_bits t Hb); lia | lia].
Qed.

(** * quotient and remainder: magnitude and sign *)
Lemma quot_abs n b : 0 < b -> Z.abs (Z.quot n b) = Z.abs n / b.
Proof.
  intros Hb. destruct (Z_lt_le_dec n 0) as [Hn|Hn].
  - replace n with (- (- n)) at 1 by lia. rewrite Z.quot_opp_l by lia.
    rewrite Z.quot_div_nonneg by lia. rewrite Z.abs_opp.
    rewrite (Z.abs_neq n) by lia. apply Z.abs_eq. apply Z.div_pos; lia.
  - rewrite Z.quot_div_nonneg by lia. rewrite (Z.abs_eq n) by lia.
    apply Z.abs_eq. apply Z.div_pos; lia.
Qed.

Lemma rem_abs n b : 0 < b -> Z.abs (Z.rem n b) = Z.abs n mod b.
Proof.
  intros Hb. destruct (Z_lt_le_dec n 0) as [Hn|Hn].
  - replace n with (- (- n)) at 1 by lia. rewrite Z.rem_opp_l by lia.
    rewrite Z.rem_mod_nonneg by lia. rewrite Z.abs_opp.
    rewrite (Z.abs_neq n) by lia. apply Z.abs_eq. apply Z.mod_pos_bound. lia.
  - rewrite Z.rem_mod_nonneg by lia. rewrite (Z.abs_eq n) by lia.
    apply Z.abs_eq. apply Z.mod_pos_bound. lia.
Qed.

Lemma quot_sign n b : 0 < b -> (0 <= n -> 0 <= Z.quot n b <= n) /\ (n <= 0 -> n <= Z.quot n b <= 0).
Proof.
  intros Hb. split; intros Hn.
  - rewrite Z.quot_div_nonneg by lia. split; [apply Z.div_pos; lia|].
    apply Z.div_le_upper_bound; [lia|]. nia.
  - replace n with (- (- n)) at 2 3 by lia. rewrite Z.quot_opp_l by lia.
    rewrite Z.quot_div_nonneg by lia.
    assert (0 <= - n / b <= - n).
    { split; [apply Z.div_pos; lia|]. apply Z.div_le_upper_bound; [lia|]. nia. }
    lia.
Qed.

Lemma rem_bound n b : 0 < b -> - b < Z.rem n b < b.
Proof.
  intros Hb. pose proof (rem_abs n b Hb) as H. pose proof (Z.mod_pos_bound (Z.abs n) b Hb). lia.
Qed.

(** * idiv and abs on in-range operands with a base in 2..36 *)
Lemma in_ty_small t x : 8 <= bits t -> 0 <= x <= 127 -> in_ty t x = true.
Proof. intros Hb Hx. apply in_ty_iff. pose proof (imin_imax t Hb). lia. Qed.

Lemma in_ty_quot t n b : 8 <= bits t -> 0 < b -> in_ty t n = true -> in_ty t (Z.quot n b) = true.
Proof.
  intros Hbits Hb Hn. apply in_ty_iff in Hn. apply in_ty_iff.
  pose proof (imin_imax t Hbits). pose proof (quot_sign n b Hb) as [Hp Hm].
  destruct (Z_lt_le_dec n 0); lia.
Qed.

Lemma in_ty_rem t n b : 8 <= bits t -> 2 <= b <= 36 -> sgn t = true \/ 0 <= n -> in_ty t (Z.rem n b) = true.
Proof.
  intros Hbits Hb Hs. apply in_ty_iff. pose proof (imin_imax t Hbits) as Hi.
  pose proof (rem_bound n b ltac:(lia)) as Hr.
  destruct Hs as [Hs|Hn].
  - unfold imin, imax, smin, smax in *. rewrite Hs in *. pose proof (pow2_7_le (bits t) Hbits). lia.
  - rewrite Z.rem_mod_nonneg by lia. pose proof (Z.mod_pos_bound n b ltac:(lia)). lia.
Qed.

Lemma in_ty_nonneg t n : sgn t = false -> in_ty t n = true -> 0 <= n.
Proof. intros Hs Hn. apply in_ty_iff in Hn. unfold imin in Hn. rewrite Hs in Hn. lia. Qed.

Lemma idiv_ok t n b : 8 <= bits t -> 2 <= b <= 36 -> in_ty t n = true ->
  idiv_m t n b = Ok (Z.quot n b, Z.rem n b).
Proof.
  intros Hbits Hb Hn. unfold idiv_m.
  destruct (b =? 0) eqn:E; [lia|].
  pose proof (in_ty_quot t n b Hbits ltac:(lia) Hn) as Hq.
  rewrite (parith_ok t _ Hbits Hq). cbn [rbind].
  rewrite (cast_id t _ Hbits Hq).
  assert (Hr : in_ty t (Z.rem n b) = true).
  { apply in_ty_rem; [assumption|assumption|].
    destruct (sgn t) eqn:S; [left; reflexivity|right; apply (in_ty_nonneg t n S Hn)]. }
  rewrite (cast_id t _ Hbits Hr). reflexivity.
Qed.

Lemma abs_ok t x : 8 <= bits t -> -127 <= x <= 127 -> abs_m t x = Ok (Z.abs x).
Proof.
  intros Hbits Hx. unfold abs_m. destruct (x <? 0) eqn:E.
  - rewrite (parith_ok t (- x) Hbits) by (apply in_ty_small; [assumption|lia]).
    cbn [rbind]. f_equal. lia.
  - f_equal. lia.
Qed.
