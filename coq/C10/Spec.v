(* C10 specification: positional notation and the contracts of [charconv.to.chars],
   [charconv.from.chars], C17 7.22.1.4 (strtol family), [string.conversions] (the sto functions) and
   C17 7.22.1.2 (the ato functions).  Nothing here mentions buffers being filled backwards, negative
   accumulation or overflow checkers. *)
From Tetl Require Import Lib.Base.
Local Open Scope Z_scope.

(** * Positional notation *)
(* value of a digit sequence, most significant digit first *)
Fixpoint eval_digits (b acc : Z) (ds : list Z) : Z :=
  match ds with [] => acc | d :: r => eval_digits b (acc * b + d) r end.
Definition eval (b : Z) (ds : list Z) : Z := eval_digits b 0 ds.

(* a digit sequence is the canonical numeral of a positive number: digits below the base, no leading zero *)
Definition canonical (b : Z) (ds : list Z) : Prop :=
  Forall (fun d => 0 <= d < b) ds /\ (exists d r, ds = d :: r /\ d <> 0).

(* the numeral of n > 0, computed (fuel = number of binary digits, enough for every base >= 2) *)
Fixpoint digits_aux (fuel : nat) (b n : Z) (acc : list Z) : list Z :=
  match fuel with
  | O => acc
  | S f => if n <=? 0 then acc else digits_aux f b (n / b) (n mod b :: acc)
  end.
Definition digits (b n : Z) : list Z :=
  if n <=? 0 then [0] else digits_aux (Z.to_nat (Z.log2 n) + 1) b n [].

(* digits 0..9 are '0'..'9', 10..35 are 'a'..'z' (to_chars writes lower case) *)
Definition digit_char (d : Z) : Z := if d <? 10 then 48 + d else 97 + (d - 10).
(* reading accepts both cases *)
Definition char_digit (c : Z) : option Z :=
  if (48 <=? c) && (c <=? 57) then Some (c - 48)
  else if (97 <=? c) && (c <=? 122) then Some (c - 97 + 10)
  else if (65 <=? c) && (c <=? 90) then Some (c - 65 + 10)
  else None.

(* the text of v in base b: '-' for negative values (in every base), then the numeral of |v| *)
Definition to_text (b v : Z) : list Z :=
  (if v <? 0 then [45] else []) ++ map digit_char (digits b (Z.abs v)).

(** * to_chars: [Some text] when the text fits into len characters (ptr = first + length text),
      [None] = value_too_large (ptr = last, contents of the buffer unspecified) *)
Definition to_chars_spec (b v : Z) (len : nat) : option (list Z) :=
  let s := to_text b v in if (length s <=? len)%nat then Some s else None.

(** * Reading *)
(* the longest prefix consisting of digits of base b, as digit values *)
Fixpoint take_digits (b : Z) (s : list Z) : list Z :=
  match s with
  | c :: r => match char_digit c with
              | Some d => if d <? b then d :: take_digits b r else []
              | None => []
              end
  | [] => []
  end.

Inductive pclass := POk | PInvalid | PRange.

(* from_chars: pattern = optional '-' (signed types only), then a non-empty digit run; no
   whitespace, no '+', no prefix.  Result: class, ptr - first, value stored (None = unmodified) *)
Definition from_chars_spec (t : ity) (b : Z) (s : list Z) : pclass * nat * option Z :=
  let '(neg, body) := match s with
                      | c :: r => if sgn t && (c =? 45) then (true, r) else (false, s)
                      | [] => (false, s)
                      end in
  let ds := take_digits b body in
  match ds with
  | [] => (PInvalid, 0%nat, None)
  | _ => let v := if neg then - eval b ds else eval b ds in
         let n := ((if neg then 1 else 0) + length ds)%nat in
         if in_ty t v then (POk, n, Some v) else (PRange, n, None)
  end.

(* white space of the "C" locale *)
Definition is_space (c : Z) : bool :=
  (c =? 32) || ((9 <=? c) && (c <=? 13)).

Fixpoint drop_space (s : list Z) : list Z :=
  match s with c :: r => if is_space c then drop_space r else s | [] => [] end.

Definition is_x (c : Z) : bool := (c =? 120) || (c =? 88).
Definition is_hex (c : Z) : bool :=
  match char_digit c with Some d => d <? 16 | None => false end.

(* optional sign: (negative?, rest) *)
Definition split_sign (s : list Z) : bool * list Z :=
  match s with
  | c :: r => if c =? 45 then (true, r) else if c =? 43 then (false, r) else (false, s)
  | [] => (false, s)
  end.

(* "0x" / "0X" followed by a hexadecimal digit *)
Definition has_0x (s : list Z) : bool :=
  match s with
  | z :: x :: h :: _ => (z =? 48) && is_x x && is_hex h
  | _ => false
  end.

(* the subject sequence of strtol: white space, optional sign, optional 0x/0X (base 16 or 0,
   only when a hex digit follows), digits.  Returns (negative?, base used, digit values,
   number of characters consumed); no digits = no conversion. *)
Definition subject (b : Z) (s : list Z) : bool * Z * list Z * nat :=
  let s1 := drop_space s in
  let '(neg, s2) := split_sign s1 in
  let b' := if b =? 0 then (if has_0x s2 then 16
                            else match s2 with z :: _ => if z =? 48 then 8 else 10 | [] => 10 end)
            else b in
  let skip := ((b =? 0) || (b =? 16)) && has_0x s2 in
  let s3 := if skip then skipn 2 s2 else s2 in
  let ds := take_digits b' s3 in
  (neg, b', ds, (length s - length s3 + length ds)%nat).

(* strtol / strtoll (signed t) and strtoul / strtoull (unsigned t): (value, endptr - nptr).
   Out-of-range values saturate (errno is outside this model); for the unsigned functions a
   minus sign negates the in-range value in the return type. *)
Definition strto_spec (t : ity) (b : Z) (s : list Z) : Z * nat :=
  let '(neg, b', ds, n) := subject b s in
  match ds with
  | [] => (0, 0%nat)
  | _ => let m := eval b' ds in
         if sgn t then
           let v := if neg then - m else m in
           (if v <? imin t then imin t else if v >? imax t then imax t else v, n)
         else
           (if m >? imax t then imax t else if neg then (- m) mod 2 ^ bits t else m, n)
  end.

(* the error report of the strtol family (errno in C, the error member of detail::strto_integer in
   etl): no conversion / the value had to be clamped (ERANGE) / exact *)
Inductive sclass := SOk | SNoConv | SRange.
Definition strto_in_range (t : ity) (neg : bool) (m : Z) : bool :=
  if sgn t then in_ty t (if neg then - m else m) else m <=? imax t.
Definition strto_class (t : ity) (b : Z) (s : list Z) : sclass :=
  let '(neg, b', ds, _) := subject b s in
  match ds with
  | [] => SNoConv
  | _ => if strto_in_range t neg (eval b' ds) then SOk else SRange
  end.

(* sto*: the result of the corresponding strto* when a conversion was performed and the value is
   in range; otherwise an exception is thrown (None: no (value, pos) to compare) *)
Definition sto_spec (t : ity) (b : Z) (s : list Z) : option (Z * nat) :=
  let '(neg, b', ds, n) := subject b s in
  match ds with
  | [] => None
  | _ => let m := eval b' ds in
         if sgn t then
           let v := if neg then - m else m in if in_ty t v then Some (v, n) else None
         else if m >? imax t then None else Some (if neg then (- m) mod 2 ^ bits t else m, n)
  end.

(* ato*: (T)strtol(s, NULL, 10) when representable, undefined otherwise (None) *)
Definition ato_spec (t : ity) (s : list Z) : option Z :=
  let '(neg, b', ds, n) := subject 10 s in
  match ds with
  | [] => Some 0
  | _ => let v := if neg then - eval b' ds else eval b' ds in
         if in_ty t v then Some v else None
  end.
