(* C10 proofs: strtol & co. (and the sto functions) read the output of to_chars / to_string back:
   for every type of a C++ width, every value of the type and every base 2..36 the text of v parses
   to v with the end pointer behind the last character. *)
From Tetl Require Import Lib.Base C10.Model C10.Spec C10.Arith C10.Digits C10.ProofsFmt C10.ProofsParse
  C10.ProofsRT C10.ProofsNc C10.ProofsStrtoC.
From Coq Require Import ZifyBool.
Local Open Scope Z_scope.
Ltac Zify.zify_post_hook ::= Z.to_euclidean_division_equations.

Lemma digit_char_props d : 0 <= d < 36 ->
  is_space (digit_char d) = false /\ (digit_char d =? 45) = false /\ (digit_char d =? 43) = false
  /\ (d < 16 -> is_x (digit_char d) = false).
Proof. intros Hd. unfold digit_char, is_space, is_x. destruct (d <? 10) eqn:E; repeat split; try intros ?; lia. Qed.

Lemma has_0x_written ds : Forall (fun d => 0 <= d < 16) ds -> has_0x (map digit_char ds) = false.
Proof.
  intros Hf. destruct ds as [|d0 [|d1 [|d2 r]]]; try reflexivity.
  cbn [map has_0x]. inversion Hf as [|? ? _ Hf1]; subst. inversion Hf1 as [|? ? H1 _]; subst.
  destruct (digit_char_props d1 ltac:(lia)) as (_ & _ & _ & Hx). rewrite (Hx ltac:(lia)).
  rewrite Bool.andb_false_r. reflexivity.
Qed.

(* specification level *)
Theorem strto_spec_roundtrip t v b : 8 <= bits t -> in_ty t v = true -> 2 <= b <= 36 ->
  strto_spec t b (to_text b v) = (v, length (to_text b v))
  /\ strto_class t b (to_text b v) = SOk.
Proof.
  intros Hbits Hv Hb.
  pose proof (digits_bound b (Z.abs v) ltac:(lia)) as Hbd.
  pose proof (digits_eval b (Z.abs v) ltac:(lia) ltac:(lia)) as Hev.
  pose proof (digits_nonempty b (Z.abs v)) as Hne.
  pose proof (imin_imax t Hbits) as Hi.
  unfold strto_spec, strto_class, subject, to_text.
  set (ds := digits b (Z.abs v)) in *.
  assert (Htd : take_digits b (map digit_char ds) = ds).
  { pose proof (take_digits_written b ds [] ltac:(lia) Hbd) as H.
    rewrite app_nil_r in H. cbn [take_digits] in H. rewrite app_nil_r in H. exact H. }
  assert (Hskip : ((b =? 0) || (b =? 16)) && has_0x (map digit_char ds) = false).
  { replace (b =? 0) with false by lia. cbn [orb]. destruct (b =? 16) eqn:E16; [|reflexivity].
    cbn [andb]. apply has_0x_written. replace 16 with b by lia. exact Hbd. }
  replace (b =? 0) with false in * by lia.
  destruct ds as [|d ds'] eqn:Eds; [congruence|].
  assert (Hd : 0 <= d < 36) by (inversion Hbd; subst; lia).
  destruct (digit_char_props d Hd) as (Hsp & H45 & H43 & _).
  apply in_ty_iff in Hv.
  unfold strto_in_range, in_ty.
  destruct (v <? 0) eqn:En.
  - (* "-" digits *)
    assert (Hs : sgn t = true).
    { destruct (sgn t) eqn:S; [reflexivity|]. unfold imin in Hv. rewrite S in Hv. lia. }
    cbn [app drop_space]. change (is_space 45) with false. cbv beta iota.
    cbn [split_sign]. change (45 =? 45) with true. cbv beta iota.
    cbn [orb] in Hskip |- *. rewrite Hskip. rewrite Htd. cbv beta iota zeta. rewrite Hev, Hs.
    replace (- Z.abs v) with v by lia.
    replace (v <? imin t) with false by lia. replace (v >? imax t) with false by lia.
    replace ((imin t <=? v) && (v <=? imax t)) with true by lia.
    cbn [length]. rewrite !map_length. cbn [length]. split; [f_equal; lia|reflexivity].
  - cbn [app map drop_space]. rewrite Hsp. cbn [split_sign]. rewrite H45, H43.
    change (digit_char d :: map digit_char ds') with (map digit_char (d :: ds')).
    cbn [orb] in Hskip |- *. rewrite Hskip. rewrite Htd. cbv beta iota zeta. rewrite Hev.
    replace (Z.abs v) with v by lia.
    replace (v <? imin t) with false by lia. replace (v >? imax t) with false by lia.
    replace ((imin t <=? v) && (v <=? imax t)) with true by lia.
    replace (v <=? imax t) with true by lia.
    cbn [length]. rewrite !map_length. cbn [length].
    destruct (sgn t); (split; [f_equal; lia|reflexivity]).
Qed.

(* model level: strtol (to_chars v b) b = v with all characters consumed and no error *)
Theorem strto_roundtrip t v b buf : cxx_width (bits t) -> in_ty t v = true -> 2 <= b <= 36 ->
  (length (to_text b v) <= length buf)%nat ->
  exists n buf', to_chars_m t v b buf = Ok (false, n, buf')
                 /\ strto_integer_m t (firstn n buf') b = Ok (n, TiNone, v).
Proof.
  intros Hw Hv Hb Hfit. assert (Hbits : 8 <= bits t) by (destruct Hw; lia).
  pose proof (to_chars_correct t v b buf Hbits Hv Hb) as H.
  unfold to_chars_spec in H. replace (length (to_text b v) <=? length buf)%nat with true in H by lia.
  eexists _, _. split; [exact H|].
  rewrite firstn_len_app. rewrite (strto_integer_correct t _ b Hw ltac:(right; lia)).
  destruct (strto_spec_roundtrip t v b Hbits Hv Hb) as [H1 H2]. rewrite H1, H2. reflexivity.
Qed.
