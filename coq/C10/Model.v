(* C10 model: executable mirror of the integer <-> text conversions
     include/etl/_strings/from_integer.hpp   from_integer        (after fix commits 56814d3, b03e9ee)
     include/etl/_charconv/to_chars.hpp      to_chars
     include/etl/_string/to_string.hpp       to_string<Capacity> (after fix commit f7203f6)
     include/etl/_math/idiv.hpp              idiv
     include/etl/_strings/to_integer.hpp     to_integer, overflow checkers (after fix commit b1a3340)
     include/etl/_charconv/from_chars.hpp    from_chars
     include/etl/_string/stoi.hpp            stoi stol stoll stoul stoull
     include/etl/_cstdlib/{atoi,atol,atoll,strtol,strtoul}.hpp
   Parametric in the integer type t = (bits, signedness).  Characters are the integer codes of
   plain (signed) char, strings are lists of codes, the output buffer is a list whose length is
   the distance last - first; every store goes through the bounds-checked [wr].
   Arithmetic follows the C++ rules: operands narrower than int are promoted to int, signed
   arithmetic in the promoted type is checked ([UB SignedOverflow]), unsigned wraps, and
   static_cast<Int> narrows modulo 2^bits. *)
From Tetl Require Import Lib.Base.
Local Open Scope Z_scope.

(** * Machine arithmetic *)
Definition promote (t : ity) : ity := if bits t <? 32 then i32 else t.
Definition cast (t : ity) (x : Z) : Z := wrap_ty t x.

(* the value x of an arithmetic expression evaluated in the promoted type of t *)
Definition parith (t : ity) (x : Z) : res Z :=
  let p := promote t in
  if sgn p then (if in_ty p x then Ok x else UB SignedOverflow) else Ok (wrapu (bits p) x).

(* etl::idiv(x, y) = {static_cast<Int>(x / y), static_cast<Int>(x % y)} *)
Definition idiv_m (t : ity) (x y : Z) : res (Z * Z) :=
  if y =? 0 then UB DivByZero
  else rbind (parith t (Z.quot x y)) (fun q => Ok (cast t q, cast t (Z.rem x y))).

(* etl::abs: the negation happens in the promoted type *)
Definition abs_m (t : ity) (x : Z) : res Z :=
  if x <? 0 then rbind (parith t (- x)) (fun y => Ok y) else Ok x.

(** * Checked output buffer *)
Fixpoint upd (l : list Z) (i : nat) (v : Z) : list Z :=
  match l, i with
  | [], _ => []
  | _ :: r, O => v :: r
  | x :: r, S k => x :: upd r k v
  end.

Definition wr (buf : list Z) (i : nat) (v : Z) : res (list Z) :=
  if (i <? length buf)%nat then Ok (upd buf i v) else UB OutOfBounds.

(* etl::reverse(str + lo, str + hi) *)
Definition rev_range (buf : list Z) (lo hi : nat) : list Z :=
  firstn lo buf ++ rev (firstn (hi - lo) (skipn lo buf)) ++ skipn hi buf.

(** * from_integer *)
(* (digit > 9) ? (digit - 10) + 'a' : digit + '0', stored into a char *)
Definition digit_char_m (digit : Z) : Z :=
  wraps 8 (if digit >? 9 then digit - 10 + 97 else digit + 48).

(* the digit loop: returns the buffer and [Some i] when num reached 0 with i characters written,
   [None] when the length test fired *)
Fixpoint fi_loop (fuel : nat) (t : ity) (bt num : Z) (i : nat) (buf : list Z)
  : res (list Z * option nat) :=
  if num =? 0 then Ok (buf, Some i)
  else match fuel with
       | O => OutOfFuel
       | S f =>
         if (length buf <=? i)%nat then Ok (buf, None)
         else
           rbind (idiv_m t num bt) (fun qr =>
           rbind (abs_m t (snd qr)) (fun a =>
           let digit := wraps 8 a in
           rbind (wr buf i (digit_char_m digit)) (fun buf' =>
           fi_loop f t bt (fst qr) (S i) buf')))
       end.

(* result: final buffer, error flag (true = from_integer_error::overflow), end (None = nullptr) *)
Definition fi_out : Type := list Z * bool * option nat.

Definition from_integer_m (t : ity) (term : bool) (num base : Z) (buf : list Z) : res fi_out :=
  let len := length buf in
  if num =? 0 then
    if (len <? 1 + (if term then 1 else 0))%nat then Ok (buf, true, Some len)
    else
      rbind (wr buf 0 48) (fun b1 =>
      if term then rbind (wr b1 1 0) (fun b2 => Ok (b2, false, Some 1%nat))
      else Ok (b1, false, Some 1%nat))
  else
    let neg := sgn t && (num <? 0) in
    if neg && (len <=? 0)%nat then Ok (buf, true, None)
    else
      let i0 := if neg then 1%nat else 0%nat in
      rbind (if neg then wr buf 0 45 else Ok buf) (fun b1 =>
      rbind (fi_loop (Z.to_nat (bits t) + 1) t (cast t base) num i0 b1) (fun r =>
      match r with
      | (b2, None) => Ok (b2, true, None)
      | (b2, Some i) =>
        let b3 := rev_range b2 i0 i in
        if term then
          if (len <=? i)%nat then Ok (b3, true, None)
          else rbind (wr b3 i 0) (fun b4 => Ok (b4, false, Some i))
        else Ok (b3, false, Some i)
      end)).

(** * to_chars: error class (false = ok, true = value_too_large), ptr - first, buffer *)
Definition to_chars_m (t : ity) (v base : Z) (buf : list Z) : res (bool * nat * list Z) :=
  rbind (from_integer_m t false v base buf) (fun r =>
  match r with
  | (b, false, Some e) => Ok (false, e, b)
  | (b, false, None) => UB NullDeref        (* success always carries an end pointer *)
  | (b, true, _) => Ok (true, length buf, b)
  end).

(** * to_string<Capacity>: the characters of the returned inplace_string *)
Definition to_string_m (t : ity) (cap : nat) (v : Z) : res (list Z) :=
  rbind (from_integer_m t true v 10 (repeat 0 (cap + 1))) (fun r =>
  match r with
  | (b, false, Some e) => if (e <=? cap)%nat then Ok (firstn e b) else Contract
  | (b, false, None) => UB NullDeref
  | (b, true, _) => Contract                (* TETL_PRECONDITION(res.error == none) *)
  end).

(** * to_integer *)
Definition isspace_m (c : Z) : bool :=
  (c =? 32) || (c =? 12) || (c =? 10) || (c =? 13) || (c =? 9) || (c =? 11).
Definition isdigit_m (c : Z) : bool := (48 <=? c) && (c <=? 57).
Definition isupper_m (c : Z) : bool := (65 <=? c) && (c <=? 90).
Definition isalpha_m (c : Z) : bool := ((97 <=? c) && (c <=? 122)) || isupper_m c.
Definition tolower_m (c : Z) : Z := if isupper_m c then c + 32 else c.

(* the parseDigit lambda; a character that is no digit yields numeric_limits<Int>::max() *)
Definition parse_digit_m (t : ity) (c : Z) : Z :=
  if isdigit_m c then cast t (c - 48)
  else if isalpha_m c then cast t (cast t (tolower_m c) - 97 + 10)
  else imax t.

(* constructor of signed_overflow_checker / unsigned_overflow_checker: (limit / base, |limit % base|) *)
Definition checker_m (t : ity) (base : Z) : res (Z * Z) :=
  let lim := if sgn t then imin t else imax t in
  if base =? 0 then UB DivByZero
  else
    rbind (parith t (Z.quot lim base)) (fun q =>
    rbind (abs_m t (cast t (Z.rem lim base))) (fun r => Ok (cast t q, cast t r))).

Definition would_overflow_m (t : ity) (ck : Z * Z) (value digit : Z) : bool :=
  if sgn t then (value <? fst ck) || ((value =? fst ck) && (digit >? snd ck))
  else (value >? fst ck) || ((value =? fst ck) && (digit >? snd ck)).

(* value = static_cast<Int>(value * base -/+ digit) *)
Definition accumulate_m (t : ity) (base value digit : Z) : res Z :=
  rbind (parith t (value * base)) (fun m =>
  rbind (parith t (if sgn t then m - digit else m + digit)) (fun x => Ok (cast t x))).

Inductive ti_err := TiNone | TiInvalid | TiOverflow.

(* the loop over the rest of the digits: (pos, value, overflow?) *)
Fixpoint ti_loop (t : ity) (ck : Z * Z) (base : Z) (s : list Z) (pos : nat) (value : Z)
  : res (nat * Z * bool) :=
  match s with
  | [] => Ok (pos, value, false)
  | c :: r =>
    let digit := parse_digit_m t c in
    if digit >=? base then Ok (pos, value, false)
    else if would_overflow_m t ck value digit then Ok (pos, value, true)
    else rbind (accumulate_m t base value digit) (fun v' => ti_loop t ck base r (S pos) v')
  end.

Fixpoint skip_ws_m (s : list Z) (pos : nat) : list Z * nat :=
  match s with
  | c :: r => if isspace_m c then skip_ws_m r (S pos) else (s, pos)
  | [] => ([], pos)
  end.

(* result: (end - str.data(), error, value); errors carry end = 0 and a value-initialised value *)
Definition ti_out : Type := nat * ti_err * Z.
Definition ti_error (e : ti_err) : res ti_out := Ok (0%nat, e, 0).

(* everything around the digit loop (shared by both instantiations of the overflow checker):
   [loop rest pos value] returns (pos, value, overflow?) *)
Definition to_integer_head (t : ity) (skipws plus : bool) (s : list Z) (base : Z)
    (loop : list Z -> nat -> Z -> res (nat * Z * bool)) : res ti_out :=
  let '(s1, p1) := if skipws then skip_ws_m s 0 else (s, 0%nat) in
  match s1 with
  | [] => ti_error TiInvalid
  | c1 :: r1 =>
    let '(positive, s2, p2) := if sgn t && (c1 =? 45) then (false, r1, S p1) else (true, s1, p1) in
    match s2 with
    | [] => ti_error TiInvalid
    | c2 :: r2 =>
      let '(s3, p3) := if plus && positive && (c2 =? 43) then (r2, S p2) else (s2, p2) in
      match s3 with
      | [] => ti_error TiInvalid
      | c3 :: r3 =>
        let digit := parse_digit_m t c3 in
        rbind (if sgn t then rbind (parith t (- digit)) (fun x => Ok (cast t x)) else Ok digit) (fun value0 =>
        rbind (abs_m t value0) (fun a =>
        if cast t a >=? base then ti_error TiInvalid
        else
          rbind (loop r3 (S p3) value0) (fun lr =>
          match lr with
          | (_, _, true) => ti_error TiOverflow
          | (pos, value, false) =>
            if sgn t && positive then
              if value =? imin t then ti_error TiOverflow
              else rbind (parith t (value * -1)) (fun x => Ok (pos, TiNone, cast t x))
            else Ok (pos, TiNone, value)
          end)))
      end
    end
  end.

(* check_overflow = true: signed_/unsigned_overflow_checker, constructed before anything else *)
Definition to_integer_m (t : ity) (skipws plus : bool) (s : list Z) (base : Z) : res ti_out :=
  rbind (checker_m t base) (fun ck => to_integer_head t skipws plus s base (ti_loop t ck base)).

(* check_overflow = false: nop_overflow_checker (its constructor does not divide, it never fires);
   the accumulation wraps for unsigned types and is undefined behaviour (signed overflow) for int and
   wider signed types when the text is too long *)
Fixpoint ti_loop_nc (t : ity) (base : Z) (s : list Z) (pos : nat) (value : Z) : res (nat * Z) :=
  match s with
  | [] => Ok (pos, value)
  | c :: r =>
    let digit := parse_digit_m t c in
    if digit >=? base then Ok (pos, value)
    else rbind (accumulate_m t base value digit) (fun v' => ti_loop_nc t base r (S pos) v')
  end.

Definition to_integer_nc_m (t : ity) (skipws plus : bool) (s : list Z) (base : Z) : res ti_out :=
  to_integer_head t skipws plus s base
    (fun r p v => rbind (ti_loop_nc t base r p v) (fun lr => Ok (fst lr, snd lr, false))).

(** * from_chars: (error class, ptr - first, value left in the out parameter) *)
Inductive fc_class := FcOk | FcInvalid | FcRange.

Definition from_chars_m (t : ity) (s : list Z) (base v0 : Z) : res (fc_class * nat * Z) :=
  rbind (to_integer_m t false false s (cast t base)) (fun r =>
  match r with
  | (_, TiOverflow, _) => Ok (FcRange, 0%nat, v0)
  | (_, TiInvalid, _) => Ok (FcInvalid, 0%nat, v0)
  | (e, TiNone, v) => Ok (FcOk, e, v)
  end).

(** * to_integer with the default options as a (value, end) pair: what strtol & co. were before the
      fix commits of detail::strto_integer; atoi/atol/atoll still are this with base 10 *)
Definition ti_pair_m (t : ity) (s : list Z) (base : Z) : res (Z * nat) :=
  rbind (to_integer_m t true true s (cast t base)) (fun r =>
  match r with (e, _, v) => Ok (v, e) end).

(** * atoi atol atoll *)
Definition ato_m (t : ity) (s : list Z) : res Z :=
  rbind (to_integer_m t true true s 10) (fun r => match r with (_, _, v) => Ok v end).

(** * detail::strto_integer<Int> (include/etl/_cstdlib/strto_integer.hpp), shared by strtol strtoll
      strtoul strtoull stoi stol stoll stoul stoull *)
Definition unsigned_of (t : ity) : ity := {| bits := bits t; sgn := false |}.

Definition isxdigit_m (c : Z) : bool :=
  ((48 <=? c) && (c <=? 57)) || ((97 <=? c) && (c <=? 102)) || ((65 <=? c) && (c <=? 70)).

(* length - pos > 2 and str[pos] == '0' and (str[pos+1] == 'x' or 'X') and isxdigit(str[pos+2]);
   the argument is the text from pos on *)
Definition has_hex_prefix_m (s : list Z) : bool :=
  match s with
  | c0 :: c1 :: c2 :: _ => (c0 =? 48) && ((c1 =? 120) || (c1 =? 88)) && isxdigit_m c2
  | _ => false
  end.

(* from `auto const digits = str.substr(pos)` on: s3 = the text from pos on, p3 = pos *)
Definition strto_convert_m (t : ity) (negative : bool) (base' : Z) (s3 : list Z) (p3 : nat) : res ti_out :=
  let ut := unsigned_of t in
  (* to_integer<UInt, checked>, and on overflow to_integer<UInt, unchecked> for the end *)
  rbind (to_integer_m ut false false s3 (cast ut base')) (fun mag =>
  match mag with
  | (_, TiInvalid, _) => ti_error TiInvalid
  | (e, err, m) =>
    let overflow := match err with TiOverflow => true | _ => false end in
    rbind (if overflow
           then rbind (to_integer_nc_m ut false false s3 (cast ut base')) (fun r => match r with (e', _, _) => Ok e' end)
           else Ok e) (fun e' =>
    let endp := (p3 + e')%nat in
    (* static_cast<UInt>(static_cast<UInt>(max) + UInt(negative ? 1 : 0)) *)
    let limit := cast ut (cast ut (imax t) + (if negative then 1 else 0)) in
    if sgn t && (overflow || (m >? limit)) then Ok (endp, TiOverflow, if negative then imin t else imax t)
    else if negb (sgn t) && overflow then Ok (endp, TiOverflow, imax t)
    (* negative ? static_cast<Int>(UInt{0} - magnitude.value) : static_cast<Int>(magnitude.value) *)
    else Ok (endp, TiNone, if negative then cast t (cast ut (0 - m)) else cast t m))
  end).

(* base is an int; result (end - str.data(), error, value) *)
Definition strto_integer_m (t : ity) (s : list Z) (base : Z) : res ti_out :=
  if (base <? 0) || (base =? 1) || (base >? 36) then ti_error TiInvalid
  else
    let '(s1, p1) := skip_ws_m s 0 in
    let '(negative, s2, p2) :=
      match s1 with
      | c :: r => if (c =? 45) || (c =? 43) then (c =? 45, r, S p1) else (false, s1, p1)
      | [] => (false, s1, p1)
      end in
    let '(base', s3, p3) :=
      if ((base =? 0) || (base =? 16)) && has_hex_prefix_m s2 then (16, skipn 2 s2, (p2 + 2)%nat)
      else if base =? 0 then (match s2 with c :: _ => if c =? 48 then 8 else 10 | [] => 10 end, s2, p2)
      else (base, s2, p2) in
    strto_convert_m t negative base' s3 p3.

(** * strtol strtoll strtoul strtoull, stoi stol stoll stoul stoull: (value, end - str / *pos) *)
Definition strto_m (t : ity) (s : list Z) (base : Z) : res (Z * nat) :=
  rbind (strto_integer_m t s base) (fun r => match r with (e, _, v) => Ok (v, e) end).
