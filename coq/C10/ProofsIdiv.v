(* C10 (review round): etl::idiv (include/etl/_math/idiv.hpp) for arbitrary operands of the type, not
   only the divisors 2..36 that from_integer passes: truncating quotient and remainder with the sign of
   the dividend whenever the quotient is representable; the only unrepresentable quotient is
   min / -1 of a signed type, which wraps to min for types narrower than int (the division happens in
   int) and is undefined behaviour (signed overflow) for int and wider types; division by zero is
   undefined behaviour for every type. *)
From Tetl Require Import Lib.Base C10.Model C10.Arith.
From Coq Require Import ZifyBool.
Local Open Scope Z_scope.
Ltac Zify.zify_post_hook ::= Z.to_euclidean_division_equations.

Lemma quot_rem_range t x y : 8 <= bits t -> in_ty t x = true -> y <> 0 ->
  in_ty t (Z.rem x y) = true /\ Z.abs (Z.quot x y) <= Z.abs x.
Proof.
  intros Hbits Hx Hy. apply in_ty_iff in Hx. pose proof (imin_imax t Hbits) as Hi.
  pose proof (Z.quot_rem' x y) as E.
  assert (Hr : Z.abs (Z.rem x y) <= Z.abs x /\ (0 <= x -> 0 <= Z.rem x y) /\ (x <= 0 -> Z.rem x y <= 0)).
  { destruct (Z_le_gt_dec 0 x) as [Hp|Hn].
    - pose proof (Z.rem_nonneg x y Hy Hp). pose proof (Z.rem_le x y Hp) as Hle.
      destruct (Z_lt_le_dec 0 y) as [Hyp|Hyn].
      + specialize (Hle Hyp). lia.
      + rewrite <- (Z.rem_opp_r x y Hy). pose proof (Z.rem_le x (- y) Hp ltac:(lia)).
        pose proof (Z.rem_nonneg x (- y) ltac:(lia) Hp). lia.
    - pose proof (Z.rem_opp_l x y Hy) as Ho.
      pose proof (Z.rem_nonneg (- x) y Hy ltac:(lia)) as Hnn.
      assert (Hle : Z.rem (- x) y <= - x).
      { destruct (Z_lt_le_dec 0 y) as [Hyp|Hyn].
        - apply Z.rem_le; lia.
        - rewrite <- (Z.rem_opp_r (- x) y Hy). apply Z.rem_le; lia. }
      lia. }
  split.
  - apply in_ty_iff. lia.
  - rewrite <- Z.quot_abs by exact Hy.
    pose proof (Z.quot_le_compat_l (Z.abs x) 1 (Z.abs y) ltac:(lia) ltac:(lia)) as Hc.
    rewrite Z.quot_1_r in Hc. exact Hc.
Qed.

(* representable quotient: exactly the truncating division of the mathematical integers *)
Theorem idiv_exact t x y : 8 <= bits t -> in_ty t x = true -> in_ty t y = true -> y <> 0 ->
  in_ty t (Z.quot x y) = true -> idiv_m t x y = Ok (Z.quot x y, Z.rem x y).
Proof.
  intros Hbits Hx Hy Hy0 Hq. unfold idiv_m. replace (y =? 0) with false by lia.
  rewrite (parith_ok t _ Hbits Hq). cbn [rbind].
  destruct (quot_rem_range t x y Hbits Hx Hy0) as [Hr _].
  rewrite (cast_id t _ Hbits Hq), (cast_id t _ Hbits Hr). reflexivity.
Qed.

(* the quotient of two values of the type is unrepresentable only for min / -1 *)
Theorem idiv_unrepresentable t x y : 8 <= bits t -> in_ty t x = true -> in_ty t y = true -> y <> 0 ->
  in_ty t (Z.quot x y) = false -> sgn t = true /\ x = imin t /\ y = -1.
Proof.
  intros Hbits Hx Hy Hy0 Hq.
  destruct (quot_rem_range t x y Hbits Hx Hy0) as [_ Hqa].
  pose proof (imin_imax t Hbits) as Hi.
  apply in_ty_iff in Hx. apply in_ty_iff in Hy.
  assert (Hnq : ~ (imin t <= Z.quot x y <= imax t)).
  { intros C. apply in_ty_iff in C. congruence. }
  destruct (sgn t) eqn:S.
  - assert (Him : imin t = - imax t - 1) by (unfold imin, imax, smin, smax; rewrite S; lia).
    assert (Hxm : x = imin t) by lia.
    assert (Hqm : Z.quot x y = - x) by lia.
    split; [reflexivity|]. split; [exact Hxm|].
    (* x quot y = -x with x <> 0 forces y = -1 *)
    pose proof (Z.quot_rem' x y) as E. rewrite Hqm in E.
    destruct (quot_rem_range t x y Hbits ltac:(apply in_ty_iff; lia) Hy0) as [Hr _].
    assert (Hrb : Z.abs (Z.rem x y) < Z.abs y) by (apply Z.rem_bound_abs; exact Hy0).
    assert (Hx0 : x < 0) by lia.
    nia.
  - exfalso. assert (H0 : imin t = 0) by (unfold imin; rewrite S; reflexivity).
    assert (0 <= Z.quot x y) by (apply Z.quot_pos; lia). lia.
Qed.

(* min / -1: wraps to min below int, signed overflow from int on; x / 0 is undefined for every type *)
Theorem idiv_min_minus_one t : 8 <= bits t -> sgn t = true ->
  idiv_m t (imin t) (-1) = if bits t <? 32 then Ok (imin t, 0) else UB SignedOverflow.
Proof.
  intros Hbits S. unfold idiv_m. change (-1 =? 0) with false. cbv iota.
  assert (Hq : Z.quot (imin t) (-1) = - imin t).
  { change (-1) with (- (1)). rewrite Z.quot_opp_r by lia. rewrite Z.quot_1_r. reflexivity. }
  assert (Hr : Z.rem (imin t) (-1) = 0).
  { change (-1) with (- (1)). rewrite Z.rem_opp_r by lia. apply Z.rem_1_r. }
  rewrite Hq, Hr. unfold parith, promote.
  pose proof (pow2_split (bits t) ltac:(lia)) as Hs. pose proof (pow2_pos (bits t - 1) ltac:(lia)) as Hp.
  destruct (bits t <? 32) eqn:E.
  - cbn [sgn i32]. assert (Hin : in_ty i32 (- imin t) = true).
    { apply in_ty_iff. unfold imin. rewrite S. unfold smin. cbn [imin imax sgn bits i32 smin smax].
      change (2 ^ (32 - 1)) with 2147483648.
      assert (H30 : 2 ^ (bits t - 1) <= 2 ^ 30) by (apply pow2_mono; lia).
      change (2 ^ 30) with 1073741824 in H30. change (smax 32) with 2147483647. lia. }
    rewrite Hin. cbn [rbind]. f_equal. f_equal.
    + unfold cast, wrap_ty. rewrite S. unfold wraps, imin. rewrite S. unfold smin.
      replace (- - 2 ^ (bits t - 1)) with (2 ^ (bits t - 1)) by lia.
      rewrite Z.mod_small by lia. replace (2 ^ (bits t - 1) <? 2 ^ (bits t - 1)) with false by lia. lia.
    + unfold cast, wrap_ty. rewrite S. unfold wraps. rewrite Z.mod_0_l by lia.
      replace (0 <? 2 ^ (bits t - 1)) with true by lia. reflexivity.
  - rewrite S. assert (Hin : in_ty t (- imin t) = false).
    { unfold in_ty, imin, imax. rewrite S. unfold smin, smax. lia. }
    rewrite Hin. reflexivity.
Qed.

Theorem idiv_by_zero t x : idiv_m t x 0 = UB DivByZero.
Proof. reflexivity. Qed.
