(* C10 — placeholder until the proofs are in place *)
From Tetl Require Import Lib.Base C10.Model C10.Spec.
Local Open Scope Z_scope.
Example C10_nonvacuous : to_chars_m i32 (-255) 16 [0;0;0] = Ok (false, 3%nat, [45; 102; 102]).
Proof. vm_compute. reflexivity. Qed.
Print Assumptions C10_nonvacuous.
