(* C10 — Integer <-> text conversion is exact, round-trips, and respects the buffer.
   Property theorems only: each is closed by [exact] of a lemma proved in Proofs*.v / Digits.v /
   Refuted.v, followed by Print Assumptions.
   Quantification: every integer type t = (bits, signedness) with at least 8 bits (the C++ integer
   types are the instances 8/16/32/64), every value of the type, every base 2..36, every buffer
   (any length, any previous contents), every character sequence.  Model functions (C10.Model)
   mirror the C++ code; Spec functions (C10.Spec) are positional notation and the
   [charconv] / C strtol / [string.conversions] contracts. *)
From Tetl Require Import Lib.Base C10.Model C10.Spec C10.Digits C10.ProofsFmt C10.ProofsParse
  C10.ProofsRT C10.ProofsNc C10.ProofsStrto C10.ProofsStrtoC C10.ProofsRTStrto C10.Refuted.
Local Open Scope Z_scope.

(** ** The specification's numeral is positional notation (spec sanity) *)
Theorem C10_spec_numeral : forall b, 2 <= b ->
  (forall n, 0 <= n -> eval b (digits b n) = n)
  /\ (forall n, 0 < n -> canonical b (digits b n))
  /\ (forall ds1 ds2, canonical b ds1 -> canonical b ds2 -> eval b ds1 = eval b ds2 -> ds1 = ds2).
Proof.
  intros b Hb. split; [|split].
  - intros n Hn. exact (digits_eval b n Hb Hn).
  - intros n Hn. exact (digits_canonical b n Hb Hn).
  - intros ds1 ds2. exact (canonical_unique b ds1 ds2 Hb).
Qed.
Print Assumptions C10_spec_numeral.

(** ** to_chars: exactly the specified text when it fits (rest of the buffer untouched,
       ptr = first + length), otherwise value_too_large with ptr = last; in both cases every
       store stayed inside [first, last) (the model's checked stores never report OutOfBounds) *)
Theorem C10_to_chars_correct : forall t v b buf,
  8 <= bits t -> in_ty t v = true -> 2 <= b <= 36 ->
  match to_chars_spec b v (length buf) with
  | Some s => to_chars_m t v b buf = Ok (false, length s, s ++ skipn (length s) buf)
  | None => exists buf', to_chars_m t v b buf = Ok (true, length buf, buf') /\ length buf' = length buf
  end.
Proof. exact to_chars_correct. Qed.
Print Assumptions C10_to_chars_correct.

Theorem C10_to_chars_in_bounds : forall t v b buf,
  8 <= bits t -> in_ty t v = true -> 2 <= b <= 36 ->
  exists err n buf', to_chars_m t v b buf = Ok (err, n, buf') /\ length buf' = length buf /\ (n <= length buf)%nat.
Proof. exact to_chars_in_bounds. Qed.
Print Assumptions C10_to_chars_in_bounds.

(* the etl-specific from_integer with and without terminator (exact-fit accepted, error otherwise) *)
Theorem C10_from_integer_correct : forall t term v b buf,
  8 <= bits t -> in_ty t v = true -> 2 <= b <= 36 ->
  fi_post term b v buf (from_integer_m t term v b buf).
Proof. exact from_integer_spec. Qed.
Print Assumptions C10_from_integer_correct.

(* to_string<Capacity>: the decimal text whenever it has at most Capacity characters, otherwise
   the precondition check fires *)
Theorem C10_to_string_correct : forall t cap v, 8 <= bits t -> in_ty t v = true ->
  to_string_m t cap v = if (length (to_text 10 v) <=? cap)%nat then Ok (to_text 10 v) else Contract.
Proof. exact to_string_correct. Qed.
Print Assumptions C10_to_string_correct.

(** ** to_integer: value of the longest digit run, exact overflow detection, consumed length *)
Theorem C10_to_integer_correct : forall t skipws plus s base, 8 <= bits t -> 2 <= base <= 36 ->
  to_integer_m t skipws plus s base = Ok (gparse t skipws plus s base).
Proof. exact to_integer_spec. Qed.
Print Assumptions C10_to_integer_correct.

(* the two overflow checkers are exact: they fire iff the next accumulation step leaves the type *)
Theorem C10_overflow_checker_exact : forall t base A d,
  8 <= bits t -> 2 <= base <= 36 -> 0 <= A -> 0 <= d < base ->
  would_overflow_m t (ck_of t base) (sig t A) d = (A * base + d >? lim t).
Proof. exact would_overflow_spec. Qed.
Print Assumptions C10_overflow_checker_exact.

(* check_overflow = false (nop_overflow_checker): the same end, error and value whenever the
   checked conversion succeeds; for unsigned types never undefined behaviour and the value is the
   digit run modulo 2^bits (for int and wider signed types a too long text is signed overflow) *)
Theorem C10_to_integer_unchecked : forall t skipws plus s base, 2 <= base <= 36 ->
  (forall n v, 8 <= bits t -> gparse t skipws plus s base = (n, TiNone, v) ->
     to_integer_nc_m t skipws plus s base = Ok (n, TiNone, v))
  /\ (sgn t = false -> cxx_width (bits t) ->
      to_integer_nc_m t skipws plus s base = Ok (nc_unsigned_spec t skipws plus s base)).
Proof.
  intros t skipws plus s base Hb. split.
  - intros n v Hbits Hg. exact (to_integer_nc_agree t skipws plus s base n v Hbits Hb Hg).
  - intros Hs Hw. exact (to_integer_nc_unsigned t skipws plus s base Hs Hw Hb).
Qed.
Print Assumptions C10_to_integer_unchecked.

(** ** from_chars: error class, stored value and consumed length of [charconv.from.chars];
       overflow detected exactly at the limits of the type.  Known finding: on
       result_out_of_range ptr is first instead of the end of the digit run. *)
Theorem C10_from_chars_correct : forall t s b v0, 8 <= bits t -> 2 <= b <= 36 ->
  from_chars_m t s b v0 =
    Ok (let '(c, n, v) := from_chars_spec t b s in
        (fc_of c, match c with PRange => 0%nat | _ => n end, match v with Some x => x | None => v0 end))
  /\ (fst (fst (from_chars_spec t b s)) <> PRange ->
      from_chars_m t s b v0 =
        Ok (let '(c, n, v) := from_chars_spec t b s in (fc_of c, n, match v with Some x => x | None => v0 end))).
Proof.
  intros t s b v0 Hbits Hb. split.
  - exact (from_chars_correct t s b v0 Hbits Hb).
  - exact (from_chars_exact t s b v0 Hbits Hb).
Qed.
Print Assumptions C10_from_chars_correct.

Theorem C10_from_chars_overflow_ptr_refuted : exists t s b v0 r,
  8 <= bits t /\ 2 <= b <= 36 /\ from_chars_m t s b v0 = Ok (FcRange, 0%nat, v0)
  /\ from_chars_spec t b s = (PRange, r, None) /\ r <> 0%nat.
Proof. exact from_chars_overflow_ptr_refuted. Qed.
Print Assumptions C10_from_chars_overflow_ptr_refuted.

(** ** round trip *)
Theorem C10_roundtrip : forall t v b, in_ty t v = true -> 2 <= b <= 36 ->
  from_chars_spec t b (to_text b v) = (POk, length (to_text b v), Some v)
  /\ forall buf v0, 8 <= bits t -> (length (to_text b v) <= length buf)%nat ->
     exists n buf', to_chars_m t v b buf = Ok (false, n, buf')
                    /\ from_chars_m t (firstn n buf') b v0 = Ok (FcOk, n, v).
Proof.
  intros t v b Hin Hb. split.
  - exact (spec_roundtrip t v b Hin Hb).
  - intros buf v0 Hbits Hlen. exact (roundtrip t v b buf v0 Hbits Hin Hb Hlen).
Qed.
Print Assumptions C10_roundtrip.

(** ** strtol strtoll strtoul strtoull (detail::strto_integer after fix commits 0adfefc, cdcca26,
       de18be3, 387b57b): the whole of C17 7.22.1.4 for EVERY character sequence and every base
       0, 2..36 — white space, sign, 0x/0X and 0 prefixes, value saturated at the limits of the
       result type, minus sign negating in the unsigned type, end behind the last digit (at the
       start when there are no digits).  t ranges over the widths of the C++ integer types
       ([cxx_width]: 8..16 bits, where arithmetic happens in int, or at least 32 bits; the nine
       wrappers instantiate int, long, long long, unsigned long, unsigned long long). *)
Theorem C10_strto_correct : forall t s b, cxx_width (bits t) -> b = 0 \/ 2 <= b <= 36 ->
  strto_m t s b = Ok (strto_spec t b s)
  (* with the error member: invalid_input iff there is no digit, overflow iff the value had to be
     clamped (the library has no errno; this is its ERANGE) *)
  /\ strto_integer_m t s b = Ok (snd (strto_spec t b s), ti_of (strto_class t b s), fst (strto_spec t b s)).
Proof.
  intros t s b Hw Hb. split.
  - exact (strto_correct t s b Hw Hb).
  - exact (strto_integer_correct t s b Hw Hb).
Qed.
Print Assumptions C10_strto_correct.

(* a base C does not define: no conversion, no undefined behaviour (any type, any text) *)
Theorem C10_strto_bad_base : forall t s b, b < 0 \/ b = 1 \/ 36 < b -> strto_m t s b = Ok (0, 0%nat).
Proof. exact strto_bad_base. Qed.
Print Assumptions C10_strto_bad_base.

(** ** stoi stol stoll stoul stoull: (value, *pos) of [string.conversions] whenever std does not
       throw; where std throws the etl functions (no exceptions) return what strtol returns and
       the error member is set *)
Theorem C10_sto_correct : forall t s b, cxx_width (bits t) -> b = 0 \/ 2 <= b <= 36 ->
  match sto_spec t b s with
  | Some r => strto_m t s b = Ok r
  | None => strto_m t s b = Ok (strto_spec t b s) /\ strto_class t b s <> SOk
  end.
Proof.
  intros t s b Hw Hb. destruct (sto_spec t b s) as [r|] eqn:E.
  - exact (sto_correct t s b r Hw Hb E).
  - exact (sto_no_throw t s b Hw Hb E).
Qed.
Print Assumptions C10_sto_correct.

(* round trip through the strtol family: the text of v (to_chars / to_string) parses to v, the end
   pointer is behind the last character and the error member is none *)
Theorem C10_strto_roundtrip : forall t v b, in_ty t v = true -> 2 <= b <= 36 ->
  (8 <= bits t -> strto_spec t b (to_text b v) = (v, length (to_text b v)) /\ strto_class t b (to_text b v) = SOk)
  /\ forall buf, cxx_width (bits t) -> (length (to_text b v) <= length buf)%nat ->
     exists n buf', to_chars_m t v b buf = Ok (false, n, buf')
                    /\ strto_integer_m t (firstn n buf') b = Ok (n, TiNone, v).
Proof.
  intros t v b Hv Hb. split.
  - intros Hbits. exact (strto_spec_roundtrip t v b Hbits Hv Hb).
  - intros buf Hw Hlen. exact (strto_roundtrip t v b buf Hw Hv Hb Hlen).
Qed.
Print Assumptions C10_strto_roundtrip.

(** ** atoi atol atoll: the value of strtol(s, NULL, 10) whenever it is representable *)
Theorem C10_ato_correct : forall t s v, 8 <= bits t -> sgn t = true -> ato_spec t s = Some v ->
  ato_m t s = Ok v.
Proof. exact ato_correct. Qed.
Print Assumptions C10_ato_correct.

(** ** non-vacuity: the hypotheses are satisfiable and the conclusions are about real behaviour *)
Example C10_nonvacuous :
  8 <= bits i8 /\ cxx_width (bits i32) /\ cxx_width (bits u64) /\ cxx_width (bits i8) /\ in_ty i8 (-128) = true /\ in_ty i64 (-9223372036854775808) = true
  /\ to_chars_m i32 (-255) 16 [0; 0; 0] = Ok (false, 3%nat, [45; 102; 102])
  /\ to_chars_spec 16 (-255) 3 = Some [45; 102; 102] /\ to_chars_spec 16 (-255) 2 = None
  /\ from_chars_m i8 [45; 49; 50; 56; 32] 10 7 = Ok (FcOk, 4%nat, -128)
  /\ from_chars_m i8 [49; 50; 56] 10 7 = Ok (FcRange, 0%nat, 7)
  /\ strto_m i64 [32; 43; 53; 120] 10 = Ok (5, 3%nat)
  /\ strto_m i64 [45; 48; 120; 49; 65; 103] 0 = Ok (-26, 5%nat)          (* strtol("-0x1Ag", &e, 0) *)
  /\ strto_m u64 [45; 49] 10 = Ok (18446744073709551615, 2%nat)          (* strtoul("-1") *)
  /\ strto_m i32 [45; 57; 57; 57; 57; 57; 57; 57; 57; 57; 57; 57] 10 = Ok (-2147483648, 12%nat)
  /\ strto_class i32 10 [45; 57; 57; 57; 57; 57; 57; 57; 57; 57; 57; 57] = SRange
  /\ sto_spec i32 10 [45; 52; 50] = Some (-42, 3%nat) /\ sto_spec i32 10 [120] = None
  /\ ato_spec i32 [52; 50; 120] = Some 42
  /\ to_string_m i32 3 123 = Ok [49; 50; 51] /\ to_string_m i32 2 123 = Contract.
Proof. unfold cxx_width. vm_compute. repeat split; first [congruence | right; congruence | left; split; congruence]. Qed.
