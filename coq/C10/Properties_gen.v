(* C10 — translator tie (see GenEquiv.v): the character classification kernels regenerated on every
   run from /repo's include/etl/_cctype/*.hpp (coq/Gen/Gen_cctype.v) equal, for all int arguments, the
   definitions of C10.Model used by parse_digit_m / skip_ws_m / has_hex_prefix_m, i.e. by to_integer,
   from_chars, the strto / sto / ato families. *)
From Tetl Require Import Lib.Base C10.Model C10.GenEquiv.
From Tetl Require Gen.Gen_cctype Gen.Gen_strconv.
Local Open Scope Z_scope.

Theorem C10_gen_cctype : forall c,
  Gen_cctype.isspace_g c = Some (b2i (isspace_m c))
  /\ Gen_cctype.isdigit_g c = Some (b2i (isdigit_m c))
  /\ Gen_cctype.isupper_g c = Some (b2i (isupper_m c))
  /\ Gen_cctype.isalpha_g c = Some (b2i (isalpha_m c))
  /\ Gen_cctype.isxdigit_g c = Some (b2i (isxdigit_m c))
  /\ Gen_cctype.tolower_g c = Some (tolower_m c).
Proof.
  intros c.
  exact (conj (gen_isspace_eq c) (conj (gen_isdigit_eq c) (conj (gen_isupper_eq c)
        (conj (gen_isalpha_eq c) (conj (gen_isxdigit_eq c) (gen_tolower_eq c)))))).
Qed.
Print Assumptions C10_gen_cctype.

(* the call operators of signed_overflow_checker<Int> / unsigned_overflow_checker<Int>, regenerated for
   Int = signed/unsigned char, short, int, long, are [would_overflow_m] on the two members *)
Theorem C10_gen_overflow_checkers : forall t q r value digit,
  (sgn t = true ->
     Gen_strconv.sck_i8_g value digit q r = Some (would_overflow_m t (q, r) value digit)
     /\ Gen_strconv.sck_i16_g value digit q r = Some (would_overflow_m t (q, r) value digit)
     /\ Gen_strconv.sck_i32_g value digit q r = Some (would_overflow_m t (q, r) value digit)
     /\ Gen_strconv.sck_i64_g value digit q r = Some (would_overflow_m t (q, r) value digit))
  /\ (sgn t = false ->
     Gen_strconv.uck_u8_g value digit q r = Some (would_overflow_m t (q, r) value digit)
     /\ Gen_strconv.uck_u16_g value digit q r = Some (would_overflow_m t (q, r) value digit)
     /\ Gen_strconv.uck_u32_g value digit q r = Some (would_overflow_m t (q, r) value digit)
     /\ Gen_strconv.uck_u64_g value digit q r = Some (would_overflow_m t (q, r) value digit)).
Proof.
  intros t q r value digit.
  exact (conj (gen_signed_checker_eq t q r value digit) (gen_unsigned_checker_eq t q r value digit)).
Qed.
Print Assumptions C10_gen_overflow_checkers.
