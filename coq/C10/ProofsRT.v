(* C10 proofs: parsing the output of formatting returns the original value — every type of
   >= 8 bits, every value of the type, every base 2..36. *)
From Tetl Require Import Lib.Base C10.Model C10.Spec C10.Arith C10.Digits C10.ProofsFmt C10.ProofsParse.
From Coq Require Import ZifyBool.
Local Open Scope Z_scope.
Ltac Zify.zify_post_hook ::= Z.to_euclidean_division_equations.

Lemma digit_char_not_minus d : 0 <= d < 36 -> (digit_char d =? 45) = false.
Proof. intros Hd. unfold digit_char. destruct (d <? 10); lia. Qed.

Lemma negative_signed t v : in_ty t v = true -> v < 0 -> sgn t = true.
Proof.
  intros Hv Hn. destruct (sgn t) eqn:S; [reflexivity|]. pose proof (in_ty_nonneg t v S Hv). lia.
Qed.

(* specification level: reading the text of v yields v and consumes all of it *)
Theorem spec_roundtrip t v b : in_ty t v = true -> 2 <= b <= 36 ->
  from_chars_spec t b (to_text b v) = (POk, length (to_text b v), Some v).
Proof.
  intros Hv Hb. unfold to_text.
  pose proof (digits_bound b (Z.abs v) ltac:(lia)) as Hbd.
  pose proof (digits_eval b (Z.abs v) ltac:(lia) ltac:(lia)) as Hev.
  pose proof (digits_nonempty b (Z.abs v)) as Hne.
  set (ds := digits b (Z.abs v)) in *.
  assert (Htd : take_digits b (map digit_char ds) = ds).
  { pose proof (take_digits_written b ds [] ltac:(lia) Hbd) as H.
    rewrite app_nil_r in H. cbn [take_digits] in H. rewrite app_nil_r in H. exact H. }
  destruct (v <? 0) eqn:En.
  - pose proof (negative_signed t v Hv ltac:(lia)) as S.
    cbn [app]. unfold from_chars_spec. rewrite S. change (45 =? 45) with true. cbn [andb].
    rewrite Htd. destruct ds as [|d ds']; [congruence|]. cbv zeta.
    rewrite Hev. replace (- Z.abs v) with v by lia. rewrite Hv.
    cbn [length]. rewrite map_length. reflexivity.
  - cbn [app]. destruct ds as [|d ds'] eqn:Eds; [congruence|].
    inversion Hbd as [|? ? Hd Hr]; subst.
    unfold from_chars_spec. cbn [map].
    rewrite (digit_char_not_minus d) by lia. rewrite Bool.andb_false_r.
    change (digit_char d :: map digit_char ds') with (map digit_char (d :: ds')).
    rewrite Htd. cbv zeta. rewrite Hev. replace (Z.abs v) with v by lia. rewrite Hv.
    rewrite map_length. reflexivity.
Qed.

(* model level: from_chars (to_chars v) = v, all characters consumed *)
Theorem roundtrip t v b buf v0 : 8 <= bits t -> in_ty t v = true -> 2 <= b <= 36 ->
  (length (to_text b v) <= length buf)%nat ->
  exists n buf', to_chars_m t v b buf = Ok (false, n, buf')
                 /\ from_chars_m t (firstn n buf') b v0 = Ok (FcOk, n, v).
Proof.
  intros Hbits Hv Hb Hfit. pose proof (to_chars_correct t v b buf Hbits Hv Hb) as H.
  unfold to_chars_spec in H. replace (length (to_text b v) <=? length buf)%nat with true in H by lia.
  eexists _, _. split; [exact H|].
  rewrite firstn_len_app. rewrite (from_chars_correct t _ b v0 Hbits Hb).
  rewrite (spec_roundtrip t v b Hv Hb). reflexivity.
Qed.
