(* C10 (review round): to_integer with check_overflow = false on the SIGNED types narrower than int
   (signed char, short: 8..16 bits).  The accumulation value * base - digit happens in int, where it
   cannot overflow, and static_cast<Int> wraps: the call never has undefined behaviour, for any text,
   and computes the negated digit run modulo 2^bits; the final "value == min" test of the code is still
   executed for texts without a minus sign (it reports overflow when the wrapped value happens to be
   min).  Together with ProofsNc.v (unsigned types; all types where the checked conversion succeeds)
   this leaves only int and wider signed types, where a too long text is genuine signed overflow. *)
From Tetl Require Import Lib.Base C10.Model C10.Spec C10.Arith C10.Digits C10.ProofsParse.
From Coq Require Import ZifyBool.
Local Open Scope Z_scope.
Ltac Zify.zify_post_hook ::= Z.to_euclidean_division_equations.

Definition narrow_signed (t : ity) : Prop := sgn t = true /\ 8 <= bits t <= 16.

(** * wrap-around is a function of the residue *)
Lemma wraps_mod w x : 1 <= w -> (wraps w x) mod 2 ^ w = x mod 2 ^ w.
Proof.
  intros Hw. unfold wraps. pose proof (pow2_pos w ltac:(lia)) as HM. set (M := 2 ^ w) in *.
  destruct (x mod M <? 2 ^ (w - 1)).
  - apply Z.mod_mod. lia.
  - replace (x mod M - M) with (x mod M + (-1) * M) by lia. rewrite Z.mod_add by lia. apply Z.mod_mod. lia.
Qed.

Lemma wraps_congr w x y : x mod 2 ^ w = y mod 2 ^ w -> wraps w x = wraps w y.
Proof. intros H. unfold wraps. rewrite H. reflexivity. Qed.

Lemma wraps_range w x : 1 <= w -> - 2 ^ (w - 1) <= wraps w x < 2 ^ (w - 1).
Proof.
  intros Hw. unfold wraps. pose proof (pow2_split w Hw) as Hs. pose proof (pow2_pos (w - 1) ltac:(lia)) as Hp.
  pose proof (Z.mod_pos_bound x (2 ^ w) ltac:(lia)) as Hb.
  destruct (x mod 2 ^ w <? 2 ^ (w - 1)) eqn:E; lia.
Qed.

Lemma wraps_in_ty t x : narrow_signed t -> in_ty t (wraps (bits t) x) = true.
Proof.
  intros [Hsg Hw]. apply in_ty_iff. unfold imin, imax. rewrite Hsg. unfold smin, smax.
  pose proof (wraps_range (bits t) x ltac:(lia)). lia.
Qed.

(** * one accumulation step *)
Lemma accumulate_nc_s t base V d : narrow_signed t -> 2 <= base <= 36 -> 0 <= d < base ->
  in_ty t V = true -> accumulate_m t base V d = Ok (wraps (bits t) (V * base - d)).
Proof.
  intros [Hsg Hw] Hb Hd HV. unfold accumulate_m, parith, promote.
  replace (bits t <? 32) with true by lia. cbn [sgn i32].
  apply in_ty_iff in HV. unfold imin, imax in HV. rewrite Hsg in HV. unfold smin, smax in HV.
  pose proof (pow2_mono (bits t - 1) 15 ltac:(lia)) as Hm. change (2 ^ 15) with 32768 in Hm.
  pose proof (pow2_pos (bits t - 1) ltac:(lia)) as Hp.
  assert (H1 : in_ty i32 (V * base) = true).
  { apply in_ty_iff. change (imin i32) with (-2147483648). change (imax i32) with 2147483647. nia. }
  rewrite H1. cbn [rbind]. rewrite Hsg.
  assert (H2 : in_ty i32 (V * base - d) = true).
  { apply in_ty_iff. change (imin i32) with (-2147483648). change (imax i32) with 2147483647. nia. }
  rewrite H2. cbn [rbind]. unfold cast, wrap_ty. rewrite Hsg. reflexivity.
Qed.

(** * the loop: consumes the longest digit run, value = minus the run, wrapped *)
Lemma ti_loop_nc_s t base : narrow_signed t -> 2 <= base <= 36 -> forall s pos A, 0 <= A ->
  ti_loop_nc t base s pos (wraps (bits t) (- A)) =
    Ok ((pos + length (take_digits base s))%nat, wraps (bits t) (- eval_digits base A (take_digits base s))).
Proof.
  intros Hn Hb. pose proof Hn as [Hsg Hw]. assert (Hbits : 8 <= bits t) by lia.
  pose proof (imin_imax t Hbits) as Hi.
  induction s as [|c r IH]; intros pos A HA; cbn [ti_loop_nc take_digits length eval_digits].
  - f_equal. f_equal. lia.
  - destruct (char_digit c) as [d|] eqn:Ec.
    + pose proof (char_digit_range c d Ec) as Hd.
      rewrite (parse_digit_valid t c d Hbits Ec).
      destruct (d <? base) eqn:Elt.
      * replace (d >=? base) with false by lia.
        rewrite (accumulate_nc_s t base _ d Hn Hb ltac:(lia) (wraps_in_ty t (- A) Hn)). cbn [rbind].
        assert (Hc : wraps (bits t) (wraps (bits t) (- A) * base - d) = wraps (bits t) (- (A * base + d))).
        { apply wraps_congr. rewrite Zminus_mod, Zmult_mod, wraps_mod by lia.
          rewrite <- Zmult_mod, <- Zminus_mod. f_equal. lia. }
        rewrite Hc. rewrite (IH (S pos) (A * base + d) ltac:(nia)). cbn [length eval_digits].
        f_equal. f_equal. lia.
      * replace (d >=? base) with true by lia. cbn [length eval_digits]. f_equal. f_equal. lia.
    + rewrite (parse_digit_invalid t c Ec). replace (imax t >=? base) with true by lia.
      cbn [length eval_digits]. f_equal. f_equal. lia.
Qed.

(** * from the first digit on *)
Lemma nc_s_digits t base (positive : bool) c r p : narrow_signed t -> 2 <= base <= 36 ->
  let digit := parse_digit_m t c in
  rbind (if sgn t then rbind (parith t (- digit)) (fun x => Ok (cast t x)) else Ok digit) (fun value0 =>
  rbind (abs_m t value0) (fun a =>
  if cast t a >=? base then ti_error TiInvalid
  else
    rbind (rbind (ti_loop_nc t base r (S p) value0) (fun lr => Ok (fst lr, snd lr, false))) (fun lr =>
    match lr with
    | (_, _, true) => ti_error TiOverflow
    | (pos, value, false) =>
      if sgn t && positive then
        if value =? imin t then ti_error TiOverflow
        else rbind (parith t (value * -1)) (fun x => Ok (pos, TiNone, cast t x))
      else Ok (pos, TiNone, value)
    end)))
  = Ok (match take_digits base (c :: r) with
        | [] => (0%nat, TiInvalid, 0)
        | ds => let W := wraps (bits t) (- eval base ds) in
                if positive
                then (if W =? imin t then (0%nat, TiOverflow, 0) else ((p + length ds)%nat, TiNone, - W))
                else ((p + length ds)%nat, TiNone, W)
        end).
Proof.
  intros Hn Hb. pose proof Hn as [Hsg Hw]. assert (Hbits : 8 <= bits t) by lia. cbv zeta.
  pose proof (imin_imax t Hbits) as Hi. rewrite Hsg. cbn [andb].
  set (g := parse_digit_m t c).
  assert (Hg : 0 <= g <= imax t).
  { subst g. destruct (char_digit c) as [d|] eqn:Ec.
    - rewrite (parse_digit_valid t c d Hbits Ec). pose proof (char_digit_range c d Ec). lia.
    - rewrite (parse_digit_invalid t c Ec). lia. }
  assert (Him : imin t = - imax t - 1) by (unfold imin, imax, smin, smax; rewrite Hsg; lia).
  assert (Hng : in_ty t (- g) = true) by (apply in_ty_iff; lia).
  rewrite (parith_ok t _ Hbits Hng). cbn [rbind]. rewrite (cast_id t _ Hbits Hng).
  rewrite (abs_ok_gen t (- g) Hbits Hng) by (left; apply in_ty_iff; lia). cbn [rbind].
  rewrite Z.abs_opp, Z.abs_eq by lia. rewrite (cast_id t g Hbits) by (apply in_ty_iff; lia).
  cbn [take_digits]. subst g.
  destruct (char_digit c) as [d|] eqn:Ec.
  2:{ rewrite (parse_digit_invalid t c Ec). replace (imax t >=? base) with true by lia. reflexivity. }
  pose proof (char_digit_range c d Ec) as Hd.
  rewrite (parse_digit_valid t c d Hbits Ec) in *.
  destruct (d <? base) eqn:Elt.
  2:{ replace (d >=? base) with true by lia. reflexivity. }
  replace (d >=? base) with false by lia.
  assert (Hd0 : - d = wraps (bits t) (- d)).
  { symmetry. apply wraps_id; [lia|]. pose proof (pow2_7_le (bits t) Hbits). lia. }
  rewrite Hd0 at 1. rewrite (ti_loop_nc_s t base Hn Hb r (S p) d ltac:(lia)). cbn [rbind fst snd].
  set (ds' := take_digits base r).
  change (eval base (d :: ds')) with (eval_digits base d ds').
  set (W := wraps (bits t) (- eval_digits base d ds')). cbn [length].
  destruct positive.
  - destruct (W =? imin t) eqn:Emin; [reflexivity|].
    pose proof (wraps_in_ty t (- eval_digits base d ds') Hn) as HW. fold W in HW. apply in_ty_iff in HW.
    assert (HinW : in_ty t (- W) = true) by (apply in_ty_iff; lia).
    replace (W * -1) with (- W) by lia.
    rewrite (parith_ok t _ Hbits HinW). cbn [rbind]. rewrite (cast_id t _ Hbits HinW).
    f_equal. f_equal. f_equal. lia.
  - f_equal. f_equal. f_equal. lia.
Qed.

(* what the unchecked conversion computes for a signed type narrower than int *)
Definition nc_signed_narrow_spec (t : ity) (skipws plus : bool) (s : list Z) (base : Z) : ti_out :=
  let s1 := if skipws then drop_space s else s in
  let '(neg, s2) := match s1 with
                    | c :: r => if c =? 45 then (true, r) else (false, s1)
                    | [] => (false, s1)
                    end in
  let s3 := match s2 with
            | c :: r => if plus && negb neg && (c =? 43) then r else s2
            | [] => s2
            end in
  let ds := take_digits base s3 in
  match ds with
  | [] => (0%nat, TiInvalid, 0)
  | _ => let W := wraps (bits t) (- eval base ds) in
         let n := (length s - length s3 + length ds)%nat in
         if neg then (n, TiNone, W)
         else if W =? imin t then (0%nat, TiOverflow, 0) else (n, TiNone, - W)
  end.

Theorem to_integer_nc_signed_narrow t skipws plus s base : narrow_signed t -> 2 <= base <= 36 ->
  to_integer_nc_m t skipws plus s base = Ok (nc_signed_narrow_spec t skipws plus s base).
Proof.
  intros Hn Hb. pose proof Hn as [Hsg Hw].
  unfold to_integer_nc_m, to_integer_head, nc_signed_narrow_spec.
  set (s1 := if skipws then drop_space s else s).
  assert (Hws : (if skipws then skip_ws_m s 0 else (s, 0%nat)) = (s1, (length s - length s1)%nat)).
  { subst s1. destruct skipws; [rewrite skip_ws_m_spec; reflexivity|f_equal; lia]. }
  rewrite Hws. clear Hws.
  assert (Hlen1 : (length s1 <= length s)%nat).
  { subst s1. destruct skipws; [apply drop_space_length|lia]. }
  clearbody s1.
  destruct s1 as [|c1 r1]; [reflexivity|].
  replace (sgn t && (c1 =? 45)) with (c1 =? 45) by (rewrite Hsg; reflexivity).
  destruct (c1 =? 45) eqn:Eminus.
  - destruct r1 as [|c2 r2]; [reflexivity|].
    cbn [negb]. replace (plus && false && (c2 =? 43)) with false by (destruct plus; reflexivity).
    replace (S (length s - length (c1 :: c2 :: r2)))%nat with (length s - length (c2 :: r2))%nat
      by (cbn [length] in *; lia).
    rewrite (nc_s_digits t base false c2 r2 _ Hn Hb).
    destruct (take_digits base (c2 :: r2)) as [|d ds]; reflexivity.
  - cbn [negb].
    destruct (plus && true && (c1 =? 43)) eqn:Eplus.
    + destruct r1 as [|c3 r3]; [reflexivity|].
      replace (S (length s - length (c1 :: c3 :: r3)))%nat with (length s - length (c3 :: r3))%nat
        by (cbn [length] in *; lia).
      rewrite (nc_s_digits t base true c3 r3 _ Hn Hb).
      destruct (take_digits base (c3 :: r3)) as [|d ds]; [reflexivity|]. cbv zeta.
      destruct (wraps (bits t) (- eval base (d :: ds)) =? imin t); reflexivity.
    + rewrite (nc_s_digits t base true c1 r1 _ Hn Hb).
      destruct (take_digits base (c1 :: r1)) as [|d ds]; [reflexivity|]. cbv zeta.
      destruct (wraps (bits t) (- eval base (d :: ds)) =? imin t); reflexivity.
Qed.
