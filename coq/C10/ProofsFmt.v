(* C10 proofs, formatting side: from_integer / to_chars / to_string write exactly the numeral of
   the specification when it fits and report an error without leaving the buffer otherwise —
   for every integer type of >= 8 bits, every value of the type, every base 2..36 and every
   buffer (length and previous contents). *)
From Tetl Require Import Lib.Base C10.Model C10.Spec C10.Arith C10.Digits.
From Coq Require Import ZifyBool.
Local Open Scope Z_scope.
Ltac Zify.zify_post_hook ::= Z.to_euclidean_division_equations.

(** * lists *)
Lemma firstn_len_app {A} (l1 l2 : list A) : firstn (length l1) (l1 ++ l2) = l1.
Proof. induction l1 as [|x l1 IH]; cbn [length firstn app]; [destruct l2; reflexivity|f_equal; exact IH]. Qed.

Lemma skipn_len_app {A} (l1 l2 : list A) : skipn (length l1) (l1 ++ l2) = l2.
Proof. induction l1 as [|x l1 IH]; cbn [length skipn app]; [reflexivity|exact IH]. Qed.

Lemma upd_app (pre : list Z) x post c : upd (pre ++ x :: post) (length pre) c = pre ++ c :: post.
Proof. induction pre as [|y pre IH]; cbn [app length upd]; [reflexivity|f_equal; exact IH]. Qed.

Lemma wr_app pre x post c : wr (pre ++ x :: post) (length pre) c = Ok (pre ++ c :: post).
Proof.
  unfold wr. rewrite app_length. cbn [length].
  replace (length pre <? length pre + S (length post))%nat with true by lia.
  rewrite upd_app. reflexivity.
Qed.

Lemma skipn_S_tail {A} (n : nat) : forall (l : list A) y rest, skipn n l = y :: rest -> skipn (S n) l = rest.
Proof.
  induction n as [|n IH]; intros l y rest H.
  - cbn [skipn] in H. subst l. reflexivity.
  - destruct l as [|x l]; [discriminate|]. cbn [skipn] in H. apply IH in H. exact H.
Qed.

Lemma wr_head x post c : wr (x :: post) 0 c = Ok (c :: post).
Proof. reflexivity. Qed.

Lemma rev_range_app pre ds rest :
  rev_range (pre ++ ds ++ rest) (length pre) (length pre + length ds) = pre ++ rev ds ++ rest.
Proof.
  unfold rev_range. rewrite firstn_len_app, skipn_len_app.
  replace (length pre + length ds - length pre)%nat with (length ds) by lia.
  rewrite firstn_len_app. f_equal. f_equal.
  rewrite app_assoc. rewrite <- app_length. apply skipn_len_app.
Qed.

(** * characters *)
Lemma digit_char_m_spec d : 0 <= d < 36 -> digit_char_m d = digit_char d.
Proof.
  intros Hd. unfold digit_char_m, digit_char.
  destruct (d >? 9) eqn:E1; destruct (d <? 10) eqn:E2; try lia; rewrite wraps8_id by lia; lia.
Qed.

(** * the digit loop *)
Definition loop_chars (fuel : nat) (b num : Z) : list Z := map digit_char (rdigits fuel b (Z.abs num)).

Lemma fi_loop_spec t b : 8 <= bits t -> 2 <= b <= 36 ->
  forall fuel num pre post, in_ty t num = true -> Z.abs num < 2 ^ Z.of_nat fuel ->
  fi_loop fuel t b num (length pre) (pre ++ post) =
    let ds := loop_chars fuel b num in
    if (length ds <=? length post)%nat
    then Ok (pre ++ ds ++ skipn (length ds) post, Some (length pre + length ds)%nat)
    else Ok (pre ++ firstn (length post) ds, None).
Proof.
  intros Hbits Hb. induction fuel as [|f IH]; intros num pre post Hin Habs.
  - change (2 ^ Z.of_nat 0) with 1 in Habs. assert (num = 0) by lia. subst num.
    cbn [fi_loop]. change (0 =? 0) with true. cbv beta iota.
    unfold loop_chars. cbn [rdigits map length Nat.leb app skipn]. rewrite Nat.add_0_r. reflexivity.
  - destruct (Z.eq_dec num 0) as [->|Hne].
    + cbn [fi_loop]. change (0 =? 0) with true. cbv beta iota.
      unfold loop_chars. cbn [Z.abs rdigits]. change (0 <=? 0) with true. cbv iota.
      cbn [map length Nat.leb app skipn]. rewrite Nat.add_0_r. reflexivity.
    + cbn [fi_loop]. replace (num =? 0) with false by lia. cbv iota.
      unfold loop_chars. cbn [rdigits]. replace (Z.abs num <=? 0) with false by lia. cbv iota.
      cbn [map length].
      destruct post as [|x post].
      * rewrite app_nil_r. replace (length pre <=? length pre)%nat with true by lia.
        cbn [length Nat.leb firstn]. rewrite app_nil_r. reflexivity.
      * rewrite app_length. cbn [length].
        replace (length pre + S (length post) <=? length pre)%nat with false by lia.
        rewrite (idiv_ok t num b Hbits Hb Hin). cbn [rbind fst snd].
        pose proof (rem_bound num b ltac:(lia)) as Hr.
        rewrite (abs_ok t _ Hbits) by lia. cbn [rbind].
        rewrite (rem_abs num b) by lia.
        pose proof (Z.mod_pos_bound (Z.abs num) b ltac:(lia)) as Hm.
        rewrite (wraps8_id (Z.abs num mod b)) by lia.
        rewrite digit_char_m_spec by lia.
        rewrite wr_app. cbn [rbind].
        set (c := digit_char (Z.abs num mod b)).
        replace (pre ++ c :: post) with ((pre ++ [c]) ++ post) by (rewrite <- app_assoc; reflexivity).
        replace (S (length pre)) with (length (pre ++ [c])) by (rewrite app_length; cbn [length]; lia).
        rewrite IH.
        2:{ apply in_ty_quot; [assumption|lia|assumption]. }
        2:{ rewrite quot_abs by lia. apply (div_lt_pow2 b (Z.abs num) f); lia. }
        unfold loop_chars. rewrite quot_abs by lia.
        set (ds := map digit_char (rdigits f b (Z.abs num / b))).
        cbv zeta. cbn [Nat.leb].
        destruct (length ds <=? length post)%nat eqn:E.
        -- f_equal. f_equal.
           ++ rewrite <- app_assoc. cbn [app skipn]. reflexivity.
           ++ f_equal. rewrite app_length. cbn [length]. lia.
        -- f_equal. f_equal. rewrite <- app_assoc. cbn [app firstn]. reflexivity.
Qed.

(** * from_integer *)
Lemma in_ty_abs_lt t v : 8 <= bits t -> in_ty t v = true -> Z.abs v < 2 ^ Z.of_nat (Z.to_nat (bits t) + 1).
Proof.
  intros Hbits Hv. apply in_ty_iff in Hv.
  replace (Z.of_nat (Z.to_nat (bits t) + 1)) with (bits t + 1) by lia.
  rewrite Z.pow_add_r by lia. change (2 ^ 1) with 2.
  pose proof (pow2_split (bits t) ltac:(lia)) as Hs. pose proof (pow2_pos (bits t - 1) ltac:(lia)) as Hp.
  unfold imin, imax, smin, smax, umax in Hv. destruct (sgn t); lia.
Qed.

(* the text of the specification in terms of the loop's characters *)
Lemma to_text_loop t v b : 8 <= bits t -> in_ty t v = true -> 2 <= b -> v <> 0 ->
  to_text b v = (if v <? 0 then [45] else []) ++ rev (loop_chars (Z.to_nat (bits t) + 1) b v).
Proof.
  intros Hbits Hv Hb Hne. unfold to_text, loop_chars. f_equal.
  rewrite (digits_rdigits b (Z.abs v) (Z.to_nat (bits t) + 1) Hb).
  - rewrite map_rev. reflexivity.
  - pose proof (in_ty_abs_lt t v Hbits Hv). lia.
Qed.

Lemma to_text_zero b : to_text b 0 = [48].
Proof. reflexivity. Qed.

(* postcondition of from_integer in terms of the specification's text *)
Definition fi_post (term : bool) (b v : Z) (buf : list Z) (r : res fi_out) : Prop :=
  let s := to_text b v in
  let tl := if term then 1%nat else 0%nat in
  if (length s + tl <=? length buf)%nat
  then r = Ok (s ++ (if term then [0] else []) ++ skipn (length s + tl) buf, false, Some (length s))
  else exists buf' e, r = Ok (buf', true, e) /\ length buf' = length buf.

Lemma from_integer_spec t term v b buf : 8 <= bits t -> in_ty t v = true -> 2 <= b <= 36 ->
  fi_post term b v buf (from_integer_m t term v b buf).
Proof.
  intros Hbits Hv Hb. unfold fi_post, from_integer_m.
  destruct (Z.eq_dec v 0) as [->|Hne].
  - (* zero *)
    change (0 =? 0) with true. cbv iota. rewrite to_text_zero. cbn [length].
    destruct term.
    + destruct buf as [|x [|y buf]]; cbn [length Nat.leb Nat.ltb Nat.add].
      * exists [], (Some 0%nat). split; reflexivity.
      * exists [x], (Some 1%nat). split; reflexivity.
      * reflexivity.
    + destruct buf as [|x buf]; cbn [length Nat.leb Nat.ltb Nat.add].
      * exists [], (Some 0%nat). split; reflexivity.
      * reflexivity.
  - replace (v =? 0) with false by lia. cbv iota.
    assert (Hneg : sgn t && (v <? 0) = (v <? 0)).
    { destruct (sgn t) eqn:S; [reflexivity|]. pose proof (in_ty_nonneg t v S Hv). cbn [andb]. lia. }
    rewrite Hneg.
    rewrite (cast_id t b Hbits) by (apply in_ty_small; [assumption|lia]).
    rewrite (to_text_loop t v b Hbits Hv ltac:(lia) Hne).
    set (F := (Z.to_nat (bits t) + 1)%nat).
    pose proof (in_ty_abs_lt t v Hbits Hv) as Habs. fold F in Habs.
    set (ds := loop_chars F b v).
    assert (Hds : loop_chars F b v = ds) by reflexivity.
    rewrite app_length, rev_length.
    destruct (v <? 0) eqn:Eneg.
    + (* negative: the sign is stored first *)
      destruct buf as [|x post].
      * cbn [length]. change (0 <=? 0)%nat with true. cbn [andb].
        replace (1 + length ds + (if term then 1 else 0) <=? 0)%nat with false by lia.
        exists [], None. split; reflexivity.
      * cbn [length]. replace (S (length post) <=? 0)%nat with false by lia. cbn [andb].
        rewrite wr_head. cbn [rbind].
        pose proof (fi_loop_spec t b Hbits Hb F v [45] post Hv Habs) as Hloop.
        cbv zeta in Hloop. rewrite Hds in Hloop. cbn [length app] in Hloop. rewrite Hloop. clear Hloop.
        destruct (length ds <=? length post)%nat eqn:Efit.
        -- cbn [rbind].
           pose proof (rev_range_app [45] ds (skipn (length ds) post)) as Hrev.
           cbn [length app] in Hrev. cbn [app]. rewrite Hrev. clear Hrev.
           destruct term.
           ++ destruct (S (length post) <=? 1 + length ds)%nat eqn:Eterm.
              ** replace (1 + length ds + 1 <=? S (length post))%nat with false by lia.
                 eexists _, None. split; [reflexivity|].
                 cbn [length]. rewrite app_length, rev_length, skipn_length. lia.
              ** replace (1 + length ds + 1 <=? S (length post))%nat with true by lia.
                 assert (Hsk : exists y rest, skipn (length ds) post = y :: rest).
                 { destruct (skipn (length ds) post) as [|y rest] eqn:Es; [|eauto].
                   apply (f_equal (@length Z)) in Es. rewrite skipn_length in Es. cbn [length] in Es. lia. }
                 destruct Hsk as (y & rest & Hsk). rewrite Hsk.
                 pose proof (wr_app (45 :: rev ds) y rest 0) as Hwr.
                 cbn [length] in Hwr. rewrite rev_length in Hwr. cbn [app] in Hwr.
                 replace (1 + length ds)%nat with (S (length ds)) by lia.
                 rewrite Hwr. clear Hwr. cbn [rbind].
                 replace (S (length ds) + 1)%nat with (S (S (length ds))) by lia.
                 change (skipn (S (S (length ds))) (x :: post)) with (skipn (S (length ds)) post). cbn [app].
                 rewrite (skipn_S_tail _ _ _ _ Hsk). reflexivity.
           ++ replace (1 + length ds + 0 <=? S (length post))%nat with true by lia.
              replace (1 + length ds + 0)%nat with (S (length ds)) by lia. reflexivity.
        -- cbn [rbind].
           replace (1 + length ds + (if term then 1 else 0) <=? S (length post))%nat with false
             by (destruct term; lia).
           eexists _, None. split; [reflexivity|].
           cbn [length app]. rewrite firstn_length. lia.
    + (* non-negative *)
      cbn [andb rbind].
      pose proof (fi_loop_spec t b Hbits Hb F v [] buf Hv Habs) as Hloop.
      cbv zeta in Hloop. rewrite Hds in Hloop. cbn [length app Nat.add] in Hloop. rewrite Hloop. clear Hloop.
      cbn [length app Nat.add].
      destruct (length ds <=? length buf)%nat eqn:Efit.
      * cbn [rbind].
        pose proof (rev_range_app [] ds (skipn (length ds) buf)) as Hrev.
        cbn [length app Nat.add] in Hrev. rewrite Hrev. clear Hrev.
        destruct term.
        -- destruct (length buf <=? length ds)%nat eqn:Eterm.
           ++ replace (length ds + 1 <=? length buf)%nat with false by lia.
              eexists _, None. split; [reflexivity|].
              rewrite app_length, rev_length, skipn_length. lia.
           ++ replace (length ds + 1 <=? length buf)%nat with true by lia.
              assert (Hsk : exists y rest, skipn (length ds) buf = y :: rest).
              { destruct (skipn (length ds) buf) as [|y rest] eqn:Es; [|eauto].
                apply (f_equal (@length Z)) in Es. rewrite skipn_length in Es. cbn [length] in Es. lia. }
              destruct Hsk as (y & rest & Hsk). rewrite Hsk.
              pose proof (wr_app (rev ds) y rest 0) as Hwr. rewrite rev_length in Hwr.
              rewrite Hwr. clear Hwr. cbn [rbind]. f_equal. f_equal. f_equal. f_equal. cbn [app]. f_equal.
              replace (length ds + 1)%nat with (S (length ds)) by lia.
              symmetry. apply (skipn_S_tail _ _ _ _ Hsk).
        -- replace (length ds + 0 <=? length buf)%nat with true by lia.
           f_equal. f_equal. f_equal. f_equal. cbn [app]. f_equal. lia.
      * cbn [rbind].
        replace (length ds + (if term then 1 else 0) <=? length buf)%nat with false by (destruct term; lia).
        eexists _, None. split; [reflexivity|].
        rewrite firstn_length. lia.
Qed.

(** * to_chars *)
Theorem to_chars_correct t v b buf : 8 <= bits t -> in_ty t v = true -> 2 <= b <= 36 ->
  match to_chars_spec b v (length buf) with
  | Some s => to_chars_m t v b buf = Ok (false, length s, s ++ skipn (length s) buf)
  | None => exists buf', to_chars_m t v b buf = Ok (true, length buf, buf') /\ length buf' = length buf
  end.
Proof.
  intros Hbits Hv Hb. pose proof (from_integer_spec t false v b buf Hbits Hv Hb) as H.
  unfold fi_post in H. cbv zeta in H. unfold to_chars_spec, to_chars_m.
  rewrite Nat.add_0_r in H.
  destruct (length (to_text b v) <=? length buf)%nat eqn:E.
  - rewrite H. cbn [rbind app]. reflexivity.
  - destruct H as (buf' & e & H & L). rewrite H. cbn [rbind]. exists buf'. split; [reflexivity|exact L].
Qed.

(* the characters never leave [first, last): the model's bounds-checked stores never fail, for
   any buffer length, and the buffer keeps its length *)
Corollary to_chars_in_bounds t v b buf : 8 <= bits t -> in_ty t v = true -> 2 <= b <= 36 ->
  exists err n buf', to_chars_m t v b buf = Ok (err, n, buf') /\ length buf' = length buf /\ (n <= length buf)%nat.
Proof.
  intros Hbits Hv Hb. pose proof (to_chars_correct t v b buf Hbits Hv Hb) as H.
  unfold to_chars_spec in H. destruct (length (to_text b v) <=? length buf)%nat eqn:E.
  - eexists _, _, _. split; [exact H|]. split; [|lia].
    rewrite app_length, skipn_length. lia.
  - destruct H as (buf' & H & L). eexists _, _, _. split; [exact H|]. split; [exact L|lia].
Qed.

(** * to_string<Capacity> *)
Theorem to_string_correct t cap v : 8 <= bits t -> in_ty t v = true ->
  to_string_m t cap v = if (length (to_text 10 v) <=? cap)%nat then Ok (to_text 10 v) else Contract.
Proof.
  intros Hbits Hv. pose proof (from_integer_spec t true v 10 (repeat 0 (cap + 1)) Hbits Hv ltac:(lia)) as H.
  unfold fi_post in H. cbv zeta in H. rewrite repeat_length in H. unfold to_string_m.
  destruct (length (to_text 10 v) <=? cap)%nat eqn:E.
  - replace (length (to_text 10 v) + 1 <=? cap + 1)%nat with true in H by lia.
    rewrite H. cbn [rbind]. rewrite E. rewrite firstn_len_app. reflexivity.
  - replace (length (to_text 10 v) + 1 <=? cap + 1)%nat with false in H by lia.
    destruct H as (buf' & e & H & _). rewrite H. cbn [rbind]. reflexivity.
Qed.
