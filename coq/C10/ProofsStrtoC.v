(* C10 proofs: detail::strto_integer (the conversion behind strtol strtoll strtoul strtoull and
   stoi stol stoll stoul stoull after the fix commits) implements C17 7.22.1.4 for EVERY character
   sequence: white space, sign, 0x / 0 prefixes with base 0 and 16, saturation at the limits of the
   result type, negation in the unsigned type — no excluded region. *)
From Tetl Require Import Lib.Base C10.Model C10.Spec C10.Arith C10.Digits C10.ProofsParse C10.ProofsNc.
From Coq Require Import ZifyBool.
Local Open Scope Z_scope.
Ltac Zify.zify_post_hook ::= Z.to_euclidean_division_equations.

(** * characters and prefixes *)
Lemma isxdigit_m_spec c : isxdigit_m c = is_hex c.
Proof.
  unfold isxdigit_m, is_hex, char_digit.
  destruct ((48 <=? c) && (c <=? 57)) eqn:E1; [cbn [orb]; lia|].
  destruct ((97 <=? c) && (c <=? 122)) eqn:E2; [cbn [orb]; lia|].
  destruct ((65 <=? c) && (c <=? 90)) eqn:E3; cbn [orb]; lia.
Qed.

Lemma has_hex_prefix_m_spec s : has_hex_prefix_m s = has_0x s.
Proof.
  destruct s as [|c0 [|c1 [|c2 r]]]; try reflexivity.
  cbn [has_hex_prefix_m has_0x]. rewrite isxdigit_m_spec. reflexivity.
Qed.

(* the sign step of strto_integer is split_sign *)
Lemma sign_step_spec (s1 : list Z) (p1 : nat) :
  match s1 with
  | c :: r => if (c =? 45) || (c =? 43) then (c =? 45, r, S p1) else (false, s1, p1)
  | [] => (false, s1, p1)
  end = (fst (split_sign s1), snd (split_sign s1), (p1 + (length s1 - length (snd (split_sign s1))))%nat).
Proof.
  destruct s1 as [|c r]; cbn [split_sign fst snd length].
  - f_equal. lia.
  - destruct (c =? 45) eqn:E45; cbn [orb fst snd length].
    + f_equal. lia.
    + destruct (c =? 43); cbn [fst snd length]; f_equal; lia.
Qed.

(** * the unsigned magnitude parse *)
Lemma unsigned_bits t : bits (unsigned_of t) = bits t.
Proof. reflexivity. Qed.

Lemma gparse_unsigned ut s b : sgn ut = false ->
  gparse ut false false s b =
    match take_digits b s with
    | [] => (0%nat, TiInvalid, 0)
    | ds => if in_ty ut (eval b ds) then (length ds, TiNone, eval b ds) else (0%nat, TiOverflow, 0)
    end.
Proof.
  intros Hs. unfold gparse. rewrite Hs. cbn [andb].
  replace (match s with [] => (false, s) | _ :: _ => (false, s) end) with (false, s) by (destruct s; reflexivity).
  replace (match s with [] => s | _ :: _ => s end) with s by (destruct s; reflexivity).
  destruct (take_digits b s) as [|d ds]; [reflexivity|].
  cbv zeta. destruct (in_ty ut (eval b (d :: ds))); [|reflexivity].
  f_equal. f_equal. lia.
Qed.

(* the second pass (check_overflow = false) ends behind the whole digit run *)
Lemma to_integer_nc_end ut base s d ds : sgn ut = false -> cxx_width (bits ut) -> 2 <= base <= 36 ->
  take_digits base s = d :: ds ->
  exists v, to_integer_nc_m ut false false s base = Ok (length (d :: ds), TiNone, v).
Proof.
  intros Hs Hw Hb Hd. rewrite (to_integer_nc_unsigned ut false false s base Hs Hw Hb).
  unfold nc_unsigned_spec. cbn [andb].
  replace (match s with [] => s | _ :: _ => s end) with s by (destruct s; reflexivity).
  rewrite Hd. eexists. f_equal. f_equal. f_equal. lia.
Qed.

(** * from the digits on *)
Lemma eval_take_nonneg b s : 1 <= b -> 0 <= eval b (take_digits b s).
Proof.
  intros Hb. unfold eval.
  pose proof (eval_digits_lower b (take_digits b s) 0 Hb ltac:(lia) (take_digits_nonneg b s)). lia.
Qed.

(* the value of C17 7.22.1.4 for the magnitude m of a non-empty digit run *)
Definition strto_value (t : ity) (neg : bool) (m : Z) : Z :=
  if sgn t then
    let v := if neg then - m else m in
    if v <? imin t then imin t else if v >? imax t then imax t else v
  else if m >? imax t then imax t else if neg then (- m) mod 2 ^ bits t else m.

Lemma cast_cast_unsigned w x : 1 <= w -> wraps w (wrapu w x) = wraps w x.
Proof.
  intros Hw. unfold wraps, wrapu. rewrite Z.mod_mod; [reflexivity|].
  pose proof (pow2_pos w ltac:(lia)). lia.
Qed.

Lemma convert_spec t neg b' s3 p3 : cxx_width (bits t) -> 2 <= b' <= 36 ->
  strto_convert_m t neg b' s3 p3 =
    Ok (match take_digits b' s3 with
        | [] => (0%nat, TiInvalid, 0)
        | ds => let m := eval b' ds in
                ((p3 + length ds)%nat, if strto_in_range t neg m then TiNone else TiOverflow, strto_value t neg m)
        end).
Proof.
  intros Hw Hb. assert (Hbits : 8 <= bits t) by (destruct Hw; lia).
  unfold strto_convert_m. cbv zeta.
  set (ut := unsigned_of t).
  assert (Hub : cxx_width (bits ut)) by exact Hw.
  assert (Hub8 : 8 <= bits ut) by exact Hbits.
  assert (Hus : sgn ut = false) by reflexivity.
  rewrite (cast_id ut b' ltac:(lia)) by (apply in_ty_small; lia).
  rewrite (to_integer_spec ut false false s3 b' ltac:(lia) Hb). cbn [rbind].
  rewrite (gparse_unsigned ut s3 b' Hus).
  pose proof (eval_take_nonneg b' s3 ltac:(lia)) as Hm0.
  destruct (take_digits b' s3) as [|d ds] eqn:Ed; [reflexivity|].
  cbv beta iota zeta.
  set (m := eval b' (d :: ds)) in *.
  pose proof (pow2_pos (bits t) ltac:(lia)) as Hp.
  pose proof (pow2_split (bits t) ltac:(lia)) as Hsplit.
  pose proof (pow2_pos (bits t - 1) ltac:(lia)) as Hp1.
  assert (Humax : imax ut = 2 ^ bits t - 1) by reflexivity.
  assert (Humin : imin ut = 0) by reflexivity.
  unfold strto_in_range, strto_value.
  destruct (in_ty ut m) eqn:Ein.
  - (* the magnitude fits the unsigned type *)
    apply in_ty_iff in Ein. cbn [rbind orb].
    destruct t as [w sg]. cbn [bits sgn] in *. destruct sg; cbn [sgn andb negb].
    + (* signed result type *)
      assert (Hi : imax {| bits := w; sgn := true |} = 2 ^ (w - 1) - 1) by reflexivity.
      assert (Hn : imin {| bits := w; sgn := true |} = - 2 ^ (w - 1)) by reflexivity.
      rewrite (cast_id ut (imax _)) by (try apply in_ty_iff; cbn [bits]; lia).
      rewrite (cast_id ut) by (try apply in_ty_iff; cbn [bits]; destruct neg; lia).
      cbv zeta. rewrite Hi, Hn. unfold in_ty. rewrite Hi, Hn.
      destruct neg.
      * destruct (m >? 2 ^ (w - 1) - 1 + 1) eqn:Egt.
        -- replace (- m <? - 2 ^ (w - 1)) with true by lia.
           replace ((- 2 ^ (w - 1) <=? - m) && (- m <=? 2 ^ (w - 1) - 1)) with false by lia. reflexivity.
        -- replace (- m <? - 2 ^ (w - 1)) with false by lia.
           replace (- m >? 2 ^ (w - 1) - 1) with false by lia.
           replace ((- 2 ^ (w - 1) <=? - m) && (- m <=? 2 ^ (w - 1) - 1)) with true by lia.
           unfold cast, wrap_ty, ut, unsigned_of. cbn [sgn bits].
           rewrite cast_cast_unsigned by lia. rewrite wraps_id by lia. try (do 2 f_equal; lia).
      * destruct (m >? 2 ^ (w - 1) - 1 + 0) eqn:Egt.
        -- replace (m <? - 2 ^ (w - 1)) with false by lia.
           replace (m >? 2 ^ (w - 1) - 1) with true by lia.
           replace ((- 2 ^ (w - 1) <=? m) && (m <=? 2 ^ (w - 1) - 1)) with false by lia. reflexivity.
        -- replace (m <? - 2 ^ (w - 1)) with false by lia.
           replace (m >? 2 ^ (w - 1) - 1) with false by lia.
           replace ((- 2 ^ (w - 1) <=? m) && (m <=? 2 ^ (w - 1) - 1)) with true by lia.
           unfold cast, wrap_ty. cbn [sgn bits]. rewrite wraps_id by lia. reflexivity.
    + (* unsigned result type *)
      change (imax {| bits := w; sgn := false |}) with (2 ^ w - 1).
      replace (m >? 2 ^ w - 1) with false by lia. replace (m <=? 2 ^ w - 1) with true by lia.
      unfold cast, wrap_ty, ut, unsigned_of. cbn [sgn bits]. unfold wrapu.
      destruct neg.
      * rewrite Z.mod_mod by lia. reflexivity.
      * rewrite Z.mod_small by lia. reflexivity.
  - (* the magnitude does not even fit the unsigned type: the end comes from the unchecked pass *)
    assert (Hbig : 2 ^ bits t - 1 < m).
    { apply Bool.not_true_iff_false in Ein. rewrite in_ty_iff in Ein. lia. }
    cbn [rbind orb].
    destruct (to_integer_nc_end ut b' s3 d ds Hus Hub Hb Ed) as [v Hv]. rewrite Hv. cbn [rbind].
    destruct t as [w sg]. cbn [bits sgn] in *. destruct sg; cbn [sgn andb negb orb].
    + assert (Hi : imax {| bits := w; sgn := true |} = 2 ^ (w - 1) - 1) by reflexivity.
      assert (Hn : imin {| bits := w; sgn := true |} = - 2 ^ (w - 1)) by reflexivity.
      cbv zeta. unfold in_ty. rewrite Hi, Hn.
      destruct neg.
      * replace (- m <? - 2 ^ (w - 1)) with true by lia.
        replace ((- 2 ^ (w - 1) <=? - m) && (- m <=? 2 ^ (w - 1) - 1)) with false by lia. reflexivity.
      * replace (m <? - 2 ^ (w - 1)) with false by lia.
        replace (m >? 2 ^ (w - 1) - 1) with true by lia.
        replace ((- 2 ^ (w - 1) <=? m) && (m <=? 2 ^ (w - 1) - 1)) with false by lia. reflexivity.
    + change (imax {| bits := w; sgn := false |}) with (2 ^ w - 1).
      replace (m >? 2 ^ w - 1) with true by lia. replace (m <=? 2 ^ w - 1) with false by lia. reflexivity.
Qed.

(** * the whole conversion against C17 7.22.1.4 *)
Definition ti_of (c : sclass) : ti_err :=
  match c with SOk => TiNone | SNoConv => TiInvalid | SRange => TiOverflow end.

Lemma strto_spec_value t b s :
  strto_spec t b s =
    let '(neg, b', ds, n) := subject b s in
    match ds with [] => (0, 0%nat) | _ => (strto_value t neg (eval b' ds), n) end.
Proof.
  unfold strto_spec, strto_value. destruct (subject b s) as [[[neg b'] ds] n].
  destruct ds; [reflexivity|]. destruct (sgn t); reflexivity.
Qed.

Lemma skipn2_length {A} (l : list A) : (3 <= length l -> length (skipn 2 l) = length l - 2)%nat.
Proof. destruct l as [|a [|b l]]; cbn [length skipn]; lia. Qed.

Lemma has_0x_length s : has_0x s = true -> (3 <= length s)%nat.
Proof. destruct s as [|c0 [|c1 [|c2 r]]]; cbn [has_0x length]; try discriminate. lia. Qed.

Theorem strto_integer_correct t s b : cxx_width (bits t) -> b = 0 \/ 2 <= b <= 36 ->
  strto_integer_m t s b = Ok (snd (strto_spec t b s), ti_of (strto_class t b s), fst (strto_spec t b s)).
Proof.
  intros Hbits Hb. unfold strto_integer_m.
  replace ((b <? 0) || (b =? 1) || (b >? 36)) with false by lia.
  rewrite skip_ws_m_spec. cbv beta iota.
  rewrite sign_step_spec. cbv beta iota.
  rewrite has_hex_prefix_m_spec.
  rewrite strto_spec_value. unfold strto_class, subject.
  pose proof (drop_space_length s) as Hl1.
  set (s1 := drop_space s) in *.
  destruct (split_sign s1) as [neg s2] eqn:Esp. cbn [fst snd].
  assert (Hl2 : (length s2 <= length s1)%nat).
  { destruct s1 as [|c r]; cbn [split_sign] in Esp.
    - inversion Esp; subst. lia.
    - destruct (c =? 45); [|destruct (c =? 43)]; inversion Esp; subst; cbn [length]; lia. }
  set (skip := ((b =? 0) || (b =? 16)) && has_0x s2).
  set (b' := if b =? 0
             then (if has_0x s2 then 16 else match s2 with [] => 10 | z :: _ => if z =? 48 then 8 else 10 end)
             else b).
  set (s3 := if skip then skipn 2 s2 else s2).
  (* the prefix step of the code yields the specification's base, rest and position *)
  assert (Hpre : (if skip then (16, skipn 2 s2, (0 + (length s - length s1) + (length s1 - length s2) + 2)%nat)
                  else if b =? 0
                       then (match s2 with [] => 10 | c :: _ => if c =? 48 then 8 else 10 end, s2,
                             (0 + (length s - length s1) + (length s1 - length s2))%nat)
                       else (b, s2, (0 + (length s - length s1) + (length s1 - length s2))%nat))
                 = (b', s3, (length s - length s3)%nat) /\ 2 <= b' <= 36).
  { subst b' s3. destruct skip eqn:Eskip.
    - subst skip. apply andb_prop in Eskip. destruct Eskip as [Eb Ex]. rewrite Ex.
      pose proof (has_0x_length s2 Ex) as H3. rewrite (skipn2_length s2 H3).
      split; [|destruct (b =? 0); lia].
      replace (if b =? 0 then 16 else b) with 16 by (destruct (b =? 0) eqn:E0; lia).
      f_equal. lia.
    - subst skip. destruct (b =? 0) eqn:E0.
      + cbn [orb andb] in Eskip. rewrite Eskip. split; [f_equal; lia|].
        destruct s2 as [|z r]; [lia|]. destruct (z =? 48); lia.
      + split; [f_equal; lia|lia]. }
  destruct Hpre as [Hpre Hb'].
  rewrite Hpre. cbv beta iota.
  rewrite (convert_spec t neg b' s3 (length s - length s3) Hbits Hb').
  destruct (take_digits b' s3) as [|d ds]; [reflexivity|].
  cbv beta iota zeta. cbn [fst snd].
  destruct (strto_in_range t neg (eval b' (d :: ds))); reflexivity.
Qed.

(* strtol strtoll strtoul strtoull: value and end pointer for every base 0, 2..36 and every text *)
Theorem strto_correct t s b : cxx_width (bits t) -> b = 0 \/ 2 <= b <= 36 ->
  strto_m t s b = Ok (strto_spec t b s).
Proof.
  intros Hbits Hb. unfold strto_m. rewrite (strto_integer_correct t s b Hbits Hb). cbn [rbind].
  destruct (strto_spec t b s); reflexivity.
Qed.

(* outside the documented bases there is no conversion (glibc: EINVAL) and no undefined behaviour *)
Theorem strto_bad_base t s b : b < 0 \/ b = 1 \/ 36 < b -> strto_m t s b = Ok (0, 0%nat).
Proof.
  intros Hb. unfold strto_m, strto_integer_m.
  replace ((b <? 0) || (b =? 1) || (b >? 36)) with true by lia. reflexivity.
Qed.

(* stoi stol stoll stoul stoull: value and *pos of [string.conversions] whenever std does not throw *)
Theorem sto_correct t s b r : cxx_width (bits t) -> b = 0 \/ 2 <= b <= 36 ->
  sto_spec t b s = Some r -> strto_m t s b = Ok r.
Proof.
  intros Hbits Hb Hsome. rewrite (strto_correct t s b Hbits Hb). f_equal.
  unfold sto_spec in Hsome. unfold strto_spec.
  destruct (subject b s) as [[[neg b'] ds] n]. destruct ds as [|d ds]; [discriminate|].
  pose proof (imin_imax t ltac:(destruct Hbits; lia)) as Hi. cbv zeta in *.
  destruct (sgn t).
  - destruct (in_ty t (if neg then - eval b' (d :: ds) else eval b' (d :: ds))) eqn:Ein; [|discriminate].
    inversion Hsome; subst r. apply in_ty_iff in Ein.
    set (v := if neg then - eval b' (d :: ds) else eval b' (d :: ds)) in *.
    replace (v <? imin t) with false by lia. replace (v >? imax t) with false by lia. reflexivity.
  - destruct (eval b' (d :: ds) >? imax t); [discriminate|]. inversion Hsome; reflexivity.
Qed.

(* where std::sto* throws, the etl functions return what strto* returns (no exceptions in etl):
   0 with pos = 0 without digits, the saturated value otherwise *)
Theorem sto_no_throw t s b : cxx_width (bits t) -> b = 0 \/ 2 <= b <= 36 ->
  sto_spec t b s = None ->
  strto_m t s b = Ok (strto_spec t b s) /\ strto_class t b s <> SOk.
Proof.
  intros Hbits Hb Hnone. split; [apply strto_correct; assumption|].
  unfold sto_spec in Hnone. unfold strto_class, strto_in_range.
  destruct (subject b s) as [[[neg b'] ds] n]. destruct ds as [|d ds]; [discriminate|].
  cbv zeta in *. destruct (sgn t).
  - destruct (in_ty t (if neg then - eval b' (d :: ds) else eval b' (d :: ds))); [discriminate|discriminate].
  - destruct (eval b' (d :: ds) >? imax t) eqn:E; [|discriminate].
    replace (eval b' (d :: ds) <=? imax t) with false by lia. discriminate.
Qed.
