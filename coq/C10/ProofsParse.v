(* C10 proofs, parsing side: to_integer computes the value of the longest digit run exactly,
   detects overflow exactly at the limits of the type, and reports the consumed length — for
   every integer type of >= 8 bits, every base 2..36 and every character sequence. *)
From Tetl Require Import Lib.Base C10.Model C10.Spec C10.Arith C10.Digits.
From Coq Require Import ZifyBool.
Local Open Scope Z_scope.
Ltac Zify.zify_post_hook ::= Z.to_euclidean_division_equations.

Ltac small := first [assumption | apply in_ty_small; [assumption|lia]].

(** * characters *)
Lemma isspace_m_spec c : isspace_m c = is_space c.
Proof. unfold isspace_m, is_space. lia. Qed.

Lemma parse_digit_valid t c d : 8 <= bits t -> char_digit c = Some d -> parse_digit_m t c = d.
Proof.
  intros Hbits H. unfold char_digit in H. unfold parse_digit_m, isdigit_m, isalpha_m, tolower_m, isupper_m.
  destruct ((48 <=? c) && (c <=? 57)) eqn:E1.
  - inversion H; subst. apply cast_id; [assumption|]. apply in_ty_small; [assumption|lia].
  - destruct ((97 <=? c) && (c <=? 122)) eqn:E2.
    + inversion H; subst. cbn [orb].
      replace ((65 <=? c) && (c <=? 90)) with false by lia.
      rewrite (cast_id t c) by small.
      apply cast_id; [assumption|]. apply in_ty_small; [assumption|lia].
    + destruct ((65 <=? c) && (c <=? 90)) eqn:E3; [|discriminate].
      inversion H; subst. cbn [orb].
      rewrite (cast_id t (c + 32)) by small.
      rewrite cast_id; [lia|assumption|]. apply in_ty_small; [assumption|lia].
Qed.

Lemma parse_digit_invalid t c : char_digit c = None -> parse_digit_m t c = imax t.
Proof.
  intros H. unfold char_digit in H. unfold parse_digit_m, isdigit_m, isalpha_m, isupper_m.
  destruct ((48 <=? c) && (c <=? 57)) eqn:E1; [discriminate|].
  destruct ((97 <=? c) && (c <=? 122)) eqn:E2; [discriminate|].
  destruct ((65 <=? c) && (c <=? 90)) eqn:E3; [discriminate|]. reflexivity.
Qed.

(** * the limit of the accumulation and the sign convention *)
(* signed types accumulate -A down to min, unsigned types accumulate A up to max *)
Definition lim (t : ity) : Z := if sgn t then - imin t else imax t.
Definition sig (t : ity) (A : Z) : Z := if sgn t then - A else A.

Lemma lim_ge t : 8 <= bits t -> 127 <= lim t.
Proof.
  intros Hbits. unfold lim, imin, imax, smin, umax. pose proof (pow2_7_le (bits t) Hbits).
  pose proof (pow2_split (bits t) ltac:(lia)). destruct (sgn t); lia.
Qed.

Lemma lim_signed t : sgn t = true -> lim t = - imin t /\ lim t = imax t + 1.
Proof. intros S. unfold lim, imin, imax, smin, smax. rewrite S. lia. Qed.

Lemma lim_unsigned t : sgn t = false -> lim t = imax t /\ imin t = 0.
Proof. intros S. unfold lim, imin. rewrite S. lia. Qed.

Lemma in_ty_sig t A : 8 <= bits t -> 0 <= A <= lim t -> in_ty t (sig t A) = true.
Proof.
  intros Hbits HA. apply in_ty_iff. pose proof (imin_imax t Hbits). unfold sig.
  destruct (sgn t) eqn:S.
  - destruct (lim_signed t S). lia.
  - destruct (lim_unsigned t S). lia.
Qed.

(** * the overflow checker is exact *)
Definition ck_of (t : ity) (base : Z) : Z * Z := (sig t (lim t / base), lim t mod base).

Lemma checker_ok t base : 8 <= bits t -> 2 <= base <= 36 -> checker_m t base = Ok (ck_of t base).
Proof.
  intros Hbits Hb. unfold checker_m, ck_of. replace (base =? 0) with false by lia.
  pose proof (imin_imax t Hbits) as Hi. pose proof (lim_ge t Hbits) as Hl.
  set (l := if sgn t then imin t else imax t).
  assert (Hin : in_ty t l = true).
  { apply in_ty_iff. subst l. destruct (sgn t); lia. }
  pose proof (in_ty_quot t l base Hbits ltac:(lia) Hin) as Hq.
  rewrite (parith_ok t _ Hbits Hq). cbn [rbind].
  assert (Hr : in_ty t (Z.rem l base) = true).
  { apply in_ty_rem; [assumption|assumption|]. subst l. destruct (sgn t); [left; reflexivity|right; lia]. }
  rewrite (cast_id t _ Hbits Hr).
  pose proof (rem_bound l base ltac:(lia)) as Hrb.
  rewrite (abs_ok t _ Hbits) by lia. cbn [rbind].
  rewrite (cast_id t _ Hbits Hq).
  rewrite (cast_id t (Z.abs _) Hbits) by (apply in_ty_small; [assumption|lia]).
  f_equal. unfold sig, lim. subst l. destruct (sgn t) eqn:S.
  - f_equal.
    + replace (imin t) with (- (- imin t)) at 1 by lia. rewrite Z.quot_opp_l by lia.
      rewrite Z.quot_div_nonneg by lia. reflexivity.
    + rewrite rem_abs by lia. f_equal. lia.
  - f_equal.
    + apply Z.quot_div_nonneg; lia.
    + rewrite rem_abs by lia. f_equal. lia.
Qed.

Lemma overflow_exact L base A d : 0 < base -> 0 <= L -> 0 <= A -> 0 <= d < base ->
  ((A >? L / base) || ((A =? L / base) && (d >? L mod base))) = (A * base + d >? L).
Proof.
  intros Hb HL HA Hd.
  pose proof (Z.div_mod L base ltac:(lia)) as E. pose proof (Z.mod_pos_bound L base Hb) as Hm.
  set (q := L / base) in *. set (r := L mod base) in *. clearbody q r.
  destruct (Z_lt_le_dec q A) as [C1|C1].
  - replace (A >? q) with true by lia. cbn [orb]. symmetry. apply Z.gtb_lt. nia.
  - replace (A >? q) with false by lia. cbn [orb].
    destruct (Z.eq_dec A q) as [->|C2].
    + replace (q =? q) with true by lia. cbn [andb].
      destruct (d >? r) eqn:C3; symmetry; [apply Z.gtb_lt; nia|].
      destruct (q * base + d >? L) eqn:C4; [|reflexivity]. nia.
    + replace (A =? q) with false by lia. cbn [andb]. symmetry.
      destruct (A * base + d >? L) eqn:C4; [|reflexivity]. nia.
Qed.

Lemma would_overflow_spec t base A d : 8 <= bits t -> 2 <= base <= 36 -> 0 <= A -> 0 <= d < base ->
  would_overflow_m t (ck_of t base) (sig t A) d = (A * base + d >? lim t).
Proof.
  intros Hbits Hb HA Hd. pose proof (lim_ge t Hbits) as Hl.
  rewrite <- (overflow_exact (lim t) base A d) by lia.
  unfold would_overflow_m, ck_of, sig. cbn [fst snd]. destruct (sgn t); [|reflexivity].
  f_equal; [lia|]. f_equal. lia.
Qed.

Lemma accumulate_ok t base A d : 8 <= bits t -> 2 <= base <= 36 -> 0 <= A -> 0 <= d < base ->
  A * base + d <= lim t -> accumulate_m t base (sig t A) d = Ok (sig t (A * base + d)).
Proof.
  intros Hbits Hb HA Hd Hle. unfold accumulate_m.
  assert (H1 : in_ty t (sig t (A * base)) = true) by (apply in_ty_sig; [assumption|nia]).
  assert (H2 : in_ty t (sig t (A * base + d)) = true) by (apply in_ty_sig; [assumption|nia]).
  assert (E1 : sig t A * base = sig t (A * base)) by (unfold sig; destruct (sgn t); lia).
  rewrite E1, (parith_ok t _ Hbits H1). cbn [rbind].
  assert (E2 : (if sgn t then sig t (A * base) - d else sig t (A * base) + d) = sig t (A * base + d))
    by (unfold sig; destruct (sgn t); lia).
  rewrite E2, (parith_ok t _ Hbits H2). cbn [rbind]. rewrite (cast_id t _ Hbits H2). reflexivity.
Qed.

(** * the digit loop *)
Lemma ti_loop_spec t base : 8 <= bits t -> 2 <= base <= 36 ->
  forall s pos A, 0 <= A <= lim t ->
  let ds := take_digits base s in
  let M := eval_digits base A ds in
  if M <=? lim t
  then ti_loop t (ck_of t base) base s pos (sig t A) = Ok ((pos + length ds)%nat, sig t M, false)
  else exists p v, ti_loop t (ck_of t base) base s pos (sig t A) = Ok (p, v, true).
Proof.
  intros Hbits Hb. pose proof (imin_imax t Hbits) as Hi.
  induction s as [|c r IH]; intros pos A HA; cbv zeta.
  - cbn [take_digits eval_digits ti_loop length]. replace (A <=? lim t) with true by lia.
    rewrite Nat.add_0_r. reflexivity.
  - cbn [take_digits ti_loop].
    destruct (char_digit c) as [d|] eqn:Ec.
    + pose proof (char_digit_range c d Ec) as Hd.
      rewrite (parse_digit_valid t c d Hbits Ec).
      destruct (d <? base) eqn:Elt.
      * replace (d >=? base) with false by lia.
        rewrite would_overflow_spec by lia.
        cbn [eval_digits length].
        destruct (A * base + d >? lim t) eqn:Eov.
        -- pose proof (eval_digits_lower base (take_digits base r) (A * base + d) ltac:(lia) ltac:(nia)
                         (take_digits_nonneg base r)) as Hlow.
           replace (eval_digits base (A * base + d) (take_digits base r) <=? lim t) with false by lia.
           eexists _, _. reflexivity.
        -- rewrite accumulate_ok by lia. cbn [rbind].
           specialize (IH (S pos) (A * base + d) ltac:(nia)). cbv zeta in IH.
           destruct (eval_digits base (A * base + d) (take_digits base r) <=? lim t).
           ++ rewrite IH. f_equal. f_equal. f_equal. lia.
           ++ exact IH.
      * replace (d >=? base) with true by lia.
        cbn [eval_digits length]. replace (A <=? lim t) with true by lia.
        rewrite Nat.add_0_r. reflexivity.
    + rewrite (parse_digit_invalid t c Ec). replace (imax t >=? base) with true by lia.
      cbn [eval_digits length]. replace (A <=? lim t) with true by lia.
      rewrite Nat.add_0_r. reflexivity.
Qed.

(** * to_integer as a whole *)
Lemma drop_space_length s : (length (drop_space s) <= length s)%nat.
Proof. induction s as [|c s IH]; cbn [drop_space length]; [lia|]. destruct (is_space c); cbn [length]; lia. Qed.

Lemma skip_ws_m_spec : forall s p,
  skip_ws_m s p = (drop_space s, (p + (length s - length (drop_space s)))%nat).
Proof.
  induction s as [|c s IH]; intros p; cbn [skip_ws_m drop_space length].
  - f_equal. lia.
  - rewrite isspace_m_spec. destruct (is_space c).
    + rewrite IH. f_equal. pose proof (drop_space_length s). lia.
    + cbn [length]. f_equal. lia.
Qed.

(* what to_integer computes, in terms of the specification's vocabulary *)
Definition gparse (t : ity) (skipws plus : bool) (s : list Z) (base : Z) : ti_out :=
  let s1 := if skipws then drop_space s else s in
  let '(neg, s2) := match s1 with
                    | c :: r => if sgn t && (c =? 45) then (true, r) else (false, s1)
                    | [] => (false, s1)
                    end in
  let s3 := match s2 with
            | c :: r => if plus && negb neg && (c =? 43) then r else s2
            | [] => s2
            end in
  let ds := take_digits base s3 in
  match ds with
  | [] => (0%nat, TiInvalid, 0)
  | _ => let v := if neg then - eval base ds else eval base ds in
         if in_ty t v then ((length s - length s3 + length ds)%nat, TiNone, v)
         else (0%nat, TiOverflow, 0)
  end.

Lemma abs_ok_gen t x : 8 <= bits t -> in_ty t x = true -> in_ty t (- x) = true \/ 0 <= x ->
  abs_m t x = Ok (Z.abs x).
Proof.
  intros Hbits Hx Hn. unfold abs_m. destruct (x <? 0) eqn:E.
  - destruct Hn as [Hn|Hn]; [|lia]. rewrite (parith_ok t _ Hbits Hn). cbn [rbind]. f_equal. lia.
  - f_equal. lia.
Qed.

(* from the first digit on: [p] characters consumed before, rest of the text c :: r *)
Lemma ti_digits_spec t base (positive : bool) c r p :
  8 <= bits t -> 2 <= base <= 36 -> (sgn t = false -> positive = true) ->
  let digit := parse_digit_m t c in
  rbind (if sgn t then rbind (parith t (- digit)) (fun x => Ok (cast t x)) else Ok digit) (fun value0 =>
  rbind (abs_m t value0) (fun a =>
  if cast t a >=? base then ti_error TiInvalid
  else
    rbind (ti_loop t (ck_of t base) base r (S p) value0) (fun lr =>
    match lr with
    | (_, _, true) => ti_error TiOverflow
    | (pos, value, false) =>
      if sgn t && positive then
        if value =? imin t then ti_error TiOverflow
        else rbind (parith t (value * -1)) (fun x => Ok (pos, TiNone, cast t x))
      else Ok (pos, TiNone, value)
    end)))
  = Ok (match take_digits base (c :: r) with
        | [] => (0%nat, TiInvalid, 0)
        | ds => let v := if positive then eval base ds else - eval base ds in
                if in_ty t v then ((p + length ds)%nat, TiNone, v) else (0%nat, TiOverflow, 0)
        end).
Proof.
  intros Hbits Hb Hpos. cbv zeta.
  pose proof (imin_imax t Hbits) as Hi. pose proof (lim_ge t Hbits) as Hl.
  (* the first digit as a value of the type, its negation and its magnitude *)
  assert (Hfirst : forall g, 0 <= g <= imax t ->
            rbind (if sgn t then rbind (parith t (- g)) (fun x => Ok (cast t x)) else Ok g)
              (fun value0 => rbind (abs_m t value0) (fun a => Ok (value0, cast t a))) = Ok (sig t g, g)).
  { intros g Hg. unfold sig. destruct (sgn t) eqn:S.
    - destruct (lim_signed t S) as [L1 L2].
      assert (Hng : in_ty t (- g) = true) by (apply in_ty_iff; lia).
      rewrite (parith_ok t _ Hbits Hng). cbn [rbind]. rewrite (cast_id t _ Hbits Hng).
      rewrite (abs_ok_gen t (- g) Hbits Hng) by (left; apply in_ty_iff; lia). cbn [rbind].
      rewrite Z.abs_opp, Z.abs_eq by lia. rewrite cast_id; [reflexivity|assumption|apply in_ty_iff; lia].
    - cbn [rbind]. assert (Hg' : in_ty t g = true) by (apply in_ty_iff; lia).
      rewrite (abs_ok_gen t g Hbits Hg') by (right; lia). cbn [rbind].
      rewrite Z.abs_eq by lia. rewrite cast_id; [reflexivity|assumption|assumption]. }
  (* normal form of the left-hand side: bind value0 and |value0| first *)
  set (g := parse_digit_m t c).
  assert (Hg : 0 <= g <= imax t).
  { subst g. destruct (char_digit c) as [d|] eqn:Ec.
    - rewrite (parse_digit_valid t c d Hbits Ec). pose proof (char_digit_range c d Ec). lia.
    - rewrite (parse_digit_invalid t c Ec). lia. }
  specialize (Hfirst g Hg).
  destruct (if sgn t then rbind (parith t (- g)) (fun x => Ok (cast t x)) else Ok g) as [value0| | |] eqn:Ev;
    cbn [rbind] in Hfirst; try discriminate.
  cbn [rbind].
  destruct (abs_m t value0) as [a| | |] eqn:Ea; cbn [rbind] in Hfirst; try discriminate.
  cbn [rbind]. inversion Hfirst as [[Hv0 Ha]]. clear Hfirst Ev Ea. rewrite Ha. clear Ha.
  cbn [take_digits]. subst g.
  destruct (char_digit c) as [d|] eqn:Ec.
  2:{ rewrite (parse_digit_invalid t c Ec). replace (imax t >=? base) with true by lia. reflexivity. }
  pose proof (char_digit_range c d Ec) as Hd.
  rewrite (parse_digit_valid t c d Hbits Ec) in *.
  destruct (d <? base) eqn:Elt.
  2:{ replace (d >=? base) with true by lia. reflexivity. }
  replace (d >=? base) with false by lia.
  pose proof (ti_loop_spec t base Hbits Hb r (S p) d ltac:(lia)) as Hloop. cbv zeta in Hloop.
  set (ds' := take_digits base r) in *.
  assert (HM : eval base (d :: ds') = eval_digits base d ds') by reflexivity.
  set (M := eval_digits base d ds') in *.
  assert (HM0 : 0 <= M).
  { subst M. pose proof (eval_digits_lower base ds' d ltac:(lia) ltac:(lia) (take_digits_nonneg base r)). lia. }
  cbv zeta. rewrite HM. cbn [length].
  destruct (M <=? lim t) eqn:EM.
  - rewrite Hloop. cbn [rbind].
    destruct (sgn t) eqn:S.
    + destruct (lim_signed t S) as [L1 L2]. unfold sig. rewrite S.
      destruct positive.
      * cbn [andb]. destruct (- M =? imin t) eqn:Emin.
        -- replace (in_ty t M) with false by (symmetry; apply Bool.not_true_iff_false; rewrite in_ty_iff; lia).
           reflexivity.
        -- assert (HinM : in_ty t M = true) by (apply in_ty_iff; lia).
           replace (- M * -1) with M by lia.
           rewrite (parith_ok t _ Hbits HinM). cbn [rbind]. rewrite (cast_id t _ Hbits HinM). rewrite HinM.
           f_equal. f_equal. f_equal. lia.
      * cbn [andb].
        assert (HinM : in_ty t (- M) = true) by (apply in_ty_iff; lia).
        rewrite HinM. f_equal. f_equal. f_equal. lia.
    + rewrite (Hpos eq_refl). cbn [andb]. destruct (lim_unsigned t S) as [L1 L2]. unfold sig. rewrite S.
      assert (HinM : in_ty t M = true) by (apply in_ty_iff; lia).
      rewrite HinM. f_equal. f_equal. f_equal. lia.
  - destruct Hloop as (p' & v' & Hloop). rewrite Hloop. cbn [rbind].
    assert (Hout : in_ty t (if positive then M else - M) = false).
    { apply Bool.not_true_iff_false. rewrite in_ty_iff.
      destruct (sgn t) eqn:S.
      - destruct (lim_signed t S). destruct positive; lia.
      - rewrite (Hpos eq_refl). destruct (lim_unsigned t S). lia. }
    rewrite Hout. reflexivity.
Qed.

Theorem to_integer_spec t skipws plus s base : 8 <= bits t -> 2 <= base <= 36 ->
  to_integer_m t skipws plus s base = Ok (gparse t skipws plus s base).
Proof.
  intros Hbits Hb. unfold to_integer_m, gparse. rewrite (checker_ok t base Hbits Hb). cbn [rbind].
  unfold to_integer_head.
  set (s1 := if skipws then drop_space s else s).
  assert (Hws : (if skipws then skip_ws_m s 0 else (s, 0%nat)) = (s1, (length s - length s1)%nat)).
  { subst s1. destruct skipws; [rewrite skip_ws_m_spec; reflexivity|f_equal; lia]. }
  rewrite Hws. clear Hws.
  assert (Hlen1 : (length s1 <= length s)%nat).
  { subst s1. destruct skipws; [apply drop_space_length|lia]. }
  clearbody s1.
  destruct s1 as [|c1 r1]; [reflexivity|].
  destruct (sgn t && (c1 =? 45)) eqn:Eminus.
  - (* a minus sign *)
    destruct r1 as [|c2 r2]; [reflexivity|].
    replace (plus && false && (c2 =? 43)) with false by (destruct plus; reflexivity).
    cbn [negb]. replace (plus && false && (c2 =? 43)) with false by (destruct plus; reflexivity).
    replace (S (length s - length (c1 :: c2 :: r2)))%nat with (length s - length (c2 :: r2))%nat
      by (cbn [length] in *; lia).
    rewrite (ti_digits_spec t base false c2 r2 _ Hbits Hb) by (intros S; rewrite S in Eminus; discriminate).
    destruct (take_digits base (c2 :: r2)) as [|d ds]; [reflexivity|]. cbv zeta.
    destruct (in_ty t (- eval base (d :: ds))); reflexivity.
  - (* no minus sign *)
    cbn [negb].
    destruct (plus && true && (c1 =? 43)) eqn:Eplus.
    + destruct r1 as [|c3 r3]; [reflexivity|].
      replace (S (length s - length (c1 :: c3 :: r3)))%nat with (length s - length (c3 :: r3))%nat
        by (cbn [length] in *; lia).
      rewrite (ti_digits_spec t base true c3 r3 _ Hbits Hb) by reflexivity.
      destruct (take_digits base (c3 :: r3)) as [|d ds]; [reflexivity|]. cbv zeta.
      destruct (in_ty t (eval base (d :: ds))); reflexivity.
    + rewrite (ti_digits_spec t base true c1 r1 _ Hbits Hb) by reflexivity.
      destruct (take_digits base (c1 :: r1)) as [|d ds]; [reflexivity|]. cbv zeta.
      destruct (in_ty t (eval base (d :: ds))); reflexivity.
Qed.

(** * from_chars *)
Definition fc_of (c : pclass) : fc_class :=
  match c with POk => FcOk | PInvalid => FcInvalid | PRange => FcRange end.

(* from_chars agrees with [charconv.from.chars] in error class, stored value and consumed length,
   except that on result_out_of_range it returns ptr = first (known finding) *)
Theorem from_chars_correct t s b v0 : 8 <= bits t -> 2 <= b <= 36 ->
  from_chars_m t s b v0 =
    Ok (let '(c, n, v) := from_chars_spec t b s in
        (fc_of c, match c with PRange => 0%nat | _ => n end, match v with Some x => x | None => v0 end)).
Proof.
  intros Hbits Hb. unfold from_chars_m.
  rewrite (cast_id t b Hbits) by (apply in_ty_small; [assumption|lia]).
  rewrite (to_integer_spec t false false s b Hbits Hb). cbn [rbind].
  unfold gparse, from_chars_spec.
  destruct s as [|c r].
  - reflexivity.
  - destruct (sgn t && (c =? 45)) eqn:Eminus.
    + cbn [negb andb].
      assert (Hs3 : match r with | [] => r | _ :: _ => r end = r) by (destruct r; reflexivity).
      rewrite Hs3. clear Hs3.
      destruct (take_digits b r) as [|d ds] eqn:Ed; [reflexivity|]. cbv zeta.
      destruct (in_ty t (- eval b (d :: ds))); [|reflexivity].
      cbn [length fc_of]. do 3 f_equal. lia.
    + cbn [negb andb].
      destruct (take_digits b (c :: r)) as [|d ds] eqn:Ed; [reflexivity|]. cbv zeta.
      destruct (in_ty t (eval b (d :: ds))); [|reflexivity].
      cbn [length fc_of]. do 3 f_equal. lia.
Qed.

(* outside the defect region (no overflow) the agreement is complete *)
Corollary from_chars_exact t s b v0 : 8 <= bits t -> 2 <= b <= 36 ->
  fst (fst (from_chars_spec t b s)) <> PRange ->
  from_chars_m t s b v0 =
    Ok (let '(c, n, v) := from_chars_spec t b s in (fc_of c, n, match v with Some x => x | None => v0 end)).
Proof.
  intros Hbits Hb Hc. rewrite (from_chars_correct t s b v0 Hbits Hb).
  destruct (from_chars_spec t b s) as [[c n] v]. cbn [fst] in Hc. destruct c; [reflexivity|reflexivity|congruence].
Qed.
