(* C10 proofs: atoi / atol / atoll (thin wrappers over to_integer<Int> with the default options,
   base 10) return the value of strtol(s, NULL, 10) whenever it is representable in the result
   type (C17 7.22.1.2; unrepresentable = undefined behaviour in C).  [ti_pair_m] is to_integer
   with the default options seen as a (value, end) pair; it agrees with the strtol contract
   outside [strto_region] (what strtol & co. were before the strto_integer fix commits; the
   functions themselves are proved against the full contract in ProofsStrtoC.v). *)
From Tetl Require Import Lib.Base C10.Model C10.Spec C10.Arith C10.Digits C10.ProofsParse.
From Coq Require Import ZifyBool.
Local Open Scope Z_scope.
Ltac Zify.zify_post_hook ::= Z.to_euclidean_division_equations.

(* the inputs on which plain to_integer deviates from the strtol contract *)
Definition strto_region (t : ity) (b : Z) (s : list Z) : bool :=
  let '(neg, s2) := split_sign (drop_space s) in
  (b =? 0) || ((b =? 16) && has_0x s2)
  || (let '(_, b', ds, _) := subject b s in
      match ds with
      | [] => false
      | _ => let m := eval b' ds in
             if sgn t then negb (in_ty t (if neg then - m else m)) else neg || (m >? imax t)
      end).

Lemma subject_plain b s neg s2 : 2 <= b -> split_sign (drop_space s) = (neg, s2) ->
  (b =? 16) && has_0x s2 = false ->
  subject b s = (neg, b, take_digits b s2, (length s - length s2 + length (take_digits b s2))%nat).
Proof.
  intros Hb Esp Hx. unfold subject. rewrite Esp. replace (b =? 0) with false by lia.
  cbn [orb]. rewrite Hx. reflexivity.
Qed.

Lemma eval_nonneg b s : 1 <= b -> 0 <= eval b (take_digits b s).
Proof.
  intros Hb. unfold eval.
  pose proof (eval_digits_lower b (take_digits b s) 0 Hb ltac:(lia) (take_digits_nonneg b s)). lia.
Qed.

Lemma match_nil_id {A} (l : list A) : match l with [] => l | _ :: _ => l end = l.
Proof. destruct l; reflexivity. Qed.

Theorem ti_pair_correct t s b : 8 <= bits t -> 2 <= b <= 36 -> strto_region t b s = false ->
  ti_pair_m t s b = Ok (strto_spec t b s).
Proof.
  intros Hbits Hb Hreg. unfold ti_pair_m.
  rewrite (cast_id t b Hbits) by (apply in_ty_small; [assumption|lia]).
  rewrite (to_integer_spec t true true s b Hbits Hb). cbn [rbind].
  unfold strto_region in Hreg. unfold strto_spec, gparse.
  pose proof (drop_space_length s) as Hlen.
  destruct (split_sign (drop_space s)) as [neg s2] eqn:Esp.
  apply Bool.orb_false_elim in Hreg. destruct Hreg as [Hreg Hrange].
  apply Bool.orb_false_elim in Hreg. destruct Hreg as [_ Hx].
  rewrite (subject_plain b s neg s2 ltac:(lia) Esp Hx) in *.
  set (s1 := drop_space s) in *. clearbody s1.
  pose proof (imin_imax t Hbits) as Hi.
  (* in-range digits: the clamping of the specification is the identity *)
  assert (Hfin : forall ds0 : list Z, ds0 <> [] -> 0 <= eval b ds0 ->
            (if sgn t then negb (in_ty t (if neg then - eval b ds0 else eval b ds0))
             else neg || (eval b ds0 >? imax t)) = false ->
            sgn t = true \/ neg = false ->
            (if sgn t
             then (let v := if neg then - eval b ds0 else eval b ds0 in
                   if v <? imin t then imin t else if v >? imax t then imax t else v)
             else (if eval b ds0 >? imax t then imax t
                   else if neg then (- eval b ds0) mod 2 ^ bits t else eval b ds0))
            = (if neg then - eval b ds0 else eval b ds0)
            /\ in_ty t (if neg then - eval b ds0 else eval b ds0) = true).
  { intros ds0 _ Hnn H Hs. destruct (sgn t) eqn:S.
    - apply Bool.negb_false_iff in H. split; [|exact H]. apply in_ty_iff in H. cbv zeta.
      set (v := if neg then - eval b ds0 else eval b ds0) in *.
      replace (v <? imin t) with false by lia. replace (v >? imax t) with false by lia. reflexivity.
    - destruct Hs as [Hs|Hs]; [discriminate|]. subst neg. cbn [orb] in H. rewrite H.
      split; [reflexivity|]. destruct (lim_unsigned t S). apply in_ty_iff. lia. }
  destruct s1 as [|c r].
  - cbn [split_sign] in Esp. inversion Esp; subst. reflexivity.
  - unfold split_sign in Esp.
    destruct (c =? 45) eqn:E45.
    + (* minus *)
      inversion Esp; subst neg s2. clear Esp.
      destruct (sgn t) eqn:S.
      * cbn [andb negb]. rewrite match_nil_id.
        destruct (take_digits b r) as [|d ds] eqn:Ed; [reflexivity|].
        pose proof (eval_nonneg b r ltac:(lia)) as Hnn. rewrite Ed in Hnn.
        destruct (Hfin (d :: ds) ltac:(discriminate) Hnn Hrange ltac:(left; reflexivity)) as [H1 H2].
        cbv zeta in *. rewrite H2. cbv zeta in H1. rewrite H1. cbn [length] in *. first [reflexivity | do 2 f_equal; lia].
      * cbn [andb negb]. replace (c =? 43) with false by lia. cbn [andb].
        assert (Hc : take_digits b (c :: r) = []).
        { cbn [take_digits]. unfold char_digit. replace c with 45 by lia. reflexivity. }
        rewrite Hc.
        destruct (take_digits b r) as [|d ds] eqn:Ed; [reflexivity|].
        cbv zeta in Hrange. discriminate.
    + replace (sgn t && false) with false by (destruct (sgn t); reflexivity). cbn [negb].
      rewrite Bool.andb_true_r. cbn [andb].
      destruct (c =? 43) eqn:E43.
      * (* plus *)
        inversion Esp; subst neg s2. clear Esp.
        destruct (take_digits b r) as [|d ds] eqn:Ed; [reflexivity|].
        pose proof (eval_nonneg b r ltac:(lia)) as Hnn. rewrite Ed in Hnn.
        destruct (Hfin (d :: ds) ltac:(discriminate) Hnn Hrange ltac:(right; reflexivity)) as [H1 H2].
        cbv zeta in *. rewrite H2. destruct (sgn t); rewrite H1; cbn [length] in *;
          first [reflexivity | do 2 f_equal; lia].
      * (* no sign *)
        inversion Esp; subst neg s2. clear Esp.
        destruct (take_digits b (c :: r)) as [|d ds] eqn:Ed; [reflexivity|].
        pose proof (eval_nonneg b (c :: r) ltac:(lia)) as Hnn. rewrite Ed in Hnn.
        destruct (Hfin (d :: ds) ltac:(discriminate) Hnn Hrange ltac:(right; reflexivity)) as [H1 H2].
        cbv zeta in *. rewrite H2. destruct (sgn t); rewrite H1; cbn [length] in *;
          first [reflexivity | do 2 f_equal; lia].
Qed.

(** * atoi atol atoll *)
Lemma ato_strto t s : 8 <= bits t ->
  ato_m t s = rbind (ti_pair_m t s 10) (fun r => Ok (fst r)).
Proof.
  intros Hbits. unfold ato_m, ti_pair_m.
  rewrite (cast_id t 10 Hbits) by (apply in_ty_small; [assumption|lia]).
  destruct (to_integer_m t true true s 10) as [[[e err] v]| | |]; reflexivity.
Qed.

Theorem ato_correct t s v : 8 <= bits t -> sgn t = true -> ato_spec t s = Some v -> ato_m t s = Ok v.
Proof.
  intros Hbits S Hsome. rewrite (ato_strto t s Hbits).
  assert (H : strto_region t 10 s = false /\ fst (strto_spec t 10 s) = v).
  { unfold strto_region, strto_spec. unfold ato_spec in Hsome.
    destruct (split_sign (drop_space s)) as [neg s2] eqn:Esp.
    change (10 =? 0) with false. change (10 =? 16) with false. cbn [orb andb].
    rewrite (subject_plain 10 s neg s2 ltac:(lia) Esp eq_refl) in *.
    destruct (take_digits 10 s2) as [|d ds] eqn:Ed.
    - inversion Hsome; subst v. split; reflexivity.
    - pose proof (imin_imax t Hbits) as Hi. cbv zeta in *. rewrite S.
      destruct (in_ty t (if neg then - eval 10 (d :: ds) else eval 10 (d :: ds))) eqn:Ein; [|discriminate].
      inversion Hsome; subst v. split; [reflexivity|]. apply in_ty_iff in Ein. cbn [fst].
      set (w := if neg then - eval 10 (d :: ds) else eval 10 (d :: ds)) in *.
      replace (w <? imin t) with false by lia. replace (w >? imax t) with false by lia. reflexivity. }
  destruct H as [H1 H2]. rewrite (ti_pair_correct t s 10 Hbits ltac:(lia) H1). cbn [rbind]. rewrite H2. reflexivity.
Qed.
