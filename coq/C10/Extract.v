From Tetl Require Import Lib.Base C10.Model C10.Spec C10.ProofsParse C10.ProofsNc C10.ProofsNcS.
Require Extraction.
Require Import ExtrOcamlBasic.
Extraction Language OCaml.
(* gparse / nc_unsigned_spec: the right-hand sides of C10_to_integer_correct / C10_to_integer_unchecked
   (spec legs of the ops to_integer / to_integer_nc) *)
Extraction "C10_model.ml" wire_anchor
  from_integer_m to_chars_m to_string_m to_integer_m to_integer_nc_m from_chars_m ti_pair_m strto_m strto_integer_m ato_m idiv_m
  to_text to_chars_spec from_chars_spec strto_spec strto_class sto_spec ato_spec digits eval
  gparse nc_unsigned_spec nc_signed_narrow_spec
  cast i8 u8 i16 u16 i32 u32 i64 u64 in_ty.
