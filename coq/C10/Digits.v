(* C10: facts about the specification's positional notation (Spec.digits / eval / take_digits):
   the numeral evaluates back to the number, is canonical, and reading a written numeral
   returns its digits.  Also the least-significant-first digit list [rdigits] used to describe
   what the code's digit loop stores. *)
From Tetl Require Import Lib.Base C10.Spec.
From Coq Require Import ZifyBool.
Local Open Scope Z_scope.
Ltac Zify.zify_post_hook ::= Z.to_euclidean_division_equations.

(* digits of n, least significant first *)
Fixpoint rdigits (fuel : nat) (b n : Z) : list Z :=
  match fuel with
  | O => []
  | S f => if n <=? 0 then [] else n mod b :: rdigits f b (n / b)
  end.

Lemma div_lt_pow2 b n f : 2 <= b -> 0 <= n < 2 ^ Z.of_nat (S f) -> 0 <= n / b < 2 ^ Z.of_nat f.
Proof.
  intros Hb Hn. rewrite Nat2Z.inj_succ, Z.pow_succ_r in Hn by lia.
  split; [apply Z.div_pos; lia|].
  apply Z.div_lt_upper_bound; [lia|]. nia.
Qed.

Lemma rdigits_S f : forall b n, 2 <= b -> 0 <= n < 2 ^ Z.of_nat f -> rdigits (S f) b n = rdigits f b n.
Proof.
  induction f as [|f IH]; intros b n Hb Hn.
  - change (2 ^ Z.of_nat 0) with 1 in Hn. cbn [rdigits]. destruct (n <=? 0) eqn:E; [reflexivity|lia].
  - change (rdigits (S (S f)) b n) with (if n <=? 0 then [] else n mod b :: rdigits (S f) b (n / b)).
    change (rdigits (S f) b n) with (if n <=? 0 then [] else n mod b :: rdigits f b (n / b)).
    destruct (n <=? 0); [reflexivity|]. f_equal. apply IH; [assumption|]. apply div_lt_pow2; assumption.
Qed.

Lemma rdigits_fuel k : forall f b n, 2 <= b -> 0 <= n < 2 ^ Z.of_nat f -> rdigits (k + f) b n = rdigits f b n.
Proof.
  induction k as [|k IH]; intros f b n Hb Hn; [reflexivity|].
  change (S k + f)%nat with (S (k + f)). rewrite rdigits_S; [apply IH; assumption|assumption|].
  split; [lia|]. apply Z.lt_le_trans with (2 ^ Z.of_nat f); [lia|]. apply Z.pow_le_mono_r; lia.
Qed.

(* any two sufficient amounts of fuel give the same digits *)
Lemma rdigits_fuel_eq f f' b n : 2 <= b -> 0 <= n < 2 ^ Z.of_nat f -> 0 <= n < 2 ^ Z.of_nat f' ->
  rdigits f b n = rdigits f' b n.
Proof.
  intros Hb H1 H2. destruct (Nat.le_ge_cases f f') as [L|L].
  - replace f' with ((f' - f) + f)%nat by lia. symmetry. apply rdigits_fuel; assumption.
  - replace f with ((f - f') + f')%nat by lia. apply rdigits_fuel; assumption.
Qed.

Lemma digits_aux_rdigits f : forall b n acc, digits_aux f b n acc = rev (rdigits f b n) ++ acc.
Proof.
  induction f as [|f IH]; intros b n acc; cbn [digits_aux rdigits]; [reflexivity|].
  destruct (n <=? 0); [reflexivity|]. rewrite IH. cbn [rev]. rewrite <- app_assoc. reflexivity.
Qed.

Lemma log2_fuel n : 0 < n -> 0 <= n < 2 ^ Z.of_nat (Z.to_nat (Z.log2 n) + 1).
Proof.
  intros Hn. pose proof (Z.log2_spec n Hn) as [_ H]. pose proof (Z.log2_nonneg n).
  replace (Z.of_nat (Z.to_nat (Z.log2 n) + 1)) with (Z.succ (Z.log2 n)) by lia. lia.
Qed.

Lemma digits_rdigits b n f : 2 <= b -> 0 < n < 2 ^ Z.of_nat f -> digits b n = rev (rdigits f b n).
Proof.
  intros Hb Hn. unfold digits. destruct (n <=? 0) eqn:E; [lia|].
  rewrite digits_aux_rdigits, app_nil_r. f_equal.
  apply rdigits_fuel_eq; [assumption|apply log2_fuel; lia|lia].
Qed.

(** * evaluation *)
Lemma eval_digits_app b : forall l1 acc l2,
  eval_digits b acc (l1 ++ l2) = eval_digits b (eval_digits b acc l1) l2.
Proof. induction l1 as [|d l1 IH]; intros acc l2; cbn [app eval_digits]; [reflexivity|apply IH]. Qed.

Lemma eval_rdigits f : forall b n, 2 <= b -> 0 <= n < 2 ^ Z.of_nat f -> eval b (rev (rdigits f b n)) = n.
Proof.
  unfold eval. induction f as [|f IH]; intros b n Hb Hn.
  - change (2 ^ Z.of_nat 0) with 1 in Hn. cbn. lia.
  - cbn [rdigits]. destruct (n <=? 0) eqn:E; [cbn; lia|].
    cbn [rev]. rewrite eval_digits_app. rewrite IH by (try assumption; apply div_lt_pow2; assumption).
    cbn [eval_digits]. pose proof (Z.div_mod n b ltac:(lia)). lia.
Qed.

Lemma rdigits_bound f : forall b n, 2 <= b -> Forall (fun d => 0 <= d < b) (rdigits f b n).
Proof.
  induction f as [|f IH]; intros b n Hb; cbn [rdigits]; [constructor|].
  destruct (n <=? 0); constructor; [apply Z.mod_pos_bound; lia|apply IH; assumption].
Qed.

Lemma rdigits_nonempty f b n : 0 < n -> rdigits (S f) b n <> [].
Proof. intros Hn. cbn [rdigits]. destruct (n <=? 0) eqn:E; [lia|discriminate]. Qed.

(* the most significant digit (the last one of rdigits) is not zero *)
Lemma rdigits_last f : forall b n, 2 <= b -> 0 < n < 2 ^ Z.of_nat f ->
  exists l d, rdigits f b n = l ++ [d] /\ d <> 0.
Proof.
  induction f as [|f IH]; intros b n Hb Hn.
  - change (2 ^ Z.of_nat 0) with 1 in Hn. lia.
  - cbn [rdigits]. destruct (n <=? 0) eqn:E; [lia|].
    destruct (Z_lt_le_dec (n / b) 1) as [Hq|Hq].
    + assert (Hq0 : n / b = 0) by (pose proof (Z.div_pos n b); lia).
      exists [], (n mod b). split.
      * rewrite Hq0. destruct f; cbn [rdigits]; reflexivity.
      * pose proof (Z.div_mod n b ltac:(lia)). lia.
    + destruct (IH b (n / b) Hb) as (l & d & Hl & Hd).
      { pose proof (div_lt_pow2 b n f Hb ltac:(lia)). lia. }
      exists (n mod b :: l), d. rewrite Hl. split; [reflexivity|assumption].
Qed.

(** * the numeral of the specification *)
Theorem digits_eval b n : 2 <= b -> 0 <= n -> eval b (digits b n) = n.
Proof.
  intros Hb Hn. destruct (Z.eq_dec n 0) as [->|Hne]; [reflexivity|].
  rewrite (digits_rdigits b n (Z.to_nat (Z.log2 n) + 1) Hb) by (pose proof (log2_fuel n); lia).
  apply eval_rdigits; [assumption|apply log2_fuel; lia].
Qed.

Theorem digits_bound b n : 2 <= b -> Forall (fun d => 0 <= d < b) (digits b n).
Proof.
  intros Hb. unfold digits. destruct (n <=? 0); [constructor; [lia|constructor]|].
  rewrite digits_aux_rdigits, app_nil_r. apply Forall_rev. apply rdigits_bound. assumption.
Qed.

Theorem digits_canonical b n : 2 <= b -> 0 < n -> canonical b (digits b n).
Proof.
  intros Hb Hn. split; [apply digits_bound; assumption|].
  rewrite (digits_rdigits b n (Z.to_nat (Z.log2 n) + 1) Hb) by (pose proof (log2_fuel n); lia).
  destruct (rdigits_last (Z.to_nat (Z.log2 n) + 1) b n Hb) as (l & d & Hl & Hd).
  { pose proof (log2_fuel n); lia. }
  exists d, (rev l). rewrite Hl, rev_app_distr. split; [reflexivity|assumption].
Qed.

Lemma digits_nonempty b n : digits b n <> [].
Proof.
  unfold digits. destruct (n <=? 0) eqn:E; [discriminate|].
  rewrite digits_aux_rdigits, app_nil_r.
  assert (H : rdigits (Z.to_nat (Z.log2 n) + 1) b n <> []).
  { replace (Z.to_nat (Z.log2 n) + 1)%nat with (S (Z.to_nat (Z.log2 n))) by lia.
    apply rdigits_nonempty. lia. }
  intros C. apply H. apply (f_equal (@rev Z)) in C. rewrite rev_involutive in C. exact C.
Qed.

(* uniqueness: a canonical numeral is determined by its value *)
Lemma eval_digits_lower b : forall ds acc, 1 <= b -> 0 <= acc -> Forall (fun d => 0 <= d < b) ds ->
  acc <= eval_digits b acc ds.
Proof.
  induction ds as [|d ds IH]; intros acc Hb Ha Hf; cbn [eval_digits]; [lia|].
  inversion Hf as [|? ? Hd Hr]; subst.
  apply Z.le_trans with (acc * b + d); [nia|]. apply IH; [assumption|nia|assumption].
Qed.

Lemma eval_digits_bounds b : forall ds acc, 2 <= b -> 0 <= acc -> Forall (fun d => 0 <= d < b) ds ->
  acc * b ^ Z.of_nat (length ds) <= eval_digits b acc ds < (acc + 1) * b ^ Z.of_nat (length ds).
Proof.
  induction ds as [|d ds IH]; intros acc Hb Ha Hf.
  - cbn [eval_digits length]. change (b ^ Z.of_nat 0) with 1. lia.
  - inversion Hf as [|? ? Hd Hr]; subst. cbn [eval_digits length].
    rewrite Nat2Z.inj_succ, Z.pow_succ_r by lia.
    specialize (IH (acc * b + d) Hb ltac:(nia) Hr).
    assert (Hp : 0 < b ^ Z.of_nat (length ds)) by (apply Z.pow_pos_nonneg; lia).
    nia.
Qed.

Theorem canonical_unique b ds1 ds2 : 2 <= b -> canonical b ds1 -> canonical b ds2 ->
  eval b ds1 = eval b ds2 -> ds1 = ds2.
Proof.
  intros Hb [F1 (d1 & r1 & E1 & N1)] [F2 (d2 & r2 & E2 & N2)] He. unfold eval in He.
  (* equal length: a canonical numeral of length k+1 lies in [b^k, b^(k+1)) *)
  assert (Hlen : forall ds d r, Forall (fun d => 0 <= d < b) ds -> ds = d :: r -> d <> 0 ->
             b ^ Z.of_nat (length r) <= eval_digits b 0 ds < b ^ Z.of_nat (S (length r))).
  { intros ds d r F E N. subst ds. inversion F as [|? ? Hd Hr]; subst. cbn [eval_digits].
    pose proof (eval_digits_bounds b r (0 * b + d) Hb ltac:(lia) Hr) as Hbd.
    rewrite Nat2Z.inj_succ, Z.pow_succ_r by lia.
    assert (Hp : 0 < b ^ Z.of_nat (length r)) by (apply Z.pow_pos_nonneg; lia). nia. }
  pose proof (Hlen ds1 d1 r1 F1 E1 N1) as B1. pose proof (Hlen ds2 d2 r2 F2 E2 N2) as B2.
  assert (L : length r1 = length r2).
  { destruct (Nat.lt_trichotomy (length r1) (length r2)) as [C|[C|C]]; [|exact C|].
    - assert (b ^ Z.of_nat (S (length r1)) <= b ^ Z.of_nat (length r2)) by (apply Z.pow_le_mono_r; lia). lia.
    - assert (b ^ Z.of_nat (S (length r2)) <= b ^ Z.of_nat (length r1)) by (apply Z.pow_le_mono_r; lia). lia. }
  (* equal-length digit lists with the same value are equal *)
  assert (Heq : forall l1 l2 a1 a2, length l1 = length l2 -> 0 <= a1 -> 0 <= a2 ->
             Forall (fun d => 0 <= d < b) l1 -> Forall (fun d => 0 <= d < b) l2 ->
             eval_digits b a1 l1 = eval_digits b a2 l2 -> a1 = a2 /\ l1 = l2).
  { induction l1 as [|x l1 IH]; intros l2 a1 a2 HL Ha1 Ha2 G1 G2 HE; destruct l2 as [|y l2]; try discriminate.
    - cbn in HE. split; [assumption|reflexivity].
    - inversion G1 as [|? ? Hx G1']; inversion G2 as [|? ? Hy G2']; subst.
      cbn [eval_digits] in HE. cbn [length] in HL.
      destruct (IH l2 (a1 * b + x) (a2 * b + y) ltac:(lia) ltac:(nia) ltac:(nia) G1' G2' HE) as [Ha Hl].
      assert (a1 = a2 /\ x = y) as [-> ->].
      { assert (a1 = a2) by nia. subst. split; [reflexivity|lia]. }
      subst. split; reflexivity. }
  subst ds1 ds2.
  destruct (Heq (d1 :: r1) (d2 :: r2) 0 0 ltac:(cbn; lia) ltac:(lia) ltac:(lia) F1 F2 He) as [_ H].
  exact H.
Qed.

(** * characters *)
Lemma char_digit_digit_char d : 0 <= d < 36 -> char_digit (digit_char d) = Some d.
Proof.
  intros Hd. unfold digit_char, char_digit.
  destruct (d <? 10) eqn:E.
  - replace ((48 <=? 48 + d) && (48 + d <=? 57)) with true by lia. f_equal. lia.
  - replace ((48 <=? 97 + (d - 10)) && (97 + (d - 10) <=? 57)) with false by lia.
    replace ((97 <=? 97 + (d - 10)) && (97 + (d - 10) <=? 122)) with true by lia. f_equal. lia.
Qed.

Lemma char_digit_range c d : char_digit c = Some d -> 0 <= d < 36.
Proof.
  unfold char_digit. intros H.
  destruct ((48 <=? c) && (c <=? 57)) eqn:E1; [inversion H; lia|].
  destruct ((97 <=? c) && (c <=? 122)) eqn:E2; [inversion H; lia|].
  destruct ((65 <=? c) && (c <=? 90)) eqn:E3; [inversion H; lia|discriminate].
Qed.

(* reading back a written numeral: all its digits, then whatever follows *)
Lemma take_digits_written b : forall ds rest, b <= 36 -> Forall (fun d => 0 <= d < b) ds ->
  take_digits b (map digit_char ds ++ rest) = ds ++ take_digits b rest.
Proof.
  induction ds as [|d ds IH]; intros rest Hb Hf; [reflexivity|].
  inversion Hf as [|? ? Hd Hr]; subst. cbn [map app take_digits].
  rewrite char_digit_digit_char by lia.
  replace (d <? b) with true by lia. cbn [app]. f_equal. apply IH; assumption.
Qed.

Lemma take_digits_nonneg b : forall s, Forall (fun d => 0 <= d < b) (take_digits b s).
Proof.
  induction s as [|c s IH]; cbn [take_digits]; [constructor|].
  destruct (char_digit c) as [d|] eqn:E; [|constructor].
  destruct (d <? b) eqn:L; [|constructor].
  constructor; [pose proof (char_digit_range c d E); lia|assumption].
Qed.
