(* C14 proofs: popcount (the run-time builtin by its documented meaning and the portable
   fallback loop "val &= val - 1") and has_single_bit, for every width and every value. *)
From Tetl Require Import Lib.Base C14.Spec C14.Model C14.Arith C14.Bits C14.ProofsRot C14.ProofsBit C14.ProofsCount.
From Coq Require Import ZifyBool.
Local Open Scope Z_scope.

(** * the bit count, by recursion on the binary expansion *)
Fixpoint pc (n : nat) (x : Z) : Z :=
  match n with O => 0 | S k => Z.b2z (Z.odd x) + pc k (Z.div2 x) end.

Lemma filter_shift x : forall (n : nat) a, 0 <= a ->
  length (filter (Z.testbit x) (zrange_from (a + 1) n)) = length (filter (Z.testbit (Z.div2 x)) (zrange_from a n)).
Proof.
  induction n as [|n IH]; intros a Ha; [reflexivity|].
  cbn [zrange_from filter].
  assert (E : Z.testbit x (a + 1) = Z.testbit (Z.div2 x) a).
  { rewrite Z.div2_spec, Z.shiftr_spec by lia. reflexivity. }
  rewrite E. destruct (Z.testbit (Z.div2 x) a); cbn [length]; rewrite (IH (a + 1)) by lia; reflexivity.
Qed.

Lemma popcount_spec_pc w x : 0 <= w -> popcount_spec w x = pc (Z.to_nat w) x.
Proof.
  intros _. unfold popcount_spec. generalize (Z.to_nat w) as n. intros n. revert x.
  induction n as [|n IH]; intros x; [reflexivity|].
  cbn [zrange_from filter pc]. rewrite <- IH.
  change (Z.testbit x 0) with (Z.testbit x 0). rewrite Z.bit0_odd.
  rewrite <- (filter_shift x n 0) by lia. cbn [Z.add].
  destruct (Z.odd x); cbn [length Z.b2z]; lia.
Qed.

Lemma pc_bounds n x : 0 <= pc n x <= Z.of_nat n.
Proof.
  revert x. induction n as [|n IH]; intros x; cbn [pc]; [lia|].
  specialize (IH (Z.div2 x)). destruct (Z.odd x); cbn [Z.b2z]; lia.
Qed.

Lemma div2_range n x : 0 <= x < 2 ^ Z.of_nat (S n) -> 0 <= Z.div2 x < 2 ^ Z.of_nat n.
Proof.
  intros Hx. rewrite Z.div2_div. rewrite Nat2Z.inj_succ, Z.pow_succ_r in Hx by lia.
  split; [apply Z.div_pos; lia | apply Z.div_lt_upper_bound; lia].
Qed.

Lemma odd_div2 x : x = 2 * Z.div2 x + Z.b2z (Z.odd x).
Proof. apply Z.div2_odd. Qed.

Lemma pc_zero n x : 0 <= x < 2 ^ Z.of_nat n -> (pc n x = 0 <-> x = 0).
Proof.
  revert x. induction n as [|n IH]; intros x Hx.
  - cbn [pc]. change (2 ^ Z.of_nat 0) with 1 in Hx. lia.
  - cbn [pc]. pose proof (div2_range n x Hx) as Hd. specialize (IH (Z.div2 x) Hd).
    pose proof (pc_bounds n (Z.div2 x)). pose proof (odd_div2 x) as E.
    destruct (Z.odd x); cbn [Z.b2z] in *; lia.
Qed.

(* val & (val - 1) clears the lowest set bit *)
Lemma odd_pred x : Z.odd (x - 1) = negb (Z.odd x).
Proof. rewrite Z.sub_1_r, Z.odd_pred. now rewrite Z.negb_odd. Qed.

Lemma pc_clear_lowest : forall n x, 0 < x < 2 ^ Z.of_nat n -> pc n (Z.land x (x - 1)) = pc n x - 1.
Proof.
  induction n as [|n IH]; intros x Hx.
  - change (2 ^ Z.of_nat 0) with 1 in Hx. lia.
  - cbn [pc].
    assert (Ho : Z.odd (Z.land x (x - 1)) = false).
    { rewrite <- Z.bit0_odd, Z.land_spec, !Z.bit0_odd, odd_pred. apply andb_negb_r. }
    assert (Hd : Z.div2 (Z.land x (x - 1)) = Z.land (Z.div2 x) (Z.div2 (x - 1))).
    { rewrite !Z.div2_spec. apply Z.shiftr_land. }
    rewrite Ho, Hd. cbn [Z.b2z].
    pose proof (odd_div2 x) as E. pose proof (odd_div2 (x - 1)) as E1. rewrite odd_pred in E1.
    pose proof (div2_range n x ltac:(lia)) as Hr.
    destruct (Z.odd x); cbn [Z.b2z negb] in *.
    + replace (Z.div2 (x - 1)) with (Z.div2 x) by lia. rewrite Z.land_diag. lia.
    + replace (Z.div2 (x - 1)) with (Z.div2 x - 1) by lia. rewrite IH by lia. lia.
Qed.

Lemma land_range a b w : 0 <= w -> 0 <= a < 2 ^ w -> 0 <= b -> 0 <= Z.land a b < 2 ^ w.
Proof.
  intros Hw Ha Hb.
  assert (E : Z.land a b = Z.land a b mod 2 ^ w).
  { apply Z.bits_inj'. intros i Hi. rewrite Z.testbit_mod_pow2 by lia.
    destruct (Z.ltb_spec i w) as [L|L]; [reflexivity|].
    rewrite Z.land_spec, (testbit_high a w i) by lia. reflexivity. }
  rewrite E. apply Z.mod_pos_bound. now apply pow2_pos.
Qed.

(** * the fallback loop *)
Lemma popcount_loop_ok w : W w -> forall (fuel : nat) val c,
  0 <= val < 2 ^ w -> 0 <= c -> c + pc (Z.to_nat w) val <= 1000 -> pc (Z.to_nat w) val <= Z.of_nat fuel ->
  popcount_loop fuel w val c = Ok (c + pc (Z.to_nat w) val).
Proof.
  intros HW. pose proof (W_pos w HW) as Hp.
  induction fuel as [|f IH]; intros val c Hv Hc Hsum Hfuel.
  - pose proof (pc_bounds (Z.to_nat w) val).
    assert (Z0 : pc (Z.to_nat w) val = 0) by lia.
    apply pc_zero in Z0; [|rewrite Z2Nat.id; lia]. subst val. cbn [popcount_loop Z.eqb]. f_equal. lia.
  - cbn [popcount_loop]. destruct (Z.eqb_spec val 0) as [->|Hv0].
    + f_equal. assert (pc (Z.to_nat w) 0 = 0); [|lia]. apply pc_zero; [rewrite Z2Nat.id; lia | reflexivity].
    + pose proof (pc_bounds (Z.to_nat w) val) as Hb.
      rewrite arith_U by (auto; lia). cbn [rbind]. rewrite incr_i32 by lia. cbn [rbind].
      pose proof (land_range val (val - 1) w ltac:(lia) Hv ltac:(lia)) as Hl.
      rewrite (wu_small w (Z.land val (val - 1))) by lia.
      pose proof (pc_clear_lowest (Z.to_nat w) val ltac:(rewrite Z2Nat.id; lia)) as Hk.
      rewrite IH; try lia. f_equal. lia.
Qed.

Lemma popcount_fallback_ok w x : W w -> 0 <= x < 2 ^ w -> popcount_fallback_m w x = Ok (popcount_spec w x).
Proof.
  intros HW Hx. pose proof (W_pos w HW). unfold popcount_fallback_m.
  pose proof (pc_bounds (Z.to_nat w) x).
  rewrite popcount_loop_ok by (auto; lia). rewrite popcount_spec_pc by lia. f_equal.
Qed.

(* the run-time path: __builtin_popcount* by its documented meaning (the number of 1-bits) *)
Lemma popcount_ok w x : popcount_m w x = Ok (popcount_spec w x).
Proof. reflexivity. Qed.

(** * has_single_bit: exactly one bit set <-> a power of two *)
Lemma pc_one : forall n x, 0 <= x < 2 ^ Z.of_nat n -> (pc n x = 1 <-> exists k, 0 <= k /\ x = 2 ^ k).
Proof.
  induction n as [|n IH]; intros x Hx.
  - change (2 ^ Z.of_nat 0) with 1 in Hx. cbn [pc]. split; [lia|]. intros (k & Hk & E).
    assert (0 < 2 ^ k) by (apply pow2_pos; lia). lia.
  - cbn [pc]. pose proof (div2_range n x Hx) as Hd. pose proof (odd_div2 x) as E.
    pose proof (pc_zero n (Z.div2 x) Hd) as Z0. specialize (IH (Z.div2 x) Hd).
    pose proof (pc_bounds n (Z.div2 x)).
    destruct (Z.odd x) eqn:O; cbn [Z.b2z] in *.
    + split.
      * intros P. exists 0. split; [lia|]. assert (Z.div2 x = 0) by (apply Z0; lia). change (2 ^ 0) with 1. lia.
      * intros (k & Hk & Ek). destruct (Z.eq_dec k 0) as [->|Nk].
        { change (2 ^ 0) with 1 in Ek. assert (Z.div2 x = 0) by lia. assert (pc n (Z.div2 x) = 0) by (apply Z0; assumption). lia. }
        { exfalso. assert (Ev : Z.odd (2 ^ k) = false).
          { replace k with (Z.succ (k - 1)) by lia. rewrite Z.pow_succ_r by lia. apply Z.odd_mul. }
          rewrite <- Ek, O in Ev. discriminate. }
    + split.
      * intros P. assert (P' : pc n (Z.div2 x) = 1) by lia. apply IH in P'. destruct P' as (k & Hk & Ek).
        exists (k + 1). split; [lia|]. rewrite Z.pow_add_r by lia. change (2 ^ 1) with 2. lia.
      * intros (k & Hk & Ek). destruct (Z.eq_dec k 0) as [->|Nk].
        { change (2 ^ 0) with 1 in Ek. lia. }
        { assert (P' : pc n (Z.div2 x) = 1); [|lia]. apply IH. exists (k - 1). split; [lia|].
          assert (E2 : 2 ^ k = 2 * 2 ^ (k - 1)) by (rewrite <- Z.pow_succ_r by lia; f_equal; lia).
          lia. }
Qed.

Lemma has_single_bit_spec_pow2 x : has_single_bit_spec x = true <-> exists k, 0 <= k /\ x = 2 ^ k.
Proof.
  unfold has_single_bit_spec. split.
  - intros H. apply andb_true_iff in H. destruct H as [H1 H2].
    exists (Z.log2 x). split; [apply Z.log2_nonneg | lia].
  - intros (k & Hk & ->). assert (0 < 2 ^ k) by (apply pow2_pos; lia).
    rewrite Z.log2_pow2 by lia. apply andb_true_iff. split; lia.
Qed.

Lemma has_single_bit_ok w x : W w -> 0 <= x < 2 ^ w -> has_single_bit_m w x = Ok (has_single_bit_spec x).
Proof.
  intros HW Hx. pose proof (W_pos w HW). unfold has_single_bit_m. rewrite popcount_ok. cbn [rbind]. f_equal.
  rewrite popcount_spec_pc by lia.
  pose proof (pc_one (Z.to_nat w) x ltac:(rewrite Z2Nat.id; lia)) as P.
  pose proof (has_single_bit_spec_pow2 x) as S.
  destruct (has_single_bit_spec x).
  - assert (pc (Z.to_nat w) x = 1) by (apply P, S; reflexivity). lia.
  - destruct (Z.eqb_spec (pc (Z.to_nat w) x) 1) as [E|E]; [|reflexivity].
    apply P, S in E. discriminate.
Qed.

Lemma pop_all w : W w -> forall x, 0 <= x < 2 ^ w ->
  popcount_m w x = Ok (popcount_spec w x) /\ popcount_fallback_m w x = Ok (popcount_spec w x)
  /\ has_single_bit_m w x = Ok (has_single_bit_spec x).
Proof.
  intros HW x Hx. repeat split; [apply popcount_fallback_ok | apply has_single_bit_ok]; assumption.
Qed.
