(* C14 — translator obligations, second batch: the 64 kernels regenerated from /repo's cmp_greater.hpp, cmp_less_equal.hpp,
   cmp_greater_equal.hpp, cmp_not_equal.hpp, in_range.hpp (with the cmp_less / cmp_equal instantiations they call),
   saturate_cast.hpp, byteswap.hpp (detail::byteswap_fallback), experimental/net/byte_order.hpp, add_sat.hpp
   (detail::add_sat_fallback, 64-bit branch), abs.hpp (int, long) and the template<Pos> wrappers of set_bit.hpp, reset_bit.hpp,
   flip_bit.hpp, test_bit.hpp ON THIS RUN (coq/Gen/Gen_bits2.v, configuration translate/kernels_bits2.json) compute what the
   hand-written model computes, for ALL arguments of the documented domain (GenEquivB.v), hence the mathematical definition
   of Spec.v.  [ok_of]: Ok v -> Some v, any other model outcome -> None.  A semantic edit of one of these kernels (or of a
   function they call) breaks the build of GenEquivB.v / this file. *)
From Tetl Require Import Lib.Base C14.Spec C14.Model C14.GenEquiv C14.GenEquivB.
From Tetl Require Gen.Gen_bits2.
Local Open Scope Z_scope.

(** generated = model *)
Theorem C14_genB_model :
  (forall t u,
    (in_ty i32 t = true -> in_ty u32 u = true ->
      Gen_bits2.cmp_greater_i32_u32_g t u = Some (cmp_greater_m i32 u32 t u)
      /\ Gen_bits2.cmp_less_equal_i32_u32_g t u = Some (cmp_less_equal_m i32 u32 t u)
      /\ Gen_bits2.cmp_greater_equal_i32_u32_g t u = Some (cmp_greater_equal_m i32 u32 t u)
      /\ Gen_bits2.cmp_not_equal_i32_u32_g t u = Some (cmp_not_equal_m i32 u32 t u))
    /\ (in_ty i8 t = true -> in_ty u64 u = true ->
      Gen_bits2.cmp_greater_i8_u64_g t u = Some (cmp_greater_m i8 u64 t u)
      /\ Gen_bits2.cmp_less_equal_i8_u64_g t u = Some (cmp_less_equal_m i8 u64 t u)
      /\ Gen_bits2.cmp_greater_equal_i8_u64_g t u = Some (cmp_greater_equal_m i8 u64 t u)
      /\ Gen_bits2.cmp_not_equal_i8_u64_g t u = Some (cmp_not_equal_m i8 u64 t u))
    /\ (in_ty u32 t = true -> in_ty i64 u = true ->
      Gen_bits2.cmp_greater_u32_i64_g t u = Some (cmp_greater_m u32 i64 t u)
      /\ Gen_bits2.cmp_less_equal_u32_i64_g t u = Some (cmp_less_equal_m u32 i64 t u)
      /\ Gen_bits2.cmp_greater_equal_u32_i64_g t u = Some (cmp_greater_equal_m u32 i64 t u)
      /\ Gen_bits2.cmp_not_equal_u32_i64_g t u = Some (cmp_not_equal_m u32 i64 t u))
    /\ (in_ty i64 t = true -> in_ty u64 u = true ->
      Gen_bits2.cmp_greater_i64_u64_g t u = Some (cmp_greater_m i64 u64 t u)
      /\ Gen_bits2.cmp_less_equal_i64_u64_g t u = Some (cmp_less_equal_m i64 u64 t u)
      /\ Gen_bits2.cmp_greater_equal_i64_u64_g t u = Some (cmp_greater_equal_m i64 u64 t u)
      /\ Gen_bits2.cmp_not_equal_i64_u64_g t u = Some (cmp_not_equal_m i64 u64 t u))
    /\ (in_ty u8 t = true -> in_ty i8 u = true ->
      Gen_bits2.cmp_greater_u8_i8_g t u = Some (cmp_greater_m u8 i8 t u)
      /\ Gen_bits2.cmp_less_equal_u8_i8_g t u = Some (cmp_less_equal_m u8 i8 t u)
      /\ Gen_bits2.cmp_greater_equal_u8_i8_g t u = Some (cmp_greater_equal_m u8 i8 t u)
      /\ Gen_bits2.cmp_not_equal_u8_i8_g t u = Some (cmp_not_equal_m u8 i8 t u))
    /\ (in_ty i16 t = true -> in_ty i32 u = true ->
      Gen_bits2.cmp_greater_i16_i32_g t u = Some (cmp_greater_m i16 i32 t u)
      /\ Gen_bits2.cmp_less_equal_i16_i32_g t u = Some (cmp_less_equal_m i16 i32 t u)
      /\ Gen_bits2.cmp_greater_equal_i16_i32_g t u = Some (cmp_greater_equal_m i16 i32 t u)
      /\ Gen_bits2.cmp_not_equal_i16_i32_g t u = Some (cmp_not_equal_m i16 i32 t u))
    /\ (in_ty u32 t = true -> in_ty i32 u = true ->
      Gen_bits2.cmp_greater_u32_i32_g t u = Some (cmp_greater_m u32 i32 t u)
      /\ Gen_bits2.cmp_less_equal_u32_i32_g t u = Some (cmp_less_equal_m u32 i32 t u)
      /\ Gen_bits2.cmp_greater_equal_u32_i32_g t u = Some (cmp_greater_equal_m u32 i32 t u)
      /\ Gen_bits2.cmp_not_equal_u32_i32_g t u = Some (cmp_not_equal_m u32 i32 t u)))
  /\ (forall t,
    (in_ty i32 t = true -> Gen_bits2.in_range_u32_of_i32_g t = Some (in_range_m u32 i32 t))
    /\ (in_ty i8 t = true -> Gen_bits2.in_range_u64_of_i8_g t = Some (in_range_m u64 i8 t))
    /\ (in_ty u32 t = true -> Gen_bits2.in_range_i64_of_u32_g t = Some (in_range_m i64 u32 t))
    /\ (in_ty i64 t = true -> Gen_bits2.in_range_u64_of_i64_g t = Some (in_range_m u64 i64 t))
    /\ (in_ty u8 t = true -> Gen_bits2.in_range_i8_of_u8_g t = Some (in_range_m i8 u8 t))
    /\ (in_ty i16 t = true -> Gen_bits2.in_range_i32_of_i16_g t = Some (in_range_m i32 i16 t))
    /\ (in_ty u32 t = true -> Gen_bits2.in_range_i32_of_u32_g t = Some (in_range_m i32 u32 t)))
  /\ (forall x,
    (in_ty i32 x = true -> Gen_bits2.saturate_cast_u8_of_i32_g x = ok_of (saturate_cast_m u8 i32 x))
    /\ (in_ty i32 x = true -> Gen_bits2.saturate_cast_i8_of_i32_g x = ok_of (saturate_cast_m i8 i32 x))
    /\ (in_ty u32 x = true -> Gen_bits2.saturate_cast_i32_of_u32_g x = ok_of (saturate_cast_m i32 u32 x))
    /\ (in_ty i64 x = true -> Gen_bits2.saturate_cast_u32_of_i64_g x = ok_of (saturate_cast_m u32 i64 x))
    /\ (in_ty u64 x = true -> Gen_bits2.saturate_cast_i64_of_u64_g x = ok_of (saturate_cast_m i64 u64 x))
    /\ (in_ty i8 x = true -> Gen_bits2.saturate_cast_u64_of_i8_g x = ok_of (saturate_cast_m u64 i8 x)))
  /\ (forall v,
    Gen_bits2.byteswap_fallback_u16_g v = ok_of (byteswap_fallback_m 16 v)
    /\ Gen_bits2.byteswap_fallback_u32_g v = ok_of (byteswap_fallback_m 32 v)
    /\ Gen_bits2.byteswap_fallback_u64_g v = ok_of (byteswap_fallback_m 64 v)
    /\ Gen_bits2.ntoh_u8_g v = ok_of (ntoh_m 8 v)
    /\ Gen_bits2.ntoh_u16_g v = ok_of (ntoh_m 16 v)
    /\ Gen_bits2.ntoh_u32_g v = ok_of (ntoh_m 32 v)
    /\ Gen_bits2.hton_u8_g v = ok_of (hton_m 8 v)
    /\ Gen_bits2.hton_u16_g v = ok_of (hton_m 16 v)
    /\ Gen_bits2.hton_u32_g v = ok_of (hton_m 32 v))
  /\ (forall x y,
    Gen_bits2.add_sat_fallback_i64_g x y = ok_of (add_sat_fallback_m i64 x y)
    /\ Gen_bits2.add_sat_fallback_u64_g x y = ok_of (add_sat_fallback_m u64 x y)
    /\ Gen_bits2.abs_i32_g x = ok_of (abs_m i32 x)
    /\ Gen_bits2.abs_i64_g x = ok_of (abs_m i64 x))
  /\ (forall word v,
    (0 <= word < 2 ^ 8 ->
      Some (Gen_bits2.set_bit_tpl7_u8_g word) = option_map ok_of (set_bit_tpl_m 8 7 word)
      /\ Some (Gen_bits2.reset_bit_tpl7_u8_g word) = option_map ok_of (reset_bit_tpl_m 8 7 word)
      /\ Some (Gen_bits2.flip_bit_tpl7_u8_g word) = option_map ok_of (flip_bit_tpl_m 8 7 word)
      /\ Some (Gen_bits2.test_bit_tpl7_u8_g word) = option_map ok_of (test_bit_tpl_m 8 7 word)
      /\ Some (Gen_bits2.set_bit_val_tpl7_u8_g word v) = option_map ok_of (assign_bit_tpl_m 8 7 word v))
    /\ (0 <= word < 2 ^ 32 ->
      Some (Gen_bits2.set_bit_tpl31_u32_g word) = option_map ok_of (set_bit_tpl_m 32 31 word)
      /\ Some (Gen_bits2.reset_bit_tpl31_u32_g word) = option_map ok_of (reset_bit_tpl_m 32 31 word)
      /\ Some (Gen_bits2.flip_bit_tpl31_u32_g word) = option_map ok_of (flip_bit_tpl_m 32 31 word)
      /\ Some (Gen_bits2.test_bit_tpl31_u32_g word) = option_map ok_of (test_bit_tpl_m 32 31 word)
      /\ Some (Gen_bits2.set_bit_val_tpl31_u32_g word v) = option_map ok_of (assign_bit_tpl_m 32 31 word v))).
Proof. exact genB_model. Qed.

(** end to end: the regenerated kernels return the mathematical definition on the documented domain
    (abs(min) of int / long: None, signed overflow) *)
Theorem C14_genB_spec :
  (forall t u,
    (in_ty i32 t = true -> in_ty u32 u = true ->
      Gen_bits2.cmp_greater_i32_u32_g t u = Some (cmp_greater_spec t u)
      /\ Gen_bits2.cmp_less_equal_i32_u32_g t u = Some (cmp_less_equal_spec t u)
      /\ Gen_bits2.cmp_greater_equal_i32_u32_g t u = Some (cmp_greater_equal_spec t u)
      /\ Gen_bits2.cmp_not_equal_i32_u32_g t u = Some (cmp_not_equal_spec t u))
    /\ (in_ty i8 t = true -> in_ty u64 u = true ->
      Gen_bits2.cmp_greater_i8_u64_g t u = Some (cmp_greater_spec t u)
      /\ Gen_bits2.cmp_less_equal_i8_u64_g t u = Some (cmp_less_equal_spec t u)
      /\ Gen_bits2.cmp_greater_equal_i8_u64_g t u = Some (cmp_greater_equal_spec t u)
      /\ Gen_bits2.cmp_not_equal_i8_u64_g t u = Some (cmp_not_equal_spec t u))
    /\ (in_ty u32 t = true -> in_ty i64 u = true ->
      Gen_bits2.cmp_greater_u32_i64_g t u = Some (cmp_greater_spec t u)
      /\ Gen_bits2.cmp_less_equal_u32_i64_g t u = Some (cmp_less_equal_spec t u)
      /\ Gen_bits2.cmp_greater_equal_u32_i64_g t u = Some (cmp_greater_equal_spec t u)
      /\ Gen_bits2.cmp_not_equal_u32_i64_g t u = Some (cmp_not_equal_spec t u))
    /\ (in_ty i64 t = true -> in_ty u64 u = true ->
      Gen_bits2.cmp_greater_i64_u64_g t u = Some (cmp_greater_spec t u)
      /\ Gen_bits2.cmp_less_equal_i64_u64_g t u = Some (cmp_less_equal_spec t u)
      /\ Gen_bits2.cmp_greater_equal_i64_u64_g t u = Some (cmp_greater_equal_spec t u)
      /\ Gen_bits2.cmp_not_equal_i64_u64_g t u = Some (cmp_not_equal_spec t u))
    /\ (in_ty u8 t = true -> in_ty i8 u = true ->
      Gen_bits2.cmp_greater_u8_i8_g t u = Some (cmp_greater_spec t u)
      /\ Gen_bits2.cmp_less_equal_u8_i8_g t u = Some (cmp_less_equal_spec t u)
      /\ Gen_bits2.cmp_greater_equal_u8_i8_g t u = Some (cmp_greater_equal_spec t u)
      /\ Gen_bits2.cmp_not_equal_u8_i8_g t u = Some (cmp_not_equal_spec t u))
    /\ (in_ty i16 t = true -> in_ty i32 u = true ->
      Gen_bits2.cmp_greater_i16_i32_g t u = Some (cmp_greater_spec t u)
      /\ Gen_bits2.cmp_less_equal_i16_i32_g t u = Some (cmp_less_equal_spec t u)
      /\ Gen_bits2.cmp_greater_equal_i16_i32_g t u = Some (cmp_greater_equal_spec t u)
      /\ Gen_bits2.cmp_not_equal_i16_i32_g t u = Some (cmp_not_equal_spec t u))
    /\ (in_ty u32 t = true -> in_ty i32 u = true ->
      Gen_bits2.cmp_greater_u32_i32_g t u = Some (cmp_greater_spec t u)
      /\ Gen_bits2.cmp_less_equal_u32_i32_g t u = Some (cmp_less_equal_spec t u)
      /\ Gen_bits2.cmp_greater_equal_u32_i32_g t u = Some (cmp_greater_equal_spec t u)
      /\ Gen_bits2.cmp_not_equal_u32_i32_g t u = Some (cmp_not_equal_spec t u)))
  /\ (forall t,
    (in_ty i32 t = true -> Gen_bits2.in_range_u32_of_i32_g t = Some (in_range_spec u32 t))
    /\ (in_ty i8 t = true -> Gen_bits2.in_range_u64_of_i8_g t = Some (in_range_spec u64 t))
    /\ (in_ty u32 t = true -> Gen_bits2.in_range_i64_of_u32_g t = Some (in_range_spec i64 t))
    /\ (in_ty i64 t = true -> Gen_bits2.in_range_u64_of_i64_g t = Some (in_range_spec u64 t))
    /\ (in_ty u8 t = true -> Gen_bits2.in_range_i8_of_u8_g t = Some (in_range_spec i8 t))
    /\ (in_ty i16 t = true -> Gen_bits2.in_range_i32_of_i16_g t = Some (in_range_spec i32 t))
    /\ (in_ty u32 t = true -> Gen_bits2.in_range_i32_of_u32_g t = Some (in_range_spec i32 t)))
  /\ (forall x,
    (in_ty i32 x = true -> Gen_bits2.saturate_cast_u8_of_i32_g x = Some (saturate_cast_spec u8 x))
    /\ (in_ty i32 x = true -> Gen_bits2.saturate_cast_i8_of_i32_g x = Some (saturate_cast_spec i8 x))
    /\ (in_ty u32 x = true -> Gen_bits2.saturate_cast_i32_of_u32_g x = Some (saturate_cast_spec i32 x))
    /\ (in_ty i64 x = true -> Gen_bits2.saturate_cast_u32_of_i64_g x = Some (saturate_cast_spec u32 x))
    /\ (in_ty u64 x = true -> Gen_bits2.saturate_cast_i64_of_u64_g x = Some (saturate_cast_spec i64 x))
    /\ (in_ty i8 x = true -> Gen_bits2.saturate_cast_u64_of_i8_g x = Some (saturate_cast_spec u64 x)))
  /\ (forall v,
    (0 <= v < 2 ^ 16 -> Gen_bits2.byteswap_fallback_u16_g v = Some (byteswap_u_spec 2 v))
    /\ (0 <= v < 2 ^ 32 -> Gen_bits2.byteswap_fallback_u32_g v = Some (byteswap_u_spec 4 v))
    /\ (0 <= v < 2 ^ 64 -> Gen_bits2.byteswap_fallback_u64_g v = Some (byteswap_u_spec 8 v))
    /\ (0 <= v < 2 ^ 8 -> Gen_bits2.ntoh_u8_g v = Some (hton_spec 8 v))
    /\ (0 <= v < 2 ^ 16 -> Gen_bits2.ntoh_u16_g v = Some (hton_spec 16 v))
    /\ (0 <= v < 2 ^ 32 -> Gen_bits2.ntoh_u32_g v = Some (hton_spec 32 v))
    /\ (0 <= v < 2 ^ 8 -> Gen_bits2.hton_u8_g v = Some (hton_spec 8 v))
    /\ (0 <= v < 2 ^ 16 -> Gen_bits2.hton_u16_g v = Some (hton_spec 16 v))
    /\ (0 <= v < 2 ^ 32 -> Gen_bits2.hton_u32_g v = Some (hton_spec 32 v)))
  /\ (forall x y,
    (in_ty i64 x = true -> in_ty i64 y = true -> Gen_bits2.add_sat_fallback_i64_g x y = Some (add_sat_spec i64 x y))
    /\ (in_ty u64 x = true -> in_ty u64 y = true -> Gen_bits2.add_sat_fallback_u64_g x y = Some (add_sat_spec u64 x y))
    /\ (in_ty i32 x = true -> in_ty i32 (Z.abs x) = true -> Gen_bits2.abs_i32_g x = Some (abs_spec x))
    /\ (in_ty i64 x = true -> in_ty i64 (Z.abs x) = true -> Gen_bits2.abs_i64_g x = Some (abs_spec x))
    /\ Gen_bits2.abs_i32_g (imin i32) = None
    /\ Gen_bits2.abs_i64_g (imin i64) = None).
Proof. exact genB_spec. Qed.

Definition C14_genB_theorems := (C14_genB_model, C14_genB_spec).
Print Assumptions C14_genB_theorems.
