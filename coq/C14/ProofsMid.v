(* C14 proofs: midpoint for the eight integer types and all values of the
   documented domain. *)
From Tetl Require Import Lib.Base C14.Spec C14.Model C14.Arith.
From Coq Require Import ZifyBool.
Local Open Scope Z_scope.
Ltac Zify.zify_post_hook ::= Z.to_euclidean_division_equations.

Lemma midpoint_ok t : WT t -> forall a b, in_ty t a = true -> in_ty t b = true ->
  midpoint_m t a b = Ok (midpoint_spec a b).
Proof.
  intros HT a b Ha Hb.
  types t HT; range Ha; range Hb; unfold midpoint_m, midpoint_spec, arith; widths;
    destruct (Z.ltb_spec b a) as [L|L]; consts3; rewrite ?land_1_l, ?Z.land_0_l.
  all: run.
  all: try lia; try (f_equal; lia).
  all: rewrite ?cast_eq, ?wu_eq by (cbn; lia); widths; consts; f_equal; lia.
Qed.
