(* C14 proofs: midpoint for the eight integer types and all values of the documented domain.
   Step A (generic in the width): the unsigned difference-halving pipeline of the code computes
     half = (D / 2 + s * 2^(w-1) + s * (D mod 2)) mod 2^w,  D = (b - a) mod 2^w,  s = [b < a],
   without leaving the range of the (promoted) unsigned type.
   Step B (per type, small linear problems): a + Int(half) is a + (b - a) / 2 rounded towards a, and the
   final addition does not overflow. *)
From Tetl Require Import Lib.Base C14.Spec C14.Model C14.Arith C14.Bits C14.ProofsRot C14.ProofsBit.
From Coq Require Import ZifyBool.
Local Open Scope Z_scope.
Ltac Zify.zify_post_hook ::= Z.to_euclidean_division_equations.

Definition mid_half (w a b : Z) : Z :=
  let D := (b - a) mod 2 ^ w in
  let s := if b <? a then 1 else 0 in
  (D / 2 + s * 2 ^ (w - 1) + s * (D mod 2)) mod 2 ^ w.

(* arithmetic in the unsigned type of width w: exact in int for the narrow types (the operands here are
   far from the int limits), wrapping for the wide ones; in both cases the value converted back to UInt
   is the result modulo 2^w *)
Lemma arith_U_wu w x : W w -> - 2 ^ 30 <= x <= 2 ^ 30 \/ 32 <= w ->
  exists y, arith (U w) x = Ok y /\ wu w y = x mod 2 ^ w.
Proof.
  intros HW Hx. pose proof (W_pos w HW) as Hp.
  destruct (W_small_big w HW) as [S|B].
  - exists x. split; [|apply wu_eq; lia].
    unfold arith. destruct S as [-> | ->]; widths; apply arith_in_signed; try reflexivity; consts; lia.
  - exists (wu w x). split.
    + unfold arith. destruct B as [-> | ->]; widths; apply arith_in_unsigned; reflexivity.
    + rewrite !wu_eq by lia. apply Z.mod_mod. assert (0 < 2 ^ w) by (apply pow2_pos; lia). lia.
Qed.

Lemma small_bound w x : W w -> 0 <= x <= 2 ^ w -> - 2 ^ 30 <= x <= 2 ^ 30 \/ 32 <= w.
Proof.
  intros HW Hx. destruct (W_small_big w HW) as [[-> | ->]|[-> | ->]]; [left|left|right|right]; consts; lia.
Qed.

Lemma midpoint_stepA t a b : WT t ->
  midpoint_m t a b = (do r <- arith t (a + cast t (mid_half (bits t) a b)); Ok (cast t r)).
Proof.
  intros HT. unfold midpoint_m. set (w := bits t). assert (HW : W w) by exact HT.
  pose proof (W_pos w HW) as Hp.
  assert (P : 0 < 2 ^ w) by (apply pow2_pos; lia).
  assert (Ph : 0 < 2 ^ (w - 1)) by (apply pow2_pos; lia).
  assert (E2 : 2 ^ w = 2 * 2 ^ (w - 1)) by (rewrite <- Z.pow_succ_r by lia; f_equal; lia).
  assert (Hwlt : w - 1 < 2 ^ w).
  { destruct HW as [ -> | [ -> | [ -> | -> ] ] ]; consts; lia. }
  (* digits - 1 *)
  rewrite arith_in_signed by (try reflexivity; consts; lia). cbn [rbind].
  rewrite (wu_small w (w - 1)) by lia.
  (* diff *)
  pose proof (wu_range w a ltac:(lia)) as Ra. pose proof (wu_range w b ltac:(lia)) as Rb.
  destruct (arith_U_wu w (wu w b - wu w a) HW) as (d0 & Hd0 & Hd0w).
  { destruct (W_small_big w HW) as [[-> | ->]|B]; [left|left|right; destruct B; lia];
      consts; lia. }
  rewrite Hd0. cbn [rbind]. rewrite Hd0w.
  assert (HD : (wu w b - wu w a) mod 2 ^ w = (b - a) mod 2 ^ w).
  { rewrite !wu_eq by lia. symmetry. apply Zminus_mod. }
  rewrite HD. set (D := (b - a) mod 2 ^ w).
  assert (RD : 0 <= D < 2 ^ w) by (apply Z.mod_pos_bound; lia).
  (* sign *)
  set (s := if b <? a then 1 else 0).
  assert (Hs : s = 0 \/ s = 1) by (unfold s; destruct (b <? a); lia).
  rewrite (wu_small w s) by lia.
  (* diff / 2 *)
  rewrite Z.quot_div_nonneg by lia.
  assert (Rh : 0 <= D / 2 < 2 ^ (w - 1)) by lia.
  rewrite arith_U by (auto; lia). cbn [rbind].
  (* sign << shift *)
  assert (Hshl : shl (U w) s (w - 1) = Ok (s * 2 ^ (w - 1))).
  { destruct Hs as [-> | ->]; [rewrite shl_zero by (auto; lia) | rewrite shl_one by (auto; lia)]; f_equal; lia. }
  rewrite Hshl. cbn [rbind].
  rewrite arith_U by (auto; nia). cbn [rbind].
  (* + (sign & diff) *)
  assert (Hland : Z.land s D = s * (D mod 2)).
  { destruct Hs as [-> | ->]; [rewrite Z.land_0_l | rewrite land_1_l]; lia. }
  rewrite Hland.
  destruct (arith_U_wu w (D / 2 + s * 2 ^ (w - 1) + s * (D mod 2)) HW) as (h4 & Hh4 & Hh4w).
  { apply small_bound; [assumption | nia]. }
  rewrite Hh4. cbn [rbind]. rewrite Hh4w. reflexivity.
Qed.

(* the value of half in closed form *)
Lemma mid_half_ge w a b : 0 < w -> a <= b -> b - a < 2 ^ w -> mid_half w a b = (b - a) / 2.
Proof.
  intros Hw L R. unfold mid_half. replace (b <? a) with false by lia.
  rewrite (Z.mod_small (b - a)) by lia. rewrite Z.mul_0_l, !Z.add_0_r. apply Z.mod_small. lia.
Qed.

Lemma mid_half_lt w a b : 0 < w -> b < a -> a - b < 2 ^ w ->
  mid_half w a b = if (a - b) / 2 =? 0 then 0 else 2 ^ w - (a - b) / 2.
Proof.
  intros Hw L R. unfold mid_half. replace (b <? a) with true by lia.
  assert (P : 0 < 2 ^ (w - 1)) by (apply pow2_pos; lia).
  assert (E2 : 2 ^ w = 2 * 2 ^ (w - 1)) by (rewrite <- Z.pow_succ_r by lia; f_equal; lia).
  assert (HD : (b - a) mod 2 ^ w = b - a + 2 ^ w).
  { symmetry. apply (Z.mod_unique_pos _ _ (-1)); lia. }
  rewrite HD. set (d := a - b) in *. replace (b - a + 2 ^ w) with (2 ^ w - d) by lia.
  set (p := 2 ^ (w - 1)) in *. rewrite E2.
  assert (S : (2 * p - d) / 2 + 1 * p + 1 * ((2 * p - d) mod 2) = 2 * p - d / 2) by lia.
  rewrite S. destruct (Z.eqb_spec (d / 2) 0) as [Z0|NZ].
  - rewrite Z0, Z.sub_0_r. apply Z.mod_same. lia.
  - apply Z.mod_small. lia.
Qed.

Lemma midpoint_ok t : WT t -> forall a b, in_ty t a = true -> in_ty t b = true ->
  midpoint_m t a b = Ok (midpoint_spec a b).
Proof.
  intros HT a b Ha Hb. rewrite midpoint_stepA by assumption. unfold midpoint_spec.
  destruct (Z.ltb_spec b a) as [L|L].
  - (* b < a: half = 2^w - (a - b) / 2, i.e. -((a - b) / 2) as an Int *)
    assert (Q : (b - a) ÷ 2 = - ((a - b) / 2)).
    { replace (b - a) with (- (a - b)) by lia. rewrite Z.quot_opp_l by lia. rewrite Z.quot_div_nonneg by lia. reflexivity. }
    rewrite Q. set (q := (a - b) / 2) in *. assert (Hq : 0 <= 2 * q <= a - b) by lia. clearbody q.
    types t HT; range Ha; range Hb; cbn [bits];
      (rewrite mid_half_lt by (consts; lia)); consts;
      (destruct (Z.eqb_spec q 0) as [->|NZ]);
      unfold arith; widths; rewrite ?cast_eq by (cbn; lia); widths; consts; ifs; try lia;
      (rewrite ?arith_in_signed by (try reflexivity; consts; lia));
      (rewrite ?arith_in_unsigned by reflexivity);
      cbn [rbind bits]; rewrite ?cast_eq, ?wu_eq by (cbn; lia); widths; consts; ifs; try lia; f_equal; lia.
  - (* a <= b: half = (b - a) / 2 *)
    rewrite Z.quot_div_nonneg by lia.
    set (q := (b - a) / 2) in *. assert (Hq : 0 <= 2 * q <= b - a) by lia.
    assert (Hh : forall w, 0 < w -> b - a < 2 ^ w -> mid_half w a b = q) by (intros; now apply mid_half_ge).
    clearbody q.
    types t HT; range Ha; range Hb; cbn [bits];
      (rewrite Hh by (consts; lia)); clear Hh;
      unfold arith; widths; rewrite ?cast_eq by (cbn; lia); widths; consts; ifs; try lia;
      (rewrite ?arith_in_signed by (try reflexivity; consts; lia));
      (rewrite ?arith_in_unsigned by reflexivity);
      cbn [rbind bits]; rewrite ?cast_eq, ?wu_eq by (cbn; lia); widths; consts; ifs; try lia; f_equal; lia.
Qed.
