(* C14, translator tie, second batch (translate/kernels_bits2.json -> coq/Gen/Gen_bits2.v, regenerated from /repo on every run):
   generated definition = hand model (C14/Model.v) for ALL arguments of the documented domain.
   - cmp_greater / cmp_less_equal / cmp_greater_equal / cmp_not_equal for the six mixed (T, U) pairs of the first batch plus (unsigned, int) and
     in_range<U>(T) for the same pairs: every value of T (and of U); the generated text CALLS the generated cmp_less /
     cmp_equal instantiations it forwards to (translated on demand, `auto_callees`), which are unfolded here;
   - saturate_cast<To>(From) for six (To, From) pairs: every value of From;
   - detail::byteswap_fallback for uint16/32/64, experimental::net::ntoh / hton for uint8/16/32: every value of the type;
   - detail::add_sat_fallback for long / unsigned long (the straight-line branch): ALL integer pairs (long), values of the
     type (unsigned long);
   - abs for int / long: all integers (abs(min) is None on both sides);
   - the template<Pos> single-bit wrappers set_bit<Pos>(w), set_bit<Pos>(w, v), reset_bit<Pos>, flip_bit<Pos>, test_bit<Pos>
     for (unsigned char, Pos = 7) and (unsigned, Pos = 31): every word.
   [ok_of]: Ok v -> Some v, every other model outcome -> None (GenEquiv.v). *)
From Tetl Require Import Lib.Base Lib.MachOps C14.Spec C14.Model C14.Arith C14.Bits C14.ProofsRot C14.ProofsCmp C14.ProofsSat C14.ProofsNum C14.ProofsSwap C14.ProofsBit C14.GenEquiv C14.GenSpec.
From Tetl Require Gen.Gen_bits2.
From Coq Require Import ZifyBool Btauto.
Local Open Scope Z_scope.
Ltac Zify.zify_post_hook ::= Z.to_euclidean_division_equations.

(** * calls between generated definitions: unfold every generated callee (whatever its name), keep the checked
      machine operations *)
Ltac head_of t := lazymatch t with ?f _ => head_of f | _ => t end.
Ltac unfold_calls :=
  repeat (cbn [obind];
          match goal with
          | |- context [?c] =>
              lazymatch type of c with option _ => idtac end;
              let h := head_of c in
              lazymatch h with
              | chk => fail | shl_chk => fail | shr_chk => fail | div_chk => fail | rem_chk => fail
              | @obind => fail | @ok_of => fail
              | _ => is_const h; unfold h
              end
          end);
  cbn [obind].

Ltac unwrap_all := unfold wrap_ty, wrapu, wraps in *; cbn [sgn bits u8 u16 u32 u64 i8 i16 i32 i64] in *.
Ltac ranges :=
  repeat match goal with H : in_ty _ _ = true |- _ => apply in_ty_range in H end; consts.
Ltac ifs_lia :=
  repeat first [ progress cbn [obind] | match goal with |- context [if ?c then _ else _] =>
                     lazymatch c with context [if _ then _ else _] => fail | _ => destruct c eqn:? end end ];
  try reflexivity; try (f_equal; lia); try lia.

(** * cmp_greater / cmp_less_equal / cmp_greater_equal / cmp_not_equal: values of the two types *)
Ltac cmpB := unfold_calls; ranges; unwrap_all; consts; ifs_lia.

Lemma cmp_greater_i32_u32_eq t u : in_ty i32 t = true -> in_ty u32 u = true ->
  Gen_bits2.cmp_greater_i32_u32_g t u = Some (cmp_greater_m i32 u32 t u).
Proof.
  intros Ht Hu. rewrite (cmp_greater_ok i32 u32 t u ltac:(wt) ltac:(wt) Ht Hu).
  unfold Gen_bits2.cmp_greater_i32_u32_g, cmp_greater_spec. cmpB.
Qed.
Lemma cmp_greater_i8_u64_eq t u : in_ty i8 t = true -> in_ty u64 u = true ->
  Gen_bits2.cmp_greater_i8_u64_g t u = Some (cmp_greater_m i8 u64 t u).
Proof.
  intros Ht Hu. rewrite (cmp_greater_ok i8 u64 t u ltac:(wt) ltac:(wt) Ht Hu).
  unfold Gen_bits2.cmp_greater_i8_u64_g, cmp_greater_spec. cmpB.
Qed.
Lemma cmp_greater_u32_i64_eq t u : in_ty u32 t = true -> in_ty i64 u = true ->
  Gen_bits2.cmp_greater_u32_i64_g t u = Some (cmp_greater_m u32 i64 t u).
Proof.
  intros Ht Hu. rewrite (cmp_greater_ok u32 i64 t u ltac:(wt) ltac:(wt) Ht Hu).
  unfold Gen_bits2.cmp_greater_u32_i64_g, cmp_greater_spec. cmpB.
Qed.
Lemma cmp_greater_i64_u64_eq t u : in_ty i64 t = true -> in_ty u64 u = true ->
  Gen_bits2.cmp_greater_i64_u64_g t u = Some (cmp_greater_m i64 u64 t u).
Proof.
  intros Ht Hu. rewrite (cmp_greater_ok i64 u64 t u ltac:(wt) ltac:(wt) Ht Hu).
  unfold Gen_bits2.cmp_greater_i64_u64_g, cmp_greater_spec. cmpB.
Qed.
Lemma cmp_greater_u8_i8_eq t u : in_ty u8 t = true -> in_ty i8 u = true ->
  Gen_bits2.cmp_greater_u8_i8_g t u = Some (cmp_greater_m u8 i8 t u).
Proof.
  intros Ht Hu. rewrite (cmp_greater_ok u8 i8 t u ltac:(wt) ltac:(wt) Ht Hu).
  unfold Gen_bits2.cmp_greater_u8_i8_g, cmp_greater_spec. cmpB.
Qed.
Lemma cmp_greater_i16_i32_eq t u : in_ty i16 t = true -> in_ty i32 u = true ->
  Gen_bits2.cmp_greater_i16_i32_g t u = Some (cmp_greater_m i16 i32 t u).
Proof.
  intros Ht Hu. rewrite (cmp_greater_ok i16 i32 t u ltac:(wt) ltac:(wt) Ht Hu).
  unfold Gen_bits2.cmp_greater_i16_i32_g, cmp_greater_spec. cmpB.
Qed.
Lemma cmp_greater_u32_i32_eq t u : in_ty u32 t = true -> in_ty i32 u = true ->
  Gen_bits2.cmp_greater_u32_i32_g t u = Some (cmp_greater_m u32 i32 t u).
Proof.
  intros Ht Hu. rewrite (cmp_greater_ok u32 i32 t u ltac:(wt) ltac:(wt) Ht Hu).
  unfold Gen_bits2.cmp_greater_u32_i32_g, cmp_greater_spec. cmpB.
Qed.
Lemma cmp_less_equal_i32_u32_eq t u : in_ty i32 t = true -> in_ty u32 u = true ->
  Gen_bits2.cmp_less_equal_i32_u32_g t u = Some (cmp_less_equal_m i32 u32 t u).
Proof.
  intros Ht Hu. rewrite (cmp_less_equal_ok i32 u32 t u ltac:(wt) ltac:(wt) Ht Hu).
  unfold Gen_bits2.cmp_less_equal_i32_u32_g, cmp_less_equal_spec. cmpB.
Qed.
Lemma cmp_less_equal_i8_u64_eq t u : in_ty i8 t = true -> in_ty u64 u = true ->
  Gen_bits2.cmp_less_equal_i8_u64_g t u = Some (cmp_less_equal_m i8 u64 t u).
Proof.
  intros Ht Hu. rewrite (cmp_less_equal_ok i8 u64 t u ltac:(wt) ltac:(wt) Ht Hu).
  unfold Gen_bits2.cmp_less_equal_i8_u64_g, cmp_less_equal_spec. cmpB.
Qed.
Lemma cmp_less_equal_u32_i64_eq t u : in_ty u32 t = true -> in_ty i64 u = true ->
  Gen_bits2.cmp_less_equal_u32_i64_g t u = Some (cmp_less_equal_m u32 i64 t u).
Proof.
  intros Ht Hu. rewrite (cmp_less_equal_ok u32 i64 t u ltac:(wt) ltac:(wt) Ht Hu).
  unfold Gen_bits2.cmp_less_equal_u32_i64_g, cmp_less_equal_spec. cmpB.
Qed.
Lemma cmp_less_equal_i64_u64_eq t u : in_ty i64 t = true -> in_ty u64 u = true ->
  Gen_bits2.cmp_less_equal_i64_u64_g t u = Some (cmp_less_equal_m i64 u64 t u).
Proof.
  intros Ht Hu. rewrite (cmp_less_equal_ok i64 u64 t u ltac:(wt) ltac:(wt) Ht Hu).
  unfold Gen_bits2.cmp_less_equal_i64_u64_g, cmp_less_equal_spec. cmpB.
Qed.
Lemma cmp_less_equal_u8_i8_eq t u : in_ty u8 t = true -> in_ty i8 u = true ->
  Gen_bits2.cmp_less_equal_u8_i8_g t u = Some (cmp_less_equal_m u8 i8 t u).
Proof.
  intros Ht Hu. rewrite (cmp_less_equal_ok u8 i8 t u ltac:(wt) ltac:(wt) Ht Hu).
  unfold Gen_bits2.cmp_less_equal_u8_i8_g, cmp_less_equal_spec. cmpB.
Qed.
Lemma cmp_less_equal_i16_i32_eq t u : in_ty i16 t = true -> in_ty i32 u = true ->
  Gen_bits2.cmp_less_equal_i16_i32_g t u = Some (cmp_less_equal_m i16 i32 t u).
Proof.
  intros Ht Hu. rewrite (cmp_less_equal_ok i16 i32 t u ltac:(wt) ltac:(wt) Ht Hu).
  unfold Gen_bits2.cmp_less_equal_i16_i32_g, cmp_less_equal_spec. cmpB.
Qed.
Lemma cmp_less_equal_u32_i32_eq t u : in_ty u32 t = true -> in_ty i32 u = true ->
  Gen_bits2.cmp_less_equal_u32_i32_g t u = Some (cmp_less_equal_m u32 i32 t u).
Proof.
  intros Ht Hu. rewrite (cmp_less_equal_ok u32 i32 t u ltac:(wt) ltac:(wt) Ht Hu).
  unfold Gen_bits2.cmp_less_equal_u32_i32_g, cmp_less_equal_spec. cmpB.
Qed.
Lemma cmp_greater_equal_i32_u32_eq t u : in_ty i32 t = true -> in_ty u32 u = true ->
  Gen_bits2.cmp_greater_equal_i32_u32_g t u = Some (cmp_greater_equal_m i32 u32 t u).
Proof.
  intros Ht Hu. rewrite (cmp_greater_equal_ok i32 u32 t u ltac:(wt) ltac:(wt) Ht Hu).
  unfold Gen_bits2.cmp_greater_equal_i32_u32_g, cmp_greater_equal_spec. cmpB.
Qed.
Lemma cmp_greater_equal_i8_u64_eq t u : in_ty i8 t = true -> in_ty u64 u = true ->
  Gen_bits2.cmp_greater_equal_i8_u64_g t u = Some (cmp_greater_equal_m i8 u64 t u).
Proof.
  intros Ht Hu. rewrite (cmp_greater_equal_ok i8 u64 t u ltac:(wt) ltac:(wt) Ht Hu).
  unfold Gen_bits2.cmp_greater_equal_i8_u64_g, cmp_greater_equal_spec. cmpB.
Qed.
Lemma cmp_greater_equal_u32_i64_eq t u : in_ty u32 t = true -> in_ty i64 u = true ->
  Gen_bits2.cmp_greater_equal_u32_i64_g t u = Some (cmp_greater_equal_m u32 i64 t u).
Proof.
  intros Ht Hu. rewrite (cmp_greater_equal_ok u32 i64 t u ltac:(wt) ltac:(wt) Ht Hu).
  unfold Gen_bits2.cmp_greater_equal_u32_i64_g, cmp_greater_equal_spec. cmpB.
Qed.
Lemma cmp_greater_equal_i64_u64_eq t u : in_ty i64 t = true -> in_ty u64 u = true ->
  Gen_bits2.cmp_greater_equal_i64_u64_g t u = Some (cmp_greater_equal_m i64 u64 t u).
Proof.
  intros Ht Hu. rewrite (cmp_greater_equal_ok i64 u64 t u ltac:(wt) ltac:(wt) Ht Hu).
  unfold Gen_bits2.cmp_greater_equal_i64_u64_g, cmp_greater_equal_spec. cmpB.
Qed.
Lemma cmp_greater_equal_u8_i8_eq t u : in_ty u8 t = true -> in_ty i8 u = true ->
  Gen_bits2.cmp_greater_equal_u8_i8_g t u = Some (cmp_greater_equal_m u8 i8 t u).
Proof.
  intros Ht Hu. rewrite (cmp_greater_equal_ok u8 i8 t u ltac:(wt) ltac:(wt) Ht Hu).
  unfold Gen_bits2.cmp_greater_equal_u8_i8_g, cmp_greater_equal_spec. cmpB.
Qed.
Lemma cmp_greater_equal_i16_i32_eq t u : in_ty i16 t = true -> in_ty i32 u = true ->
  Gen_bits2.cmp_greater_equal_i16_i32_g t u = Some (cmp_greater_equal_m i16 i32 t u).
Proof.
  intros Ht Hu. rewrite (cmp_greater_equal_ok i16 i32 t u ltac:(wt) ltac:(wt) Ht Hu).
  unfold Gen_bits2.cmp_greater_equal_i16_i32_g, cmp_greater_equal_spec. cmpB.
Qed.
Lemma cmp_greater_equal_u32_i32_eq t u : in_ty u32 t = true -> in_ty i32 u = true ->
  Gen_bits2.cmp_greater_equal_u32_i32_g t u = Some (cmp_greater_equal_m u32 i32 t u).
Proof.
  intros Ht Hu. rewrite (cmp_greater_equal_ok u32 i32 t u ltac:(wt) ltac:(wt) Ht Hu).
  unfold Gen_bits2.cmp_greater_equal_u32_i32_g, cmp_greater_equal_spec. cmpB.
Qed.
Lemma cmp_not_equal_i32_u32_eq t u : in_ty i32 t = true -> in_ty u32 u = true ->
  Gen_bits2.cmp_not_equal_i32_u32_g t u = Some (cmp_not_equal_m i32 u32 t u).
Proof.
  intros Ht Hu. rewrite (cmp_not_equal_ok i32 u32 t u ltac:(wt) ltac:(wt) Ht Hu).
  unfold Gen_bits2.cmp_not_equal_i32_u32_g, cmp_not_equal_spec. cmpB.
Qed.
Lemma cmp_not_equal_i8_u64_eq t u : in_ty i8 t = true -> in_ty u64 u = true ->
  Gen_bits2.cmp_not_equal_i8_u64_g t u = Some (cmp_not_equal_m i8 u64 t u).
Proof.
  intros Ht Hu. rewrite (cmp_not_equal_ok i8 u64 t u ltac:(wt) ltac:(wt) Ht Hu).
  unfold Gen_bits2.cmp_not_equal_i8_u64_g, cmp_not_equal_spec. cmpB.
Qed.
Lemma cmp_not_equal_u32_i64_eq t u : in_ty u32 t = true -> in_ty i64 u = true ->
  Gen_bits2.cmp_not_equal_u32_i64_g t u = Some (cmp_not_equal_m u32 i64 t u).
Proof.
  intros Ht Hu. rewrite (cmp_not_equal_ok u32 i64 t u ltac:(wt) ltac:(wt) Ht Hu).
  unfold Gen_bits2.cmp_not_equal_u32_i64_g, cmp_not_equal_spec. cmpB.
Qed.
Lemma cmp_not_equal_i64_u64_eq t u : in_ty i64 t = true -> in_ty u64 u = true ->
  Gen_bits2.cmp_not_equal_i64_u64_g t u = Some (cmp_not_equal_m i64 u64 t u).
Proof.
  intros Ht Hu. rewrite (cmp_not_equal_ok i64 u64 t u ltac:(wt) ltac:(wt) Ht Hu).
  unfold Gen_bits2.cmp_not_equal_i64_u64_g, cmp_not_equal_spec. cmpB.
Qed.
Lemma cmp_not_equal_u8_i8_eq t u : in_ty u8 t = true -> in_ty i8 u = true ->
  Gen_bits2.cmp_not_equal_u8_i8_g t u = Some (cmp_not_equal_m u8 i8 t u).
Proof.
  intros Ht Hu. rewrite (cmp_not_equal_ok u8 i8 t u ltac:(wt) ltac:(wt) Ht Hu).
  unfold Gen_bits2.cmp_not_equal_u8_i8_g, cmp_not_equal_spec. cmpB.
Qed.
Lemma cmp_not_equal_i16_i32_eq t u : in_ty i16 t = true -> in_ty i32 u = true ->
  Gen_bits2.cmp_not_equal_i16_i32_g t u = Some (cmp_not_equal_m i16 i32 t u).
Proof.
  intros Ht Hu. rewrite (cmp_not_equal_ok i16 i32 t u ltac:(wt) ltac:(wt) Ht Hu).
  unfold Gen_bits2.cmp_not_equal_i16_i32_g, cmp_not_equal_spec. cmpB.
Qed.
Lemma cmp_not_equal_u32_i32_eq t u : in_ty u32 t = true -> in_ty i32 u = true ->
  Gen_bits2.cmp_not_equal_u32_i32_g t u = Some (cmp_not_equal_m u32 i32 t u).
Proof.
  intros Ht Hu. rewrite (cmp_not_equal_ok u32 i32 t u ltac:(wt) ltac:(wt) Ht Hu).
  unfold Gen_bits2.cmp_not_equal_u32_i32_g, cmp_not_equal_spec. cmpB.
Qed.

(** * in_range<R>(T t): every value of T *)
Lemma in_range_u32_of_i32_eq t : in_ty i32 t = true ->
  Gen_bits2.in_range_u32_of_i32_g t = Some (in_range_m u32 i32 t).
Proof.
  intros Ht. rewrite (in_range_ok u32 i32 t ltac:(wt) ltac:(wt) Ht).
  unfold Gen_bits2.in_range_u32_of_i32_g, in_range_spec, in_ty. cmpB.
Qed.
Lemma in_range_u64_of_i8_eq t : in_ty i8 t = true ->
  Gen_bits2.in_range_u64_of_i8_g t = Some (in_range_m u64 i8 t).
Proof.
  intros Ht. rewrite (in_range_ok u64 i8 t ltac:(wt) ltac:(wt) Ht).
  unfold Gen_bits2.in_range_u64_of_i8_g, in_range_spec, in_ty. cmpB.
Qed.
Lemma in_range_i64_of_u32_eq t : in_ty u32 t = true ->
  Gen_bits2.in_range_i64_of_u32_g t = Some (in_range_m i64 u32 t).
Proof.
  intros Ht. rewrite (in_range_ok i64 u32 t ltac:(wt) ltac:(wt) Ht).
  unfold Gen_bits2.in_range_i64_of_u32_g, in_range_spec, in_ty. cmpB.
Qed.
Lemma in_range_u64_of_i64_eq t : in_ty i64 t = true ->
  Gen_bits2.in_range_u64_of_i64_g t = Some (in_range_m u64 i64 t).
Proof.
  intros Ht. rewrite (in_range_ok u64 i64 t ltac:(wt) ltac:(wt) Ht).
  unfold Gen_bits2.in_range_u64_of_i64_g, in_range_spec, in_ty. cmpB.
Qed.
Lemma in_range_i8_of_u8_eq t : in_ty u8 t = true ->
  Gen_bits2.in_range_i8_of_u8_g t = Some (in_range_m i8 u8 t).
Proof.
  intros Ht. rewrite (in_range_ok i8 u8 t ltac:(wt) ltac:(wt) Ht).
  unfold Gen_bits2.in_range_i8_of_u8_g, in_range_spec, in_ty. cmpB.
Qed.
Lemma in_range_i32_of_i16_eq t : in_ty i16 t = true ->
  Gen_bits2.in_range_i32_of_i16_g t = Some (in_range_m i32 i16 t).
Proof.
  intros Ht. rewrite (in_range_ok i32 i16 t ltac:(wt) ltac:(wt) Ht).
  unfold Gen_bits2.in_range_i32_of_i16_g, in_range_spec, in_ty. cmpB.
Qed.
Lemma in_range_i32_of_u32_eq t : in_ty u32 t = true ->
  Gen_bits2.in_range_i32_of_u32_g t = Some (in_range_m i32 u32 t).
Proof.
  intros Ht. rewrite (in_range_ok i32 u32 t ltac:(wt) ltac:(wt) Ht).
  unfold Gen_bits2.in_range_i32_of_u32_g, in_range_spec, in_ty. cmpB.
Qed.

(** * saturate_cast<To>(From x): every value of From *)
Lemma saturate_cast_u8_of_i32_eq x : in_ty i32 x = true ->
  Gen_bits2.saturate_cast_u8_of_i32_g x = ok_of (saturate_cast_m u8 i32 x).
Proof.
  intros Hx. rewrite (saturate_cast_ok u8 i32 x ltac:(wt) ltac:(wt) Hx). cbn [ok_of].
  unfold Gen_bits2.saturate_cast_u8_of_i32_g, saturate_cast_spec, sat, clamp. cmpB.
Qed.
Lemma saturate_cast_i8_of_i32_eq x : in_ty i32 x = true ->
  Gen_bits2.saturate_cast_i8_of_i32_g x = ok_of (saturate_cast_m i8 i32 x).
Proof.
  intros Hx. rewrite (saturate_cast_ok i8 i32 x ltac:(wt) ltac:(wt) Hx). cbn [ok_of].
  unfold Gen_bits2.saturate_cast_i8_of_i32_g, saturate_cast_spec, sat, clamp. cmpB.
Qed.
Lemma saturate_cast_i32_of_u32_eq x : in_ty u32 x = true ->
  Gen_bits2.saturate_cast_i32_of_u32_g x = ok_of (saturate_cast_m i32 u32 x).
Proof.
  intros Hx. rewrite (saturate_cast_ok i32 u32 x ltac:(wt) ltac:(wt) Hx). cbn [ok_of].
  unfold Gen_bits2.saturate_cast_i32_of_u32_g, saturate_cast_spec, sat, clamp. cmpB.
Qed.
Lemma saturate_cast_u32_of_i64_eq x : in_ty i64 x = true ->
  Gen_bits2.saturate_cast_u32_of_i64_g x = ok_of (saturate_cast_m u32 i64 x).
Proof.
  intros Hx. rewrite (saturate_cast_ok u32 i64 x ltac:(wt) ltac:(wt) Hx). cbn [ok_of].
  unfold Gen_bits2.saturate_cast_u32_of_i64_g, saturate_cast_spec, sat, clamp. cmpB.
Qed.
Lemma saturate_cast_i64_of_u64_eq x : in_ty u64 x = true ->
  Gen_bits2.saturate_cast_i64_of_u64_g x = ok_of (saturate_cast_m i64 u64 x).
Proof.
  intros Hx. rewrite (saturate_cast_ok i64 u64 x ltac:(wt) ltac:(wt) Hx). cbn [ok_of].
  unfold Gen_bits2.saturate_cast_i64_of_u64_g, saturate_cast_spec, sat, clamp. cmpB.
Qed.
Lemma saturate_cast_u64_of_i8_eq x : in_ty i8 x = true ->
  Gen_bits2.saturate_cast_u64_of_i8_g x = ok_of (saturate_cast_m u64 i8 x).
Proof.
  intros Hx. rewrite (saturate_cast_ok u64 i8 x ltac:(wt) ltac:(wt) Hx). cbn [ok_of].
  unfold Gen_bits2.saturate_cast_u64_of_i8_g, saturate_cast_spec, sat, clamp. cmpB.
Qed.


(** * detail::byteswap_fallback (uint16/32/64), experimental::net::ntoh / hton (uint8/16/32): EVERY integer argument
      (both sides run the same checked shifts in the same order; lockstep) *)
Ltac ev_eqb :=
  repeat match goal with
         | |- context [?a =? ?b] => is_closed_z a; is_closed_z b;
             let v := eval vm_compute in (a =? b) in change (a =? b) with v
         end; cbv iota.
Ltac bswap_tac :=
  unfold_calls; cbv zeta; ev_eqb;
  rewrite ?shl_res, ?shr_res by (cbn; lia); prom;
  repeat match goal with
         | |- context [shl_chk ?t ?x ?k] => destruct (shl_chk t x k) eqn:?; cbn [obind rbind res_of ok_of]; [|reflexivity]
         | |- context [shr_chk ?t ?x ?k] => destruct (shr_chk t x k) eqn:?; cbn [obind rbind res_of ok_of]; [|reflexivity]
         end;
  cbn [obind rbind res_of ok_of]; rewrite ?wu_wrapu by lia; unwrap; try reflexivity;
  (* the operands of | may come in any order / association in the source *)
  try (match goal with
       | |- Some (wrapu ?w ?a) = Some (wrapu ?w ?b) => apply (f_equal (fun z => Some (wrapu w z)))
       | |- Some ?a = Some ?b => apply (f_equal (@Some Z))
       end; apply Z.bits_inj'; intros ? ?; rewrite ?Z.lor_spec; btauto).

Lemma byteswap_fallback_u16_eq val : Gen_bits2.byteswap_fallback_u16_g val = ok_of (byteswap_fallback_m 16 val).
Proof. unfold Gen_bits2.byteswap_fallback_u16_g, byteswap_fallback_m. bswap_tac. Qed.
Lemma byteswap_fallback_u32_eq val : Gen_bits2.byteswap_fallback_u32_g val = ok_of (byteswap_fallback_m 32 val).
Proof. unfold Gen_bits2.byteswap_fallback_u32_g, byteswap_fallback_m. bswap_tac. Qed.
Lemma byteswap_fallback_u64_eq val : Gen_bits2.byteswap_fallback_u64_g val = ok_of (byteswap_fallback_m 64 val).
Proof. unfold Gen_bits2.byteswap_fallback_u64_g, byteswap_fallback_m. bswap_tac. Qed.
Lemma ntoh_u8_eq v : Gen_bits2.ntoh_u8_g v = ok_of (ntoh_m 8 v).
Proof. unfold Gen_bits2.ntoh_u8_g, hton_m, ntoh_m. bswap_tac. Qed.
Lemma ntoh_u16_eq v : Gen_bits2.ntoh_u16_g v = ok_of (ntoh_m 16 v).
Proof. unfold Gen_bits2.ntoh_u16_g, hton_m, ntoh_m. bswap_tac. Qed.
Lemma ntoh_u32_eq v : Gen_bits2.ntoh_u32_g v = ok_of (ntoh_m 32 v).
Proof. unfold Gen_bits2.ntoh_u32_g, hton_m, ntoh_m. bswap_tac. Qed.
Lemma hton_u8_eq v : Gen_bits2.hton_u8_g v = ok_of (hton_m 8 v).
Proof. unfold Gen_bits2.hton_u8_g, hton_m, ntoh_m. bswap_tac. Qed.
Lemma hton_u16_eq v : Gen_bits2.hton_u16_g v = ok_of (hton_m 16 v).
Proof. unfold Gen_bits2.hton_u16_g, hton_m, ntoh_m. bswap_tac. Qed.
Lemma hton_u32_eq v : Gen_bits2.hton_u32_g v = ok_of (hton_m 32 v).
Proof. unfold Gen_bits2.hton_u32_g, hton_m, ntoh_m. bswap_tac. Qed.

(** * detail::add_sat_fallback, long / unsigned long (the branch without a wider type): ALL integer pairs *)
Lemma add_sat_fallback_i64_eq x y : Gen_bits2.add_sat_fallback_i64_g x y = ok_of (add_sat_fallback_m i64 x y).
Proof.
  unfold Gen_bits2.add_sat_fallback_i64_g, add_sat_fallback_m, arith. cbv zeta. cbn [bits sgn i64]. ev_eqb.
  change (64 <? 32) with false. cbv iota. change (promote i64) with i64. consts. cmp_norm.
  rewrite !arith_signed_res by reflexivity.
  destruct (0 <=? x);
    (match goal with |- context [chk i64 (?c - x)] => destruct (chk i64 (c - x)) as [d|] eqn:? end;
     cbn [obind rbind ok_of]; [|reflexivity];
     match goal with |- context [if ?c then _ else _] => destruct c end; cbn [obind rbind ok_of]; [reflexivity|];
     rewrite ?arith_signed_res by reflexivity; mid_signed_fin WT_i64).
Qed.

Lemma add_sat_fallback_u64_eq x y : Gen_bits2.add_sat_fallback_u64_g x y = ok_of (add_sat_fallback_m u64 x y).
Proof.
  unfold Gen_bits2.add_sat_fallback_u64_g, add_sat_fallback_m, arith. cbv zeta. cbn [bits sgn u64]. ev_eqb.
  change (64 <? 32) with false. cbv iota. change (promote u64) with u64. consts. cmp_norm.
  rewrite !arith_in_unsigned by reflexivity. cbn [bits u64 rbind].
  rewrite ?cast_wrap_ty, ?wu_wrapu by (cbn; lia). unwrap.
  destruct (0 <=? x); cbn [rbind];
    (match goal with |- context [if ?c then _ else _] => destruct c end; cbn [obind rbind ok_of]; [reflexivity|];
     rewrite ?arith_in_unsigned by reflexivity; cbn [rbind ok_of bits u64];
     rewrite ?cast_wrap_ty, ?wu_wrapu by (cbn; lia); unwrap; rewrite ?wrapu_idem by lia; reflexivity).
Qed.

(** * abs for int / long: all integers (abs(min): None = signed overflow on both sides) *)
Lemma abs_i32_eq x : Gen_bits2.abs_i32_g x = ok_of (abs_m i32 x).
Proof.
  unfold Gen_bits2.abs_i32_g, abs_m, arith. cbn [sgn i32 andb]. change (promote i32) with i32. cmp_norm.
  destruct (x <? 0); [|reflexivity]. rewrite Z.sub_0_l, arith_signed_res by reflexivity. mid_signed_fin WT_i32'.
Qed.
Lemma abs_i64_eq x : Gen_bits2.abs_i64_g x = ok_of (abs_m i64 x).
Proof.
  unfold Gen_bits2.abs_i64_g, abs_m, arith. cbn [sgn i64 andb]. change (promote i64) with i64. cmp_norm.
  destruct (x <? 0); [|reflexivity]. rewrite Z.sub_0_l, arith_signed_res by reflexivity. mid_signed_fin WT_i64.
Qed.

(** * the template<size_t Pos> single-bit wrappers for (unsigned char, Pos = 7) and (unsigned, Pos = 31): every word.
      The wrapper is generated as a CALL of the run-time overload it forwards to (translated on demand from the same
      source as the first batch's kernel, so the two texts are convertible); [None] of the model = static_assert. *)
Lemma obind_some_id {A} (o : option A) : obind o (fun t => Some t) = o.
Proof. destruct o; reflexivity. Qed.

Lemma set_bit_tpl7_u8_eq word : 0 <= word < 2 ^ 8 ->
  Some (Gen_bits2.set_bit_tpl7_u8_g word) = option_map ok_of (set_bit_tpl_m 8 7 word).
Proof.
  intros Hw. unfold Gen_bits2.set_bit_tpl7_u8_g, set_bit_tpl_m, tpl_pos. change (7 <? 8) with true. cbv iota. cbn [option_map]. f_equal.
  change (wrap_ty u8 7) with 7. change (wu 8 7) with 7. rewrite obind_some_id.
  rewrite <- (set_bit_u8_eq word 7 Hw ltac:(lia)). reflexivity.
Qed.
Lemma reset_bit_tpl7_u8_eq word : 0 <= word < 2 ^ 8 ->
  Some (Gen_bits2.reset_bit_tpl7_u8_g word) = option_map ok_of (reset_bit_tpl_m 8 7 word).
Proof.
  intros Hw. unfold Gen_bits2.reset_bit_tpl7_u8_g, reset_bit_tpl_m, tpl_pos. change (7 <? 8) with true. cbv iota. cbn [option_map]. f_equal.
  change (wrap_ty u8 7) with 7. change (wu 8 7) with 7. rewrite obind_some_id.
  rewrite <- (reset_bit_u8_eq word 7 Hw ltac:(lia)). reflexivity.
Qed.
Lemma flip_bit_tpl7_u8_eq word : 0 <= word < 2 ^ 8 ->
  Some (Gen_bits2.flip_bit_tpl7_u8_g word) = option_map ok_of (flip_bit_tpl_m 8 7 word).
Proof.
  intros Hw. unfold Gen_bits2.flip_bit_tpl7_u8_g, flip_bit_tpl_m, tpl_pos. change (7 <? 8) with true. cbv iota. cbn [option_map]. f_equal.
  change (wrap_ty u8 7) with 7. change (wu 8 7) with 7. rewrite obind_some_id.
  rewrite <- (flip_bit_u8_eq word 7 Hw ltac:(lia)). reflexivity.
Qed.
Lemma test_bit_tpl7_u8_eq word : 0 <= word < 2 ^ 8 ->
  Some (Gen_bits2.test_bit_tpl7_u8_g word) = option_map ok_of (test_bit_tpl_m 8 7 word).
Proof.
  intros Hw. unfold Gen_bits2.test_bit_tpl7_u8_g, test_bit_tpl_m, tpl_pos. change (7 <? 8) with true. cbv iota. cbn [option_map]. f_equal.
  change (wrap_ty u8 7) with 7. change (wu 8 7) with 7. rewrite obind_some_id.
  rewrite <- (test_bit_u8_eq word 7 Hw ltac:(lia)). reflexivity.
Qed.
Lemma set_bit_val_tpl7_u8_eq word v : 0 <= word < 2 ^ 8 ->
  Some (Gen_bits2.set_bit_val_tpl7_u8_g word v) = option_map ok_of (assign_bit_tpl_m 8 7 word v).
Proof.
  intros Hw. unfold Gen_bits2.set_bit_val_tpl7_u8_g, assign_bit_tpl_m, tpl_pos. change (7 <? 8) with true. cbv iota. cbn [option_map]. f_equal.
  change (wrap_ty u8 7) with 7. change (wu 8 7) with 7. rewrite obind_some_id.
  rewrite <- (set_bit_val_u8_eq word 7 v Hw ltac:(lia)). reflexivity.
Qed.
Lemma set_bit_tpl31_u32_eq word : 0 <= word < 2 ^ 32 ->
  Some (Gen_bits2.set_bit_tpl31_u32_g word) = option_map ok_of (set_bit_tpl_m 32 31 word).
Proof.
  intros Hw. unfold Gen_bits2.set_bit_tpl31_u32_g, set_bit_tpl_m, tpl_pos. change (31 <? 32) with true. cbv iota. cbn [option_map]. f_equal.
  change (wrap_ty u32 31) with 31. change (wu 32 31) with 31. rewrite obind_some_id.
  rewrite <- (set_bit_u32_eq word 31 Hw ltac:(lia)). reflexivity.
Qed.
Lemma reset_bit_tpl31_u32_eq word : 0 <= word < 2 ^ 32 ->
  Some (Gen_bits2.reset_bit_tpl31_u32_g word) = option_map ok_of (reset_bit_tpl_m 32 31 word).
Proof.
  intros Hw. unfold Gen_bits2.reset_bit_tpl31_u32_g, reset_bit_tpl_m, tpl_pos. change (31 <? 32) with true. cbv iota. cbn [option_map]. f_equal.
  change (wrap_ty u32 31) with 31. change (wu 32 31) with 31. rewrite obind_some_id.
  rewrite <- (reset_bit_u32_eq word 31 Hw ltac:(lia)). reflexivity.
Qed.
Lemma flip_bit_tpl31_u32_eq word : 0 <= word < 2 ^ 32 ->
  Some (Gen_bits2.flip_bit_tpl31_u32_g word) = option_map ok_of (flip_bit_tpl_m 32 31 word).
Proof.
  intros Hw. unfold Gen_bits2.flip_bit_tpl31_u32_g, flip_bit_tpl_m, tpl_pos. change (31 <? 32) with true. cbv iota. cbn [option_map]. f_equal.
  change (wrap_ty u32 31) with 31. change (wu 32 31) with 31. rewrite obind_some_id.
  rewrite <- (flip_bit_u32_eq word 31 Hw ltac:(lia)). reflexivity.
Qed.
Lemma test_bit_tpl31_u32_eq word : 0 <= word < 2 ^ 32 ->
  Some (Gen_bits2.test_bit_tpl31_u32_g word) = option_map ok_of (test_bit_tpl_m 32 31 word).
Proof.
  intros Hw. unfold Gen_bits2.test_bit_tpl31_u32_g, test_bit_tpl_m, tpl_pos. change (31 <? 32) with true. cbv iota. cbn [option_map]. f_equal.
  change (wrap_ty u32 31) with 31. change (wu 32 31) with 31. rewrite obind_some_id.
  rewrite <- (test_bit_u32_eq word 31 Hw ltac:(lia)). reflexivity.
Qed.
Lemma set_bit_val_tpl31_u32_eq word v : 0 <= word < 2 ^ 32 ->
  Some (Gen_bits2.set_bit_val_tpl31_u32_g word v) = option_map ok_of (assign_bit_tpl_m 32 31 word v).
Proof.
  intros Hw. unfold Gen_bits2.set_bit_val_tpl31_u32_g, assign_bit_tpl_m, tpl_pos. change (31 <? 32) with true. cbv iota. cbn [option_map]. f_equal.
  change (wrap_ty u32 31) with 31. change (wu 32 31) with 31. rewrite obind_some_id.
  rewrite <- (set_bit_val_u32_eq word 31 v Hw ltac:(lia)). reflexivity.
Qed.

(** * summary: generated = model, generated = mathematical definition *)
Lemma genB_model :
  (forall t u,
    (in_ty i32 t = true -> in_ty u32 u = true ->
      Gen_bits2.cmp_greater_i32_u32_g t u = Some (cmp_greater_m i32 u32 t u)
      /\ Gen_bits2.cmp_less_equal_i32_u32_g t u = Some (cmp_less_equal_m i32 u32 t u)
      /\ Gen_bits2.cmp_greater_equal_i32_u32_g t u = Some (cmp_greater_equal_m i32 u32 t u)
      /\ Gen_bits2.cmp_not_equal_i32_u32_g t u = Some (cmp_not_equal_m i32 u32 t u))
    /\ (in_ty i8 t = true -> in_ty u64 u = true ->
      Gen_bits2.cmp_greater_i8_u64_g t u = Some (cmp_greater_m i8 u64 t u)
      /\ Gen_bits2.cmp_less_equal_i8_u64_g t u = Some (cmp_less_equal_m i8 u64 t u)
      /\ Gen_bits2.cmp_greater_equal_i8_u64_g t u = Some (cmp_greater_equal_m i8 u64 t u)
      /\ Gen_bits2.cmp_not_equal_i8_u64_g t u = Some (cmp_not_equal_m i8 u64 t u))
    /\ (in_ty u32 t = true -> in_ty i64 u = true ->
      Gen_bits2.cmp_greater_u32_i64_g t u = Some (cmp_greater_m u32 i64 t u)
      /\ Gen_bits2.cmp_less_equal_u32_i64_g t u = Some (cmp_less_equal_m u32 i64 t u)
      /\ Gen_bits2.cmp_greater_equal_u32_i64_g t u = Some (cmp_greater_equal_m u32 i64 t u)
      /\ Gen_bits2.cmp_not_equal_u32_i64_g t u = Some (cmp_not_equal_m u32 i64 t u))
    /\ (in_ty i64 t = true -> in_ty u64 u = true ->
      Gen_bits2.cmp_greater_i64_u64_g t u = Some (cmp_greater_m i64 u64 t u)
      /\ Gen_bits2.cmp_less_equal_i64_u64_g t u = Some (cmp_less_equal_m i64 u64 t u)
      /\ Gen_bits2.cmp_greater_equal_i64_u64_g t u = Some (cmp_greater_equal_m i64 u64 t u)
      /\ Gen_bits2.cmp_not_equal_i64_u64_g t u = Some (cmp_not_equal_m i64 u64 t u))
    /\ (in_ty u8 t = true -> in_ty i8 u = true ->
      Gen_bits2.cmp_greater_u8_i8_g t u = Some (cmp_greater_m u8 i8 t u)
      /\ Gen_bits2.cmp_less_equal_u8_i8_g t u = Some (cmp_less_equal_m u8 i8 t u)
      /\ Gen_bits2.cmp_greater_equal_u8_i8_g t u = Some (cmp_greater_equal_m u8 i8 t u)
      /\ Gen_bits2.cmp_not_equal_u8_i8_g t u = Some (cmp_not_equal_m u8 i8 t u))
    /\ (in_ty i16 t = true -> in_ty i32 u = true ->
      Gen_bits2.cmp_greater_i16_i32_g t u = Some (cmp_greater_m i16 i32 t u)
      /\ Gen_bits2.cmp_less_equal_i16_i32_g t u = Some (cmp_less_equal_m i16 i32 t u)
      /\ Gen_bits2.cmp_greater_equal_i16_i32_g t u = Some (cmp_greater_equal_m i16 i32 t u)
      /\ Gen_bits2.cmp_not_equal_i16_i32_g t u = Some (cmp_not_equal_m i16 i32 t u))
    /\ (in_ty u32 t = true -> in_ty i32 u = true ->
      Gen_bits2.cmp_greater_u32_i32_g t u = Some (cmp_greater_m u32 i32 t u)
      /\ Gen_bits2.cmp_less_equal_u32_i32_g t u = Some (cmp_less_equal_m u32 i32 t u)
      /\ Gen_bits2.cmp_greater_equal_u32_i32_g t u = Some (cmp_greater_equal_m u32 i32 t u)
      /\ Gen_bits2.cmp_not_equal_u32_i32_g t u = Some (cmp_not_equal_m u32 i32 t u)))
  /\ (forall t,
    (in_ty i32 t = true -> Gen_bits2.in_range_u32_of_i32_g t = Some (in_range_m u32 i32 t))
    /\ (in_ty i8 t = true -> Gen_bits2.in_range_u64_of_i8_g t = Some (in_range_m u64 i8 t))
    /\ (in_ty u32 t = true -> Gen_bits2.in_range_i64_of_u32_g t = Some (in_range_m i64 u32 t))
    /\ (in_ty i64 t = true -> Gen_bits2.in_range_u64_of_i64_g t = Some (in_range_m u64 i64 t))
    /\ (in_ty u8 t = true -> Gen_bits2.in_range_i8_of_u8_g t = Some (in_range_m i8 u8 t))
    /\ (in_ty i16 t = true -> Gen_bits2.in_range_i32_of_i16_g t = Some (in_range_m i32 i16 t))
    /\ (in_ty u32 t = true -> Gen_bits2.in_range_i32_of_u32_g t = Some (in_range_m i32 u32 t)))
  /\ (forall x,
    (in_ty i32 x = true -> Gen_bits2.saturate_cast_u8_of_i32_g x = ok_of (saturate_cast_m u8 i32 x))
    /\ (in_ty i32 x = true -> Gen_bits2.saturate_cast_i8_of_i32_g x = ok_of (saturate_cast_m i8 i32 x))
    /\ (in_ty u32 x = true -> Gen_bits2.saturate_cast_i32_of_u32_g x = ok_of (saturate_cast_m i32 u32 x))
    /\ (in_ty i64 x = true -> Gen_bits2.saturate_cast_u32_of_i64_g x = ok_of (saturate_cast_m u32 i64 x))
    /\ (in_ty u64 x = true -> Gen_bits2.saturate_cast_i64_of_u64_g x = ok_of (saturate_cast_m i64 u64 x))
    /\ (in_ty i8 x = true -> Gen_bits2.saturate_cast_u64_of_i8_g x = ok_of (saturate_cast_m u64 i8 x)))
  /\ (forall v,
    Gen_bits2.byteswap_fallback_u16_g v = ok_of (byteswap_fallback_m 16 v)
    /\ Gen_bits2.byteswap_fallback_u32_g v = ok_of (byteswap_fallback_m 32 v)
    /\ Gen_bits2.byteswap_fallback_u64_g v = ok_of (byteswap_fallback_m 64 v)
    /\ Gen_bits2.ntoh_u8_g v = ok_of (ntoh_m 8 v)
    /\ Gen_bits2.ntoh_u16_g v = ok_of (ntoh_m 16 v)
    /\ Gen_bits2.ntoh_u32_g v = ok_of (ntoh_m 32 v)
    /\ Gen_bits2.hton_u8_g v = ok_of (hton_m 8 v)
    /\ Gen_bits2.hton_u16_g v = ok_of (hton_m 16 v)
    /\ Gen_bits2.hton_u32_g v = ok_of (hton_m 32 v))
  /\ (forall x y,
    Gen_bits2.add_sat_fallback_i64_g x y = ok_of (add_sat_fallback_m i64 x y)
    /\ Gen_bits2.add_sat_fallback_u64_g x y = ok_of (add_sat_fallback_m u64 x y)
    /\ Gen_bits2.abs_i32_g x = ok_of (abs_m i32 x)
    /\ Gen_bits2.abs_i64_g x = ok_of (abs_m i64 x))
  /\ (forall word v,
    (0 <= word < 2 ^ 8 ->
      Some (Gen_bits2.set_bit_tpl7_u8_g word) = option_map ok_of (set_bit_tpl_m 8 7 word)
      /\ Some (Gen_bits2.reset_bit_tpl7_u8_g word) = option_map ok_of (reset_bit_tpl_m 8 7 word)
      /\ Some (Gen_bits2.flip_bit_tpl7_u8_g word) = option_map ok_of (flip_bit_tpl_m 8 7 word)
      /\ Some (Gen_bits2.test_bit_tpl7_u8_g word) = option_map ok_of (test_bit_tpl_m 8 7 word)
      /\ Some (Gen_bits2.set_bit_val_tpl7_u8_g word v) = option_map ok_of (assign_bit_tpl_m 8 7 word v))
    /\ (0 <= word < 2 ^ 32 ->
      Some (Gen_bits2.set_bit_tpl31_u32_g word) = option_map ok_of (set_bit_tpl_m 32 31 word)
      /\ Some (Gen_bits2.reset_bit_tpl31_u32_g word) = option_map ok_of (reset_bit_tpl_m 32 31 word)
      /\ Some (Gen_bits2.flip_bit_tpl31_u32_g word) = option_map ok_of (flip_bit_tpl_m 32 31 word)
      /\ Some (Gen_bits2.test_bit_tpl31_u32_g word) = option_map ok_of (test_bit_tpl_m 32 31 word)
      /\ Some (Gen_bits2.set_bit_val_tpl31_u32_g word v) = option_map ok_of (assign_bit_tpl_m 32 31 word v))).
Proof.
  exact (conj (fun t u => (conj (fun Ht Hu => (conj (cmp_greater_i32_u32_eq t u Ht Hu) (conj (cmp_less_equal_i32_u32_eq t u Ht Hu) (conj (cmp_greater_equal_i32_u32_eq t u Ht Hu) (cmp_not_equal_i32_u32_eq t u Ht Hu))))) (conj (fun Ht Hu => (conj (cmp_greater_i8_u64_eq t u Ht Hu) (conj (cmp_less_equal_i8_u64_eq t u Ht Hu) (conj (cmp_greater_equal_i8_u64_eq t u Ht Hu) (cmp_not_equal_i8_u64_eq t u Ht Hu))))) (conj (fun Ht Hu => (conj (cmp_greater_u32_i64_eq t u Ht Hu) (conj (cmp_less_equal_u32_i64_eq t u Ht Hu) (conj (cmp_greater_equal_u32_i64_eq t u Ht Hu) (cmp_not_equal_u32_i64_eq t u Ht Hu))))) (conj (fun Ht Hu => (conj (cmp_greater_i64_u64_eq t u Ht Hu) (conj (cmp_less_equal_i64_u64_eq t u Ht Hu) (conj (cmp_greater_equal_i64_u64_eq t u Ht Hu) (cmp_not_equal_i64_u64_eq t u Ht Hu))))) (conj (fun Ht Hu => (conj (cmp_greater_u8_i8_eq t u Ht Hu) (conj (cmp_less_equal_u8_i8_eq t u Ht Hu) (conj (cmp_greater_equal_u8_i8_eq t u Ht Hu) (cmp_not_equal_u8_i8_eq t u Ht Hu))))) (conj (fun Ht Hu => (conj (cmp_greater_i16_i32_eq t u Ht Hu) (conj (cmp_less_equal_i16_i32_eq t u Ht Hu) (conj (cmp_greater_equal_i16_i32_eq t u Ht Hu) (cmp_not_equal_i16_i32_eq t u Ht Hu))))) (fun Ht Hu => (conj (cmp_greater_u32_i32_eq t u Ht Hu) (conj (cmp_less_equal_u32_i32_eq t u Ht Hu) (conj (cmp_greater_equal_u32_i32_eq t u Ht Hu) (cmp_not_equal_u32_i32_eq t u Ht Hu)))))))))))) (conj (fun t => (conj (in_range_u32_of_i32_eq t) (conj (in_range_u64_of_i8_eq t) (conj (in_range_i64_of_u32_eq t) (conj (in_range_u64_of_i64_eq t) (conj (in_range_i8_of_u8_eq t) (conj (in_range_i32_of_i16_eq t) (in_range_i32_of_u32_eq t)))))))) (conj (fun x => (conj (saturate_cast_u8_of_i32_eq x) (conj (saturate_cast_i8_of_i32_eq x) (conj (saturate_cast_i32_of_u32_eq x) (conj (saturate_cast_u32_of_i64_eq x) (conj (saturate_cast_i64_of_u64_eq x) (saturate_cast_u64_of_i8_eq x))))))) (conj (fun v => (conj (byteswap_fallback_u16_eq v) (conj (byteswap_fallback_u32_eq v) (conj (byteswap_fallback_u64_eq v) (conj (ntoh_u8_eq v) (conj (ntoh_u16_eq v) (conj (ntoh_u32_eq v) (conj (hton_u8_eq v) (conj (hton_u16_eq v) (hton_u32_eq v)))))))))) (conj (fun x y => (conj (add_sat_fallback_i64_eq x y) (conj (add_sat_fallback_u64_eq x y) (conj (abs_i32_eq x) (abs_i64_eq x))))) (fun word v => (conj (fun Hw => (conj (set_bit_tpl7_u8_eq word Hw) (conj (reset_bit_tpl7_u8_eq word Hw) (conj (flip_bit_tpl7_u8_eq word Hw) (conj (test_bit_tpl7_u8_eq word Hw) (set_bit_val_tpl7_u8_eq word v Hw)))))) (fun Hw => (conj (set_bit_tpl31_u32_eq word Hw) (conj (reset_bit_tpl31_u32_eq word Hw) (conj (flip_bit_tpl31_u32_eq word Hw) (conj (test_bit_tpl31_u32_eq word Hw) (set_bit_val_tpl31_u32_eq word v Hw))))))))))))).
Qed.

Lemma cmp_greater_i32_u32_sp t u : in_ty i32 t = true -> in_ty u32 u = true -> Gen_bits2.cmp_greater_i32_u32_g t u = Some (cmp_greater_spec t u).
Proof. intros Ht Hu. rewrite (cmp_greater_i32_u32_eq t u Ht Hu), (cmp_greater_ok i32 u32 t u ltac:(wt) ltac:(wt) Ht Hu). reflexivity. Qed.
Lemma cmp_greater_i8_u64_sp t u : in_ty i8 t = true -> in_ty u64 u = true -> Gen_bits2.cmp_greater_i8_u64_g t u = Some (cmp_greater_spec t u).
Proof. intros Ht Hu. rewrite (cmp_greater_i8_u64_eq t u Ht Hu), (cmp_greater_ok i8 u64 t u ltac:(wt) ltac:(wt) Ht Hu). reflexivity. Qed.
Lemma cmp_greater_u32_i64_sp t u : in_ty u32 t = true -> in_ty i64 u = true -> Gen_bits2.cmp_greater_u32_i64_g t u = Some (cmp_greater_spec t u).
Proof. intros Ht Hu. rewrite (cmp_greater_u32_i64_eq t u Ht Hu), (cmp_greater_ok u32 i64 t u ltac:(wt) ltac:(wt) Ht Hu). reflexivity. Qed.
Lemma cmp_greater_i64_u64_sp t u : in_ty i64 t = true -> in_ty u64 u = true -> Gen_bits2.cmp_greater_i64_u64_g t u = Some (cmp_greater_spec t u).
Proof. intros Ht Hu. rewrite (cmp_greater_i64_u64_eq t u Ht Hu), (cmp_greater_ok i64 u64 t u ltac:(wt) ltac:(wt) Ht Hu). reflexivity. Qed.
Lemma cmp_greater_u8_i8_sp t u : in_ty u8 t = true -> in_ty i8 u = true -> Gen_bits2.cmp_greater_u8_i8_g t u = Some (cmp_greater_spec t u).
Proof. intros Ht Hu. rewrite (cmp_greater_u8_i8_eq t u Ht Hu), (cmp_greater_ok u8 i8 t u ltac:(wt) ltac:(wt) Ht Hu). reflexivity. Qed.
Lemma cmp_greater_i16_i32_sp t u : in_ty i16 t = true -> in_ty i32 u = true -> Gen_bits2.cmp_greater_i16_i32_g t u = Some (cmp_greater_spec t u).
Proof. intros Ht Hu. rewrite (cmp_greater_i16_i32_eq t u Ht Hu), (cmp_greater_ok i16 i32 t u ltac:(wt) ltac:(wt) Ht Hu). reflexivity. Qed.
Lemma cmp_greater_u32_i32_sp t u : in_ty u32 t = true -> in_ty i32 u = true -> Gen_bits2.cmp_greater_u32_i32_g t u = Some (cmp_greater_spec t u).
Proof. intros Ht Hu. rewrite (cmp_greater_u32_i32_eq t u Ht Hu), (cmp_greater_ok u32 i32 t u ltac:(wt) ltac:(wt) Ht Hu). reflexivity. Qed.
Lemma cmp_less_equal_i32_u32_sp t u : in_ty i32 t = true -> in_ty u32 u = true -> Gen_bits2.cmp_less_equal_i32_u32_g t u = Some (cmp_less_equal_spec t u).
Proof. intros Ht Hu. rewrite (cmp_less_equal_i32_u32_eq t u Ht Hu), (cmp_less_equal_ok i32 u32 t u ltac:(wt) ltac:(wt) Ht Hu). reflexivity. Qed.
Lemma cmp_less_equal_i8_u64_sp t u : in_ty i8 t = true -> in_ty u64 u = true -> Gen_bits2.cmp_less_equal_i8_u64_g t u = Some (cmp_less_equal_spec t u).
Proof. intros Ht Hu. rewrite (cmp_less_equal_i8_u64_eq t u Ht Hu), (cmp_less_equal_ok i8 u64 t u ltac:(wt) ltac:(wt) Ht Hu). reflexivity. Qed.
Lemma cmp_less_equal_u32_i64_sp t u : in_ty u32 t = true -> in_ty i64 u = true -> Gen_bits2.cmp_less_equal_u32_i64_g t u = Some (cmp_less_equal_spec t u).
Proof. intros Ht Hu. rewrite (cmp_less_equal_u32_i64_eq t u Ht Hu), (cmp_less_equal_ok u32 i64 t u ltac:(wt) ltac:(wt) Ht Hu). reflexivity. Qed.
Lemma cmp_less_equal_i64_u64_sp t u : in_ty i64 t = true -> in_ty u64 u = true -> Gen_bits2.cmp_less_equal_i64_u64_g t u = Some (cmp_less_equal_spec t u).
Proof. intros Ht Hu. rewrite (cmp_less_equal_i64_u64_eq t u Ht Hu), (cmp_less_equal_ok i64 u64 t u ltac:(wt) ltac:(wt) Ht Hu). reflexivity. Qed.
Lemma cmp_less_equal_u8_i8_sp t u : in_ty u8 t = true -> in_ty i8 u = true -> Gen_bits2.cmp_less_equal_u8_i8_g t u = Some (cmp_less_equal_spec t u).
Proof. intros Ht Hu. rewrite (cmp_less_equal_u8_i8_eq t u Ht Hu), (cmp_less_equal_ok u8 i8 t u ltac:(wt) ltac:(wt) Ht Hu). reflexivity. Qed.
Lemma cmp_less_equal_i16_i32_sp t u : in_ty i16 t = true -> in_ty i32 u = true -> Gen_bits2.cmp_less_equal_i16_i32_g t u = Some (cmp_less_equal_spec t u).
Proof. intros Ht Hu. rewrite (cmp_less_equal_i16_i32_eq t u Ht Hu), (cmp_less_equal_ok i16 i32 t u ltac:(wt) ltac:(wt) Ht Hu). reflexivity. Qed.
Lemma cmp_less_equal_u32_i32_sp t u : in_ty u32 t = true -> in_ty i32 u = true -> Gen_bits2.cmp_less_equal_u32_i32_g t u = Some (cmp_less_equal_spec t u).
Proof. intros Ht Hu. rewrite (cmp_less_equal_u32_i32_eq t u Ht Hu), (cmp_less_equal_ok u32 i32 t u ltac:(wt) ltac:(wt) Ht Hu). reflexivity. Qed.
Lemma cmp_greater_equal_i32_u32_sp t u : in_ty i32 t = true -> in_ty u32 u = true -> Gen_bits2.cmp_greater_equal_i32_u32_g t u = Some (cmp_greater_equal_spec t u).
Proof. intros Ht Hu. rewrite (cmp_greater_equal_i32_u32_eq t u Ht Hu), (cmp_greater_equal_ok i32 u32 t u ltac:(wt) ltac:(wt) Ht Hu). reflexivity. Qed.
Lemma cmp_greater_equal_i8_u64_sp t u : in_ty i8 t = true -> in_ty u64 u = true -> Gen_bits2.cmp_greater_equal_i8_u64_g t u = Some (cmp_greater_equal_spec t u).
Proof. intros Ht Hu. rewrite (cmp_greater_equal_i8_u64_eq t u Ht Hu), (cmp_greater_equal_ok i8 u64 t u ltac:(wt) ltac:(wt) Ht Hu). reflexivity. Qed.
Lemma cmp_greater_equal_u32_i64_sp t u : in_ty u32 t = true -> in_ty i64 u = true -> Gen_bits2.cmp_greater_equal_u32_i64_g t u = Some (cmp_greater_equal_spec t u).
Proof. intros Ht Hu. rewrite (cmp_greater_equal_u32_i64_eq t u Ht Hu), (cmp_greater_equal_ok u32 i64 t u ltac:(wt) ltac:(wt) Ht Hu). reflexivity. Qed.
Lemma cmp_greater_equal_i64_u64_sp t u : in_ty i64 t = true -> in_ty u64 u = true -> Gen_bits2.cmp_greater_equal_i64_u64_g t u = Some (cmp_greater_equal_spec t u).
Proof. intros Ht Hu. rewrite (cmp_greater_equal_i64_u64_eq t u Ht Hu), (cmp_greater_equal_ok i64 u64 t u ltac:(wt) ltac:(wt) Ht Hu). reflexivity. Qed.
Lemma cmp_greater_equal_u8_i8_sp t u : in_ty u8 t = true -> in_ty i8 u = true -> Gen_bits2.cmp_greater_equal_u8_i8_g t u = Some (cmp_greater_equal_spec t u).
Proof. intros Ht Hu. rewrite (cmp_greater_equal_u8_i8_eq t u Ht Hu), (cmp_greater_equal_ok u8 i8 t u ltac:(wt) ltac:(wt) Ht Hu). reflexivity. Qed.
Lemma cmp_greater_equal_i16_i32_sp t u : in_ty i16 t = true -> in_ty i32 u = true -> Gen_bits2.cmp_greater_equal_i16_i32_g t u = Some (cmp_greater_equal_spec t u).
Proof. intros Ht Hu. rewrite (cmp_greater_equal_i16_i32_eq t u Ht Hu), (cmp_greater_equal_ok i16 i32 t u ltac:(wt) ltac:(wt) Ht Hu). reflexivity. Qed.
Lemma cmp_greater_equal_u32_i32_sp t u : in_ty u32 t = true -> in_ty i32 u = true -> Gen_bits2.cmp_greater_equal_u32_i32_g t u = Some (cmp_greater_equal_spec t u).
Proof. intros Ht Hu. rewrite (cmp_greater_equal_u32_i32_eq t u Ht Hu), (cmp_greater_equal_ok u32 i32 t u ltac:(wt) ltac:(wt) Ht Hu). reflexivity. Qed.
Lemma cmp_not_equal_i32_u32_sp t u : in_ty i32 t = true -> in_ty u32 u = true -> Gen_bits2.cmp_not_equal_i32_u32_g t u = Some (cmp_not_equal_spec t u).
Proof. intros Ht Hu. rewrite (cmp_not_equal_i32_u32_eq t u Ht Hu), (cmp_not_equal_ok i32 u32 t u ltac:(wt) ltac:(wt) Ht Hu). reflexivity. Qed.
Lemma cmp_not_equal_i8_u64_sp t u : in_ty i8 t = true -> in_ty u64 u = true -> Gen_bits2.cmp_not_equal_i8_u64_g t u = Some (cmp_not_equal_spec t u).
Proof. intros Ht Hu. rewrite (cmp_not_equal_i8_u64_eq t u Ht Hu), (cmp_not_equal_ok i8 u64 t u ltac:(wt) ltac:(wt) Ht Hu). reflexivity. Qed.
Lemma cmp_not_equal_u32_i64_sp t u : in_ty u32 t = true -> in_ty i64 u = true -> Gen_bits2.cmp_not_equal_u32_i64_g t u = Some (cmp_not_equal_spec t u).
Proof. intros Ht Hu. rewrite (cmp_not_equal_u32_i64_eq t u Ht Hu), (cmp_not_equal_ok u32 i64 t u ltac:(wt) ltac:(wt) Ht Hu). reflexivity. Qed.
Lemma cmp_not_equal_i64_u64_sp t u : in_ty i64 t = true -> in_ty u64 u = true -> Gen_bits2.cmp_not_equal_i64_u64_g t u = Some (cmp_not_equal_spec t u).
Proof. intros Ht Hu. rewrite (cmp_not_equal_i64_u64_eq t u Ht Hu), (cmp_not_equal_ok i64 u64 t u ltac:(wt) ltac:(wt) Ht Hu). reflexivity. Qed.
Lemma cmp_not_equal_u8_i8_sp t u : in_ty u8 t = true -> in_ty i8 u = true -> Gen_bits2.cmp_not_equal_u8_i8_g t u = Some (cmp_not_equal_spec t u).
Proof. intros Ht Hu. rewrite (cmp_not_equal_u8_i8_eq t u Ht Hu), (cmp_not_equal_ok u8 i8 t u ltac:(wt) ltac:(wt) Ht Hu). reflexivity. Qed.
Lemma cmp_not_equal_i16_i32_sp t u : in_ty i16 t = true -> in_ty i32 u = true -> Gen_bits2.cmp_not_equal_i16_i32_g t u = Some (cmp_not_equal_spec t u).
Proof. intros Ht Hu. rewrite (cmp_not_equal_i16_i32_eq t u Ht Hu), (cmp_not_equal_ok i16 i32 t u ltac:(wt) ltac:(wt) Ht Hu). reflexivity. Qed.
Lemma cmp_not_equal_u32_i32_sp t u : in_ty u32 t = true -> in_ty i32 u = true -> Gen_bits2.cmp_not_equal_u32_i32_g t u = Some (cmp_not_equal_spec t u).
Proof. intros Ht Hu. rewrite (cmp_not_equal_u32_i32_eq t u Ht Hu), (cmp_not_equal_ok u32 i32 t u ltac:(wt) ltac:(wt) Ht Hu). reflexivity. Qed.
Lemma in_range_u32_of_i32_sp t : in_ty i32 t = true -> Gen_bits2.in_range_u32_of_i32_g t = Some (in_range_spec u32 t).
Proof. intros Ht. rewrite (in_range_u32_of_i32_eq t Ht), (in_range_ok u32 i32 t ltac:(wt) ltac:(wt) Ht). reflexivity. Qed.
Lemma in_range_u64_of_i8_sp t : in_ty i8 t = true -> Gen_bits2.in_range_u64_of_i8_g t = Some (in_range_spec u64 t).
Proof. intros Ht. rewrite (in_range_u64_of_i8_eq t Ht), (in_range_ok u64 i8 t ltac:(wt) ltac:(wt) Ht). reflexivity. Qed.
Lemma in_range_i64_of_u32_sp t : in_ty u32 t = true -> Gen_bits2.in_range_i64_of_u32_g t = Some (in_range_spec i64 t).
Proof. intros Ht. rewrite (in_range_i64_of_u32_eq t Ht), (in_range_ok i64 u32 t ltac:(wt) ltac:(wt) Ht). reflexivity. Qed.
Lemma in_range_u64_of_i64_sp t : in_ty i64 t = true -> Gen_bits2.in_range_u64_of_i64_g t = Some (in_range_spec u64 t).
Proof. intros Ht. rewrite (in_range_u64_of_i64_eq t Ht), (in_range_ok u64 i64 t ltac:(wt) ltac:(wt) Ht). reflexivity. Qed.
Lemma in_range_i8_of_u8_sp t : in_ty u8 t = true -> Gen_bits2.in_range_i8_of_u8_g t = Some (in_range_spec i8 t).
Proof. intros Ht. rewrite (in_range_i8_of_u8_eq t Ht), (in_range_ok i8 u8 t ltac:(wt) ltac:(wt) Ht). reflexivity. Qed.
Lemma in_range_i32_of_i16_sp t : in_ty i16 t = true -> Gen_bits2.in_range_i32_of_i16_g t = Some (in_range_spec i32 t).
Proof. intros Ht. rewrite (in_range_i32_of_i16_eq t Ht), (in_range_ok i32 i16 t ltac:(wt) ltac:(wt) Ht). reflexivity. Qed.
Lemma in_range_i32_of_u32_sp t : in_ty u32 t = true -> Gen_bits2.in_range_i32_of_u32_g t = Some (in_range_spec i32 t).
Proof. intros Ht. rewrite (in_range_i32_of_u32_eq t Ht), (in_range_ok i32 u32 t ltac:(wt) ltac:(wt) Ht). reflexivity. Qed.
Lemma saturate_cast_u8_of_i32_sp x : in_ty i32 x = true -> Gen_bits2.saturate_cast_u8_of_i32_g x = Some (saturate_cast_spec u8 x).
Proof. intros Hx. rewrite (saturate_cast_u8_of_i32_eq x Hx), (saturate_cast_ok u8 i32 x ltac:(wt) ltac:(wt) Hx). reflexivity. Qed.
Lemma saturate_cast_i8_of_i32_sp x : in_ty i32 x = true -> Gen_bits2.saturate_cast_i8_of_i32_g x = Some (saturate_cast_spec i8 x).
Proof. intros Hx. rewrite (saturate_cast_i8_of_i32_eq x Hx), (saturate_cast_ok i8 i32 x ltac:(wt) ltac:(wt) Hx). reflexivity. Qed.
Lemma saturate_cast_i32_of_u32_sp x : in_ty u32 x = true -> Gen_bits2.saturate_cast_i32_of_u32_g x = Some (saturate_cast_spec i32 x).
Proof. intros Hx. rewrite (saturate_cast_i32_of_u32_eq x Hx), (saturate_cast_ok i32 u32 x ltac:(wt) ltac:(wt) Hx). reflexivity. Qed.
Lemma saturate_cast_u32_of_i64_sp x : in_ty i64 x = true -> Gen_bits2.saturate_cast_u32_of_i64_g x = Some (saturate_cast_spec u32 x).
Proof. intros Hx. rewrite (saturate_cast_u32_of_i64_eq x Hx), (saturate_cast_ok u32 i64 x ltac:(wt) ltac:(wt) Hx). reflexivity. Qed.
Lemma saturate_cast_i64_of_u64_sp x : in_ty u64 x = true -> Gen_bits2.saturate_cast_i64_of_u64_g x = Some (saturate_cast_spec i64 x).
Proof. intros Hx. rewrite (saturate_cast_i64_of_u64_eq x Hx), (saturate_cast_ok i64 u64 x ltac:(wt) ltac:(wt) Hx). reflexivity. Qed.
Lemma saturate_cast_u64_of_i8_sp x : in_ty i8 x = true -> Gen_bits2.saturate_cast_u64_of_i8_g x = Some (saturate_cast_spec u64 x).
Proof. intros Hx. rewrite (saturate_cast_u64_of_i8_eq x Hx), (saturate_cast_ok u64 i8 x ltac:(wt) ltac:(wt) Hx). reflexivity. Qed.
Lemma byteswap_fallback_u16_sp v : 0 <= v < 2 ^ 16 -> Gen_bits2.byteswap_fallback_u16_g v = Some (byteswap_u_spec 2 v).
Proof. intros Hv. rewrite byteswap_fallback_u16_eq, (byteswap_fallback16_ok v Hv). reflexivity. Qed.
Lemma byteswap_fallback_u32_sp v : 0 <= v < 2 ^ 32 -> Gen_bits2.byteswap_fallback_u32_g v = Some (byteswap_u_spec 4 v).
Proof. intros Hv. rewrite byteswap_fallback_u32_eq, (byteswap_fallback32_ok v Hv). reflexivity. Qed.
Lemma byteswap_fallback_u64_sp v : 0 <= v < 2 ^ 64 -> Gen_bits2.byteswap_fallback_u64_g v = Some (byteswap_u_spec 8 v).
Proof. intros Hv. rewrite byteswap_fallback_u64_eq, (byteswap_fallback64_ok v Hv). reflexivity. Qed.
Lemma ntoh_u8_sp v : 0 <= v < 2 ^ 8 -> Gen_bits2.ntoh_u8_g v = Some (hton_spec 8 v).
Proof. intros Hv. rewrite ntoh_u8_eq, (proj2 (hton_ok 8 v ltac:(lia) Hv)). reflexivity. Qed.
Lemma ntoh_u16_sp v : 0 <= v < 2 ^ 16 -> Gen_bits2.ntoh_u16_g v = Some (hton_spec 16 v).
Proof. intros Hv. rewrite ntoh_u16_eq, (proj2 (hton_ok 16 v ltac:(lia) Hv)). reflexivity. Qed.
Lemma ntoh_u32_sp v : 0 <= v < 2 ^ 32 -> Gen_bits2.ntoh_u32_g v = Some (hton_spec 32 v).
Proof. intros Hv. rewrite ntoh_u32_eq, (proj2 (hton_ok 32 v ltac:(lia) Hv)). reflexivity. Qed.
Lemma hton_u8_sp v : 0 <= v < 2 ^ 8 -> Gen_bits2.hton_u8_g v = Some (hton_spec 8 v).
Proof. intros Hv. rewrite hton_u8_eq, (proj1 (hton_ok 8 v ltac:(lia) Hv)). reflexivity. Qed.
Lemma hton_u16_sp v : 0 <= v < 2 ^ 16 -> Gen_bits2.hton_u16_g v = Some (hton_spec 16 v).
Proof. intros Hv. rewrite hton_u16_eq, (proj1 (hton_ok 16 v ltac:(lia) Hv)). reflexivity. Qed.
Lemma hton_u32_sp v : 0 <= v < 2 ^ 32 -> Gen_bits2.hton_u32_g v = Some (hton_spec 32 v).
Proof. intros Hv. rewrite hton_u32_eq, (proj1 (hton_ok 32 v ltac:(lia) Hv)). reflexivity. Qed.
Lemma add_sat_fallback_i64_sp x y : in_ty i64 x = true -> in_ty i64 y = true -> Gen_bits2.add_sat_fallback_i64_g x y = Some (add_sat_spec i64 x y).
Proof. intros Hx Hy. rewrite add_sat_fallback_i64_eq, (add_sat_fallback_ok i64 ltac:(wt) x y Hx Hy). reflexivity. Qed.
Lemma add_sat_fallback_u64_sp x y : in_ty u64 x = true -> in_ty u64 y = true -> Gen_bits2.add_sat_fallback_u64_g x y = Some (add_sat_spec u64 x y).
Proof. intros Hx Hy. rewrite add_sat_fallback_u64_eq, (add_sat_fallback_ok u64 ltac:(wt) x y Hx Hy). reflexivity. Qed.
Lemma abs_i32_sp x : in_ty i32 x = true -> in_ty i32 (Z.abs x) = true -> Gen_bits2.abs_i32_g x = Some (abs_spec x).
Proof. intros Hx Ha. rewrite abs_i32_eq, (abs_ok i32 ltac:(wt) x Hx Ha). reflexivity. Qed.
Lemma abs_i64_sp x : in_ty i64 x = true -> in_ty i64 (Z.abs x) = true -> Gen_bits2.abs_i64_g x = Some (abs_spec x).
Proof. intros Hx Ha. rewrite abs_i64_eq, (abs_ok i64 ltac:(wt) x Hx Ha). reflexivity. Qed.
Lemma abs_min_none : Gen_bits2.abs_i32_g (imin i32) = None /\ Gen_bits2.abs_i64_g (imin i64) = None.
Proof. split; vm_compute; reflexivity. Qed.

Lemma genB_spec :
  (forall t u,
    (in_ty i32 t = true -> in_ty u32 u = true ->
      Gen_bits2.cmp_greater_i32_u32_g t u = Some (cmp_greater_spec t u)
      /\ Gen_bits2.cmp_less_equal_i32_u32_g t u = Some (cmp_less_equal_spec t u)
      /\ Gen_bits2.cmp_greater_equal_i32_u32_g t u = Some (cmp_greater_equal_spec t u)
      /\ Gen_bits2.cmp_not_equal_i32_u32_g t u = Some (cmp_not_equal_spec t u))
    /\ (in_ty i8 t = true -> in_ty u64 u = true ->
      Gen_bits2.cmp_greater_i8_u64_g t u = Some (cmp_greater_spec t u)
      /\ Gen_bits2.cmp_less_equal_i8_u64_g t u = Some (cmp_less_equal_spec t u)
      /\ Gen_bits2.cmp_greater_equal_i8_u64_g t u = Some (cmp_greater_equal_spec t u)
      /\ Gen_bits2.cmp_not_equal_i8_u64_g t u = Some (cmp_not_equal_spec t u))
    /\ (in_ty u32 t = true -> in_ty i64 u = true ->
      Gen_bits2.cmp_greater_u32_i64_g t u = Some (cmp_greater_spec t u)
      /\ Gen_bits2.cmp_less_equal_u32_i64_g t u = Some (cmp_less_equal_spec t u)
      /\ Gen_bits2.cmp_greater_equal_u32_i64_g t u = Some (cmp_greater_equal_spec t u)
      /\ Gen_bits2.cmp_not_equal_u32_i64_g t u = Some (cmp_not_equal_spec t u))
    /\ (in_ty i64 t = true -> in_ty u64 u = true ->
      Gen_bits2.cmp_greater_i64_u64_g t u = Some (cmp_greater_spec t u)
      /\ Gen_bits2.cmp_less_equal_i64_u64_g t u = Some (cmp_less_equal_spec t u)
      /\ Gen_bits2.cmp_greater_equal_i64_u64_g t u = Some (cmp_greater_equal_spec t u)
      /\ Gen_bits2.cmp_not_equal_i64_u64_g t u = Some (cmp_not_equal_spec t u))
    /\ (in_ty u8 t = true -> in_ty i8 u = true ->
      Gen_bits2.cmp_greater_u8_i8_g t u = Some (cmp_greater_spec t u)
      /\ Gen_bits2.cmp_less_equal_u8_i8_g t u = Some (cmp_less_equal_spec t u)
      /\ Gen_bits2.cmp_greater_equal_u8_i8_g t u = Some (cmp_greater_equal_spec t u)
      /\ Gen_bits2.cmp_not_equal_u8_i8_g t u = Some (cmp_not_equal_spec t u))
    /\ (in_ty i16 t = true -> in_ty i32 u = true ->
      Gen_bits2.cmp_greater_i16_i32_g t u = Some (cmp_greater_spec t u)
      /\ Gen_bits2.cmp_less_equal_i16_i32_g t u = Some (cmp_less_equal_spec t u)
      /\ Gen_bits2.cmp_greater_equal_i16_i32_g t u = Some (cmp_greater_equal_spec t u)
      /\ Gen_bits2.cmp_not_equal_i16_i32_g t u = Some (cmp_not_equal_spec t u))
    /\ (in_ty u32 t = true -> in_ty i32 u = true ->
      Gen_bits2.cmp_greater_u32_i32_g t u = Some (cmp_greater_spec t u)
      /\ Gen_bits2.cmp_less_equal_u32_i32_g t u = Some (cmp_less_equal_spec t u)
      /\ Gen_bits2.cmp_greater_equal_u32_i32_g t u = Some (cmp_greater_equal_spec t u)
      /\ Gen_bits2.cmp_not_equal_u32_i32_g t u = Some (cmp_not_equal_spec t u)))
  /\ (forall t,
    (in_ty i32 t = true -> Gen_bits2.in_range_u32_of_i32_g t = Some (in_range_spec u32 t))
    /\ (in_ty i8 t = true -> Gen_bits2.in_range_u64_of_i8_g t = Some (in_range_spec u64 t))
    /\ (in_ty u32 t = true -> Gen_bits2.in_range_i64_of_u32_g t = Some (in_range_spec i64 t))
    /\ (in_ty i64 t = true -> Gen_bits2.in_range_u64_of_i64_g t = Some (in_range_spec u64 t))
    /\ (in_ty u8 t = true -> Gen_bits2.in_range_i8_of_u8_g t = Some (in_range_spec i8 t))
    /\ (in_ty i16 t = true -> Gen_bits2.in_range_i32_of_i16_g t = Some (in_range_spec i32 t))
    /\ (in_ty u32 t = true -> Gen_bits2.in_range_i32_of_u32_g t = Some (in_range_spec i32 t)))
  /\ (forall x,
    (in_ty i32 x = true -> Gen_bits2.saturate_cast_u8_of_i32_g x = Some (saturate_cast_spec u8 x))
    /\ (in_ty i32 x = true -> Gen_bits2.saturate_cast_i8_of_i32_g x = Some (saturate_cast_spec i8 x))
    /\ (in_ty u32 x = true -> Gen_bits2.saturate_cast_i32_of_u32_g x = Some (saturate_cast_spec i32 x))
    /\ (in_ty i64 x = true -> Gen_bits2.saturate_cast_u32_of_i64_g x = Some (saturate_cast_spec u32 x))
    /\ (in_ty u64 x = true -> Gen_bits2.saturate_cast_i64_of_u64_g x = Some (saturate_cast_spec i64 x))
    /\ (in_ty i8 x = true -> Gen_bits2.saturate_cast_u64_of_i8_g x = Some (saturate_cast_spec u64 x)))
  /\ (forall v,
    (0 <= v < 2 ^ 16 -> Gen_bits2.byteswap_fallback_u16_g v = Some (byteswap_u_spec 2 v))
    /\ (0 <= v < 2 ^ 32 -> Gen_bits2.byteswap_fallback_u32_g v = Some (byteswap_u_spec 4 v))
    /\ (0 <= v < 2 ^ 64 -> Gen_bits2.byteswap_fallback_u64_g v = Some (byteswap_u_spec 8 v))
    /\ (0 <= v < 2 ^ 8 -> Gen_bits2.ntoh_u8_g v = Some (hton_spec 8 v))
    /\ (0 <= v < 2 ^ 16 -> Gen_bits2.ntoh_u16_g v = Some (hton_spec 16 v))
    /\ (0 <= v < 2 ^ 32 -> Gen_bits2.ntoh_u32_g v = Some (hton_spec 32 v))
    /\ (0 <= v < 2 ^ 8 -> Gen_bits2.hton_u8_g v = Some (hton_spec 8 v))
    /\ (0 <= v < 2 ^ 16 -> Gen_bits2.hton_u16_g v = Some (hton_spec 16 v))
    /\ (0 <= v < 2 ^ 32 -> Gen_bits2.hton_u32_g v = Some (hton_spec 32 v)))
  /\ (forall x y,
    (in_ty i64 x = true -> in_ty i64 y = true -> Gen_bits2.add_sat_fallback_i64_g x y = Some (add_sat_spec i64 x y))
    /\ (in_ty u64 x = true -> in_ty u64 y = true -> Gen_bits2.add_sat_fallback_u64_g x y = Some (add_sat_spec u64 x y))
    /\ (in_ty i32 x = true -> in_ty i32 (Z.abs x) = true -> Gen_bits2.abs_i32_g x = Some (abs_spec x))
    /\ (in_ty i64 x = true -> in_ty i64 (Z.abs x) = true -> Gen_bits2.abs_i64_g x = Some (abs_spec x))
    /\ Gen_bits2.abs_i32_g (imin i32) = None
    /\ Gen_bits2.abs_i64_g (imin i64) = None).
Proof.
  exact (conj (fun t u => (conj (fun Ht Hu => (conj (cmp_greater_i32_u32_sp t u Ht Hu) (conj (cmp_less_equal_i32_u32_sp t u Ht Hu) (conj (cmp_greater_equal_i32_u32_sp t u Ht Hu) (cmp_not_equal_i32_u32_sp t u Ht Hu))))) (conj (fun Ht Hu => (conj (cmp_greater_i8_u64_sp t u Ht Hu) (conj (cmp_less_equal_i8_u64_sp t u Ht Hu) (conj (cmp_greater_equal_i8_u64_sp t u Ht Hu) (cmp_not_equal_i8_u64_sp t u Ht Hu))))) (conj (fun Ht Hu => (conj (cmp_greater_u32_i64_sp t u Ht Hu) (conj (cmp_less_equal_u32_i64_sp t u Ht Hu) (conj (cmp_greater_equal_u32_i64_sp t u Ht Hu) (cmp_not_equal_u32_i64_sp t u Ht Hu))))) (conj (fun Ht Hu => (conj (cmp_greater_i64_u64_sp t u Ht Hu) (conj (cmp_less_equal_i64_u64_sp t u Ht Hu) (conj (cmp_greater_equal_i64_u64_sp t u Ht Hu) (cmp_not_equal_i64_u64_sp t u Ht Hu))))) (conj (fun Ht Hu => (conj (cmp_greater_u8_i8_sp t u Ht Hu) (conj (cmp_less_equal_u8_i8_sp t u Ht Hu) (conj (cmp_greater_equal_u8_i8_sp t u Ht Hu) (cmp_not_equal_u8_i8_sp t u Ht Hu))))) (conj (fun Ht Hu => (conj (cmp_greater_i16_i32_sp t u Ht Hu) (conj (cmp_less_equal_i16_i32_sp t u Ht Hu) (conj (cmp_greater_equal_i16_i32_sp t u Ht Hu) (cmp_not_equal_i16_i32_sp t u Ht Hu))))) (fun Ht Hu => (conj (cmp_greater_u32_i32_sp t u Ht Hu) (conj (cmp_less_equal_u32_i32_sp t u Ht Hu) (conj (cmp_greater_equal_u32_i32_sp t u Ht Hu) (cmp_not_equal_u32_i32_sp t u Ht Hu)))))))))))) (conj (fun t => (conj (in_range_u32_of_i32_sp t) (conj (in_range_u64_of_i8_sp t) (conj (in_range_i64_of_u32_sp t) (conj (in_range_u64_of_i64_sp t) (conj (in_range_i8_of_u8_sp t) (conj (in_range_i32_of_i16_sp t) (in_range_i32_of_u32_sp t)))))))) (conj (fun x => (conj (saturate_cast_u8_of_i32_sp x) (conj (saturate_cast_i8_of_i32_sp x) (conj (saturate_cast_i32_of_u32_sp x) (conj (saturate_cast_u32_of_i64_sp x) (conj (saturate_cast_i64_of_u64_sp x) (saturate_cast_u64_of_i8_sp x))))))) (conj (fun v => (conj (byteswap_fallback_u16_sp v) (conj (byteswap_fallback_u32_sp v) (conj (byteswap_fallback_u64_sp v) (conj (ntoh_u8_sp v) (conj (ntoh_u16_sp v) (conj (ntoh_u32_sp v) (conj (hton_u8_sp v) (conj (hton_u16_sp v) (hton_u32_sp v)))))))))) (fun x y => (conj (add_sat_fallback_i64_sp x y) (conj (add_sat_fallback_u64_sp x y) (conj (abs_i32_sp x) (conj (abs_i64_sp x) (conj (proj1 abs_min_none) (proj2 abs_min_none))))))))))).
Qed.
