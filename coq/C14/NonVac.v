(* C14: non-vacuity witnesses (evaluated once here; Properties.v closes its Example by [exact]).
   The hypotheses of the property theorems are satisfiable at the corners the property is about:
   the type limits, opposite signs, mixed signedness, the largest rotation counts. *)
From Tetl Require Import Lib.Base C14.Spec C14.Model C14.Arith.
Local Open Scope Z_scope.

Lemma WT_all : WT i8 /\ WT u8 /\ WT i16 /\ WT u16 /\ WT i32 /\ WT u32 /\ WT i64 /\ WT u64.
Proof. unfold WT, W; cbn; repeat split; lia. Qed.

Lemma nonvac_values :
  in_ty i8 (-128) = true /\ in_ty i64 (-9223372036854775808) = true /\ in_ty u64 18446744073709551615 = true
  /\ midpoint_m i64 (-9223372036854775808) 9223372036854775807 = Ok (-1)
  /\ midpoint_m i64 9223372036854775807 (-9223372036854775808) = Ok 0
  /\ add_sat_m i32 2147483647 1 = Ok 2147483647
  /\ add_sat_fallback_m i64 (-9223372036854775808) (-1) = Ok (-9223372036854775808)
  /\ div_sat_m i8 (-128) (-1) = Ok 127
  /\ saturate_cast_m i8 u64 18446744073709551615 = Ok 127
  /\ cmp_less_m i32 u32 (-1) 4294967295 = true
  /\ gcd_m i8 i64 (-128) (-9223372036854775808) = Ok 128
  /\ lcm_m i32 i32 196608 131072 = Ok 393216
  /\ rotl_m 8 129 (-2147483648) = Ok 129
  /\ rotl_m 64 9223372036854775809 (-1) = Ok 13835058055282163712.
Proof. vm_compute. repeat split; reflexivity. Qed.
