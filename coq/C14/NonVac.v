(* C14: non-vacuity witnesses (evaluated once here; Properties.v closes its Example by [exact]).
   The hypotheses of the property theorems are satisfiable at the corners the property is about:
   the type limits, opposite signs, mixed signedness, the largest rotation counts. *)
From Tetl Require Import Lib.Base C14.Spec C14.Model C14.Arith.
Local Open Scope Z_scope.

Lemma WT_all : WT i8 /\ WT u8 /\ WT i16 /\ WT u16 /\ WT i32 /\ WT u32 /\ WT i64 /\ WT u64.
Proof. unfold WT, W; cbn; repeat split; lia. Qed.

Lemma nonvac_values :
  in_ty i8 (-128) = true /\ in_ty i64 (-9223372036854775808) = true /\ in_ty u64 18446744073709551615 = true
  /\ midpoint_m i64 (-9223372036854775808) 9223372036854775807 = Ok (-1)
  /\ midpoint_m i64 9223372036854775807 (-9223372036854775808) = Ok 0
  /\ add_sat_m i32 2147483647 1 = Ok 2147483647
  /\ add_sat_fallback_m i64 (-9223372036854775808) (-1) = Ok (-9223372036854775808)
  /\ div_sat_m i8 (-128) (-1) = Ok 127
  /\ saturate_cast_m i8 u64 18446744073709551615 = Ok 127
  /\ cmp_less_m i32 u32 (-1) 4294967295 = true
  /\ gcd_m i8 i64 (-128) (-9223372036854775808) = Ok 128
  /\ lcm_m i32 i32 196608 131072 = Ok 393216
  /\ rotl_m 8 129 (-2147483648) = Ok 129
  /\ rotl_m 64 9223372036854775809 (-1) = Ok 13835058055282163712.
Proof. vm_compute. repeat split; reflexivity. Qed.

Lemma W_all : W 8 /\ W 16 /\ W 32 /\ W 64.
Proof. unfold W; repeat split; lia. Qed.

Lemma nonvac_bits :
  bit_ceil_dom 8 128 = true /\ bit_ceil_m 8 128 = Ok 128
  /\ bit_ceil_dom 64 9223372036854775807 = true /\ bit_ceil_m 64 9223372036854775807 = Ok 9223372036854775808
  /\ countl_zero_m 64 1 = Ok 63 /\ countl_one_m 8 254 = Ok 7 /\ countr_zero_m 64 0 = Ok 64
  /\ popcount_fallback_m 64 18446744073709551615 = Ok 64
  /\ flip_bit_m 64 0 63 = Ok 9223372036854775808 /\ test_bit_m 64 0 64 = Contract
  /\ in_ty i16 (-256) = true /\ byteswap_m i16 (-256) = Ok 255
  /\ byteswap_fallback_m 64 72623859790382856 = Ok 578437695752307201
  /\ hton_m 32 305419896 = Ok 2018915346.
Proof. vm_compute. repeat split; reflexivity. Qed.
