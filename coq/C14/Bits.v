(* C14: general facts about bitwise operations on Z (no model functions here). *)
From Tetl Require Import Lib.Base.
From Coq Require Import ZifyBool Btauto.
Local Open Scope Z_scope.

Lemma testbit_high a w i : 0 <= w -> 0 <= a < 2 ^ w -> w <= i -> Z.testbit a i = false.
Proof.
  intros Hw Ha Hi. rewrite <- (Z.mod_small a (2 ^ w)) by lia.
  apply Z.mod_pow2_bits_high. lia.
Qed.

Lemma pow2_pos k : 0 <= k -> 0 < 2 ^ k.
Proof. intros. apply Z.pow_pos_nonneg; lia. Qed.

Lemma pow2_lt k w : 0 <= k < w -> 2 ^ k < 2 ^ w.
Proof. intros. apply Z.pow_lt_mono_r; lia. Qed.

Lemma pow2_le k w : 0 <= k <= w -> 2 ^ k <= 2 ^ w.
Proof. intros. apply Z.pow_le_mono_r; lia. Qed.

(* a multiple of 2^r and a value below 2^r have no common bit: or = plus *)
Lemma lor_disjoint_add a' b r : 0 <= r -> 0 <= b < 2 ^ r -> Z.lor (a' * 2 ^ r) b = a' * 2 ^ r + b.
Proof.
  intros Hr Hb.
  assert (L : Z.land (a' * 2 ^ r) b = 0).
  { apply Z.bits_inj'. intros i Hi. rewrite Z.land_spec, Z.bits_0.
    destruct (Z.lt_ge_cases i r) as [Lt|Ge].
    - now rewrite Z.mul_pow2_bits_low.
    - rewrite (testbit_high b r i) by lia. apply andb_false_r. }
  rewrite (Z.add_nocarry_lxor _ _ L). symmetry. now apply Z.lxor_lor.
Qed.

(* bounds of bitwise results *)
Lemma lor_range a b w : 0 <= w -> 0 <= a < 2 ^ w -> 0 <= b < 2 ^ w -> 0 <= Z.lor a b < 2 ^ w.
Proof.
  intros Hw Ha Hb.
  assert (E : Z.lor a b = Z.lor a b mod 2 ^ w).
  { apply Z.bits_inj'. intros i Hi. rewrite Z.testbit_mod_pow2 by lia.
    destruct (Z.ltb_spec i w) as [L|L]; [reflexivity|].
    rewrite Z.lor_spec, (testbit_high a w i), (testbit_high b w i) by lia. reflexivity. }
  rewrite E. apply Z.mod_pos_bound. now apply pow2_pos.
Qed.

(* single-bit masks *)
Lemma land_pow2 x k : 0 <= k -> Z.land x (2 ^ k) = if Z.testbit x k then 2 ^ k else 0.
Proof.
  intros Hk. apply Z.bits_inj'. intros i Hi. rewrite Z.land_spec, Z.pow2_bits_eqb by lia.
  destruct (Z.eqb_spec k i) as [->|N].
  - destruct (Z.testbit x i); [now rewrite Z.pow2_bits_true by lia | now rewrite Z.bits_0].
  - rewrite andb_false_r. destruct (Z.testbit x k); [now rewrite Z.pow2_bits_false by lia | now rewrite Z.bits_0].
Qed.

Lemma lor_pow2 x k : 0 <= k -> Z.lor x (2 ^ k) = if Z.testbit x k then x else x + 2 ^ k.
Proof.
  intros Hk. destruct (Z.testbit x k) eqn:E.
  - apply Z.bits_inj'. intros i Hi. rewrite Z.lor_spec, Z.pow2_bits_eqb by lia.
    destruct (Z.eqb_spec k i) as [->|N]; [rewrite E; reflexivity | apply orb_false_r].
  - assert (L : Z.land x (2 ^ k) = 0) by (rewrite land_pow2, E by lia; reflexivity).
    rewrite (Z.add_nocarry_lxor _ _ L). symmetry. now apply Z.lxor_lor.
Qed.

Lemma lxor_pow2 x k : 0 <= k -> Z.lxor x (2 ^ k) = if Z.testbit x k then x - 2 ^ k else x + 2 ^ k.
Proof.
  intros Hk. destruct (Z.testbit x k) eqn:E.
  - set (y := Z.lxor x (2 ^ k)).
    assert (Ey : Z.testbit y k = false).
    { unfold y. rewrite Z.lxor_spec, E, Z.pow2_bits_true by lia. reflexivity. }
    assert (L : Z.land y (2 ^ k) = 0) by (rewrite land_pow2, Ey by lia; reflexivity).
    assert (X : y + 2 ^ k = x).
    { rewrite (Z.add_nocarry_lxor _ _ L). unfold y. rewrite Z.lxor_assoc, Z.lxor_nilpotent. apply Z.lxor_0_r. }
    lia.
  - assert (L : Z.land x (2 ^ k) = 0) by (rewrite land_pow2, E by lia; reflexivity).
    now rewrite (Z.add_nocarry_lxor _ _ L).
Qed.

Lemma ldiff_pow2 x k : 0 <= k -> Z.ldiff x (2 ^ k) = if Z.testbit x k then x - 2 ^ k else x.
Proof.
  intros Hk.
  assert (D : Z.ldiff x (2 ^ k) + Z.land x (2 ^ k) = x).
  { assert (L : Z.land (Z.ldiff x (2 ^ k)) (Z.land x (2 ^ k)) = 0).
    { apply Z.bits_inj'. intros i Hi. rewrite !Z.land_spec, Z.ldiff_spec, Z.bits_0. btauto. }
    rewrite (Z.add_nocarry_lxor _ _ L).
    apply Z.bits_inj'. intros i Hi. rewrite Z.lxor_spec, Z.land_spec, Z.ldiff_spec. btauto. }
  rewrite land_pow2 in D by lia. destruct (Z.testbit x k); lia.
Qed.
