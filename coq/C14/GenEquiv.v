(* C14, translator tie: the definitions REGENERATED from /repo's current source by
   translate/cxx2gallina.py (coq/Gen/Gen_bits.v: rotl, rotr, test_bit, set_bit (both overloads),
   reset_bit, flip_bit for u8/u16/u32/u64 and the integral midpoint for the eight types) compute what
   the hand-written model of C14/Model.v computes, for ALL arguments of the documented domain
   (rotations: every value of the type and EVERY count; single-bit functions: every word and every
   pos < digits — the generated code does not contain the TETL_PRECONDITION, the model does;
   midpoint: every pair of integers, in range or not).
   [ok_of] turns the model's outcome into the translator's option: Ok v -> Some v, everything else
   (UB, Contract, OutOfFuel) -> None.
   Proof method: both sides run the same checked operations in the same order; the model's operations
   are rewritten into the translator's (MachOps) and the checks are destructed in lockstep.  A
   semantic edit of the C++ kernel changes the generated term and breaks these proofs (then ./check
   searches for a failing input). *)
From Tetl Require Import Lib.Base Lib.MachOps C14.Spec C14.Model C14.Arith C14.Bits C14.ProofsRot C14.ProofsCmp.
From Tetl Require Gen.Gen_bits.
From Coq Require Import ZifyBool.
Local Open Scope Z_scope.

Definition ok_of {A} (r : res A) : option A := match r with Ok v => Some v | _ => None end.

(** * the model's machine operations are the translator's *)
Lemma shl_gen t x k : 0 <= bits (promote t) -> ok_of (shl t x k) = shl_chk (promote t) x k.
Proof.
  intros Hb. unfold shl, shl_chk. destruct ((0 <=? k) && (k <? bits (promote t))) eqn:E; [|reflexivity].
  cbn [ok_of]. rewrite cast_wrap_ty by assumption. rewrite Z.shiftl_mul_pow2 by lia. reflexivity.
Qed.

Lemma shr_gen t x k : ok_of (shr t x k) = shr_chk (promote t) x k.
Proof. unfold shr, shr_chk. destruct ((0 <=? k) && (k <? bits (promote t))); reflexivity. Qed.

Lemma arith_signed_gen p x : sgn p = true -> ok_of (arith_in p x) = chk p x.
Proof. intros Hs. unfold arith_in, chk. rewrite Hs, fits_in_ty. destruct (in_ty p x); reflexivity. Qed.

Lemma ok_of_bind {A B} (r : res A) (f : A -> res B) :
  ok_of (rbind r f) = obind (ok_of r) (fun x => ok_of (f x)).
Proof. destruct r; reflexivity. Qed.

(* c % d on unsigned: the remainder is defined and equals c mod d *)
Lemma rem_chk_u32 c d : 0 <= c < 2 ^ 32 -> 0 < d -> rem_chk u32 c d = Some (c mod d).
Proof.
  intros Hc Hd. unfold rem_chk. replace (d =? 0) with false by lia.
  rewrite Z.quot_div_nonneg, Z.rem_mod_nonneg by lia.
  assert (Hq : 0 <= c / d <= c).
  { split; [apply Z.div_pos; lia|]. apply Z.div_le_upper_bound; [lia|]. nia. }
  replace (in_ty u32 (c / d)) with true; [reflexivity|].
  symmetry. apply in_ty_range. change (imin u32) with 0. change (imax u32) with (2 ^ 32 - 1). lia.
Qed.

Lemma wrap_u32_range s : 0 <= wrap_ty u32 s < 2 ^ 32.
Proof. unfold wrap_ty, wrapu. cbn [sgn u32 bits]. apply Z.mod_pos_bound. reflexivity. Qed.

Lemma wrapu_idem w x : 0 <= w -> wrapu w (wrapu w x) = wrapu w x.
Proof. intros Hw. unfold wrapu. apply Z.mod_mod. assert (0 < 2 ^ w) by (apply pow2_pos; lia). lia. Qed.

Lemma wrapu_small w x : 0 <= w -> 0 <= x < 2 ^ w -> wrapu w x = x.
Proof. intros Hw Hx. unfold wrapu. now apply Z.mod_small. Qed.

Lemma wrapu_range w x : 0 <= w -> 0 <= wrapu w x < 2 ^ w.
Proof. intros Hw. unfold wrapu. apply Z.mod_pos_bound. apply pow2_pos. lia. Qed.

Lemma land_range_l a b w : 0 <= w -> 0 <= a < 2 ^ w -> 0 <= Z.land a b < 2 ^ w.
Proof.
  intros Hw Ha.
  assert (E : Z.land a b = Z.land a b mod 2 ^ w).
  { apply Z.bits_inj'. intros i Hi. rewrite Z.testbit_mod_pow2 by lia.
    destruct (Z.ltb_spec i w) as [L|L]; [reflexivity|].
    rewrite Z.land_spec, (testbit_high a w i) by lia. reflexivity. }
  rewrite E. apply Z.mod_pos_bound. now apply pow2_pos.
Qed.

Lemma lxor_range a b w : 0 <= w -> 0 <= a < 2 ^ w -> 0 <= b < 2 ^ w -> 0 <= Z.lxor a b < 2 ^ w.
Proof.
  intros Hw Ha Hb.
  assert (E : Z.lxor a b = Z.lxor a b mod 2 ^ w).
  { apply Z.bits_inj'. intros i Hi. rewrite Z.testbit_mod_pow2 by lia.
    destruct (Z.ltb_spec i w) as [L|L]; [reflexivity|].
    rewrite Z.lxor_spec, (testbit_high a w i), (testbit_high b w i) by lia. reflexivity. }
  rewrite E. apply Z.mod_pos_bound. now apply pow2_pos.
Qed.

(** * rotl / rotr *)
Lemma rot_count_gen w s : W w -> rem_chk u32 (wrap_ty u32 s) (wrap_ty u32 w) = Some ((wu 32 s) mod w).
Proof.
  intros HW. pose proof (W_pos w HW) as Hp.
  assert (Ew : wrap_ty u32 w = w).
  { unfold wrap_ty. cbn [sgn u32 bits]. apply wrapu_small; [lia|]. change (2 ^ 32) with 4294967296. lia. }
  rewrite Ew, rem_chk_u32 by (try apply wrap_u32_range; lia).
  rewrite wu_wrapu by lia. reflexivity.
Qed.

Definition res_of (o : option Z) : res Z := match o with Some v => Ok v | None => UB BadShift end.

Lemma shl_res t x k : 0 <= bits (promote t) -> shl t x k = res_of (shl_chk (promote t) x k).
Proof.
  intros Hb. unfold shl, shl_chk. destruct ((0 <=? k) && (k <? bits (promote t))) eqn:E; [|reflexivity].
  cbn [res_of]. rewrite cast_wrap_ty by assumption. rewrite Z.shiftl_mul_pow2 by lia. reflexivity.
Qed.

Lemma shr_res t x k : shr t x k = res_of (shr_chk (promote t) x k).
Proof. unfold shr, shr_chk. destruct ((0 <=? k) && (k <? bits (promote t))); reflexivity. Qed.

(* evaluate promote / wrap of literals after the width is fixed *)
Ltac prom :=
  change (promote (U 8)) with i32 in *; change (promote (U 16)) with i32 in *;
  change (promote (U 32)) with u32 in *; change (promote (U 64)) with u64 in *;
  change (wrap_ty u32 8) with 8 in *; change (wrap_ty u32 16) with 16 in *;
  change (wrap_ty u32 32) with 32 in *; change (wrap_ty u32 64) with 64 in *.

Ltac rot_tac W8 :=
  cbv zeta; rewrite (rot_count_gen _ _ W8); cbn [obind];
  match goal with |- context [?r =? 0] => destruct (r =? 0); cbn [negb]; [reflexivity|] end;
  rewrite shl_res, shr_res by (cbn; lia); prom; rewrite !wu_wrapu by lia;
  unfold wrap_ty; cbn [sgn bits u8 u16 u32 u64 i8 i16 i32 i64];
  repeat match goal with
         | |- context [shl_chk ?t ?x ?k] => destruct (shl_chk t x k) eqn:?
         | |- context [shr_chk ?t ?x ?k] => destruct (shr_chk t x k) eqn:?
         end;
  cbn [obind rbind res_of ok_of]; try reflexivity.

Lemma shl_chk_range t x k z : shl_chk t x k = Some z -> sgn t = false -> 0 <= bits t -> 0 <= z < 2 ^ bits t.
Proof.
  unfold shl_chk. destruct ((0 <=? k) && (k <? bits t)); [|discriminate].
  intros E Hs Hb. injection E as <-. unfold wrap_ty. rewrite Hs. now apply wrapu_range.
Qed.

Lemma shr_chk_range t x k z w : shr_chk t x k = Some z -> 0 <= w -> 0 <= x < 2 ^ w -> 0 <= z < 2 ^ w.
Proof.
  unfold shr_chk. destruct ((0 <=? k) && (k <? bits t)) eqn:C; [|discriminate].
  intros E Hw Hx. injection E as <-. rewrite Z.shiftr_div_pow2 by lia.
  assert (0 < 2 ^ k) by (apply pow2_pos; lia).
  split; [apply Z.div_pos; lia|]. apply Z.div_lt_upper_bound; [lia|]. nia.
Qed.

(* finish: narrow types convert the OR back to UInt, wide types produce it in range *)
Ltac rot_fin Hx :=
  first [ rewrite wu_wrapu by lia; reflexivity
        | rewrite wu_wrapu by lia; rewrite Z.lor_comm; reflexivity
        | rewrite Z.lor_comm; f_equal; symmetry; apply wu_small; [lia|];
          apply lor_range; [lia | |];
          match goal with
          | H : shl_chk _ _ _ = Some ?z |- _ <= ?z < _ => apply (shl_chk_range _ _ _ _ H); [reflexivity | cbn; lia]
          | H : shr_chk _ _ _ = Some ?z |- _ <= ?z < _ => apply (shr_chk_range _ _ _ _ _ H); [lia | exact Hx]
          end
        | f_equal; symmetry; apply wu_small; [lia|];
          apply lor_range; [lia | |];
          match goal with
          | H : shl_chk _ _ _ = Some ?z |- _ <= ?z < _ => apply (shl_chk_range _ _ _ _ H); [reflexivity | cbn; lia]
          | H : shr_chk _ _ _ = Some ?z |- _ <= ?z < _ => apply (shr_chk_range _ _ _ _ _ H); [lia | exact Hx]
          end ].

Lemma rotl_u8_eq x s : 0 <= x < 2 ^ 8 -> Gen_bits.rotl_u8_g x s = ok_of (rotl_m 8 x s).
Proof. intros Hx. assert (HW : W 8) by (unfold W; lia). unfold Gen_bits.rotl_u8_g, rotl_m. rot_tac HW. rot_fin Hx. Qed.
Lemma rotr_u8_eq x s : 0 <= x < 2 ^ 8 -> Gen_bits.rotr_u8_g x s = ok_of (rotr_m 8 x s).
Proof. intros Hx. assert (HW : W 8) by (unfold W; lia). unfold Gen_bits.rotr_u8_g, rotr_m. rot_tac HW. rot_fin Hx. Qed.
Lemma rotl_u16_eq x s : 0 <= x < 2 ^ 16 -> Gen_bits.rotl_u16_g x s = ok_of (rotl_m 16 x s).
Proof. intros Hx. assert (HW : W 16) by (unfold W; lia). unfold Gen_bits.rotl_u16_g, rotl_m. rot_tac HW. rot_fin Hx. Qed.
Lemma rotr_u16_eq x s : 0 <= x < 2 ^ 16 -> Gen_bits.rotr_u16_g x s = ok_of (rotr_m 16 x s).
Proof. intros Hx. assert (HW : W 16) by (unfold W; lia). unfold Gen_bits.rotr_u16_g, rotr_m. rot_tac HW. rot_fin Hx. Qed.
Lemma rotl_u32_eq x s : 0 <= x < 2 ^ 32 -> Gen_bits.rotl_u32_g x s = ok_of (rotl_m 32 x s).
Proof. intros Hx. assert (HW : W 32) by (unfold W; lia). unfold Gen_bits.rotl_u32_g, rotl_m. rot_tac HW. rot_fin Hx. Qed.
Lemma rotr_u32_eq x s : 0 <= x < 2 ^ 32 -> Gen_bits.rotr_u32_g x s = ok_of (rotr_m 32 x s).
Proof. intros Hx. assert (HW : W 32) by (unfold W; lia). unfold Gen_bits.rotr_u32_g, rotr_m. rot_tac HW. rot_fin Hx. Qed.
Lemma rotl_u64_eq x s : 0 <= x < 2 ^ 64 -> Gen_bits.rotl_u64_g x s = ok_of (rotl_m 64 x s).
Proof. intros Hx. assert (HW : W 64) by (unfold W; lia). unfold Gen_bits.rotl_u64_g, rotl_m. rot_tac HW. rot_fin Hx. Qed.
Lemma rotr_u64_eq x s : 0 <= x < 2 ^ 64 -> Gen_bits.rotr_u64_g x s = ok_of (rotr_m 64 x s).
Proof. intros Hx. assert (HW : W 64) by (unfold W; lia). unfold Gen_bits.rotr_u64_g, rotr_m. rot_tac HW. rot_fin Hx. Qed.

(** * single-bit functions (pos < digits: the documented precondition) *)
Ltac bit_tac w :=
  cbv zeta; unfold bit_mask; (replace (_ <? w) with true by lia); cbn [rbind];
  rewrite ?shl_res by (cbn; lia); prom;
  repeat match goal with
         | |- context [shl_chk ?t ?x ?k] => destruct (shl_chk t x k) eqn:?; cbn [obind rbind res_of ok_of]; [|reflexivity]
         end.

(* converting a value of a wider signed type to a narrower unsigned one only looks at the low bits *)
Lemma wrapu_wraps w w' y : 0 <= w <= w' -> wrapu w (wraps w' y) = wrapu w y.
Proof.
  intros Hw. unfold wrapu, wraps.
  assert (P : 0 < 2 ^ w) by (apply pow2_pos; lia).
  assert (E : 2 ^ w' = 2 ^ (w' - w) * 2 ^ w) by (rewrite <- Z.pow_add_r by lia; f_equal; lia).
  assert (M : (y mod 2 ^ w') mod 2 ^ w = y mod 2 ^ w).
  { rewrite E. rewrite Z.mul_comm. rewrite Z.rem_mul_r by (try lia; assert (0 < 2 ^ (w' - w)) by (apply pow2_pos; lia); lia).
    rewrite Z.mul_comm, Z.mod_add by lia. apply Z.mod_mod. lia. }
  destruct (y mod 2 ^ w' <? 2 ^ (w' - 1)); [exact M|].
  replace (y mod 2 ^ w' - 2 ^ w') with (y mod 2 ^ w' + (- 2 ^ (w' - w)) * 2 ^ w) by lia.
  rewrite Z.mod_add by lia. exact M.
Qed.

Ltac unwrap := unfold wrap_ty in *; cbn [sgn bits u8 u16 u32 u64 i8 i16 i32 i64] in *.

(* 0 <= e < 2^w for bitwise combinations of in-range values *)
Ltac rng Hw :=
  lazymatch goal with
  | |- _ <= Z.lor _ _ < _ => apply lor_range; [lia | rng Hw | rng Hw]
  | |- _ <= Z.lxor _ _ < _ => apply lxor_range; [lia | rng Hw | rng Hw]
  | |- _ <= Z.land _ _ < _ => apply land_range_l; [lia | rng Hw]
  | |- _ <= wrapu _ _ < _ => apply wrapu_range; lia
  | |- _ <= ?z < _ =>
      first [ exact Hw
            | match goal with H : shl_chk _ _ _ = Some z |- _ => apply (shl_chk_range _ _ _ _ H); [reflexivity | cbn; lia] end ]
  end.

Ltac bit_fin Hw :=
  (* the operands of | & ^ may come in either order in the source: the word first *)
  match type of Hw with _ <= ?wd < _ => rewrite ?(Z.lor_comm _ wd), ?(Z.land_comm _ wd), ?(Z.lxor_comm _ wd) end;
  unfold bnot, not_ty; prom; unwrap; rewrite ?wu_wrapu by lia;
  first [ (* narrow types *)
          progress rewrite ?wrapu_wraps by lia; reflexivity
        | reflexivity
        | (* wide types: every intermediate value is already in range *)
          rewrite ?wrapu_idem by lia;
          repeat match goal with
                 | |- context [wrapu ?w ?e] =>
                     lazymatch e with
                     | Z.lnot _ => fail
                     | _ => rewrite (wrapu_small w e) by (try lia; rng Hw)
                     end
                 end; reflexivity ].

Lemma test_bit_u8_eq word pos : 0 <= word < 2 ^ 8 -> 0 <= pos < 8 ->
  Gen_bits.test_bit_u8_g word pos = ok_of (test_bit_m 8 word pos).
Proof. intros Hw Hp. unfold Gen_bits.test_bit_u8_g, test_bit_m. bit_tac 8. bit_fin Hw. Qed.

Lemma set_bit_u8_eq word pos : 0 <= word < 2 ^ 8 -> 0 <= pos < 8 ->
  Gen_bits.set_bit_u8_g word pos = ok_of (set_bit_m 8 word pos).
Proof. intros Hw Hp. unfold Gen_bits.set_bit_u8_g, set_bit_m. bit_tac 8. bit_fin Hw. Qed.

Lemma reset_bit_u8_eq word pos : 0 <= word < 2 ^ 8 -> 0 <= pos < 8 ->
  Gen_bits.reset_bit_u8_g word pos = ok_of (reset_bit_m 8 word pos).
Proof. intros Hw Hp. unfold Gen_bits.reset_bit_u8_g, reset_bit_m. bit_tac 8. bit_fin Hw. Qed.

Lemma flip_bit_u8_eq word pos : 0 <= word < 2 ^ 8 -> 0 <= pos < 8 ->
  Gen_bits.flip_bit_u8_g word pos = ok_of (flip_bit_m 8 word pos).
Proof. intros Hw Hp. unfold Gen_bits.flip_bit_u8_g, flip_bit_m. bit_tac 8. bit_fin Hw. Qed.

Lemma set_bit_val_u8_eq word pos v : 0 <= word < 2 ^ 8 -> 0 <= pos < 8 ->
  Gen_bits.set_bit_val_u8_g word pos v = ok_of (assign_bit_m 8 word pos v).
Proof. intros Hw Hp. unfold Gen_bits.set_bit_val_u8_g, assign_bit_m. bit_tac 8. bit_fin Hw. Qed.

Lemma test_bit_u16_eq word pos : 0 <= word < 2 ^ 16 -> 0 <= pos < 16 ->
  Gen_bits.test_bit_u16_g word pos = ok_of (test_bit_m 16 word pos).
Proof. intros Hw Hp. unfold Gen_bits.test_bit_u16_g, test_bit_m. bit_tac 16. bit_fin Hw. Qed.

Lemma set_bit_u16_eq word pos : 0 <= word < 2 ^ 16 -> 0 <= pos < 16 ->
  Gen_bits.set_bit_u16_g word pos = ok_of (set_bit_m 16 word pos).
Proof. intros Hw Hp. unfold Gen_bits.set_bit_u16_g, set_bit_m. bit_tac 16. bit_fin Hw. Qed.

Lemma reset_bit_u16_eq word pos : 0 <= word < 2 ^ 16 -> 0 <= pos < 16 ->
  Gen_bits.reset_bit_u16_g word pos = ok_of (reset_bit_m 16 word pos).
Proof. intros Hw Hp. unfold Gen_bits.reset_bit_u16_g, reset_bit_m. bit_tac 16. bit_fin Hw. Qed.

Lemma flip_bit_u16_eq word pos : 0 <= word < 2 ^ 16 -> 0 <= pos < 16 ->
  Gen_bits.flip_bit_u16_g word pos = ok_of (flip_bit_m 16 word pos).
Proof. intros Hw Hp. unfold Gen_bits.flip_bit_u16_g, flip_bit_m. bit_tac 16. bit_fin Hw. Qed.

Lemma set_bit_val_u16_eq word pos v : 0 <= word < 2 ^ 16 -> 0 <= pos < 16 ->
  Gen_bits.set_bit_val_u16_g word pos v = ok_of (assign_bit_m 16 word pos v).
Proof. intros Hw Hp. unfold Gen_bits.set_bit_val_u16_g, assign_bit_m. bit_tac 16. bit_fin Hw. Qed.

Lemma test_bit_u32_eq word pos : 0 <= word < 2 ^ 32 -> 0 <= pos < 32 ->
  Gen_bits.test_bit_u32_g word pos = ok_of (test_bit_m 32 word pos).
Proof. intros Hw Hp. unfold Gen_bits.test_bit_u32_g, test_bit_m. bit_tac 32. bit_fin Hw. Qed.

Lemma set_bit_u32_eq word pos : 0 <= word < 2 ^ 32 -> 0 <= pos < 32 ->
  Gen_bits.set_bit_u32_g word pos = ok_of (set_bit_m 32 word pos).
Proof. intros Hw Hp. unfold Gen_bits.set_bit_u32_g, set_bit_m. bit_tac 32. bit_fin Hw. Qed.

Lemma reset_bit_u32_eq word pos : 0 <= word < 2 ^ 32 -> 0 <= pos < 32 ->
  Gen_bits.reset_bit_u32_g word pos = ok_of (reset_bit_m 32 word pos).
Proof. intros Hw Hp. unfold Gen_bits.reset_bit_u32_g, reset_bit_m. bit_tac 32. bit_fin Hw. Qed.

Lemma flip_bit_u32_eq word pos : 0 <= word < 2 ^ 32 -> 0 <= pos < 32 ->
  Gen_bits.flip_bit_u32_g word pos = ok_of (flip_bit_m 32 word pos).
Proof. intros Hw Hp. unfold Gen_bits.flip_bit_u32_g, flip_bit_m. bit_tac 32. bit_fin Hw. Qed.

Lemma set_bit_val_u32_eq word pos v : 0 <= word < 2 ^ 32 -> 0 <= pos < 32 ->
  Gen_bits.set_bit_val_u32_g word pos v = ok_of (assign_bit_m 32 word pos v).
Proof. intros Hw Hp. unfold Gen_bits.set_bit_val_u32_g, assign_bit_m. bit_tac 32. bit_fin Hw. Qed.

Lemma test_bit_u64_eq word pos : 0 <= word < 2 ^ 64 -> 0 <= pos < 64 ->
  Gen_bits.test_bit_u64_g word pos = ok_of (test_bit_m 64 word pos).
Proof. intros Hw Hp. unfold Gen_bits.test_bit_u64_g, test_bit_m. bit_tac 64. bit_fin Hw. Qed.

Lemma set_bit_u64_eq word pos : 0 <= word < 2 ^ 64 -> 0 <= pos < 64 ->
  Gen_bits.set_bit_u64_g word pos = ok_of (set_bit_m 64 word pos).
Proof. intros Hw Hp. unfold Gen_bits.set_bit_u64_g, set_bit_m. bit_tac 64. bit_fin Hw. Qed.

Lemma reset_bit_u64_eq word pos : 0 <= word < 2 ^ 64 -> 0 <= pos < 64 ->
  Gen_bits.reset_bit_u64_g word pos = ok_of (reset_bit_m 64 word pos).
Proof. intros Hw Hp. unfold Gen_bits.reset_bit_u64_g, reset_bit_m. bit_tac 64. bit_fin Hw. Qed.

Lemma flip_bit_u64_eq word pos : 0 <= word < 2 ^ 64 -> 0 <= pos < 64 ->
  Gen_bits.flip_bit_u64_g word pos = ok_of (flip_bit_m 64 word pos).
Proof. intros Hw Hp. unfold Gen_bits.flip_bit_u64_g, flip_bit_m. bit_tac 64. bit_fin Hw. Qed.

Lemma set_bit_val_u64_eq word pos v : 0 <= word < 2 ^ 64 -> 0 <= pos < 64 ->
  Gen_bits.set_bit_val_u64_g word pos v = ok_of (assign_bit_m 64 word pos v).
Proof. intros Hw Hp. unfold Gen_bits.set_bit_val_u64_g, assign_bit_m. bit_tac 64. bit_fin Hw. Qed.

(** * midpoint (integral overload), every pair of integers *)
Lemma arith_signed_res p x : sgn p = true ->
  arith_in p x = match chk p x with Some v => Ok v | None => UB SignedOverflow end.
Proof. intros Hs. unfold arith_in, chk. rewrite Hs, fits_in_ty. destruct (in_ty p x); reflexivity. Qed.

Lemma chk_some t x r : chk t x = Some r -> r = x /\ in_ty t x = true.
Proof. unfold chk. destruct (in_ty t x); [intros E; injection E as <-; auto | discriminate]. Qed.

(* diff / 2 cannot overflow: the model checks it, the translator knows it *)
Lemma arith_half w x : 0 <= w <= 31 -> arith_in i32 (wrapu w x ÷ 2) = Ok (wrapu w x ÷ 2).
Proof.
  intros Hw. pose proof (wrapu_range w x ltac:(lia)) as R. pose proof (pow2_le w 31 ltac:(lia)) as L.
  rewrite Z.quot_div_nonneg by lia. apply arith_in_signed; [reflexivity|].
  change (imin i32) with (- 2 ^ 31). change (imax i32) with (2 ^ 31 - 1).
  assert (0 <= wrapu w x / 2 <= wrapu w x); [|lia].
  split; [apply Z.div_pos; lia | apply Z.div_le_upper_bound; lia].
Qed.

Lemma wrapu_half w x : 0 <= w -> wrapu w (wrapu w x ÷ 2) = wrapu w x ÷ 2.
Proof.
  intros Hw. pose proof (wrapu_range w x Hw) as R. apply wrapu_small; [assumption|].
  rewrite Z.quot_div_nonneg by lia.
  split; [apply Z.div_pos; lia | apply Z.div_lt_upper_bound; lia].
Qed.

Lemma wrapu_sub w a b : 0 <= w -> wrapu w (wrapu w b - wrapu w a) = wrapu w (b - a).
Proof. intros Hw. unfold wrapu. symmetry. apply Zminus_mod. Qed.

Lemma wrapu_in_u w x : 0 <= w -> in_ty {| bits := w; sgn := false |} x = true -> wrapu w x = x.
Proof.
  intros Hw H. apply in_ty_range in H. unfold imin, imax, umax in H. cbn [sgn bits] in H. apply wrapu_small; lia.
Qed.

(* closed shifts and checks are evaluated *)
Ltac ev_closed :=
  repeat match goal with
         | |- context [shl_chk ?t ?x ?k] => is_closed_z x; let v := eval vm_compute in (shl_chk t x k) in change (shl_chk t x k) with v
         | |- context [shl ?t ?x ?k] => is_closed_z x; let v := eval vm_compute in (shl t x k) in change (shl t x k) with v
         | |- context [chk ?t ?x] => is_closed_z x; let v := eval vm_compute in (chk t x) in change (chk t x) with v
         end.

Lemma chk_half w x : 0 <= w <= 31 -> chk i32 (wrapu w x ÷ 2) = Some (wrapu w x ÷ 2).
Proof.
  intros Hw. pose proof (arith_half w x Hw) as H. rewrite arith_signed_res in H by reflexivity.
  destruct (chk i32 (wrapu w x ÷ 2)) as [v|] eqn:E; [|discriminate].
  apply chk_some in E. destruct E as [-> _]. reflexivity.
Qed.

(* the comparison b < a may be spelled with >=, >, <= and negations in the source *)
Ltac cmp_norm := rewrite ?Z.geb_leb, ?Z.gtb_ltb, <- ?Z.ltb_antisym, <- ?Z.leb_antisym, ?Bool.negb_involutive.

(* narrow types: everything is int arithmetic, checked on both sides; lockstep *)
Ltac mid_small :=
  cbv zeta; cbn [bits sgn i8 u8 i16 u16]; prom;
  change (promote i8) with i32; change (promote u8) with i32; change (promote i16) with i32; change (promote u16) with i32;
  rewrite ?wu_wrapu, ?cast_wrap_ty by (cbn; lia); unwrap; cmp_norm;
  match goal with |- context [?b <? ?a] => destruct (b <? a) end;
  repeat (cbn [obind rbind ok_of];
          change (wrapu 8 7) with 7; change (wrapu 16 15) with 15; change (wrapu 8 1) with 1; change (wrapu 8 0) with 0;
          change (wrapu 16 1) with 1; change (wrapu 16 0) with 0;
          ev_closed; cbn [obind rbind ok_of];
          rewrite ?wu_wrapu, ?cast_wrap_ty by (cbn; lia); unwrap; rewrite ?wrapu_idem by lia;
          first [ rewrite chk_half by lia
                | rewrite arith_signed_res by reflexivity
                | match goal with |- context [chk ?t ?x] => destruct (chk t x) eqn:?; [|reflexivity] end ]);
  cbn [obind rbind ok_of]; rewrite ?wu_wrapu, ?cast_wrap_ty by (cbn; lia); unwrap; try reflexivity.

Lemma midpoint_i8_eq a b : Gen_bits.midpoint_i8_g a b = ok_of (midpoint_m i8 a b).
Proof. unfold Gen_bits.midpoint_i8_g, midpoint_m, arith. mid_small. Qed.
Lemma midpoint_i16_eq a b : Gen_bits.midpoint_i16_g a b = ok_of (midpoint_m i16 a b).
Proof. unfold Gen_bits.midpoint_i16_g, midpoint_m, arith. mid_small. Qed.
Lemma midpoint_u8_eq a b : in_ty u8 a = true -> in_ty u8 b = true -> Gen_bits.midpoint_u8_g a b = ok_of (midpoint_m u8 a b).
Proof.
  intros Ha Hb. unfold Gen_bits.midpoint_u8_g, midpoint_m, arith.
  replace (b - a) with (wrap_ty u8 b - wrap_ty u8 a)
    by (unfold wrap_ty; cbn [sgn u8 bits]; now rewrite (wrapu_in_u 8 a), (wrapu_in_u 8 b) by (try lia; assumption)).
  mid_small.
Qed.
Lemma midpoint_u16_eq a b : in_ty u16 a = true -> in_ty u16 b = true -> Gen_bits.midpoint_u16_g a b = ok_of (midpoint_m u16 a b).
Proof.
  intros Ha Hb. unfold Gen_bits.midpoint_u16_g, midpoint_m, arith.
  replace (b - a) with (wrap_ty u16 b - wrap_ty u16 a)
    by (unfold wrap_ty; cbn [sgn u16 bits]; now rewrite (wrapu_in_u 16 a), (wrapu_in_u 16 b) by (try lia; assumption)).
  mid_small.
Qed.

(* wide types: the unsigned pipeline wraps, only the final signed addition is checked *)
Ltac ev_wu :=
  repeat match goal with
         | |- context [wu ?w ?x] => is_closed_z w; is_closed_z x; let v := eval vm_compute in (wu w x) in change (wu w x) with v
         end.

Lemma wrap_ty_id t x : WT t -> in_ty t x = true -> wrap_ty t x = x.
Proof. intros HT Hx. rewrite <- cast_wrap_ty by (wcases HT; lia). now apply cast_id. Qed.

Ltac mid_norm :=
  rewrite ?wu_wrapu, ?cast_wrap_ty by (cbn; lia); unwrap;
  rewrite ?wrapu_sub by lia; rewrite ?wrapu_idem by lia; rewrite ?wrapu_half by lia; rewrite ?wrapu_idem by lia.

Ltac mid_big :=
  cbv zeta; cbn [bits sgn i32 u32 i64 u64]; prom;
  change (promote i32) with i32; change (promote u32) with u32; change (promote i64) with i64; change (promote u64) with u64;
  cmp_norm;
  match goal with |- context [?b <? ?a] => destruct (b <? a) end;
  repeat (cbn [obind rbind ok_of bits u32 u64]; ev_wu;
          ev_closed; cbn [obind rbind ok_of bits u32 u64];
          first [ rewrite arith_in_unsigned by reflexivity
                | rewrite arith_signed_res by reflexivity ]);
  cbn [obind rbind ok_of bits u32 u64]; mid_norm;
  try reflexivity.

(* signed: the checked final addition, in lockstep; a checked result needs no conversion back *)
Ltac mid_signed_fin HT :=
  match goal with |- context [chk ?t ?x] =>
    let r := fresh "r" in let E := fresh "E" in let E1 := fresh "E" in
    destruct (chk t x) as [r|] eqn:E; [|reflexivity];
    cbn [obind rbind ok_of]; apply chk_some in E; destruct E as [E1 E];
    f_equal; symmetry; rewrite E1; apply (cast_id _ _ HT E)
  end.

Lemma midpoint_u64_eq a b : Gen_bits.midpoint_u64_g a b = ok_of (midpoint_m u64 a b).
Proof.
  unfold Gen_bits.midpoint_u64_g, midpoint_m, arith. mid_big.
Qed.
Lemma WT_i64 : WT i64. Proof. unfold WT, W. cbn. lia. Qed.
Lemma WT_i32' : WT i32. Proof. unfold WT, W. cbn. lia. Qed.

Lemma midpoint_i64_eq a b : Gen_bits.midpoint_i64_g a b = ok_of (midpoint_m i64 a b).
Proof. unfold Gen_bits.midpoint_i64_g, midpoint_m, arith. mid_big; mid_signed_fin WT_i64. Qed.
Lemma midpoint_i32_eq a b : Gen_bits.midpoint_i32_g a b = ok_of (midpoint_m i32 a b).
Proof. unfold Gen_bits.midpoint_i32_g, midpoint_m, arith. mid_big; mid_signed_fin WT_i32'. Qed.
Lemma midpoint_u32_eq a b : Gen_bits.midpoint_u32_g a b = ok_of (midpoint_m u32 a b).
Proof. unfold Gen_bits.midpoint_u32_g, midpoint_m, arith. mid_big. Qed.

(** * summary: generated = model *)
Lemma gen_rot_equiv : forall x s,
  (0 <= x < 2 ^ 8 -> Gen_bits.rotl_u8_g x s = ok_of (rotl_m 8 x s) /\ Gen_bits.rotr_u8_g x s = ok_of (rotr_m 8 x s))
  /\ (0 <= x < 2 ^ 16 -> Gen_bits.rotl_u16_g x s = ok_of (rotl_m 16 x s) /\ Gen_bits.rotr_u16_g x s = ok_of (rotr_m 16 x s))
  /\ (0 <= x < 2 ^ 32 -> Gen_bits.rotl_u32_g x s = ok_of (rotl_m 32 x s) /\ Gen_bits.rotr_u32_g x s = ok_of (rotr_m 32 x s))
  /\ (0 <= x < 2 ^ 64 -> Gen_bits.rotl_u64_g x s = ok_of (rotl_m 64 x s) /\ Gen_bits.rotr_u64_g x s = ok_of (rotr_m 64 x s)).
Proof.
  intros x s. exact (conj (fun H => conj (rotl_u8_eq x s H) (rotr_u8_eq x s H)) (conj (fun H => conj (rotl_u16_eq x s H) (rotr_u16_eq x s H)) (conj (fun H => conj (rotl_u32_eq x s H) (rotr_u32_eq x s H)) (fun H => conj (rotl_u64_eq x s H) (rotr_u64_eq x s H))))).
Qed.

Lemma gen_bit_equiv : forall word pos v,
  (0 <= word < 2 ^ 8 -> 0 <= pos < 8 ->
      Gen_bits.test_bit_u8_g word pos = ok_of (test_bit_m 8 word pos)
      /\ Gen_bits.set_bit_u8_g word pos = ok_of (set_bit_m 8 word pos)
      /\ Gen_bits.set_bit_val_u8_g word pos v = ok_of (assign_bit_m 8 word pos v)
      /\ Gen_bits.reset_bit_u8_g word pos = ok_of (reset_bit_m 8 word pos)
      /\ Gen_bits.flip_bit_u8_g word pos = ok_of (flip_bit_m 8 word pos))
  /\ (0 <= word < 2 ^ 16 -> 0 <= pos < 16 ->
      Gen_bits.test_bit_u16_g word pos = ok_of (test_bit_m 16 word pos)
      /\ Gen_bits.set_bit_u16_g word pos = ok_of (set_bit_m 16 word pos)
      /\ Gen_bits.set_bit_val_u16_g word pos v = ok_of (assign_bit_m 16 word pos v)
      /\ Gen_bits.reset_bit_u16_g word pos = ok_of (reset_bit_m 16 word pos)
      /\ Gen_bits.flip_bit_u16_g word pos = ok_of (flip_bit_m 16 word pos))
  /\ (0 <= word < 2 ^ 32 -> 0 <= pos < 32 ->
      Gen_bits.test_bit_u32_g word pos = ok_of (test_bit_m 32 word pos)
      /\ Gen_bits.set_bit_u32_g word pos = ok_of (set_bit_m 32 word pos)
      /\ Gen_bits.set_bit_val_u32_g word pos v = ok_of (assign_bit_m 32 word pos v)
      /\ Gen_bits.reset_bit_u32_g word pos = ok_of (reset_bit_m 32 word pos)
      /\ Gen_bits.flip_bit_u32_g word pos = ok_of (flip_bit_m 32 word pos))
  /\ (0 <= word < 2 ^ 64 -> 0 <= pos < 64 ->
      Gen_bits.test_bit_u64_g word pos = ok_of (test_bit_m 64 word pos)
      /\ Gen_bits.set_bit_u64_g word pos = ok_of (set_bit_m 64 word pos)
      /\ Gen_bits.set_bit_val_u64_g word pos v = ok_of (assign_bit_m 64 word pos v)
      /\ Gen_bits.reset_bit_u64_g word pos = ok_of (reset_bit_m 64 word pos)
      /\ Gen_bits.flip_bit_u64_g word pos = ok_of (flip_bit_m 64 word pos)).
Proof.
  intros word pos v. exact (conj (fun Hw Hp => conj (test_bit_u8_eq word pos Hw Hp) (conj (set_bit_u8_eq word pos Hw Hp) (conj (set_bit_val_u8_eq word pos v Hw Hp) (conj (reset_bit_u8_eq word pos Hw Hp) (flip_bit_u8_eq word pos Hw Hp))))) (conj (fun Hw Hp => conj (test_bit_u16_eq word pos Hw Hp) (conj (set_bit_u16_eq word pos Hw Hp) (conj (set_bit_val_u16_eq word pos v Hw Hp) (conj (reset_bit_u16_eq word pos Hw Hp) (flip_bit_u16_eq word pos Hw Hp))))) (conj (fun Hw Hp => conj (test_bit_u32_eq word pos Hw Hp) (conj (set_bit_u32_eq word pos Hw Hp) (conj (set_bit_val_u32_eq word pos v Hw Hp) (conj (reset_bit_u32_eq word pos Hw Hp) (flip_bit_u32_eq word pos Hw Hp))))) (fun Hw Hp => conj (test_bit_u64_eq word pos Hw Hp) (conj (set_bit_u64_eq word pos Hw Hp) (conj (set_bit_val_u64_eq word pos v Hw Hp) (conj (reset_bit_u64_eq word pos Hw Hp) (flip_bit_u64_eq word pos Hw Hp)))))))).
Qed.

Lemma gen_mid_equiv : forall a b,
  Gen_bits.midpoint_i8_g a b = ok_of (midpoint_m i8 a b)
  /\ Gen_bits.midpoint_i16_g a b = ok_of (midpoint_m i16 a b)
  /\ Gen_bits.midpoint_i32_g a b = ok_of (midpoint_m i32 a b)
  /\ Gen_bits.midpoint_i64_g a b = ok_of (midpoint_m i64 a b)
  /\ Gen_bits.midpoint_u32_g a b = ok_of (midpoint_m u32 a b)
  /\ Gen_bits.midpoint_u64_g a b = ok_of (midpoint_m u64 a b)
  /\ (in_ty u8 a = true -> in_ty u8 b = true -> Gen_bits.midpoint_u8_g a b = ok_of (midpoint_m u8 a b))
  /\ (in_ty u16 a = true -> in_ty u16 b = true -> Gen_bits.midpoint_u16_g a b = ok_of (midpoint_m u16 a b)).
Proof.
  intros a b. exact (conj (midpoint_i8_eq a b) (conj (midpoint_i16_eq a b) (conj (midpoint_i32_eq a b) (conj (midpoint_i64_eq a b) (conj (midpoint_u32_eq a b) (conj (midpoint_u64_eq a b) (conj (midpoint_u8_eq a b) (midpoint_u16_eq a b)))))))).
Qed.

(** * div_sat (TETL_PRECONDITION(y != 0) is not in the generated text: y = 0 is None there, Contract in the model) *)
Ltac div_tac :=
  unfold div_sat_m, div_chk, arith; cbv zeta;
  cbn [sgn bits i8 u8 i16 u16 i32 u32 i64 u64 andb];
  change (promote i8) with i32; change (promote u8) with i32; change (promote i16) with i32; change (promote u16) with i32;
  change (promote i32) with i32; change (promote u32) with u32; change (promote i64) with i64; change (promote u64) with u64;
  change (wrap_ty i8 (-1)) with (-1); change (wrap_ty i16 (-1)) with (-1);
  change (tmin i8) with (-128); change (tmin i16) with (-32768); change (tmin i32) with (-2147483648);
  change (tmin i64) with (-9223372036854775808);
  change (tmax i8) with 127; change (tmax i16) with 32767; change (tmax i32) with 2147483647;
  change (tmax i64) with 9223372036854775807;
  match goal with |- context [?y =? 0] => destruct (Z.eqb_spec y 0) as [->|?] end;
  [ (* y = 0 *) cbn [Z.eqb andb]; rewrite ?andb_false_r; reflexivity |].

Lemma div_sat_i8_eq x y : Gen_bits.div_sat_i8_g x y = ok_of (div_sat_m i8 x y).
Proof.
  unfold Gen_bits.div_sat_i8_g. div_tac.
  (* the guard x == min and y == -1 may be one condition or nested ifs in either order *)
  destruct (x =? -128), (y =? -1); cbn [andb]; try reflexivity;
  (rewrite arith_signed_res by reflexivity; destruct (chk i32 (x ÷ y)); cbn [obind rbind ok_of]; [|reflexivity];
   now rewrite cast_wrap_ty by (cbn; lia)).
Qed.
Lemma div_sat_i16_eq x y : Gen_bits.div_sat_i16_g x y = ok_of (div_sat_m i16 x y).
Proof.
  unfold Gen_bits.div_sat_i16_g. div_tac.
  (* the guard x == min and y == -1 may be one condition or nested ifs in either order *)
  destruct (x =? -32768), (y =? -1); cbn [andb]; try reflexivity;
  (rewrite arith_signed_res by reflexivity; destruct (chk i32 (x ÷ y)); cbn [obind rbind ok_of]; [|reflexivity];
   now rewrite cast_wrap_ty by (cbn; lia)).
Qed.
Lemma div_sat_i32_eq x y : Gen_bits.div_sat_i32_g x y = ok_of (div_sat_m i32 x y).
Proof.
  unfold Gen_bits.div_sat_i32_g. div_tac.
  destruct (x =? -2147483648), (y =? -1); cbn [andb]; try reflexivity;
  (rewrite arith_signed_res by reflexivity; mid_signed_fin WT_i32').
Qed.
Lemma div_sat_i64_eq x y : Gen_bits.div_sat_i64_g x y = ok_of (div_sat_m i64 x y).
Proof.
  unfold Gen_bits.div_sat_i64_g. div_tac.
  destruct (x =? -9223372036854775808), (y =? -1); cbn [andb]; try reflexivity;
  (rewrite arith_signed_res by reflexivity; mid_signed_fin WT_i64).
Qed.
Lemma div_sat_u8_eq x y : Gen_bits.div_sat_u8_g x y = ok_of (div_sat_m u8 x y).
Proof.
  unfold Gen_bits.div_sat_u8_g. div_tac.
  rewrite arith_signed_res by reflexivity. destruct (chk i32 (x ÷ y)); cbn [obind rbind ok_of]; [|reflexivity].
  now rewrite cast_wrap_ty by (cbn; lia).
Qed.
Lemma div_sat_u16_eq x y : Gen_bits.div_sat_u16_g x y = ok_of (div_sat_m u16 x y).
Proof.
  unfold Gen_bits.div_sat_u16_g. div_tac.
  rewrite arith_signed_res by reflexivity. destruct (chk i32 (x ÷ y)); cbn [obind rbind ok_of]; [|reflexivity].
  now rewrite cast_wrap_ty by (cbn; lia).
Qed.

(* unsigned int / long: the quotient of two values of the type is a value of the type *)
Lemma quot_in_u t x y : sgn t = false -> 0 <= bits t -> in_ty t x = true -> in_ty t y = true -> y <> 0 ->
  in_ty t (x ÷ y) = true.
Proof.
  intros Hs Hb Hx Hy Hy0. apply in_ty_range in Hx. apply in_ty_range in Hy. apply in_ty_range.
  unfold imin, imax in *. rewrite Hs in *. rewrite Z.quot_div_nonneg by lia.
  assert (0 <= x / y <= x); [|lia].
  split; [apply Z.div_pos; lia | apply Z.div_le_upper_bound; nia].
Qed.

Lemma div_sat_u32_eq x y : in_ty u32 x = true -> in_ty u32 y = true -> Gen_bits.div_sat_u32_g x y = ok_of (div_sat_m u32 x y).
Proof.
  intros Hx Hy. unfold Gen_bits.div_sat_u32_g. div_tac.
  pose proof (quot_in_u u32 x y eq_refl ltac:(cbn; lia) Hx Hy ltac:(assumption)) as Hq.
  unfold chk. rewrite Hq. cbn [obind]. rewrite arith_in_unsigned by reflexivity. cbn [rbind ok_of bits u32].
  f_equal. rewrite cast_wrap_ty, wu_wrapu by (cbn; lia). unwrap. rewrite wrapu_idem by lia.
  symmetry. apply wrapu_in_u; [lia | exact Hq].
Qed.
Lemma div_sat_u64_eq x y : in_ty u64 x = true -> in_ty u64 y = true -> Gen_bits.div_sat_u64_g x y = ok_of (div_sat_m u64 x y).
Proof.
  intros Hx Hy. unfold Gen_bits.div_sat_u64_g. div_tac.
  pose proof (quot_in_u u64 x y eq_refl ltac:(cbn; lia) Hx Hy ltac:(assumption)) as Hq.
  unfold chk. rewrite Hq. cbn [obind]. rewrite arith_in_unsigned by reflexivity. cbn [rbind ok_of bits u64].
  f_equal. rewrite cast_wrap_ty, wu_wrapu by (cbn; lia). unwrap. rewrite wrapu_idem by lia.
  symmetry. apply wrapu_in_u; [lia | exact Hq].
Qed.

(** * abs (signed char, short: the negation is done in int) *)
Lemma abs_i8_eq x : Gen_bits.abs_i8_g x = ok_of (abs_m i8 x).
Proof.
  unfold Gen_bits.abs_i8_g, abs_m, arith. cbn [sgn i8 andb]. change (promote i8) with i32. cmp_norm.
  destruct (x <? 0); [|reflexivity]. rewrite Z.sub_0_l, arith_signed_res by reflexivity.
  destruct (chk i32 (- x)); cbn [obind rbind ok_of]; [|reflexivity]. now rewrite cast_wrap_ty by (cbn; lia).
Qed.
Lemma abs_i16_eq x : Gen_bits.abs_i16_g x = ok_of (abs_m i16 x).
Proof.
  unfold Gen_bits.abs_i16_g, abs_m, arith. cbn [sgn i16 andb]. change (promote i16) with i32. cmp_norm.
  destruct (x <? 0); [|reflexivity]. rewrite Z.sub_0_l, arith_signed_res by reflexivity.
  destruct (chk i32 (- x)); cbn [obind rbind ok_of]; [|reflexivity]. now rewrite cast_wrap_ty by (cbn; lia).
Qed.

(** * cmp_less / cmp_equal for six (T, U) pairs: values of the two types *)
Ltac Zify.zify_post_hook ::= Z.to_euclidean_division_equations.
Lemma WT_of t : t = i8 \/ t = u8 \/ t = i16 \/ t = u16 \/ t = i32 \/ t = u32 \/ t = i64 \/ t = u64 -> WT t.
Proof. intros H. unfold WT, W. repeat (destruct H as [-> | H]; [cbn; lia|]). subst; cbn; lia. Qed.
Ltac wt := apply WT_of; tauto.

Ltac cmp_fin Ht Hu :=
  apply in_ty_range in Ht; apply in_ty_range in Hu; consts; unwrap; unfold wrapu; consts;
  repeat match goal with |- context [if ?c then _ else _] => destruct c eqn:? end; f_equal; lia.

Lemma cmp_less_i32_u32_eq t u : in_ty i32 t = true -> in_ty u32 u = true ->
  Gen_bits.cmp_less_i32_u32_g t u = Some (cmp_less_m i32 u32 t u).
Proof.
  intros Ht Hu. rewrite (cmp_less_ok i32 u32 t u ltac:(wt) ltac:(wt) Ht Hu).
  unfold Gen_bits.cmp_less_i32_u32_g, cmp_less_spec. cmp_fin Ht Hu.
Qed.
Lemma cmp_equal_i32_u32_eq t u : in_ty i32 t = true -> in_ty u32 u = true ->
  Gen_bits.cmp_equal_i32_u32_g t u = Some (cmp_equal_m i32 u32 t u).
Proof.
  intros Ht Hu. rewrite (cmp_equal_ok i32 u32 t u ltac:(wt) ltac:(wt) Ht Hu).
  unfold Gen_bits.cmp_equal_i32_u32_g, cmp_equal_spec. cmp_fin Ht Hu.
Qed.

Lemma cmp_less_i8_u64_eq t u : in_ty i8 t = true -> in_ty u64 u = true ->
  Gen_bits.cmp_less_i8_u64_g t u = Some (cmp_less_m i8 u64 t u).
Proof.
  intros Ht Hu. rewrite (cmp_less_ok i8 u64 t u ltac:(wt) ltac:(wt) Ht Hu).
  unfold Gen_bits.cmp_less_i8_u64_g, cmp_less_spec. cmp_fin Ht Hu.
Qed.
Lemma cmp_equal_i8_u64_eq t u : in_ty i8 t = true -> in_ty u64 u = true ->
  Gen_bits.cmp_equal_i8_u64_g t u = Some (cmp_equal_m i8 u64 t u).
Proof.
  intros Ht Hu. rewrite (cmp_equal_ok i8 u64 t u ltac:(wt) ltac:(wt) Ht Hu).
  unfold Gen_bits.cmp_equal_i8_u64_g, cmp_equal_spec. cmp_fin Ht Hu.
Qed.

Lemma cmp_less_u32_i64_eq t u : in_ty u32 t = true -> in_ty i64 u = true ->
  Gen_bits.cmp_less_u32_i64_g t u = Some (cmp_less_m u32 i64 t u).
Proof.
  intros Ht Hu. rewrite (cmp_less_ok u32 i64 t u ltac:(wt) ltac:(wt) Ht Hu).
  unfold Gen_bits.cmp_less_u32_i64_g, cmp_less_spec. cmp_fin Ht Hu.
Qed.
Lemma cmp_equal_u32_i64_eq t u : in_ty u32 t = true -> in_ty i64 u = true ->
  Gen_bits.cmp_equal_u32_i64_g t u = Some (cmp_equal_m u32 i64 t u).
Proof.
  intros Ht Hu. rewrite (cmp_equal_ok u32 i64 t u ltac:(wt) ltac:(wt) Ht Hu).
  unfold Gen_bits.cmp_equal_u32_i64_g, cmp_equal_spec. cmp_fin Ht Hu.
Qed.

Lemma cmp_less_i64_u64_eq t u : in_ty i64 t = true -> in_ty u64 u = true ->
  Gen_bits.cmp_less_i64_u64_g t u = Some (cmp_less_m i64 u64 t u).
Proof.
  intros Ht Hu. rewrite (cmp_less_ok i64 u64 t u ltac:(wt) ltac:(wt) Ht Hu).
  unfold Gen_bits.cmp_less_i64_u64_g, cmp_less_spec. cmp_fin Ht Hu.
Qed.
Lemma cmp_equal_i64_u64_eq t u : in_ty i64 t = true -> in_ty u64 u = true ->
  Gen_bits.cmp_equal_i64_u64_g t u = Some (cmp_equal_m i64 u64 t u).
Proof.
  intros Ht Hu. rewrite (cmp_equal_ok i64 u64 t u ltac:(wt) ltac:(wt) Ht Hu).
  unfold Gen_bits.cmp_equal_i64_u64_g, cmp_equal_spec. cmp_fin Ht Hu.
Qed.

Lemma cmp_less_u8_i8_eq t u : in_ty u8 t = true -> in_ty i8 u = true ->
  Gen_bits.cmp_less_u8_i8_g t u = Some (cmp_less_m u8 i8 t u).
Proof.
  intros Ht Hu. rewrite (cmp_less_ok u8 i8 t u ltac:(wt) ltac:(wt) Ht Hu).
  unfold Gen_bits.cmp_less_u8_i8_g, cmp_less_spec. cmp_fin Ht Hu.
Qed.
Lemma cmp_equal_u8_i8_eq t u : in_ty u8 t = true -> in_ty i8 u = true ->
  Gen_bits.cmp_equal_u8_i8_g t u = Some (cmp_equal_m u8 i8 t u).
Proof.
  intros Ht Hu. rewrite (cmp_equal_ok u8 i8 t u ltac:(wt) ltac:(wt) Ht Hu).
  unfold Gen_bits.cmp_equal_u8_i8_g, cmp_equal_spec. cmp_fin Ht Hu.
Qed.

Lemma cmp_less_i16_i32_eq t u : in_ty i16 t = true -> in_ty i32 u = true ->
  Gen_bits.cmp_less_i16_i32_g t u = Some (cmp_less_m i16 i32 t u).
Proof.
  intros Ht Hu. rewrite (cmp_less_ok i16 i32 t u ltac:(wt) ltac:(wt) Ht Hu).
  unfold Gen_bits.cmp_less_i16_i32_g, cmp_less_spec. cmp_fin Ht Hu.
Qed.
Lemma cmp_equal_i16_i32_eq t u : in_ty i16 t = true -> in_ty i32 u = true ->
  Gen_bits.cmp_equal_i16_i32_g t u = Some (cmp_equal_m i16 i32 t u).
Proof.
  intros Ht Hu. rewrite (cmp_equal_ok i16 i32 t u ltac:(wt) ltac:(wt) Ht Hu).
  unfold Gen_bits.cmp_equal_i16_i32_g, cmp_equal_spec. cmp_fin Ht Hu.
Qed.

(** * summary of the second batch: div_sat, abs, cmp_less / cmp_equal *)
Lemma gen_arith_equiv : forall x y t u,
  (Gen_bits.div_sat_i8_g x y = ok_of (div_sat_m i8 x y)
   /\ Gen_bits.div_sat_i16_g x y = ok_of (div_sat_m i16 x y)
   /\ Gen_bits.div_sat_i32_g x y = ok_of (div_sat_m i32 x y)
   /\ Gen_bits.div_sat_i64_g x y = ok_of (div_sat_m i64 x y)
   /\ Gen_bits.div_sat_u8_g x y = ok_of (div_sat_m u8 x y)
   /\ Gen_bits.div_sat_u16_g x y = ok_of (div_sat_m u16 x y)
   /\ (in_ty u32 x = true -> in_ty u32 y = true -> Gen_bits.div_sat_u32_g x y = ok_of (div_sat_m u32 x y))
   /\ (in_ty u64 x = true -> in_ty u64 y = true -> Gen_bits.div_sat_u64_g x y = ok_of (div_sat_m u64 x y)))
  /\ (Gen_bits.abs_i8_g x = ok_of (abs_m i8 x)
   /\ Gen_bits.abs_i16_g x = ok_of (abs_m i16 x))
  /\ ((in_ty i32 t = true -> in_ty u32 u = true ->
      Gen_bits.cmp_less_i32_u32_g t u = Some (cmp_less_m i32 u32 t u) /\ Gen_bits.cmp_equal_i32_u32_g t u = Some (cmp_equal_m i32 u32 t u))
   /\ (in_ty i8 t = true -> in_ty u64 u = true ->
      Gen_bits.cmp_less_i8_u64_g t u = Some (cmp_less_m i8 u64 t u) /\ Gen_bits.cmp_equal_i8_u64_g t u = Some (cmp_equal_m i8 u64 t u))
   /\ (in_ty u32 t = true -> in_ty i64 u = true ->
      Gen_bits.cmp_less_u32_i64_g t u = Some (cmp_less_m u32 i64 t u) /\ Gen_bits.cmp_equal_u32_i64_g t u = Some (cmp_equal_m u32 i64 t u))
   /\ (in_ty i64 t = true -> in_ty u64 u = true ->
      Gen_bits.cmp_less_i64_u64_g t u = Some (cmp_less_m i64 u64 t u) /\ Gen_bits.cmp_equal_i64_u64_g t u = Some (cmp_equal_m i64 u64 t u))
   /\ (in_ty u8 t = true -> in_ty i8 u = true ->
      Gen_bits.cmp_less_u8_i8_g t u = Some (cmp_less_m u8 i8 t u) /\ Gen_bits.cmp_equal_u8_i8_g t u = Some (cmp_equal_m u8 i8 t u))
   /\ (in_ty i16 t = true -> in_ty i32 u = true ->
      Gen_bits.cmp_less_i16_i32_g t u = Some (cmp_less_m i16 i32 t u) /\ Gen_bits.cmp_equal_i16_i32_g t u = Some (cmp_equal_m i16 i32 t u))).
Proof.
  intros x y t u. exact (conj (conj (div_sat_i8_eq x y) (conj (div_sat_i16_eq x y) (conj (div_sat_i32_eq x y) (conj (div_sat_i64_eq x y) (conj (div_sat_u8_eq x y) (conj (div_sat_u16_eq x y) (conj (div_sat_u32_eq x y) (div_sat_u64_eq x y)))))))) (conj (conj (abs_i8_eq x) (abs_i16_eq x)) (conj (fun Ht Hu => conj (cmp_less_i32_u32_eq t u Ht Hu) (cmp_equal_i32_u32_eq t u Ht Hu)) (conj (fun Ht Hu => conj (cmp_less_i8_u64_eq t u Ht Hu) (cmp_equal_i8_u64_eq t u Ht Hu)) (conj (fun Ht Hu => conj (cmp_less_u32_i64_eq t u Ht Hu) (cmp_equal_u32_i64_eq t u Ht Hu)) (conj (fun Ht Hu => conj (cmp_less_i64_u64_eq t u Ht Hu) (cmp_equal_i64_u64_eq t u Ht Hu)) (conj (fun Ht Hu => conj (cmp_less_u8_i8_eq t u Ht Hu) (cmp_equal_u8_i8_eq t u Ht Hu)) (fun Ht Hu => conj (cmp_less_i16_i32_eq t u Ht Hu) (cmp_equal_i16_i32_eq t u Ht Hu))))))))).
Qed.
