(* C14 proofs: byteswap (builtin path, by the documented meaning of __builtin_bswapN, and the
   portable shift-and-mask fallbacks for 16/32/64 bits) and hton / ntoh, for every value. *)
From Tetl Require Import Lib.Base C14.Spec C14.Model C14.Arith C14.Bits C14.ProofsRot.
From Coq Require Import ZifyBool.
Local Open Scope Z_scope.
Ltac Zify.zify_post_hook ::= Z.to_euclidean_division_equations.

(** * bitwise helpers *)
(* y & (0xFF << k) is byte (y >> k) put back at position k *)
Lemma land_bytemask y k : 0 <= k -> Z.land y (255 * 2 ^ k) = ((y / 2 ^ k) mod 2 ^ 8) * 2 ^ k.
Proof.
  intros Hk. apply Z.bits_inj'. intros i Hi.
  rewrite Z.land_spec. change 255 with (Z.ones 8).
  destruct (Z.ltb_spec i k) as [L|L].
  - rewrite !Z.mul_pow2_bits_low by lia. apply andb_false_r.
  - rewrite !Z.mul_pow2_bits by lia. rewrite Z.testbit_ones by lia.
    destruct (Z.ltb_spec (i - k) 8) as [B|B].
    + rewrite Z.mod_pow2_bits_low by lia. rewrite Z.div_pow2_bits by lia.
      replace (0 <=? i - k) with true by lia. rewrite andb_true_r. f_equal. lia.
    + rewrite Z.mod_pow2_bits_high by lia. now rewrite !andb_false_r.
Qed.

(* byte k of (v << s) mod 2^w is byte k - s of v *)
Lemma byte_of_shl w v s k : 0 <= s <= k -> k + 8 <= w ->
  (((v * 2 ^ s) mod 2 ^ w) / 2 ^ k) mod 2 ^ 8 = (v / 2 ^ (k - s)) mod 2 ^ 8.
Proof.
  intros Hs Hk. apply Z.bits_inj'. intros i Hi.
  destruct (Z.ltb_spec i 8) as [B|B].
  - rewrite !Z.mod_pow2_bits_low by lia. rewrite !Z.div_pow2_bits by lia.
    rewrite Z.mod_pow2_bits_low by lia. rewrite Z.mul_pow2_bits by lia. f_equal. lia.
  - rewrite !Z.mod_pow2_bits_high by lia. reflexivity.
Qed.

Lemma byte_of_shr v s k : 0 <= s -> 0 <= k -> ((v / 2 ^ s) / 2 ^ k) mod 2 ^ 8 = (v / 2 ^ (s + k)) mod 2 ^ 8.
Proof.
  intros Hs Hk. pose proof (pow2_pos s Hs). pose proof (pow2_pos k Hk).
  rewrite Z.div_div by lia. now rewrite <- Z.pow_add_r by lia.
Qed.

(* appending one more byte below an accumulated value: the OR is a sum *)
Lemma lor_byte_acc acc b k : 0 <= b < 2 ^ 8 -> 0 <= k ->
  Z.lor (acc * 2 ^ (k + 8)) (b * 2 ^ k) = (acc * 2 ^ 8 + b) * 2 ^ k.
Proof.
  intros Hb Hk. rewrite Z.pow_add_r by lia.
  replace (acc * (2 ^ k * 2 ^ 8)) with ((acc * 2 ^ 8) * 2 ^ k) by ring.
  rewrite <- (Z.shiftl_mul_pow2 (acc * 2 ^ 8)), <- (Z.shiftl_mul_pow2 b), <- (Z.shiftl_mul_pow2 (acc * 2 ^ 8 + b)) by lia.
  rewrite <- Z.shiftl_lor. f_equal. apply lor_disjoint_add; lia.
Qed.

Definition byte (v j : Z) : Z := (v / 2 ^ (8 * j)) mod 2 ^ 8.

Lemma byte_range v j : 0 <= byte v j < 2 ^ 8.
Proof. unfold byte. apply Z.mod_pos_bound. reflexivity. Qed.

(** * the specification, unfolded for 1, 2, 4, 8 bytes *)
Lemma bytes_of_byte : forall (n : nat) v j, 0 <= j ->
  bytes_of n (v / 2 ^ (8 * j)) = map (fun i => byte v (j + Z.of_nat i)) (seq 0 n).
Proof.
  induction n as [|n IH]; intros v j Hj; [reflexivity|].
  cbn [bytes_of seq map]. rewrite <- seq_shift, map_map. f_equal.
  - unfold byte. change 256 with (2 ^ 8). do 3 f_equal. lia.
  - change 256 with (2 ^ 8). pose proof (pow2_pos (8 * j) ltac:(lia)).
    rewrite Z.div_div by lia.
    rewrite <- Z.pow_add_r by lia. replace (8 * j + 8) with (8 * (j + 1)) by lia.
    rewrite IH by lia. apply map_ext. intros i. f_equal. lia.
Qed.

Lemma bswap_spec_bytes (n : nat) v :
  byteswap_u_spec n v = of_bytes (rev (map (fun i => byte v (Z.of_nat i)) (seq 0 n))).
Proof.
  unfold byteswap_u_spec. rewrite <- (Z.div_1_r v) at 1. change 1 with (2 ^ (8 * 0)).
  rewrite bytes_of_byte by lia. reflexivity.
Qed.

(** * 16 bits *)
Lemma bswap16_value v : 0 <= v < 2 ^ 16 -> byteswap_u_spec 2 v = byte v 0 * 2 ^ 8 + byte v 1.
Proof. intros _. rewrite bswap_spec_bytes. cbn [seq map rev app of_bytes Z.of_nat Pos.of_succ_nat Pos.succ]. change (2 ^ 8) with 256. lia. Qed.

Lemma byteswap_fallback16_ok v : 0 <= v < 2 ^ 16 ->
  byteswap_fallback_m 16 v = Ok (byteswap_u_spec 2 v).
Proof.
  intros Hv. unfold byteswap_fallback_m. cbn [Z.eqb Pos.eqb].
  assert (W16 : W 16) by (unfold W; lia).
  rewrite (shl_small 16) by (auto; lia). cbn [rbind]. rewrite (shr_U 16) by (auto; lia). cbn [rbind].
  f_equal. rewrite bswap16_value by assumption. unfold byte. change (8 * 0) with 0. change (8 * 1) with 8.
  rewrite Z.pow_0_r, Z.div_1_r.
  assert (Hh : 0 <= v / 2 ^ 8 < 2 ^ 8).
  { split; [apply Z.div_pos; lia | apply Z.div_lt_upper_bound; [reflexivity|]; change (2 ^ 8 * 2 ^ 8) with (2 ^ 16); lia]. }
  rewrite lor_disjoint_add by lia. rewrite wu_eq by lia.
  rewrite (Z.mod_small (v / 2 ^ 8)) by lia.
  rewrite (mod_pow2_add_low v (v / 2 ^ 8) 8 16) by lia.
  f_equal. change (2 ^ 16) with (2 ^ 8 * 2 ^ 8). rewrite Z.mul_mod_distr_r by lia. reflexivity.
Qed.

Lemma ntoh16_ok v : 0 <= v < 2 ^ 16 -> ntoh_m 16 v = Ok (hton_spec 16 v) /\ hton_m 16 v = Ok (hton_spec 16 v).
Proof.
  intros Hv. unfold hton_m. enough (E : ntoh_m 16 v = Ok (hton_spec 16 v)) by (split; exact E).
  unfold ntoh_m, hton_spec. cbn [Z.eqb Pos.eqb]. change (Z.to_nat (16 / 8)) with 2%nat.
  assert (W16 : W 16) by (unfold W; lia).
  rewrite (shl_small 16) by (auto; lia). cbn [rbind]. rewrite (shr_U 16) by (auto; lia). cbn [rbind].
  f_equal. rewrite bswap16_value by assumption. unfold byte. change (8 * 0) with 0. change (8 * 1) with 8.
  rewrite Z.pow_0_r, Z.div_1_r.
  assert (Hh : 0 <= v / 2 ^ 8 < 2 ^ 8).
  { split; [apply Z.div_pos; lia | apply Z.div_lt_upper_bound; [reflexivity|]; change (2 ^ 8 * 2 ^ 8) with (2 ^ 16); lia]. }
  rewrite (wu_small 16 (v / 2 ^ 8)) by lia.
  rewrite (wu_eq 16 (v * 2 ^ 8)) by lia.
  change (2 ^ 16) with (2 ^ 8 * 2 ^ 8) at 1. rewrite Z.mul_mod_distr_r by lia.
  rewrite lor_disjoint_add by lia. rewrite (Z.mod_small (v / 2 ^ 8)) by lia.
  apply wu_small; [lia|].
  pose proof (Z.mod_pos_bound v (2 ^ 8) ltac:(reflexivity)). change (2 ^ 16) with (2 ^ 8 * 2 ^ 8). nia.
Qed.

(** * 32 bits *)
Lemma bswap32_value v : byteswap_u_spec 4 v = ((byte v 0 * 2 ^ 8 + byte v 1) * 2 ^ 8 + byte v 2) * 2 ^ 8 + byte v 3.
Proof. rewrite bswap_spec_bytes. cbn [seq map rev app of_bytes Z.of_nat Pos.of_succ_nat Pos.succ]. change (2 ^ 8) with 256. lia. Qed.

Lemma top_byte w v j : 0 <= v < 2 ^ w -> w = 8 * j + 8 -> 0 <= j -> v / 2 ^ (8 * j) = byte v j.
Proof.
  intros Hv Hw Hj. unfold byte. symmetry. apply Z.mod_small.
  assert (0 < 2 ^ (8 * j)) by (apply pow2_pos; lia).
  split; [apply Z.div_pos; lia | apply Z.div_lt_upper_bound; [lia|]].
  rewrite <- Z.pow_add_r by lia. replace (8 * j + 8) with w by lia. lia.
Qed.

Lemma low_byte_shl w v s : w = s + 8 -> 0 <= s -> (v * 2 ^ s) mod 2 ^ w = byte v 0 * 2 ^ s.
Proof.
  intros -> Hs. unfold byte. change (8 * 0) with 0. rewrite Z.pow_0_r, Z.div_1_r.
  rewrite Z.pow_add_r by lia. rewrite (Z.mul_comm (2 ^ s) (2 ^ 8)).
  apply Z.mul_mod_distr_r; [apply Z.neq_sym, Z.lt_neq, pow2_pos; lia | apply Z.neq_sym, Z.lt_neq, pow2_pos; lia].
Qed.

Lemma byteswap_fallback32_ok v : 0 <= v < 2 ^ 32 ->
  byteswap_fallback_m 32 v = Ok (byteswap_u_spec 4 v).
Proof.
  intros Hv. unfold byteswap_fallback_m. cbn [Z.eqb Pos.eqb].
  assert (W32 : W 32) by (unfold W; lia).
  rewrite !(shl_big 32) by (auto; lia). cbn [rbind]. rewrite !(shr_U 32) by (auto; lia). cbn [rbind].
  f_equal. rewrite bswap32_value.
  change 16711680 with (255 * 2 ^ 16). change 65280 with (255 * 2 ^ 8).
  rewrite !land_bytemask by lia.
  rewrite (byte_of_shl 32 v 8 16) by lia. rewrite (byte_of_shr v 8 8) by lia.
  rewrite (low_byte_shl 32 v 24) by lia.
  change (v / 2 ^ 24) with (v / 2 ^ (8 * 3)). rewrite (top_byte 32 v 3) by lia.
  change ((v / 2 ^ (16 - 8)) mod 2 ^ 8) with (byte v 1). change ((v / 2 ^ (8 + 8)) mod 2 ^ 8) with (byte v 2).
  pose proof (byte_range v 0). pose proof (byte_range v 1). pose proof (byte_range v 2). pose proof (byte_range v 3).
  change (2 ^ 24) with (2 ^ (16 + 8)). rewrite lor_byte_acc by lia.
  change (2 ^ 16) with (2 ^ (8 + 8)). rewrite lor_byte_acc by lia.
  apply lor_disjoint_add; lia.
Qed.

Lemma ntoh32_ok v : 0 <= v < 2 ^ 32 -> ntoh_m 32 v = Ok (hton_spec 32 v) /\ hton_m 32 v = Ok (hton_spec 32 v).
Proof.
  intros Hv. unfold hton_m. enough (E : ntoh_m 32 v = Ok (hton_spec 32 v)) by (split; exact E).
  unfold ntoh_m, hton_spec. cbn [Z.eqb Pos.eqb]. change (Z.to_nat (32 / 8)) with 4%nat.
  assert (W32 : W 32) by (unfold W; lia).
  rewrite !(shl_big 32) by (auto; lia). cbn [rbind]. rewrite !(shr_U 32) by (auto; lia). cbn [rbind].
  f_equal. rewrite bswap32_value.
  change 16711680 with (255 * 2 ^ 16). change 65280 with (255 * 2 ^ 8).
  rewrite !land_bytemask by lia.
  change ((v / 2 ^ 8) mod 2 ^ 8) with (byte v 1). change ((v / 2 ^ 16) mod 2 ^ 8) with (byte v 2).
  pose proof (byte_range v 0). pose proof (byte_range v 1). pose proof (byte_range v 2). pose proof (byte_range v 3).
  rewrite (low_byte_shl 32 v 24) by lia.
  change (v / 2 ^ 24) with (v / 2 ^ (8 * 3)). rewrite (top_byte 32 v 3) by lia.
  replace ((byte v 1 * 2 ^ 8 * 2 ^ 8) mod 2 ^ 32) with (byte v 1 * 2 ^ 16)
    by (change (2 ^ 8) with 256 in *; change (2 ^ 16) with 65536; change (2 ^ 32) with 4294967296; lia).
  replace (byte v 2 * 2 ^ 16 / 2 ^ 8) with (byte v 2 * 2 ^ 8)
    by (change (2 ^ 8) with 256 in *; change (2 ^ 16) with 65536; lia).
  change (2 ^ 24) with (2 ^ (16 + 8)). rewrite lor_byte_acc by lia.
  change (2 ^ 16) with (2 ^ (8 + 8)). rewrite lor_byte_acc by lia.
  apply lor_disjoint_add; lia.
Qed.

(** * 64 bits *)
Lemma bswap64_value v : byteswap_u_spec 8 v =
  ((((((byte v 0 * 2 ^ 8 + byte v 1) * 2 ^ 8 + byte v 2) * 2 ^ 8 + byte v 3) * 2 ^ 8 + byte v 4) * 2 ^ 8
      + byte v 5) * 2 ^ 8 + byte v 6) * 2 ^ 8 + byte v 7.
Proof. rewrite bswap_spec_bytes. cbn [seq map rev app of_bytes Z.of_nat Pos.of_succ_nat Pos.succ]. change (2 ^ 8) with 256. lia. Qed.

Lemma byteswap_fallback64_ok v : 0 <= v < 2 ^ 64 ->
  byteswap_fallback_m 64 v = Ok (byteswap_u_spec 8 v).
Proof.
  intros Hv. unfold byteswap_fallback_m. cbn [Z.eqb Pos.eqb].
  assert (W64 : W 64) by (unfold W; lia).
  rewrite !(shl_big 64) by (auto; lia). cbn [rbind]. rewrite !(shr_U 64) by (auto; lia). cbn [rbind].
  f_equal. rewrite bswap64_value.
  change 71776119061217280 with (255 * 2 ^ 48). change 280375465082880 with (255 * 2 ^ 40).
  change 1095216660480 with (255 * 2 ^ 32). change 4278190080 with (255 * 2 ^ 24).
  change 16711680 with (255 * 2 ^ 16). change 65280 with (255 * 2 ^ 8).
  rewrite !land_bytemask by lia.
  rewrite (byte_of_shl 64 v 40 48), (byte_of_shl 64 v 24 40), (byte_of_shl 64 v 8 32) by lia.
  rewrite (byte_of_shr v 8 24), (byte_of_shr v 24 16), (byte_of_shr v 40 8) by lia.
  rewrite (low_byte_shl 64 v 56) by lia.
  change (v / 2 ^ 56) with (v / 2 ^ (8 * 7)). rewrite (top_byte 64 v 7) by lia.
  change ((v / 2 ^ (48 - 40)) mod 2 ^ 8) with (byte v 1). change ((v / 2 ^ (40 - 24)) mod 2 ^ 8) with (byte v 2).
  change ((v / 2 ^ (32 - 8)) mod 2 ^ 8) with (byte v 3). change ((v / 2 ^ (8 + 24)) mod 2 ^ 8) with (byte v 4).
  change ((v / 2 ^ (24 + 16)) mod 2 ^ 8) with (byte v 5). change ((v / 2 ^ (40 + 8)) mod 2 ^ 8) with (byte v 6).
  pose proof (byte_range v 0). pose proof (byte_range v 1). pose proof (byte_range v 2). pose proof (byte_range v 3).
  pose proof (byte_range v 4). pose proof (byte_range v 5). pose proof (byte_range v 6). pose proof (byte_range v 7).
  change (2 ^ 56) with (2 ^ (48 + 8)). rewrite lor_byte_acc by lia.
  change (2 ^ 48) with (2 ^ (40 + 8)). rewrite lor_byte_acc by lia.
  change (2 ^ 40) with (2 ^ (32 + 8)). rewrite lor_byte_acc by lia.
  change (2 ^ 32) with (2 ^ (24 + 8)). rewrite lor_byte_acc by lia.
  change (2 ^ 24) with (2 ^ (16 + 8)). rewrite lor_byte_acc by lia.
  change (2 ^ 16) with (2 ^ (8 + 8)). rewrite lor_byte_acc by lia.
  apply lor_disjoint_add; lia.
Qed.

(** * summary *)
Lemma bswap8_value v : 0 <= v < 2 ^ 8 -> byteswap_u_spec 1 v = v.
Proof.
  intros Hv. rewrite bswap_spec_bytes. cbn [seq map rev app of_bytes Z.of_nat]. unfold byte.
  change (8 * 0) with 0. rewrite Z.pow_0_r, Z.div_1_r, Z.mod_small by lia. lia.
Qed.

Lemma byteswap_fallback_ok w v : w = 16 \/ w = 32 \/ w = 64 -> 0 <= v < 2 ^ w ->
  byteswap_fallback_m w v = Ok (byteswap_u_spec (Z.to_nat (w / 8)) v).
Proof.
  intros [ -> | [ -> | -> ] ] Hv;
    [apply byteswap_fallback16_ok | apply byteswap_fallback32_ok | apply byteswap_fallback64_ok]; assumption.
Qed.

(* etl::byteswap for the eight types: the object representation reversed (run-time path through
   __builtin_bswap16/32/64, which is the byte reversal by its documentation) *)
Lemma byteswap_ok t x : WT t -> in_ty t x = true -> byteswap_m t x = Ok (byteswap_spec t x).
Proof.
  intros HT Hx. unfold byteswap_m, byteswap_spec, builtin_bswap.
  destruct (Z.eqb_spec (bits t) 8) as [E|E].
  - f_equal. rewrite E. change (Z.to_nat (8 / 8)) with 1%nat.
    assert (P : 0 < 2 ^ 8) by reflexivity.
    rewrite bswap8_value by (unfold wrapu; apply Z.mod_pos_bound; exact P).
    apply in_ty_range in Hx. unfold wrap_ty, wraps, wrapu, imin, imax, smin, smax, umax in *. rewrite E in *.
    destruct (sgn t); consts; [destruct (Z.ltb_spec (x mod 256 mod 256) 128)|]; lia.
  - assert (0 <= bits t) by (wcases HT; lia).
    now rewrite cast_wrap_ty, wu_wrapu by assumption.
Qed.

Lemma hton_ok w v : w = 8 \/ w = 16 \/ w = 32 -> 0 <= v < 2 ^ w ->
  hton_m w v = Ok (hton_spec w v) /\ ntoh_m w v = Ok (hton_spec w v).
Proof.
  intros [ -> | [ -> | -> ] ] Hv.
  - unfold hton_m, ntoh_m, hton_spec. cbn [Z.eqb Pos.eqb]. change (Z.to_nat (8 / 8)) with 1%nat.
    now rewrite bswap8_value by assumption.
  - destruct (ntoh16_ok v Hv). now split.
  - destruct (ntoh32_ok v Hv). now split.
Qed.

Lemma swap_all :
  (forall t x, WT t -> in_ty t x = true -> byteswap_m t x = Ok (byteswap_spec t x))
  /\ (forall w v, w = 16 \/ w = 32 \/ w = 64 -> 0 <= v < 2 ^ w ->
        byteswap_fallback_m w v = Ok (byteswap_u_spec (Z.to_nat (w / 8)) v))
  /\ (forall w v, w = 8 \/ w = 16 \/ w = 32 -> 0 <= v < 2 ^ w ->
        hton_m w v = Ok (hton_spec w v) /\ ntoh_m w v = Ok (hton_spec w v)).
Proof. exact (conj byteswap_ok (conj byteswap_fallback_ok hton_ok)). Qed.
