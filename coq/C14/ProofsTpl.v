(* C14 proofs: the template<size_t Pos> overloads set_bit<Pos>(word), set_bit<Pos>(word, value), reset_bit<Pos>,
   flip_bit<Pos>, test_bit<Pos> forward to the run-time overloads at position Pos for every Pos < digits (and do not
   compile for any other Pos), hence return the single-bit update of Spec.v; ipow<Base>(exponent). *)
From Tetl Require Import Lib.Base C14.Spec C14.Model C14.Arith C14.Bits C14.ProofsBit C14.ProofsNum.
Local Open Scope Z_scope.
Ltac Zify.zify_post_hook ::= Z.to_euclidean_division_equations.

(* static_cast<UInt>(Pos) keeps the value of a position below digits *)
Lemma pos_cast w Pos : W w -> 0 <= Pos < w -> wu w Pos = Pos.
Proof.
  intros HW HP. pose proof (W_pos w HW) as Hw. apply wu_small; [lia|].
  split; [lia|]. apply Z.lt_trans with w; [lia|]. apply Z.pow_gt_lin_r; lia.
Qed.

Lemma tpl_pos_forward {A : Type} w Pos (k : Z -> res A) : W w -> 0 <= Pos < w -> tpl_pos w Pos k = Some (k Pos).
Proof.
  intros HW HP. unfold tpl_pos. replace (Pos <? w) with true by lia. now rewrite pos_cast.
Qed.

Lemma tpl_pos_ill_formed {A : Type} w Pos (k : Z -> res A) : w <= Pos -> tpl_pos w Pos k = None.
Proof. intros H. unfold tpl_pos. now replace (Pos <? w) with false by lia. Qed.

(* wrapper = run-time function at Pos: every width, EVERY word (no range hypothesis), every Pos < digits *)
Lemma tpl_forward w : W w -> forall word Pos, 0 <= Pos < w ->
  set_bit_tpl_m w Pos word = Some (set_bit_m w word Pos)
  /\ (forall v, assign_bit_tpl_m w Pos word v = Some (assign_bit_m w word Pos v))
  /\ reset_bit_tpl_m w Pos word = Some (reset_bit_m w word Pos)
  /\ flip_bit_tpl_m w Pos word = Some (flip_bit_m w word Pos)
  /\ test_bit_tpl_m w Pos word = Some (test_bit_m w word Pos).
Proof.
  intros HW word Pos HP.
  unfold set_bit_tpl_m, assign_bit_tpl_m, reset_bit_tpl_m, flip_bit_tpl_m, test_bit_tpl_m.
  exact (conj (tpl_pos_forward w Pos _ HW HP) (conj (fun v => tpl_pos_forward w Pos _ HW HP)
        (conj (tpl_pos_forward w Pos _ HW HP) (conj (tpl_pos_forward w Pos _ HW HP) (tpl_pos_forward w Pos _ HW HP))))).
Qed.

Lemma tpl_all w : W w -> forall word Pos, 0 <= Pos ->
  (Pos < w ->
     (set_bit_tpl_m w Pos word = Some (set_bit_m w word Pos)
      /\ (forall v, assign_bit_tpl_m w Pos word v = Some (assign_bit_m w word Pos v))
      /\ reset_bit_tpl_m w Pos word = Some (reset_bit_m w word Pos)
      /\ flip_bit_tpl_m w Pos word = Some (flip_bit_m w word Pos)
      /\ test_bit_tpl_m w Pos word = Some (test_bit_m w word Pos))
     /\ (0 <= word < 2 ^ w ->
         set_bit_tpl_m w Pos word = Some (Ok (set_bit_spec word Pos))
         /\ (forall v, assign_bit_tpl_m w Pos word v = Some (Ok (assign_bit_spec word Pos v)))
         /\ reset_bit_tpl_m w Pos word = Some (Ok (reset_bit_spec word Pos))
         /\ flip_bit_tpl_m w Pos word = Some (Ok (flip_bit_spec word Pos))
         /\ test_bit_tpl_m w Pos word = Some (Ok (test_bit_spec word Pos))))
  /\ (w <= Pos ->
      set_bit_tpl_m w Pos word = None /\ (forall v, assign_bit_tpl_m w Pos word v = None)
      /\ reset_bit_tpl_m w Pos word = None /\ flip_bit_tpl_m w Pos word = None /\ test_bit_tpl_m w Pos word = None).
Proof.
  intros HW word Pos H0. split.
  - intros HP. assert (HPP : 0 <= Pos < w) by lia.
    pose proof (tpl_forward w HW word Pos HPP) as (F1 & F2 & F3 & F4 & F5).
    split; [exact (conj F1 (conj F2 (conj F3 (conj F4 F5))))|].
    intros Hw. rewrite F1, F3, F4, F5.
    rewrite (set_bit_ok w word Pos HW Hw HPP), (reset_bit_ok w word Pos HW Hw HPP),
      (flip_bit_ok w word Pos HW Hw HPP), (test_bit_ok w word Pos HW Hw HPP).
    refine (conj eq_refl (conj _ (conj eq_refl (conj eq_refl eq_refl)))).
    intros v. rewrite F2. now rewrite (assign_bit_ok w word Pos v HW Hw HPP).
  - intros HP.
    unfold set_bit_tpl_m, assign_bit_tpl_m, reset_bit_tpl_m, flip_bit_tpl_m, test_bit_tpl_m.
    exact (conj (tpl_pos_ill_formed w Pos _ HP) (conj (fun v => tpl_pos_ill_formed w Pos _ HP)
          (conj (tpl_pos_ill_formed w Pos _ HP) (conj (tpl_pos_ill_formed w Pos _ HP) (tpl_pos_ill_formed w Pos _ HP))))).
Qed.

(* ipow<Base>(exponent): exact power whenever it is representable, both branches of the `if constexpr` *)
Lemma ipow_base_ok t : WT t -> forall b e, in_ty t b = true -> in_ty t e = true -> 0 <= e ->
  in_ty t (b ^ e) = true -> ipow_base_m t b e = Ok (ipow_spec b e).
Proof.
  intros HT b e Hb He H0 Hr. unfold ipow_base_m.
  destruct (Z.eqb_spec b 2) as [->|N].
  - now apply ipow2_ok.
  - now apply ipow_ok.
Qed.

(* witnesses *)
Lemma nonvac_tpl :
  set_bit_tpl_m 8 0 1 = Some (Ok 1) /\ assign_bit_tpl_m 8 0 1 false = Some (Ok 0)
  /\ assign_bit_tpl_m 64 63 9223372036854775808 false = Some (Ok 0)
  /\ assign_bit_tpl_m 64 63 0 true = Some (Ok 9223372036854775808)
  /\ reset_bit_tpl_m 16 15 65535 = Some (Ok 32767) /\ flip_bit_tpl_m 32 31 0 = Some (Ok 2147483648)
  /\ test_bit_tpl_m 8 7 128 = Some (Ok true) /\ test_bit_tpl_m 8 8 128 = None
  /\ ipow_base_m i32 3 4 = Ok 81 /\ ipow_base_m i64 2 62 = Ok 4611686018427387904.
Proof. vm_compute. repeat split; reflexivity. Qed.
