(* C14 model: executable mirror of
     include/etl/_bit/{popcount,countl_zero,countl_one,countr_zero,countr_one,bit_width,bit_ceil,
                       bit_floor,has_single_bit,rotl,rotr,set_bit,reset_bit,flip_bit,test_bit,byteswap}.hpp
     include/etl/_numeric/{add_sat,div_sat,saturate_cast,midpoint,gcd,lcm,abs}.hpp
     include/etl/_math/{idiv,ipow,ilog2}.hpp
     include/etl/_utility/{cmp_equal,cmp_not_equal,cmp_less,cmp_greater,cmp_less_equal,cmp_greater_equal,in_range}.hpp
     include/etl/experimental/net/byte_order.hpp
   Parametric in the integer type t = (width, signedness), width in {8,16,32,64} (LP64).
   C++ semantics written out explicitly:
   - integral promotion: operands narrower than int are converted to int before any arithmetic,
     bitwise or shift operator ([promote]);
   - arithmetic in a signed (promoted) type is CHECKED: a result outside the type is
     [UB SignedOverflow]; arithmetic in an unsigned type wraps;
   - conversions (static_cast<T>, T(x), return, compound assignment) are modular (C++20);
   - a shift count outside [0, width of the promoted left operand) is [UB BadShift];
     signed << is modular in C++20;
   - TETL_PRECONDITION is a [Contract] outcome (the checks are enabled in the harness);
   - loops carry fuel; running out of fuel is the distinguished outcome [OutOfFuel].
   Compiler builtins on the run-time paths (__builtin_popcount*, __builtin_bswap*,
   __builtin_add_overflow) are modelled by their documented meaning (section "builtins"). *)
From Tetl Require Import Lib.Base C14.Spec.
Local Open Scope Z_scope.

Notation "'do' x <- a ; b" := (rbind a (fun x => b)) (at level 200, x name, a at level 100, b at level 200).

(** * Machine arithmetic *)

(* 2^w with the common widths tabulated (evaluation speed only; pow2 w = 2^w is proved) *)
Definition pow2 (w : Z) : Z :=
  if w =? 8 then 256 else if w =? 16 then 65536 else if w =? 32 then 4294967296
  else if w =? 64 then 18446744073709551616
  else if w =? 7 then 128 else if w =? 15 then 32768 else if w =? 31 then 2147483648
  else if w =? 63 then 9223372036854775808 else 2 ^ w.

(* 2^w - 1, tabulated likewise *)
Definition mask (w : Z) : Z :=
  if w =? 8 then 255 else if w =? 16 then 65535 else if w =? 32 then 4294967295
  else if w =? 64 then 18446744073709551615 else pow2 w - 1.

(* conversion to a w-bit unsigned type: the value modulo 2^w, computed as x & (2^w - 1)
   (linear in the size of x; wu w x = x mod 2^w is proved in Arith.v) *)
Definition wu (w x : Z) : Z := Z.land x (mask w).
(* conversion to a w-bit signed type *)
Definition ws (w x : Z) : Z :=
  let r := wu w x in if r <? pow2 (w - 1) then r else r - pow2 w.
Definition cast (t : ity) (x : Z) : Z := if sgn t then ws (bits t) x else wu (bits t) x.
Definition tmin (t : ity) : Z := if sgn t then - pow2 (bits t - 1) else 0.     (* numeric_limits<T>::min() *)
Definition tmax (t : ity) : Z := if sgn t then pow2 (bits t - 1) - 1 else pow2 (bits t) - 1.
Definition fits (t : ity) (x : Z) : bool := (tmin t <=? x) && (x <=? tmax t).

Definition U (w : Z) : ity := {| bits := w; sgn := false |}.       (* the unsigned type of width w *)
Definition make_unsigned (t : ity) : ity := U (bits t).

(* integral promotion *)
Definition promote (t : ity) : ity := if bits t <? 32 then i32 else t.

(* usual arithmetic conversions: the common type of a binary operator's operands *)
Definition common (a b : ity) : ity :=
  let pa := promote a in
  let pb := promote b in
  if Bool.eqb (sgn pa) (sgn pb) then (if bits pa <? bits pb then pb else pa)
  else
    let s := if sgn pa then pa else pb in
    let u := if sgn pa then pb else pa in
    if bits s <=? bits u then u else s.

(* common_type_t<M, N> = decay_t<decltype(false ? m : n)>: M itself when M = N, else the
   usual arithmetic conversions *)
Definition ity_eqb (a b : ity) : bool := (bits a =? bits b) && Bool.eqb (sgn a) (sgn b).
Definition common_type (a b : ity) : ity := if ity_eqb a b then a else common a b.

(* the value x of an arithmetic operator (+ - * / unary -) evaluated in type p (already promoted) *)
Definition arith_in (p : ity) (x : Z) : res Z :=
  if sgn p then (if fits p x then Ok x else UB SignedOverflow) else Ok (wu (bits p) x).
(* ... with operands of type t *)
Definition arith (t : ity) (x : Z) : res Z := arith_in (promote t) x.

(* x << k and x >> k, x of type t *)
Definition shl (t : ity) (x k : Z) : res Z :=
  let p := promote t in
  if (0 <=? k) && (k <? bits p) then Ok (cast p (Z.shiftl x k)) else UB BadShift.
Definition shr (t : ity) (x k : Z) : res Z :=
  let p := promote t in
  if (0 <=? k) && (k <? bits p) then Ok (Z.shiftr x k) else UB BadShift.
(* ~x, x of type t *)
Definition bnot (t : ity) (x : Z) : Z :=
  let p := promote t in if sgn p then Z.lnot x else wu (bits p) (Z.lnot x).

(** * builtins (documented meaning, GCC "Other Builtins" / "Integer Overflow Builtins") *)
Definition builtin_popcount (w x : Z) : Z := popcount_spec w x.
Definition builtin_bswap (w x : Z) : Z := byteswap_u_spec (Z.to_nat (w / 8)) x.
(* __builtin_add_overflow(x, y, &sum) with all three of type t: (overflowed?, stored value) *)
Definition builtin_add_overflow (t : ity) (x y : Z) : bool * Z := (negb (fits t (x + y)), cast t (x + y)).

(** * _bit/rotl.hpp, rotr.hpp:  rotl(UInt t, int s) *)
Definition rotl_m (w t s : Z) : res Z :=
  let c := wu 32 s in                       (* static_cast<unsigned>(s) *)
  let r := c mod w in                       (* c % d, both unsigned *)
  if r =? 0 then Ok t
  else
    do a <- shl (U w) t r;
    do b <- shr (U w) t (wu 32 (w - r));
    Ok (wu w (Z.lor a b)).

Definition rotr_m (w t s : Z) : res Z :=
  let c := wu 32 s in
  let r := c mod w in
  if r =? 0 then Ok t
  else
    do a <- shr (U w) t r;
    do b <- shl (U w) t (wu 32 (w - r));
    Ok (wu w (Z.lor a b)).

(** * _bit/set_bit.hpp, reset_bit.hpp, flip_bit.hpp, test_bit.hpp (word, pos : UInt) *)
(* TETL_PRECONDITION(pos < static_cast<UInt>(digits)) then static_cast<UInt>(UInt(1) << pos) *)
Definition bit_mask (w pos : Z) : res Z :=
  if pos <? w then (do m <- shl (U w) 1 pos; Ok (wu w m)) else Contract.

Definition set_bit_m (w word pos : Z) : res Z :=
  do m <- bit_mask w pos; Ok (wu w (Z.lor word m)).

Definition reset_bit_m (w word pos : Z) : res Z :=
  if pos <? w then
    do m <- shl (U w) 1 pos;
    Ok (wu w (Z.land word (wu w (bnot (U w) m))))
  else Contract.

Definition flip_bit_m (w word pos : Z) : res Z :=
  do m <- bit_mask w pos; Ok (wu w (Z.lxor word m)).

Definition test_bit_m (w word pos : Z) : res bool :=
  do m <- bit_mask w pos; Ok (negb (wu w (Z.land word m) =? 0)).

(* set_bit(word, pos, bool value) *)
Definition assign_bit_m (w word pos : Z) (value : bool) : res Z :=
  if pos <? w then
    do m <- shl (U w) 1 pos;
    do v <- shl (U w) (if value then 1 else 0) pos;
    Ok (wu w (Z.lor (Z.land word (wu w (bnot (U w) m))) v))
  else Contract.

(** * the template<size_t Pos> overloads of set_bit.hpp, reset_bit.hpp, flip_bit.hpp, test_bit.hpp:
     set_bit<Pos>(word), set_bit<Pos>(word, value), reset_bit<Pos>(word), flip_bit<Pos>(word), test_bit<Pos>(word).
     static_assert(Pos < numeric_limits<UInt>::digits): an instantiation with Pos >= digits does not compile - [None];
     otherwise the wrapper forwards to the run-time overload with static_cast<UInt>(Pos) (Pos : size_t, any
     non-negative integer here) *)
Definition tpl_pos {A : Type} (w Pos : Z) (k : Z -> res A) : option (res A) :=
  if Pos <? w then Some (k (wu w Pos)) else None.
Definition set_bit_tpl_m (w Pos word : Z) : option (res Z) := tpl_pos w Pos (fun p => set_bit_m w word p).
Definition assign_bit_tpl_m (w Pos word : Z) (value : bool) : option (res Z) :=
  tpl_pos w Pos (fun p => assign_bit_m w word p value).
Definition reset_bit_tpl_m (w Pos word : Z) : option (res Z) := tpl_pos w Pos (fun p => reset_bit_m w word p).
Definition flip_bit_tpl_m (w Pos word : Z) : option (res Z) := tpl_pos w Pos (fun p => flip_bit_m w word p).
Definition test_bit_tpl_m (w Pos word : Z) : option (res bool) := tpl_pos w Pos (fun p => test_bit_m w word p).

(** * _bit/popcount.hpp *)
(* detail::popcount_fallback: for (; val != 0; val &= val - UInt(1)) c++; *)
Fixpoint popcount_loop (fuel : nat) (w val c : Z) : res Z :=
  if val =? 0 then Ok c
  else match fuel with
       | O => OutOfFuel
       | S f =>
           do d <- arith (U w) (val - 1);
           do c' <- arith_in i32 (c + 1);
           popcount_loop f w (wu w (Z.land val d)) c'
       end.
Definition popcount_fallback_m (w val : Z) : res Z := popcount_loop (Z.to_nat w) w val 0.
(* popcount at run time: __builtin_popcount / l / ll *)
Definition popcount_m (w val : Z) : res Z := Ok (builtin_popcount w val).

(** * _bit/countl_zero.hpp, countl_one.hpp: shift-left loops testing the top bit *)
(* UInt(1) << (static_cast<UInt>(totalBits) - UInt(1)) *)
Definition top_mask (w : Z) : res Z :=
  do e <- arith (U w) (w - 1); shl (U w) 1 e.

Fixpoint countl_loop (fuel : nat) (want_set : bool) (w top x r : Z) : res Z :=
  if Bool.eqb (negb (Z.land x top =? 0)) want_set then
    match fuel with
    | O => OutOfFuel
    | S f =>
        do y <- shl (U w) x 1;
        do r' <- arith_in i32 (r + 1);
        countl_loop f want_set w top (wu w y) r'
    end
  else Ok r.

Definition countl_zero_m (w x : Z) : res Z :=
  if x =? 0 then Ok w
  else do top <- top_mask w; countl_loop (Z.to_nat w) false w top x 0.

Definition countl_one_m (w x : Z) : res Z :=
  if x =? tmax (U w) then Ok w
  else do top <- top_mask w; countl_loop (Z.to_nat w) true w top x 0.

(** * _bit/countr_zero.hpp, countr_one.hpp: test_bit loops from bit 0 *)
Fixpoint countr_loop (fuel : nat) (stop_on : bool) (w x r : Z) : res Z :=
  if r =? w then Ok r
  else match fuel with
       | O => OutOfFuel
       | S f =>
           do b <- test_bit_m w x (wu w r);
           if Bool.eqb b stop_on then Ok r
           else do r' <- arith_in i32 (r + 1); countr_loop f stop_on w x r'
       end.
Definition countr_zero_m (w x : Z) : res Z := countr_loop (Z.to_nat w) true w x 0.
Definition countr_one_m (w x : Z) : res Z := countr_loop (Z.to_nat w) false w x 0.

(** * _bit/bit_width.hpp, bit_ceil.hpp, bit_floor.hpp, has_single_bit.hpp *)
Definition bit_width_m (w x : Z) : res Z :=
  do c <- countl_zero_m w x; arith_in i32 (w - c).

Definition bit_ceil_m (w x : Z) : res Z :=
  if x <=? 1 then Ok 1
  else if 32 <=? w then
    (* is_same_v<UInt, decltype(+x)>:  UInt{1U} << bit_width(static_cast<UInt>(x - 1U)) *)
    do xm <- arith (U w) (x - 1);
    do bw <- bit_width_m w xm;
    shl (U w) 1 bw
  else
    (* types subject to promotion:  static_cast<UInt>(1U << (bit_width(static_cast<UInt>(x - 1U)) + o) >> o),
       o = digits(unsigned) - digits(UInt); x - 1U is unsigned arithmetic *)
    let o := 32 - w in
    do bw <- bit_width_m w (wu w (wu 32 (x - 1)));
    do s <- arith_in i32 (bw + o);
    do a <- shl u32 1 s;
    do b <- shr u32 a o;
    Ok (wu w b).

Definition bit_floor_m (w x : Z) : res Z :=
  if x =? 0 then Ok 0
  else
    do bw <- bit_width_m w x;
    do e <- arith (U w) (wu w bw - 1);
    do r <- shl (U w) 1 (wu w e);
    Ok (wu w r).

Definition has_single_bit_m (w x : Z) : res bool :=
  do c <- popcount_m w x; Ok (c =? 1).

(** * _bit/byteswap.hpp *)
(* detail::byteswap_fallback, uint16/32/64 overloads *)
Definition byteswap_fallback_m (w val : Z) : res Z :=
  if w =? 16 then
    do a <- shl (U 16) val 8; do b <- shr (U 16) val 8; Ok (wu 16 (Z.lor a b))
  else if w =? 32 then
    do a <- shl (U 32) val 24;
    do b <- shl (U 32) val 8;
    do c <- shr (U 32) val 8;
    do d <- shr (U 32) val 24;
    Ok (Z.lor (Z.lor (Z.lor a (Z.land b 16711680)) (Z.land c 65280)) d)
  else if w =? 64 then
    do a <- shl (U 64) val 56;
    do b <- shl (U 64) val 40;
    do c <- shl (U 64) val 24;
    do d <- shl (U 64) val 8;
    do e <- shr (U 64) val 8;
    do f <- shr (U 64) val 24;
    do g <- shr (U 64) val 40;
    do h <- shr (U 64) val 56;
    Ok (Z.lor (Z.lor (Z.lor (Z.lor (Z.lor (Z.lor (Z.lor a
          (Z.land b 71776119061217280)) (Z.land c 280375465082880)) (Z.land d 1095216660480))
          (Z.land e 4278190080)) (Z.land f 16711680)) (Z.land g 65280)) h)
  else Ok val.
(* etl::byteswap(Int): static_cast<Int>(__builtin_bswapN(static_cast<uintN_t>(val))) *)
Definition byteswap_m (t : ity) (val : Z) : res Z :=
  if bits t =? 8 then Ok val
  else Ok (cast t (builtin_bswap (bits t) (wu (bits t) val))).

(** * experimental/net/byte_order.hpp: ntoh / hton for uint8, uint16, uint32 *)
Definition ntoh_m (w v : Z) : res Z :=
  if w =? 16 then
    do a <- shl (U 16) v 8; do b <- shr (U 16) v 8; Ok (wu 16 (Z.lor (wu 16 a) (wu 16 b)))
  else if w =? 32 then
    do a <- shl (U 32) v 24;
    do b <- shl (U 32) (Z.land v 65280) 8;
    do c <- shr (U 32) (Z.land v 16711680) 8;
    do d <- shr (U 32) v 24;
    Ok (Z.lor (Z.lor (Z.lor a b) c) d)
  else Ok v.
Definition hton_m (w v : Z) : res Z := ntoh_m w v.

(** * _numeric/add_sat.hpp *)
(* run-time path: __builtin_add_overflow *)
Definition add_sat_m (t : ity) (x y : Z) : res Z :=
  let '(ovf, sum) := builtin_add_overflow t x y in
  if negb ovf then Ok sum
  else if negb (sgn t) then Ok (tmax t)
  else if x >? 0 then Ok (tmax t) else Ok (tmin t).

Definition clamp_m (v lo hi : Z) : Z := if v <? lo then lo else if hi <? v then hi else v.

(* detail::add_sat_fallback *)
Definition add_sat_fallback_m (t : ity) (x y : Z) : res Z :=
  if bits t <? 32 then
    (* sizeof(Int) < sizeof(int) and x + y is int *)
    do s <- arith_in i32 (x + y);
    Ok (cast t (clamp_m s (ws 32 (tmin t)) (ws 32 (tmax t))))
  else if bits t =? 32 then
    if sgn t then
      do s <- arith_in i64 (ws 64 x + ws 64 y);
      Ok (cast t (clamp_m s (ws 64 (tmin t)) (ws 64 (tmax t))))
    else
      do s <- arith_in u64 (wu 64 x + wu 64 y);
      Ok (cast t (clamp_m s (wu 64 (tmin t)) (wu 64 (tmax t))))
  else
    let branch :=
      if x >=? 0 then
        (do d <- arith t (tmax t - x); Ok (if d <? y then Some (tmax t) else None))
      else
        (do d <- arith t (tmin t - x); Ok (if y <? d then Some (tmin t) else None)) in
    do b <- branch;
    match b with
    | Some r => Ok r
    | None => do s <- arith t (x + y); Ok (cast t s)
    end.

(** * _numeric/div_sat.hpp *)
Definition div_sat_m (t : ity) (x y : Z) : res Z :=
  if y =? 0 then Contract                      (* TETL_PRECONDITION(y != 0) *)
  else if sgn t && (x =? tmin t) && (y =? -1) then Ok (tmax t)
  else do q <- arith t (Z.quot x y); Ok (cast t q).

(** * _utility/cmp_*.hpp, in_range.hpp  (t : T, u : U) *)
(* a < b / a == b after the usual arithmetic conversions, a : ta, b : tb *)
Definition lt_conv (ta tb : ity) (a b : Z) : bool :=
  let c := common ta tb in cast c a <? cast c b.
Definition eq_conv (ta tb : ity) (a b : Z) : bool :=
  let c := common ta tb in cast c a =? cast c b.

Definition cmp_less_m (tt tu : ity) (t u : Z) : bool :=
  if Bool.eqb (sgn tt) (sgn tu) then lt_conv tt tu t u
  else if sgn tt then (if lt_conv tt i32 t 0 then true else lt_conv (make_unsigned tt) tu (cast (make_unsigned tt) t) u)
  else (if lt_conv tu i32 u 0 then false else lt_conv tt (make_unsigned tu) t (cast (make_unsigned tu) u)).

Definition cmp_equal_m (tt tu : ity) (t u : Z) : bool :=
  if Bool.eqb (sgn tt) (sgn tu) then eq_conv tt tu t u
  else if sgn tt then (if lt_conv tt i32 t 0 then false else eq_conv (make_unsigned tt) tu (cast (make_unsigned tt) t) u)
  else (if lt_conv tu i32 u 0 then false else eq_conv tt (make_unsigned tu) t (cast (make_unsigned tu) u)).

Definition cmp_not_equal_m (tt tu : ity) (t u : Z) : bool := negb (cmp_equal_m tt tu t u).
Definition cmp_greater_m (tt tu : ity) (t u : Z) : bool := cmp_less_m tu tt u t.
Definition cmp_less_equal_m (tt tu : ity) (t u : Z) : bool := negb (cmp_greater_m tt tu t u).
Definition cmp_greater_equal_m (tt tu : ity) (t u : Z) : bool := negb (cmp_less_m tt tu t u).

(* in_range<R>(T t) *)
Definition in_range_m (r tt : ity) (t : Z) : bool :=
  cmp_greater_equal_m tt r t (tmin r) && cmp_less_equal_m tt r t (tmax r).

(** * _numeric/saturate_cast.hpp: saturate_cast<To>(From x) *)
Definition saturate_cast_m (to from : ity) (x : Z) : res Z :=
  if cmp_less_m from to x (tmin to) then Ok (tmin to)
  else if cmp_greater_m from to x (tmax to) then Ok (tmax to)
  else Ok (cast to x).

(** * _numeric/midpoint.hpp (integer overload) *)
Definition midpoint_m (t : ity) (a b : Z) : res Z :=
  let w := bits t in
  let ut := U w in
  do shift0 <- arith_in i32 (w - 1);                       (* digits - 1 *)
  let shift := wu w shift0 in
  do d0 <- arith ut (wu w b - wu w a);                     (* UInt(b) - UInt(a) *)
  let diff := wu w d0 in
  let sign := wu w (if b <? a then 1 else 0) in            (* static_cast<UInt>(b < a) *)
  do h1 <- arith ut (Z.quot diff 2);                       (* diff / 2 *)
  do h2 <- shl ut sign shift;                              (* sign << shift *)
  do h3 <- arith ut (h1 + h2);
  do h4 <- arith ut (h3 + Z.land sign diff);               (* + (sign & diff) *)
  let half := wu w h4 in
  do r <- arith t (a + cast t half);                       (* a + static_cast<Int>(half) *)
  Ok (cast t r).

(** * _numeric/gcd.hpp, lcm.hpp  (M m, N n) *)
(* detail::gcd_abs<U>(T v), U of width wr *)
Definition gcd_abs_m (wr : Z) (tv : ity) (v : Z) : res Z :=
  if sgn tv && (v <? 0) then
    do d <- arith (U wr) (0 - wu wr v); Ok (wu wr d)
  else Ok (wu wr v).

(* while (b != 0) { r = U(a % b); a = b; b = r; } *)
Fixpoint gcd_loop (fuel : nat) (wr a b : Z) : res Z :=
  if b =? 0 then Ok a
  else match fuel with
       | O => OutOfFuel
       | S f => gcd_loop f wr b (wu wr (Z.rem a b))
       end.

Definition gcd_m (tm tn : ity) (m n : Z) : res Z :=
  let r := common_type tm tn in
  let wr := bits r in
  do a <- gcd_abs_m wr tm m;
  do b <- gcd_abs_m wr tn n;
  do g <- gcd_loop (Z.to_nat (2 * wr)) wr a b;
  Ok (cast r g).

Definition lcm_m (tm tn : ity) (m n : Z) : res Z :=
  let r := common_type tm tn in
  let wr := bits r in
  let ww := bits (common (U wr) u32) in        (* W = common_type_t<U, unsigned> *)
  if (m =? 0) || (n =? 0) then Ok 0
  else
    do a <- gcd_abs_m wr tm m;
    do b <- gcd_abs_m wr tn n;
    do g0 <- gcd_m tm tn m n;
    let g := wu wr g0 in
    if g =? 0 then UB DivByZero
    else
      do q <- arith (U wr) (Z.quot a g);
      Ok (cast r (wu ww (wu ww q * wu ww b))).

(** * _numeric/abs.hpp *)
Definition abs_m (t : ity) (x : Z) : res Z :=
  if sgn t && (x <? 0) then do r <- arith t (- x); Ok (cast t r) else Ok x.

(** * _math/idiv.hpp, ipow.hpp, ilog2.hpp *)
Definition idiv_m (t : ity) (x y : Z) : res (Z * Z) :=
  if y =? 0 then UB DivByZero
  else do q <- arith t (Z.quot x y); Ok (cast t q, cast t (Z.rem x y)).

(* for (i = Int(0); i < exponent; ++i) result *= base; *)
Fixpoint ipow_loop (fuel : nat) (t : ity) (base e i result : Z) : res Z :=
  if i <? e then
    match fuel with
    | O => OutOfFuel
    | S f =>
        do p <- arith t (result * base);
        do i' <- arith t (i + 1);
        ipow_loop f t base e (cast t i') (cast t p)
    end
  else Ok result.
Definition ipow_m (t : ity) (base e : Z) : res Z := ipow_loop (Z.to_nat e) t base e 0 1.

(* ipow<Base>(exponent) with Base == 2: static_cast<Int>(Int(1) << exponent) *)
Definition ipow2_m (t : ity) (e : Z) : res Z :=
  do r <- shl t 1 e; Ok (cast t r).

(* ipow<Base>(exponent), Base a value of type Int: the shift for Base == 2, otherwise forwards to ipow(Base, exponent) *)
Definition ipow_base_m (t : ity) (base e : Z) : res Z :=
  if base =? 2 then ipow2_m t e else ipow_m t base e.

(* for (; x > Int(1); x >>= Int(1)) ++result; *)
Fixpoint ilog2_loop (fuel : nat) (t : ity) (x result : Z) : res Z :=
  if x >? 1 then
    match fuel with
    | O => OutOfFuel
    | S f =>
        do y <- shr t x 1;
        do r' <- arith t (result + 1);
        ilog2_loop f t (cast t y) (cast t r')
    end
  else Ok result.
Definition ilog2_m (t : ity) (x : Z) : res Z := ilog2_loop (Z.to_nat (bits t)) t x 0.
