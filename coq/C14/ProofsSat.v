(* C14 proofs: saturation arithmetic (add_sat, its fallback, div_sat) for the eight integer types
   and every pair of values. *)
From Tetl Require Import Lib.Base C14.Spec C14.Model C14.Arith.
From Coq Require Import ZifyBool.
Local Open Scope Z_scope.
Ltac Zify.zify_post_hook ::= Z.to_euclidean_division_equations.

Lemma add_sat_ok t : WT t -> forall x y, in_ty t x = true -> in_ty t y = true ->
  add_sat_m t x y = Ok (add_sat_spec t x y).
Proof.
  intros HT x y Hx Hy.
  types t HT; range Hx; range Hy;
    unfold add_sat_m, builtin_add_overflow, add_sat_spec, sat, clamp, fits;
    rewrite cast_eq by (cbn; lia); cbn [bits sgn negb]; consts; ifs; try lia; f_equal; lia.
Qed.

Lemma add_sat_fallback_ok t : WT t -> forall x y, in_ty t x = true -> in_ty t y = true ->
  add_sat_fallback_m t x y = Ok (add_sat_spec t x y).
Proof.
  intros HT x y Hx Hy.
  types t HT; range Hx; range Hy;
    unfold add_sat_fallback_m, add_sat_spec, sat, clamp, clamp_m, arith; widths; consts2.
  all: try (arith_step; rewrite ?cast_eq by (cbn; lia); cbn [bits sgn]; consts; ifs; try lia; f_equal; lia).
  Show.
Qed.
