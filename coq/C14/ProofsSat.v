(* C14 proofs: saturation arithmetic (add_sat, its fallback, div_sat) for the eight integer types
   and every pair of values. *)
From Tetl Require Import Lib.Base C14.Spec C14.Model C14.Arith.
From Coq Require Import ZifyBool.
Local Open Scope Z_scope.
Ltac Zify.zify_post_hook ::= Z.to_euclidean_division_equations.

Lemma add_sat_ok t : WT t -> forall x y, in_ty t x = true -> in_ty t y = true ->
  add_sat_m t x y = Ok (add_sat_spec t x y).
Proof.
  intros HT x y Hx Hy.
  types t HT; range Hx; range Hy;
    unfold add_sat_m, builtin_add_overflow, add_sat_spec, sat, clamp, fits;
    rewrite cast_eq by (cbn; lia); cbn [bits sgn negb]; consts; ifs; try lia; f_equal; lia.
Qed.

Lemma add_sat_fallback_ok t : WT t -> forall x y, in_ty t x = true -> in_ty t y = true ->
  add_sat_fallback_m t x y = Ok (add_sat_spec t x y).
Proof.
  intros HT x y Hx Hy.
  types t HT; range Hx; range Hy;
    unfold add_sat_fallback_m, add_sat_spec, sat, clamp, clamp_m, arith; widths; consts2.
  all: smalls; go; fin.
Qed.

(* the two shapes of an integer type: [0, max] or [-max-1, max] *)
Lemma ity_shape t : WT t ->
  (sgn t = false /\ imin t = 0 /\ 0 < imax t) \/ (sgn t = true /\ imin t = - imax t - 1 /\ 0 < imax t).
Proof. intros HT. types t HT; [right|left|right|left|right|left|right|left]; vm_compute; auto. Qed.

(* x / y is a value of the type unless it is min / -1 *)
Lemma quot_in_range t x y : WT t -> in_ty t x = true -> in_ty t y = true -> y <> 0 ->
  ~ (sgn t = true /\ x = imin t /\ y = -1) -> in_ty t (x ÷ y) = true.
Proof.
  intros HT Hx Hy Hy0 Hn. apply in_ty_range in Hx. apply in_ty_range in Hy. apply in_ty_range.
  pose proof (quot_cases x y Hy0) as Hq. set (q := x ÷ y) in *. clearbody q.
  destruct (ity_shape t HT) as [(S & L & H)|(S & L & H)]; rewrite L in *; set (hi := imax t) in *; clearbody hi.
  - lia.
  - assert (~ (x = - hi - 1 /\ y = -1)) by (intros [? ?]; apply Hn; auto). lia.
Qed.

Lemma sat_id t v : in_ty t v = true -> sat t v = v.
Proof. intros H. apply in_ty_range in H. unfold sat, clamp. destruct (Z.ltb_spec v (imin t)), (Z.ltb_spec (imax t) v); lia. Qed.

Lemma div_sat_ok t : WT t -> forall x y, in_ty t x = true -> in_ty t y = true -> y <> 0 ->
  div_sat_m t x y = Ok (div_sat_spec t x y).
Proof.
  intros HT x y Hx Hy Hy0. unfold div_sat_m, div_sat_spec.
  destruct (Z.eqb_spec y 0) as [?|_]; [contradiction|].
  rewrite tmin_imin, tmax_imax.
  destruct (sgn t && (x =? imin t) && (y =? -1)) eqn:E.
  - (* min / -1 saturates *)
    apply andb_true_iff in E. destruct E as [E Ey]. apply andb_true_iff in E. destruct E as [Es Ex].
    apply Z.eqb_eq in Ex, Ey. subst x y. f_equal.
    change (-1) with (- (1)). rewrite Z.quot_opp_r, Z.quot_1_r by lia.
    destruct (ity_shape t HT) as [(S & L & H)|(S & L & H)]; [congruence|].
    unfold sat, clamp. rewrite L. set (hi := imax t) in *.
    destruct (Z.ltb_spec (- (- hi - 1)) (- hi - 1)), (Z.ltb_spec hi (- (- hi - 1))); lia.
  - assert (Hq : in_ty t (x ÷ y) = true).
    { apply quot_in_range; auto. intros (S & X & Y). rewrite S, X, Y, !Z.eqb_refl in E. discriminate. }
    rewrite arith_ok by assumption. cbn [rbind]. rewrite cast_id, sat_id by assumption. reflexivity.
Qed.

(* the precondition y != 0 is checked *)
Lemma div_sat_contract t x : div_sat_m t x 0 = Contract.
Proof. reflexivity. Qed.
