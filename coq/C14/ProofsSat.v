(* C14 proofs: saturation arithmetic (add_sat, its fallback, div_sat) for the eight integer types
   and every pair of values. *)
From Tetl Require Import Lib.Base C14.Spec C14.Model C14.Arith.
From Coq Require Import ZifyBool.
Local Open Scope Z_scope.
Ltac Zify.zify_post_hook ::= Z.to_euclidean_division_equations.

Lemma add_sat_ok t : WT t -> forall x y, in_ty t x = true -> in_ty t y = true ->
  add_sat_m t x y = Ok (add_sat_spec t x y).
Proof.
  intros HT x y Hx Hy.
  types t HT; range Hx; range Hy;
    unfold add_sat_m, builtin_add_overflow, add_sat_spec, sat, clamp, fits;
    rewrite cast_eq by (cbn; lia); cbn [bits sgn negb]; consts; ifs; try lia; f_equal; lia.
Qed.

Lemma add_sat_fallback_ok t : WT t -> forall x y, in_ty t x = true -> in_ty t y = true ->
  add_sat_fallback_m t x y = Ok (add_sat_spec t x y).
Proof.
  intros HT x y Hx Hy.
  types t HT; range Hx; range Hy;
    unfold add_sat_fallback_m, add_sat_spec, sat, clamp, clamp_m, arith; widths; consts2.
  all: smalls; go; fin.
Qed.

Lemma div_sat_ok t : WT t -> forall x y, in_ty t x = true -> in_ty t y = true -> y <> 0 ->
  div_sat_m t x y = Ok (div_sat_spec t x y).
Proof.
  intros HT x y Hx Hy Hy0.
  pose proof (quot_cases x y Hy0) as Hq.
  unfold div_sat_m, div_sat_spec.
  set (q := x ÷ y) in *. clearbody q.
  types t HT; range Hx; range Hy;
    unfold sat, clamp, arith; widths; consts2;
    (destruct (Z.eqb_spec y 0) as [?|_]; [contradiction|]); go; fin.
Qed.

(* the precondition y != 0 is checked *)
Lemma div_sat_contract t x : div_sat_m t x 0 = Contract.
Proof. reflexivity. Qed.
