(* C14: basic facts about the model's machine arithmetic (no property theorems here).
   - the tabulated constants are the powers of two they stand for;
   - wu / ws / cast / tmin / tmax / fits are Base.wrapu / wraps / wrap_ty / imin / imax / in_ty;
   - the eight integer types, and tactics that evaluate type-dependent constants once a type is fixed. *)
From Tetl Require Import Lib.Base C14.Spec C14.Model.
From Coq Require Import ZifyBool.
Local Open Scope Z_scope.
Ltac Zify.zify_post_hook ::= Z.to_euclidean_division_equations.

(** the widths / types of the property *)
Definition W (w : Z) : Prop := w = 8 \/ w = 16 \/ w = 32 \/ w = 64.
Definition WT (t : ity) : Prop := W (bits t).

Lemma W_pos w : W w -> 8 <= w <= 64.
Proof. unfold W. lia. Qed.

Lemma pow2_eq w : pow2 w = 2 ^ w.
Proof.
  unfold pow2.
  repeat match goal with
         | |- context [?a =? ?b] => destruct (Z.eqb_spec a b) as [->|_]; [reflexivity|]
         end.
  reflexivity.
Qed.

Lemma mask_eq w : mask w = 2 ^ w - 1.
Proof.
  unfold mask.
  repeat match goal with
         | |- context [?a =? ?b] => destruct (Z.eqb_spec a b) as [->|_]; [reflexivity|]
         end.
  now rewrite pow2_eq.
Qed.

Lemma wu_eq w x : 0 <= w -> wu w x = x mod 2 ^ w.
Proof.
  intros Hw. unfold wu. rewrite mask_eq.
  replace (2 ^ w - 1) with (Z.ones w) by (rewrite Z.ones_equiv; lia).
  now apply Z.land_ones.
Qed.

Lemma wu_wrapu w x : 0 <= w -> wu w x = wrapu w x.
Proof. intros. unfold wrapu. now apply wu_eq. Qed.

Lemma ws_eq w x : 0 <= w ->
  ws w x = (if x mod 2 ^ w <? 2 ^ (w - 1) then x mod 2 ^ w else x mod 2 ^ w - 2 ^ w).
Proof. intros Hw. unfold ws. now rewrite wu_eq, !pow2_eq by assumption. Qed.

Lemma ws_wraps w x : 0 <= w -> ws w x = wraps w x.
Proof. intros. unfold wraps. now apply ws_eq. Qed.

Lemma cast_wrap_ty t x : 0 <= bits t -> cast t x = wrap_ty t x.
Proof. intros. unfold cast, wrap_ty. destruct (sgn t); [now apply ws_wraps | now apply wu_wrapu]. Qed.

Lemma tmin_imin t : tmin t = imin t.
Proof. unfold tmin, imin, smin. now rewrite pow2_eq. Qed.

Lemma tmax_imax t : tmax t = imax t.
Proof. unfold tmax, imax, smax, umax. now rewrite !pow2_eq. Qed.

Lemma fits_in_ty t x : fits t x = in_ty t x.
Proof. unfold fits, in_ty. now rewrite tmin_imin, tmax_imax. Qed.

(** small values are not changed by a conversion *)
Lemma wu_small w x : 0 <= w -> 0 <= x < 2 ^ w -> wu w x = x.
Proof. intros Hw Hx. rewrite wu_eq by assumption. now apply Z.mod_small. Qed.

Lemma wu_range w x : 0 <= w -> 0 <= wu w x < 2 ^ w.
Proof. intros Hw. rewrite wu_eq by assumption. apply Z.mod_pos_bound. lia. Qed.

Lemma ws_small w x : 0 < w -> - 2 ^ (w - 1) <= x < 2 ^ (w - 1) -> ws w x = x.
Proof.
  intros Hw Hx. rewrite ws_eq by lia.
  assert (E : 2 ^ w = 2 * 2 ^ (w - 1)) by (rewrite <- Z.pow_succ_r by lia; f_equal; lia).
  assert (P : 0 < 2 ^ (w - 1)) by (apply Z.pow_pos_nonneg; lia).
  destruct (Z.ltb_spec (x mod 2 ^ w) (2 ^ (w - 1))) as [L|L].
  - destruct (Z.lt_ge_cases x 0) as [N|N].
    + rewrite <- (Z.mod_unique_pos x (2 ^ w) (-1) (x + 2 ^ w)) in L by lia. lia.
    + now apply Z.mod_small; lia.
  - destruct (Z.lt_ge_cases x 0) as [N|N].
    + rewrite <- (Z.mod_unique_pos x (2 ^ w) (-1) (x + 2 ^ w)) by lia. lia.
    + rewrite Z.mod_small in L by lia. lia.
Qed.

(** evaluation of closed constants after a type / width has been fixed.
    Only syntactically closed terms are evaluated (vm_compute normalises under the branches of a
    stuck match, which explodes on [Z.land x <large literal>] with a variable x). *)
Ltac is_pos_lit p := lazymatch p with xH => idtac | xO ?q => is_pos_lit q | xI ?q => is_pos_lit q end.
Ltac is_z_lit z := lazymatch z with Z0 => idtac | Zpos ?p => is_pos_lit p | Zneg ?p => is_pos_lit p end.
Ltac is_closed_z z :=
  lazymatch z with
  | Z0 => idtac
  | Zpos ?p => is_pos_lit p
  | Zneg ?p => is_pos_lit p
  | Z.add ?a ?b => is_closed_z a; is_closed_z b
  | Z.sub ?a ?b => is_closed_z a; is_closed_z b
  | Z.mul ?a ?b => is_closed_z a; is_closed_z b
  | Z.pow ?a ?b => is_closed_z a; is_closed_z b
  | Z.opp ?a => is_closed_z a
  | Z.modulo ?a ?b => is_closed_z a; is_closed_z b
  | Z.div ?a ?b => is_closed_z a; is_closed_z b
  | Z.quot ?a ?b => is_closed_z a; is_closed_z b
  | Z.rem ?a ?b => is_closed_z a; is_closed_z b
  | pow2 ?a => is_closed_z a
  | mask ?a => is_closed_z a
  end.
Ltac is_closed_ty t :=
  lazymatch t with
  | Build_ity ?b true => is_closed_z b
  | Build_ity ?b false => is_closed_z b
  | i8 => idtac | u8 => idtac | i16 => idtac | u16 => idtac
  | i32 => idtac | u32 => idtac | i64 => idtac | u64 => idtac
  | U ?b => is_closed_z b
  end.
Ltac ev t := let v := eval vm_compute in t in is_z_lit v; change t with v in *.
Ltac consts :=
  repeat match goal with
         | |- context [pow2 ?n] => is_closed_z n; ev (pow2 n)
         | |- context [mask ?n] => is_closed_z n; ev (mask n)
         | |- context [tmin ?t] => is_closed_ty t; ev (tmin t)
         | |- context [tmax ?t] => is_closed_ty t; ev (tmax t)
         | |- context [imin ?t] => is_closed_ty t; ev (imin t)
         | |- context [imax ?t] => is_closed_ty t; ev (imax t)
         | |- context [2 ^ ?n] => is_closed_z n; ev (2 ^ n)
         | H : context [pow2 ?n] |- _ => is_closed_z n; ev (pow2 n)
         | H : context [tmin ?t] |- _ => is_closed_ty t; ev (tmin t)
         | H : context [tmax ?t] |- _ => is_closed_ty t; ev (tmax t)
         | H : context [imin ?t] |- _ => is_closed_ty t; ev (imin t)
         | H : context [imax ?t] |- _ => is_closed_ty t; ev (imax t)
         | H : context [2 ^ ?n] |- _ => is_closed_z n; ev (2 ^ n)
         end.

(* split a type satisfying WT into the eight concrete types *)
Ltac types t HT :=
  let w := fresh "w" in let s := fresh "s" in
  destruct t as [w s]; unfold WT, W in HT; cbn [bits] in HT;
  destruct HT as [ -> | [ -> | [ -> | -> ] ] ]; destruct s; cbn [bits sgn] in *.

Lemma in_ty_range t x : in_ty t x = true <-> imin t <= x <= imax t.
Proof. unfold in_ty. lia. Qed.

(* conversions on the eight types, in mod-form, ready for lia once the constants are evaluated *)
Lemma cast_eq t x : 0 <= bits t ->
  cast t x = if sgn t then (if x mod 2 ^ bits t <? 2 ^ (bits t - 1) then x mod 2 ^ bits t else x mod 2 ^ bits t - 2 ^ bits t)
             else x mod 2 ^ bits t.
Proof. intros. unfold cast. destruct (sgn t); [now apply ws_eq | now apply wu_eq]. Qed.

(** arithmetic in a (promoted) type *)
Lemma arith_in_signed p x : sgn p = true -> imin p <= x <= imax p -> arith_in p x = Ok x.
Proof.
  intros Hs Hr. unfold arith_in. rewrite Hs, fits_in_ty.
  replace (in_ty p x) with true; [reflexivity|]. symmetry. now apply in_ty_range.
Qed.

Lemma arith_in_unsigned p x : sgn p = false -> arith_in p x = Ok (wu (bits p) x).
Proof. intros Hs. unfold arith_in. now rewrite Hs. Qed.

Lemma arith_in_overflow p x : sgn p = true -> ~ (imin p <= x <= imax p) -> arith_in p x = UB SignedOverflow.
Proof.
  intros Hs Hr. unfold arith_in. rewrite Hs, fits_in_ty.
  destruct (in_ty p x) eqn:E; [|reflexivity]. apply in_ty_range in E. contradiction.
Qed.

(* closed conversions are evaluated too *)
Ltac consts2 :=
  consts;
  repeat match goal with
         | |- context [ws ?w ?x] => is_closed_z w; is_closed_z x; ev (ws w x)
         | |- context [wu ?w ?x] => is_closed_z w; is_closed_z x; ev (wu w x)
         | |- context [cast ?t ?x] => is_closed_ty t; is_closed_z x; ev (cast t x)
         end.

(* resolve one arithmetic operation whose operands are known to stay in range / are unsigned *)
Ltac arith_step :=
  match goal with
  | |- context [arith_in ?p ?x] =>
      first [ rewrite (arith_in_signed p x) by (try reflexivity; consts; lia)
            | rewrite (arith_in_unsigned p x) by reflexivity ]
  end; cbn [rbind bits sgn].

Ltac ifs :=
  repeat match goal with
         | |- context [if ?c then _ else _] => let E := fresh "E" in destruct c eqn:E
         end.

Ltac range H := apply in_ty_range in H; consts.

(* reduce promote / comparisons of literal widths *)
Ltac widths :=
  cbn [promote bits sgn negb andb orb i8 u8 i16 u16 i32 u32 i64 u64 U make_unsigned
       Z.ltb Z.leb Z.eqb Z.compare Pos.compare Pos.compare_cont Pos.eqb Bool.eqb] in *.

(* conversions of values already in range are dropped *)
Ltac smalls :=
  repeat first [ rewrite ws_small by (consts; lia) | rewrite wu_small by (consts; lia) ].

(* run the model forward: resolve arithmetic steps, split conditionals *)
Ltac go :=
  repeat first
    [ arith_step; widths
    | match goal with
      | |- context [if ?c then _ else _] => let E := fresh "E" in destruct c eqn:E
      end ];
  cbn [rbind]; widths.

(* finish: conversions to mod-form, constants, remaining conditionals, linear arithmetic *)
Ltac fin :=
  widths; rewrite ?cast_eq, ?ws_eq, ?wu_eq in * by (cbn; lia); widths; consts; ifs;
  try lia; try (f_equal; lia); try (f_equal; f_equal; lia).

(** truncating division: everything the saturation / idiv proofs need, so that [x ÷ y] can be
    treated as an opaque variable by lia *)
Lemma quot_cases x y : y <> 0 ->
  (y = 1 -> x ÷ y = x) /\ (y = -1 -> x ÷ y = - x)
  /\ (y <> 1 -> y <> -1 -> 2 * Z.abs (x ÷ y) <= Z.abs x)
  /\ (Z.abs (x ÷ y) <= Z.abs x)
  /\ (0 <= x -> 0 < y -> 0 <= x ÷ y) /\ (0 <= x -> y < 0 -> x ÷ y <= 0)
  /\ (x <= 0 -> 0 < y -> x ÷ y <= 0) /\ (x <= 0 -> y < 0 -> 0 <= x ÷ y).
Proof.
  intros Hy.
  assert (Hb : 1 <= Z.abs y) by lia.
  assert (Ha : 0 <= Z.abs x) by lia.
  assert (Hq : 0 <= Z.abs x / Z.abs y) by (apply Z.div_pos; lia).
  assert (Hm : Z.abs y * (Z.abs x / Z.abs y) <= Z.abs x) by (apply Z.mul_div_le; lia).
  assert (H1q : Z.abs x / Z.abs y <= Z.abs x) by nia.
  assert (H2q : 2 <= Z.abs y -> 2 * (Z.abs x / Z.abs y) <= Z.abs x) by nia.
  assert (E : x ÷ y = Z.sgn x * Z.sgn y * (Z.abs x / Z.abs y)) by (now apply Z.quot_div).
  repeat split.
  - intros ->. apply Z.quot_1_r.
  - intros ->. change (-1) with (- (1)). rewrite Z.quot_opp_r by lia. now rewrite Z.quot_1_r.
  - intros. assert (2 <= Z.abs y) by lia. rewrite E.
    destruct (Z.sgn_spec x) as [[? ->]|[[? ->]|[? ->]]], (Z.sgn_spec y) as [[? ->]|[[? ->]|[? ->]]]; lia.
  - rewrite E.
    destruct (Z.sgn_spec x) as [[? ->]|[[? ->]|[? ->]]], (Z.sgn_spec y) as [[? ->]|[[? ->]|[? ->]]]; lia.
  - intros. rewrite E.
    destruct (Z.sgn_spec x) as [[? ->]|[[? ->]|[? ->]]], (Z.sgn_spec y) as [[? ->]|[[? ->]|[? ->]]]; lia.
  - intros. rewrite E.
    destruct (Z.sgn_spec x) as [[? ->]|[[? ->]|[? ->]]], (Z.sgn_spec y) as [[? ->]|[[? ->]|[? ->]]]; lia.
  - intros. rewrite E.
    destruct (Z.sgn_spec x) as [[? ->]|[[? ->]|[? ->]]], (Z.sgn_spec y) as [[? ->]|[[? ->]|[? ->]]]; lia.
  - intros. rewrite E.
    destruct (Z.sgn_spec x) as [[? ->]|[[? ->]|[? ->]]], (Z.sgn_spec y) as [[? ->]|[[? ->]|[? ->]]]; lia.
Qed.

(* closed shifts *)
Ltac ev_res t :=
  let v := eval vm_compute in t in
  lazymatch v with
  | Ok ?z => is_z_lit z
  | UB _ => idtac
  | Contract => idtac
  end; change t with v in *.
Ltac consts3 :=
  consts2;
  repeat match goal with
         | |- context [shl ?t ?x ?k] => is_closed_ty t; is_closed_z x; is_closed_z k; ev_res (shl t x k)
         | |- context [shr ?t ?x ?k] => is_closed_ty t; is_closed_z x; is_closed_z k; ev_res (shr t x k)
         end.

Lemma land_1_l d : Z.land 1 d = d mod 2.
Proof. rewrite Z.land_comm. change 1 with (Z.ones 1). now rewrite Z.land_ones by lia. Qed.

(* the general forward runner: evaluate closed parts, put conversions in mod-form, resolve one
   arithmetic step or split one conditional, repeat *)
Ltac run :=
  repeat (cbn [rbind]; consts3;
          rewrite ?wu_eq, ?ws_eq, ?cast_eq, ?land_1_l, ?Z.land_0_l by (cbn; lia);
          widths; consts;
          first [ arith_step; widths
                | match goal with
                  | |- context [if ?c then _ else _] => let E := fresh "E" in destruct c eqn:E
                  end ]);
  cbn [rbind]; widths.

(* a conversion to a type that contains the value does not change it *)
Lemma cast_id t x : WT t -> in_ty t x = true -> cast t x = x.
Proof.
  intros HT Hx. types t HT; range Hx; unfold cast; cbn [sgn bits];
    first [apply ws_small | apply wu_small]; consts; lia.
Qed.

(* an arithmetic result that is a value of the operand type is computed exactly *)
Lemma arith_ok t x : WT t -> in_ty t x = true -> arith t x = Ok x.
Proof.
  intros HT Hx. types t HT; range Hx; unfold arith; widths;
    first [ apply arith_in_signed; [reflexivity | consts; lia]
          | rewrite arith_in_unsigned by reflexivity; cbn [bits]; f_equal; apply wu_small; consts; lia ].
Qed.

Lemma in_ty_0 t : WT t -> in_ty t 0 = true.
Proof. intros HT. types t HT; reflexivity. Qed.
Lemma in_ty_1 t : WT t -> in_ty t 1 = true.
Proof. intros HT. types t HT; reflexivity. Qed.

Ltac wcases H := unfold WT, W in H; destruct H as [ H | [ H | [ H | H ] ] ]; try rewrite H in *.
