(* C14 specification: what <bit>, <numeric>, <utility> (and exact integer arithmetic) say,
   written on mathematical integers.  Nothing here mentions promotions, wrap-around,
   shifts-and-masks or loops of the code.  A w-bit unsigned value is a Z in [0, 2^w);
   an integer type is Base.ity (width, signedness) with range imin .. imax. *)
From Tetl Require Import Lib.Base.
Local Open Scope Z_scope.

(** * <bit> *)

(* popcount: the number of positions i in [0, w) whose bit is set *)
Definition popcount_spec (w x : Z) : Z :=
  Z.of_nat (length (filter (Z.testbit x) (zrange_from 0 (Z.to_nat w)))).

(* number of consecutive bits equal to b, starting at bit i and going down (n bits remain) *)
Fixpoint run_down (b : bool) (n : nat) (i x : Z) : Z :=
  match n with
  | O => 0
  | S k => if Bool.eqb (Z.testbit x i) b then 1 + run_down b k (i - 1) x else 0
  end.

(* ... starting at bit i and going up *)
Fixpoint run_up (b : bool) (n : nat) (i x : Z) : Z :=
  match n with
  | O => 0
  | S k => if Bool.eqb (Z.testbit x i) b then 1 + run_up b k (i + 1) x else 0
  end.

(* countl_zero / countl_one: consecutive 0 / 1 bits starting from the most significant bit *)
Definition countl_zero_spec (w x : Z) : Z := run_down false (Z.to_nat w) (w - 1) x.
Definition countl_one_spec (w x : Z) : Z := run_down true (Z.to_nat w) (w - 1) x.
(* countr_zero / countr_one: ... starting from the least significant bit *)
Definition countr_zero_spec (w x : Z) : Z := run_up false (Z.to_nat w) 0 x.
Definition countr_one_spec (w x : Z) : Z := run_up true (Z.to_nat w) 0 x.

(* bit_width: 0 for 0, otherwise 1 + floor(log2 x) *)
Definition bit_width_spec (x : Z) : Z := if x =? 0 then 0 else Z.log2 x + 1.
(* bit_floor: 0 for 0, otherwise the largest power of two not greater than x *)
Definition bit_floor_spec (x : Z) : Z := if x =? 0 then 0 else 2 ^ Z.log2 x.
(* bit_ceil: the smallest power of two not smaller than x (Z.log2_up 0 = Z.log2_up 1 = 0);
   the standard requires it to be representable, i.e. x <= 2^(w-1) *)
Definition bit_ceil_spec (x : Z) : Z := 2 ^ Z.log2_up x.
Definition bit_ceil_dom (w x : Z) : bool := x <=? 2 ^ (w - 1).
(* has_single_bit: x is a power of two *)
Definition has_single_bit_spec (x : Z) : bool := (0 <? x) && (x =? 2 ^ Z.log2 x).

(* rotl by s positions, s any integer: the count is taken modulo the width *)
Definition rotl_spec (w x s : Z) : Z :=
  let r := s mod w in (x * 2 ^ r) mod 2 ^ w + x / 2 ^ (w - r).
Definition rotr_spec (w x s : Z) : Z := rotl_spec w x (- s).

(* single-bit updates *)
Definition test_bit_spec (x p : Z) : bool := Z.testbit x p.
Definition set_bit_spec (x p : Z) : Z := if Z.testbit x p then x else x + 2 ^ p.
Definition reset_bit_spec (x p : Z) : Z := if Z.testbit x p then x - 2 ^ p else x.
Definition flip_bit_spec (x p : Z) : Z := if Z.testbit x p then x - 2 ^ p else x + 2 ^ p.
Definition assign_bit_spec (x p : Z) (v : bool) : Z := if v then set_bit_spec x p else reset_bit_spec x p.

(* byteswap of an n-byte value: the bytes in reverse order *)
Fixpoint bytes_of (n : nat) (x : Z) : list Z :=     (* little endian: least significant first *)
  match n with O => [] | S k => x mod 256 :: bytes_of k (x / 256) end.
Fixpoint of_bytes (l : list Z) : Z :=
  match l with [] => 0 | b :: r => b + 256 * of_bytes r end.
Definition byteswap_u_spec (nbytes : nat) (x : Z) : Z := of_bytes (rev (bytes_of nbytes x)).
(* for a signed type: the object representation is reversed; value = two's complement reading *)
Definition byteswap_spec (t : ity) (x : Z) : Z :=
  wrap_ty t (byteswap_u_spec (Z.to_nat (bits t / 8)) (wrapu (bits t) x)).
(* network byte order is big endian; the host is little endian (platform assumption) *)
Definition hton_spec (w x : Z) : Z := byteswap_u_spec (Z.to_nat (w / 8)) x.

(** * <numeric> saturation arithmetic, midpoint, gcd, lcm, abs *)
Definition clamp (lo hi v : Z) : Z := if v <? lo then lo else if hi <? v then hi else v.
Definition sat (t : ity) (v : Z) : Z := clamp (imin t) (imax t) v.

Definition add_sat_spec (t : ity) (x y : Z) : Z := sat t (x + y).
Definition div_sat_spec (t : ity) (x y : Z) : Z := sat t (Z.quot x y).      (* y <> 0 *)
Definition saturate_cast_spec (to : ity) (x : Z) : Z := sat to x.
(* midpoint: half of the way from a to b, rounded towards a *)
Definition midpoint_spec (a b : Z) : Z := a + Z.quot (b - a) 2.
Definition gcd_spec (m n : Z) : Z := Z.gcd m n.          (* of |m| and |n|; non-negative; gcd 0 0 = 0 *)
Definition lcm_spec (m n : Z) : Z := Z.lcm m n.          (* of |m| and |n|; 0 if either is 0 *)
Definition abs_spec (x : Z) : Z := Z.abs x.

(** * _math: idiv, ipow, ilog2 *)
Definition idiv_spec (x y : Z) : Z * Z := (Z.quot x y, Z.rem x y).   (* y <> 0; truncating *)
Definition ipow_spec (b e : Z) : Z := b ^ e.                         (* e >= 0 *)
Definition ilog2_spec (x : Z) : Z := Z.log2 x.                       (* x >= 1 *)

(** * <utility> safe integer comparison: the mathematical comparison of the two values *)
Definition cmp_equal_spec (x y : Z) : bool := x =? y.
Definition cmp_not_equal_spec (x y : Z) : bool := negb (x =? y).
Definition cmp_less_spec (x y : Z) : bool := x <? y.
Definition cmp_greater_spec (x y : Z) : bool := y <? x.
Definition cmp_less_equal_spec (x y : Z) : bool := x <=? y.
Definition cmp_greater_equal_spec (x y : Z) : bool := y <=? x.
Definition in_range_spec (r : ity) (x : Z) : bool := in_ty r x.
