(* C14: the specification read back — facts that tie the definitions of Spec.v to the wording of the
   standard ([bit.pow.two], [bit.rotate], [bit.byteswap], [numeric.ops.midpoint]) independently of the
   code and of the model: a misreading of the standard in Spec.v would have to survive these AND the
   comparison with libstdc++ on every run. *)
From Tetl Require Import Lib.Base C14.Spec C14.Bits.
From Coq Require Import ZifyBool.
Local Open Scope Z_scope.
Ltac Zify.zify_post_hook ::= Z.to_euclidean_division_equations.

(** bit_ceil: the smallest power of two that is not smaller than x *)
Lemma bit_ceil_least x : 0 <= x ->
  (exists k, 0 <= k /\ bit_ceil_spec x = 2 ^ k) /\ x <= bit_ceil_spec x
  /\ (forall k, 0 <= k -> x <= 2 ^ k -> bit_ceil_spec x <= 2 ^ k).
Proof.
  intros Hx. unfold bit_ceil_spec. pose proof (Z.log2_up_nonneg x) as Hn. split; [|split].
  - exists (Z.log2_up x). split; [lia | reflexivity].
  - destruct (Z.le_gt_cases x 1) as [L|L].
    + assert (0 < 2 ^ Z.log2_up x) by (apply pow2_pos; lia). lia.
    + pose proof (Z.log2_up_spec x L). lia.
  - intros k Hk Hle. apply Z.pow_le_mono_r; [lia|].
    destruct (Z.le_gt_cases x 0) as [L|L].
    + rewrite Z.log2_up_nonpos by lia. lia.
    + apply Z.log2_up_le_pow2; lia.
Qed.

(** bit_floor: the largest power of two that is not greater than x; bit_width: 1 + floor(log2 x) *)
Lemma bit_floor_greatest x : 0 < x ->
  (exists k, 0 <= k /\ bit_floor_spec x = 2 ^ k) /\ bit_floor_spec x <= x < 2 * bit_floor_spec x.
Proof.
  intros Hx. unfold bit_floor_spec. replace (x =? 0) with false by lia.
  pose proof (Z.log2_spec x Hx) as S. pose proof (Z.log2_nonneg x).
  rewrite Z.pow_succ_r in S by lia. split; [exists (Z.log2 x); split; [lia | reflexivity] | lia].
Qed.

Lemma bit_width_least x : 0 <= x ->
  0 <= bit_width_spec x /\ x < 2 ^ bit_width_spec x /\ (0 < x -> 2 ^ (bit_width_spec x - 1) <= x).
Proof.
  intros Hx. unfold bit_width_spec. destruct (Z.eqb_spec x 0) as [->|N].
  - cbn. repeat split; lia.
  - pose proof (Z.log2_spec x ltac:(lia)) as S. pose proof (Z.log2_nonneg x).
    replace (Z.log2 x + 1 - 1) with (Z.log2 x) by lia. replace (Z.log2 x + 1) with (Z.succ (Z.log2 x)) by lia.
    repeat split; lia.
Qed.

(** rotations: rotl stays in range and rotr by the same count undoes it *)
Lemma rotl_spec_range w x s : 0 < w -> 0 <= x < 2 ^ w -> 0 <= rotl_spec w x s < 2 ^ w.
Proof.
  intros Hw Hx. unfold rotl_spec.
  assert (Hr : 0 <= s mod w < w) by (apply Z.mod_pos_bound; lia).
  set (r := s mod w) in *.
  assert (Pk : 0 < 2 ^ (w - r)) by (apply pow2_pos; lia).
  assert (P2 : 0 < 2 ^ r) by (apply pow2_pos; lia).
  assert (E : 2 ^ w = 2 ^ (w - r) * 2 ^ r) by (rewrite <- Z.pow_add_r by lia; f_equal; lia).
  assert (Hb : 0 <= x / 2 ^ (w - r) < 2 ^ r).
  { split; [apply Z.div_pos; lia|]. apply Z.div_lt_upper_bound; lia. }
  assert (A : (x * 2 ^ r) mod 2 ^ w = (x mod 2 ^ (w - r)) * 2 ^ r) by (rewrite E; apply Z.mul_mod_distr_r; lia).
  rewrite A. pose proof (Z.mod_pos_bound x (2 ^ (w - r)) Pk). nia.
Qed.

(** midpoint: between a and b, as close to the middle as an integer can be, the odd half going to a's side *)
Lemma midpoint_between a b :
  (a <= b -> a <= midpoint_spec a b <= b /\ 0 <= (b - midpoint_spec a b) - (midpoint_spec a b - a) <= 1)
  /\ (b <= a -> b <= midpoint_spec a b <= a /\ 0 <= (midpoint_spec a b - b) - (a - midpoint_spec a b) <= 1).
Proof.
  unfold midpoint_spec. split; intros L.
  - rewrite Z.quot_div_nonneg by lia. lia.
  - replace (b - a) with (- (a - b)) by lia. rewrite Z.quot_opp_l, Z.quot_div_nonneg by lia. lia.
Qed.

(** byteswap of an n-byte value: an involution on [0, 256^n) *)
Lemma bytes_of_length n x : length (bytes_of n x) = n.
Proof. revert x. induction n; intros; cbn [bytes_of length]; [reflexivity | now rewrite IHn]. Qed.

Lemma bytes_of_range n : forall x b, In b (bytes_of n x) -> 0 <= b < 256.
Proof.
  induction n as [|n IH]; intros x b H; cbn [bytes_of In] in H; [contradiction|].
  destruct H as [<- | H]; [lia | eapply IH; exact H].
Qed.

Lemma of_bytes_app l1 l2 : of_bytes (l1 ++ l2) = of_bytes l1 + 256 ^ Z.of_nat (length l1) * of_bytes l2.
Proof.
  induction l1 as [|b l1 IH]; cbn [app of_bytes length]; [change (256 ^ Z.of_nat 0) with 1; lia|].
  rewrite IH, Nat2Z.inj_succ, Z.pow_succ_r by lia. ring.
Qed.

Lemma of_bytes_range l : (forall b, In b l -> 0 <= b < 256) -> 0 <= of_bytes l < 256 ^ Z.of_nat (length l).
Proof.
  induction l as [|b l IH]; intros H; cbn [of_bytes length]; [change (256 ^ Z.of_nat 0) with 1; lia|].
  rewrite Nat2Z.inj_succ, Z.pow_succ_r by lia.
  assert (Hb : 0 <= b < 256) by (apply H; left; reflexivity).
  assert (Hl : 0 <= of_bytes l < 256 ^ Z.of_nat (length l)) by (apply IH; intros; apply H; right; assumption).
  nia.
Qed.

Lemma bytes_of_of_bytes l : (forall b, In b l -> 0 <= b < 256) -> bytes_of (length l) (of_bytes l) = l.
Proof.
  induction l as [|b l IH]; intros H; [reflexivity|]. cbn [length bytes_of of_bytes].
  assert (Hb : 0 <= b < 256) by (apply H; left; reflexivity).
  f_equal; [lia|]. replace ((b + 256 * of_bytes l) / 256) with (of_bytes l) by lia.
  apply IH. intros; apply H; right; assumption.
Qed.

Lemma of_bytes_bytes_of n : forall x, 0 <= x < 256 ^ Z.of_nat n -> of_bytes (bytes_of n x) = x.
Proof.
  induction n as [|n IH]; intros x Hx.
  - change (256 ^ Z.of_nat 0) with 1 in Hx. cbn. lia.
  - rewrite Nat2Z.inj_succ, Z.pow_succ_r in Hx by lia. cbn [bytes_of of_bytes]. rewrite IH by lia. lia.
Qed.

Lemma byteswap_involutive n x : 0 <= x < 256 ^ Z.of_nat n ->
  0 <= byteswap_u_spec n x < 256 ^ Z.of_nat n /\ byteswap_u_spec n (byteswap_u_spec n x) = x.
Proof.
  intros Hx. unfold byteswap_u_spec.
  assert (R : forall b, In b (rev (bytes_of n x)) -> 0 <= b < 256).
  { intros b Hb. apply in_rev in Hb. eapply bytes_of_range; exact Hb. }
  assert (L : length (rev (bytes_of n x)) = n) by (rewrite rev_length; apply bytes_of_length).
  split.
  - pose proof (of_bytes_range _ R) as H. now rewrite L in H.
  - rewrite <- L at 1. rewrite bytes_of_of_bytes by exact R. rewrite rev_involutive. now apply of_bytes_bytes_of.
Qed.

(** countr_zero: the number of trailing zero bits = the largest k with 2^k | x (w for x = 0) *)
Lemma run_up_stop b x : forall (m n : nat) i, (m < n)%nat ->
  (forall j, i <= j < i + Z.of_nat m -> Z.testbit x j = b) -> Z.testbit x (i + Z.of_nat m) = negb b ->
  run_up b n i x = Z.of_nat m.
Proof.
  induction m as [|m IH]; intros n i Hn Hall Hstop.
  - destruct n as [|n]; [lia|]. cbn [run_up]. replace (i + Z.of_nat 0) with i in Hstop by lia.
    rewrite Hstop. destruct b; reflexivity.
  - destruct n as [|n]; [lia|]. cbn [run_up]. rewrite (Hall i) by lia.
    rewrite Bool.eqb_reflx. rewrite (IH n (i + 1)); [lia | lia | |].
    + intros j Hj. apply Hall. lia.
    + replace (i + 1 + Z.of_nat m) with (i + Z.of_nat (S m)) by lia. exact Hstop.
Qed.

Lemma countr_zero_divides w x k : 0 <= k < w -> 0 <= x ->
  Z.testbit x k = true -> (forall j, 0 <= j < k -> Z.testbit x j = false) ->
  countr_zero_spec w x = k /\ x mod 2 ^ k = 0.
Proof.
  intros Hk Hx Hset Hlow. split.
  - unfold countr_zero_spec. rewrite <- (Z2Nat.id k) at 1 by lia.
    apply run_up_stop; [lia | |].
    + intros j Hj. apply Hlow. lia.
    + rewrite Z.add_0_l, Z2Nat.id by lia. exact Hset.
  - apply Z.bits_inj'. intros i Hi. rewrite Z.bits_0, Z.testbit_mod_pow2 by lia.
    destruct (Z.ltb_spec i k); [apply Hlow; lia | reflexivity].
Qed.

(* all of it, as Properties.v states it (second half of C14_domain_and_spec) *)
Lemma spec_facts :
  (forall x, 0 <= x ->
     (exists k, 0 <= k /\ bit_ceil_spec x = 2 ^ k) /\ x <= bit_ceil_spec x
     /\ (forall k, 0 <= k -> x <= 2 ^ k -> bit_ceil_spec x <= 2 ^ k))
  /\ (forall x, 0 < x -> (exists k, 0 <= k /\ bit_floor_spec x = 2 ^ k) /\ bit_floor_spec x <= x < 2 * bit_floor_spec x)
  /\ (forall x, 0 <= x -> 0 <= bit_width_spec x /\ x < 2 ^ bit_width_spec x /\ (0 < x -> 2 ^ (bit_width_spec x - 1) <= x))
  /\ (forall w x s, 0 < w -> 0 <= x < 2 ^ w -> 0 <= rotl_spec w x s < 2 ^ w)
  /\ (forall a b,
        (a <= b -> a <= midpoint_spec a b <= b /\ 0 <= (b - midpoint_spec a b) - (midpoint_spec a b - a) <= 1)
        /\ (b <= a -> b <= midpoint_spec a b <= a /\ 0 <= (midpoint_spec a b - b) - (a - midpoint_spec a b) <= 1))
  /\ (forall n x, 0 <= x < 256 ^ Z.of_nat n ->
        0 <= byteswap_u_spec n x < 256 ^ Z.of_nat n /\ byteswap_u_spec n (byteswap_u_spec n x) = x)
  /\ (forall w x k, 0 <= k < w -> 0 <= x -> Z.testbit x k = true -> (forall j, 0 <= j < k -> Z.testbit x j = false) ->
        countr_zero_spec w x = k /\ x mod 2 ^ k = 0).
Proof.
  exact (conj bit_ceil_least (conj bit_floor_greatest (conj bit_width_least (conj rotl_spec_range
        (conj midpoint_between (conj byteswap_involutive countr_zero_divides)))))).
Qed.
