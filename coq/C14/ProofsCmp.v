(* C14 proofs: cmp_equal ... cmp_greater_equal, in_range, saturate_cast for all 64 pairs of the
   eight integer types and all values. *)
From Tetl Require Import Lib.Base C14.Spec C14.Model C14.Arith.
From Coq Require Import ZifyBool.
Local Open Scope Z_scope.
Ltac Zify.zify_post_hook ::= Z.to_euclidean_division_equations.

(* the usual arithmetic conversions keep both values when the operands have the same signedness
   or are both non-negative *)
Lemma common_cast ta tb a b : WT ta -> WT tb -> in_ty ta a = true -> in_ty tb b = true ->
  (sgn ta = sgn tb \/ (0 <= a /\ 0 <= b)) ->
  cast (common ta tb) a = a /\ cast (common ta tb) b = b.
Proof.
  intros HA HB Ha Hb Hs.
  types ta HA; types tb HB; range Ha; range Hb; cbn [sgn] in Hs;
    match goal with
    | |- context [common ?x ?y] => let c := eval vm_compute in (common x y) in change (common x y) with c
    end;
    unfold cast; cbn [sgn bits];
    (split; first [apply ws_small | apply wu_small]; consts; lia).
Qed.

Lemma lt_conv_ok ta tb a b : WT ta -> WT tb -> in_ty ta a = true -> in_ty tb b = true ->
  (sgn ta = sgn tb \/ (0 <= a /\ 0 <= b)) -> lt_conv ta tb a b = (a <? b).
Proof.
  intros HA HB Ha Hb Hs. unfold lt_conv.
  destruct (common_cast ta tb a b HA HB Ha Hb Hs) as [-> ->]. reflexivity.
Qed.

Lemma eq_conv_ok ta tb a b : WT ta -> WT tb -> in_ty ta a = true -> in_ty tb b = true ->
  (sgn ta = sgn tb \/ (0 <= a /\ 0 <= b)) -> eq_conv ta tb a b = (a =? b).
Proof.
  intros HA HB Ha Hb Hs. unfold eq_conv.
  destruct (common_cast ta tb a b HA HB Ha Hb Hs) as [-> ->]. reflexivity.
Qed.

Lemma WT_i32 : WT i32. Proof. unfold WT, W. cbn. lia. Qed.
Lemma WT_unsigned t : WT t -> WT (make_unsigned t). Proof. exact (fun H => H). Qed.

Lemma in_ty_i32_0 : in_ty i32 0 = true. Proof. reflexivity. Qed.

(* a non-negative value of a signed type is a value of the corresponding unsigned type *)
Lemma nonneg_unsigned t x : WT t -> sgn t = true -> in_ty t x = true -> 0 <= x ->
  in_ty (make_unsigned t) x = true /\ cast (make_unsigned t) x = x.
Proof.
  intros HT Hs Hx H0.
  assert (I : in_ty (make_unsigned t) x = true).
  { types t HT; try discriminate Hs; range Hx; apply in_ty_range; unfold make_unsigned; cbn [bits]; consts; lia. }
  split; [exact I|]. apply cast_id; [now apply WT_unsigned|exact I].
Qed.

Lemma unsigned_nonneg t x : sgn t = false -> in_ty t x = true -> 0 <= x.
Proof. intros Hs Hx. apply in_ty_range in Hx. unfold imin in Hx. rewrite Hs in Hx. lia. Qed.

Lemma cmp_less_ok tt tu t u : WT tt -> WT tu -> in_ty tt t = true -> in_ty tu u = true ->
  cmp_less_m tt tu t u = cmp_less_spec t u.
Proof.
  intros HT HU Ht Hu. unfold cmp_less_m, cmp_less_spec.
  destruct (sgn tt) eqn:ST, (sgn tu) eqn:SU; cbn [Bool.eqb].
  - apply lt_conv_ok; auto; left; congruence.
  - rewrite (lt_conv_ok tt i32 t 0 HT WT_i32 Ht in_ty_i32_0) by (left; rewrite ST; reflexivity).
    pose proof (unsigned_nonneg tu u SU Hu) as U0.
    destruct (Z.ltb_spec t 0) as [N|N]; [lia|].
    destruct (nonneg_unsigned tt t HT ST Ht N) as [I ->].
    apply lt_conv_ok; auto; right; lia.
  - rewrite (lt_conv_ok tu i32 u 0 HU WT_i32 Hu in_ty_i32_0) by (left; rewrite SU; reflexivity).
    pose proof (unsigned_nonneg tt t ST Ht) as T0.
    destruct (Z.ltb_spec u 0) as [N|N]; [lia|].
    destruct (nonneg_unsigned tu u HU SU Hu N) as [I ->].
    apply lt_conv_ok; auto; right; lia.
  - apply lt_conv_ok; auto; left; congruence.
Qed.

Lemma cmp_equal_ok tt tu t u : WT tt -> WT tu -> in_ty tt t = true -> in_ty tu u = true ->
  cmp_equal_m tt tu t u = cmp_equal_spec t u.
Proof.
  intros HT HU Ht Hu. unfold cmp_equal_m, cmp_equal_spec.
  destruct (sgn tt) eqn:ST, (sgn tu) eqn:SU; cbn [Bool.eqb].
  - apply eq_conv_ok; auto; left; congruence.
  - rewrite (lt_conv_ok tt i32 t 0 HT WT_i32 Ht in_ty_i32_0) by (left; rewrite ST; reflexivity).
    pose proof (unsigned_nonneg tu u SU Hu) as U0.
    destruct (Z.ltb_spec t 0) as [N|N]; [lia|].
    destruct (nonneg_unsigned tt t HT ST Ht N) as [I ->].
    apply eq_conv_ok; auto; right; lia.
  - rewrite (lt_conv_ok tu i32 u 0 HU WT_i32 Hu in_ty_i32_0) by (left; rewrite SU; reflexivity).
    pose proof (unsigned_nonneg tt t ST Ht) as T0.
    destruct (Z.ltb_spec u 0) as [N|N]; [lia|].
    destruct (nonneg_unsigned tu u HU SU Hu N) as [I ->].
    apply eq_conv_ok; auto; right; lia.
  - apply eq_conv_ok; auto; left; congruence.
Qed.

Lemma cmp_not_equal_ok tt tu t u : WT tt -> WT tu -> in_ty tt t = true -> in_ty tu u = true ->
  cmp_not_equal_m tt tu t u = cmp_not_equal_spec t u.
Proof. intros. unfold cmp_not_equal_m, cmp_not_equal_spec. now rewrite cmp_equal_ok. Qed.

Lemma cmp_greater_ok tt tu t u : WT tt -> WT tu -> in_ty tt t = true -> in_ty tu u = true ->
  cmp_greater_m tt tu t u = cmp_greater_spec t u.
Proof. intros. unfold cmp_greater_m, cmp_greater_spec. now rewrite cmp_less_ok. Qed.

Lemma cmp_less_equal_ok tt tu t u : WT tt -> WT tu -> in_ty tt t = true -> in_ty tu u = true ->
  cmp_less_equal_m tt tu t u = cmp_less_equal_spec t u.
Proof.
  intros. unfold cmp_less_equal_m, cmp_less_equal_spec. rewrite cmp_greater_ok by assumption.
  unfold cmp_greater_spec. lia.
Qed.

Lemma cmp_greater_equal_ok tt tu t u : WT tt -> WT tu -> in_ty tt t = true -> in_ty tu u = true ->
  cmp_greater_equal_m tt tu t u = cmp_greater_equal_spec t u.
Proof.
  intros. unfold cmp_greater_equal_m, cmp_greater_equal_spec. rewrite cmp_less_ok by assumption.
  unfold cmp_less_spec. lia.
Qed.

Lemma in_ty_tmin r : WT r -> in_ty r (tmin r) = true.
Proof. intros HR. types r HR; reflexivity. Qed.
Lemma in_ty_tmax r : WT r -> in_ty r (tmax r) = true.
Proof. intros HR. types r HR; reflexivity. Qed.

Lemma in_range_ok r tt t : WT r -> WT tt -> in_ty tt t = true ->
  in_range_m r tt t = in_range_spec r t.
Proof.
  intros HR HT Ht. unfold in_range_m, in_range_spec.
  rewrite cmp_greater_equal_ok, cmp_less_equal_ok by auto using in_ty_tmin, in_ty_tmax.
  unfold cmp_greater_equal_spec, cmp_less_equal_spec, in_ty. now rewrite tmin_imin, tmax_imax.
Qed.

Lemma saturate_cast_ok to from x : WT to -> WT from -> in_ty from x = true ->
  saturate_cast_m to from x = Ok (saturate_cast_spec to x).
Proof.
  intros HR HT Hx. unfold saturate_cast_m, saturate_cast_spec, sat, clamp.
  rewrite cmp_less_ok, cmp_greater_ok by auto using in_ty_tmin, in_ty_tmax.
  unfold cmp_less_spec, cmp_greater_spec. rewrite tmin_imin, tmax_imax.
  destruct (Z.ltb_spec x (imin to)) as [L|L]; [reflexivity|].
  destruct (Z.ltb_spec (imax to) x) as [G|G]; [reflexivity|].
  f_equal. apply cast_id; [assumption|]. apply in_ty_range. lia.
Qed.
