(* C14 proofs: set_bit / reset_bit / flip_bit / test_bit / set_bit(word, pos, value) for every width,
   every word and every position; the precondition pos < digits is checked exactly. *)
From Tetl Require Import Lib.Base C14.Spec C14.Model C14.Arith C14.Bits C14.ProofsRot.
From Coq Require Import ZifyBool Btauto.
Local Open Scope Z_scope.

Lemma W_small_big w : W w -> (w = 8 \/ w = 16) \/ (w = 32 \/ w = 64).
Proof. unfold W. tauto. Qed.

(* UInt(1) << pos, pos in range: 2^pos, never out of range of the (promoted) type *)
Lemma shl_one w k : W w -> 0 <= k < w -> shl (U w) 1 k = Ok (2 ^ k).
Proof.
  intros HW Hk. pose proof (W_pos w HW) as Hp.
  assert (P : 0 < 2 ^ k < 2 ^ w) by (split; [apply pow2_pos; lia | apply pow2_lt; lia]).
  destruct (W_small_big w HW) as [S|B].
  - rewrite shl_small by (auto; lia). f_equal. lia.
  - rewrite shl_big by (auto; lia). f_equal. rewrite Z.mul_1_l. apply Z.mod_small. lia.
Qed.

Lemma shl_zero w k : W w -> 0 <= k < w -> shl (U w) 0 k = Ok 0.
Proof.
  intros HW Hk. pose proof (W_pos w HW) as Hp.
  assert (P : 0 < 2 ^ w) by (apply pow2_pos; lia).
  destruct (W_small_big w HW) as [S|B].
  - rewrite shl_small by (auto; lia). reflexivity.
  - rewrite shl_big by (auto; lia). reflexivity.
Qed.

(* arithmetic on values of the unsigned type that stay in its range is exact *)
Lemma arith_U w x : W w -> 0 <= x < 2 ^ w -> arith (U w) x = Ok x.
Proof.
  intros HW Hx. apply arith_ok; [exact HW|].
  apply in_ty_range. unfold imin, imax, umax. cbn [U sgn bits]. lia.
Qed.

Lemma pow2_range k w : 0 <= k < w -> 0 <= 2 ^ k < 2 ^ w.
Proof. intros. split; [apply Z.lt_le_incl, pow2_pos; lia | apply pow2_lt; lia]. Qed.

Lemma bit_mask_ok w pos : W w -> 0 <= pos < w -> bit_mask w pos = Ok (2 ^ pos).
Proof.
  intros HW Hp. unfold bit_mask. pose proof (W_pos w HW).
  replace (pos <? w) with true by lia. rewrite shl_one by assumption. cbn [rbind].
  f_equal. apply wu_small; [lia | apply pow2_range; lia].
Qed.

Lemma bit_mask_contract w pos : w <= pos -> bit_mask w pos = Contract.
Proof. intros H. unfold bit_mask. replace (pos <? w) with false by lia. reflexivity. Qed.

(* word & UInt(~mask): the complement is taken in the promoted type and converted back *)
Lemma land_not_mask w word m : W w -> 0 <= word < 2 ^ w ->
  Z.land word (wu w (bnot (U w) m)) = Z.ldiff word m.
Proof.
  intros HW Hw. pose proof (W_pos w HW) as Hp.
  assert (E : wu w (bnot (U w) m) = (Z.lnot m) mod 2 ^ w).
  { unfold bnot. destruct (W_small_big w HW) as [[-> | ->] | [-> | ->]]; widths;
      rewrite ?wu_eq by lia; rewrite ?Z.mod_mod by lia; reflexivity. }
  rewrite E. apply Z.bits_inj'. intros i Hi.
  rewrite Z.land_spec, Z.ldiff_spec, Z.testbit_mod_pow2 by lia.
  destruct (Z.ltb_spec i w) as [L|L].
  - rewrite Z.lnot_spec by lia. rewrite andb_true_l. reflexivity.
  - rewrite (testbit_high word w i) by lia. reflexivity.
Qed.

Lemma set_value_in_range w word pos : 0 <= pos < w -> 0 <= word < 2 ^ w ->
  0 <= set_bit_spec word pos < 2 ^ w.
Proof.
  intros Hp Hw. unfold set_bit_spec. rewrite <- lor_pow2 by lia.
  apply lor_range; [lia | lia | apply pow2_range; lia].
Qed.

Lemma reset_value_in_range w word pos : 0 <= pos < w -> 0 <= word < 2 ^ w ->
  0 <= reset_bit_spec word pos < 2 ^ w.
Proof.
  intros Hp Hw. unfold reset_bit_spec. destruct (Z.testbit word pos) eqn:E; [|lia].
  assert (2 ^ pos <= word); [|lia].
  apply Z.testbit_true in E; [|lia].
  assert (0 < 2 ^ pos) by (apply pow2_pos; lia).
  assert (0 <= word / 2 ^ pos) by (apply Z.div_pos; lia).
  assert (1 <= word / 2 ^ pos).
  { destruct (Z.eq_dec (word / 2 ^ pos) 0) as [Z0|NZ]; [rewrite Z0 in E; discriminate | lia]. }
  pose proof (Z.mul_div_le word (2 ^ pos)). nia.
Qed.

Lemma set_bit_ok w word pos : W w -> 0 <= word < 2 ^ w -> 0 <= pos < w ->
  set_bit_m w word pos = Ok (set_bit_spec word pos).
Proof.
  intros HW Hw Hp. unfold set_bit_m. rewrite bit_mask_ok by assumption. cbn [rbind].
  pose proof (W_pos w HW). f_equal. rewrite lor_pow2 by lia.
  apply wu_small; [lia | now apply set_value_in_range].
Qed.

Lemma reset_bit_ok w word pos : W w -> 0 <= word < 2 ^ w -> 0 <= pos < w ->
  reset_bit_m w word pos = Ok (reset_bit_spec word pos).
Proof.
  intros HW Hw Hp. unfold reset_bit_m. pose proof (W_pos w HW).
  replace (pos <? w) with true by lia. rewrite shl_one by assumption. cbn [rbind].
  rewrite land_not_mask by assumption. rewrite ldiff_pow2 by lia. f_equal.
  apply wu_small; [lia | now apply reset_value_in_range].
Qed.

Lemma flip_bit_ok w word pos : W w -> 0 <= word < 2 ^ w -> 0 <= pos < w ->
  flip_bit_m w word pos = Ok (flip_bit_spec word pos).
Proof.
  intros HW Hw Hp. unfold flip_bit_m. rewrite bit_mask_ok by assumption. cbn [rbind].
  pose proof (W_pos w HW). f_equal. rewrite lxor_pow2 by lia. unfold flip_bit_spec.
  pose proof (set_value_in_range w word pos Hp Hw) as S.
  pose proof (reset_value_in_range w word pos Hp Hw) as R.
  unfold set_bit_spec, reset_bit_spec in *.
  destruct (Z.testbit word pos); apply wu_small; lia.
Qed.

Lemma test_bit_ok w word pos : W w -> 0 <= word < 2 ^ w -> 0 <= pos < w ->
  test_bit_m w word pos = Ok (test_bit_spec word pos).
Proof.
  intros HW Hw Hp. unfold test_bit_m. rewrite bit_mask_ok by assumption. cbn [rbind].
  pose proof (W_pos w HW). f_equal. rewrite land_pow2 by lia. unfold test_bit_spec.
  pose proof (pow2_range pos w Hp). assert (0 < 2 ^ pos) by (apply pow2_pos; lia).
  destruct (Z.testbit word pos).
  - rewrite wu_small by lia. destruct (Z.eqb_spec (2 ^ pos) 0); [lia | reflexivity].
  - reflexivity.
Qed.

Lemma assign_bit_ok w word pos v : W w -> 0 <= word < 2 ^ w -> 0 <= pos < w ->
  assign_bit_m w word pos v = Ok (assign_bit_spec word pos v).
Proof.
  intros HW Hw Hp. unfold assign_bit_m. pose proof (W_pos w HW).
  replace (pos <? w) with true by lia. rewrite shl_one by assumption. cbn [rbind].
  rewrite land_not_mask by assumption.
  pose proof (reset_value_in_range w word pos Hp Hw) as R.
  pose proof (set_value_in_range w word pos Hp Hw) as S.
  unfold reset_bit_spec, set_bit_spec in *.
  destruct v; unfold assign_bit_spec.
  - rewrite shl_one by assumption. cbn [rbind]. f_equal.
    rewrite lor_pow2 by lia.
    assert (C : Z.testbit (Z.ldiff word (2 ^ pos)) pos = false).
    { rewrite Z.ldiff_spec, Z.pow2_bits_true by lia. apply andb_false_r. }
    rewrite C, ldiff_pow2 by lia. unfold set_bit_spec.
    destruct (Z.testbit word pos); (rewrite wu_small by lia); lia.
  - rewrite shl_zero by assumption. cbn [rbind]. f_equal. rewrite Z.lor_0_r, ldiff_pow2 by lia.
    unfold reset_bit_spec. apply wu_small; lia.
Qed.

(* the precondition is checked exactly: every position >= digits is a contract failure *)
Lemma single_bit_contract w word pos v : w <= pos ->
  set_bit_m w word pos = Contract /\ reset_bit_m w word pos = Contract /\ flip_bit_m w word pos = Contract
  /\ test_bit_m w word pos = Contract /\ assign_bit_m w word pos v = Contract.
Proof.
  intros H. unfold set_bit_m, reset_bit_m, flip_bit_m, test_bit_m, assign_bit_m.
  rewrite bit_mask_contract by assumption. replace (pos <? w) with false by lia. repeat split.
Qed.

Lemma single_bit_all w : W w -> forall word pos, 0 <= word < 2 ^ w -> 0 <= pos ->
  (pos < w ->
     set_bit_m w word pos = Ok (set_bit_spec word pos)
     /\ reset_bit_m w word pos = Ok (reset_bit_spec word pos)
     /\ flip_bit_m w word pos = Ok (flip_bit_spec word pos)
     /\ test_bit_m w word pos = Ok (test_bit_spec word pos)
     /\ (forall v, assign_bit_m w word pos v = Ok (assign_bit_spec word pos v)))
  /\ (w <= pos ->
     set_bit_m w word pos = Contract /\ reset_bit_m w word pos = Contract /\ flip_bit_m w word pos = Contract
     /\ test_bit_m w word pos = Contract /\ (forall v, assign_bit_m w word pos v = Contract)).
Proof.
  intros HW word pos Hw Hp. split; intros H.
  - repeat split; [apply set_bit_ok | apply reset_bit_ok | apply flip_bit_ok | apply test_bit_ok
                   | intros v; apply assign_bit_ok]; auto; lia.
  - destruct (single_bit_contract w word pos true H) as (A & B & C & D & _).
    repeat split; auto. intros v. now destruct (single_bit_contract w word pos v H) as (_ & _ & _ & _ & E).
Qed.
